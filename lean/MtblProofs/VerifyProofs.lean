import MtblModel.Verify
import MtblProofs.FileEncProofs
import MtblProofs.CrcDetectProofs
/-
  C12 at the file level: `mtbl_verify` (MtblModel/Verify.lean) and the verifying reader on
  (a) the bytes of a legal encoding — everything passes;
  (b) the same bytes with the checksum field and/or the stored bytes of ONE frame xor-ed with an error
      pattern the CRC-32C detects (CrcDetectProofs) — `get_block` stops on that block, `mtbl_verify`
      reports FAILED (data block) or stops inside the open (index block).
-/
namespace Mtbl

namespace Verify
open FileEnc

/-! ### A. one frame with an arbitrary checksum field, as the reader / the sweep parse it -/

theorem dec32_append4 (field rest : Bytes) (hf : field.length = 4) : dec32 (field ++ rest) = dec32 field := by
  obtain ⟨a, b, c, d, rfl⟩ := CrcD.list4 field hf
  rfl

/-- a frame whose checksum field is arbitrary: `prefix(len) ++ field ++ body ++ rest` -/
def gframe (ver : FVersion) (field body : Bytes) : Bytes := lenPrefix ver body.length ++ (field ++ body)

theorem gframe_length (ver : FVersion) (field body : Bytes) (hf : field.length = 4) :
    (gframe ver field body).length = prefixLen ver body.length + 4 + body.length := by
  unfold gframe
  simp only [List.length_append, lenPrefix_length, hf]
  omega

theorem eframe_gframe (ver : FVersion) (s : Bytes) : eframe ver s = gframe ver (fixed32 (crc32c s)) s :=
  eframe_eq ver s

/-- everything the reader computes from the bytes of one (possibly damaged) frame found at `off` -/
theorem gframe_parse (file : Bytes) (off : Nat) (ver : FVersion) (field body rest : Bytes)
    (h : file.drop off = gframe ver field body ++ rest) (hf : field.length = 4)
    (h64 : body.length < 2^64) (h32 : ver = .v1 → body.length < 2^32) :
    off + prefixLen ver body.length + 4 + body.length + rest.length = file.length ∧
    (if ver.toV = .v1 then (dec32 (file.drop off), 4) else vdecode64 (file.drop off))
      = (body.length, prefixLen ver body.length) ∧
    rdAt file (off + prefixLen ver body.length + 4) body.length = some body ∧
    (file.drop (off + prefixLen ver body.length + 4)).take body.length = body ∧
    dec32 (file.drop (off + prefixLen ver body.length)) = dec32 field := by
  have hpos := prefixLen_pos ver body.length
  have hlen : off + prefixLen ver body.length + 4 + body.length + rest.length = file.length := by
    have := congrArg List.length h
    rw [List.length_drop, List.length_append, gframe_length _ _ _ hf] at this
    omega
  have hd1 : file.drop (off + prefixLen ver body.length) = field ++ (body ++ rest) := by
    rw [← List.drop_drop, h]
    unfold gframe
    simp only [List.append_assoc]
    exact List.drop_left' (lenPrefix_length ver body.length)
  have hd2 : file.drop (off + prefixLen ver body.length + 4) = body ++ rest := by
    rw [← List.drop_drop, hd1]
    exact List.drop_left' hf
  refine ⟨hlen, ?_, ?_, ?_, ?_⟩
  · rw [h]
    unfold gframe
    rw [List.append_assoc]
    cases ver with
    | v1 =>
      rw [if_pos (show FVersion.v1.toV = Version.v1 from rfl)]
      show (dec32 (fixed32 body.length ++ _), 4) = (body.length, 4)
      rw [dec32_fixed32 (h32 rfl)]
    | v2 =>
      rw [if_neg (by simp [FVersion.toV])]
      show vdecode64 (venc body.length ++ _) = (body.length, vlen body.length)
      exact vdecode64_venc h64 _
  · unfold rdAt
    rw [if_pos (by omega), hd2, List.take_left]
  · rw [hd2, List.take_left]
  · rw [hd1, dec32_append4 _ _ hf]

/-! ### A'. files as `pre ++ frames ++ tail`; replacing one frame by one of the same length -/

/-- a file: foreign bytes, the data frames, everything behind them (index frame and trailer) -/
def assemble (pre : Bytes) (frames : List Bytes) (tail : Bytes) : Bytes := pre ++ frames.flatMap id ++ tail

theorem encode_assemble (f : EFile) (comp : Bytes → Bytes) :
    f.encode comp = assemble f.pre (f.dataFrames comp) (idxFrame f comp ++ trailer f comp) := by
  rw [encode_eq]
  unfold assemble fdata
  simp only [List.append_assoc]

theorem assemble_split (pre : Bytes) (frames : List Bytes) (tail : Bytes) (j : Nat) (fr : Bytes)
    (hfr : frames[j]? = some fr) :
    assemble pre frames tail =
      (pre ++ (frames.take j).flatMap id) ++ (fr ++ ((frames.drop (j + 1)).flatMap id ++ tail)) := by
  unfold assemble
  rw [flatMap_split frames j fr hfr]
  simp only [List.append_assoc]

/-- where frame `j` starts, what is found there, and that it ends inside the data area -/
theorem assemble_drop (pre : Bytes) (frames : List Bytes) (tail : Bytes) (j : Nat) (fr : Bytes) (off : Nat)
    (hfr : frames[j]? = some fr) (hoff : (frameOffsets pre.length frames)[j]? = some off) :
    (assemble pre frames tail).drop off = fr ++ ((frames.drop (j + 1)).flatMap id ++ tail) ∧
    off = pre.length + ((frames.take j).flatMap id).length ∧
    off + fr.length ≤ pre.length + (frames.flatMap id).length := by
  have hj : j < frames.length := BlockEnc.lt_of_getElem? _ _ _ hfr
  rw [frameOffsets_getElem? frames pre.length j hj] at hoff
  have hoff := (Option.some.inj hoff).symm
  refine ⟨?_, hoff, ?_⟩
  · rw [assemble_split pre frames tail j fr hfr]
    exact List.drop_left' (by rw [List.length_append]; exact hoff.symm)
  · rw [flatMap_split frames j fr hfr]
    simp only [List.length_append]
    omega

theorem getElem?_set_self' {α : Type} (l : List α) (j : Nat) (a x : α) (h : l[j]? = some x) :
    (l.set j a)[j]? = some a := by
  have hj : j < l.length := BlockEnc.lt_of_getElem? _ _ _ h
  rw [List.getElem?_set_self hj]

/-- replacing a frame by one of the same length moves no frame -/
theorem frameOffsets_set (frames : List Bytes) : ∀ (j : Nat) (fr fr' : Bytes) (s : Nat),
    frames[j]? = some fr → fr'.length = fr.length →
    frameOffsets s (frames.set j fr') = frameOffsets s frames := by
  induction frames with
  | nil => intro j fr fr' s h; simp at h
  | cons a rest ih =>
    intro j fr fr' s h hl
    cases j with
    | zero =>
      simp only [List.getElem?_cons_zero, Option.some.injEq] at h
      subst h
      simp only [List.set_cons_zero, frameOffsets, hl]
    | succ j =>
      simp only [List.getElem?_cons_succ] at h
      simp only [List.set_cons_succ, frameOffsets, ih j fr fr' _ h hl]

theorem take_set_self {α : Type} (l : List α) (j : Nat) (a : α) : (l.set j a).take j = l.take j := by
  rw [List.take_set, List.set_eq_of_length_le (by rw [List.length_take]; omega)]

theorem drop_set_succ {α : Type} (l : List α) (j : Nat) (a : α) : (l.set j a).drop (j + 1) = l.drop (j + 1) := by
  rw [List.drop_set, if_pos (by omega)]

/-- the file with frame `j` replaced -/
theorem assemble_set (pre : Bytes) (frames : List Bytes) (tail : Bytes) (j : Nat) (fr fr' : Bytes)
    (hfr : frames[j]? = some fr) :
    assemble pre (frames.set j fr') tail =
      (pre ++ (frames.take j).flatMap id) ++ (fr' ++ ((frames.drop (j + 1)).flatMap id ++ tail)) := by
  rw [assemble_split pre (frames.set j fr') tail j fr' (getElem?_set_self' frames j fr' fr hfr),
    take_set_self, drop_set_succ]

theorem flatMap_set_length (frames : List Bytes) (j : Nat) (fr fr' : Bytes)
    (hfr : frames[j]? = some fr) (hl : fr'.length = fr.length) :
    ((frames.set j fr').flatMap id).length = (frames.flatMap id).length := by
  rw [flatMap_split frames j fr hfr,
    flatMap_split (frames.set j fr') j fr' (getElem?_set_self' frames j fr' fr hfr),
    take_set_self, drop_set_succ]
  simp only [List.length_append, hl]

/-! ### A''. the damage: xor masks on the checksum field and the stored bytes of one frame -/

/-- `file` with the 4 bytes at `pos` (a frame's checksum field) xor-ed with `ef` and the following
    `len` bytes (the frame's stored bytes) xor-ed with `ep`; nothing else changes.
    For the frame at offset `off` with an `ll`-byte length prefix: `pos = off + ll`. -/
def damageFrame (file : Bytes) (pos len : Nat) (ef ep : Bytes) : Bytes :=
  file.take pos ++ xorBytes ((file.drop pos).take 4) ef ++ xorBytes ((file.drop (pos + 4)).take len) ep
    ++ file.drop (pos + 4 + len)

theorem damageFrame_gframe (P Q : Bytes) (ver : FVersion) (field body ef ep : Bytes)
    (hf : field.length = 4) (hep : ep.length = body.length) :
    damageFrame (P ++ (gframe ver field body ++ Q)) (P.length + prefixLen ver body.length) body.length ef ep
      = P ++ (gframe ver (xorBytes field ef) (xorBytes body ep) ++ Q) := by
  have hA : (P ++ lenPrefix ver body.length).length = P.length + prefixLen ver body.length := by
    rw [List.length_append, lenPrefix_length]
  have e : P ++ (gframe ver field body ++ Q) = (P ++ lenPrefix ver body.length) ++ (field ++ (body ++ Q)) := by
    unfold gframe
    simp only [List.append_assoc]
  unfold damageFrame
  rw [e, List.take_left' hA, List.drop_left' hA, List.take_left' hf]
  have h1 : (P ++ lenPrefix ver body.length ++ (field ++ (body ++ Q))).drop
      (P.length + prefixLen ver body.length + 4) = body ++ Q := by
    rw [← List.drop_drop, List.drop_left' hA, List.drop_left' hf]
  have h2 : (P ++ lenPrefix ver body.length ++ (field ++ (body ++ Q))).drop
      (P.length + prefixLen ver body.length + 4 + body.length) = Q := by
    rw [← List.drop_drop, h1, List.drop_left]
  rw [h1, h2, List.take_left]
  unfold gframe
  simp only [List.append_assoc]
  rw [CrcD.xorBytes_length body ep hep.symm]

/-! ### A3. `mtbl_reader_init` on `P ++ (any frame) ++ trailer of f` -/

/-- the open of any file that ends with a frame (arbitrary checksum field and body of at least 8 bytes)
    followed by the trailer of `f`, with as many bytes before the frame as the trailer says: the trailer
    reads back, the `end` test and the F9 length test pass, and what remains is the checksum step and
    `block_init` on the body (`openTail`) -/
theorem open_gen (f : EFile) (comp : Bytes → Bytes) (decomp : Nat → Bytes → Option Bytes) (verify : Bool)
    (file P field body : Bytes)
    (hfile : file = P ++ (gframe f.version field body ++ trailer f comp))
    (hP : P.length = indexOff f comp) (hf : field.length = 4)
    (hsize : file.length < 2^64) (h8 : 8 ≤ body.length)
    (h32 : f.version = .v1 → body.length < 2^32) :
    readerOpen true f.thr decomp verify file =
      OpenProofs.openTail f.thr decomp verify file (rmeta f comp) (indexOff f comp) body.length
        (prefixLen f.version body.length) ∧
    rdAt file (indexOff f comp + prefixLen f.version body.length + 4) body.length = some body ∧
    dec32 (file.drop (indexOff f comp + prefixLen f.version body.length)) = dec32 field := by
  have hfl := gframe_length f.version field body hf
  have hlen : file.length = indexOff f comp + (gframe f.version field body).length + 512 := by
    rw [hfile]
    simp only [List.length_append, trailer_length, hP]
    omega
  have p64 : (2:Nat)^64 = 18446744073709551616 := by decide
  have hdropT : file.drop (file.length - METADATA_SIZE) = trailer f comp := by
    have h : file.length - METADATA_SIZE = (P ++ gframe f.version field body).length := by
      rw [hlen, List.length_append, hP]; show _ + 512 - 512 = _; omega
    rw [h, hfile, ← List.append_assoc]
    exact List.drop_left
  have hio : (rmeta f comp).indexBlockOffset = indexOff f comp := by
    show (f.pre.length + (fdata f comp).length) % 2^64 = indexOff f comp
    unfold indexOff at hlen ⊢
    exact Nat.mod_eq_of_lt (by omega)
  have hv : (rmeta f comp).version = f.version.toV := rfl
  have hdropI : file.drop (indexOff f comp) = gframe f.version field body ++ trailer f comp := by
    rw [hfile]
    exact List.drop_left' hP
  have h64 : body.length < 2^64 := by omega
  obtain ⟨_, hpre, hrd, _, hcrc⟩ :=
    gframe_parse file (indexOff f comp) f.version field body (trailer f comp) hdropI hf h64 h32
  have hmin : (if f.version.toV = Version.v1 then 16 else 13) ≤ (gframe f.version field body).length := by
    rw [hfl]
    cases f.version
    · show 16 ≤ 4 + 4 + _; omega
    · have := vlen_pos body.length
      show 13 ≤ vlen _ + 4 + _
      omega
  have hp : OpenProofs.openPrefix file (rmeta f comp) = (body.length, prefixLen f.version body.length) := by
    unfold OpenProofs.openPrefix
    rw [hio, hv, hdropI]
    cases hver : f.version with
    | v1 =>
      rw [hver] at hpre hdropI
      rw [← hdropI]
      exact hpre
    | v2 =>
      rw [if_neg (by simp [FVersion.toV])]
      unfold gframe
      rw [List.append_assoc]
      exact take10 _ h64 _
  refine ⟨?_, hrd, hcrc⟩
  rw [OpenProofs.readerOpen_eq]
  simp only [hdropT, trailer_read, hio, hv, hp]
  have hM : METADATA_SIZE = 512 := rfl
  have hU : U64 = 18446744073709551616 := rfl
  rw [if_neg (by omega)]
  have hend : (indexOff f comp + METADATA_SIZE + (if f.version.toV = Version.v1 then 16 else 13)) % U64
      = indexOff f comp + METADATA_SIZE + (if f.version.toV = Version.v1 then 16 else 13) := by
    apply Nat.mod_eq_of_lt
    omega
  rw [hend, if_neg (by omega), if_neg (by omega)]

/-- the checksum step of the open stops the process when the index checksum does not match -/
theorem openTail_abort (thr : Nat) (decomp : Nat → Bytes → Option Bytes) (file : Bytes)
    (m : Meta) (io ilen ill : Nat) (body : Bytes)
    (hrd : rdAt file (io + ill + 4) ilen = some body)
    (hcrc : dec32 (file.drop (io + ill)) ≠ crc32c body) :
    OpenProofs.openTail thr decomp true file m io ilen ill = .abort "index crc" := by
  unfold OpenProofs.openTail
  simp only [hrd, hcrc, if_true, if_false]

/-! ### A4. the sweep of verify_data_blocks -/

/-- one round of the loop on a (possibly damaged) frame -/
theorem sweep_step (ver : FVersion) (data : Bytes) (bytesData left off consumed : Nat)
    (field body rest : Bytes)
    (h : data.drop off = gframe ver field body ++ rest) (hf : field.length = 4)
    (h64 : body.length < 2^64) (h32 : ver = .v1 → body.length < 2^32) :
    verifySweep (decide (ver.toV = .v1)) data bytesData (left + 1) off consumed =
      if consumed + prefixLen ver body.length + 4 + body.length > bytesData then .failed else
      if dec32 field ≠ crc32c body then .failed else
      verifySweep (decide (ver.toV = .v1)) data bytesData left
        (off + prefixLen ver body.length + 4 + body.length)
        (consumed + prefixLen ver body.length + 4 + body.length) := by
  obtain ⟨_, hpre, _, htake, hcrc⟩ := gframe_parse data off ver field body rest h hf h64 h32
  rw [verifySweep]
  simp only [decide_eq_true_eq, hpre, htake, hcrc]

/-- a round on a damaged frame reports FAILED (whichever of the two tests fires) -/
theorem sweep_bad (ver : FVersion) (data : Bytes) (bytesData left off consumed : Nat)
    (field body rest : Bytes)
    (h : data.drop off = gframe ver field body ++ rest) (hf : field.length = 4)
    (h64 : body.length < 2^64) (h32 : ver = .v1 → body.length < 2^32)
    (hbad : blockVerifies body field = false) :
    verifySweep (decide (ver.toV = .v1)) data bytesData (left + 1) off consumed = .failed := by
  have hne : dec32 field ≠ crc32c body := by
    unfold blockVerifies at hbad
    intro he
    rw [he, beq_self_eq_true] at hbad
    exact Bool.noConfusion hbad
  rw [sweep_step ver data bytesData left off consumed field body rest h hf h64 h32]
  simp only [hne, ne_eq, not_false_eq_true, if_true, ite_self]

/-- total length of a run of frames -/
def flen (ver : FVersion) (ss : List Bytes) : Nat := ((ss.map (eframe ver)).flatMap id).length

/-- the sweep walks over a run of intact frames that stays inside `bytes_data_blocks` -/
theorem sweep_prefix (ver : FVersion) (data : Bytes) (bytesData : Nat) :
    ∀ (ss : List Bytes) (k off consumed : Nat) (rest : Bytes),
    (∀ s ∈ ss, s.length < 2^64 ∧ (ver = .v1 → s.length < 2^32)) →
    data.drop off = (ss.map (eframe ver)).flatMap id ++ rest →
    consumed + flen ver ss ≤ bytesData →
    verifySweep (decide (ver.toV = .v1)) data bytesData (ss.length + k) off consumed =
      verifySweep (decide (ver.toV = .v1)) data bytesData k (off + flen ver ss) (consumed + flen ver ss) := by
  intro ss
  induction ss with
  | nil => intro k off consumed rest _ _ _; simp [flen]
  | cons s ss ih =>
    intro k off consumed rest hs h hc
    have hfl : flen ver (s :: ss) = prefixLen ver s.length + 4 + s.length + flen ver ss := by
      unfold flen
      rw [List.map_cons, List.flatMap_cons, List.length_append]
      show (eframe ver s).length + _ = _
      rw [eframe_length]
    have h' : data.drop off = gframe ver (fixed32 (crc32c s)) s ++ ((ss.map (eframe ver)).flatMap id ++ rest) := by
      rw [h, List.map_cons, List.flatMap_cons, List.append_assoc, ← eframe_gframe]; rfl
    have hs0 := hs s (List.mem_cons_self ..)
    have e : (s :: ss).length + k = (ss.length + k) + 1 := by rw [List.length_cons]; omega
    rw [e, sweep_step ver data bytesData _ off consumed _ s _ h' (fixed32_length _) hs0.1 hs0.2]
    rw [if_neg (by omega), CrcD.dec32_fixed32' (FileEnc.crc32c_lt s)]
    simp only [ne_eq, not_true_eq_false, if_false]
    have hd : data.drop (off + prefixLen ver s.length + 4 + s.length) = (ss.map (eframe ver)).flatMap id ++ rest := by
      have : off + prefixLen ver s.length + 4 + s.length = off + (gframe ver (fixed32 (crc32c s)) s).length := by
        rw [gframe_length _ _ _ (fixed32_length _)]; omega
      rw [this, ← List.drop_drop, h', List.drop_left]
    rw [ih k _ _ rest (fun x hx => hs x (List.mem_cons_of_mem _ hx)) hd (by omega), hfl]
    congr 1 <;> omega

/-! ### A5. what `verify_file` does after a successful open of a file with `f`'s trailer -/

/-- the part of `verifyTool` behind the open -/
def afterOpen (m : Meta) (file : Bytes) : VRes :=
  if m.bytesDataBlocks = 0 ∧ m.countDataBlocks = 0 then .ok else
  verifySweep (m.version = .v1) (file.drop (subU64 m.indexBlockOffset m.bytesDataBlocks)) m.bytesDataBlocks
    m.countDataBlocks 0 0

theorem verifyTool_ok (thr : Nat) (decomp : Nat → Bytes → Option Bytes) (file : Bytes) (r : Rd)
    (h : readerOpen true thr decomp true file = .ok r) : verifyTool thr decomp file = afterOpen r.m file := by
  unfold verifyTool afterOpen
  rw [h]

theorem verifyTool_abort (thr : Nat) (decomp : Nat → Bytes → Option Bytes) (file : Bytes) (w : String)
    (h : readerOpen true thr decomp true file = .abort w) : verifyTool thr decomp file = .abort := by
  unfold verifyTool
  rw [h]

theorem dataFrames_map (f : EFile) (comp : Bytes → Bytes) :
    f.dataFrames comp = (f.blocks.map (stored f comp)).map (eframe f.version) := by
  rw [dataFrames_eq, List.map_map]; rfl

theorem flatMap_length_ge (frs : List Bytes) (h : ∀ fr ∈ frs, 0 < fr.length) :
    frs.length ≤ (frs.flatMap id).length := by
  induction frs with
  | nil => exact Nat.le_refl _
  | cons a rest ih =>
    have := h a (List.mem_cons_self ..)
    have := ih (fun x hx => h x (List.mem_cons_of_mem _ hx))
    simp only [List.flatMap_cons, List.length_append, List.length_cons, id]
    omega

theorem blocks_le_fdata (f : EFile) (comp : Bytes → Bytes) : f.blocks.length ≤ (fdata f comp).length := by
  have := flatMap_length_ge (f.dataFrames comp) (by
    intro fr hfr
    rw [dataFrames_eq, List.mem_map] at hfr
    obtain ⟨b, _, rfl⟩ := hfr
    rw [eframe_length]
    have := prefixLen_pos f.version (stored f comp b).length
    omega)
  rw [dataFrames_eq, List.length_map] at this
  exact this

/-- the three trailer fields `mtbl_verify` uses are exact for a file shorter than 2^64 bytes -/
theorem afterOpen_eq (f : EFile) (comp : Bytes → Bytes) (hsize : (f.encode comp).length < 2^64) (file : Bytes) :
    afterOpen (rmeta f comp) file =
      if (fdata f comp).length = 0 ∧ f.blocks.length = 0 then .ok else
      verifySweep (decide (f.version.toV = .v1)) (file.drop f.pre.length) (fdata f comp).length
        f.blocks.length 0 0 := by
  have hlen := encode_length f comp
  unfold indexOff at hlen
  have hle := blocks_le_fdata f comp
  have p64 : (2:Nat)^64 = 18446744073709551616 := by decide
  have h1 : (rmeta f comp).bytesDataBlocks = (fdata f comp).length := by
    show (fdata f comp).length % 2^64 = _
    exact Nat.mod_eq_of_lt (by omega)
  have h2 : (rmeta f comp).countDataBlocks = f.blocks.length := by
    show f.blocks.length % 2^64 = _
    exact Nat.mod_eq_of_lt (by omega)
  have h3 : (rmeta f comp).indexBlockOffset = f.pre.length + (fdata f comp).length := by
    show (f.pre.length + (fdata f comp).length) % 2^64 = _
    exact Nat.mod_eq_of_lt (by omega)
  have h4 : (rmeta f comp).version = f.version.toV := rfl
  have h5 : subU64 (f.pre.length + (fdata f comp).length) (fdata f comp).length = f.pre.length := by
    unfold subU64 U64
    omega
  unfold afterOpen
  rw [h1, h2, h3, h4, h5]

/-- hypotheses on an encoded file used below: size, and `block_init` accepts the index block
    (all consequences of `EFile.legal` and the size side conditions, see `vhyp_of_legal`) -/
structure VHyp (f : EFile) (comp : Bytes → Bytes) : Prop where
  size : (f.encode comp).length < 2^64
  idx8 : 8 ≤ (idxStored f comp).length
  idxInit : blockInit f.thr (idxStored f comp) = some (blkOf f.thr (f.indexBlock comp))
  v1 : f.version = .v1 →
    (∀ b ∈ f.blocks, (stored f comp b).length < 2^32) ∧ (idxStored f comp).length < 2^32

theorem vhyp_of_legal (f : EFile) (comp : Bytes → Bytes)
    (hl : f.legal comp = true) (hthr : f.thr < 2^32) (hsize : (f.encode comp).length < 2^64)
    (hnri : f.indexRestarts.length < 2^32 - 1)
    (hv1 : f.version = .v1 →
      (∀ b ∈ f.blocks, (if f.compression = 0 then b.encode f.thr else comp (b.encode f.thr)).length < 2^32) ∧
      ((f.indexBlock comp).encode f.thr).length < 2^32) : VHyp f comp := by
  have hL := legalP_of_legal f comp hl
  have hlen := FileEnc.encode_length f comp
  have hidx8 := eframe_length f.version (idxStored f comp)
  rw [← idxFrame_eq] at hidx8
  have hidxsize : ((f.indexBlock comp).encode f.thr).length < 2^64 := by
    show (idxStored f comp).length < 2^64
    omega
  obtain ⟨hinit, _⟩ := encode_ok' f.thr (f.indexBlock comp) hL.index hthr hidxsize hnri
  have h8 : 8 ≤ (idxStored f comp).length := by
    have := BlockEnc.encode_length f.thr (f.indexBlock comp)
    have hpos := ((BlockEnc.legal_iff _).mp hL.index).restarts_pos
    have hw : 4 ≤ BlockEnc.rw_ f.thr (f.indexBlock comp) := by unfold BlockEnc.rw_; split <;> omega
    have hmul : 4 ≤ (f.indexBlock comp).restarts.length * BlockEnc.rw_ f.thr (f.indexBlock comp) :=
      Nat.le_trans hw (Nat.le_mul_of_pos_left _ hpos)
    show 8 ≤ ((f.indexBlock comp).encode f.thr).length
    omega
  exact ⟨hsize, h8, hinit, hv1⟩

/-- sizes of the stored bytes of every data block -/
theorem VHyp.stored_lt {f : EFile} {comp : Bytes → Bytes} (h : VHyp f comp) :
    ∀ s ∈ f.blocks.map (stored f comp), s.length < 2^64 ∧ (f.version = .v1 → s.length < 2^32) := by
  intro s hs
  obtain ⟨b, hb, rfl⟩ := List.mem_map.mp hs
  refine ⟨?_, fun hv => (h.v1 hv).1 b hb⟩
  obtain ⟨j, hj, rfl⟩ := List.mem_iff_getElem.mp hb
  obtain ⟨off, ho⟩ := BlockEnc.getElem?_of_lt (offs f comp) j (by rw [offs_length]; exact hj)
  have hfr : (f.dataFrames comp)[j]? = some (eframe f.version (stored f comp f.blocks[j])) := by
    rw [dataFrames_eq, List.getElem?_map, List.getElem?_eq_getElem hj]; rfl
  obtain ⟨_, _, hle⟩ := encode_drop_frame f comp j _ off hfr ho
  rw [eframe_length] at hle
  have := encode_length f comp
  have := h.size
  omega

/-- the open of any file `pre ++ frames' ++ index frame ++ trailer` whose data area has the length the
    trailer says succeeds, whatever the data frames are (they are not looked at) -/
theorem open_frames (f : EFile) (comp : Bytes → Bytes) (decomp : Nat → Bytes → Option Bytes)
    (verify : Bool) (h : VHyp f comp) (frames' : List Bytes)
    (hl : (frames'.flatMap id).length = (fdata f comp).length) :
    readerOpen true f.thr decomp verify (assemble f.pre frames' (idxFrame f comp ++ trailer f comp)) =
      .ok { openedRd f comp decomp verify with
            data := assemble f.pre frames' (idxFrame f comp ++ trailer f comp) } := by
  have hflen : (assemble f.pre frames' (idxFrame f comp ++ trailer f comp)).length = (f.encode comp).length := by
    rw [encode_eq]
    unfold assemble
    simp only [List.length_append, hl]
    omega
  have hfile : assemble f.pre frames' (idxFrame f comp ++ trailer f comp) =
      (f.pre ++ frames'.flatMap id) ++
        (gframe f.version (fixed32 (crc32c (idxStored f comp))) (idxStored f comp) ++ trailer f comp) := by
    rw [← eframe_gframe, ← idxFrame_eq]
    rfl
  obtain ⟨hopen, hrd, hcrc⟩ := open_gen f comp decomp verify _ _ _ _ hfile
    (by rw [List.length_append, hl]; rfl) (fixed32_length _) (by rw [hflen]; exact h.size) h.idx8
    (fun hv => (h.v1 hv).2)
  rw [hopen]
  rw [CrcD.dec32_fixed32' (FileEnc.crc32c_lt _)] at hcrc
  exact openTail_ok _ _ _ _ _ _ _ _ _ _ hrd hcrc h.idx8 h.idxInit

/-! ### A6. the damaged files -/

/-- error patterns (xor masks `ep` on the stored bytes, `ef` on the checksum field) that the CRC-32C is
    proved to detect on a block of `n` stored bytes: at least one bit is altered, and either at most three
    bits are (block shorter than 2^31 - 1 bits, checksum included), or all altered bits lie in a window of
    32 consecutive bit positions of stored bytes ++ checksum field -/
def Detectable (n : Nat) (ep ef : Bytes) : Prop :=
  0 < weight ep + weight ef ∧
  ((weight ep + weight ef ≤ 3 ∧ 8 * n + 32 < 2^31 - 1) ∨ burstWithin (ep ++ ef) 32)

theorem detectable_bad (s ep ef : Bytes) (hl : ep.length = s.length) (hf : ef.length = 4)
    (hd : Detectable s.length ep ef) :
    blockVerifies (xorBytes s ep) (xorBytes (fixed32 (crc32c s)) ef) = false := by
  obtain ⟨hw, h | h⟩ := hd
  · exact C12_detect_weight s ep ef hl hf hw h.1 h.2
  · exact C12_detect_burst_any s ep ef hl hf hw h

/-- the damaged version of the frame of `s` -/
def badFrame (ver : FVersion) (s ef ep : Bytes) : Bytes :=
  gframe ver (xorBytes (fixed32 (crc32c s)) ef) (xorBytes s ep)

theorem badFrame_length (ver : FVersion) (s ef ep : Bytes) (hl : ep.length = s.length) (hf : ef.length = 4) :
    (badFrame ver s ef ep).length = (eframe ver s).length := by
  unfold badFrame
  rw [gframe_length _ _ _ (by rw [CrcD.xorBytes_length _ _ (by rw [fixed32_length, hf]), fixed32_length]),
    CrcD.xorBytes_length _ _ hl.symm, eframe_length]

/-- `f.encode comp` with the checksum field of data frame `j` (at `off`) xor-ed with `ef` and its stored
    bytes xor-ed with `ep` -/
def damagedData (f : EFile) (comp : Bytes → Bytes) (b : EBlock) (off : Nat) (ef ep : Bytes) : Bytes :=
  damageFrame (f.encode comp) (off + prefixLen f.version (stored f comp b).length)
    (stored f comp b).length ef ep

/-- the same for the index frame -/
def damagedIndex (f : EFile) (comp : Bytes → Bytes) (ef ep : Bytes) : Bytes :=
  damageFrame (f.encode comp) (indexOff f comp + prefixLen f.version (idxStored f comp).length)
    (idxStored f comp).length ef ep

theorem dataFrames_get (f : EFile) (comp : Bytes → Bytes) (j : Nat) (b : EBlock) (hb : f.blocks[j]? = some b) :
    (f.dataFrames comp)[j]? = some (eframe f.version (stored f comp b)) := by
  rw [dataFrames_eq, List.getElem?_map, hb]; rfl

/-- the damaged file is the encoded file with frame `j` replaced by the damaged frame -/
theorem damagedData_eq (f : EFile) (comp : Bytes → Bytes) (j : Nat) (b : EBlock) (off : Nat) (ef ep : Bytes)
    (hb : f.blocks[j]? = some b) (hoff : (offs f comp)[j]? = some off)
    (hep : ep.length = (stored f comp b).length) :
    damagedData f comp b off ef ep =
      assemble f.pre ((f.dataFrames comp).set j (badFrame f.version (stored f comp b) ef ep))
        (idxFrame f comp ++ trailer f comp) := by
  have hfr := dataFrames_get f comp j b hb
  obtain ⟨_, hoff', _⟩ := assemble_drop f.pre (f.dataFrames comp) (idxFrame f comp ++ trailer f comp) j _ off hfr hoff
  unfold damagedData
  rw [encode_assemble, assemble_split _ _ _ j _ hfr, assemble_set _ _ _ j _ _ hfr, eframe_gframe]
  have hP : off = (f.pre ++ ((f.dataFrames comp).take j).flatMap id).length := by
    rw [List.length_append]; exact hoff'
  rw [hP]
  exact damageFrame_gframe _ _ _ _ _ _ _ (fixed32_length _) hep

theorem damagedIndex_eq (f : EFile) (comp : Bytes → Bytes) (ef ep : Bytes)
    (hep : ep.length = (idxStored f comp).length) :
    damagedIndex f comp ef ep =
      (f.pre ++ fdata f comp) ++ (badFrame f.version (idxStored f comp) ef ep ++ trailer f comp) := by
  unfold damagedIndex
  have e : f.encode comp = (f.pre ++ fdata f comp) ++
      (gframe f.version (fixed32 (crc32c (idxStored f comp))) (idxStored f comp) ++ trailer f comp) := by
    rw [encode_eq, ← eframe_gframe, ← idxFrame_eq]
    simp only [List.append_assoc]
  have hP : indexOff f comp = (f.pre ++ fdata f comp).length := by
    rw [List.length_append]; rfl
  rw [e, hP]
  exact damageFrame_gframe _ _ _ _ _ _ _ (fixed32_length _) hep

end Verify

open FileEnc Verify

/-! ### B. C12 (3), frame level: the verifying reader stops on a block whose checksum does not match -/

/-- **get_block detects**, both format versions: if the bytes at `off` are a frame — length prefix of
    `payload'.length`, a 4-byte checksum field `field'`, the stored bytes `payload'` — whose checksum
    test fails, a reader with `verify_checksums` does not decode the block: the outcome is `none`
    (the `assert(block_crc == calc_crc)` in get_block stops the process). -/
theorem getBlock_detects_gen (r : Rd) (off : Nat) (ver : FVersion) (field' payload' rest : Bytes)
    (hv : r.verify = true) (hver : r.m.version = ver.toV)
    (h : r.data.drop off = lenPrefix ver payload'.length ++ (field' ++ payload') ++ rest)
    (hf : field'.length = 4) (h64 : payload'.length < 2^64) (h32 : ver = .v1 → payload'.length < 2^32)
    (hbad : blockVerifies payload' field' = false) :
    getBlock r off = none := by
  obtain ⟨hlen, hpre, hrd, _, hcrc⟩ := gframe_parse r.data off ver field' payload' rest h hf h64 h32
  have hpos := prefixLen_pos ver payload'.length
  rw [← hver] at hpre
  have hne : dec32 field' ≠ crc32c payload' := by
    unfold blockVerifies at hbad
    intro he
    rw [he, beq_self_eq_true] at hbad
    exact Bool.noConfusion hbad
  unfold getBlock
  rw [if_neg (by omega)]
  simp only [hpre, hrd, hcrc, hv, ne_eq, hne, not_false_eq_true, and_self, if_true]

/-- **get_block detects** (format v2, the statement as requested): the bytes at `off` are
    `venc len ++ field' ++ payload' ++ rest`. -/
theorem getBlock_detects (r : Rd) (off len : Nat) (field' payload' rest : Bytes)
    (hv : r.verify = true) (hver : r.m.version = .v2) (_hoff : off < r.data.length)
    (h : r.data.drop off = venc len ++ field' ++ payload' ++ rest)
    (hp : payload'.length = len) (hf : field'.length = 4) (h64 : len < 2^64)
    (hbad : blockVerifies payload' field' = false) :
    getBlock r off = none := by
  subst hp
  refine getBlock_detects_gen r off .v2 field' payload' rest hv hver ?_ hf h64 (fun h => by cases h) hbad
  rw [h]
  simp only [lenPrefix, List.append_assoc]

/-- the v1 analogue: the length prefix is `fixed32 len`, `len < 2^32` -/
theorem getBlock_detects_v1 (r : Rd) (off len : Nat) (field' payload' rest : Bytes)
    (hv : r.verify = true) (hver : r.m.version = .v1) (_hoff : off < r.data.length)
    (h : r.data.drop off = fixed32 len ++ field' ++ payload' ++ rest)
    (hp : payload'.length = len) (hf : field'.length = 4) (h32 : len < 2^32)
    (hbad : blockVerifies payload' field' = false) :
    getBlock r off = none := by
  subst hp
  refine getBlock_detects_gen r off .v1 field' payload' rest hv hver ?_ hf
    (Nat.lt_of_lt_of_le h32 (by decide)) (fun _ => h32) hbad
  rw [h]
  simp only [lenPrefix, List.append_assoc]

/-! ### C. C12 (1): intact files pass `mtbl_verify` -/

/-- **C12, intact.**  `mtbl_verify` on the bytes of an encoded file reports OK: the open with
    `verify_checksums` succeeds (index checksum matches), the three trailer fields it uses are exact, the sweep
    walks the data frames exactly and every checksum matches. -/
theorem C12_intact_verify (f : EFile) (comp : Bytes → Bytes) (decomp : Nat → Bytes → Option Bytes)
    (h : VHyp f comp) : verifyTool f.thr decomp (f.encode comp) = .ok := by
  have hopen := open_frames f comp decomp true h (f.dataFrames comp) rfl
  rw [← encode_assemble] at hopen
  rw [verifyTool_ok _ _ _ _ hopen]
  show afterOpen (rmeta f comp) _ = _
  rw [afterOpen_eq f comp h.size]
  split
  · rfl
  · have hd : ((f.encode comp).drop f.pre.length).drop 0 =
        ((f.blocks.map (stored f comp)).map (eframe f.version)).flatMap id ++ (idxFrame f comp ++ trailer f comp) := by
      rw [List.drop_zero, encode_eq, ← dataFrames_map]
      simp only [List.append_assoc]
      exact List.drop_left
    have hfl : flen f.version (f.blocks.map (stored f comp)) = (fdata f comp).length := by
      unfold flen fdata; rw [dataFrames_map]
    have hk : f.blocks.length = (f.blocks.map (stored f comp)).length + 0 := by rw [List.length_map]; rfl
    rw [hk, sweep_prefix f.version _ _ _ 0 0 0 _ h.stored_lt hd (by rw [hfl]; omega)]
    rw [verifySweep]

/-! ### D. C12 (3): the verifying reader on a file with one damaged data frame -/

/-- the reader obtained by opening the damaged file `file'`: everything as for the intact file, except the bytes -/
def damagedRd (f : EFile) (comp : Bytes → Bytes) (decomp : Nat → Bytes → Option Bytes) (file' : Bytes) : Rd :=
  { openedRd f comp decomp true with data := file' }

/-- **C12, reader.**  Damage (xor masks `ep`, `ef`, detectable in the sense of `Detectable`) in the stored bytes
    and/or the checksum field of data block `j`:
    * the damaged file has the size of the original and still opens with `verify_checksums` (index frame and
      trailer are untouched);
    * `get_block` at the offset of block `j` stops (outcome `none`): no entry is ever decoded from that block;
    * every other data block loads exactly as from the intact file. -/
theorem C12_reader_detects (f : EFile) (comp : Bytes → Bytes) (decomp : Nat → Bytes → Option Bytes)
    (h : VHyp f comp) (j : Nat) (b : EBlock) (off : Nat) (ef ep : Bytes)
    (hb : f.blocks[j]? = some b) (hoff : (offs f comp)[j]? = some off)
    (hep : ep.length = (stored f comp b).length) (hef : ef.length = 4)
    (hd : Detectable (stored f comp b).length ep ef) :
    (damagedData f comp b off ef ep).length = (f.encode comp).length ∧
    readerOpen true f.thr decomp true (damagedData f comp b off ef ep) =
      .ok (damagedRd f comp decomp (damagedData f comp b off ef ep)) ∧
    getBlock (damagedRd f comp decomp (damagedData f comp b off ef ep)) off = none ∧
    ∀ i offi, i ≠ j → (offs f comp)[i]? = some offi →
      getBlock (damagedRd f comp decomp (damagedData f comp b off ef ep)) offi =
        getBlock (openedRd f comp decomp true) offi := by
  have hfr := dataFrames_get f comp j b hb
  have hbl := badFrame_length f.version (stored f comp b) ef ep hep hef
  have hfl := flatMap_set_length (f.dataFrames comp) j _ (badFrame f.version (stored f comp b) ef ep) hfr hbl
  have hoffs : frameOffsets f.pre.length ((f.dataFrames comp).set j (badFrame f.version (stored f comp b) ef ep))
      = offs f comp := frameOffsets_set _ j _ _ _ hfr hbl
  have hst := h.stored_lt
  have hbm : b ∈ f.blocks := List.mem_of_getElem? hb
  rw [damagedData_eq f comp j b off ef ep hb hoff hep]
  refine ⟨?_, open_frames f comp decomp true h _ hfl, ?_, ?_⟩
  · rw [encode_assemble]
    unfold assemble
    simp only [List.length_append, hfl]
  · obtain ⟨hdrop, _, _⟩ := assemble_drop f.pre _ (idxFrame f comp ++ trailer f comp) j _ off
      (getElem?_set_self' _ j _ _ hfr) (by rw [hoffs]; exact hoff)
    have hs := hst _ (List.mem_map_of_mem hbm)
    have hxl := CrcD.xorBytes_length (stored f comp b) ep hep.symm
    obtain ⟨rest, hdrop⟩ : ∃ rest, List.drop off (assemble f.pre
        ((f.dataFrames comp).set j (badFrame f.version (stored f comp b) ef ep))
        (idxFrame f comp ++ trailer f comp)) = badFrame f.version (stored f comp b) ef ep ++ rest := ⟨_, hdrop⟩
    exact getBlock_detects_gen _ off f.version _ _ rest rfl rfl hdrop
      (by rw [CrcD.xorBytes_length _ _ (by rw [fixed32_length, hef]), fixed32_length])
      (by rw [hxl]; exact hs.1) (fun hv => by rw [hxl]; exact hs.2 hv) (detectable_bad _ ep ef hep hef hd)
  · intro i offi hij hoi
    have hi : i < f.blocks.length := by
      rw [← offs_length f comp]; exact BlockEnc.lt_of_getElem? _ _ _ hoi
    obtain ⟨bi, hbi⟩ := BlockEnc.getElem?_of_lt f.blocks i hi
    have hfri := dataFrames_get f comp i bi hbi
    have hfri' : ((f.dataFrames comp).set j (badFrame f.version (stored f comp b) ef ep))[i]? =
        some (eframe f.version (stored f comp bi)) := by
      rw [List.getElem?_set_ne (Ne.symm hij)]; exact hfri
    obtain ⟨hdrop', _, _⟩ := assemble_drop f.pre _ (idxFrame f comp ++ trailer f comp) i _ offi hfri'
      (by rw [hoffs]; exact hoi)
    obtain ⟨hdrop, _, _⟩ := assemble_drop f.pre _ (idxFrame f comp ++ trailer f comp) i _ offi hfri hoi
    rw [← encode_assemble] at hdrop
    have hs := hst _ (List.mem_map_of_mem (List.mem_of_getElem? hbi))
    have e1 : getBlock (damagedRd f comp decomp (assemble f.pre
        ((f.dataFrames comp).set j (badFrame f.version (stored f comp b) ef ep))
        (idxFrame f comp ++ trailer f comp))) offi = _ :=
      getBlock_frame _ offi f.version _ _ hdrop' rfl hs.1 hs.2
    rw [e1, getBlock_frame (openedRd f comp decomp true) offi f.version _ _ hdrop rfl hs.1 hs.2]
    rfl

/-! ### E. C12 (5): `mtbl_verify` on a file with one damaged data frame -/

/-- **C12, mtbl_verify, data block.**  With the damage of `C12_reader_detects` in data block `j`, `mtbl_verify`
    reports FAILED: the open succeeds, the sweep passes the `j` intact frames before the damaged one (their
    lengths are intact, so the offsets agree) and the checksum comparison fails there. -/
theorem C12_verify_detects (f : EFile) (comp : Bytes → Bytes) (decomp : Nat → Bytes → Option Bytes)
    (h : VHyp f comp) (j : Nat) (b : EBlock) (off : Nat) (ef ep : Bytes)
    (hb : f.blocks[j]? = some b) (hoff : (offs f comp)[j]? = some off)
    (hep : ep.length = (stored f comp b).length) (hef : ef.length = 4)
    (hd : Detectable (stored f comp b).length ep ef) :
    verifyTool f.thr decomp (damagedData f comp b off ef ep) = .failed := by
  have hfr := dataFrames_get f comp j b hb
  have hbl := badFrame_length f.version (stored f comp b) ef ep hep hef
  have hfl := flatMap_set_length (f.dataFrames comp) j _ (badFrame f.version (stored f comp b) ef ep) hfr hbl
  have hst := h.stored_lt
  have hbm : b ∈ f.blocks := List.mem_of_getElem? hb
  have hj : j < f.blocks.length := BlockEnc.lt_of_getElem? _ _ _ hb
  rw [damagedData_eq f comp j b off ef ep hb hoff hep]
  rw [verifyTool_ok _ _ _ _ (open_frames f comp decomp true h _ hfl)]
  show afterOpen (rmeta f comp) _ = _
  rw [afterOpen_eq f comp h.size, if_neg (by omega)]
  -- the data area: j intact frames, the damaged frame, the rest
  have htake : (f.dataFrames comp).take j = ((f.blocks.take j).map (stored f comp)).map (eframe f.version) := by
    rw [dataFrames_map, List.map_take, List.map_take]
  have hd0 : ((assemble f.pre ((f.dataFrames comp).set j (badFrame f.version (stored f comp b) ef ep))
        (idxFrame f comp ++ trailer f comp)).drop f.pre.length).drop 0 =
      (((f.blocks.take j).map (stored f comp)).map (eframe f.version)).flatMap id ++
        (badFrame f.version (stored f comp b) ef ep ++
          (((f.dataFrames comp).drop (j + 1)).flatMap id ++ (idxFrame f comp ++ trailer f comp))) := by
    rw [List.drop_zero, assemble_set _ _ _ j _ _ hfr, List.append_assoc, List.drop_left, htake]
  have hlen1 : flen f.version ((f.blocks.take j).map (stored f comp)) + (eframe f.version (stored f comp b)).length
      ≤ (fdata f comp).length := by
    unfold flen fdata
    rw [← htake, flatMap_split (f.dataFrames comp) j _ hfr]
    simp only [List.length_append]
    omega
  have hk : f.blocks.length = ((f.blocks.take j).map (stored f comp)).length + ((f.blocks.length - j - 1) + 1) := by
    rw [List.length_map, List.length_take]; omega
  rw [hk, sweep_prefix f.version _ _ _ _ 0 0 _
    (fun s hs => hst s (by
      obtain ⟨x, hx, rfl⟩ := List.mem_map.mp hs
      exact List.mem_map_of_mem (List.mem_of_mem_take hx))) hd0 (by omega)]
  have hs := hst _ (List.mem_map_of_mem hbm)
  have hxl := CrcD.xorBytes_length (stored f comp b) ep hep.symm
  have hdb : ((assemble f.pre ((f.dataFrames comp).set j (badFrame f.version (stored f comp b) ef ep))
        (idxFrame f comp ++ trailer f comp)).drop f.pre.length).drop
        (0 + flen f.version ((f.blocks.take j).map (stored f comp))) =
      gframe f.version (xorBytes (fixed32 (crc32c (stored f comp b))) ef) (xorBytes (stored f comp b) ep) ++
        (((f.dataFrames comp).drop (j + 1)).flatMap id ++ (idxFrame f comp ++ trailer f comp)) := by
    rw [List.drop_zero] at hd0
    rw [hd0, List.drop_left' (by rw [Nat.zero_add]; rfl)]
    rfl
  exact sweep_bad f.version _ _ _ _ _ _ _ _ hdb
    (by rw [CrcD.xorBytes_length _ _ (by rw [fixed32_length, hef]), fixed32_length])
    (by rw [hxl]; exact hs.1) (fun hv => by rw [hxl]; exact hs.2 hv) (detectable_bad _ ep ef hep hef hd)

/-! ### F. C12 (4): damage in the index frame stops the open -/

/-- **C12, index block.**  The same damage applied to the index frame: `mtbl_reader_init` with
    `verify_checksums` stops on its `assert(block_crc == calc_crc)`; hence `mtbl_verify` does not report OK
    (the process is stopped inside the open). -/
theorem C12_index_detects (f : EFile) (comp : Bytes → Bytes) (decomp : Nat → Bytes → Option Bytes)
    (h : VHyp f comp) (ef ep : Bytes)
    (hep : ep.length = (idxStored f comp).length) (hef : ef.length = 4)
    (hd : Detectable (idxStored f comp).length ep ef) :
    readerOpen true f.thr decomp true (damagedIndex f comp ef ep) = .abort "index crc" ∧
    verifyTool f.thr decomp (damagedIndex f comp ef ep) = .abort := by
  have hxl := CrcD.xorBytes_length (idxStored f comp) ep hep.symm
  have hfl : (xorBytes (fixed32 (crc32c (idxStored f comp))) ef).length = 4 := by
    rw [CrcD.xorBytes_length _ _ (by rw [fixed32_length, hef]), fixed32_length]
  have hsz : (damagedIndex f comp ef ep).length < 2^64 := by
    have hbl := badFrame_length f.version (idxStored f comp) ef ep hep hef
    have := h.size
    rw [encode_eq, idxFrame_eq] at this
    rw [damagedIndex_eq f comp ef ep hep]
    simp only [List.length_append, hbl] at this ⊢
    omega
  obtain ⟨hopen, hrd, hcrc⟩ := open_gen f comp decomp true _ _ _ _ (damagedIndex_eq f comp ef ep hep)
    (by rw [List.length_append]; rfl) hfl hsz (by rw [hxl]; exact h.idx8)
    (fun hv => by rw [hxl]; exact (h.v1 hv).2)
  have hbad := detectable_bad _ ep ef hep hef hd
  have hne : dec32 (xorBytes (fixed32 (crc32c (idxStored f comp))) ef) ≠ crc32c (xorBytes (idxStored f comp) ep) := by
    unfold blockVerifies at hbad
    intro he
    rw [he, beq_self_eq_true] at hbad
    exact Bool.noConfusion hbad
  have : readerOpen true f.thr decomp true (damagedIndex f comp ef ep) = .abort "index crc" := by
    rw [hopen]
    exact openTail_abort _ _ _ _ _ _ _ _ hrd (by rw [hcrc]; exact hne)
  exact ⟨this, verifyTool_abort _ _ _ _ this⟩

/-! ### G. iterator level: every operation that has to load the damaged block stops -/

/-- `get_block_at_index` on an index entry that points at a block `get_block` refuses: the process stops.
    This is the only way an iterator obtains a block (`readerIterInit`, `rNext`, `rSeek` all go through
    `blockAtIndex` / `getBlock`), so no entry is ever decoded from such a block. -/
theorem blockAtIndex_stops (r : Rd) (idx : BI) (off : Nat) (hi : idxOffset idx = some off)
    (hg : getBlock r off = none) : blockAtIndex r idx = none := by
  unfold blockAtIndex
  rw [hi]
  simp only [hg]

/-- `reader_iter_next` that leaves an exhausted block and finds the damaged block next: the process stops -/
theorem rNext_stops (it : RIter) (off : Nat) (hv : it.valid = true) (hnf : it.first = false)
    (hex : biValid (biNext it.bi) = false) (hnx : biValid (biNext it.idx) = true)
    (hi : idxOffset (biNext it.idx) = some off) (hg : getBlock it.r off = none) :
    rNext true it = none := by
  have hb := blockAtIndex_stops it.r (biNext it.idx) off hi hg
  unfold rNext
  simp only [hv, hnf, hex, hnx, hb, Bool.not_true, Bool.not_false, Bool.false_eq_true, if_false, if_true]

/-- `reader_iter_seek` that has to load the damaged block: the process stops -/
theorem rSeek_stops (it : RIter) (k : Bytes) (off : Nat)
    (hi : idxOffset (if needsIndexSeek it k then biSeek it.idx k else it.idx) = some off)
    (hload : it.b.isNone = true ∨ it.blockOffset ≠ off) (hg : getBlock it.r off = none) :
    rSeek it k = none := by
  unfold rSeek
  by_cases hn : needsIndexSeek it k = true
  · simp only [hn, if_true] at hi ⊢
    simp only [hi]
    rcases hload with h | h
    · simp only [h, Bool.true_or, if_true, hg]
    · have : (it.blockOffset != off) = true := by simpa using h
      simp only [this, Bool.or_true, if_true, hg]
  · have hn' : needsIndexSeek it k = false := by simpa using hn
    simp only [hn', Bool.false_eq_true, if_false] at hi ⊢
    simp only [hi]
    rcases hload with h | h
    · simp only [h, Bool.true_or, if_true, hg]
    · have : (it.blockOffset != off) = true := by simpa using h
      simp only [this, Bool.or_true, if_true, hg]

end Mtbl
