import MtblModel.Merger
import MtblProofs.MergerProofs
import MtblProofs.HeapProofs
import MtblProofs.OrderProofs
/-
  Proofs about the model of mtbl/merger.c (`MtblModel/Merger.lean`), property C05 (seek side):
  `merger_iter_seek`, the bounded lookups `merger_get*`, and histories of next / seek.
-/
namespace Mtbl

namespace MergerSeek

/-! ### list helpers -/

def kLt (k : Bytes) (e : Entry) : Bool := bcmp e.key k == .lt
def kGe (k : Bytes) (e : Entry) : Bool := bcmp e.key k != .lt

theorem drop_lowerBound (es : List Entry) (k : Bytes) :
    es.drop (lowerBound es k) = es.dropWhile (kLt k) := by
  induction es with
  | nil => rfl
  | cons e es ih =>
    rw [lowerBound_cons, List.dropWhile_cons]
    by_cases h : bcmp e.key k = .lt
    · simp [h, kLt, ih]
    · simp [h, kLt]

theorem dropWhile_eq_filter {l : List Entry} (hs : Sorted l) (k : Bytes) :
    l.dropWhile (kLt k) = l.filter (kGe k) := by
  induction l with
  | nil => rfl
  | cons d l ih =>
    obtain ⟨hd, hl⟩ := Sorted_cons.mp hs
    rw [List.dropWhile_cons, List.filter_cons]
    by_cases h : bcmp d.key k = .lt
    · simp [h, kLt, kGe, ih hl]
    · have : l.filter (kGe k) = l := by
        rw [List.filter_eq_self]
        intro x hx
        simp only [kGe, bne_iff_ne, ne_eq]
        intro hlt
        exact h (bcmp_le_lt_trans (hd x hx) hlt)
      simp [h, kLt, kGe, this]

theorem takeWhile_eq_nil_of_all {α : Type} (p : α → Bool) (l : List α) (h : ∀ x ∈ l, p x = false) :
    l.takeWhile p = [] := by
  cases l with
  | nil => rfl
  | cons a l => simp [h a (by simp)]

theorem mem_takeWhile_imp {α : Type} {p : α → Bool} {l : List α} {x : α}
    (h : x ∈ l.takeWhile p) : p x = true := by
  induction l with
  | nil => simp at h
  | cons a l ih =>
    by_cases hp : p a = true
    · rw [List.takeWhile_cons_of_pos hp] at h
      rcases List.mem_cons.mp h with rfl | h
      · exact hp
      · exact ih h
    · rw [List.takeWhile_cons_of_neg hp] at h; simp at h

theorem takeWhile_eq_self_of_all {α : Type} (p : α → Bool) (l : List α) (h : ∀ x ∈ l, p x = true) :
    l.takeWhile p = l := by
  induction l with
  | nil => rfl
  | cons a l ih =>
    rw [List.takeWhile_cons_of_pos (h a (by simp)), ih (fun x hx => h x (List.mem_cons_of_mem _ hx))]

/-! ### convexity of the bound predicates -/

/-- the in-bound keys of a kind form an interval of the key order -/
def Conv (kind : Kind) : Prop :=
  ∀ a b d : Bytes, inBound kind a = true → inBound kind d = true →
    bcmp a b ≠ .gt → bcmp b d ≠ .gt → inBound kind b = true

theorem isPrefix_nil (k : Bytes) : isPrefix [] k = true := by simp [isPrefix]

theorem isPrefix_cons_cons (x y : UInt8) (p k : Bytes) :
    isPrefix (x :: p) (y :: k) = (x == y && isPrefix p k) := by
  simp only [isPrefix, List.length_cons, List.take_succ_cons]
  by_cases hxy : x = y
  · subst hxy; simp
  · have h1 : (x == y) = false := by simp [hxy]
    have h2 : (y == x) = false := by simp; exact fun h => hxy h.symm
    rw [h1]; simp [h2]

theorem isPrefix_cons_nil (x : UInt8) (p : Bytes) : isPrefix (x :: p) [] = false := by
  simp [isPrefix]

theorem isPrefix_conv (p : Bytes) : ∀ a b d : Bytes, isPrefix p a = true → isPrefix p d = true →
    bcmp a b ≠ .gt → bcmp b d ≠ .gt → isPrefix p b = true := by
  induction p with
  | nil => intro a b d _ _ _ _; exact isPrefix_nil b
  | cons x p ih =>
    intro a b d ha hd hab hbd
    cases a with
    | nil => simp [isPrefix_cons_nil] at ha
    | cons a0 a =>
    cases d with
    | nil => simp [isPrefix_cons_nil] at hd
    | cons d0 d =>
    rw [isPrefix_cons_cons] at ha hd
    simp only [Bool.and_eq_true, beq_iff_eq] at ha hd
    obtain ⟨rfl, ha⟩ := ha
    obtain ⟨rfl, hd⟩ := hd
    cases b with
    | nil => simp [bcmp] at hab
    | cons b0 b =>
      simp only [bcmp] at hab hbd
      by_cases h1 : x < b0
      · have h2 : ¬ b0 < x := MergerProofs.u8_lt_asymm h1
        simp [h1, h2] at hbd
      · by_cases h2 : b0 < x
        · simp [h1, h2] at hab
        · have := MergerProofs.u8_eq_of_not_lt h1 h2
          subst this
          simp only [h1, if_false] at hab hbd
          rw [isPrefix_cons_cons]
          simp only [beq_self_eq_true, Bool.true_and]
          exact ih a b d ha hd hab hbd

theorem conv_all (kind : Kind) : Conv kind := by
  intro a b d ha hd hab hbd
  cases kind with
  | iter => rfl
  | get k =>
    simp only [inBound, beq_iff_eq] at *
    rw [bcmp_eq_iff] at ha hd
    subst ha; subst hd
    rw [bcmp_eq_iff]
    exact bcmp_le_antisymm hbd hab
  | pfx p => exact isPrefix_conv p a b d ha hd hab hbd
  | range k1 =>
    simp only [inBound, bne_iff_ne, ne_eq] at *
    exact bcmp_le_trans hbd hd

/-! ### 1. facts about source cursors -/

def inb (kind : Kind) (e : Entry) : Bool := inBound kind e.key

theorem dropWhile_dropWhile_of_imp {α : Type} (p q : α → Bool) (h : ∀ x, p x = true → q x = true)
    (l : List α) : (l.dropWhile p).dropWhile q = l.dropWhile q := by
  induction l with
  | nil => rfl
  | cons a l ih =>
    by_cases hp : p a = true
    · rw [List.dropWhile_cons_of_pos hp, ih, List.dropWhile_cons_of_pos (h a hp)]
    · rw [List.dropWhile_cons_of_neg hp]

theorem kLt_mono {lo k : Bytes} (h : bcmp lo k ≠ .gt) (x : Entry) (hx : kLt lo x = true) :
    kLt k x = true := by
  simp only [kLt, beq_iff_eq] at *
  exact bcmp_lt_le_trans hx h

theorem sorted_dropWhile {l : List Entry} (hs : Sorted l) (p : Entry → Bool) :
    Sorted (l.dropWhile p) := hs.sublist (List.dropWhile_sublist p)

theorem sorted_takeWhile {l : List Entry} (hs : Sorted l) (p : Entry → Bool) :
    Sorted (l.takeWhile p) := hs.sublist (List.takeWhile_sublist p)

/-- on a sorted list whose entries lie at or above an in-bound anchor key, cutting at the bound and
    skipping the keys `< k` commute: the in-bound entries form one contiguous run -/
theorem takeWhile_dropWhile_comm (kind : Kind) (a k : Bytes) (ha : inBound kind a = true) :
    ∀ {D : List Entry}, Sorted D → (∀ x ∈ D, bcmp a x.key ≠ .gt) →
      (D.dropWhile (kLt k)).takeWhile (inb kind) = (D.takeWhile (inb kind)).dropWhile (kLt k) := by
  intro D
  induction D with
  | nil => intro _ _; rfl
  | cons d D ih =>
    intro hs hle
    obtain ⟨hd, hD⟩ := Sorted_cons.mp hs
    by_cases hin : inb kind d = true
    · rw [List.takeWhile_cons_of_pos hin]
      by_cases hk : kLt k d = true
      · rw [List.dropWhile_cons_of_pos hk, List.dropWhile_cons_of_pos hk]
        exact ih hD (fun x hx => hle x (List.mem_cons_of_mem _ hx))
      · rw [List.dropWhile_cons_of_neg hk, List.dropWhile_cons_of_neg hk,
          List.takeWhile_cons_of_pos hin]
    · rw [List.takeWhile_cons_of_neg hin, List.dropWhile_nil]
      apply takeWhile_eq_nil_of_all
      intro x hx
      have hx' : x ∈ d :: D := (List.dropWhile_sublist _).subset hx
      cases hxin : inb kind x with
      | false => rfl
      | true =>
        exfalso
        apply hin
        rcases List.mem_cons.mp hx' with rfl | hxD
        · exact hxin
        · exact conv_all kind a d.key x.key ha hxin (hle d (by simp)) (hd x hxD)

theorem seek_remaining_dw (s : Src) (k : Bytes) :
    (s.seek k).remaining = (s.es.dropWhile (kLt k)).takeWhile (inb s.kind) := by
  simp only [Src.seek, Src.remaining, specSeek, drop_lowerBound]
  rfl

theorem dropWhile_kLt_ge {l : List Entry} (hs : Sorted l) (k : Bytes) :
    ∀ x ∈ l.dropWhile (kLt k), bcmp k x.key ≠ .gt := by
  intro x hx
  rw [dropWhile_eq_filter hs] at hx
  have := (List.mem_filter.mp hx).2
  simp only [kGe, bne_iff_ne, ne_eq] at this
  exact (bcmp_not_lt_iff _ _).mp this

end MergerSeek

open MergerSeek in
/-- **1a.** what a source delivers after `seek k` -/
theorem Src.seek_remaining (s : Src) (k : Bytes) :
    (s.seek k).remaining =
      (s.es.drop (lowerBound s.es k)).takeWhile fun e => inBound s.kind e.key := by
  simp [Src.seek, Src.remaining, specSeek]

open MergerSeek in
/-- **1b.** every entry delivered after `seek k` has key ≥ k, lies in the source and is in bound -/
theorem Src.seek_remaining_ge (s : Src) (hs : Sorted s.es) (k : Bytes) :
    ∀ e ∈ (s.seek k).remaining, bcmp k e.key ≠ .gt ∧ e ∈ s.es ∧ inBound s.kind e.key = true := by
  intro e he
  rw [seek_remaining_dw] at he
  have h1 := (List.takeWhile_sublist _).subset he
  refine ⟨dropWhile_kLt_ge hs k e h1, (List.dropWhile_sublist _).subset h1, ?_⟩
  exact mem_takeWhile_imp (p := inb s.kind) he

open MergerSeek in
/-- **1c.** unbounded sources: after `seek k` exactly the entries with key ≥ k remain -/
theorem Src.seek_remaining_iter (s : Src) (hs : Sorted s.es) (hk : s.kind = .iter) (k : Bytes) :
    (s.seek k).remaining = s.es.filter fun e => bcmp e.key k != .lt := by
  rw [seek_remaining_dw, hk]
  have : inb Kind.iter = fun _ => true := by funext e; rfl
  rw [this, takeWhile_eq_self_of_all _ _ (by simp), dropWhile_eq_filter hs]
  rfl

open MergerSeek in
/-- **1d.** (contiguity) for every kind, on a sorted source that delivers something from `lo` on,
    a seek to `k ≥ lo` delivers exactly the entries with key ≥ k of what it delivers from `lo` -/
theorem Src.seek_remaining_of_start (s : Src) (hs : Sorted s.es) {lo k : Bytes}
    (hlo : bcmp lo k ≠ .gt) (hne : (s.seek lo).remaining ≠ []) :
    (s.seek k).remaining = (s.seek lo).remaining.filter fun e => bcmp e.key k != .lt := by
  rw [seek_remaining_dw, seek_remaining_dw] at *
  rw [← dropWhile_dropWhile_of_imp (kLt lo) (kLt k) (kLt_mono hlo)]
  generalize hD : s.es.dropWhile (kLt lo) = D at *
  have hDs : Sorted D := by rw [← hD]; exact sorted_dropWhile hs _
  cases D with
  | nil => simp at hne
  | cons d D' =>
    have hin : inb s.kind d = true := by
      cases h : inb s.kind d with
      | true => rfl
      | false => rw [List.takeWhile_cons_of_neg (by simp [h])] at hne; exact absurd rfl hne
    rw [takeWhile_dropWhile_comm s.kind d.key k hin hDs, dropWhile_eq_filter (sorted_takeWhile hDs _)]
    · rfl
    · intro x hx
      rcases List.mem_cons.mp hx with rfl | hx
      · simp [bcmp_refl]
      · exact (Sorted_cons.mp hDs).1 x hx

open MergerSeek in
/-- **1e.** the same when the start key itself is in bound (no non-emptiness needed): in particular
    a source that delivers nothing from `lo` on delivers nothing after a seek to `k ≥ lo` -/
theorem Src.seek_remaining_of_start_inb (s : Src) (hs : Sorted s.es) {lo k : Bytes}
    (hlo : bcmp lo k ≠ .gt) (hin : inBound s.kind lo = true) :
    (s.seek k).remaining = (s.seek lo).remaining.filter fun e => bcmp e.key k != .lt := by
  rw [seek_remaining_dw, seek_remaining_dw]
  rw [← dropWhile_dropWhile_of_imp (kLt lo) (kLt k) (kLt_mono hlo)]
  have hDs : Sorted (s.es.dropWhile (kLt lo)) := sorted_dropWhile hs _
  rw [takeWhile_dropWhile_comm s.kind lo k hin hDs (dropWhile_kLt_ge hs lo),
    dropWhile_eq_filter (sorted_takeWhile hDs _)]
  rfl

namespace MergerSeek

end MergerSeek

/-! ### 6. F8: seeking to the key just returned -/

/-- **F8** (pinned code, `fixF8 := false`): with one source `a, b, c`, after `next` (a), `next` (b),
    `seek b` takes the forward path (the test is `key < cur_key`, not `≤`), finds the head `c`
    already ≥ b and leaves it, so the following `next` returns `c`: the key `b` sought for is
    skipped.  The repaired code (`≤`) rebuilds and returns `b` again, as a reader iterator does. -/
theorem F8_witness :
    let srcs : Array Src := #[{ es := [⟨[97], [49]⟩, ⟨[98], [50]⟩, ⟨[99], [51]⟩] }]
    let bad : MCfg := { merge := none, dupsort := none, fixF8 := false }
    let good : MCfg := { merge := none, dupsort := none, fixF8 := true }
    let run (c : MCfg) : NextRes × NextRes × NextRes :=
      let m0 := mergerInit c srcs
      let r1 := mergerNext c m0
      let r2 := mergerNext c r1.2
      let m3 := mergerSeek c r2.2 [98]
      (r1.1, r2.1, (mergerNext c m3).1)
    run bad = (.ok [97] [49], .ok [98] [50], .ok [99] [51]) ∧
    run good = (.ok [97] [49], .ok [98] [50], .ok [98] [50]) ∧
    (specRun .iter [⟨[97], [49]⟩, ⟨[98], [50]⟩, ⟨[99], [51]⟩] { pos := 0 }
      [.next, .next, .seek [98], .next]) =
      [some ⟨[97], [49]⟩, some ⟨[98], [50]⟩, none, some ⟨[98], [50]⟩] := by
  decide +kernel

/-- a seek landing on a key whose value needs merging: sources `a↦1, b↦2, c↦5` and `b↦3, d↦4` with
    concatenation as merge function; `next` (a), `seek b`, `next` gives `b ↦ 23`, then `c`, `d`;
    a backward seek to `a` after exhaustion restarts the iteration. -/
example :
    let c : MCfg := { merge := some fun _ a b => some (a ++ b), dupsort := none }
    let m0 := mergerInit c #[{ es := [⟨[97], [49]⟩, ⟨[98], [50]⟩, ⟨[99], [53]⟩] },
      { es := [⟨[98], [51]⟩, ⟨[100], [52]⟩] }]
    let r1 := mergerNext c m0
    let m2 := mergerSeek c r1.2 [98]
    let r3 := mergerNext c m2
    let r4 := mergerNext c r3.2
    let r5 := mergerNext c r4.2
    let r6 := mergerNext c r5.2
    let m7 := mergerSeek c r6.2 [97]
    (r1.1, r3.1, r4.1, r5.1, r6.1, (mergerNext c m7).1) =
      (.ok [97] [49], .ok [98] [50, 51], .ok [99] [53], .ok [100] [52], .fail, .ok [97] [49]) := by
  decide +kernel

namespace MergerSeek

/-! ### 2a. the run of a source and the invariant about consumed entries -/

/-- what source `i` delivers after a seek to `k` (depends only on its entries and its kind) -/
def sk (k : Bytes) (srcs : Array Src) (i : Nat) : List Entry := ((srcs[i]!).seek k).remaining

theorem seek_remaining_congr {s s' : Src} (he : s'.es = s.es) (hk : s'.kind = s.kind) (k : Bytes) :
    (s'.seek k).remaining = (s.seek k).remaining := by
  rw [seek_remaining_dw, seek_remaining_dw, he, hk]

theorem next_ek {s s' : Src} {o : Option Entry} (h : s.next = (o, s')) :
    s'.es = s.es ∧ s'.kind = s.kind := by
  unfold Src.next at h
  simp only [Prod.mk.injEq] at h
  obtain ⟨_, rfl⟩ := h
  exact ⟨rfl, rfl⟩

theorem sk_set (k : Bytes) (srcs : Array Src) (j : Nat) (s' : Src)
    (he : s'.es = (srcs[j]!).es) (hk : s'.kind = (srcs[j]!).kind) (i : Nat) :
    sk k (srcs.setIfInBounds j s') i = sk k srcs i := by
  unfold sk
  by_cases hij : i = j
  · subst hij
    by_cases hi : i < srcs.size
    · rw [Heap.get_set_eq srcs i s' hi]; exact seek_remaining_congr he hk k
    · have : srcs.setIfInBounds i s' = srcs := by grind
      rw [this]
  · rw [Heap.get_set_ne srcs j i s' hij]

/-- the keys that bound the consumed entries from above: the last returned / sought key (when it
    is recorded, i.e. non-empty) and every key still in the pool -/
def Bnd (m : MIter) (b : Bytes) : Prop :=
  (m.curKey ≠ [] ∧ b = m.curKey) ∨ ∃ x ∈ pool m, b = x.key

/-- `lo` is the key the sources were positioned at on creation.  For every live source, what it
    delivers from `lo` on splits into consumed entries `pre` (all satisfying `Pre`) followed by the
    current head and the entries still to come. -/
structure RunInv (lo : Bytes) (Pre : Entry → Prop) (srcs : Array Src) (heap : List HEnt)
    (live : List Nat) : Prop where
  liveNodup : live.Nodup
  liveInb : ∀ i ∈ live, i < srcs.size
  heapLive : ∀ h ∈ heap, h.src ∈ live
  runNe : ∀ i ∈ live, sk lo srcs i ≠ []
  inHeap : ∀ h ∈ heap, ∃ pre, sk lo srcs h.src = pre ++ MergerProofs.contrib srcs h ∧ ∀ y ∈ pre, Pre y
  notInHeap : ∀ i ∈ live, (∀ h ∈ heap, h.src ≠ i) → ∀ y ∈ sk lo srcs i, Pre y

end MergerSeek

/-- **the auxiliary invariant of `merger_iter_seek`**: for every live source, every entry it has
    delivered since the start key `lo` and that is not the current heap head lies at or before the
    recorded key `curKey` (when non-empty) and at or before every entry still in the pool. -/
def SeekInv (lo : Bytes) (m : MIter) : Prop :=
  MergerSeek.RunInv lo (fun y => ∀ b, MergerSeek.Bnd m b → bcmp y.key b ≠ .gt)
    m.srcs m.heap.toList m.live

namespace MergerSeek
open MergerProofs (contrib poolL pool_eq poolL_cons heap_head)

theorem RunInv.mono {lo : Bytes} {Pre Pre' : Entry → Prop} {srcs : Array Src} {heap : List HEnt}
    {live : List Nat} (h : RunInv lo Pre srcs heap live) (hp : ∀ y, Pre y → Pre' y) :
    RunInv lo Pre' srcs heap live :=
  ⟨h.liveNodup, h.liveInb, h.heapLive, h.runNe,
    fun x hx => let ⟨pre, e1, e2⟩ := h.inHeap x hx; ⟨pre, e1, fun y hy => hp y (e2 y hy)⟩,
    fun i hi hn y hy => hp y (h.notInHeap i hi hn y hy)⟩

theorem RunInv.congr_mem {lo : Bytes} {Pre : Entry → Prop} {srcs : Array Src} {heap heap' : List HEnt}
    {live : List Nat} (h : RunInv lo Pre srcs heap live) (hm : ∀ x, x ∈ heap' ↔ x ∈ heap) :
    RunInv lo Pre srcs heap' live :=
  ⟨h.liveNodup, h.liveInb, fun x hx => h.heapLive x ((hm x).mp hx), h.runNe,
    fun x hx => h.inHeap x ((hm x).mp hx),
    fun i hi hn => h.notInHeap i hi (fun x hx => hn x ((hm x).mpr hx))⟩

theorem RunInv.drop_fin {lo : Bytes} {Pre : Entry → Prop} {srcs : Array Src} {e : HEnt}
    {t : List HEnt} {live : List Nat} (h : RunInv lo Pre srcs (e :: t) live)
    (hf : e.finished = true) : RunInv lo Pre srcs t live := by
  refine ⟨h.liveNodup, h.liveInb, fun x hx => h.heapLive x (List.mem_cons_of_mem _ hx), h.runNe,
    fun x hx => h.inHeap x (List.mem_cons_of_mem _ hx), ?_⟩
  intro i hi hn y hy
  by_cases hei : e.src = i
  · obtain ⟨pre, e1, e2⟩ := h.inHeap e (by simp)
    have : contrib srcs e = [] := by simp [contrib, hf]
    rw [this, List.append_nil, hei] at e1
    rw [e1] at hy
    exact e2 y hy
  · apply h.notInHeap i hi _ y hy
    intro x hx
    rcases List.mem_cons.mp hx with rfl | hx
    · exact hei
    · exact hn x hx

/-- the live root `e` is consumed and its source delivers `x` next -/
theorem RunInv.adv_some {lo : Bytes} {Pre Pre' : Entry → Prop} {srcs : Array Src} {e : HEnt}
    {t : List HEnt} {live : List Nat} (h : RunInv lo Pre srcs (e :: t) live)
    (hne : ∀ x ∈ t, x.src ≠ e.src) (hf : e.finished = false) {x : Entry} {s' : Src}
    (hn : (srcs[e.src]!).next = (some x, s')) (hp : ∀ y, Pre y → Pre' y)
    (hpe : Pre' { key := e.key, val := e.val }) :
    RunInv lo Pre' (srcs.setIfInBounds e.src s')
      ({ src := e.src, key := x.key, val := x.val, finished := false } :: t) live := by
  obtain ⟨hes, hkd⟩ := next_ek hn
  have hrem := (MergerProofs.next_some hn).1
  have hein : e.src < srcs.size := h.liveInb _ (h.heapLive e (by simp))
  have hsk : ∀ i, sk lo (srcs.setIfInBounds e.src s') i = sk lo srcs i := sk_set lo srcs _ s' hes hkd
  refine ⟨h.liveNodup, ?_, ?_, ?_, ?_, ?_⟩
  · intro i hi; rw [Array.size_setIfInBounds]; exact h.liveInb i hi
  · intro y hy
    rcases List.mem_cons.mp hy with rfl | hy
    · exact h.heapLive e (by simp)
    · exact h.heapLive y (List.mem_cons_of_mem _ hy)
  · intro i hi; rw [hsk]; exact h.runNe i hi
  · intro y hy
    rcases List.mem_cons.mp hy with rfl | hy
    · obtain ⟨pre, e1, e2⟩ := h.inHeap e (by simp)
      refine ⟨pre ++ [{ key := e.key, val := e.val }], ?_, ?_⟩
      · rw [hsk]; simp only
        rw [e1]
        simp [contrib, hf, hrem, Heap.get_set_eq srcs _ s' hein]
      · intro z hz
        rcases List.mem_append.mp hz with hz | hz
        · exact hp z (e2 z hz)
        · simp only [List.mem_singleton] at hz; subst hz; exact hpe
    · obtain ⟨pre, e1, e2⟩ := h.inHeap y (List.mem_cons_of_mem _ hy)
      refine ⟨pre, ?_, fun z hz => hp z (e2 z hz)⟩
      rw [hsk, MergerProofs.contrib_set_ne srcs _ s' y (hne y hy)]; exact e1
  · intro i hi hni y hy
    rw [hsk] at hy
    apply hp
    apply h.notInHeap i hi _ y hy
    intro z hz
    rcases List.mem_cons.mp hz with hz | hz
    · rw [hz]; exact fun hh => hni _ List.mem_cons_self hh
    · exact hni z (List.mem_cons_of_mem _ hz)

/-- the live root `e` is consumed and its source is exhausted -/
theorem RunInv.adv_none {lo : Bytes} {Pre Pre' : Entry → Prop} {srcs : Array Src} {e : HEnt}
    {t : List HEnt} {live : List Nat} (h : RunInv lo Pre srcs (e :: t) live)
    (hne : ∀ x ∈ t, x.src ≠ e.src) (hf : e.finished = false) {s' : Src}
    (hn : (srcs[e.src]!).next = (none, s')) (hp : ∀ y, Pre y → Pre' y)
    (hpe : Pre' { key := e.key, val := e.val }) :
    RunInv lo Pre' (srcs.setIfInBounds e.src s') ({ e with finished := true } :: t) live := by
  obtain ⟨hes, hkd⟩ := next_ek hn
  have hrem := (MergerProofs.next_none hn).1
  have hsk : ∀ i, sk lo (srcs.setIfInBounds e.src s') i = sk lo srcs i := sk_set lo srcs _ s' hes hkd
  refine ⟨h.liveNodup, ?_, ?_, ?_, ?_, ?_⟩
  · intro i hi; rw [Array.size_setIfInBounds]; exact h.liveInb i hi
  · intro y hy
    rcases List.mem_cons.mp hy with rfl | hy
    · exact h.heapLive e (by simp)
    · exact h.heapLive y (List.mem_cons_of_mem _ hy)
  · intro i hi; rw [hsk]; exact h.runNe i hi
  · intro y hy
    rcases List.mem_cons.mp hy with rfl | hy
    · obtain ⟨pre, e1, e2⟩ := h.inHeap e (by simp)
      refine ⟨pre ++ [{ key := e.key, val := e.val }], ?_, ?_⟩
      · rw [hsk]; simp only
        rw [e1]
        simp [contrib, hf, hrem]
      · intro z hz
        rcases List.mem_append.mp hz with hz | hz
        · exact hp z (e2 z hz)
        · simp only [List.mem_singleton] at hz; subst hz; exact hpe
    · obtain ⟨pre, e1, e2⟩ := h.inHeap y (List.mem_cons_of_mem _ hy)
      refine ⟨pre, ?_, fun z hz => hp z (e2 z hz)⟩
      rw [hsk, MergerProofs.contrib_set_ne srcs _ s' y (hne y hy)]; exact e1
  · intro i hi hni y hy
    rw [hsk] at hy
    apply hp
    apply h.notInHeap i hi _ y hy
    intro z hz
    rcases List.mem_cons.mp hz with hz | hz
    · rw [hz]; exact fun hh => hni _ List.mem_cons_self hh
    · exact hni z (List.mem_cons_of_mem _ hz)

/-! ### 2b. `merger_iter_next` preserves `SeekInv` -/

theorem seekInv_of_sub {lo : Bytes} {m m' : MIter} (hs : SeekInv lo m) (h1 : m'.srcs = m.srcs)
    (h2 : ∀ x, x ∈ m'.heap.toList ↔ x ∈ m.heap.toList) (h3 : m'.live = m.live)
    (h4 : ∀ b, Bnd m' b → Bnd m b) : SeekInv lo m' := by
  unfold SeekInv at *
  rw [h1, h3]
  exact (hs.mono (fun y hy b hb => hy b (h4 b hb))).congr_mem h2

theorem seekInv_adv (c : MCfg) (htot : ∀ a b, hle c a b = true ∨ hle c b a = true)
    (htrans : ∀ a b d, hle c a b = true → hle c b d = true → hle c a d = true)
    (lo : Bytes) {m : MIter} (hi : LInv c m) (hs : SeekInv lo m) {e : HEnt}
    (h0 : m.heap[0]? = some e) (hf : e.finished = false)
    (hcur : m.curKey ≠ [] → bcmp e.key m.curKey ≠ .gt) :
    SeekInv lo (afterFill c (fill m e.src e)) := by
  obtain ⟨hl, hg, hsz⟩ := heap_head h0
  have hnd := hi.hinv.nodup
  rw [hl, List.map_cons, List.nodup_cons] at hnd
  have hne : ∀ h ∈ m.heap.toList.tail, h.src ≠ e.src := by
    intro h hh heq
    exact hnd.1 (by rw [← heq]; exact List.mem_map_of_mem hh)
  have hs' := hs
  unfold SeekInv at hs'
  rw [hl] at hs'
  obtain ⟨m', e1, _, e3, _, e5, _⟩ := MergerProofs.adv c htot htrans hi h0 hf
  have hsub : ∀ x ∈ pool m', x ∈ pool m := fun x hx => e3.mem_iff.mpr (List.mem_cons_of_mem _ hx)
  have hp : ∀ y : Entry, (∀ b, Bnd m b → bcmp y.key b ≠ .gt) → ∀ b, Bnd m' b → bcmp y.key b ≠ .gt := by
    intro y hy b hb
    apply hy b
    rcases hb with ⟨h1, h2⟩ | ⟨x, hx, rfl⟩
    · left; rw [e5] at h1 h2; exact ⟨h1, h2⟩
    · right; exact ⟨x, hsub x hx, rfl⟩
  have hpe : ∀ b, Bnd m' b → bcmp e.key b ≠ .gt := by
    intro b hb
    rcases hb with ⟨h1, h2⟩ | ⟨x, hx, rfl⟩
    · rw [e5] at h1 h2; rw [h2]; exact hcur h1
    · exact MergerProofs.pool_min c htot htrans hi.hinv h0 x (hsub x hx)
  cases hn : (m.srcs[e.src]!).next with
  | mk o s' =>
    cases o with
    | some x =>
      rw [MergerProofs.afterFill_fill_some c m e hn] at e1 ⊢
      subst e1
      unfold SeekInv
      refine (hs'.adv_some hne hf hn hp hpe).congr_mem ?_
      intro y
      exact (Heap.replace_perm_tail (hle c) m.heap _ hsz).mem_iff
    | none =>
      rw [MergerProofs.afterFill_fill_none c m e hn] at e1 ⊢
      subst e1
      unfold SeekInv
      refine (hs'.adv_none hne hf hn hp hpe).congr_mem ?_
      intro y
      simp only
      rw [Array.toList_setIfInBounds, hl]
      simp

theorem seekInv_pop (c : MCfg) (htot : ∀ a b, hle c a b = true ∨ hle c b a = true)
    (htrans : ∀ a b d, hle c a b = true → hle c b d = true → hle c a d = true)
    (lo : Bytes) {m : MIter} (hi : LInv c m) (hs : SeekInv lo m) {e : HEnt}
    (h0 : m.heap[0]? = some e) (hf : e.finished = true) :
    SeekInv lo { m with heap := Heap.pop (hle c) m.heap } := by
  obtain ⟨hl, hg, hsz⟩ := heap_head h0
  obtain ⟨_, h2, _⟩ := MergerProofs.linv_pop c htot htrans hi h0 hf
  have hp : (Heap.pop (hle c) m.heap).toList.Perm m.heap.toList.tail := by
    have := Heap.pop_perm (hle c) m.heap hsz
    rw [hg, hl] at this
    exact this.cons_inv
  have hs' := hs
  unfold SeekInv at hs' ⊢
  rw [hl] at hs'
  refine ((hs'.drop_fin hf).mono ?_).congr_mem (fun y => hp.mem_iff)
  intro y hy b hb
  apply hy b
  rcases hb with hb | ⟨x, hx, rfl⟩
  · left; exact hb
  · right; exact ⟨x, h2.mem_iff.mpr hx, rfl⟩

theorem loop_seekInv (c : MCfg) (hF2 : c.fixF2 = true)
    (htot : ∀ a b, hle c a b = true ∨ hle c b a = true)
    (htrans : ∀ a b d, hle c a b = true → hle c b d = true → hle c a d = true) (lo : Bytes) :
    ∀ fuel m, LInv c m → SeekInv lo m → ∀ m1, mergerNextLoop c m fuel = some m1 → SeekInv lo m1 := by
  intro fuel
  induction fuel with
  | zero =>
    intro m _ hs m1 h
    simp only [mergerNextLoop, Option.some.injEq] at h
    subst h; exact hs
  | succ fuel ih =>
    intro m hi hs m1 h
    cases h0 : m.heap[0]? with
    | none =>
      rw [MergerProofs.loop_empty c m fuel h0] at h
      simp only [Option.some.injEq] at h
      subst h; exact hs
    | some e =>
      cases hf : e.finished with
      | true =>
        rw [MergerProofs.loop_fin c m fuel h0 hf] at h
        exact ih _ (MergerProofs.linv_pop c htot htrans hi h0 hf).1
          (seekInv_pop c htot htrans lo hi hs h0 hf) m1 h
      | false =>
        have hmem : ({ key := e.key, val := e.val } : Entry) ∈ pool m := by
          rw [pool_eq, (heap_head h0).1, poolL_cons]
          simp [contrib, hf]
        cases hp : m.pending with
        | false =>
          rw [MergerProofs.loop_take c hF2 m fuel h0 hf hp] at h
          have hi1 : LInv c { m with curKey := e.key, curVal := e.val, pending := true } :=
            ⟨hi.hinv, hi.finEmpty⟩
          have hs1 : SeekInv lo { m with curKey := e.key, curVal := e.val, pending := true } := by
            refine seekInv_of_sub
              (m' := { m with curKey := e.key, curVal := e.val, pending := true })
              hs rfl (fun _ => Iff.rfl) rfl ?_
            intro b hb
            rcases hb with ⟨_, h2⟩ | hb
            · right; exact ⟨_, hmem, h2⟩
            · right; exact hb
          obtain ⟨m', e1, e2, _⟩ := MergerProofs.adv c htot htrans hi1 h0 hf
          have hs2 := seekInv_adv c htot htrans lo hi1 hs1 h0 hf (fun _ => by simp [bcmp_refl])
          rw [e1] at h hs2
          exact ih m' e2 hs2 m1 h
        | true =>
          cases hm : c.merge with
          | none =>
            rw [MergerProofs.loop_ret_nomerge c hF2 m fuel h0 hf hp hm] at h
            simp only [Option.some.injEq] at h
            subst h; exact hs
          | some f =>
            by_cases heq : bcmp m.curKey e.key = .eq
            · cases hcb : f m.curKey m.curVal e.val with
              | none =>
                rw [MergerProofs.loop_merge_fail c hF2 m fuel h0 hf hp hm heq hcb] at h
                simp at h
              | some mv =>
                rw [MergerProofs.loop_merge_ok c hF2 m fuel h0 hf hp hm heq hcb] at h
                have hi1 : LInv c { m with curVal := mv } := ⟨hi.hinv, hi.finEmpty⟩
                have hs1 : SeekInv lo { m with curVal := mv } := hs
                obtain ⟨m', e1, e2, _⟩ := MergerProofs.adv c htot htrans hi1 h0 hf
                have hs2 := seekInv_adv c htot htrans lo hi1 hs1 h0 hf
                  (fun _ => by rw [(bcmp_eq_iff _ _).mp heq]; simp [bcmp_refl])
                rw [e1] at h hs2
                exact ih m' e2 hs2 m1 h
            · rw [MergerProofs.loop_merge_ne c hF2 m fuel h0 hf hp hm heq] at h
              simp only [Option.some.injEq] at h
              subst h; exact hs

end MergerSeek

/-- **2 (next side).** `merger_iter_next` preserves `SeekInv` (both modes, any outcome). -/
theorem mergerNext_seekInv (c : MCfg) (hF2 : c.fixF2 = true)
    (htot : ∀ a b, hle c a b = true ∨ hle c b a = true)
    (htrans : ∀ a b d, hle c a b = true → hle c b d = true → hle c a d = true)
    (lo : Bytes) {m : MIter} (hi : MInv c m) (hs : SeekInv lo m) :
    SeekInv lo (mergerNext c m).2 := by
  cases hfin : m.finished with
  | true => rw [mergerNext_finished c m hfin]; exact hs
  | false =>
    rw [MergerProofs.mergerNext_unfold c hF2 m hfin]
    have hi0 : LInv c { m with curKey := [], curVal := [], pending := false } :=
      ⟨hi.hinv, hi.finEmpty⟩
    have hs0 : SeekInv lo { m with curKey := [], curVal := [], pending := false } := by
      refine MergerSeek.seekInv_of_sub
        (m' := { m with curKey := [], curVal := [], pending := false })
        hs rfl (fun _ => Iff.rfl) rfl ?_
      intro b hb
      rcases hb with ⟨h1, _⟩ | hb
      · exact absurd rfl h1
      · right; exact hb
    cases hl : mergerNextLoop c { m with curKey := [], curVal := [], pending := false }
        (totalLeft { m with curKey := [], curVal := [], pending := false }) with
    | none => exact hs0
    | some m1 =>
      have := MergerSeek.loop_seekInv c hF2 htot htrans lo _ _ hi0 hs0 m1 hl
      simp only
      split
      · exact this
      · exact this

namespace MergerSeek
open MergerProofs (contrib poolL pool_eq poolL_cons heap_head)

/-! ### 2c. states in which every head stands for what its source holds at / after `k` -/

structure Good (k : Bytes) (srcs : Array Src) (heap : List HEnt) (live : List Nat) : Prop where
  cont : ∀ h ∈ heap, contrib srcs h = sk k srcs h.src
  empt : ∀ i ∈ live, (∀ h ∈ heap, h.src ≠ i) → sk k srcs i = []

theorem good_pool (k : Bytes) (srcs : Array Src) : ∀ (live : List Nat) (heap : List HEnt),
    live.Nodup → (∀ h ∈ heap, h.src ∈ live) → (heap.map (·.src)).Nodup → Good k srcs heap live →
    (poolL srcs heap).Perm (live.flatMap (sk k srcs)) := by
  intro live
  induction live with
  | nil =>
    intro heap _ hl _ _
    cases heap with
    | nil => exact List.Perm.refl _
    | cons h t => exact absurd (hl h (by simp)) (by simp)
  | cons i rest ih =>
    intro heap hnd hl hhn hg
    obtain ⟨hi, hrest⟩ := List.nodup_cons.mp hnd
    rw [List.flatMap_cons]
    by_cases hex : ∃ h ∈ heap, h.src = i
    · obtain ⟨h, hh, hsi⟩ := hex
      obtain ⟨a, b, hab⟩ := List.append_of_mem hh
      have hperm : heap.Perm (h :: (a ++ b)) := by rw [hab]; exact List.perm_middle
      have hhn' : ((h :: (a ++ b)).map (·.src)).Nodup := (hperm.map _).nodup_iff.mp hhn
      rw [List.map_cons, List.nodup_cons] at hhn'
      have hne : ∀ x ∈ a ++ b, x.src ≠ i := by
        intro x hx heq
        exact hhn'.1 (by rw [hsi, ← heq]; exact List.mem_map_of_mem hx)
      have hsub : ∀ x ∈ a ++ b, x ∈ heap := fun x hx => hperm.mem_iff.mpr (List.mem_cons_of_mem _ hx)
      refine (MergerProofs.poolL_perm srcs hperm).trans ?_
      rw [poolL_cons, hg.cont h hh, hsi]
      apply List.Perm.append_left
      apply ih (a ++ b) hrest _ hhn'.2
      · refine ⟨fun x hx => hg.cont x (hsub x hx), ?_⟩
        intro j hj hn
        apply hg.empt j (List.mem_cons_of_mem _ hj)
        intro x hx
        rcases List.mem_cons.mp (hperm.mem_iff.mp hx) with rfl | hx
        · rw [hsi]; intro heq; exact hi (heq ▸ hj)
        · exact hn x hx
      · intro x hx
        rcases List.mem_cons.mp (hl x (hsub x hx)) with h1 | h1
        · exact absurd h1 (hne x hx)
        · exact h1
    · have hne : ∀ x ∈ heap, x.src ≠ i := fun x hx heq => hex ⟨x, hx, heq⟩
      rw [hg.empt i (by simp) hne, List.nil_append]
      apply ih heap hrest _ hhn
      · exact ⟨hg.cont, fun j hj hn => hg.empt j (List.mem_cons_of_mem _ hj) hn⟩
      · intro x hx
        rcases List.mem_cons.mp (hl x hx) with h1 | h1
        · exact absurd h1 (hne x hx)
        · exact h1

theorem kLt_of_not_kGe {k : Bytes} {y : Entry} (h : kGe k y = false) : kLt k y = true := by
  simp only [kGe, kLt] at *
  cases hc : bcmp y.key k <;> simp_all

theorem sk_split (srcs : Array Src) (i : Nat) (hs : Sorted (srcs[i]!).es) {lo k : Bytes}
    (hlo : bcmp lo k ≠ .gt) (hne : sk lo srcs i ≠ []) :
    sk lo srcs i = (sk lo srcs i).takeWhile (kLt k) ++ sk k srcs i ∧
    sk k srcs i = (sk lo srcs i).filter (kGe k) := by
  have h1 : sk k srcs i = (sk lo srcs i).filter (kGe k) :=
    Src.seek_remaining_of_start _ hs hlo hne
  have hsr : Sorted (sk lo srcs i) := MergerProofs.remaining_sorted (s := (srcs[i]!).seek lo) hs
  refine ⟨?_, h1⟩
  rw [h1, ← dropWhile_eq_filter hsr, List.takeWhile_append_dropWhile]

/-- after a seek to `k ≥ lo`: the consumed part of every run is what lies before `k` -/
theorem good_runInv {lo k : Bytes} (hlo : bcmp lo k ≠ .gt) {srcs : Array Src} {heap : List HEnt}
    {live : List Nat} (hnd : live.Nodup) (hinb : ∀ i ∈ live, i < srcs.size)
    (hl : ∀ h ∈ heap, h.src ∈ live) (hne : ∀ i ∈ live, sk lo srcs i ≠ [])
    (hsorted : ∀ i, i < srcs.size → Sorted (srcs[i]!).es) (hg : Good k srcs heap live) :
    RunInv lo (fun y => kLt k y = true) srcs heap live := by
  refine ⟨hnd, hinb, hl, hne, ?_, ?_⟩
  · intro h hh
    have hli := hl h hh
    obtain ⟨e1, _⟩ := sk_split srcs h.src (hsorted _ (hinb _ hli)) hlo (hne _ hli)
    refine ⟨(sk lo srcs h.src).takeWhile (kLt k), ?_, fun y hy => mem_takeWhile_imp hy⟩
    rw [hg.cont h hh]; exact e1
  · intro i hi hn y hy
    obtain ⟨_, e2⟩ := sk_split srcs i (hsorted _ (hinb _ hi)) hlo (hne _ hi)
    rw [hg.empt i hi hn] at e2
    apply kLt_of_not_kGe
    cases hc : kGe k y with
    | false => rfl
    | true =>
      have : y ∈ (sk lo srcs i).filter (kGe k) := List.mem_filter.mpr ⟨hy, hc⟩
      rw [← e2] at this; simp at this

/-- the order facts of `HInv` follow from `Good` -/
theorem good_headLe (c : MCfg) {k : Bytes} {srcs : Array Src} {heap : List HEnt} {live : List Nat}
    (hinb : ∀ h ∈ heap, h.src < srcs.size)
    (hsorted : ∀ i, i < srcs.size → Sorted (srcs[i]!).es) (hg : Good k srcs heap live) :
    (∀ h ∈ heap, h.finished = false → ∀ e ∈ (srcs[h.src]!).remaining, bcmp h.key e.key ≠ .gt) ∧
    (DSrcs c srcs → ∀ h ∈ heap, h.finished = false →
      ∀ e ∈ (srcs[h.src]!).remaining, hle c h (.ofEntry e) = true) := by
  constructor
  · intro h hh hf e he
    have h1 := hg.cont h hh
    have hsr : Sorted (sk k srcs h.src) :=
      MergerProofs.remaining_sorted (s := (srcs[h.src]!).seek k) (hsorted _ (hinb h hh))
    rw [← h1] at hsr
    simp only [contrib, hf, Bool.false_eq_true, if_false] at hsr
    exact (Sorted_cons.mp hsr).1 e he
  · intro hd h hh hf e he
    have h1 := hg.cont h hh
    have hsr : DSorted c (sk k srcs h.src) :=
      MergerProofs.remaining_dsorted (s := (srcs[h.src]!).seek k) (hd _ (hinb h hh))
    rw [← h1] at hsr
    simp only [contrib, hf, Bool.false_eq_true, if_false] at hsr
    have := (List.pairwise_cons.mp hsr).1 e he
    exact (MergerProofs.hle_congr c rfl rfl rfl rfl).trans this

/-! ### 2d. heap steps of the seek paths -/

theorem sorted_set {srcs : Array Src} {j : Nat} {s' : Src} (hj : j < srcs.size)
    (hes : s'.es = (srcs[j]!).es) (h : ∀ i, i < srcs.size → Sorted (srcs[i]!).es) :
    ∀ i, i < (srcs.setIfInBounds j s').size → Sorted ((srcs.setIfInBounds j s')[i]!).es := by
  intro i hi'
  rw [Array.size_setIfInBounds] at hi'
  by_cases hie : i = j
  · subst hie; rw [Heap.get_set_eq srcs _ s' hj, hes]; exact h _ hj
  · rw [Heap.get_set_ne srcs _ i s' hie]; exact h i hi'

/-- the root's source is re-positioned and delivers `x`: `heap_replace` -/
theorem hinv_replace_root (c : MCfg) (htot : ∀ a b, hle c a b = true ∨ hle c b a = true)
    (htrans : ∀ a b d, hle c a b = true → hle c b d = true → hle c a d = true)
    {srcs : Array Src} {heap : Array HEnt} (hi : HInv c srcs heap) {e : HEnt}
    (h0 : heap[0]? = some e) {x : Entry} {s' : Src} (hes : s'.es = (srcs[e.src]!).es)
    (hsr : Sorted (x :: s'.remaining)) (hds : DSrcs c srcs → DSorted c (x :: s'.remaining)) :
    HInv c (srcs.setIfInBounds e.src s')
      (Heap.replace (hle c) heap { src := e.src, key := x.key, val := x.val, finished := false }) := by
  obtain ⟨hl, hg, hs⟩ := heap_head h0
  generalize hnew : ({ src := e.src, key := x.key, val := x.val, finished := false } : HEnt) = new
  have hp : (Heap.replace (hle c) heap new).toList.Perm (new :: heap.toList.tail) :=
    Heap.replace_perm_tail (hle c) heap new hs
  have hnd := hi.nodup
  rw [hl, List.map_cons, List.nodup_cons] at hnd
  have hne : ∀ h ∈ heap.toList.tail, h.src ≠ e.src := by
    intro h hh heq
    exact hnd.1 (by rw [← heq]; exact List.mem_map_of_mem hh)
  have hein : e.src < srcs.size := hi.inb e (by rw [hl]; simp)
  have hnsrc : new.src = e.src := by rw [← hnew]
  have hnfin : new.finished = false := by rw [← hnew]
  refine ⟨?_, ?_, ?_, ?_, sorted_set hein hes hi.sorted, ?_, ?_⟩
  · exact Heap.replace_isHeap (hle c) htot htrans heap new hi.isHeap
  · apply (hp.map _).nodup_iff.mpr
    rw [List.map_cons, List.nodup_cons, hnsrc]
    exact hnd
  · intro h hh
    rw [Array.size_setIfInBounds]
    rcases List.mem_cons.mp (hp.mem_iff.mp hh) with rfl | hh
    · rw [hnsrc]; exact hein
    · exact hi.inb h (List.mem_of_mem_tail hh)
  · intro h hh
    rcases List.mem_cons.mp (hp.mem_iff.mp (List.mem_of_mem_tail hh)) with rfl | hh
    · exact hnfin
    · exact hi.finTail h hh
  · intro h hh hfin
    rcases List.mem_cons.mp (hp.mem_iff.mp hh) with rfl | hh
    · rw [hnsrc, Heap.get_set_eq srcs _ s' hein]
      intro y hy
      have := (Sorted_cons.mp hsr).1 y hy
      rw [← hnew]; exact this
    · rw [Heap.get_set_ne srcs _ h.src s' (hne h hh)]
      exact hi.headLe h (List.mem_of_mem_tail hh) hfin
  · intro hd h hh hfin
    have hd0 : DSrcs c srcs := (MergerProofs.DSrcs_set c hein hes).mp hd
    rcases List.mem_cons.mp (hp.mem_iff.mp hh) with rfl | hh
    · rw [hnsrc, Heap.get_set_eq srcs _ s' hein]
      intro y hy
      have := (List.pairwise_cons.mp (hds hd0)).1 y hy
      rw [← hnew]
      exact (MergerProofs.hle_congr c rfl rfl rfl rfl).trans this
    · rw [Heap.get_set_ne srcs _ h.src s' (hne h hh)]
      exact hi.headLeD hd0 h (List.mem_of_mem_tail hh) hfin

/-- the root's source is re-positioned and delivers nothing: `heap_pop` -/
theorem hinv_drop_root (c : MCfg) (htot : ∀ a b, hle c a b = true ∨ hle c b a = true)
    (htrans : ∀ a b d, hle c a b = true → hle c b d = true → hle c a d = true)
    {srcs : Array Src} {heap : Array HEnt} (hi : HInv c srcs heap) {e : HEnt}
    (h0 : heap[0]? = some e) {s' : Src} (hes : s'.es = (srcs[e.src]!).es) :
    HInv c (srcs.setIfInBounds e.src s') (Heap.pop (hle c) heap) ∧
    (Heap.pop (hle c) heap).toList.Perm heap.toList.tail := by
  obtain ⟨hl, hg, hs⟩ := heap_head h0
  have hp : (Heap.pop (hle c) heap).toList.Perm heap.toList.tail := by
    have := Heap.pop_perm (hle c) heap hs
    rw [hg, hl] at this
    exact this.cons_inv
  have hnd := hi.nodup
  rw [hl, List.map_cons, List.nodup_cons] at hnd
  have hne : ∀ h ∈ heap.toList.tail, h.src ≠ e.src := by
    intro h hh heq
    exact hnd.1 (by rw [← heq]; exact List.mem_map_of_mem hh)
  have hein : e.src < srcs.size := hi.inb e (by rw [hl]; simp)
  refine ⟨⟨?_, ?_, ?_, ?_, sorted_set hein hes hi.sorted, ?_, ?_⟩, hp⟩
  · exact Heap.pop_isHeap (hle c) htot htrans heap hi.isHeap
  · exact (hp.map _).nodup_iff.mpr hnd.2
  · intro h hh
    rw [Array.size_setIfInBounds]
    exact hi.inb h (List.mem_of_mem_tail (hp.mem_iff.mp hh))
  · exact fun h hh => hi.finTail h (hp.mem_iff.mp (List.mem_of_mem_tail hh))
  · intro h hh hfin
    have hh' := hp.mem_iff.mp hh
    rw [Heap.get_set_ne srcs _ h.src s' (hne h hh')]
    exact hi.headLe h (List.mem_of_mem_tail hh') hfin
  · intro hd h hh hfin
    have hd0 : DSrcs c srcs := (MergerProofs.DSrcs_set c hein hes).mp hd
    have hh' := hp.mem_iff.mp hh
    rw [Heap.get_set_ne srcs _ h.src s' (hne h hh')]
    exact hi.headLeD hd0 h (List.mem_of_mem_tail hh') hfin

/-- what `merger_iter_seek` leaves untouched -/
structure Frame (m m' : MIter) : Prop where
  size : m'.srcs.size = m.srcs.size
  ek : ∀ j : Nat, (m'.srcs[j]! : Src).es = (m.srcs[j]! : Src).es ∧
    (m'.srcs[j]! : Src).kind = (m.srcs[j]! : Src).kind
  live : m'.live = m.live
  curKey : m'.curKey = m.curKey
  pending : m'.pending = m.pending

theorem Frame.refl (m : MIter) : Frame m m := ⟨rfl, fun _ => ⟨rfl, rfl⟩, rfl, rfl, rfl⟩

theorem Frame.trans {a b d : MIter} (h1 : Frame a b) (h2 : Frame b d) : Frame a d :=
  ⟨h2.size.trans h1.size, fun j => ⟨(h2.ek j).1.trans (h1.ek j).1, (h2.ek j).2.trans (h1.ek j).2⟩,
    h2.live.trans h1.live, h2.curKey.trans h1.curKey, h2.pending.trans h1.pending⟩

theorem Frame.sk {m m' : MIter} (h : Frame m m') (k : Bytes) (i : Nat) :
    sk k m'.srcs i = sk k m.srcs i := seek_remaining_congr (h.ek i).1 (h.ek i).2 k

theorem ek_set (srcs : Array Src) (j : Nat) (s' : Src)
    (he : s'.es = (srcs[j]!).es) (hk : s'.kind = (srcs[j]!).kind) (i : Nat) :
    ((srcs.setIfInBounds j s')[i]!).es = (srcs[i]!).es ∧
    ((srcs.setIfInBounds j s')[i]!).kind = (srcs[i]!).kind := by
  by_cases hij : i = j
  · subst hij
    by_cases hi : i < srcs.size
    · rw [Heap.get_set_eq srcs i s' hi]; exact ⟨he, hk⟩
    · have : srcs.setIfInBounds i s' = srcs := by grind
      rw [this]; exact ⟨rfl, rfl⟩
  · rw [Heap.get_set_ne srcs j i s' hij]; exact ⟨rfl, rfl⟩

theorem frame_set (m : MIter) (j : Nat) (s' : Src) (heap' : Array HEnt)
    (he : s'.es = (m.srcs[j]!).es) (hk : s'.kind = (m.srcs[j]!).kind) :
    Frame m { m with srcs := m.srcs.setIfInBounds j s', heap := heap' } :=
  ⟨by simp, ek_set m.srcs j s' he hk, rfl, rfl, rfl⟩

/-! ### 2e. the rebuild path -/

def rebStep (k : Bytes) (m : MIter) (i : Nat) : MIter :=
  let s' := (m.srcs[i]!).seek k
  let m := { m with srcs := m.srcs.setIfInBounds i s' }
  let r := fill m i { src := i, key := [], val := [] }
  if r.1.finished then r.2 else { r.2 with heap := r.2.heap.push r.1 }

theorem rebuild_eq (c : MCfg) (m : MIter) (k : Bytes) :
    mergerSeekRebuild c m k =
      { (m.live.foldl (rebStep k) { m with heap := #[] }) with
        heap := Heap.heapify (hle c) (m.live.foldl (rebStep k) { m with heap := #[] }).heap } := rfl

theorem rebStep_some (k : Bytes) (m : MIter) (i : Nat) (hi : i < m.srcs.size) {x : Entry} {s' : Src}
    (h : ((m.srcs[i]!).seek k).next = (some x, s')) :
    rebStep k m i = { m with
      srcs := (m.srcs.setIfInBounds i ((m.srcs[i]!).seek k)).setIfInBounds i s'
      heap := m.heap.push { src := i, key := x.key, val := x.val, finished := false } } := by
  simp [rebStep, fill, Heap.get_set_eq m.srcs i _ hi, h]

theorem rebStep_none (k : Bytes) (m : MIter) (i : Nat) (hi : i < m.srcs.size) {s' : Src}
    (h : ((m.srcs[i]!).seek k).next = (none, s')) :
    rebStep k m i = { m with
      srcs := (m.srcs.setIfInBounds i ((m.srcs[i]!).seek k)).setIfInBounds i s' } := by
  simp [rebStep, fill, Heap.get_set_eq m.srcs i _ hi, h]

theorem set_set (srcs : Array Src) (i : Nat) (a b : Src) :
    (srcs.setIfInBounds i a).setIfInBounds i b = srcs.setIfInBounds i b := by
  grind

structure RebInv (k : Bytes) (m0 : MIter) (done : List Nat) (m : MIter) : Prop where
  frame : Frame m0 m
  fin : m.finished = m0.finished
  same : ∀ j, j ∉ done → m.srcs[j]! = m0.srcs[j]!
  hsrc : ∀ h ∈ m.heap.toList, h.src ∈ done ∧ h.finished = false
  nodup : (m.heap.toList.map (·.src)).Nodup
  good : Good k m.srcs m.heap.toList done

theorem rebInv_step (k : Bytes) (m0 : MIter) (done : List Nat) (m : MIter) (i : Nat)
    (hi : i < m0.srcs.size) (hid : i ∉ done) (h : RebInv k m0 done m) :
    RebInv k m0 (done ++ [i]) (rebStep k m i) := by
  have him : i < m.srcs.size := by rw [h.frame.size]; exact hi
  have hne : ∀ x ∈ m.heap.toList, x.src ≠ i := fun x hx heq => hid (heq ▸ (h.hsrc x hx).1)
  cases hn : ((m.srcs[i]!).seek k).next with
  | mk o s' =>
    obtain ⟨hes, hkd⟩ := next_ek hn
    have hes' : s'.es = (m.srcs[i]!).es := hes
    have hkd' : s'.kind = (m.srcs[i]!).kind := hkd
    have hsk : ∀ j, sk k (m.srcs.setIfInBounds i s') j = sk k m.srcs j := sk_set k m.srcs i s' hes' hkd'
    have hframe : Frame m0 { m with srcs := m.srcs.setIfInBounds i s' } :=
      h.frame.trans ⟨by simp, ek_set m.srcs i s' hes' hkd', rfl, rfl, rfl⟩
    have hsame : ∀ j, j ∉ done ++ [i] → (m.srcs.setIfInBounds i s')[j]! = m0.srcs[j]! := by
      intro j hj
      simp only [List.mem_append, List.mem_singleton, not_or] at hj
      rw [Heap.get_set_ne m.srcs i j s' hj.2]
      exact h.same j hj.1
    cases o with
    | none =>
      rw [rebStep_none k m i him hn, set_set]
      have hrem := (MergerProofs.next_none hn).1
      refine ⟨hframe, h.fin, hsame, ?_, h.nodup, ?_, ?_⟩
      · intro x hx
        exact ⟨List.mem_append_left _ (h.hsrc x hx).1, (h.hsrc x hx).2⟩
      · intro x hx
        simp only
        rw [hsk, MergerProofs.contrib_set_ne m.srcs i s' x (hne x hx)]
        exact h.good.cont x hx
      · intro j hj hn'
        simp only at hn' ⊢
        rw [hsk]
        rcases List.mem_append.mp hj with hj | hj
        · exact h.good.empt j hj hn'
        · simp only [List.mem_singleton] at hj; subst hj; exact hrem
    | some x =>
      rw [rebStep_some k m i him hn, set_set]
      have hrem := (MergerProofs.next_some hn).1
      have hl : (m.heap.push { src := i, key := x.key, val := x.val, finished := false }).toList =
          m.heap.toList ++ [{ src := i, key := x.key, val := x.val, finished := false }] := by simp
      refine ⟨⟨hframe.size, hframe.ek, hframe.live, hframe.curKey, hframe.pending⟩,
        h.fin, hsame, ?_, ?_, ?_, ?_⟩
      · intro y hy
        simp only at hy
        rw [hl] at hy
        rcases List.mem_append.mp hy with hy | hy
        · exact ⟨List.mem_append_left _ (h.hsrc y hy).1, (h.hsrc y hy).2⟩
        · simp only [List.mem_singleton] at hy; subst hy; simp
      · simp only
        rw [hl, List.map_append, List.nodup_append]
        refine ⟨h.nodup, by simp, ?_⟩
        intro a ha b hb
        simp only [List.map_cons, List.map_nil, List.mem_singleton] at hb
        subst hb
        obtain ⟨y, hy, rfl⟩ := List.mem_map.mp ha
        exact hne y hy
      · intro y hy
        simp only at hy ⊢
        rw [hl] at hy
        rw [hsk]
        rcases List.mem_append.mp hy with hy | hy
        · rw [MergerProofs.contrib_set_ne m.srcs i s' y (hne y hy)]
          exact h.good.cont y hy
        · simp only [List.mem_singleton] at hy; subst hy
          simp only [contrib, Bool.false_eq_true, if_false, Heap.get_set_eq m.srcs i s' him]
          exact hrem.symm
      · intro j hj hn'
        simp only at hn' ⊢
        rw [hl] at hn'
        rw [hsk]
        rcases List.mem_append.mp hj with hj | hj
        · exact h.good.empt j hj (fun y hy => hn' y (List.mem_append_left _ hy))
        · simp only [List.mem_singleton] at hj; subst hj
          exact absurd rfl (hn' _ (List.mem_append_right _ (List.mem_singleton.mpr rfl)))

theorem rebInv_fold (k : Bytes) (m0 : MIter) :
    ∀ (l done : List Nat) (m : MIter), (done ++ l).Nodup → (∀ i ∈ l, i < m0.srcs.size) →
      RebInv k m0 done m → RebInv k m0 (done ++ l) (l.foldl (rebStep k) m) := by
  intro l
  induction l with
  | nil => intro done m _ _ h; simpa using h
  | cons i l ih =>
    intro done m hnd hinb h
    have hid : i ∉ done := by
      intro hd
      have := (List.nodup_append.mp hnd).2.2 i hd i (by simp)
      exact this rfl
    have h1 := rebInv_step k m0 done m i (hinb i (by simp)) hid h
    have := ih (done ++ [i]) (rebStep k m i) (by simpa using hnd)
      (fun j hj => hinb j (List.mem_cons_of_mem _ hj)) h1
    simpa using this

theorem Good.congr_mem {k : Bytes} {srcs : Array Src} {heap heap' : List HEnt} {live : List Nat}
    (h : Good k srcs heap live) (hm : ∀ x, x ∈ heap' ↔ x ∈ heap) : Good k srcs heap' live :=
  ⟨fun x hx => h.cont x ((hm x).mp hx), fun i hi hn => h.empt i hi (fun x hx => hn x ((hm x).mpr hx))⟩

/-- summary of the rebuild path -/
theorem rebuild_spec (c : MCfg) (htot : ∀ a b, hle c a b = true ∨ hle c b a = true)
    (htrans : ∀ a b d, hle c a b = true → hle c b d = true → hle c a d = true)
    (m0 : MIter) (k : Bytes) (hnd : m0.live.Nodup) (hinb : ∀ i ∈ m0.live, i < m0.srcs.size)
    (hsorted : ∀ i, i < m0.srcs.size → Sorted (m0.srcs[i]!).es) :
    HInv c (mergerSeekRebuild c m0 k).srcs (mergerSeekRebuild c m0 k).heap ∧
    Frame m0 (mergerSeekRebuild c m0 k) ∧
    (mergerSeekRebuild c m0 k).finished = m0.finished ∧
    (∀ h ∈ (mergerSeekRebuild c m0 k).heap.toList, h.src ∈ m0.live) ∧
    Good k (mergerSeekRebuild c m0 k).srcs (mergerSeekRebuild c m0 k).heap.toList m0.live := by
  have h0 : RebInv k m0 [] { m0 with heap := #[] } :=
    ⟨⟨rfl, fun _ => ⟨rfl, rfl⟩, rfl, rfl, rfl⟩, rfl, fun _ _ => rfl, by simp, by simp,
      ⟨by simp, by simp⟩⟩
  have h := rebInv_fold k m0 m0.live [] _ (by simpa using hnd) hinb h0
  rw [List.nil_append] at h
  rw [rebuild_eq]
  generalize m0.live.foldl (rebStep k) { m0 with heap := #[] } = m1 at h
  have hp : (Heap.heapify (hle c) m1.heap).toList.Perm m1.heap.toList := Heap.heapify_perm _ _
  have hmem : ∀ x, x ∈ (Heap.heapify (hle c) m1.heap).toList ↔ x ∈ m1.heap.toList :=
    fun x => hp.mem_iff
  have hg : Good k m1.srcs (Heap.heapify (hle c) m1.heap).toList m0.live := h.good.congr_mem hmem
  have hsz : ∀ x ∈ (Heap.heapify (hle c) m1.heap).toList, x.src < m1.srcs.size := by
    intro x hx
    rw [h.frame.size]
    exact hinb _ (h.hsrc x ((hmem x).mp hx)).1
  have hso : ∀ i, i < m1.srcs.size → Sorted (m1.srcs[i]!).es := by
    intro i hi
    rw [(h.frame.ek i).1]
    exact hsorted i (by rw [← h.frame.size]; exact hi)
  obtain ⟨hle1, hle2⟩ := good_headLe c hsz hso hg
  refine ⟨⟨?_, ?_, hsz, ?_, hso, hle1, hle2⟩, ⟨h.frame.size, h.frame.ek, h.frame.live,
    h.frame.curKey, h.frame.pending⟩, h.fin, ?_, hg⟩
  · exact Heap.heapify_isHeap (hle c) htot htrans _
  · exact (hp.map _).nodup_iff.mpr h.nodup
  · intro x hx
    exact (h.hsrc x ((hmem x).mp (List.mem_of_mem_tail hx))).2
  · intro x hx
    exact (h.hsrc x ((hmem x).mp hx)).1

/-! ### 2f. the forward path -/

theorem fwd_empty (c : MCfg) (k : Bytes) (m : MIter) (changed : Bool) (fuel : Nat)
    (h0 : m.heap[0]? = none) :
    mergerSeekFwdLoop c k m changed (fuel + 1) = ({ m with finished := true }, changed) := by
  simp [mergerSeekFwdLoop, h0]

theorem fwd_stop (c : MCfg) (k : Bytes) (m : MIter) (changed : Bool) (fuel : Nat) {e : HEnt}
    (h0 : m.heap[0]? = some e) (hk : bcmp k e.key ≠ .gt) :
    mergerSeekFwdLoop c k m changed (fuel + 1) = (m, changed) := by
  simp [mergerSeekFwdLoop, h0, hk]

theorem fwd_some (c : MCfg) (k : Bytes) (m : MIter) (changed : Bool) (fuel : Nat) {e : HEnt}
    (h0 : m.heap[0]? = some e) (hk : bcmp k e.key = .gt) (hi : e.src < m.srcs.size)
    {x : Entry} {s' : Src} (h : ((m.srcs[e.src]!).seek k).next = (some x, s')) :
    mergerSeekFwdLoop c k m changed (fuel + 1) =
      mergerSeekFwdLoop c k { m with
        srcs := m.srcs.setIfInBounds e.src s'
        heap := Heap.replace (hle c) m.heap
          { src := e.src, key := x.key, val := x.val, finished := false } } true fuel := by
  simp [mergerSeekFwdLoop, h0, hk, fill, Heap.get_set_eq m.srcs e.src _ hi, h]

theorem fwd_none (c : MCfg) (k : Bytes) (m : MIter) (changed : Bool) (fuel : Nat) {e : HEnt}
    (h0 : m.heap[0]? = some e) (hk : bcmp k e.key = .gt) (hi : e.src < m.srcs.size)
    {s' : Src} (h : ((m.srcs[e.src]!).seek k).next = (none, s')) :
    mergerSeekFwdLoop c k m changed (fuel + 1) =
      mergerSeekFwdLoop c k { m with
        srcs := m.srcs.setIfInBounds e.src s'
        heap := Heap.pop (hle c) m.heap } true fuel := by
  simp [mergerSeekFwdLoop, h0, hk, fill, Heap.get_set_eq m.srcs e.src _ hi, h]

structure FwdInv (c : MCfg) (k : Bytes) (m : MIter) : Prop where
  hinv : HInv c m.srcs m.heap
  heapLive : ∀ h ∈ m.heap.toList, h.src ∈ m.live
  contGe : ∀ h ∈ m.heap.toList, bcmp k h.key ≠ .gt → contrib m.srcs h = sk k m.srcs h.src
  empt : ∀ i ∈ m.live, (∀ h ∈ m.heap.toList, h.src ≠ i) → sk k m.srcs i = []

def cnt (k : Bytes) (l : List HEnt) : Nat := (l.filter fun h => bcmp k h.key == .gt).length

theorem cnt_perm (k : Bytes) {l l' : List HEnt} (h : l.Perm l') : cnt k l = cnt k l' :=
  (h.filter _).length_eq

theorem cnt_cons (k : Bytes) (e : HEnt) (l : List HEnt) :
    cnt k (e :: l) = (if bcmp k e.key = .gt then 1 else 0) + cnt k l := by
  unfold cnt
  rw [List.filter_cons]
  by_cases h : bcmp k e.key = .gt
  · simp [h]; omega
  · simp [h]

theorem fwd_loop (c : MCfg) (htot : ∀ a b, hle c a b = true ∨ hle c b a = true)
    (htrans : ∀ a b d, hle c a b = true → hle c b d = true → hle c a d = true) (k : Bytes) :
    ∀ fuel m changed, FwdInv c k m → cnt k m.heap.toList < fuel → m.finished = false →
      FwdInv c k (mergerSeekFwdLoop c k m changed fuel).1 ∧
      Frame m (mergerSeekFwdLoop c k m changed fuel).1 ∧
      ((mergerSeekFwdLoop c k m changed fuel).1.finished = true →
        (mergerSeekFwdLoop c k m changed fuel).1.heap.size = 0) ∧
      (∀ e, (mergerSeekFwdLoop c k m changed fuel).1.heap[0]? = some e → bcmp k e.key ≠ .gt) ∧
      ((mergerSeekFwdLoop c k m changed fuel).2 = false → changed = false ∧
        (mergerSeekFwdLoop c k m changed fuel).1.srcs = m.srcs ∧
        (mergerSeekFwdLoop c k m changed fuel).1.heap = m.heap) := by
  intro fuel
  induction fuel with
  | zero => intro m _ _ h; omega
  | succ fuel ih =>
    intro m changed hi hc hfin
    cases h0 : m.heap[0]? with
    | none =>
      rw [fwd_empty c k m changed fuel h0]
      refine ⟨⟨hi.hinv, hi.heapLive, hi.contGe, hi.empt⟩, ⟨rfl, fun _ => ⟨rfl, rfl⟩, rfl, rfl, rfl⟩,
        ?_, ?_, fun h => ⟨h, rfl, rfl⟩⟩
      · intro _; simpa using h0
      · intro e he; simp only at he; rw [h0] at he; simp at he
    | some e =>
      by_cases hk : bcmp k e.key = .gt
      · obtain ⟨hl, hg, hsz⟩ := heap_head h0
        have hein : e.src < m.srcs.size := hi.hinv.inb e (by rw [hl]; simp)
        have hso := hi.hinv.sorted _ hein
        have hnd := hi.hinv.nodup
        rw [hl, List.map_cons, List.nodup_cons] at hnd
        have hne : ∀ h ∈ m.heap.toList.tail, h.src ≠ e.src := by
          intro h hh heq
          exact hnd.1 (by rw [← heq]; exact List.mem_map_of_mem hh)
        have hcnt : cnt k m.heap.toList = 1 + cnt k m.heap.toList.tail := by
          conv => lhs; rw [hl]
          rw [cnt_cons, if_pos hk]
        cases hn : ((m.srcs[e.src]!).seek k).next with
        | mk o s' =>
          obtain ⟨hes, hkd⟩ := next_ek hn
          have hes' : s'.es = (m.srcs[e.src]!).es := hes
          have hkd' : s'.kind = (m.srcs[e.src]!).kind := hkd
          have hsk : ∀ j, sk k (m.srcs.setIfInBounds e.src s') j = sk k m.srcs j :=
            sk_set k m.srcs _ s' hes' hkd'
          cases o with
          | some x =>
            rw [fwd_some c k m changed fuel h0 hk hein hn]
            have hrem := (MergerProofs.next_some hn).1
            have hsr : Sorted (x :: s'.remaining) := by
              rw [← hrem]; exact MergerProofs.remaining_sorted (s := (m.srcs[e.src]!).seek k) hso
            have hds : DSrcs c m.srcs → DSorted c (x :: s'.remaining) := by
              intro hd; rw [← hrem]
              exact MergerProofs.remaining_dsorted (s := (m.srcs[e.src]!).seek k) (hd _ hein)
            have hxk : bcmp k x.key ≠ .gt :=
              (Src.seek_remaining_ge _ hso k x (by rw [hrem]; simp)).1
            generalize hnew : ({ src := e.src, key := x.key, val := x.val, finished := false } : HEnt)
              = new at *
            have hp : (Heap.replace (hle c) m.heap new).toList.Perm (new :: m.heap.toList.tail) :=
              Heap.replace_perm_tail (hle c) m.heap new hsz
            have hi' : FwdInv c k { m with
                srcs := m.srcs.setIfInBounds e.src s'
                heap := Heap.replace (hle c) m.heap new } := by
              refine ⟨?_, ?_, ?_, ?_⟩
              · rw [← hnew]; exact hinv_replace_root c htot htrans hi.hinv h0 hes' hsr hds
              · intro h hh
                rcases List.mem_cons.mp (hp.mem_iff.mp hh) with rfl | hh
                · rw [← hnew]; exact hi.heapLive e (by rw [hl]; simp)
                · exact hi.heapLive h (List.mem_of_mem_tail hh)
              · intro h hh hge
                simp only at hh ⊢
                rw [hsk]
                rcases List.mem_cons.mp (hp.mem_iff.mp hh) with rfl | hh
                · rw [← hnew]
                  simp only [contrib, Bool.false_eq_true, if_false,
                    Heap.get_set_eq m.srcs e.src s' hein]
                  exact hrem.symm
                · rw [MergerProofs.contrib_set_ne m.srcs _ s' h (hne h hh)]
                  exact hi.contGe h (List.mem_of_mem_tail hh) hge
              · intro i hil hni
                simp only at hni ⊢
                rw [hsk]
                apply hi.empt i hil
                intro h hh
                rw [hl] at hh
                rcases List.mem_cons.mp hh with rfl | hh
                · have := hni new (hp.mem_iff.mpr (by simp))
                  rw [← hnew] at this; exact this
                · exact hni h (hp.mem_iff.mpr (List.mem_cons_of_mem _ hh))
            have hc' : cnt k (Heap.replace (hle c) m.heap new).toList < fuel := by
              rw [cnt_perm k hp, cnt_cons, if_neg (by rw [← hnew]; exact hxk)]
              omega
            obtain ⟨r1, r2, r3, r4, r5⟩ := ih _ true hi' hc' hfin
            refine ⟨r1, Frame.trans (frame_set m _ s' _ hes' hkd') r2, r3, r4, ?_⟩
            intro hf; have := (r5 hf).1; simp at this
          | none =>
            rw [fwd_none c k m changed fuel h0 hk hein hn]
            have hrem := (MergerProofs.next_none hn).1
            obtain ⟨hh1, hp⟩ := hinv_drop_root c htot htrans hi.hinv h0 hes'
            have hi' : FwdInv c k { m with
                srcs := m.srcs.setIfInBounds e.src s'
                heap := Heap.pop (hle c) m.heap } := by
              refine ⟨hh1, ?_, ?_, ?_⟩
              · intro h hh
                exact hi.heapLive h (List.mem_of_mem_tail (hp.mem_iff.mp hh))
              · intro h hh hge
                simp only at hh ⊢
                have hh' := hp.mem_iff.mp hh
                rw [hsk, MergerProofs.contrib_set_ne m.srcs _ s' h (hne h hh')]
                exact hi.contGe h (List.mem_of_mem_tail hh') hge
              · intro i hil hni
                simp only at hni ⊢
                rw [hsk]
                by_cases hie : e.src = i
                · rw [← hie]; exact hrem
                · apply hi.empt i hil
                  intro h hh
                  rw [hl] at hh
                  rcases List.mem_cons.mp hh with rfl | hh
                  · exact hie
                  · exact hni h (hp.mem_iff.mpr hh)
            have hc' : cnt k (Heap.pop (hle c) m.heap).toList < fuel := by
              rw [cnt_perm k hp]; omega
            obtain ⟨r1, r2, r3, r4, r5⟩ := ih _ true hi' hc' hfin
            refine ⟨r1, Frame.trans (frame_set m _ s' _ hes' hkd') r2, r3, r4, ?_⟩
            intro hf; have := (r5 hf).1; simp at this
      · rw [fwd_stop c k m changed fuel h0 hk]
        refine ⟨hi, Frame.refl m, ?_, ?_, fun h => ⟨h, rfl, rfl⟩⟩
        · intro h; simp only at h; rw [hfin] at h; simp at h
        · intro e' he'; simp only at he'; rw [h0] at he'
          simp only [Option.some.injEq] at he'; subst he'; exact hk

/-! ### 2g. `merger_iter_seek` -/

theorem RunInv.mono' {lo : Bytes} {Pre Pre' : Entry → Prop} {srcs : Array Src} {heap : List HEnt}
    {live : List Nat} (h : RunInv lo Pre srcs heap live)
    (hp : ∀ i ∈ live, ∀ y ∈ sk lo srcs i, Pre y → Pre' y) : RunInv lo Pre' srcs heap live := by
  refine ⟨h.liveNodup, h.liveInb, h.heapLive, h.runNe, ?_, ?_⟩
  · intro x hx
    obtain ⟨pre, e1, e2⟩ := h.inHeap x hx
    refine ⟨pre, e1, fun y hy => hp _ (h.heapLive x hx) y ?_ (e2 y hy)⟩
    rw [e1]; exact List.mem_append_left _ hy
  · intro i hi hn y hy
    exact hp i hi y hy (h.notInHeap i hi hn y hy)

theorem seekInv_of_good {lo k : Bytes} (hlo : bcmp lo k ≠ .gt) {m' : MIter}
    (hnd : m'.live.Nodup) (hinb : ∀ i ∈ m'.live, i < m'.srcs.size)
    (hl : ∀ h ∈ m'.heap.toList, h.src ∈ m'.live) (hne : ∀ i ∈ m'.live, sk lo m'.srcs i ≠ [])
    (hsorted : ∀ i, i < m'.srcs.size → Sorted (m'.srcs[i]!).es)
    (hhn : (m'.heap.toList.map (·.src)).Nodup)
    (hg : Good k m'.srcs m'.heap.toList m'.live)
    (hcur : m'.curKey ≠ [] → ∀ i ∈ m'.live, ∀ y ∈ sk lo m'.srcs i, kLt k y = true →
      bcmp y.key m'.curKey ≠ .gt) :
    SeekInv lo m' ∧ (pool m').Perm (m'.live.flatMap (sk k m'.srcs)) := by
  have hpool : (pool m').Perm (m'.live.flatMap (sk k m'.srcs)) := by
    rw [pool_eq]; exact good_pool k m'.srcs m'.live m'.heap.toList hnd hl hhn hg
  refine ⟨?_, hpool⟩
  unfold SeekInv
  refine (good_runInv hlo hnd hinb hl hne hsorted hg).mono' ?_
  intro i hi y hy hlt b hb
  rcases hb with ⟨h1, rfl⟩ | ⟨x, hx, rfl⟩
  · exact hcur h1 i hi y hy hlt
  · have hx' := hpool.mem_iff.mp hx
    obtain ⟨j, hj, hxj⟩ := List.mem_flatMap.mp hx'
    have := (Src.seek_remaining_ge _ (hsorted j (hinb j hj)) k x hxj).1
    simp only [kLt, beq_iff_eq] at hlt
    rw [bcmp_lt_le_trans hlt this]; simp

theorem mergerSeek_unfold (c : MCfg) (hF8 : c.fixF8 = true) (m : MIter) (k : Bytes) :
    mergerSeek c m k =
      if (m.heap.size == 0 || m.curKey.length == 0 || bcmp k m.curKey != .gt) then
        mergerSeekRebuild c { m with finished := false, pending := false } k
      else
        if (mergerSeekFwdLoop c k { m with finished := false, pending := false } false
            (m.heap.size + 1)).2 then
          { (mergerSeekFwdLoop c k { m with finished := false, pending := false } false
              (m.heap.size + 1)).1 with curVal := [], curKey := k }
        else (mergerSeekFwdLoop c k { m with finished := false, pending := false } false
              (m.heap.size + 1)).1 := by
  unfold mergerSeek
  simp only [hF8, if_true]

/-- what every operation leaves untouched: the sources' contents and kinds, and the live set -/
structure SFrame (m m' : MIter) : Prop where
  size : m'.srcs.size = m.srcs.size
  ek : ∀ j : Nat, (m'.srcs[j]! : Src).es = (m.srcs[j]! : Src).es ∧
    (m'.srcs[j]! : Src).kind = (m.srcs[j]! : Src).kind
  live : m'.live = m.live

theorem Frame.sframe {m m' : MIter} (h : Frame m m') : SFrame m m' := ⟨h.size, h.ek, h.live⟩

theorem SFrame.refl (m : MIter) : SFrame m m := ⟨rfl, fun _ => ⟨rfl, rfl⟩, rfl⟩

theorem SFrame.trans {a b d : MIter} (h1 : SFrame a b) (h2 : SFrame b d) : SFrame a d :=
  ⟨h2.size.trans h1.size, fun j => ⟨(h2.ek j).1.trans (h1.ek j).1, (h2.ek j).2.trans (h1.ek j).2⟩,
    h2.live.trans h1.live⟩

theorem SFrame.sk {m m' : MIter} (h : SFrame m m') (k : Bytes) (i : Nat) :
    sk k m'.srcs i = sk k m.srcs i := seek_remaining_congr (h.ek i).1 (h.ek i).2 k

theorem filter_kGe_self {k : Bytes} {l : List Entry} (h : ∀ x ∈ l, bcmp k x.key ≠ .gt) :
    l.filter (kGe k) = l := by
  rw [List.filter_eq_self]
  intro x hx
  simp only [kGe, bne_iff_ne, ne_eq]
  exact (bcmp_not_lt_iff _ _).mpr (h x hx)

theorem filter_kGe_nil {k : Bytes} {l : List Entry} (h : ∀ x ∈ l, kLt k x = true) :
    l.filter (kGe k) = [] := by
  rw [List.filter_eq_nil_iff]
  intro x hx
  have := h x hx
  simp only [kLt, beq_iff_eq] at this
  simp [kGe, this]

end MergerSeek

open MergerSeek in
/-- **2. `merger_iter_seek`** (repaired code).  For a state satisfying the invariants and a key
    `k ≥ lo` (`lo` = the key the sources were created at; `[]` for `merger_iter`): the invariants
    hold afterwards, and the pool is exactly what the live sources hold at / after `k`. -/
theorem mergerSeek_inv (c : MCfg) (hF8 : c.fixF8 = true)
    (htot : ∀ a b, hle c a b = true ∨ hle c b a = true)
    (htrans : ∀ a b d, hle c a b = true → hle c b d = true → hle c a d = true)
    (lo : Bytes) {m : MIter} (hi : MInv c m) (hs : SeekInv lo m) (k : Bytes)
    (hlo : bcmp lo k ≠ .gt) :
    MInv c (mergerSeek c m k) ∧ SeekInv lo (mergerSeek c m k) ∧
    (pool (mergerSeek c m k)).Perm (m.live.flatMap fun i => ((m.srcs[i]!).seek k).remaining) ∧
    SFrame m (mergerSeek c m k) := by
  have hsorted := hi.hinv.sorted
  have hpre : ∀ i ∈ m.live, ∀ y ∈ sk lo m.srcs i, (∀ h ∈ m.heap.toList, h.src ≠ i) →
      m.curKey ≠ [] → bcmp y.key m.curKey ≠ .gt := by
    intro i hi' y hy hn hc
    exact hs.notInHeap i hi' hn y hy _ (Or.inl ⟨hc, rfl⟩)
  rw [mergerSeek_unfold c hF8]
  split
  · -- the rebuild path
    rename_i hcond
    obtain ⟨h1, h2, h3, h4, h5⟩ := rebuild_spec c htot htrans
      { m with finished := false, pending := false } k hs.liveNodup hs.liveInb hsorted
    generalize mergerSeekRebuild c { m with finished := false, pending := false } k = m' at *
    have hfr : SFrame m m' := ⟨h2.size, h2.ek, h2.live⟩
    have hlive : m'.live = m.live := h2.live
    have hso' : ∀ i, i < m'.srcs.size → Sorted (m'.srcs[i]!).es := h1.sorted
    have hsk : sk k m'.srcs = fun i => ((m.srcs[i]!).seek k).remaining :=
      funext (hfr.sk k)
    obtain ⟨r1, r2⟩ := seekInv_of_good (m' := m') hlo (by rw [hlive]; exact hs.liveNodup)
      (by rw [hlive, hfr.size]; exact hs.liveInb) (by rw [hlive]; exact h4)
      (by intro i hi'; rw [hfr.sk]; rw [hlive] at hi'; exact hs.runNe i hi') hso' h1.nodup
      (by rw [hlive]; exact h5)
      (by
        intro hc i hi' y hy hlt
        rw [hlive] at hi'; rw [hfr.sk] at hy
        have hck : m'.curKey = m.curKey := h2.curKey
        rw [hck] at hc ⊢
        simp only [Bool.or_eq_true, beq_iff_eq, bne_iff_ne, ne_eq] at hcond
        rcases hcond with (hz | hz) | hz
        · apply hpre i hi' y hy _ hc
          have : m.heap.toList = [] := by
            have := Array.eq_empty_of_size_eq_zero hz; rw [this]
          intro h hh; rw [this] at hh; simp at hh
        · exact absurd (List.eq_nil_of_length_eq_zero hz) hc
        · simp only [kLt, beq_iff_eq] at hlt
          rw [bcmp_lt_le_trans hlt hz]; decide)
    refine ⟨⟨⟨h1, ?_⟩, ?_⟩, r1, ?_, hfr⟩
    · intro hf; rw [h3] at hf; simp at hf
    · rw [h2.pending]
    · rw [hlive, hsk] at r2; exact r2
  · -- the forward path
    rename_i hcond
    simp only [Bool.or_eq_true, beq_iff_eq, bne_iff_ne, ne_eq, not_or, Decidable.not_not] at hcond
    obtain ⟨⟨hz, hcl⟩, hgt⟩ := hcond
    have hc : m.curKey ≠ [] := fun h => hcl (by rw [h]; rfl)
    have hltk : ∀ y : Entry, bcmp y.key m.curKey ≠ .gt → kLt k y = true := by
      intro y hy
      simp only [kLt, beq_iff_eq]
      exact bcmp_le_lt_trans hy ((bcmp_swap' _ _).mp hgt)
    have hsplit : ∀ i ∈ m.live, sk k m.srcs i = (sk lo m.srcs i).filter (kGe k) := fun i hi' =>
      (sk_split m.srcs i (hsorted i (hs.liveInb i hi')) hlo (hs.runNe i hi')).2
    have hf0 : FwdInv c k { m with finished := false, pending := false } := by
      refine ⟨hi.hinv, hs.heapLive, ?_, ?_⟩
      · intro h hh hge
        simp only at hh ⊢
        obtain ⟨pre, e1, e2⟩ := hs.inHeap h hh
        rw [hsplit _ (hs.heapLive h hh), e1, List.filter_append,
          filter_kGe_nil (fun y hy => hltk y (e2 y hy _ (Or.inl ⟨hc, rfl⟩))), List.nil_append,
          filter_kGe_self]
        intro x hx
        unfold MergerProofs.contrib at hx
        split at hx
        · simp at hx
        · rename_i hfin
          rcases List.mem_cons.mp hx with rfl | hx
          · exact hge
          · exact bcmp_le_trans hge (hi.hinv.headLe h hh (by simpa using hfin) x hx)
      · intro i hi' hn
        simp only at hn ⊢
        rw [hsplit i hi']
        exact filter_kGe_nil (fun y hy => hltk y (hpre i hi' y hy hn hc))
    have hcnt : cnt k m.heap.toList < m.heap.size + 1 := by
      unfold cnt
      have := List.length_filter_le (fun h : HEnt => bcmp k h.key == .gt) m.heap.toList
      simp only [Array.length_toList] at this
      omega
    obtain ⟨f1, f2, f3, f4, f5⟩ := fwd_loop c htot htrans k (m.heap.size + 1)
      { m with finished := false, pending := false } false hf0 hcnt rfl
    generalize mergerSeekFwdLoop c k { m with finished := false, pending := false } false
      (m.heap.size + 1) = r at *
    have hfr : SFrame m r.1 := ⟨f2.size, f2.ek, f2.live⟩
    have hlive : r.1.live = m.live := f2.live
    have hsk : sk k r.1.srcs = fun i => ((m.srcs[i]!).seek k).remaining :=
      funext (hfr.sk k)
    have hgood : Good k r.1.srcs r.1.heap.toList r.1.live := by
      refine ⟨?_, f1.empt⟩
      intro h hh
      apply f1.contGe h hh
      cases h0 : r.1.heap[0]? with
      | none =>
        have : r.1.heap.toList = [] := by
          have hz' : r.1.heap.size = 0 := by simpa using h0
          rw [Array.eq_empty_of_size_eq_zero hz']
        rw [this] at hh; simp at hh
      | some e =>
        exact bcmp_le_trans (f4 e h0)
          (MergerProofs.hle_key (MergerProofs.root_le_all c htot htrans f1.hinv.isHeap h0 h hh))
    have hpend : r.1.pending = false := f2.pending
    split
    · rename_i hch
      obtain ⟨r1, r2⟩ := seekInv_of_good (m' := { r.1 with curVal := [], curKey := k }) hlo
        (by rw [hlive]; exact hs.liveNodup)
        (by simp only; rw [hlive, hfr.size]; exact hs.liveInb) f1.heapLive
        (by intro i hi'; simp only at hi' ⊢; rw [hfr.sk]; rw [hlive] at hi'; exact hs.runNe i hi')
        f1.hinv.sorted f1.hinv.nodup hgood
        (by
          intro _ i _ y _ hlt
          simp only [kLt, beq_iff_eq] at hlt
          simp only; rw [hlt]; decide)
      refine ⟨⟨⟨f1.hinv, f3⟩, hpend⟩, r1, ?_, ⟨hfr.size, hfr.ek, hfr.live⟩⟩
      simp only at r2
      rw [hlive, hsk] at r2; exact r2
    · rename_i hch
      obtain ⟨_, g2, g3⟩ := f5 (by simpa using hch)
      have hpl : pool r.1 = pool m := by unfold pool; rw [g2, g3]
      have hsi : SeekInv lo r.1 := by
        refine seekInv_of_sub hs g2 (fun x => by rw [g3]) hlive ?_
        intro b hb
        rcases hb with ⟨h1, h2⟩ | ⟨x, hx, rfl⟩
        · left; rw [f2.curKey] at h1 h2; exact ⟨h1, h2⟩
        · right; rw [hpl] at hx; exact ⟨x, hx, rfl⟩
      have hp2 := good_pool k r.1.srcs r.1.live r.1.heap.toList (by rw [hlive]; exact hs.liveNodup)
        f1.heapLive f1.hinv.nodup hgood
      refine ⟨⟨⟨f1.hinv, f3⟩, hpend⟩, hsi, ?_, hfr⟩
      rw [hlive, hsk] at hp2; exact hp2

namespace MergerSeek
open MergerProofs (contrib poolL pool_eq poolL_cons heap_head)

/-! ### 2h. the initial state satisfies `SeekInv` -/

structure InitS (lo : Bytes) (srcs0 : Array Src) (n : Nat) (m : MIter) : Prop where
  size : m.srcs.size = srcs0.size
  ek : ∀ j : Nat, (m.srcs[j]! : Src).es = (srcs0[j]! : Src).es ∧
    (m.srcs[j]! : Src).kind = (srcs0[j]! : Src).kind
  rest : ∀ j, n ≤ j → m.srcs[j]! = srcs0[j]!
  liveLt : ∀ i ∈ m.live, i < n
  liveNodup : m.live.Nodup
  heapLive : ∀ h ∈ m.heap.toList, h.src ∈ m.live ∧ h.finished = false
  liveHeap : ∀ i ∈ m.live, ∃ h ∈ m.heap.toList, h.src = i
  cont : ∀ h ∈ m.heap.toList, contrib m.srcs h = sk lo m.srcs h.src
  curKey : m.curKey = []
  nonlive : ∀ i, i < n → i ∉ m.live → sk lo srcs0 i = []

theorem seek_self {s : Src} {lo : Bytes} (h : s.cur = specSeek s.es lo) : s.seek lo = s := by
  cases s; simp only [Src.seek] at *; rw [h]

theorem initS_step (c : MCfg) (lo : Bytes) (srcs0 : Array Src)
    (hcur : ∀ j, j < srcs0.size → (srcs0[j]!).cur = specSeek (srcs0[j]!).es lo)
    (n : Nat) (m : MIter) (h : InitS lo srcs0 n m) (hn : n < srcs0.size) :
    InitS lo srcs0 (n + 1) (MergerProofs.initStep c m n) := by
  have hnm : n < m.srcs.size := by rw [h.size]; exact hn
  have hsn : m.srcs[n]! = srcs0[n]! := h.rest n (Nat.le_refl _)
  have hself : ((m.srcs[n]!).seek lo).remaining = (m.srcs[n]!).remaining := by
    rw [hsn, seek_self (hcur n hn)]
  have hnl : n ∉ m.live := fun hh => Nat.lt_irrefl _ (h.liveLt n hh)
  have hne : ∀ x ∈ m.heap.toList, x.src ≠ n := fun x hx heq => hnl (heq ▸ (h.heapLive x hx).1)
  cases hnx : (m.srcs[n]!).next with
  | mk o s' =>
    obtain ⟨hes, hkd⟩ := next_ek hnx
    have hsk : ∀ j, sk lo (m.srcs.setIfInBounds n s') j = sk lo m.srcs j := sk_set lo m.srcs n s' hes hkd
    have hek : ∀ j : Nat, ((m.srcs.setIfInBounds n s')[j]! : Src).es = (srcs0[j]! : Src).es ∧
        ((m.srcs.setIfInBounds n s')[j]! : Src).kind = (srcs0[j]! : Src).kind := by
      intro j
      obtain ⟨a1, a2⟩ := ek_set m.srcs n s' hes hkd j
      exact ⟨a1.trans (h.ek j).1, a2.trans (h.ek j).2⟩
    have hrest : ∀ j, n + 1 ≤ j → (m.srcs.setIfInBounds n s')[j]! = srcs0[j]! := by
      intro j hj
      rw [Heap.get_set_ne m.srcs n j s' (by omega)]
      exact h.rest j (by omega)
    cases o with
    | none =>
      rw [MergerProofs.initStep_none c m n hnx]
      have hrem := (MergerProofs.next_none hnx).1
      refine ⟨by simpa using h.size, hek, hrest, fun i hi => Nat.lt_succ_of_lt (h.liveLt i hi),
        h.liveNodup, h.heapLive, h.liveHeap, ?_, h.curKey, ?_⟩
      · intro x hx
        simp only
        rw [hsk, MergerProofs.contrib_set_ne m.srcs n s' x (hne x hx)]
        exact h.cont x hx
      · intro i hi hil
        simp only at hil
        by_cases hin : i = n
        · subst hin
          have : sk lo srcs0 i = ((m.srcs[i]!).seek lo).remaining := by rw [hsn]; rfl
          rw [this, hself, hrem]
        · exact h.nonlive i (by omega) hil
    | some x =>
      rw [MergerProofs.initStep_some c m n hnx]
      have hrem := (MergerProofs.next_some hnx).1
      generalize hnew : ({ src := n, key := x.key, val := x.val, finished := false } : HEnt) = new
      have hp : (Heap.push (hle c) m.heap new).toList.Perm (new :: m.heap.toList) :=
        Heap.push_perm (hle c) m.heap new
      refine ⟨by simpa using h.size, hek, hrest, ?_, ?_, ?_, ?_, ?_, h.curKey, ?_⟩
      · intro i hi
        simp only at hi
        rcases List.mem_append.mp hi with hi | hi
        · exact Nat.lt_succ_of_lt (h.liveLt i hi)
        · simp only [List.mem_singleton] at hi; omega
      · simp only
        rw [List.nodup_append]
        refine ⟨h.liveNodup, by simp, ?_⟩
        intro a ha b hb
        simp only [List.mem_singleton] at hb
        subst hb
        intro heq; subst heq; exact hnl ha
      · intro y hy
        simp only at hy ⊢
        rcases List.mem_cons.mp (hp.mem_iff.mp hy) with rfl | hy
        · rw [← hnew]; simp
        · exact ⟨List.mem_append_left _ (h.heapLive y hy).1, (h.heapLive y hy).2⟩
      · intro i hi
        simp only at hi ⊢
        rcases List.mem_append.mp hi with hi | hi
        · obtain ⟨y, hy, hyi⟩ := h.liveHeap i hi
          exact ⟨y, hp.mem_iff.mpr (List.mem_cons_of_mem _ hy), hyi⟩
        · simp only [List.mem_singleton] at hi
          exact ⟨new, hp.mem_iff.mpr (by simp), by rw [← hnew, hi]⟩
      · intro y hy
        simp only at hy ⊢
        rw [hsk]
        rcases List.mem_cons.mp (hp.mem_iff.mp hy) with rfl | hy
        · rw [← hnew]
          simp only [contrib, Bool.false_eq_true, if_false, Heap.get_set_eq m.srcs n s' hnm]
          unfold sk
          rw [hself, hrem]
        · rw [MergerProofs.contrib_set_ne m.srcs n s' y (hne y hy)]
          exact h.cont y hy
      · intro i hi hil
        simp only [List.mem_append, List.mem_singleton, not_or] at hil
        exact h.nonlive i (by omega) hil.1

theorem initS_fold (c : MCfg) (lo : Bytes) (srcs0 : Array Src)
    (hcur : ∀ j, j < srcs0.size → (srcs0[j]!).cur = specSeek (srcs0[j]!).es lo) :
    ∀ n, n ≤ srcs0.size → InitS lo srcs0 n
      ((List.range n).foldl (MergerProofs.initStep c) { srcs := srcs0, live := [] }) := by
  intro n
  induction n with
  | zero =>
    intro _
    exact ⟨rfl, fun _ => ⟨rfl, rfl⟩, fun _ _ => rfl, by simp, by simp, by simp, by simp, by simp, rfl,
      fun i hi => by omega⟩
  | succ n ih =>
    intro hn
    rw [List.range_succ, List.foldl_append]
    exact initS_step c lo srcs0 hcur n _ (ih (by omega)) (by omega)

end MergerSeek

open MergerSeek in
/-- **2 (initial state).** If every source cursor stands at `lowerBound lo` (as `merger_iter`,
    `merger_get*` create them), the initial state satisfies `SeekInv lo`; the live sources are
    exactly those that deliver something from `lo` on. -/
theorem mergerInit_seekInv (c : MCfg) (lo : Bytes) (srcs : Array Src)
    (hcur : ∀ j, j < srcs.size → (srcs[j]!).cur = specSeek (srcs[j]!).es lo) :
    SeekInv lo (mergerInit c srcs) ∧ (mergerInit c srcs).curKey = [] ∧
    (mergerInit c srcs).srcs.size = srcs.size ∧
    (∀ j : Nat, ((mergerInit c srcs).srcs[j]! : Src).es = (srcs[j]! : Src).es ∧
      ((mergerInit c srcs).srcs[j]! : Src).kind = (srcs[j]! : Src).kind) ∧
    (∀ i ∈ (mergerInit c srcs).live, i < srcs.size) ∧
    (∀ i, i < srcs.size → i ∉ (mergerInit c srcs).live → ((srcs[i]!).seek lo).remaining = []) ∧
    (∀ i ∈ (mergerInit c srcs).live, ∃ h ∈ (mergerInit c srcs).heap.toList,
      h.src = i ∧ h.finished = false) := by
  have h := initS_fold c lo srcs hcur srcs.size (Nat.le_refl _)
  rw [← MergerProofs.mergerInit_eq] at h
  refine ⟨?_, h.curKey, h.size, h.ek, h.liveLt, h.nonlive, fun i hi =>
    let ⟨x, hx, hxi⟩ := h.liveHeap i hi; ⟨x, hx, hxi, (h.heapLive x hx).2⟩⟩
  unfold SeekInv
  refine ⟨h.liveNodup, fun i hi => by rw [h.size]; exact h.liveLt i hi,
    fun x hx => (h.heapLive x hx).1, ?_, ?_, ?_⟩
  · intro i hi
    obtain ⟨x, hx, hxi⟩ := h.liveHeap i hi
    rw [← hxi, ← h.cont x hx]
    simp [MergerProofs.contrib, (h.heapLive x hx).2]
  · intro x hx
    exact ⟨[], by rw [h.cont x hx]; rfl, by simp⟩
  · intro i hi hn
    obtain ⟨x, hx, hxi⟩ := h.liveHeap i hi
    exact absurd hxi (hn x hx)

namespace MergerSeek
open MergerProofs (contrib poolL pool_eq poolL_cons heap_head)

/-! ### 3a. `merger_iter_next` leaves the sources' contents and the live set alone -/

theorem sframe_with (m : MIter) (heap : Array HEnt) (ck cv : Bytes) (fin pend : Bool) :
    SFrame m { m with heap := heap, curKey := ck, curVal := cv, finished := fin, pending := pend } :=
  ⟨rfl, fun _ => ⟨rfl, rfl⟩, rfl⟩

theorem afterFill_sframe (c : MCfg) (m : MIter) (i : Nat) (e : HEnt) :
    SFrame m (afterFill c (fill m i e)) := by
  cases hn : (m.srcs[i]!).next with
  | mk o s' =>
    obtain ⟨hes, hkd⟩ := next_ek hn
    have h1 : (afterFill c (fill m i e)).srcs = m.srcs.setIfInBounds i s' := by
      cases o <;> simp only [afterFill, fill, hn] <;> split <;> rfl
    have h2 : (afterFill c (fill m i e)).live = m.live := by
      cases o <;> simp only [afterFill, fill, hn] <;> split <;> rfl
    exact ⟨by rw [h1]; simp, by rw [h1]; exact ek_set m.srcs i s' hes hkd, h2⟩

theorem loop_sframe (c : MCfg) :
    ∀ fuel m m1, mergerNextLoop c m fuel = some m1 → SFrame m m1 := by
  intro fuel
  induction fuel with
  | zero =>
    intro m m1 h
    simp only [mergerNextLoop, Option.some.injEq] at h
    subst h; exact SFrame.refl m
  | succ fuel ih =>
    intro m m1 h
    rw [mergerNextLoop] at h
    split at h
    · simp only [Option.some.injEq] at h; subst h; exact ⟨rfl, fun _ => ⟨rfl, rfl⟩, rfl⟩
    · rename_i e he
      split at h
      · exact SFrame.trans (b := { m with heap := Heap.pop (hle c) m.heap })
          ⟨rfl, fun _ => ⟨rfl, rfl⟩, rfl⟩ (ih _ m1 h)
      · split at h
        · exact SFrame.trans (SFrame.trans
            (b := { m with curKey := e.key, curVal := e.val, pending := true })
            ⟨rfl, fun _ => ⟨rfl, rfl⟩, rfl⟩ (afterFill_sframe c _ e.src e)) (ih _ m1 h)
        · split at h
          · simp only [Option.some.injEq] at h; subst h; exact SFrame.refl m
          · rename_i f hf
            split at h
            · split at h
              · simp at h
              · rename_i mv hmv
                exact SFrame.trans (SFrame.trans (b := { m with curVal := mv })
                  ⟨rfl, fun _ => ⟨rfl, rfl⟩, rfl⟩ (afterFill_sframe c _ e.src e)) (ih _ m1 h)
            · simp only [Option.some.injEq] at h; subst h; exact SFrame.refl m

theorem mergerNext_sframe (c : MCfg) (m : MIter) : SFrame m (mergerNext c m).2 := by
  unfold mergerNext
  split
  · exact SFrame.refl m
  · simp only
    split
    · exact ⟨rfl, fun _ => ⟨rfl, rfl⟩, rfl⟩
    · rename_i m1 h1
      have := loop_sframe c _ _ m1 h1
      split
      · exact ⟨this.size, this.ek, this.live⟩
      · exact ⟨this.size, this.ek, this.live⟩

end MergerSeek

/-! ### 3. the merged view and the contract of `seek` followed by `next` -/

/-- `M` is a merged view of the entries `T` under the merge function `f`: strictly ascending keys,
    exactly the keys of `T`, and the value of each key is a fold of `f` over all values `T` holds
    for that key (in some order). -/
def IsMerged (f : Bytes → Bytes → Bytes → Option Bytes) (T M : List Entry) : Prop :=
  StrictSorted M ∧ (∀ k, (∃ e ∈ M, e.key = k) ↔ (∃ e ∈ T, e.key = k)) ∧
  ∀ e ∈ M, ∃ l, l.Perm (valuesOf e.key T) ∧ foldl1? f e.key l = some e.val

/-- the merged view a merger with configuration `c` presents of `tables` -/
def mergedSpec (c : MCfg) (tables : List (List Entry)) (M : List Entry) : Prop :=
  match c.merge with
  | some f => IsMerged f tables.flatten M
  | none => M.Perm tables.flatten ∧ Sorted M

theorem IsMerged.perm {f : Bytes → Bytes → Bytes → Option Bytes} {T T' M : List Entry}
    (h : IsMerged f T M) (hp : T.Perm T') : IsMerged f T' M := by
  obtain ⟨h1, h2, h3⟩ := h
  refine ⟨h1, ?_, ?_⟩
  · intro k
    rw [h2 k]
    constructor
    · rintro ⟨e, he, hk⟩; exact ⟨e, hp.mem_iff.mp he, hk⟩
    · rintro ⟨e, he, hk⟩; exact ⟨e, hp.mem_iff.mpr he, hk⟩
  · intro e he
    obtain ⟨l, p1, p2⟩ := h3 e he
    exact ⟨l, p1.trans (MergerProofs.valuesOf_perm e.key hp), p2⟩

/-- filtering by key commutes with merging -/
theorem IsMerged.filter {f : Bytes → Bytes → Bytes → Option Bytes} {T M : List Entry}
    (h : IsMerged f T M) (P : Bytes → Bool) :
    IsMerged f (T.filter fun e => P e.key) (M.filter fun e => P e.key) := by
  obtain ⟨h1, h2, h3⟩ := h
  refine ⟨h1.sublist List.filter_sublist, ?_, ?_⟩
  · intro k
    constructor
    · rintro ⟨e, he, hk⟩
      obtain ⟨he1, he2⟩ := List.mem_filter.mp he
      obtain ⟨e', he', hk'⟩ := (h2 k).mp ⟨e, he1, hk⟩
      exact ⟨e', List.mem_filter.mpr ⟨he', by rw [hk', ← hk]; exact he2⟩, hk'⟩
    · rintro ⟨e, he, hk⟩
      obtain ⟨he1, he2⟩ := List.mem_filter.mp he
      obtain ⟨e', he', hk'⟩ := (h2 k).mpr ⟨e, he1, hk⟩
      exact ⟨e', List.mem_filter.mpr ⟨he', by rw [hk', ← hk]; exact he2⟩, hk'⟩
  · intro e he
    obtain ⟨he1, he2⟩ := List.mem_filter.mp he
    obtain ⟨l, p1, p2⟩ := h3 e he1
    refine ⟨l, ?_, p2⟩
    have : valuesOf e.key (T.filter fun x => P x.key) = valuesOf e.key T := by
      unfold valuesOf
      rw [List.filter_filter]
      congr 1
      apply List.filter_congr
      intro x _
      by_cases hx : x.key = e.key
      · simp [hx, he2]
      · simp [hx]
    rw [this]; exact p1

namespace MergerSeek
open MergerProofs (contrib poolL pool_eq poolL_cons heap_head)

/-- one `next` from a state whose pool is (a permutation of) `P`, with merge function `f` -/
theorem next_step_merge (c : MCfg) (hF2 : c.fixF2 = true)
    (htot : ∀ a b, hle c a b = true ∨ hle c b a = true)
    (htrans : ∀ a b d, hle c a b = true → hle c b d = true → hle c a d = true)
    {m : MIter} {f : Bytes → Bytes → Bytes → Option Bytes} (hi : MInv c m) (hm : c.merge = some f)
    {P : List Entry} (hp : (pool m).Perm P) :
    (P = [] ∧ ∃ m2, mergerNext c m = (.fail, m2) ∧ MInv c m2 ∧ m2.finished = true ∧ pool m2 = []) ∨
    (∃ k' v m2, mergerNext c m = (.ok k' v, m2) ∧ MInv c m2 ∧
      (∃ e ∈ P, e.key = k') ∧ (∀ e ∈ P, bcmp k' e.key ≠ .gt) ∧
      (∃ l, l.Perm (valuesOf k' P) ∧ foldl1? f k' l = some v) ∧
      (pool m2).Perm (P.filter fun e => bcmp k' e.key == .lt)) ∨
    (∃ m2, mergerNext c m = (.fail, m2) ∧
      ∃ (k' : Bytes) (pre : List Entry) (b : Entry) (rest : List Entry) (a' : Bytes),
        pre ≠ [] ∧ (∀ x ∈ pre, x.key = k') ∧ b.key = k' ∧ P.Perm (pre ++ b :: rest) ∧
        (∀ x ∈ P, bcmp k' x.key ≠ .gt) ∧
        foldl1? f k' (pre.map (·.val)) = some a' ∧ f k' a' b.val = none) := by
  cases hfin : m.finished with
  | true =>
    left
    have h0 := MergerProofs.pool_of_finished hi hfin
    rw [h0] at hp
    exact ⟨hp.symm.eq_nil, m, mergerNext_finished c m hfin, hi, hfin, h0⟩
  | false =>
    rcases mergerNext_merge c hF2 htot htrans hi hm hfin with
      ⟨m1, e1, e2, e3, e4⟩ | ⟨k', v, m1, e1, e2, grp, g0, g1, g2, g3, l, g4, g5⟩ |
      ⟨m1, e1, k', pre, b, rest, a', g1, g2, g3, g4, g5, g6, g7⟩
    · left
      rw [e2] at hp
      exact ⟨hp.symm.eq_nil, m1, e1, e4, e3, MergerProofs.pool_of_finished e4 e3⟩
    · right; left
      have hP : P.Perm (grp ++ pool m1) := hp.symm.trans g2
      refine ⟨k', v, m1, e1, e2, ?_, ?_, ⟨l, ?_, g5⟩, ?_⟩
      · obtain ⟨x, hx⟩ := List.exists_mem_of_ne_nil grp g0
        exact ⟨x, hP.mem_iff.mpr (List.mem_append_left _ hx), g1 x hx⟩
      · intro e he
        rcases List.mem_append.mp (hP.mem_iff.mp he) with h | h
        · rw [g1 e h]; simp [bcmp_refl]
        · rw [g3 e h]; decide
      · refine g4.trans ?_
        refine List.Perm.trans ?_ (MergerProofs.valuesOf_perm k' hP).symm
        rw [MergerProofs.valuesOf_append, MergerProofs.valuesOf_all k' grp g1,
          MergerProofs.valuesOf_none k' (pool m1)
            (fun x hx => MergerProofs.ne_of_bcmp_lt (g3 x hx)), List.append_nil]
      · refine List.Perm.trans ?_ (hP.filter _).symm
        rw [List.filter_append]
        have h1 : grp.filter (fun e => bcmp k' e.key == .lt) = [] := by
          rw [List.filter_eq_nil_iff]
          intro x hx; rw [g1 x hx, bcmp_refl]; decide
        have h2 : (pool m1).filter (fun e => bcmp k' e.key == .lt) = pool m1 := by
          rw [List.filter_eq_self]
          intro x hx; rw [g3 x hx]; rfl
        rw [h1, h2, List.nil_append]
    · right; right
      exact ⟨m1, e1, k', pre, b, rest, a', g1, g2, g3, hp.symm.trans g4,
        fun x hx => g5 x (hp.mem_iff.mpr hx), g6, g7⟩

end MergerSeek

open MergerSeek in
/-- **C05, seek then next** (merge function `f`).  Let `P` be everything the live sources hold at
    or after `k` within their bounds.  After `merger_iter_seek(k)` the next `merger_iter_next`
    (a) fails iff `P` is empty (and the iterator is finished), or
    (b) returns the smallest key `k' ≥ k` of `P` with the fold of all values `P` holds for `k'`,
        and leaves exactly the entries of `P` with key `> k'` in the pool (so that the following
        calls continue in ascending key order: apply this theorem's step lemma / `mergerNext_merge`
        again), the invariants being preserved, or
    (c) the merge callback failed on the group of the smallest key. -/
theorem C05_seek_next (c : MCfg) (hF2 : c.fixF2 = true) (hF8 : c.fixF8 = true)
    (htot : ∀ a b, hle c a b = true ∨ hle c b a = true)
    (htrans : ∀ a b d, hle c a b = true → hle c b d = true → hle c a d = true)
    (lo : Bytes) {m : MIter} {f : Bytes → Bytes → Bytes → Option Bytes}
    (hi : MInv c m) (hs : SeekInv lo m) (hm : c.merge = some f) (k : Bytes)
    (hlo : bcmp lo k ≠ .gt) :
    let P := m.live.flatMap fun i => ((m.srcs[i]!).seek k).remaining
    (∀ e ∈ P, bcmp k e.key ≠ .gt) ∧
    ((P = [] ∧ ∃ m2, mergerNext c (mergerSeek c m k) = (.fail, m2) ∧ MInv c m2 ∧
        m2.finished = true ∧ pool m2 = []) ∨
     (∃ k' v m2, mergerNext c (mergerSeek c m k) = (.ok k' v, m2) ∧ MInv c m2 ∧ SeekInv lo m2 ∧
        bcmp k k' ≠ .gt ∧ (∃ e ∈ P, e.key = k') ∧ (∀ e ∈ P, bcmp k' e.key ≠ .gt) ∧
        (∃ l, l.Perm (valuesOf k' P) ∧ foldl1? f k' l = some v) ∧
        (pool m2).Perm (P.filter fun e => bcmp k' e.key == .lt)) ∨
     (∃ m2, mergerNext c (mergerSeek c m k) = (.fail, m2) ∧
        ∃ (k' : Bytes) (pre : List Entry) (b : Entry) (rest : List Entry) (a' : Bytes),
          pre ≠ [] ∧ (∀ x ∈ pre, x.key = k') ∧ b.key = k' ∧ P.Perm (pre ++ b :: rest) ∧
          (∀ x ∈ P, bcmp k' x.key ≠ .gt) ∧
          foldl1? f k' (pre.map (·.val)) = some a' ∧ f k' a' b.val = none)) := by
  intro P
  obtain ⟨h1, h2, h3, _⟩ := mergerSeek_inv c hF8 htot htrans lo hi hs k hlo
  have hge : ∀ e ∈ P, bcmp k e.key ≠ .gt := by
    intro e he
    obtain ⟨i, hi', hei⟩ := List.mem_flatMap.mp he
    exact (Src.seek_remaining_ge _ (hi.hinv.sorted i (hs.liveInb i hi')) k e hei).1
  refine ⟨hge, ?_⟩
  rcases next_step_merge c hF2 htot htrans h1 hm h3 with a | ⟨k', v, m2, e1, e2, e3, e4, e5, e6⟩ | b
  · left; exact a
  · right; left
    have hs2 := mergerNext_seekInv c hF2 htot htrans lo h1 h2
    rw [e1] at hs2
    obtain ⟨e, he, hek⟩ := e3
    exact ⟨k', v, m2, e1, e2, hs2, by rw [← hek]; exact hge e he, ⟨e, he, hek⟩, e4, e5, e6⟩
  · right; right; exact b

namespace MergerSeek
open MergerProofs (contrib poolL pool_eq poolL_cons heap_head)

/-! ### 3b. draining after a seek -/

theorem isMerged_drain (c : MCfg) (hF2 : c.fixF2 = true)
    (htot : ∀ a b, hle c a b = true ∨ hle c b a = true)
    (htrans : ∀ a b d, hle c a b = true → hle c b d = true → hle c a d = true)
    {f : Bytes → Bytes → Bytes → Option Bytes} (hm : c.merge = some f)
    (hok : ∀ k a b, f k a b ≠ none) {m : MIter} (hi : MInv c m) {P : List Entry}
    (hp : (pool m).Perm P) (fuel : Nat) (hfuel : P.length < fuel) :
    IsMerged f P (mergerDrain c fuel m) := by
  have hl := hp.length_eq
  obtain ⟨d1, d2, d3, d4⟩ := MergerProofs.drain_merge c hF2 htot htrans hm hok fuel m hi (by omega)
  refine IsMerged.perm ⟨d1, ?_, d4⟩ hp
  intro k
  constructor
  · rintro ⟨e, he, rfl⟩; exact d2 e he
  · rintro ⟨e', he', rfl⟩; exact d3 e' he'

end MergerSeek

open MergerSeek in
/-- **C05, seek then iterate to the end** (merge function whose calls all succeed): the entries
    returned after `merger_iter_seek(k)` are a merged view of everything the live sources hold at
    or after `k` within their bounds: ascending distinct keys, all ≥ k, fully merged values. -/
theorem C05_seek_drain (c : MCfg) (hF2 : c.fixF2 = true) (hF8 : c.fixF8 = true)
    (htot : ∀ a b, hle c a b = true ∨ hle c b a = true)
    (htrans : ∀ a b d, hle c a b = true → hle c b d = true → hle c a d = true)
    (lo : Bytes) {m : MIter} {f : Bytes → Bytes → Bytes → Option Bytes}
    (hi : MInv c m) (hs : SeekInv lo m) (hm : c.merge = some f) (hok : ∀ k a b, f k a b ≠ none)
    (k : Bytes) (hlo : bcmp lo k ≠ .gt) (fuel : Nat)
    (hfuel : (m.live.flatMap fun i => ((m.srcs[i]!).seek k).remaining).length < fuel) :
    IsMerged f (m.live.flatMap fun i => ((m.srcs[i]!).seek k).remaining)
      (mergerDrain c fuel (mergerSeek c m k)) := by
  obtain ⟨h1, _, h3, _⟩ := mergerSeek_inv c hF8 htot htrans lo hi hs k hlo
  exact isMerged_drain c hF2 htot htrans hm hok h1 h3 fuel hfuel

open MergerSeek in
/-- **C05, seek then iterate to the end, no merge function**: every entry the live sources hold at
    or after `k` is returned once, in non-decreasing key order. -/
theorem C05_seek_drain_nomerge (c : MCfg) (hF2 : c.fixF2 = true) (hF8 : c.fixF8 = true)
    (htot : ∀ a b, hle c a b = true ∨ hle c b a = true)
    (htrans : ∀ a b d, hle c a b = true → hle c b d = true → hle c a d = true)
    (lo : Bytes) {m : MIter} (hi : MInv c m) (hs : SeekInv lo m) (hm : c.merge = none)
    (k : Bytes) (hlo : bcmp lo k ≠ .gt) (fuel : Nat)
    (hfuel : (m.live.flatMap fun i => ((m.srcs[i]!).seek k).remaining).length < fuel) :
    (mergerDrain c fuel (mergerSeek c m k)).Perm
      (m.live.flatMap fun i => ((m.srcs[i]!).seek k).remaining) ∧
    Sorted (mergerDrain c fuel (mergerSeek c m k)) := by
  obtain ⟨h1, _, h3, _⟩ := mergerSeek_inv c hF8 htot htrans lo hi hs k hlo
  have hl := h3.length_eq
  obtain ⟨d1, d2, _⟩ := MergerProofs.drain_nomerge c hF2 htot htrans hm fuel _ h1 (by omega)
  exact ⟨d1.trans h3, d2⟩

namespace MergerSeek
open MergerProofs (contrib poolL pool_eq poolL_cons heap_head)

/-! ### 5. bounded lookups: `merger_get`, `merger_get_prefix`, `merger_get_range` -/

def kLe (k1 : Bytes) (e : Entry) : Bool := bcmp e.key k1 != .gt

theorem takeWhile_le_eq_filter (k1 : Bytes) {l : List Entry} (hs : Sorted l) :
    l.takeWhile (kLe k1) = l.filter (kLe k1) := by
  induction l with
  | nil => rfl
  | cons d l ih =>
    obtain ⟨hd, hl⟩ := Sorted_cons.mp hs
    by_cases h : kLe k1 d = true
    · rw [List.takeWhile_cons_of_pos h, List.filter_cons_of_pos h, ih hl]
    · rw [List.takeWhile_cons_of_neg h, List.filter_cons_of_neg h]
      symm
      rw [List.filter_eq_nil_iff]
      intro x hx
      simp only [kLe, bne_iff_ne, ne_eq, Decidable.not_not] at h ⊢
      have h1 : bcmp k1 d.key = .lt := (bcmp_swap' _ _).mp h
      exact (bcmp_swap' _ _).mpr (bcmp_lt_le_trans h1 (hd x hx))

theorem takeWhile_eq_filter_of_anchor (kind : Kind) (a : Bytes) (ha : inBound kind a = true) :
    ∀ {D : List Entry}, Sorted D → (∀ x ∈ D, bcmp a x.key ≠ .gt) →
      D.takeWhile (inb kind) = D.filter (inb kind) := by
  intro D
  induction D with
  | nil => intro _ _; rfl
  | cons d D ih =>
    intro hs hle
    obtain ⟨hd, hD⟩ := Sorted_cons.mp hs
    by_cases hin : inb kind d = true
    · rw [List.takeWhile_cons_of_pos hin, List.filter_cons_of_pos hin,
        ih hD (fun x hx => hle x (List.mem_cons_of_mem _ hx))]
    · rw [List.takeWhile_cons_of_neg hin, List.filter_cons_of_neg hin]
      symm
      rw [List.filter_eq_nil_iff]
      intro x hx hxin
      exact hin (conv_all kind a d.key x.key ha hxin (hle d (by simp)) (hd x hx))

end MergerSeek

/-- the key predicate of a bounded lookup created at `start` -/
def lookP (kind : Kind) (start : Bytes) (key : Bytes) : Bool :=
  match kind with
  | .iter => bcmp key start != .lt
  | .get k => key == k
  | .pfx p => isPrefix p key
  | .range k1 => bcmp key start != .lt && bcmp key k1 != .gt

/-- the start key `merger_get` / `merger_get_prefix` position their sources at -/
def startOk (kind : Kind) (start : Bytes) : Prop :=
  match kind with
  | .get k => start = k
  | .pfx p => start = p
  | _ => True

namespace MergerSeek
open MergerProofs (contrib poolL pool_eq poolL_cons heap_head)

theorem lookup_remaining {es : List Entry} (hs : Sorted es) (kind : Kind) (start : Bytes)
    (hst : startOk kind start) :
    Src.remaining { es := es, kind := srcKind kind, cur := specSeek es start } =
      es.filter fun e => lookP kind start e.key := by
  have h0 : Src.remaining { es := es, kind := srcKind kind, cur := specSeek es start } =
      (es.dropWhile (kLt start)).takeWhile (inb (srcKind kind)) :=
    seek_remaining_dw { es := es, kind := srcKind kind } start
  rw [h0, dropWhile_eq_filter hs]
  have hfs : Sorted (es.filter (kGe start)) := hs.sublist List.filter_sublist
  cases kind with
  | iter =>
    have : inb (srcKind Kind.iter) = fun _ => true := by funext e; rfl
    rw [this, takeWhile_eq_self_of_all _ _ (by simp)]
    rfl
  | range k1 =>
    have : inb (srcKind (Kind.range k1)) = kLe k1 := by funext e; rfl
    rw [this, takeWhile_le_eq_filter k1 hfs, List.filter_filter]
    apply List.filter_congr
    intro x _
    simp only [lookP, kGe, kLe, Bool.and_comm]
  | get k =>
    simp only [startOk] at hst
    subst hst
    have : inb (srcKind (Kind.get start)) = kLe start := by funext e; rfl
    rw [this, takeWhile_le_eq_filter start hfs, List.filter_filter]
    apply List.filter_congr
    intro x _
    simp only [lookP, kGe, kLe]
    by_cases hx : x.key = start
    · rw [hx, bcmp_refl]; simp
    · have : bcmp x.key start ≠ .eq := fun h => hx ((bcmp_eq_iff _ _).mp h)
      cases hc : bcmp x.key start <;> simp_all
  | pfx p =>
    simp only [startOk] at hst
    subst hst
    have hpp : inBound (srcKind (Kind.pfx start)) start = true := by
      simp [srcKind, inBound, isPrefix]
    rw [takeWhile_eq_filter_of_anchor _ start hpp hfs, List.filter_filter]
    · apply List.filter_congr
      intro x _
      simp only [lookP, kGe, inb, srcKind, inBound]
      cases hx : isPrefix start x.key with
      | false => rfl
      | true =>
        have := bcmp_prefix hx
        simp only [Bool.true_and, bne_iff_ne, ne_eq]
        exact (bcmp_not_lt_iff _ _).mpr this
    · intro x hx
      have := (List.mem_filter.mp hx).2
      simp only [kGe, bne_iff_ne, ne_eq] at this
      exact (bcmp_not_lt_iff _ _).mp this

theorem flatMap_congr' {α β : Type} {f g : α → List β} {l : List α} (h : ∀ x ∈ l, f x = g x) :
    l.flatMap f = l.flatMap g := by
  induction l with
  | nil => rfl
  | cons a l ih =>
    rw [List.flatMap_cons, List.flatMap_cons, h a (by simp),
      ih (fun x hx => h x (List.mem_cons_of_mem _ hx))]

theorem flatMap_filter_eq {α : Type} (p : α → Bool) (l : List (List α)) :
    l.flatMap (fun es => es.filter p) = l.flatten.filter p := by
  induction l with
  | nil => rfl
  | cons a l ih => simp [List.flatMap_cons, ih]

/-- the per-table iterators `merger_iter` / `merger_get*` create -/
def iterSrcs (tables : List (List Entry)) (kind : Kind) (start : Bytes) : Array Src :=
  tables.toArray.map fun es => ({ es, kind := srcKind kind, cur := specSeek es start } : Src)

theorem mergerIter_eq (c : MCfg) (tables : List (List Entry)) (kind : Kind) (start : Bytes) :
    mergerIter c tables kind start =
      if kind = .iter then some (mergerInit c (iterSrcs tables kind start))
      else if (mergerInit c (iterSrcs tables kind start)).live.isEmpty then none
      else some (mergerInit c (iterSrcs tables kind start)) := by
  cases kind <;> simp [mergerIter, iterSrcs, srcKind]

theorem iterSrcs_cur (tables : List (List Entry)) (kind : Kind) (start : Bytes) :
    ∀ j, j < (iterSrcs tables kind start).size →
      ((iterSrcs tables kind start)[j]!).cur = specSeek ((iterSrcs tables kind start)[j]!).es start := by
  intro j hj
  rw [getElem!_pos _ j hj]
  simp [iterSrcs]

theorem live_empty_iff (c : MCfg) (lo : Bytes) (srcs : Array Src)
    (hcur : ∀ j, j < srcs.size → (srcs[j]!).cur = specSeek (srcs[j]!).es lo) :
    (mergerInit c srcs).live = [] ↔ pool (mergerInit c srcs) = [] := by
  obtain ⟨h1, _, _, _, _, _, h7⟩ := mergerInit_seekInv c lo srcs hcur
  constructor
  · intro hl
    have : (mergerInit c srcs).heap.toList = [] := by
      cases hh : (mergerInit c srcs).heap.toList with
      | nil => rfl
      | cons x t =>
        have := h1.heapLive x (by rw [hh]; simp)
        rw [hl] at this; simp at this
    rw [pool_eq, this]; rfl
  · intro hp
    cases hl : (mergerInit c srcs).live with
    | nil => rfl
    | cons i t =>
      obtain ⟨x, hx, _, hxf⟩ := h7 i (by rw [hl]; simp)
      have : ({ key := x.key, val := x.val } : Entry) ∈ pool (mergerInit c srcs) := by
        rw [pool_eq]
        unfold poolL
        rw [List.mem_flatMap]
        exact ⟨x, hx, by simp [contrib, hxf]⟩
      rw [hp] at this; simp at this

end MergerSeek

open MergerSeek in
/-- **C05, bounded lookups.**  For `merger_get(k)`, `merger_get_prefix(p)`, `merger_get_range(k0,k1)`
    (and `merger_iter`) over sorted tables: the iterator is NULL iff no table holds a key
    satisfying the bound, and otherwise iterating it to the end yields a merged view of the entries
    of the tables that satisfy the bound (`key = k` / `p` prefix of `key` / `k0 ≤ key ≤ k1`):
    each such key once, ascending, with fully merged values. -/
theorem C05_lookup (c : MCfg) (hF2 : c.fixF2 = true)
    (htot : ∀ a b, hle c a b = true ∨ hle c b a = true)
    (htrans : ∀ a b d, hle c a b = true → hle c b d = true → hle c a d = true)
    {f : Bytes → Bytes → Bytes → Option Bytes} (hm : c.merge = some f)
    (hok : ∀ k a b, f k a b ≠ none)
    (tables : List (List Entry)) (hs : ∀ es ∈ tables, Sorted es) (kind : Kind) (start : Bytes)
    (hst : startOk kind start) :
    let T := tables.flatten.filter fun e => lookP kind start e.key
    (mergerIter c tables kind start = none ↔ kind ≠ .iter ∧ T = []) ∧
    ∀ m, mergerIter c tables kind start = some m → ∀ fuel, T.length < fuel →
      IsMerged f T (mergerDrain c fuel m) := by
  intro T
  have hpool : ∀ m, mergerIter c tables kind start = some m → MInv c m ∧ (pool m).Perm T := by
    intro m hmi
    obtain ⟨h1, _, h3⟩ := mergerIter_inv c htot htrans tables hs kind start hmi
    refine ⟨h1, ?_⟩
    rw [flatMap_congr' (fun es hes => lookup_remaining (hs es hes) kind start hst),
      flatMap_filter_eq] at h3
    exact h3
  constructor
  · rw [mergerIter_eq]
    by_cases hk : kind = .iter
    · simp [hk]
    · rw [if_neg hk]
      have hle := live_empty_iff c start _ (iterSrcs_cur tables kind start)
      have hsome : mergerIter c tables kind start = some (mergerInit c (iterSrcs tables kind start)) ∨
          (mergerInit c (iterSrcs tables kind start)).live = [] := by
        rw [mergerIter_eq, if_neg hk]
        by_cases he : (mergerInit c (iterSrcs tables kind start)).live.isEmpty = true
        · right; simpa using he
        · left; rw [if_neg he]
      constructor
      · intro h
        split at h
        · rename_i he
          refine ⟨hk, ?_⟩
          have hl : (mergerInit c (iterSrcs tables kind start)).live = [] := by simpa using he
          -- a NULL iterator: build the same state through `.iter`-style reasoning on the pool
          have hp0 := hle.mp hl
          -- the pool of the initial state is a permutation of `T`
          have hperm : (pool (mergerInit c (iterSrcs tables kind start))).Perm T := by
            have hsorted : ∀ s ∈ (iterSrcs tables kind start).toList, Sorted s.es := by
              intro s hs'
              simp only [iterSrcs, Array.toList_map, List.mem_map] at hs'
              obtain ⟨es, hes, rfl⟩ := hs'
              exact hs es hes
            obtain ⟨_, h2, _⟩ := mergerInit_inv c htot htrans _ hsorted
            have : (iterSrcs tables kind start).toList = tables.map fun es =>
                ({ es := es, kind := srcKind kind, cur := specSeek es start } : Src) := by
              simp [iterSrcs]
            rw [this, List.flatMap_map,
              flatMap_congr' (fun es hes => lookup_remaining (hs es hes) kind start hst),
              flatMap_filter_eq] at h2
            exact h2
          rw [hp0] at hperm
          exact hperm.symm.eq_nil
        · simp at h
      · rintro ⟨_, hT⟩
        rcases hsome with h | h
        · obtain ⟨_, hp⟩ := hpool _ h
          have hT' : T = [] := hT
          rw [hT'] at hp
          have := hle.mpr hp.eq_nil
          simp [this]
        · simp [h]
  · intro m hmi fuel hfuel
    obtain ⟨h1, h2⟩ := hpool m hmi
    exact isMerged_drain c hF2 htot htrans hm hok h1 h2 fuel hfuel

namespace MergerSeek
open MergerProofs (contrib poolL pool_eq poolL_cons heap_head)

/-! ### 4a. helpers for histories: the key list `K`, index bookkeeping -/

theorem bcmp_nil_le (k : Bytes) : bcmp [] k ≠ .gt := by cases k <;> simp [bcmp]

/-- in a strictly sorted list the lower bound of a key that occurs is its index -/
theorem lowerBound_of_getElem? {K : List Entry} (hK : StrictSorted K) {j : Nat} {e : Entry}
    (he : K[j]? = some e) : lowerBound K e.key = j := by
  obtain ⟨hj, hje⟩ := List.getElem?_eq_some_iff.mp he
  have hpw := List.pairwise_iff_getElem.mp hK
  apply lowerBound_unique K hK.sorted e.key j (Nat.le_of_lt hj)
  · intro i x hi hx
    obtain ⟨hi', hix⟩ := List.getElem?_eq_some_iff.mp hx
    have := hpw i j hi' hj hi
    rw [hix, hje] at this; exact this
  · intro i x hi hx
    obtain ⟨hi', hix⟩ := List.getElem?_eq_some_iff.mp hx
    by_cases hij : i = j
    · subst hij
      have : x = e := by rw [← hix, ← hje]
      rw [this, bcmp_refl]; decide
    · have := hpw j i hj hi' (by omega)
      rw [hix, hje] at this
      exact bcmp_lt_asymm this

theorem lowerBound_of_mem {K : List Entry} (hK : StrictSorted K) {e : Entry} (he : e ∈ K) :
    K[lowerBound K e.key]? = some e := by
  obtain ⟨j, hj, hje⟩ := List.mem_iff_getElem.mp he
  have h1 : K[j]? = some e := List.getElem?_eq_some_iff.mpr ⟨hj, hje⟩
  rw [lowerBound_of_getElem? hK h1]; exact h1

/-- `pos < lowerBound K key` iff the entry at `pos` is below `key` -/
theorem lt_lowerBound_iff {K : List Entry} (hK : StrictSorted K) {pos : Nat} {e0 : Entry}
    (h0 : K[pos]? = some e0) (key : Bytes) :
    pos < lowerBound K key ↔ bcmp e0.key key = .lt := by
  constructor
  · intro h; exact lowerBound_lt_key K key pos e0 h h0
  · intro h
    apply Nat.lt_of_not_le
    intro hle
    exact lowerBound_ge_key' K hK.sorted key pos e0 hle h0 h

theorem getElem?_key_le {K : List Entry} (hK : StrictSorted K) {i j : Nat} {a b : Entry}
    (hij : i ≤ j) (ha : K[i]? = some a) (hb : K[j]? = some b) : bcmp a.key b.key ≠ .gt := by
  obtain ⟨hi, hia⟩ := List.getElem?_eq_some_iff.mp ha
  obtain ⟨hj, hjb⟩ := List.getElem?_eq_some_iff.mp hb
  by_cases h : i = j
  · subst h
    have : a = b := by rw [← hia, ← hjb]
    rw [this, bcmp_refl]; decide
  · have := List.pairwise_iff_getElem.mp hK i j hi hj (by omega)
    rw [hia, hjb] at this; rw [this]; decide

theorem flatMap_range_getElem! {β : Type} (srcs : Array Src) (g : Src → List β) :
    (List.range srcs.size).flatMap (fun i => g (srcs[i]!)) = srcs.toList.flatMap g := by
  obtain ⟨l⟩ := srcs
  simp only [List.size_toArray]
  induction l with
  | nil => rfl
  | cons a l ih =>
    rw [List.length_cons, List.range_succ_eq_map, List.flatMap_cons, List.flatMap_map,
      List.flatMap_cons]
    congr 1
    rw [← ih]
    apply flatMap_congr'
    intro i hi
    have hi' : i < l.length := List.mem_range.mp hi
    congr 1
    simp [getElem!_pos, hi']

theorem flatMap_live_perm {β : Type} (g : Nat → List β) (n : Nat) (live : List Nat)
    (hnd : live.Nodup) (hlt : ∀ i ∈ live, i < n) (hnon : ∀ i, i < n → i ∉ live → g i = []) :
    (live.flatMap g).Perm ((List.range n).flatMap g) := by
  have h1 : ((List.range n).filter (fun i => decide (i ∈ live))).Perm live := by
    apply (List.perm_ext_iff_of_nodup (List.nodup_range.sublist List.filter_sublist) hnd).mpr
    intro a
    simp only [List.mem_filter, List.mem_range, decide_eq_true_eq]
    exact ⟨fun h => h.2, fun h => ⟨hlt a h, h⟩⟩
  have h2 : ((List.range n).filter (fun i => !decide (i ∈ live))).flatMap g = [] := by
    rw [List.flatMap_eq_nil_iff]
    intro i hi
    simp only [List.mem_filter, List.mem_range, Bool.not_eq_true', decide_eq_false_iff_not] at hi
    exact hnon i hi.1 hi.2
  have h3 := (List.filter_append_perm (fun i => decide (i ∈ live)) (List.range n)).flatMap_right g
  rw [List.flatMap_append, h2, List.append_nil] at h3
  exact (List.Perm.flatMap_right g h1).symm.trans h3

end MergerSeek

/-! ### 4. histories of `next` and `seek` -/

/-- what a caller observes of a `merger_iter_next` result -/
def NextRes.toOpt : NextRes → Option Entry
  | .ok k v => some { key := k, val := v }
  | .fail => none

/-- the observable result of running a history on a merger iterator (`next` ↦ the returned entry or
    `none`, `seek` ↦ `none`), the counterpart of `specRun`.  (A failing merge callback also shows as
    `none`; the theorems below assume a merge function whose calls all succeed.) -/
def mRun (c : MCfg) : MIter → List IOp → List (Option Entry)
  | _, [] => []
  | m, .next :: ops => (mergerNext c m).1.toOpt :: mRun c (mergerNext c m).2 ops
  | m, .seek k :: ops => none :: mRun c (mergerSeek c m k) ops

namespace MergerSeek
open MergerProofs (contrib poolL pool_eq poolL_cons heap_head)

/-- all entries of the sources -/
def allEs (srcs0 : Array Src) : List Entry := srcs0.toList.flatMap (·.es)

structure HCtx (c : MCfg) (f : Bytes → Bytes → Bytes → Option Bytes) (srcs0 : Array Src)
    (K : List Entry) : Prop where
  hF2 : c.fixF2 = true
  hF8 : c.fixF8 = true
  htot : ∀ a b, hle c a b = true ∨ hle c b a = true
  htrans : ∀ a b d, hle c a b = true → hle c b d = true → hle c a d = true
  hm : c.merge = some f
  hok : ∀ k a b, f k a b ≠ none
  kinds : ∀ j, j < srcs0.size → (srcs0[j]!).kind = .iter
  sorted : ∀ j, j < srcs0.size → Sorted (srcs0[j]!).es
  hK : StrictSorted K
  hKeys : ∀ k, (∃ e ∈ K, e.key = k) ↔ (∃ e ∈ allEs srcs0, e.key = k)

/-- the simulation relation between merger states and cursors of the merged key list -/
structure HRel (c : MCfg) (srcs0 : Array Src) (K : List Entry) (m : MIter) (cur : Cur) : Prop where
  minv : MInv c m
  sinv : SeekInv [] m
  size : m.srcs.size = srcs0.size
  ek : ∀ j : Nat, (m.srcs[j]! : Src).es = (srcs0[j]! : Src).es ∧
    (m.srcs[j]! : Src).kind = (srcs0[j]! : Src).kind
  liveNon : ∀ i, i < srcs0.size → i ∉ m.live → sk [] srcs0 i = []
  stuck : cur.stuck = true → m.finished = true
  live : cur.stuck = false → (pool m).Perm
    ((allEs srcs0).filter fun e => decide (cur.pos ≤ lowerBound K e.key))

theorem flatMap_filter_comm {α β : Type} (h : α → List β) (p : β → Bool) (l : List α) :
    l.flatMap (fun s => (h s).filter p) = (l.flatMap h).filter p := by
  induction l with
  | nil => rfl
  | cons a l ih => simp [List.flatMap_cons, ih]

theorem kGe_iff_lowerBound {c : MCfg} {f : Bytes → Bytes → Bytes → Option Bytes} {srcs0 : Array Src}
    {K : List Entry} (hc : HCtx c f srcs0 K) (k : Bytes) {e : Entry} (he : e ∈ allEs srcs0) :
    kGe k e = decide (lowerBound K k ≤ lowerBound K e.key) := by
  obtain ⟨e1, he1, hk1⟩ := (hc.hKeys e.key).mpr ⟨e, he, rfl⟩
  have h0 := lowerBound_of_mem hc.hK he1
  rw [hk1] at h0
  have hiff := lt_lowerBound_iff hc.hK h0 k
  rw [hk1] at hiff
  cases hg : kGe k e with
  | true =>
    symm; rw [decide_eq_true_iff]
    simp only [kGe, bne_iff_ne, ne_eq] at hg
    exact lowerBound_mono K ((bcmp_not_lt_iff _ _).mp hg)
  | false =>
    symm; rw [decide_eq_false_iff_not]
    have : bcmp e.key k = .lt := by
      simp only [kGe] at hg
      cases hb : bcmp e.key k <;> simp_all
    have := hiff.mpr this
    omega

theorem hist_seek_pool {c : MCfg} {f : Bytes → Bytes → Bytes → Option Bytes} {srcs0 : Array Src}
    {K : List Entry} (hc : HCtx c f srcs0 K) {m : MIter} {cur : Cur} (hr : HRel c srcs0 K m cur)
    (k : Bytes) :
    (m.live.flatMap fun i => ((m.srcs[i]!).seek k).remaining).Perm
      ((allEs srcs0).filter fun e => decide (lowerBound K k ≤ lowerBound K e.key)) := by
  have h1 : (m.live.flatMap fun i => ((m.srcs[i]!).seek k).remaining) =
      m.live.flatMap (sk k srcs0) :=
    flatMap_congr' (fun i _ => seek_remaining_congr (hr.ek i).1 (hr.ek i).2 k)
  rw [h1]
  have hlt : ∀ i ∈ m.live, i < srcs0.size := fun i hi => by
    rw [← hr.size]; exact hr.sinv.liveInb i hi
  have hnon : ∀ i, i < srcs0.size → i ∉ m.live → sk k srcs0 i = [] := by
    intro i hi hil
    have h0 := hr.liveNon i hi hil
    unfold sk at h0 ⊢
    rw [Src.seek_remaining_of_start_inb _ (hc.sorted i hi) (bcmp_nil_le k)
      (by rw [hc.kinds i hi]; rfl), h0]
    rfl
  refine (flatMap_live_perm (sk k srcs0) srcs0.size m.live hr.sinv.liveNodup hlt hnon).trans ?_
  have h2 : (List.range srcs0.size).flatMap (sk k srcs0) =
      (List.range srcs0.size).flatMap (fun i => (fun s : Src => s.es.filter (kGe k)) (srcs0[i]!)) := by
    apply flatMap_congr'
    intro i hi
    have hi' := List.mem_range.mp hi
    exact Src.seek_remaining_iter _ (hc.sorted i hi') (hc.kinds i hi') k
  rw [h2, flatMap_range_getElem! srcs0 (fun s : Src => s.es.filter (kGe k)), flatMap_filter_comm]
  have h3 : (srcs0.toList.flatMap fun s => s.es) = allEs srcs0 := rfl
  rw [h3, List.filter_congr (fun e he => kGe_iff_lowerBound hc k he)]

theorem specNext_iter_some {K : List Entry} {cur : Cur} {e0 : Entry} (hst : cur.stuck = false)
    (h0 : K[cur.pos]? = some e0) : specNext .iter K cur = (some e0, { pos := cur.pos + 1 }) := by
  simp [specNext, hst, h0, inBound]

theorem specNext_iter_none {K : List Entry} {cur : Cur} (hst : cur.stuck = false)
    (h0 : K[cur.pos]? = none) : specNext .iter K cur = (none, { cur with stuck := true }) := by
  simp [specNext, hst, h0]

theorem specNext_stuck {K : List Entry} {cur : Cur} (hst : cur.stuck = true) :
    specNext .iter K cur = (none, cur) := by
  simp [specNext, hst]

/-- one `next`, related states: same observable key, related successor states, merged value -/
theorem hist_next {c : MCfg} {f : Bytes → Bytes → Bytes → Option Bytes} {srcs0 : Array Src}
    {K : List Entry} (hc : HCtx c f srcs0 K) {m : MIter} {cur : Cur} (hr : HRel c srcs0 K m cur) :
    HRel c srcs0 K (mergerNext c m).2 (specNext .iter K cur).2 ∧
    (mergerNext c m).1.toOpt.map (·.key) = (specNext .iter K cur).1.map (·.key) ∧
    ∀ e, (mergerNext c m).1.toOpt = some e →
      ∃ l, l.Perm (valuesOf e.key (allEs srcs0)) ∧ foldl1? f e.key l = some e.val := by
  have hsf := mergerNext_sframe c m
  have hsi := mergerNext_seekInv c hc.hF2 hc.htot hc.htrans [] hr.minv hr.sinv
  have hbase : ∀ (cur' : Cur), MInv c (mergerNext c m).2 →
      (cur'.stuck = true → (mergerNext c m).2.finished = true) →
      (cur'.stuck = false → (pool (mergerNext c m).2).Perm
        ((allEs srcs0).filter fun e => decide (cur'.pos ≤ lowerBound K e.key))) →
      HRel c srcs0 K (mergerNext c m).2 cur' := by
    intro cur' h1 h2 h3
    refine ⟨h1, hsi, hsf.size.trans hr.size, fun j => ⟨(hsf.ek j).1.trans (hr.ek j).1,
      (hsf.ek j).2.trans (hr.ek j).2⟩, ?_, h2, h3⟩
    intro i hi hil
    rw [hsf.live] at hil
    exact hr.liveNon i hi hil
  cases hst : cur.stuck with
  | true =>
    have hfin := hr.stuck hst
    rw [specNext_stuck hst, mergerNext_finished c m hfin]
    refine ⟨hr, rfl, ?_⟩
    intro e he; simp [NextRes.toOpt] at he
  | false =>
    have hp := hr.live hst
    rcases next_step_merge c hc.hF2 hc.htot hc.htrans hr.minv hc.hm hp with
      ⟨hP, m2, e1, e2, e3, e4⟩ | ⟨k', v, m2, e1, e2, ⟨e, heP, hek⟩, e4, ⟨l, e5a, e5b⟩, e6⟩ |
      ⟨m2, e1, k', pre, b, rest, a', _, _, _, _, _, _, g⟩
    · -- exhausted
      have h0 : K[cur.pos]? = none := by
        cases hk : K[cur.pos]? with
        | none => rfl
        | some e0 =>
          exfalso
          obtain ⟨e', he', hk'⟩ := (hc.hKeys e0.key).mp ⟨e0, List.mem_of_getElem? hk, rfl⟩
          have hlb := lowerBound_of_getElem? hc.hK hk
          have : e' ∈ (allEs srcs0).filter fun e => decide (cur.pos ≤ lowerBound K e.key) := by
            apply List.mem_filter.mpr
            refine ⟨he', ?_⟩
            rw [hk', hlb]; simp
          rw [hP] at this; simp at this
      rw [specNext_iter_none hst h0]
      have hm2 : (mergerNext c m).2 = m2 := by rw [e1]
      refine ⟨hbase _ (by rw [hm2]; exact e2) (fun _ => by rw [hm2]; exact e3)
        (fun h => by simp at h), by rw [e1]; rfl, ?_⟩
      intro e he; rw [e1] at he; simp [NextRes.toOpt] at he
    · -- an entry is returned
      obtain ⟨heT, hepos⟩ := List.mem_filter.mp heP
      simp only [decide_eq_true_eq] at hepos
      obtain ⟨e1', he1', hk1⟩ := (hc.hKeys k').mpr ⟨e, heT, hek⟩
      have hj := lowerBound_of_mem hc.hK he1'
      rw [hk1, ← hek] at hj
      have hjlt : lowerBound K e.key < K.length := (List.getElem?_eq_some_iff.mp hj).1
      have hposlt : cur.pos < K.length := by omega
      have h0 : K[cur.pos]? = some K[cur.pos] := List.getElem?_eq_getElem hposlt
      generalize K[cur.pos] = e0 at h0
      -- the entry at the cursor carries the returned key
      have hkey : e0.key = k' := by
        obtain ⟨e', he', hk'⟩ := (hc.hKeys e0.key).mp ⟨e0, List.mem_of_getElem? h0, rfl⟩
        have hlb := lowerBound_of_getElem? hc.hK h0
        have hmem : e' ∈ (allEs srcs0).filter fun e => decide (cur.pos ≤ lowerBound K e.key) := by
          apply List.mem_filter.mpr
          refine ⟨he', ?_⟩
          rw [hk', hlb]; simp
        have h1 := e4 e' hmem
        rw [hk'] at h1
        have h2 := getElem?_key_le hc.hK hepos h0 hj
        rw [hk1] at h2
        exact bcmp_le_antisymm h2 h1
      rw [specNext_iter_some hst h0]
      have hm2 : (mergerNext c m).2 = m2 := by rw [e1]
      refine ⟨hbase _ (by rw [hm2]; exact e2) (fun h => by simp at h) ?_, by rw [e1]; simp [NextRes.toOpt, hkey], ?_⟩
      · intro _
        rw [hm2]
        refine e6.trans ?_
        rw [List.filter_filter]
        apply List.Perm.of_eq
        apply List.filter_congr
        intro x _
        have hiff := lt_lowerBound_iff hc.hK h0 x.key
        rw [hkey] at hiff
        simp only
        cases hb : bcmp k' x.key == .lt with
        | true =>
          have h3 := hiff.mpr (by simpa using hb)
          have h4 : cur.pos ≤ lowerBound K x.key := by omega
          simp [h4, Nat.succ_le_of_lt h3]
        | false =>
          have h3 : ¬ cur.pos < lowerBound K x.key := fun h => by
            have := hiff.mp h; rw [this] at hb; simp at hb
          have : ¬ cur.pos + 1 ≤ lowerBound K x.key := by omega
          simp [this]
      · intro e' he'
        rw [e1] at he'
        simp only [NextRes.toOpt, Option.some.injEq] at he'
        subst he'
        refine ⟨l, ?_, e5b⟩
        refine e5a.trans (List.Perm.of_eq ?_)
        unfold valuesOf
        rw [List.filter_filter]
        congr 1
        apply List.filter_congr
        intro x _
        by_cases hx : x.key = k'
        · have : cur.pos ≤ lowerBound K k' := by rw [← hek]; exact hepos
          simp [hx, this]
        · simp [hx]
    · exact absurd g (hc.hok _ _ _)

theorem hist_seek {c : MCfg} {f : Bytes → Bytes → Bytes → Option Bytes} {srcs0 : Array Src}
    {K : List Entry} (hc : HCtx c f srcs0 K) {m : MIter} {cur : Cur} (hr : HRel c srcs0 K m cur)
    (k : Bytes) : HRel c srcs0 K (mergerSeek c m k) (specSeek K k) := by
  obtain ⟨h1, h2, h3, h4⟩ :=
    mergerSeek_inv c hc.hF8 hc.htot hc.htrans [] hr.minv hr.sinv k (bcmp_nil_le k)
  refine ⟨h1, h2, h4.size.trans hr.size, fun j => ⟨(h4.ek j).1.trans (hr.ek j).1,
    (h4.ek j).2.trans (hr.ek j).2⟩, ?_, fun h => by simp [specSeek] at h, ?_⟩
  · intro i hi hil
    rw [h4.live] at hil
    exact hr.liveNon i hi hil
  · intro _
    exact h3.trans (hist_seek_pool hc hr k)

theorem hist_run {c : MCfg} {f : Bytes → Bytes → Bytes → Option Bytes} {srcs0 : Array Src}
    {K : List Entry} (hc : HCtx c f srcs0 K) :
    ∀ (ops : List IOp) (m : MIter) (cur : Cur), HRel c srcs0 K m cur →
      (mRun c m ops).map (Option.map (·.key)) = (specRun .iter K cur ops).map (Option.map (·.key)) ∧
      ∀ e, some e ∈ mRun c m ops →
        ∃ l, l.Perm (valuesOf e.key (allEs srcs0)) ∧ foldl1? f e.key l = some e.val := by
  intro ops
  induction ops with
  | nil => intro m cur _; simp [mRun, specRun]
  | cons op ops ih =>
    intro m cur hr
    cases op with
    | next =>
      obtain ⟨h1, h2, h3⟩ := hist_next hc hr
      obtain ⟨i1, i2⟩ := ih _ _ h1
      simp only [mRun, specRun, List.map_cons]
      refine ⟨by rw [h2, i1], ?_⟩
      intro e he
      rcases List.mem_cons.mp he with he | he
      · exact h3 e he.symm
      · exact i2 e he
    | seek k =>
      obtain ⟨i1, i2⟩ := ih _ _ (hist_seek hc hr k)
      simp only [mRun, specRun, List.map_cons]
      refine ⟨by rw [i1], ?_⟩
      intro e he
      rcases List.mem_cons.mp he with he | he
      · simp at he
      · exact i2 e he

theorem mem_toList_idx {srcs : Array Src} {s : Src} (h : s ∈ srcs.toList) :
    ∃ i, i < srcs.size ∧ srcs[i]! = s := by
  obtain ⟨i, hi, he⟩ := List.mem_iff_getElem.mp h
  have hi' : i < srcs.size := by simpa using hi
  exact ⟨i, hi', by rw [getElem!_pos srcs i hi']; simpa using he⟩

theorem hist_init {c : MCfg} {f : Bytes → Bytes → Bytes → Option Bytes} {srcs0 : Array Src}
    {K : List Entry} (hc : HCtx c f srcs0 K)
    (hcur : ∀ j, j < srcs0.size → (srcs0[j]!).cur = specSeek (srcs0[j]!).es []) :
    HRel c srcs0 K (mergerInit c srcs0) { pos := 0 } := by
  obtain ⟨h1, _, h3, h4, _, h6, _⟩ := mergerInit_seekInv c [] srcs0 hcur
  have hsorted : ∀ s ∈ srcs0.toList, Sorted s.es := by
    intro s hs
    obtain ⟨i, hi, rfl⟩ := mem_toList_idx hs
    exact hc.sorted i hi
  obtain ⟨g1, g2, _, _⟩ := mergerInit_inv c hc.htot hc.htrans srcs0 hsorted
  refine ⟨g1, h1, h3, h4, h6, fun h => by simp at h, ?_⟩
  intro _
  refine g2.trans (List.Perm.of_eq ?_)
  have : (allEs srcs0).filter (fun e => decide (0 ≤ lowerBound K e.key)) = allEs srcs0 := by
    rw [List.filter_eq_self]; intro x _; simp
  simp only
  rw [this]
  unfold allEs
  apply flatMap_congr'
  intro s hs
  obtain ⟨i, hi, rfl⟩ := mem_toList_idx hs
  have h1 : (srcs0[i]!).remaining = ((srcs0[i]!).seek []).remaining := by
    rw [seek_self (hcur i hi)]
  rw [h1, Src.seek_remaining_iter _ (hc.sorted i hi) (hc.kinds i hi), List.filter_eq_self]
  intro x _
  cases hx : x.key <;> simp [bcmp]

end MergerSeek

open MergerSeek in
/-- **C05, histories.**  Let `m₀ = merger_iter` over sorted `tables`, with a merge function whose
    calls all succeed, and let `K` be a strictly sorted list carrying exactly the keys of the
    tables.  For every history `ops` of `next` / `seek` calls (including seeking to the key just
    returned, seeking backwards after exhaustion, seeking onto keys that need merging) the keys the
    merger iterator returns are those a reader-style iterator (`specRun .iter`) over `K` returns,
    call by call, and every returned value is a fold of the merge function over all the values the
    tables hold for that key. -/
theorem C05_history (c : MCfg) (hF2 : c.fixF2 = true) (hF8 : c.fixF8 = true)
    (htot : ∀ a b, hle c a b = true ∨ hle c b a = true)
    (htrans : ∀ a b d, hle c a b = true → hle c b d = true → hle c a d = true)
    {f : Bytes → Bytes → Bytes → Option Bytes} (hm : c.merge = some f)
    (hok : ∀ k a b, f k a b ≠ none)
    (tables : List (List Entry)) (hs : ∀ es ∈ tables, Sorted es)
    (K : List Entry) (hK : StrictSorted K)
    (hKeys : ∀ k, (∃ e ∈ K, e.key = k) ↔ (∃ e ∈ tables.flatten, e.key = k))
    {m0 : MIter} (h0 : mergerIter c tables .iter [] = some m0) (ops : List IOp) :
    (mRun c m0 ops).map (Option.map (·.key)) =
      (specRun .iter K { pos := 0 } ops).map (Option.map (·.key)) ∧
    ∀ e, some e ∈ mRun c m0 ops →
      ∃ l, l.Perm (valuesOf e.key tables.flatten) ∧ foldl1? f e.key l = some e.val := by
  have hall : allEs (iterSrcs tables .iter []) = tables.flatten := by
    simp only [allEs, iterSrcs, List.map_toArray, List.flatMap_map]
    induction tables with
    | nil => rfl
    | cons a l ih => simp [List.flatMap_cons]
  have hidx : ∀ j, j < (iterSrcs tables .iter []).size →
      ((iterSrcs tables .iter [])[j]!).kind = .iter ∧ Sorted ((iterSrcs tables .iter [])[j]!).es := by
    intro j hj
    rw [getElem!_pos _ j hj]
    simp only [iterSrcs, Array.getElem_map, srcKind]
    refine ⟨trivial, hs _ ?_⟩
    simp
  have hc : HCtx c f (iterSrcs tables .iter []) K :=
    ⟨hF2, hF8, htot, htrans, hm, hok, fun j hj => (hidx j hj).1, fun j hj => (hidx j hj).2, hK,
      by rw [hall]; exact hKeys⟩
  have hm0 : m0 = mergerInit c (iterSrcs tables .iter []) := by
    rw [mergerIter_eq] at h0; simpa using h0.symm
  have := hist_run hc ops m0 { pos := 0 }
    (by rw [hm0]; exact hist_init hc (iterSrcs_cur tables .iter []))
  rw [hall] at this
  exact this

namespace MergerSeek

end MergerSeek

open MergerSeek in
/-- **2 (initial state of `merger_iter` / `merger_get*`).** -/
theorem mergerIter_seekInv (c : MCfg) (tables : List (List Entry)) (kind : Kind) (start : Bytes)
    {m : MIter} (h : mergerIter c tables kind start = some m) : SeekInv start m ∧ m.curKey = [] := by
  have hm : m = mergerInit c (iterSrcs tables kind start) := by
    rw [mergerIter_eq] at h
    split at h
    · simpa using h.symm
    · split at h
      · simp at h
      · simpa using h.symm
  obtain ⟨h1, h2, _⟩ := mergerInit_seekInv c start _ (iterSrcs_cur tables kind start)
  rw [hm]; exact ⟨h1, h2⟩

open MergerSeek in
/-- **C05, bounded lookups, no merge function**: every entry of the tables satisfying the bound is
    returned once, in non-decreasing key order; NULL iff there is none. -/
theorem C05_lookup_nomerge (c : MCfg) (hF2 : c.fixF2 = true)
    (htot : ∀ a b, hle c a b = true ∨ hle c b a = true)
    (htrans : ∀ a b d, hle c a b = true → hle c b d = true → hle c a d = true)
    (hm : c.merge = none)
    (tables : List (List Entry)) (hs : ∀ es ∈ tables, Sorted es) (kind : Kind) (start : Bytes)
    (hst : startOk kind start) {m : MIter} (hmi : mergerIter c tables kind start = some m)
    (fuel : Nat)
    (hfuel : (tables.flatten.filter fun e => lookP kind start e.key).length < fuel) :
    (mergerDrain c fuel m).Perm (tables.flatten.filter fun e => lookP kind start e.key) ∧
    Sorted (mergerDrain c fuel m) := by
  obtain ⟨h1, _, h3⟩ := mergerIter_inv c htot htrans tables hs kind start hmi
  rw [flatMap_congr' (fun es hes => lookup_remaining (hs es hes) kind start hst),
    flatMap_filter_eq] at h3
  have hl := h3.length_eq
  obtain ⟨d1, d2, _⟩ := MergerProofs.drain_nomerge c hF2 htot htrans hm fuel _ h1 (by omega)
  exact ⟨d1.trans h3, d2⟩

/-! ### concrete instances (non-vacuity) and the limits of the contract -/

/-- tables `a↦1, b↦2, c↦5` and `b↦3, d↦4`, concatenation as merge function: a history with a seek
    onto a key that needs merging, a seek to the key just returned, and a backward seek after
    exhaustion; the keys agree with the reader-style iterator over the key list `a, b, c, d`. -/
example :
    let c : MCfg := { merge := some fun _ a b => some (a ++ b), dupsort := none }
    let tables : List (List Entry) :=
      [[⟨[97], [49]⟩, ⟨[98], [50]⟩, ⟨[99], [53]⟩], [⟨[98], [51]⟩, ⟨[100], [52]⟩]]
    let K : List Entry := [⟨[97], []⟩, ⟨[98], []⟩, ⟨[99], []⟩, ⟨[100], []⟩]
    let ops : List IOp := [.next, .seek [98], .next, .seek [98], .next, .next, .next, .next,
      .seek [97, 0], .next]
    (mergerIter c tables .iter []).map (fun m => mRun c m ops) =
      some [some ⟨[97], [49]⟩, none, some ⟨[98], [50, 51]⟩, none, some ⟨[98], [50, 51]⟩,
        some ⟨[99], [53]⟩, some ⟨[100], [52]⟩, none, none, some ⟨[98], [50, 51]⟩] ∧
    (specRun .iter K { pos := 0 } ops).map (Option.map (·.key)) =
      [some [97], none, some [98], none, some [98], some [99], some [100], none, none, some [98]] := by
  decide +kernel

/-- the general theorem applies to this instance -/
example (ops : List IOp) :
    let c : MCfg := { merge := some fun _ a b => some (a ++ b), dupsort := none }
    let tables : List (List Entry) :=
      [[⟨[97], [49]⟩, ⟨[98], [50]⟩, ⟨[99], [53]⟩], [⟨[98], [51]⟩, ⟨[100], [52]⟩]]
    let K : List Entry := [⟨[97], []⟩, ⟨[98], []⟩, ⟨[99], []⟩, ⟨[100], []⟩]
    ∀ m0, mergerIter c tables .iter [] = some m0 →
      (mRun c m0 ops).map (Option.map (·.key)) =
        (specRun .iter K { pos := 0 } ops).map (Option.map (·.key)) := by
  intro c tables K m0 h0
  refine (C05_history c rfl rfl (hle_total_of_no_dupsort _ rfl) (hle_trans_of_no_dupsort _ rfl)
    rfl (by intro k a b; simp) tables ?_ K ?_ ?_ h0 ops).1
  · unfold Sorted; decide +kernel
  · unfold StrictSorted; decide +kernel
  · intro k
    simp only [tables, K]
    constructor
    · rintro ⟨e, he, rfl⟩
      simp only [List.mem_cons, List.not_mem_nil, or_false] at he
      rcases he with rfl | rfl | rfl | rfl <;> simp
    · rintro ⟨e, he, rfl⟩
      simp only [List.flatten_cons, List.flatten_nil, List.cons_append, List.nil_append,
        List.append_nil, List.mem_cons, List.not_mem_nil, or_false] at he
      rcases he with rfl | rfl | rfl | rfl | rfl <;> simp

/-- **Why `k ≥ lo` is needed for bounded iterators** (`merger_get_prefix("b")` over `a, ba, c` and
    `b, bb`).  A seek to a key below the bound (`""`) leaves the first source exhausted (its entry
    `a` fails the prefix test) and out of the heap; the following forward seek to `ba` re-seeks only
    heads that are behind, so `ba` of the first source is never seen: the merger answers `bb`,
    whereas a prefix iterator over the merged table `a, b, ba, bb, c` answers `ba`.  (The two also
    differ right after the seek to `""`: the single-table iterator is stuck on `a`, the merger
    returns `b`.)  With seeks confined to keys ≥ the start key the two agree (`mergerSeek_inv`). -/
theorem seek_below_start_witness :
    let c : MCfg := { merge := none, dupsort := none }
    let tables : List (List Entry) :=
      [[⟨[97], []⟩, ⟨[98, 97], []⟩, ⟨[99], []⟩], [⟨[98], []⟩, ⟨[98, 98], []⟩]]
    let M : List Entry := [⟨[97], []⟩, ⟨[98], []⟩, ⟨[98, 97], []⟩, ⟨[98, 98], []⟩, ⟨[99], []⟩]
    let ops : List IOp := [.seek [], .next, .seek [98, 97], .next]
    (mergerIter c tables (.pfx [98]) [98]).map (fun m => mRun c m ops) =
      some [none, some ⟨[98], []⟩, none, some ⟨[98, 98], []⟩] ∧
    specRun (.pfx [98]) M (specSeek M [98]) ops = [none, none, none, some ⟨[98, 97], []⟩] := by
  decide +kernel

/-
  What remains open w.r.t. the task statement:
  * `C05_history` is proved for `merger_iter` (kind `.iter`, start `[]`) with a merge function whose
    calls all succeed; it compares KEYS call by call and characterises every returned VALUE as a
    fold over all values of the key (the order of the fold is not determined by the heap order, so
    there is no single list `M` with `mRun = specRun .iter M`).  The same refinement for the
    bounded kinds (`merger_get*`, all seeks ≥ the start key, see `seek_below_start_witness` for why
    that restriction is needed) is not assembled; its per-operation ingredients are
    `mergerSeek_inv`, `C05_seek_next`, `mergerNext_seekInv` (stated for every kind / start key).
  * `mRun` does not stop after a callback failure (a failure shows as `none`); all theorems about
    `mRun` assume a total merge function.
-/
end Mtbl
