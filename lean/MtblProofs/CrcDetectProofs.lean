import MtblModel.Crc
import MtblModel.Varint
import MtblProofs.CrcProofs
import MtblProofs.VarintProofs
/-
  C12: error detection strength of the per-block CRC-32C (`dec32 field = crc32c stored`).

  Damage is an xor mask `(ep, ef)` on (stored bytes, checksum field).  By GF(2)-linearity the damaged block
  is accepted iff `crcRaw 0 ep = dec32 ef` (`blockVerifies_damaged`), and then the error word `ep ++ ef`,
  read as the little-endian number `N = leLoad (ep ++ ef)`, satisfies `crcZ^[8·len + 32] N = 0`
  (`CrcD.syndrome_zero`).  The detection theorems show that this is impossible:
  * odd weight: `crcZ` preserves the parity of the popcount on all of `Nat` (the polynomial constant has 17
    set bits, i.e. the generator with its x^32 term has 18 = even many, it is divisible by x+1);
  * bursts ≤ 32 bits: `N = 2^lo * M`, `0 < M < 2^32`; `lo` shifts give `M`, and `crcZ` is injective on
    32-bit registers (bit 31 of the polynomial constant is set);
  * two bits: reduces to `crcZ^[d] 1 = 1` with `0 < d < 2^31 - 1`; but `crcZ^[2^31 - 1] 1 = 1`
    (31 squarings of the 32×32 GF(2) matrix of `crcZ`, kernel-evaluated) and `2^31 - 1` is prime
    (trial division, kernel-evaluated), so the order of `x` is exactly `2^31 - 1`.
-/
namespace Mtbl

def xorBytes (a b : Bytes) : Bytes := List.zipWith (· ^^^ ·) a b
def popcount8 (b : UInt8) : Nat := (List.range 8).foldl (fun acc i => acc + (b.toNat >>> i) % 2) 0
def weight (e : Bytes) : Nat := (e.map popcount8).sum
/-- the acceptance test of get_block / mtbl_reader_init_fd / mtbl_verify on a block -/
def blockVerifies (payload field : Bytes) : Bool := dec32 field == crc32c payload
/-- bit `i` of a byte string in CRC transmission order: byte i/8, bit i%8 counted from the least
    significant bit -/
def bitAt (e : Bytes) (i : Nat) : Bool := ((e.getD (i / 8) 0).toNat >>> (i % 8)) % 2 == 1
/-- all set bits of `e` lie in a window of `w` consecutive bit positions -/
def burstWithin (e : Bytes) (w : Nat) : Prop := ∃ lo, ∀ i, bitAt e i = true → lo ≤ i ∧ i < lo + w

namespace CrcD
open CrcP

/-! ### arithmetic helpers -/

/-- disjoint bit ranges: `+` is `^^^` -/
theorem add_eq_xor_low {a k : Nat} (h : a < 2 ^ k) (b : Nat) : a + 2 ^ k * b = a ^^^ 2 ^ k * b := by
  rw [Nat.add_comm, Nat.two_pow_add_eq_or_of_lt h b]
  apply Nat.eq_of_testBit_eq
  intro i
  rw [Nat.testBit_or, Nat.testBit_xor, Nat.testBit_two_pow_mul]
  by_cases hi : i < k
  · have : ¬ (i ≥ k) := by omega
    simp [this]
  · have : a.testBit i = false := by
      apply Nat.testBit_lt_two_pow
      have : 2 ^ k ≤ 2 ^ i := Nat.pow_le_pow_right (by decide) (by omega)
      omega
    simp [this]

theorem mul_xor_two_pow (k a b : Nat) : 2 ^ k * (a ^^^ b) = 2 ^ k * a ^^^ 2 ^ k * b := by
  have := @Nat.shiftLeft_xor_distrib k a b
  simp only [Nat.shiftLeft_eq] at this
  simpa only [Nat.mul_comm] using this

theorem xor_left_cancel_iff (c a b : Nat) : c ^^^ a = c ^^^ b ↔ a = b := by
  constructor
  · intro h
    have : c ^^^ (c ^^^ a) = c ^^^ (c ^^^ b) := by rw [h]
    simpa [← Nat.xor_assoc] using this
  · intro h; rw [h]

/-! ### byte strings as numbers -/

theorem leLoad_lt (e : Bytes) : leLoad e < 2 ^ (8 * e.length) := by
  induction e with
  | nil => simp [leLoad]
  | cons b bs ih =>
    have hb := b.toNat_lt
    have : 2 ^ (8 * (b :: bs).length) = 256 * 2 ^ (8 * bs.length) := by
      rw [List.length_cons, Nat.mul_succ, Nat.pow_add]; omega
    rw [this]
    simp only [leLoad]
    omega

theorem leLoad_xor (a b : Bytes) (h : a.length = b.length) :
    leLoad (xorBytes a b) = leLoad a ^^^ leLoad b := by
  induction a generalizing b with
  | nil => cases b <;> simp [xorBytes, leLoad] at *
  | cons x xs ih =>
    cases b with
    | nil => simp at h
    | cons y ys =>
      have h' : xs.length = ys.length := by simpa using h
      have ih' := ih ys h'
      simp only [xorBytes, List.zipWith_cons_cons] at ih' ⊢
      simp only [leLoad, ih']
      have e1 := add_eq_xor_low (k := 8) x.toNat_lt (leLoad xs)
      have e2 := add_eq_xor_low (k := 8) y.toNat_lt (leLoad ys)
      have e3 := add_eq_xor_low (k := 8) (x ^^^ y).toNat_lt (leLoad xs ^^^ leLoad ys)
      simp only [Nat.reducePow] at e1 e2 e3
      rw [e1, e2, e3, UInt8.toNat_xor]
      have := mul_xor_two_pow 8 (leLoad xs) (leLoad ys)
      simp only [Nat.reducePow] at this
      rw [this]
      ac_rfl

theorem xorBytes_length (a b : Bytes) (h : a.length = b.length) : (xorBytes a b).length = a.length := by
  simp [xorBytes, h]

theorem list4 {α : Type} (w : List α) (h : w.length = 4) : ∃ a b c d, w = [a, b, c, d] := by
  rcases w with _ | ⟨a, _ | ⟨b, _ | ⟨c, _ | ⟨d, _ | ⟨x, w⟩⟩⟩⟩⟩ <;> simp at h
  exact ⟨a, b, c, d, rfl⟩

theorem dec32_eq_leLoad (e : Bytes) (h : e.length = 4) : dec32 e = leLoad e := by
  obtain ⟨a, b, c, d, rfl⟩ := list4 e h
  simp only [dec32, leLoad]; omega

theorem crc32c_lt (m : Bytes) : crc32c m < 2 ^ 32 := by
  unfold crc32c crcRaw
  exact Nat.xor_lt_two_pow (foldl_crcByte_lt m (by decide)) (by decide)

theorem dec32_fixed32' {v : Nat} (h : v < 2 ^ 32) : dec32 (fixed32 v) = v := by
  simpa using dec32_fixed32 h []

theorem dec32_xor_fixed (c : Nat) (hc : c < 2 ^ 32) (ef : Bytes) (hf : ef.length = 4) :
    dec32 (xorBytes (fixed32 c) ef) = c ^^^ dec32 ef := by
  have hl : (fixed32 c).length = ef.length := by rw [hf]; rfl
  rw [dec32_eq_leLoad _ (by rw [xorBytes_length _ _ hl]; rfl), leLoad_xor _ _ hl,
    ← dec32_eq_leLoad _ (fixed32_length c), ← dec32_eq_leLoad _ hf, dec32_fixed32' hc]

end CrcD

open CrcP CrcD

/-! ### 1. an intact block verifies -/

theorem C12_intact (m : Bytes) : blockVerifies m (fixed32 (crc32c m)) = true := by
  unfold blockVerifies
  rw [dec32_fixed32' (crc32c_lt m)]
  exact beq_self_eq_true _

/-! ### 2. linearity at the byte-string level -/

theorem crcRaw_xor2 (s t : Nat) (m e : Bytes) (h : e.length = m.length) :
    crcRaw (s ^^^ t) (xorBytes m e) = crcRaw s m ^^^ crcRaw t e := by
  induction m generalizing s t e with
  | nil => cases e <;> simp [xorBytes, crcRaw] at *
  | cons x xs ih =>
    cases e with
    | nil => simp at h
    | cons y ys =>
      have h' : ys.length = xs.length := by simpa using h
      have ih' := ih (crcByte s x) (crcByte t y) ys h'
      simp only [xorBytes, crcRaw, List.zipWith_cons_cons, List.foldl_cons] at ih' ⊢
      rw [← ih']
      congr 1
      unfold crcByte
      rw [← crcZ8_xor, UInt8.toNat_xor]
      congr 1
      ac_rfl

theorem crcRaw_xorBytes (s : Nat) (m e : Bytes) (h : e.length = m.length) :
    crcRaw s (xorBytes m e) = crcRaw s m ^^^ crcRaw 0 e := by
  have := crcRaw_xor2 s 0 m e h
  rwa [Nat.xor_zero] at this

theorem crc32c_xorBytes (m e : Bytes) (h : e.length = m.length) :
    crc32c (xorBytes m e) = crc32c m ^^^ crcRaw 0 e := by
  unfold crc32c
  rw [crcRaw_xorBytes _ _ _ h]
  ac_rfl

/-- a damaged block is accepted iff the CRC register of the payload error equals the field error -/
theorem blockVerifies_damaged (m ep ef : Bytes) (hl : ep.length = m.length) (hf : ef.length = 4) :
    blockVerifies (xorBytes m ep) (xorBytes (fixed32 (crc32c m)) ef) = true ↔ crcRaw 0 ep = dec32 ef := by
  unfold blockVerifies
  rw [dec32_xor_fixed _ (crc32c_lt m) _ hf, crc32c_xorBytes _ _ hl, beq_iff_eq, xor_left_cancel_iff]
  exact eq_comm

namespace CrcD

/-- number of set bits -/
def pc (x : Nat) : Nat := if x = 0 then 0 else x % 2 + pc (x / 2)
decreasing_by omega

theorem pc_zero : pc 0 = 0 := by rw [pc]; simp

theorem pc_eq (x : Nat) : pc x = x % 2 + pc (x / 2) := by
  by_cases h : x = 0
  · subst h; simp [pc_zero]
  · rw [pc]; simp [h]

theorem pc_crcP : pc crcP = 17 := by
  unfold crcP
  simp [pc]

theorem pc_eq_zero {x : Nat} (h : pc x = 0) : x = 0 := by
  induction x using Nat.strongRecOn with
  | _ x ih =>
    rw [pc_eq] at h
    by_cases hx : x = 0
    · exact hx
    · have := ih (x / 2) (by omega) (by omega)
      omega

theorem pc_xor (a b : Nat) : pc (a ^^^ b) % 2 = (pc a + pc b) % 2 := by
  induction a using Nat.strongRecOn generalizing b with
  | _ a ih =>
    by_cases ha : a = 0
    · subst ha; simp [pc_zero]
    · rw [pc_eq (a ^^^ b), pc_eq a, pc_eq b]
      have h1 : (a ^^^ b) / 2 = a / 2 ^^^ b / 2 := by
        have := @Nat.shiftRight_xor_distrib 1 a b
        simpa [Nat.shiftRight_eq_div_pow] using this
      have h2 : (a ^^^ b) % 2 = a % 2 ^^^ b % 2 := Nat.xor_mod_two_pow (n := 1)
      have := ih (a / 2) (by omega) (b / 2)
      rw [h1, h2]
      rcases mod2_cases a with h | h <;> rcases mod2_cases b with h' | h' <;> simp [h, h'] <;> omega

theorem pc_crcZ (x : Nat) : pc (crcZ x) % 2 = pc x % 2 := by
  unfold crcZ
  rw [pc_xor, pc_eq x, Nat.shiftRight_eq_div_pow]
  rcases mod2_cases x with h | h <;> simp [h, pc_crcP, pc_zero] <;> omega


/-! ### iterated zero-input shifts -/

/-- `crcZ^[k]` -/
def zI : Nat → Nat → Nat
  | 0, x => x
  | k+1, x => zI k (crcZ x)

theorem zI_xor (k a b : Nat) : zI k (a ^^^ b) = zI k a ^^^ zI k b := by
  induction k generalizing a b with
  | zero => rfl
  | succ k ih => simp only [zI, crcZ_xor, ih]

theorem zI_add (j k x : Nat) : zI (j + k) x = zI k (zI j x) := by
  induction j generalizing x with
  | zero => simp [zI]
  | succ j ih => rw [Nat.add_right_comm]; exact ih (crcZ x)

theorem zI_succ' (k x : Nat) : zI (k + 1) x = crcZ (zI k x) := zI_add k 1 x

theorem zI_lt (k : Nat) {x : Nat} (h : x < 2 ^ 32) : zI k x < 2 ^ 32 := by
  induction k generalizing x with
  | zero => exact h
  | succ k ih => exact ih (crcZ_lt h)

theorem crcZ_zero : crcZ 0 = 0 := by decide

theorem zI_zero (k : Nat) : zI k 0 = 0 := by
  induction k with
  | zero => rfl
  | succ k ih => simp only [zI, crcZ_zero, ih]

theorem zN_eq_zI (k x : Nat) : zN k x = zI (8 * k) x := by
  induction k generalizing x with
  | zero => rfl
  | succ k ih =>
    show zN k (crcZ8 x) = zI (8 * k + 8) x
    rw [ih, Nat.add_comm, zI_add]
    rfl

theorem crcRaw_eq_zI (s : Nat) (d : Bytes) : crcRaw s d = zI (8 * d.length) (s ^^^ leLoad d) := by
  unfold crcRaw
  rw [foldl_crcByte_eq, zN_eq_zI]

theorem zI_pow_mul (k x : Nat) : zI k (2 ^ k * x) = x := by
  induction k generalizing x with
  | zero => simp [zI]
  | succ k ih =>
    have : 2 ^ (k + 1) * x = 2 * (2 ^ k * x) := by rw [Nat.pow_succ]; ac_rfl
    rw [zI, this, crcZ_double, ih]

theorem eq_of_xor_eq_zero {a b : Nat} (h : a ^^^ b = 0) : a = b := by
  have : a ^^^ b = a ^^^ a := by rw [h, Nat.xor_self]
  exact ((xor_left_cancel_iff a b a).mp this).symm

/-- the zero-input shift has trivial kernel on 32-bit registers (bit 31 of the polynomial is set) -/
theorem crcZ_eq_zero {x : Nat} (hx : x < 2 ^ 32) (h : crcZ x = 0) : x = 0 := by
  unfold crcZ at h
  rw [Nat.shiftRight_eq_div_pow] at h
  rcases mod2_cases x with h2 | h2
  · simp [h2] at h; omega
  · simp only [h2, ↓reduceIte] at h
    have h3 : x / 2 ^ 1 = crcP := eq_of_xor_eq_zero h
    unfold crcP at h3
    omega

theorem crcZ_inj {a b : Nat} (ha : a < 2 ^ 32) (hb : b < 2 ^ 32) (h : crcZ a = crcZ b) : a = b := by
  have h0 : crcZ (a ^^^ b) = 0 := by rw [crcZ_xor, h, Nat.xor_self]
  have := crcZ_eq_zero (Nat.xor_lt_two_pow ha hb) h0
  exact eq_of_xor_eq_zero this

theorem zI_eq_zero (k : Nat) {x : Nat} (hx : x < 2 ^ 32) (h : zI k x = 0) : x = 0 := by
  induction k generalizing x with
  | zero => exact h
  | succ k ih => exact crcZ_eq_zero hx (ih (crcZ_lt hx) h)

theorem zI_inj (k : Nat) {a b : Nat} (ha : a < 2 ^ 32) (hb : b < 2 ^ 32) (h : zI k a = zI k b) : a = b := by
  have h0 : zI k (a ^^^ b) = 0 := by rw [zI_xor, h, Nat.xor_self]
  exact eq_of_xor_eq_zero (zI_eq_zero k (Nat.xor_lt_two_pow ha hb) h0)

theorem pc_zI (k x : Nat) : pc (zI k x) % 2 = pc x % 2 := by
  induction k generalizing x with
  | zero => rfl
  | succ k ih => rw [zI, ih, pc_crcZ]

/-! ### weight of a byte string = popcount of its number -/

theorem pc_add_pow (k : Nat) {a : Nat} (h : a < 2 ^ k) (L : Nat) : pc (a + 2 ^ k * L) = pc a + pc L := by
  induction k generalizing a with
  | zero =>
    have : a = 0 := by simpa using h
    subst this; simp [pc_zero]
  | succ k ih =>
    have e0 : 2 ^ (k + 1) * L = 2 * (2 ^ k * L) := by rw [Nat.pow_succ]; ac_rfl
    rw [pc_eq (a + 2 ^ (k + 1) * L), pc_eq a, e0]
    have e1 : (a + 2 * (2 ^ k * L)) % 2 = a % 2 := by omega
    have e2 : (a + 2 * (2 ^ k * L)) / 2 = a / 2 + 2 ^ k * L := by omega
    rw [e1, e2, ih (by rw [Nat.pow_succ] at h; omega)]
    omega

theorem pc_byte (b : UInt8) : pc b.toNat = popcount8 b := by
  have hb := b.toNat_lt
  have h0 : b.toNat / 2 / 2 / 2 / 2 / 2 / 2 / 2 / 2 = 0 := by omega
  rw [pc_eq, pc_eq (_ / 2), pc_eq (_ / 2 / 2), pc_eq (_ / 2 / 2 / 2), pc_eq (_ / 2 / 2 / 2 / 2),
    pc_eq (_ / 2 / 2 / 2 / 2 / 2), pc_eq (_ / 2 / 2 / 2 / 2 / 2 / 2), pc_eq (_ / 2 / 2 / 2 / 2 / 2 / 2 / 2),
    h0, pc_zero]
  simp only [popcount8, List.range, List.range.loop, List.foldl, Nat.shiftRight_eq_div_pow]
  omega

theorem pc_leLoad (e : Bytes) : pc (leLoad e) = weight e := by
  induction e with
  | nil => simp [leLoad, weight, pc_zero]
  | cons b bs ih =>
    have := pc_add_pow 8 b.toNat_lt (leLoad bs)
    simp only [Nat.reducePow] at this
    simp only [leLoad, weight, List.map_cons, List.sum_cons] at ih ⊢
    rw [this, ih, pc_byte]

theorem weight_append (a b : Bytes) : weight (a ++ b) = weight a + weight b := by
  simp [weight]

theorem leLoad_ne_zero {e : Bytes} (h : 0 < weight e) : leLoad e ≠ 0 := by
  intro h0
  rw [← pc_leLoad, h0, pc_zero] at h
  omega

/-! ### the codeword view: an accepted damage pattern has zero syndrome -/

theorem leLoad_append (a b : Bytes) : leLoad (a ++ b) = leLoad a + 2 ^ (8 * a.length) * leLoad b := by
  induction a with
  | nil => simp [leLoad]
  | cons x xs ih =>
    have : 2 ^ (8 * (x :: xs).length) = 256 * 2 ^ (8 * xs.length) := by
      rw [List.length_cons, Nat.mul_succ, Nat.pow_add]; omega
    simp only [List.cons_append, leLoad, ih, this]
    rw [Nat.mul_add, Nat.mul_assoc, Nat.add_assoc]

/-- if the damage `(ep, ef)` is accepted then the error word `ep ++ ef` is a codeword -/
theorem syndrome_zero (ep ef : Bytes) (hf : ef.length = 4) (h : crcRaw 0 ep = dec32 ef) :
    zI (8 * ep.length + 32) (leLoad (ep ++ ef)) = 0 := by
  rw [crcRaw_eq_zI, Nat.zero_xor, dec32_eq_leLoad _ hf] at h
  rw [leLoad_append, add_eq_xor_low (leLoad_lt ep), zI_add, zI_xor, zI_pow_mul, h, Nat.xor_self, zI_zero]

end CrcD

/-! ### 3. damage confined to the checksum field -/

theorem C12_detect_field (m ef : Bytes) (hf : ef.length = 4) (hne : 0 < weight ef) :
    blockVerifies m (xorBytes (fixed32 (crc32c m)) ef) = false := by
  unfold blockVerifies
  rw [dec32_xor_fixed _ (crc32c_lt m) _ hf, dec32_eq_leLoad _ hf]
  have h0 := leLoad_ne_zero hne
  apply Bool.eq_false_iff.mpr
  intro h
  rw [beq_iff_eq] at h
  have : crc32c m ^^^ leLoad ef = crc32c m ^^^ 0 := by rw [h, Nat.xor_zero]
  exact h0 ((xor_left_cancel_iff _ _ _).mp this)

/-! ### 5. odd-weight damage (1 bit, 3 bits, ...) anywhere, any length -/

theorem C12_detect_odd (m ep ef : Bytes) (hl : ep.length = m.length) (hf : ef.length = 4)
    (hodd : (weight ep + weight ef) % 2 = 1) :
    blockVerifies (xorBytes m ep) (xorBytes (fixed32 (crc32c m)) ef) = false := by
  apply Bool.eq_false_iff.mpr
  intro h
  have hz := syndrome_zero ep ef hf ((blockVerifies_damaged m ep ef hl hf).mp h)
  have hp := pc_zI (8 * ep.length + 32) (leLoad (ep ++ ef))
  rw [hz, pc_zero, pc_leLoad, weight_append] at hp
  omega

namespace CrcD

theorem bitAt_eq_testBit (e : Bytes) (i : Nat) : bitAt e i = (leLoad e).testBit i := by
  induction e generalizing i with
  | nil => simp [bitAt, leLoad]
  | cons b bs ih =>
    have hb := b.toNat_lt
    have h := Nat.testBit_two_pow_mul_add (leLoad bs) (i := 8) hb i
    simp only [Nat.reducePow] at h
    simp only [leLoad]
    rw [Nat.add_comm, h]
    by_cases hi : i < 8
    · have h1 : i / 8 = 0 := by omega
      have h2 : i % 8 = i := by omega
      simp only [hi, ↓reduceIte, bitAt, h1, h2, List.getD_cons_zero,
        Nat.testBit_eq_decide_div_mod_eq, Nat.shiftRight_eq_div_pow]
      generalize b.toNat / 2 ^ i % 2 = q; cases hq : decide (q = 1) <;> simp_all
    · have h1 : i / 8 = (i - 8) / 8 + 1 := by omega
      have h2 : i % 8 = (i - 8) % 8 := by omega
      simp only [hi, ↓reduceIte, ← ih]
      simp only [bitAt, h1, h2, List.getD_cons_succ]

/-- a non-empty window of at most 32 bits, shifted through any number of zero-input steps, leaves a
    non-zero register -/
theorem burst_nonzero {N K lo : Nat} (hN : N < 2 ^ K) (h0 : N ≠ 0)
    (hb : ∀ i, N.testBit i = true → lo ≤ i ∧ i < lo + 32) : zI K N ≠ 0 := by
  have hM : N >>> lo < 2 ^ 32 := by
    apply Nat.lt_pow_two_of_testBit
    intro i hi
    rw [Nat.testBit_shiftRight]
    cases hc : N.testBit (lo + i) with
    | false => rfl
    | true => have := hb _ hc; omega
  have hmod : N % 2 ^ lo = 0 := by
    apply Nat.eq_of_testBit_eq
    intro i
    rw [Nat.testBit_mod_two_pow, Nat.zero_testBit]
    cases hc : N.testBit i with
    | false => simp
    | true => have := hb _ hc; simp; omega
  have hdec : N = 2 ^ lo * (N >>> lo) := by
    rw [Nat.shiftRight_eq_div_pow]
    have := Nat.div_add_mod N (2 ^ lo)
    omega
  have hM0 : N >>> lo ≠ 0 := by
    intro hz; rw [hz] at hdec; simp at hdec; exact h0 hdec
  obtain ⟨i, hi⟩ := Nat.exists_testBit_of_ne_zero h0
  have hiK : i < K := by
    apply Classical.byContradiction
    intro hge
    have : N < 2 ^ i := Nat.lt_of_lt_of_le hN (Nat.pow_le_pow_right (by decide) (by omega))
    rw [Nat.testBit_lt_two_pow this] at hi
    exact Bool.noConfusion hi
  have hlo := (hb _ hi).1
  have hK : K = lo + (K - lo) := by omega
  rw [hK, zI_add, hdec, zI_pow_mul]
  intro hz
  exact hM0 (zI_eq_zero _ hM hz)

end CrcD

/-! ### 4. bursts of up to 32 bits inside the stored bytes, any length -/

theorem C12_detect_burst (m ep : Bytes) (hl : ep.length = m.length) (hne : 0 < weight ep)
    (hb : burstWithin ep 32) : blockVerifies (xorBytes m ep) (fixed32 (crc32c m)) = false := by
  unfold blockVerifies
  rw [dec32_fixed32' (crc32c_lt m), crc32c_xorBytes _ _ hl]
  apply Bool.eq_false_iff.mpr
  intro h
  rw [beq_iff_eq] at h
  have h1 : crc32c m ^^^ 0 = crc32c m ^^^ crcRaw 0 ep := by rw [Nat.xor_zero]; exact h
  have h2 := ((xor_left_cancel_iff _ _ _).mp h1).symm
  rw [crcRaw_eq_zI, Nat.zero_xor] at h2
  obtain ⟨lo, hlo⟩ := hb
  exact burst_nonzero (leLoad_lt ep) (leLoad_ne_zero hne)
    (fun i hi => hlo i (by rw [bitAt_eq_testBit]; exact hi)) h2

/-- every burst of up to 32 bits anywhere in stored bytes + checksum field (also one that straddles the
    boundary between them) is detected, at any length -/
theorem C12_detect_burst_any (m ep ef : Bytes) (hl : ep.length = m.length) (hf : ef.length = 4)
    (hne : 0 < weight ep + weight ef) (hb : burstWithin (ep ++ ef) 32) :
    blockVerifies (xorBytes m ep) (xorBytes (fixed32 (crc32c m)) ef) = false := by
  apply Bool.eq_false_iff.mpr
  intro h
  have hz := syndrome_zero ep ef hf ((blockVerifies_damaged m ep ef hl hf).mp h)
  have hlt := leLoad_lt (ep ++ ef)
  have hK : 8 * (ep ++ ef).length = 8 * ep.length + 32 := by rw [List.length_append, hf, Nat.mul_add]
  rw [hK] at hlt
  obtain ⟨lo, hlo⟩ := hb
  exact burst_nonzero hlt (leLoad_ne_zero (by rw [weight_append]; exact hne))
    (fun i hi => hlo i (by rw [bitAt_eq_testBit]; exact hi)) hz

/-- damage confined to four consecutive bytes `k .. k+3` of the stored bytes is detected -/
theorem C12_detect_bytes4 (m ep : Bytes) (hl : ep.length = m.length) (hne : 0 < weight ep) (k : Nat)
    (h4 : ∀ j, (j < k ∨ k + 4 ≤ j) → ep.getD j 0 = 0) :
    blockVerifies (xorBytes m ep) (fixed32 (crc32c m)) = false := by
  apply C12_detect_burst m ep hl hne
  refine ⟨8 * k, fun i hi => ?_⟩
  apply Classical.byContradiction
  intro hc
  have hz := h4 (i / 8) (by omega)
  unfold bitAt at hi
  rw [hz] at hi
  simp at hi

namespace CrcD

/-! ### 2^31 - 1 is prime (trial division) -/

/-- no `i` with `2 ≤ i < k` divides `n` -/
def noDivisorBelow (n : Nat) : Nat → Bool
  | 0 => true
  | 1 => true
  | 2 => true
  | k+1 => (n % k != 0) && noDivisorBelow n k

theorem noDivisorBelow_spec (n : Nat) : ∀ k, noDivisorBelow n k = true → ∀ i, 2 ≤ i → i < k → n % i ≠ 0
  | 0, _, i, _, h => by omega
  | 1, _, i, _, h => by omega
  | 2, _, i, _, h => by omega
  | k+3, hk, i, h2, h => by
    have hk : ((n % (k+2) != 0) && noDivisorBelow n (k+2)) = true := hk
    simp only [Bool.and_eq_true, bne_iff_ne] at hk
    by_cases hi : i = k + 2
    · subst hi; exact hk.1
    · exact noDivisorBelow_spec n (k+2) hk.2 i h2 (by omega)

theorem m31_nodiv : noDivisorBelow 2147483647 46342 = true := by decide +kernel

theorem m31_prime {d : Nat} (h : d ∣ 2147483647) : d = 1 ∨ d = 2147483647 := by
  obtain ⟨c, hc⟩ := h
  have small : ∀ x y, x * y = 2147483647 → x < 46342 → x = 1 := by
    intro x y hxy hx
    apply Classical.byContradiction
    intro hne
    have hx0 : x ≠ 0 := by intro h0; rw [h0] at hxy; simp at hxy
    have := noDivisorBelow_spec _ _ m31_nodiv x (by omega) hx
    apply this
    rw [← hxy]; exact Nat.mul_mod_right x y
  by_cases hd : d < 46342
  · exact Or.inl (small d c hc.symm hd)
  · by_cases hc' : c < 46342
    · have := small c d (by rw [Nat.mul_comm]; exact hc.symm) hc'
      subst this
      right; omega
    · have := Nat.mul_le_mul (Nat.le_of_not_lt hd) (Nat.le_of_not_lt hc')
      omega

/-! ### 32×32 matrices over GF(2) as lists of columns -/

def applyL : List Nat → Nat → Nat
  | [], _ => 0
  | c :: cs, v => (if v % 2 = 1 then c else 0) ^^^ applyL cs (v / 2)

def mulM (a b : List Nat) : List Nat := b.map (applyL a)

/-- columns `f (2^i), …, f (2^(i+n-1))` -/
def matFrom (f : Nat → Nat) : Nat → Nat → List Nat
  | _, 0 => []
  | i, n+1 => f (2 ^ i) :: matFrom f (i + 1) n

def sqN (m : List Nat) : Nat → List Nat
  | 0 => m
  | n+1 => mulM (sqN m n) (sqN m n)

theorem z_order_mat : sqN (matFrom crcZ 0 32) 31 = matFrom crcZ 0 32 := by decide +kernel


theorem lin_zero {f : Nat → Nat} (hf : ∀ a b, f (a ^^^ b) = f a ^^^ f b) : f 0 = 0 := by
  have := hf 0 0
  rw [Nat.xor_self] at this
  rw [this, Nat.xor_self]

/-- applying the column list of a GF(2)-linear map -/
theorem applyL_matFrom {f : Nat → Nat} (hf : ∀ a b, f (a ^^^ b) = f a ^^^ f b) (n i v : Nat) :
    applyL (matFrom f i n) v = f (2 ^ i * (v % 2 ^ n)) := by
  induction n generalizing i v with
  | zero => simp [applyL, matFrom, Nat.mod_one, lin_zero hf]
  | succ n ih =>
    simp only [matFrom, applyL, ih]
    have hm : v % 2 ^ (n + 1) = v % 2 + 2 * (v / 2 % 2 ^ n) := by
      rw [Nat.pow_succ, Nat.mul_comm (2 ^ n) 2]; exact Nat.mod_mul
    have hp : 2 ^ (i + 1) = 2 ^ i * 2 := by rw [Nat.pow_succ]
    rcases mod2_cases v with h | h
    · simp only [h, Nat.zero_ne_one, ↓reduceIte, Nat.zero_xor, hm, Nat.zero_add]
      rw [hp, Nat.mul_assoc]
    · simp only [h, ↓reduceIte, hm]
      rw [← hf]
      congr 1
      have := add_eq_xor_low (a := 2 ^ i) (k := i + 1) (Nat.pow_lt_pow_right (by decide) (by omega))
        (v / 2 % 2 ^ n)
      rw [← this, hp, Nat.mul_add, Nat.mul_one, Nat.mul_assoc]

theorem map_apply_matFrom {f g : Nat → Nat} (hf : ∀ a b, f (a ^^^ b) = f a ^^^ f b)
    (hg : ∀ x, x < 2 ^ 32 → g x < 2 ^ 32) (n i : Nat) (hin : i + n ≤ 32) :
    (matFrom g i n).map (applyL (matFrom f 0 32)) = matFrom (fun x => f (g x)) i n := by
  induction n generalizing i with
  | zero => rfl
  | succ n ih =>
    show applyL (matFrom f 0 32) (g (2 ^ i)) :: (matFrom g (i + 1) n).map (applyL (matFrom f 0 32))
      = f (g (2 ^ i)) :: matFrom (fun x => f (g x)) (i + 1) n
    rw [ih (i + 1) (by omega)]
    congr 1
    have hlt : g (2 ^ i) < 2 ^ 32 := hg _ (Nat.pow_lt_pow_right (by decide) (by omega))
    rw [applyL_matFrom hf, Nat.mod_eq_of_lt hlt, Nat.pow_zero, Nat.one_mul]

theorem sqN_mat (k : Nat) : sqN (matFrom crcZ 0 32) k = matFrom (zI (2 ^ k)) 0 32 := by
  induction k with
  | zero => rfl
  | succ k ih =>
    rw [sqN, ih, mulM, map_apply_matFrom (zI_xor _) (fun x hx => zI_lt _ hx) 32 0 (by omega)]
    have : (fun x => zI (2 ^ k) (zI (2 ^ k) x)) = zI (2 ^ (k + 1)) := by
      funext x
      rw [← zI_add, Nat.pow_succ, Nat.mul_two]
    rw [this]

/-- `x^(2^31 - 1) = 1` modulo the CRC-32C polynomial -/
theorem zI_m31_one : zI 2147483647 1 = 1 := by
  have h := z_order_mat
  rw [sqN_mat] at h
  have h0 : zI (2 ^ 31) 1 = crcZ 1 := by
    have := congrArg List.head? h
    simpa [matFrom] using this
  have e : (2 : Nat) ^ 31 = 2147483647 + 1 := by decide
  rw [e, zI_succ'] at h0
  exact crcZ_inj (zI_lt _ (by decide)) (by decide) h0

/-! ### the order of `x` is exactly 2^31 - 1 -/

theorem per_mul {a : Nat} (ha : zI a 1 = 1) (q : Nat) : zI (a * q) 1 = 1 := by
  induction q with
  | zero => rfl
  | succ q ih => rw [Nat.mul_succ, zI_add, ih, ha]

theorem per_mod {a b : Nat} (ha : zI a 1 = 1) (hb : zI b 1 = 1) : zI (b % a) 1 = 1 := by
  have := Nat.div_add_mod b a
  rw [← this, zI_add, per_mul ha] at hb
  exact hb

theorem per_gcd (a b : Nat) : zI a 1 = 1 → zI b 1 = 1 → zI (Nat.gcd a b) 1 = 1 := by
  induction a, b using Nat.gcd.induction with
  | H0 n => intro _ h; rwa [Nat.gcd_zero_left]
  | H1 m n _ ih =>
    intro hm hn
    rw [Nat.gcd_rec]
    exact ih (per_mod hm hn) hm

theorem zI_one_ne_one {d : Nat} (h0 : 0 < d) (hd : d < 2147483647) : zI d 1 ≠ 1 := by
  intro h
  have hg := per_gcd d 2147483647 h zI_m31_one
  have h1 : Nat.gcd d 2147483647 ∣ d := Nat.gcd_dvd_left _ _
  have h2 : Nat.gcd d 2147483647 ∣ 2147483647 := Nat.gcd_dvd_right _ _
  have hle := Nat.le_of_dvd h0 h1
  rcases m31_prime h2 with h3 | h3
  · rw [h3] at hg
    revert hg
    decide
  · omega

/-! ### shapes of small-weight numbers -/

theorem pc_one {x : Nat} (h : pc x = 1) : ∃ a, x = 2 ^ a := by
  induction x using Nat.strongRecOn with
  | _ x ih =>
    rw [pc_eq] at h
    rcases mod2_cases x with h2 | h2
    · have hx : x ≠ 0 := by intro h0; subst h0; simp [pc_zero] at h
      obtain ⟨a, ha⟩ := ih (x / 2) (by omega) (by omega)
      exact ⟨a + 1, by rw [Nat.pow_succ]; omega⟩
    · have := pc_eq_zero (x := x / 2) (by omega)
      exact ⟨0, by simp; omega⟩

theorem pc_two {x : Nat} (h : pc x = 2) : ∃ a b, a < b ∧ x = 2 ^ a + 2 ^ b := by
  induction x using Nat.strongRecOn with
  | _ x ih =>
    rw [pc_eq] at h
    rcases mod2_cases x with h2 | h2
    · have hx : x ≠ 0 := by intro h0; subst h0; simp [pc_zero] at h
      obtain ⟨a, b, hab, hx2⟩ := ih (x / 2) (by omega) (by omega)
      exact ⟨a + 1, b + 1, by omega, by rw [Nat.pow_succ, Nat.pow_succ]; omega⟩
    · obtain ⟨a, ha⟩ := pc_one (x := x / 2) (by omega)
      exact ⟨0, a + 1, by omega, by rw [Nat.pow_succ]; simp; omega⟩

theorem zI_two_pow {K a : Nat} (h : a ≤ K) : zI K (2 ^ a) = zI (K - a) 1 := by
  have hK : K = a + (K - a) := by omega
  have := zI_pow_mul a 1
  rw [Nat.mul_one] at this
  rw [hK, zI_add, this]
  congr 1
  omega

/-- two set bits closer than the order of `x` never cancel -/
theorem two_bits_nonzero {K a b : Nat} (hab : a < b) (hb : b < K) (hd : b - a < 2147483647) :
    zI K (2 ^ a + 2 ^ b) ≠ 0 := by
  have hx := add_eq_xor_low (a := 2 ^ a) (k := b) (Nat.pow_lt_pow_right (by decide) hab) 1
  rw [Nat.mul_one] at hx
  rw [hx, zI_xor, zI_two_pow (by omega : a ≤ K), zI_two_pow (by omega : b ≤ K)]
  intro h
  have h1 := eq_of_xor_eq_zero h
  have hK : K - a = (b - a) + (K - b) := by omega
  rw [hK, zI_add] at h1
  have := zI_inj _ (zI_lt _ (by decide)) (by decide) h1
  exact zI_one_ne_one (by omega) hd this

end CrcD

/-! ### 6. two flipped bits anywhere in payload + field -/

theorem C12_detect_two (m ep ef : Bytes) (hl : ep.length = m.length) (hf : ef.length = 4)
    (hw : weight ep + weight ef = 2) (hlen : 8 * m.length + 32 < 2^31 - 1) :
    blockVerifies (xorBytes m ep) (xorBytes (fixed32 (crc32c m)) ef) = false := by
  apply Bool.eq_false_iff.mpr
  intro h
  have hz := syndrome_zero ep ef hf ((blockVerifies_damaged m ep ef hl hf).mp h)
  have hpc : pc (leLoad (ep ++ ef)) = 2 := by rw [pc_leLoad, weight_append, hw]
  have hlt := leLoad_lt (ep ++ ef)
  obtain ⟨a, b, hab, hx⟩ := pc_two hpc
  have hK : 8 * (ep ++ ef).length = 8 * ep.length + 32 := by rw [List.length_append, hf, Nat.mul_add]
  rw [hK, hx] at hlt
  have hb : b < 8 * ep.length + 32 := by
    apply (Nat.pow_lt_pow_iff_right (a := 2) (by decide)).mp
    have : 0 < 2 ^ a := Nat.pow_pos (by decide)
    omega
  rw [hx] at hz
  rw [hl] at hz hb
  exact two_bits_nonzero hab hb (by omega) hz

/-! ### 7. one, two or three flipped bits anywhere in payload + field -/

theorem C12_detect_weight (m ep ef : Bytes) (hl : ep.length = m.length) (hf : ef.length = 4)
    (hw : 0 < weight ep + weight ef) (hw3 : weight ep + weight ef ≤ 3)
    (hlen : 8 * m.length + 32 < 2^31 - 1) :
    blockVerifies (xorBytes m ep) (xorBytes (fixed32 (crc32c m)) ef) = false := by
  by_cases h2 : weight ep + weight ef = 2
  · exact C12_detect_two m ep ef hl hf h2 hlen
  · exact C12_detect_odd m ep ef hl hf (by omega)

/-! ### 8. non-vacuity -/

/-- one flipped bit in a 5-byte payload -/
example : blockVerifies (xorBytes [1, 2, 3, 4, 5] [0, 0, 0x10, 0, 0]) (fixed32 (crc32c [1, 2, 3, 4, 5])) = false := by
  decide +kernel

example : weight [0, 0, 0x10, 0, 0] = 1 := by decide

/-- two flipped bits, one in the payload and one in the checksum field -/
example : blockVerifies (xorBytes [1, 2, 3, 4, 5] [0, 0, 0, 0, 0x80])
    (xorBytes (fixed32 (crc32c [1, 2, 3, 4, 5])) [0x01, 0, 0, 0]) = false := by
  decide +kernel

example : weight [0, 0, 0, 0, 0x80] + weight [0x01, 0, 0, 0] = 2 := by decide

/-- a burst covering 4 bytes (not byte-aligned) -/
example : blockVerifies (xorBytes [1, 2, 3, 4, 5, 6] [0, 0xF0, 0xA5, 0x3C, 0x0F, 0])
    (fixed32 (crc32c [1, 2, 3, 4, 5, 6])) = false := by
  decide +kernel

/-- the undamaged block is accepted (so the `false`s above are not an artefact of the test) -/
example : blockVerifies [1, 2, 3, 4, 5] (fixed32 (crc32c [1, 2, 3, 4, 5])) = true := by decide +kernel

/-- the hypotheses of the general theorems are satisfiable: instances of 4, 6 -/
example : blockVerifies (xorBytes [1, 2, 3, 4, 5, 6] [0, 0xF0, 0xA5, 0x3C, 0x0F, 0])
    (fixed32 (crc32c [1, 2, 3, 4, 5, 6])) = false :=
  C12_detect_burst _ _ rfl (by decide) ⟨12, by
    intro i hi
    apply Classical.byContradiction
    intro hc
    have : i < 12 ∨ 44 ≤ i := by omega
    rcases this with h | h
    · have : ∀ j, j < 12 → bitAt [0, 0xF0, 0xA5, 0x3C, 0x0F, 0] j = false := by decide
      rw [this i h] at hi; exact Bool.noConfusion hi
    · have h8 : 5 ≤ i / 8 := by omega
      unfold bitAt at hi
      have : ([0, 0xF0, 0xA5, 0x3C, 0x0F, 0] : Bytes).getD (i / 8) 0 = 0 := by
        rcases Nat.lt_or_ge (i / 8) 6 with h6 | h6
        · have : i / 8 = 5 := by omega
          rw [this]; rfl
        · rw [List.getD_eq_getElem?_getD, List.getElem?_eq_none (by simpa using h6)]; rfl
      rw [this] at hi
      simp at hi⟩

example : blockVerifies (xorBytes [1, 2, 3, 4, 5] [0, 0, 0, 0, 0x80])
    (xorBytes (fixed32 (crc32c [1, 2, 3, 4, 5])) [0x01, 0, 0, 0]) = false :=
  C12_detect_two _ _ _ rfl rfl (by decide) (by decide)

end Mtbl
