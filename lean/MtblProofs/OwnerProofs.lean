import MtblModel.Generated.OwnerSites
/-
  C14, static part (ii) and (iv): who touches which field of a pooled writer / sorter, and who writes the CRC function
  pointer.  The tables are REGENERATED FROM THE C SOURCE on every run (translators/owner_sites.py):
  `Mtbl.Generated.writerSites`, `sorterSites` (every access to a field of struct mtbl_writer / mtbl_sorter, in source
  order per function, with the `if (x->pool != NULL)` branch it sits in and markers for result_handler_destroy calls and
  calls of other functions of the file) and `crcPointerWrites`.

  The discipline that makes the pooled writer and sorter race free, given the pool's own hand-off (C14_norace):
    * the function run by the RESULT HANDLER thread (`_mtbl_writer_write_data_block`, `_collect_readers_cb`) and the
      functions run by the CALLER before the handler is joined (`mtbl_writer_add`, `_mtbl_writer_flush`; `mtbl_sorter_add`,
      `_mtbl_sorter_flush`, `_mtbl_sorter_get_entry_batch`, `mtbl_sorter_write`) touch disjoint fields, except fields that
      are written only by the constructor (`fd`) — accesses inside an `else` of `if (pool != NULL)` run only without a pool;
    * the functions run by WORKER threads read only constructor-written fields (`opt.*`);
    * every function that touches the handler's fields from the caller side does so only after `result_handler_destroy`
      (the join), in source order;
    * every function that touches the object at all is classified here — a new one makes `*_classified` fail.
-/
namespace Mtbl.Owner
open Mtbl.Generated

def isMarker (s : Site) : Bool := s.obj == "marker"
def ctx (s : Site) : String := s.locks.headD ""

structure Roles where
  ctor : List String        -- run before the object is shared
  handler : List String     -- run by the result-handler thread (pooled) or by the caller (no pool)
  worker : List String      -- run by pool workers
  callerPre : List String   -- run by the caller while jobs may be in flight
  postJoin : List String    -- join the handler themselves (or are only called after the join) before touching its fields
  immutable : List String   -- fields written by the constructor only

def writerRoles : Roles :=
  { ctor := ["mtbl_writer_init_fd", "mtbl_writer_init"],
    handler := ["_mtbl_writer_write_data_block"],
    worker := [],
    callerPre := ["mtbl_writer_add", "_mtbl_writer_flush"],
    postJoin := ["_mtbl_writer_finish", "mtbl_writer_destroy"],
    immutable := ["fd", "opt", "opt.compression_type", "opt.compression_level", "opt.block_size",
                  "opt.block_restart_interval", "opt.pool", "pool", "m.file_version"] }

def sorterRoles : Roles :=
  { ctor := ["mtbl_sorter_init"],
    handler := ["_collect_readers_cb"],
    worker := ["_mtbl_sorter_write_chunk"],
    callerPre := ["mtbl_sorter_add", "_mtbl_sorter_flush", "_mtbl_sorter_get_entry_batch", "mtbl_sorter_write"],
    postJoin := ["mtbl_sorter_iter", "mtbl_sorter_destroy"],
    immutable := ["opt", "opt.tmp_dname", "opt.merge", "opt.merge_clos", "opt.max_memory", "opt.pool", "pool"] }

/-- every function that touches the object has a role -/
def classified (r : Roles) (sites : List Site) : Bool :=
  sites.all fun s => (r.ctor ++ r.handler ++ r.worker ++ r.callerPre ++ r.postJoin).contains s.fn

/-- fields the handler thread touches (read or write: several are pointers to containers it mutates) -/
def handlerFields (r : Roles) (sites : List Site) : List String :=
  (sites.filter fun s => r.handler.contains s.fn && !isMarker s).map (·.field)

/-- handler vs caller-before-join: a common field must be constructor-written only and read by both -/
def partitioned (r : Roles) (sites : List Site) : Bool :=
  sites.all fun a => !(r.handler.contains a.fn && !isMarker a) ||
    sites.all fun b => !(r.callerPre.contains b.fn && !isMarker b && ctx b != "nopool") ||
      a.field != b.field || (r.immutable.contains a.field && !a.write && !b.write)

/-- immutable fields are written by constructors only; workers only read immutable fields -/
def immutableOk (r : Roles) (sites : List Site) : Bool :=
  (sites.all fun s => !(r.immutable.contains s.field && s.write) || r.ctor.contains s.fn) &&
  (sites.all fun s => !(r.worker.contains s.fn && !isMarker s) || (r.immutable.contains s.field && !s.write))

/-- in `fn`, no handler field is touched before the first marker `mark` -/
def afterMarker (r : Roles) (sites : List Site) (fn mark : String) : Bool :=
  let own := sites.filter (·.fn == fn)
  own.any (·.field == mark) &&
  (own.takeWhile (·.field != mark)).all fun s => isMarker s || !(handlerFields r sites).contains s.field

theorem writer_classified : classified writerRoles writerSites = true := by decide
theorem writer_partitioned : partitioned writerRoles writerSites = true := by decide
theorem writer_immutable : immutableOk writerRoles writerSites = true := by decide
theorem writer_finish_joins_first : afterMarker writerRoles writerSites "_mtbl_writer_finish" "<join>" = true := by decide
theorem writer_destroy_finishes_first :
    afterMarker writerRoles writerSites "mtbl_writer_destroy" "<call:_mtbl_writer_finish>" = true := by decide

theorem sorter_classified : classified sorterRoles sorterSites = true := by decide
theorem sorter_partitioned : partitioned sorterRoles sorterSites = true := by decide
theorem sorter_immutable : immutableOk sorterRoles sorterSites = true := by decide
theorem sorter_iter_joins_first : afterMarker sorterRoles sorterSites "mtbl_sorter_iter" "<join>" = true := by decide
theorem sorter_destroy_joins_first : afterMarker sorterRoles sorterSites "mtbl_sorter_destroy" "<join>" = true := by decide

/-- the handler does touch something on both objects (the tables are not vacuous) -/
theorem handler_fields_nonempty :
    (handlerFields writerRoles writerSites).contains "pending_offset" = true ∧
    (handlerFields sorterRoles sorterSites).contains "readers" = true := by decide

/-- the CRC implementation pointer is assigned only by the detection function (a constructor, so before main; the
    first-call fallback `my_crc32c_first` calls the same function and stores the same value), and only to one of the two
    implementations -/
theorem crc_pointer_single_writer :
    crcDetectionIsConstructor = true ∧
    crcPointerWrites.all (fun w => (w.2.1 == "<init>" && w.2.2 == "my_crc32c_first") ||
      (w.1 == "libmy/crc32c.c" && w.2.1 == "my_crc32c_runtime_detection" &&
        (w.2.2 == "my_crc32c_sse42" || w.2.2 == "my_crc32c_slicing"))) = true := by decide

/-- the wake-up structure of threadpool.c as the proofs assume it: in particular the result handler signals `pool->c` after
    EVERY push onto the idle list (no enclosing condition) — the hypothesis of `TpShare.share_no_lost_wakeup` and of the
    single-client machine's `giveBack` step; the worker's and the dispatcher's queue signals sit under the
    unordered / ordered tests, everything else is unconditional -/
theorem signal_sites_as_modelled :
    signalSites = [("thread_worker", "rq", "if (rq != NULL)"), ("thread_worker", "thr", "else"),
                   ("threadpool_dispatch", "thr", ""), ("threadpool_dispatch", "rq", "if (ordered)"),
                   ("threadpool_destroy", "thr", "while (pool->count > 0)"), ("resultq_next", "pool", ""),
                   ("resultq_finish", "rq", "")] := by decide

/-- every `pthread_cond_signal(&x->c)` of threadpool.c is issued while the calling thread holds `x->m`, the mutex of the same
    object: the signal cannot overtake the release of the mutex, so the thread it wakes — which may go on to destroy the
    condition variable and free the object (`resultq_destroy`, `thread_destroy`) — cannot do so before the signal call has
    been made (the machines model a signal as part of the critical section it sits in) -/
theorem signals_under_their_mutex :
    signalLocks.length = signalSites.length ∧
    signalLocks.all (fun s => s.2.2.contains s.2.1) = true ∧
    signalLocks.map (fun s => (s.1, s.2.1)) = signalSites.map (fun s => (s.1, s.2.1)) := by decide

end Mtbl.Owner
