import MtblModel.Generated.AccessSites
import MtblModel.Tp
/-
  C14, the tie between mtbl/threadpool.c and the access labels of the machine (MtblModel/Tp.lean: `accesses`).

  `Mtbl.Generated.accessSites` is regenerated from the C source on every run (translators/access_sites.py): every access
  to a field of struct thread / resultq / threadpool / result_handler, whether it writes, and the mutexes held there.
  `declared` is the hand-written table that assigns each such site to the step of the machine that performs it.
    * `sites_declared`   : every extracted site is in the table — a new access, an access that became a write, or an
                            access that moved out of (or into) a critical section makes this fail.
    * `declared_in_model`: every site assigned to a machine step is among the accesses the machine declares for that step,
                            with exactly the lock set extracted from the C code (checked on a witness state per step kind,
                            thread id 0; the machine's labels are uniform in the thread id).
  Together with `C14_norace` (no reachable state has two enabled conflicting steps with disjoint lock sets) this ties the
  race-freedom theorem to the code as written.  Sites tagged `immutable` are fields written only before the object is
  published (`max`, `thread.pool`, the result handler's fields; publication is by pthread_create / the idle list under
  the pool mutex); `setup`/`teardown` are the constructors and `resultq_destroy`, which runs in the handler thread after
  `finished && nthreads == 0 && head == NULL` was observed under the queue mutex (no other thread touches the queue
  afterwards: the caller is in pthread_join).  These three classes are argued here, not in the machine.
-/
namespace Tp.C14
open Mtbl.Generated Tp

inductive Tag
  | immutable | setup | teardown
  | workerTop | workerJob | workerSelfEnq | workerDoneOrd
  | callerNextIdle | callerNextGrow | callerAssign | callerEnqueue | callerFinish
  | callerDestroy | callerKill | callerJoinW
  | handlerDeq | handlerWaitRes | handlerGiveBack
deriving DecidableEq, Repr

def declared : List (Site × Tag) := [
  (⟨"thread_worker", "thread", "running", false, ["thr"]⟩, .workerTop),
  (⟨"thread_worker", "thread", "cb", false, []⟩, .workerJob),
  (⟨"thread_worker", "thread", "res", true, []⟩, .workerJob),
  (⟨"thread_worker", "thread", "arg", false, []⟩, .workerJob),
  (⟨"thread_worker", "thread", "cb", true, []⟩, .workerJob),
  (⟨"thread_worker", "thread", "arg", true, []⟩, .workerJob),
  (⟨"thread_worker", "thread", "rq", false, []⟩, .workerJob),
  (⟨"thread_worker", "thread", "rq", true, []⟩, .workerJob),
  (⟨"thread_worker", "thread", "running", true, []⟩, .workerJob),
  (⟨"thread_worker", "resultq", "ptail", false, ["rq"]⟩, .workerSelfEnq),
  (⟨"thread_worker", "resultq", "*ptail", true, ["rq"]⟩, .workerSelfEnq),
  (⟨"thread_worker", "resultq", "ptail", true, ["rq"]⟩, .workerSelfEnq),
  (⟨"thread_worker", "thread", "running", true, ["thr"]⟩, .workerDoneOrd),
  (⟨"threadpool_init", "threadpool", "max", true, []⟩, .immutable),
  (⟨"threadpool_next", "threadpool", "head", false, ["pool"]⟩, .callerNextIdle),
  (⟨"threadpool_next", "threadpool", "count", false, ["pool"]⟩, .callerNextGrow),
  (⟨"threadpool_next", "threadpool", "max", false, ["pool"]⟩, .immutable),
  (⟨"threadpool_next", "threadpool", "head", true, ["pool"]⟩, .callerNextIdle),
  (⟨"threadpool_next", "thread", "next", false, ["pool"]⟩, .callerNextIdle),
  (⟨"threadpool_next", "thread", "next", true, ["pool"]⟩, .callerNextIdle),
  (⟨"threadpool_next", "thread", "cb", false, ["pool"]⟩, .callerNextIdle),
  (⟨"threadpool_next", "thread", "res", false, ["pool"]⟩, .callerNextIdle),
  (⟨"threadpool_next", "thread", "running", false, ["pool"]⟩, .callerNextIdle),
  (⟨"threadpool_next", "threadpool", "count", true, ["pool"]⟩, .callerNextGrow),
  (⟨"threadpool_next", "thread", "pool", true, []⟩, .immutable),
  (⟨"threadpool_dispatch", "result_handler", "rq", false, []⟩, .immutable),
  (⟨"threadpool_dispatch", "thread", "running", false, []⟩, .callerAssign),
  (⟨"threadpool_dispatch", "thread", "next", false, []⟩, .callerAssign),
  (⟨"threadpool_dispatch", "thread", "rq", true, ["thr"]⟩, .callerAssign),
  (⟨"threadpool_dispatch", "thread", "cb", true, ["thr"]⟩, .callerAssign),
  (⟨"threadpool_dispatch", "thread", "arg", true, ["thr"]⟩, .callerAssign),
  (⟨"threadpool_dispatch", "thread", "running", true, ["thr"]⟩, .callerAssign),
  (⟨"threadpool_dispatch", "resultq", "finished", false, ["rq"]⟩, .callerEnqueue),
  (⟨"threadpool_dispatch", "resultq", "nthreads", false, ["rq"]⟩, .callerEnqueue),
  (⟨"threadpool_dispatch", "resultq", "nthreads", true, ["rq"]⟩, .callerEnqueue),
  (⟨"threadpool_dispatch", "resultq", "ptail", false, ["rq"]⟩, .callerEnqueue),
  (⟨"threadpool_dispatch", "resultq", "*ptail", true, ["rq"]⟩, .callerEnqueue),
  (⟨"threadpool_dispatch", "resultq", "ptail", true, ["rq"]⟩, .callerEnqueue),
  (⟨"threadpool_destroy", "threadpool", "count", false, ["pool"]⟩, .callerDestroy),
  (⟨"threadpool_destroy", "threadpool", "head", false, ["pool"]⟩, .callerDestroy),
  (⟨"threadpool_destroy", "threadpool", "head", true, ["pool"]⟩, .callerDestroy),
  (⟨"threadpool_destroy", "thread", "next", false, ["pool"]⟩, .callerDestroy),
  (⟨"threadpool_destroy", "thread", "cb", false, ["pool"]⟩, .callerDestroy),
  (⟨"threadpool_destroy", "thread", "running", true, ["pool", "thr"]⟩, .callerKill),
  (⟨"threadpool_destroy", "threadpool", "count", true, ["pool"]⟩, .callerJoinW),
  (⟨"resultq_init", "resultq", "ptail", true, []⟩, .setup),
  (⟨"resultq_next", "resultq", "head", false, ["rq"]⟩, .handlerDeq),
  (⟨"resultq_next", "resultq", "finished", false, ["rq"]⟩, .handlerDeq),
  (⟨"resultq_next", "resultq", "nthreads", false, ["rq"]⟩, .handlerDeq),
  (⟨"resultq_next", "resultq", "head", true, ["rq"]⟩, .handlerDeq),
  (⟨"resultq_next", "thread", "next", false, ["rq"]⟩, .handlerDeq),
  (⟨"resultq_next", "thread", "next", true, ["rq"]⟩, .handlerDeq),
  (⟨"resultq_next", "resultq", "nthreads", true, ["rq"]⟩, .handlerDeq),
  (⟨"resultq_next", "resultq", "ptail", true, ["rq"]⟩, .handlerDeq),
  (⟨"resultq_next", "thread", "running", false, ["thr"]⟩, .handlerWaitRes),
  (⟨"resultq_next", "thread", "res", false, ["thr"]⟩, .handlerWaitRes),
  (⟨"resultq_next", "thread", "res", true, ["thr"]⟩, .handlerWaitRes),
  (⟨"resultq_next", "thread", "pool", false, []⟩, .immutable),
  (⟨"resultq_next", "thread", "next", true, ["pool"]⟩, .handlerGiveBack),
  (⟨"resultq_next", "thread", "pool", false, ["pool"]⟩, .immutable),
  (⟨"resultq_next", "threadpool", "head", false, ["pool"]⟩, .handlerGiveBack),
  (⟨"resultq_next", "threadpool", "head", true, ["pool"]⟩, .handlerGiveBack),
  (⟨"resultq_finish", "resultq", "finished", true, ["rq"]⟩, .callerFinish),
  (⟨"resultq_destroy", "resultq", "head", false, []⟩, .teardown),
  (⟨"resultq_destroy", "resultq", "finished", false, []⟩, .teardown),
  (⟨"resultq_destroy", "resultq", "nthreads", false, []⟩, .teardown),
  (⟨"result_worker", "result_handler", "rq", false, []⟩, .immutable),
  (⟨"result_worker", "result_handler", "cb", false, []⟩, .immutable),
  (⟨"result_worker", "result_handler", "cbdata", false, []⟩, .immutable),
  (⟨"result_handler_init", "result_handler", "rq", true, []⟩, .immutable),
  (⟨"result_handler_init", "result_handler", "cb", true, []⟩, .immutable),
  (⟨"result_handler_init", "result_handler", "cbdata", true, []⟩, .immutable),
  (⟨"result_handler_destroy", "result_handler", "rq", false, []⟩, .immutable)
]

/-- struct field ↦ location of the machine (thread id 0); `none` = not a shared mutable location of the machine -/
def locOf (obj field : String) : Option Loc :=
  if obj == "thread" then
    if field == "running" then some (.thrRunning 0)
    else if field == "cb" || field == "arg" then some (.thrCb 0)
    else if field == "res" then some (.thrRes 0)
    else if field == "rq" then some (.thrRq 0)
    else if field == "next" then some (.thrNext 0)
    else none
  else if obj == "threadpool" then
    if field == "head" then some .poolHead else if field == "count" then some .poolCount else none
  else if obj == "resultq" then
    if field == "head" || field == "ptail" || field == "*ptail" then some .rqHead
    else if field == "nthreads" then some .rqNthreads
    else if field == "finished" then some .rqFinished
    else none
  else none

def lockOf (l : String) : Lock := if l == "pool" then .pool else if l == "rq" then .rq else .thr 0

/-- a state in which the tagged step is the next one of its thread (thread 0 where a thread is involved) -/
def witness : Tag → Option (St × Who)
  | .workerTop => some ({ max := 1, njobs := 1, ordered := true, thr := #[{ pc := .top false }] }, .worker 0)
  | .workerJob => some ({ max := 1, njobs := 1, ordered := false, thr := #[{ pc := .gotJob, cb := some 0, rq := true, running := true }] }, .worker 0)
  | .workerSelfEnq => some ({ max := 1, njobs := 1, ordered := false, thr := #[{ pc := .selfEnq }] }, .worker 0)
  | .workerDoneOrd => some ({ max := 1, njobs := 1, ordered := true, thr := #[{ pc := .doneOrd, running := true }] }, .worker 0)
  | .callerNextIdle => some ({ max := 1, njobs := 1, ordered := true, thr := #[{}], idle := [0], count := 1, cpc := .next false }, .caller)
  | .callerNextGrow => some ({ max := 1, njobs := 1, ordered := true, cpc := .next false }, .caller)
  | .callerAssign => some ({ max := 1, njobs := 1, ordered := true, thr := #[{}], count := 1, cpc := .assign 0 }, .caller)
  | .callerEnqueue => some ({ max := 1, njobs := 1, ordered := true, thr := #[{}], count := 1, cpc := .enqueue 0 }, .caller)
  | .callerFinish => some ({ max := 1, njobs := 0, ordered := true, cpc := .finish }, .caller)
  | .callerDestroy => some ({ max := 1, njobs := 0, ordered := true, thr := #[{}], idle := [0], count := 1, cpc := .destroy false, hpc := .exited }, .caller)
  | .callerKill => some ({ max := 1, njobs := 0, ordered := true, thr := #[{}], count := 1, cpc := .kill 0, hpc := .exited }, .caller)
  | .callerJoinW => some ({ max := 1, njobs := 0, ordered := true, thr := #[{ pc := .exited }], count := 1, cpc := .joinW 0, hpc := .exited }, .caller)
  | .handlerDeq => some ({ max := 1, njobs := 1, ordered := true, thr := #[{}], queue := [0], count := 1 }, .handler)
  | .handlerWaitRes => some ({ max := 1, njobs := 1, ordered := true, thr := #[{}], count := 1, hpc := .waitRes 0 false }, .handler)
  | .handlerGiveBack => some ({ max := 1, njobs := 1, ordered := true, thr := #[{}], count := 1, hpc := .giveBack 0 none }, .handler)
  | _ => none

def siteInModel (s : Site) (t : Tag) : Bool :=
  match witness t, locOf s.obj s.field with
  | some (st, w), some loc => (accesses st w).contains { loc := loc, write := s.write, locks := s.locks.map lockOf }
  | none, none => true                     -- immutable / setup / teardown sites of non-machine fields
  | none, some _ => t == .setup || t == .teardown
  | some _, none => false

/-- every access site extracted from the current mtbl/threadpool.c is one the table declares -/
theorem sites_declared : accessSites.all (fun s => declared.any (fun d => d.1 == s)) = true := by decide

/-- every declared site of a machine step is one of the accesses the machine labels that step with, under exactly the
    mutexes held in the C code -/
theorem declared_in_model : declared.all (fun d => siteInModel d.1 d.2) = true := by decide

/-- the locking discipline, read off the table: a shared mutable field of the pool is touched only under the pool mutex,
    one of the result queue only under the queue mutex (outside constructors / the final destroy) -/
theorem pool_fields_locked : declared.all (fun d =>
    !(d.1.obj == "threadpool" && (d.1.field == "head" || d.1.field == "count")) || d.1.locks.contains "pool" || d.2 == .setup) = true := by decide
theorem queue_fields_locked : declared.all (fun d =>
    !(d.1.obj == "resultq") || d.1.locks.contains "rq" || d.2 == .setup || d.2 == .teardown) = true := by decide

/-! ### the reader is immutable after open; iterators own their state (mtbl/reader.c, mtbl/block.c)

  `Mtbl.Generated.readerWrites` lists every assignment to a field of struct mtbl_reader / reader_iter / block /
  block_iter in the two files.  A field of the reader or of a decoded block (the shared index block among them) is
  assigned only by the constructors; everything an iterator operation assigns belongs to the iterator itself (a
  `reader_iter` or a `block_iter`, each owned by exactly one iterator).  So threads that work on one open reader through
  their own iterators write disjoint objects and only read the reader. -/
def readerCtors : List String := ["mtbl_reader_init_fd", "mtbl_reader_destroy", "block_init", "block_destroy"]

theorem reader_immutable : readerWrites.all (fun s =>
    s.obj == "reader_iter" || s.obj == "block_iter" || readerCtors.contains s.fn) = true := by decide

/-- the table is not empty and does contain iterator-state writes in the iterator operations (non-vacuity) -/
theorem reader_sites_nontrivial :
    readerWrites.any (fun s => s.fn == "reader_iter_next" && s.obj == "reader_iter") = true ∧
    readerWrites.any (fun s => s.fn == "mtbl_reader_init_fd" && s.obj == "mtbl_reader") = true ∧
    readerWrites.any (fun s => s.fn == "parse_next_key" && s.obj == "block_iter") = true := by decide

end Tp.C14
