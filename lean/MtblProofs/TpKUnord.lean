import MtblProofs.TpKOrder
import MtblProofs.TpKWake
/-
  The k-client pool machine, UNORDERED delivery (the mode pooled sorters use): for every client and every job number, the
  result is in exactly one place — delivered, in the handler's hands, on a thread in the client's result queue, or on a worker
  still carrying it — if the job has been dispatched, and nowhere otherwise; nothing else is ever delivered.  Consequences:
  each client is delivered every result at most once, only results of its own jobs, and all of them by the time its thread
  has returned (as a permutation of the submissions).  For every number of clients sharing the pool and every schedule.
-/
set_option linter.unusedSimpArgs false
namespace TpK

/-- worker record `th` carries job `x` of client `c` (dispatched unordered, not yet in c's queue) -/
def wj (c : Nat) (x : Option Nat) (th : Thr) : Nat :=
  if (th.rq = some c ∨ th.pc = .selfEnq c) ∧ jobOf th = x then 1 else 0

/-- in how many places result `x` of client `c` is -/
def cntU (s : St) (c : Nat) (x : Option Nat) : Nat :=
  s.cl[c]!.delivered.count x + (hJob s.thr s.cl[c]!.hpc).count x +
    (s.cl[c]!.queue.map fun t => jobOf s.thr[t]!).count x + sumA s.thr (wj c x)

def want (cl : Client) (x : Option Nat) : Nat := match x with
  | some j => if j < cl.nextJob + pend cl.pc then 1 else 0
  | none => 0

structure UInv (s : St) : Prop where
  cnt : ∀ (c : Nat) (x : Option Nat), cntU s c x = want s.cl[c]! x
  wf : ∀ (t c : Nat), (s.thr[t]!.rq = some c ∨ s.thr[t]!.pc = .selfEnq c) → c < s.cl.size ∧ s.cl[c]!.pc ≠ .idle

def UOrd (s : St) : Prop := s.ordered = false → UInv s

theorem sumA_push {α : Type} (a : Array α) (x : α) (f : α → Nat) : sumA (a.push x) f = sumA a f + f x := by
  simp [sumA]

theorem wj_default (c : Nat) (x : Option Nat) : wj c x (default : Thr) = 0 := by
  have h1 : (default : Thr).rq = none := rfl
  have h2 : (default : Thr).pc = .top false := rfl
  simp [wj, h1, h2]

/-- the client-record part of the count -/
def cntCl (thr : Array Thr) (cl : Client) (x : Option Nat) : Nat :=
  cl.delivered.count x + (hJob thr cl.hpc).count x + (cl.queue.map fun t => jobOf thr[t]!).count x

theorem cntU_eq (s : St) (c : Nat) (x : Option Nat) : cntU s c x = cntCl s.thr s.cl[c]! x + sumA s.thr (wj c x) := rfl

/-- the record part depends only on the jobs of the threads in the queue and in the handler's hands -/
theorem cntCl_congr (thr thr' : Array Thr) (cl : Client) (x : Option Nat)
    (hq : ∀ t ∈ cl.queue, jobOf thr'[t]! = jobOf thr[t]!) (hh : ∀ t a, cl.hpc = .waitRes t a → jobOf thr'[t]! = jobOf thr[t]!) :
    cntCl thr' cl x = cntCl thr cl x := by
  unfold cntCl
  have h1 : cl.queue.map (fun t => jobOf thr'[t]!) = cl.queue.map (fun t => jobOf thr[t]!) := List.map_congr_left hq
  have h2 : hJob thr' cl.hpc = hJob thr cl.hpc := by
    cases hp : cl.hpc with
    | waitRes t a => simp only [hJob]; rw [hh t a hp]
    | _ => rfl
  rw [h1, h2]

theorem cntCl_wakeH (thr : Array Thr) (t : Nat) (cl : Client) (x : Option Nat) : cntCl thr (wakeH t cl) x = cntCl thr cl x := by
  unfold cntCl
  have h1 : (wakeH t cl).delivered = cl.delivered := by
    unfold wakeH; split
    · split <;> rfl
    · rfl
  have h2 : hJob thr (wakeH t cl).hpc = hJob thr cl.hpc := by
    unfold wakeH; split
    · rename_i t' hh
      split
      · rename_i ht; rw [hh]; subst ht; rfl
      · rfl
    · rfl
  rw [h1, h2, wakeH_queue]

theorem want_wakeH (t : Nat) (cl : Client) (x : Option Nat) : want (wakeH t cl) x = want cl x := by
  have h3 : (wakeH t cl).nextJob = cl.nextJob := by
    unfold wakeH; split
    · split <;> rfl
    · rfl
  unfold want; rw [wakeH_pc, h3]


theorem sumA_setThr (s : St) (t : Nat) (g : Thr → Thr) (f : Thr → Nat) :
    sumA (setThr s t g).thr f + (if t < s.thr.size then f s.thr[t]! else 0) =
    sumA s.thr f + (if t < s.thr.size then f (g s.thr[t]!) else 0) := by
  show sumA (s.thr.modify t g) f + _ = _
  split
  · rename_i ht; exact sumA_modify s.thr t g f ht
  · rename_i ht; rw [sumA_modify_oob _ _ _ _ ht]

/-- a thread's record changes, its job and whom it works for do not -/
theorem uinv_setThr {s : St} (t : Nat) (g : Thr → Thr) (h : UInv s)
    (hw : ∀ c x, wj c x (g s.thr[t]!) = wj c x s.thr[t]!) (hj : jobOf (g s.thr[t]!) = jobOf s.thr[t]!)
    (hf : ∀ c, ((g s.thr[t]!).rq = some c ∨ (g s.thr[t]!).pc = .selfEnq c) → (s.thr[t]!.rq = some c ∨ s.thr[t]!.pc = .selfEnq c)) :
    UInv (setThr s t g) := by
  have hjob : ∀ u : Nat, jobOf (setThr s t g).thr[u]! = jobOf s.thr[u]! := by
    intro u; rw [thr_setThr]; split
    · rename_i hc; rw [hc.1]; exact hj
    · rfl
  refine ⟨fun c x => ?_, fun u c hu => ?_⟩
  · rw [cntU_eq]
    show cntCl (setThr s t g).thr s.cl[c]! x + _ = want s.cl[c]! x
    rw [cntCl_congr s.thr _ _ x (fun u _ => hjob u) (fun u _ _ => hjob u), ← h.cnt c x, cntU_eq]
    have := sumA_setThr s t g (wj c x)
    rw [hw c x] at this
    omega
  · show c < s.cl.size ∧ s.cl[c]!.pc ≠ .idle
    rw [thr_setThr] at hu
    split at hu
    · rename_i hc; rw [hc.1] at hu; exact h.wf t c (hf c hu)
    · exact h.wf u c hu

/-- one client's record changes; its count part, its job counter and its started-ness do not -/
theorem uinv_setCl_same {s : St} (c0 : Nat) (f : Client → Client) (h : UInv s)
    (hc : ∀ x, cntCl s.thr (f s.cl[c0]!) x = cntCl s.thr s.cl[c0]! x) (hw : ∀ x, want (f s.cl[c0]!) x = want s.cl[c0]! x)
    (hp : s.cl[c0]!.pc ≠ .idle → (f s.cl[c0]!).pc ≠ .idle) : UInv (setCl s c0 f) := by
  refine ⟨fun c x => ?_, fun u c hu => ?_⟩
  · rw [cntU_eq, cl_get_setCl]
    show cntCl s.thr _ x + sumA s.thr (wj c x) = _
    split
    · rename_i hh; rw [hh.1, hc, hw, ← h.cnt c0 x, cntU_eq]
    · rw [← h.cnt c x, cntU_eq]
  · have := h.wf u c hu
    refine ⟨by simpa using this.1, ?_⟩
    rw [cl_get_setCl]; split
    · rename_i hh; rw [hh.1] at this ⊢; exact hp this.2
    · exact this.2

theorem uinv_signalThr {s : St} (t : Nat) (h : UInv s) : UInv (signalThr s t) := by
  have hthr : ∀ u : Nat, (signalThr s t).thr[u]! = if u = t ∧ t < s.thr.size then wakeW s.thr[u]! else s.thr[u]! := thr_signalThr s t
  have hjob : ∀ u : Nat, jobOf (signalThr s t).thr[u]! = jobOf s.thr[u]! := by
    intro u; rw [hthr]; split
    · exact jobOf_wakeW _
    · rfl
  have hwk : ∀ th : Thr, ∀ c x, wj c x (wakeW th) = wj c x th := by
    intro th c x
    obtain ⟨_, _, _, h4, h5⟩ := wakeW_spec th
    simp only [wj, h4, h5, jobOf_wakeW]
    by_cases hp : th.pc = .top true
    · simp [hp]
    · rw [if_neg hp]
  have hcl : (signalThr s t).cl = s.cl.map (wakeH t) := rfl
  have hsum : ∀ c x, sumA (signalThr s t).thr (wj c x) = sumA s.thr (wj c x) := by
    intro c x
    have e : (signalThr s t).thr = (setThr s t wakeW).thr := rfl
    rw [e]
    have := sumA_setThr s t wakeW (wj c x)
    rw [hwk] at this; omega
  refine ⟨fun c x => ?_, fun u c hu => ?_⟩
  · rw [cntU_eq, hsum, hcl, get_map]
    split
    · rw [cntCl_congr s.thr _ _ x (fun u _ => hjob u) (fun u _ _ => hjob u), cntCl_wakeH, want_wakeH, ← h.cnt c x, cntU_eq]
    · rename_i hcs
      have hd : s.cl[c]! = default := by grind
      have := h.cnt c x
      rw [cntU_eq, hd] at this
      rw [cntCl_congr s.thr _ _ x (fun u _ => hjob u) (fun u _ _ => hjob u)]
      exact this
  · have hu' : s.thr[u]!.rq = some c ∨ s.thr[u]!.pc = .selfEnq c := by
      rw [hthr] at hu
      split at hu
      · obtain ⟨_, _, _, h4, h5⟩ := wakeW_spec s.thr[u]!
        rw [h4, h5] at hu
        rcases hu with hu | hu
        · exact Or.inl hu
        · right
          split at hu
          · cases hu
          · exact hu
      · exact hu
    have := h.wf u c hu'
    refine ⟨by simpa [hcl] using this.1, ?_⟩
    rw [hcl, get_map, if_pos this.1, wakeH_pc]; exact this.2

theorem uinv_signalRq {s : St} (c : Nat) (h : UInv s) : UInv (signalRq s c) := by
  unfold signalRq
  apply uinv_setCl_same c _ h
  · intro x
    cases hp : s.cl[c]!.hpc with
    | deq a => cases a <;> simp [cntCl, hJob, hp]
    | _ => simp [hp]
  · intro x; split <;> rfl
  · intro hp; split <;> exact hp

theorem uinv_signalPool {s : St} (k : Nat) (h : UInv s) : UInv (signalPool s k) := by
  unfold signalPool
  split
  · exact ⟨h.cnt, h.wf⟩
  · dsimp only
    split
    · exact h
    · rename_i hne
      have hp := poolSleepers_spec s _ (poolSleepers_pick s k hne)
      generalize (poolSleepers s)[k % (poolSleepers s).length]! = c at hp ⊢
      apply uinv_setCl_same c _ h
      · intro x; rfl
      · intro x; cases x
        · rfl
        · simp only [want, pend, hp, Nat.add_zero]; rfl
      · intro _; simp


theorem sumA_zero_of {α : Type} [Inhabited α] (a : Array α) (f : α → Nat) (h : ∀ c : Nat, f a[c]! = 0) : sumA a f = 0 :=
  sumA_zero a f h

theorem uord_congr {s s' : St} (h : UOrd s) (e1 : s'.ordered = s.ordered) (e2 : s'.cl = s.cl) (e3 : s'.thr = s.thr) :
    UOrd s' := by
  intro ho
  have hu := h (by rw [← e1]; exact ho)
  refine ⟨fun c x => ?_, fun t c ht => ?_⟩
  · have := hu.cnt c x
    unfold cntU at this ⊢
    rw [e2, e3]; exact this
  · rw [e3] at ht
    have := hu.wf t c ht
    rw [e2]; exact this

theorem uord_stepOwner {s s' : St} (hW : Wk s) (h : UOrd s) (hs : stepOwner s = some s') : UOrd s' := by
  unfold stepOwner at hs
  split at hs
  · -- spawn: a fresh record for a client nobody works for yet
    rename_i i ho
    injection hs with hs; subst hs
    intro hord
    have hu := h hord
    have hidle := hW.fresh i i ho (Nat.le_refl _)
    have hnobody : ∀ x, sumA s.thr (wj i x) = 0 := by
      intro x
      apply sumA_zero
      intro t
      simp only [wj]
      split
      · rename_i hh
        exact absurd hidle (hu.wf t i hh.1).2
      · rfl
    refine ⟨fun c x => ?_, fun t c ht => ?_⟩
    · rw [cntU_eq]
      show cntCl s.thr (s.cl.modify i _)[c]! x + sumA s.thr (wj c x) = want (s.cl.modify i _)[c]! x
      rw [get_modify]
      split
      · rename_i hh
        rw [hh.1, hnobody]
        cases x <;> simp [cntCl, hJob, want, pend]
      · rw [← hu.cnt c x, cntU_eq]
    · have := hu.wf t c ht
      refine ⟨by simpa using this.1, ?_⟩
      show (s.cl.modify i _)[c]!.pc ≠ .idle
      rw [get_modify]
      split
      · simp
      · exact this.2
  · split at hs
    · injection hs with hs; subst hs; exact uord_congr h rfl rfl rfl
    · simp at hs
  · simp at hs
  · split at hs
    · injection hs with hs; subst hs; exact uord_congr h rfl rfl rfl
    · split at hs <;> (injection hs with hs; subst hs; exact uord_congr h rfl rfl rfl)
  · rename_i t ho
    injection hs with hs; subst hs
    intro hord
    apply uinv_signalThr
    have hu := h hord
    have := uinv_setThr t (fun th => { th with running := true }) hu (fun _ _ => rfl) rfl (fun _ hx => hx)
    exact ⟨this.cnt, this.wf⟩
  · split at hs
    · injection hs with hs; subst hs; exact uord_congr h rfl rfl rfl
    · simp at hs
  · simp at hs

theorem uord_stepWorker {s s' : St} {t : Nat} (hE : Excl s) (hS : Sh s) (h : UOrd s) (hs : stepWorker s t = some s') :
    UOrd s' := by
  unfold stepWorker at hs
  split at hs
  case isFalse => simp at hs
  rename_i ht
  dsimp only at hs
  have upd : ∀ g : Thr → Thr, (∀ c x, wj c x (g s.thr[t]!) = wj c x s.thr[t]!) → jobOf (g s.thr[t]!) = jobOf s.thr[t]! →
      (∀ c, ((g s.thr[t]!).rq = some c ∨ (g s.thr[t]!).pc = .selfEnq c) → (s.thr[t]!.rq = some c ∨ s.thr[t]!.pc = .selfEnq c)) →
      UOrd (setThr s t g) := fun g a b c hord => uinv_setThr t g (h hord) a b c
  split at hs
  · simp at hs
  · rename_i hp
    split at hs <;> (injection hs with hs; subst hs)
    · exact upd _ (fun c x => by simp [wj, hp, jobOf]) rfl (fun c hx => by simpa [hp] using hx)
    · exact upd _ (fun c x => by simp [wj, hp, jobOf]) rfl (fun c hx => by simpa [hp] using hx)
  · rename_i hp
    split at hs
    · injection hs with hs; subst hs
      exact upd _ (fun c x => by simp [wj, hp, jobOf]) rfl (fun c hx => by simpa [hp] using hx)
    · rename_i j hcb
      have hcb' : s.thr[t]!.cb = some j := hcb
      split at hs <;> (injection hs with hs; subst hs)
      · rename_i c0 hr
        have hr' : s.thr[t]!.rq = some c0 := hr
        refine upd _ (fun c x => ?_) (by simp [jobOf, hcb']) (fun c hx => ?_)
        · simp only [wj, hp, hr', jobOf, hcb']
          by_cases hc : c0 = c
          · subst hc; simp
          · have : ¬ c = c0 := fun e => hc e.symm
            simp [hc, this]
        · left; rcases hx with hx | hx
          · cases hx
          · injection hx with hx; rw [hr', hx]
      · rename_i hr
        have hr' : s.thr[t]!.rq = none := hr
        exact upd _ (fun c x => by simp [wj, hp, hr', jobOf, hcb']) (by simp [jobOf, hcb']) (fun c hx => by simp [hr'] at hx)
  · -- selfEnq c: from the worker's own hands into c's queue
    rename_i c hp
    injection hs with hs; subst hs
    intro hord
    have hord' : s.ordered = false := hord
    apply uinv_signalRq
    have hu := h hord'
    have hw : 0 < wN s.thr[t]! := by simp [wN, hp]
    obtain ⟨e1, e2, e3⟩ := hE.self hw
    have hsw := ((hS t).self hw).2
    have hrq : s.thr[t]!.rq = none := by
      rcases hsw with ⟨hh, _⟩ | ⟨_, _, _, _, d⟩
      · rcases hh with hh | hh <;> simp [hp, isTop] at hh
      · exact d
    obtain ⟨hcs, hcp⟩ := hu.wf t c (Or.inr hp)
    have hthr : ∀ u : Nat, u ≠ t → (setThr s t fun th => { th with pc := .top false }).thr[u]! = s.thr[u]! := by
      intro u hu'; rw [thr_setThr, if_neg (fun hx => hu' hx.1)]
    have htt : (setThr s t fun th => { th with pc := .top false }).thr[t]! = { s.thr[t]! with pc := .top false } := by
      rw [thr_setThr, if_pos ⟨rfl, ht⟩]
    have hjobt : jobOf (setThr s t fun th => { th with pc := .top false }).thr[t]! = jobOf s.thr[t]! := by rw [htt]; rfl
    have hjob : ∀ u : Nat, jobOf (setThr s t fun th => { th with pc := .top false }).thr[u]! = jobOf s.thr[u]! := by
      intro u
      by_cases hut : u = t
      · rw [hut]; exact hjobt
      · rw [hthr u hut]
    refine ⟨fun c' x => ?_, fun u c' hu' => ?_⟩
    · rw [cntU_eq]
      simp only [setCl_cl, setCl_thr, setThr_cl]
      have hsum := sumA_setThr s t (fun th => { th with pc := .top false }) (wj c' x)
      rw [if_pos ht, if_pos ht] at hsum
      have hnew : wj c' x { s.thr[t]! with pc := .top false } = 0 := by simp [wj, hrq]
      rw [hnew] at hsum
      have hold := hu.cnt c' x
      rw [cntU_eq] at hold
      rw [get_modify]
      split
      · rename_i hh
        rw [hh.1] at hold hsum ⊢
        have hwold : wj c x s.thr[t]! = if jobOf s.thr[t]! = x then 1 else 0 := by simp [wj, hp]
        have e5 : cntCl (setThr s t fun th => { th with pc := .top false }).thr
            { s.cl[c]! with queue := s.cl[c]!.queue ++ [t] } x =
            cntCl s.thr s.cl[c]! x + (if jobOf s.thr[t]! = x then 1 else 0) := by
          have := cntCl_congr s.thr (setThr s t fun th => { th with pc := .top false }).thr
            { s.cl[c]! with queue := s.cl[c]!.queue ++ [t] } x (fun u _ => hjob u) (fun u _ _ => hjob u)
          rw [this]
          simp only [cntCl, List.map_append, List.count_append, List.map_cons, List.map_nil, List.count_cons, List.count_nil]
          simp only [beq_iff_eq]
          omega
        have e6 : want { s.cl[c]! with queue := s.cl[c]!.queue ++ [t] } x = want s.cl[c]! x := rfl
        rw [e5, e6]
        omega
      · rename_i hh
        have hne : c' ≠ c := fun e => hh ⟨e, hcs⟩
        have hwold : wj c' x s.thr[t]! = 0 := by
          simp only [wj, hrq, hp]
          have : ¬ c = c' := fun e => hne e.symm
          simp [this]
        rw [cntCl_congr s.thr _ _ x (fun u _ => hjob u) (fun u _ _ => hjob u)]
        omega
    · have hu'' : s.thr[u]!.rq = some c' ∨ s.thr[u]!.pc = .selfEnq c' := by
        have e : (setCl (setThr s t fun th => { th with pc := .top false }) c fun cl =>
            { cl with queue := cl.queue ++ [t] }).thr[u]! = (setThr s t fun th => { th with pc := .top false }).thr[u]! := rfl
        rw [e] at hu'
        by_cases hut : u = t
        · rw [hut, htt] at hu'
          rcases hu' with hx | hx
          · rw [hut]; exact Or.inl hx
          · cases hx
        · rw [hthr u hut] at hu'; exact hu'
      have := hu.wf u c' hu''
      refine ⟨by simpa using this.1, ?_⟩
      show (s.cl.modify c _)[c']!.pc ≠ .idle
      rw [get_modify]; split
      · rename_i hh; rw [hh.1] at this ⊢; exact this.2
      · exact this.2
  · rename_i hp
    injection hs with hs; subst hs
    intro hord
    apply uinv_signalThr
    exact upd _ (fun c x => by simp [wj, hp, jobOf]) rfl (fun c hx => by simpa [hp] using hx) hord
  · simp at hs


/-- the acting client moves between program points that hold no job in hand -/
theorem uord_client_pc {s S0 : St} (c : Nat) (f : Client → Client) (h : UOrd s)
    (e1 : S0.ordered = s.ordered) (e2 : S0.cl = s.cl) (e3 : S0.thr = s.thr)
    (hf : (f s.cl[c]!).delivered = s.cl[c]!.delivered ∧ (f s.cl[c]!).hpc = s.cl[c]!.hpc ∧
      (f s.cl[c]!).queue = s.cl[c]!.queue ∧
      (f s.cl[c]!).nextJob + pend (f s.cl[c]!).pc = s.cl[c]!.nextJob + pend s.cl[c]!.pc ∧ (f s.cl[c]!).pc ≠ .idle) :
    UOrd (setCl S0 c f) := by
  intro hord
  have h0 := uord_congr (s' := S0) h e1 e2 e3 (by simpa using hord)
  rw [← e2] at hf
  obtain ⟨a, b, c1, d, e⟩ := hf
  apply uinv_setCl_same c f h0
  · intro x; simp only [cntCl, a, b, c1]
  · intro x; cases x <;> simp only [want, d]
  · intro _; exact e

theorem uord_stepClient {s s' : St} {c : Nat} (hE : Excl s) (hS : Sh s) (h : UOrd s) (hs : stepClient s c = some s') :
    UOrd s' := by
  unfold stepClient at hs
  split at hs
  case isFalse => simp at hs
  rename_i hc
  dsimp only at hs
  split at hs
  · simp at hs
  · rename_i hp
    injection hs with hs; subst hs
    exact uord_client_pc c _ h rfl rfl rfl ⟨rfl, rfl, rfl, by simp [pend, hp], by simp⟩
  · rename_i hp
    injection hs with hs; subst hs
    exact uord_client_pc c _ h rfl rfl rfl ⟨rfl, rfl, rfl, by simp [pend, hp], by simp⟩
  · simp at hs
  · rename_i hp
    split at hs
    · injection hs with hs; subst hs
      exact uord_client_pc c _ h rfl rfl rfl ⟨rfl, rfl, rfl, by simp [pend, hp], by simp⟩
    · split at hs
      · injection hs with hs; subst hs
        exact uord_client_pc c _ h rfl rfl rfl ⟨rfl, rfl, rfl, by simp [pend, hp], by simp⟩
      · split at hs
        · injection hs with hs; subst hs
          exact uord_client_pc c _ h rfl rfl rfl ⟨rfl, rfl, rfl, by simp [pend, hp], by simp⟩
        · injection hs with hs; subst hs
          exact uord_client_pc c _ h rfl rfl rfl ⟨rfl, rfl, rfl, by simp [pend, hp], by simp⟩
  · -- create: a new idle thread, working for nobody
    rename_i hp
    injection hs with hs; subst hs
    have h1 : UOrd { s with thr := s.thr.push {} } := by
      intro hord
      have hu := h hord
      have hjob : ∀ u : Nat, u < s.thr.size → jobOf (s.thr.push {})[u]! = jobOf s.thr[u]! := by
        intro u hu'; rw [get_push, if_neg (by omega)]
      refine ⟨fun c' x => ?_, fun u c' hu' => ?_⟩
      · rw [cntU_eq]
        show cntCl (s.thr.push {}) s.cl[c']! x + sumA (s.thr.push {}) (wj c' x) = _
        have hz : wj c' x ({} : Thr) = 0 := by simp [wj]
        rw [sumA_push, hz, cntCl_congr s.thr (s.thr.push {}) s.cl[c']! x
          (fun u m => hjob u (hE.client (mem_view_queue (o := s.ordered) m)).2.2.2.1)
          (fun u a e => hjob u (hE.client (mem_view_wait (o := s.ordered) e)).2.2.2.1)]
        have := hu.cnt c' x
        rw [cntU_eq] at this
        omega
      · have e : ({ s with thr := s.thr.push {} } : St).thr[u]! = (s.thr.push {})[u]! := rfl
        rw [e, get_push] at hu'
        split at hu'
        · simp at hu'
        · exact hu.wf u c' hu'
    exact uord_client_pc c _ h1 rfl rfl rfl ⟨rfl, rfl, rfl, by simp [pend, hp], by simp⟩
  · -- assign: thread t now carries job nextJob of client c
    rename_i t hp
    injection hs with hs; subst hs
    intro hord
    have hord' : s.ordered = false := hord
    apply uinv_signalThr
    have hu := h hord'
    have hm : t ∈ clView s.ordered s.cl[c]! := mem_view_assign hp
    obtain ⟨e1, e2, e3, e4, e5, e6⟩ := hE.client hm
    obtain ⟨q1, q2⟩ := count_view_assign hp e5
    obtain ⟨w1, w2⟩ := not_wait_of_not_hHand q2
    have hid : SIdle s.thr[t]! := ((hS t).cl c).assign hp
    generalize hg : (fun th : Thr =>
      ({ th with rq := if s.ordered then none else some c, cb := some s.cl[c]!.nextJob, running := true } : Thr)) = g
    have hthr : ∀ u : Nat, u ≠ t → (setThr s t g).thr[u]! = s.thr[u]! := by
      intro u hu'; rw [thr_setThr, if_neg (fun hx => hu' hx.1)]
    have htt : (setThr s t g).thr[t]! = g s.thr[t]! := by rw [thr_setThr, if_pos ⟨rfl, e4⟩]
    have hgrq : (g s.thr[t]!).rq = some c := by rw [← hg]; simp [hord']
    have hgjob : jobOf (g s.thr[t]!) = some s.cl[c]!.nextJob := by rw [← hg]; simp [jobOf]
    have hgpc : (g s.thr[t]!).pc = s.thr[t]!.pc := by rw [← hg]
    have holdw : ∀ c' x, wj c' x s.thr[t]! = 0 := by
      intro c' x
      have hpcne : s.thr[t]!.pc ≠ .selfEnq c' := by
        have := hid.1; intro e; rw [e] at this; simp [isTop] at this
      simp [wj, hid.2.2.2.2, hpcne]
    -- nobody's queue or handler holds t, so the record parts do not move
    have hrec : ∀ c' : Nat, ∀ x, cntCl (setThr s t g).thr s.cl[c']! x = cntCl s.thr s.cl[c']! x := by
      intro c' x
      apply cntCl_congr
      · intro u m
        apply congrArg jobOf; apply hthr
        intro e; subst e
        by_cases hcc : c' = c
        · subst hcc; exact q1 m
        · exact e6 c' hcc (mem_view_queue m)
      · intro u a e
        apply congrArg jobOf; apply hthr
        intro e'; subst e'
        by_cases hcc : c' = c
        · subst hcc; exact w1 a e
        · exact e6 c' hcc (mem_view_wait e)
    refine ⟨fun c' x => ?_, fun u c' hu' => ?_⟩
    · rw [cntU_eq]
      simp only [setCl_cl, setCl_thr, setThr_cl]
      have hsum := sumA_setThr s t g (wj c' x)
      rw [if_pos e4, if_pos e4, holdw] at hsum
      have hold := hu.cnt c' x
      rw [cntU_eq] at hold
      rw [get_modify]
      split
      · rename_i hh
        rw [hh.1] at hold hsum ⊢
        have e7 : cntCl (setThr s t g).thr { s.cl[c]! with pc := .enqueue t } x = cntCl s.thr s.cl[c]! x := hrec c x
        have hnew : wj c x (g s.thr[t]!) = if some s.cl[c]!.nextJob = x then 1 else 0 := by simp [wj, hgrq, hgjob]
        rw [hnew] at hsum
        rw [e7]
        have hw : want { s.cl[c]! with pc := .enqueue t } x =
            want s.cl[c]! x + (if some s.cl[c]!.nextJob = x then 1 else 0) := by
          cases x with
          | none => simp [want]
          | some j =>
            have e8 : want { s.cl[c]! with pc := .enqueue t } (some j) = if j < s.cl[c]!.nextJob + 1 then 1 else 0 := rfl
            have e9 : want s.cl[c]! (some j) = if j < s.cl[c]!.nextJob then 1 else 0 := by
              simp only [want, pend, hp, Nat.add_zero]
            rw [e8, e9]
            simp only [Option.some.injEq]
            by_cases h1 : j < s.cl[c]!.nextJob
            · have h2 : j < s.cl[c]!.nextJob + 1 := by omega
              have h3 : ¬ s.cl[c]!.nextJob = j := by omega
              simp [h1, h2, h3]
            · by_cases h3 : s.cl[c]!.nextJob = j
              · have h2 : j < s.cl[c]!.nextJob + 1 := by omega
                simp [h1, h2, h3]
              · have h2 : ¬ j < s.cl[c]!.nextJob + 1 := by omega
                simp [h1, h2, h3]
        rw [hw]
        omega
      · rename_i hh
        have hne : c' ≠ c := fun e => hh ⟨e, hc⟩
        have hnew : wj c' x (g s.thr[t]!) = 0 := by
          have hpcne : (g s.thr[t]!).pc ≠ .selfEnq c' := by
            rw [hgpc]; have := hid.1; intro e; rw [e] at this; simp [isTop] at this
          have : ¬ c = c' := fun e => hne e.symm
          simp [wj, hgrq, hpcne, this]
        rw [hnew] at hsum
        rw [hrec c' x]; omega
    · have e : (setCl (setThr s t g) c fun cl => { cl with pc := .enqueue t }).thr[u]! = (setThr s t g).thr[u]! := rfl
      rw [e] at hu'
      simp only [setCl_cl, setThr_cl, Array.size_modify]
      by_cases hut : u = t
      · rw [hut, htt] at hu'
        have hcc : c' = c := by
          rcases hu' with hx | hx
          · rw [hgrq] at hx; injection hx with hx; exact hx.symm
          · rw [hgpc] at hx; have := hid.1; rw [hx] at this; simp [isTop] at this
        rw [hcc, get_modify, if_pos ⟨rfl, hc⟩]
        exact ⟨hc, by simp⟩
      · rw [hthr u hut] at hu'
        have := hu.wf u c' hu'
        refine ⟨this.1, ?_⟩
        rw [get_modify]; split
        · simp
        · exact this.2
  · -- enqueue (unordered: the thread is already on its way; only the counters move)
    rename_i t hp
    injection hs with hs; subst hs
    have hX : UOrd (setCl s c fun cl =>
        { cl with nthreads := cl.nthreads + 1, queue := if s.ordered then cl.queue ++ [t] else cl.queue,
                  pc := .next false, nextJob := cl.nextJob + 1 }) := by
      intro hord
      have hord' : s.ordered = false := hord
      have := uord_client_pc (S0 := s) c (fun cl =>
        { cl with nthreads := cl.nthreads + 1, queue := if s.ordered then cl.queue ++ [t] else cl.queue,
                  pc := .next false, nextJob := cl.nextJob + 1 }) h rfl rfl rfl
        ⟨rfl, rfl, by simp [hord'], by simp [pend, hp], by simp⟩
      exact this hord
    by_cases ho : s.ordered = true
    · simp only [setCl_ordered, ho, if_true]
      intro hord
      have : s.ordered = false := hord
      rw [this] at ho; cases ho
    · simp only [setCl_ordered, ho, if_false] at hX ⊢
      exact hX
  · rename_i hp
    injection hs with hs; subst hs
    intro hord
    apply uinv_signalRq
    exact uord_client_pc c _ h rfl rfl rfl ⟨rfl, rfl, rfl, by simp [pend, hp], by simp⟩ hord
  · rename_i hp
    split at hs
    · injection hs with hs; subst hs
      exact uord_client_pc c _ h rfl rfl rfl ⟨rfl, rfl, rfl, by simp [pend, hp], by simp⟩
    · simp at hs
  · simp at hs


/-- a handler step that only changes its own client's record, keeping the count part -/
theorem uord_handler_rec {s S0 : St} (c : Nat) (f : Client → Client) (h : UOrd s)
    (e1 : S0.ordered = s.ordered) (e2 : S0.cl = s.cl) (e3 : S0.thr = s.thr)
    (hf : (∀ x, cntCl s.thr (f s.cl[c]!) x = cntCl s.thr s.cl[c]! x) ∧ (f s.cl[c]!).nextJob = s.cl[c]!.nextJob ∧
      (f s.cl[c]!).pc = s.cl[c]!.pc) : UOrd (setCl S0 c f) := by
  intro hord
  have h0 := uord_congr (s' := S0) h e1 e2 e3 (by simpa using hord)
  rw [← e2, ← e3] at hf
  obtain ⟨a, b, c1⟩ := hf
  apply uinv_setCl_same c f h0 a
  · intro x; cases x <;> simp only [want, b, c1]
  · intro hp; rw [c1]; exact hp

theorem uord_stepHandler {s s' : St} {c k : Nat} (hE : Excl s) (hS : Sh s) (h : UOrd s)
    (hs : stepHandler s c k = some s') : UOrd s' := by
  unfold stepHandler at hs
  split at hs
  case isFalse => simp at hs
  rename_i hc
  dsimp only at hs
  split at hs
  · simp at hs
  split at hs
  · simp at hs
  · rename_i hp
    split at hs
    · rename_i t rest hq
      injection hs with hs; subst hs
      refine uord_handler_rec c _ h rfl rfl rfl ⟨fun x => ?_, rfl, rfl⟩
      simp only [cntCl, hJob, hp, hq, List.map_cons, List.count_cons, List.count_nil]
      omega
    · split at hs <;> (injection hs with hs; subst hs)
      · exact uord_handler_rec c _ h rfl rfl rfl ⟨fun x => by simp [cntCl, hJob, hp], rfl, rfl⟩
      · exact uord_handler_rec c _ h rfl rfl rfl ⟨fun x => by simp [cntCl, hJob, hp], rfl, rfl⟩
  · simp at hs
  · rename_i t hp
    split at hs <;> (injection hs with hs; subst hs)
    · exact uord_handler_rec c _ h rfl rfl rfl ⟨fun x => by simp [cntCl, hJob, hp], rfl, rfl⟩
    · -- the handler takes the result off the thread
      rename_i hr
      intro hord
      have hord' : s.ordered = false := hord
      have hu := h hord'
      have hm : t ∈ clView s.ordered s.cl[c]! := mem_view_wait hp
      obtain ⟨e1, e2, e3, e4, e5, e6⟩ := hE.client hm
      obtain ⟨q1, q2⟩ := count_view_hHand (by simp [hp]) e5
      have hsq := (((hS t).cl c).wait false hp).1
      have hfin : SFin s.thr[t]! := by
        unfold SQ at hsq; rw [if_neg (by simp [hord'])] at hsq; exact hsq
      have hcb : s.thr[t]!.cb = none := hfin.2.2.1
      have hrq : s.thr[t]!.rq = none := hfin.2.2.2.2
      have hpcne : ∀ c', s.thr[t]!.pc ≠ .selfEnq c' := by
        intro c' e; have := hfin.1; rw [e] at this; simp [isTop] at this
      have hthr : ∀ u : Nat, u ≠ t → (setThr s t fun th => { th with res := none }).thr[u]! = s.thr[u]! := by
        intro u hu'; rw [thr_setThr, if_neg (fun hx => hu' hx.1)]
      have htt : (setThr s t fun th => { th with res := none }).thr[t]! = { s.thr[t]! with res := none } := by
        rw [thr_setThr, if_pos ⟨rfl, e4⟩]
      have hw0 : ∀ c' x, wj c' x s.thr[t]! = 0 := by intro c' x; simp [wj, hrq, hpcne]
      have hw1 : ∀ c' x, wj c' x { s.thr[t]! with res := none } = 0 := by intro c' x; simp [wj, hrq, hpcne]
      have hsumeq : ∀ c' x, sumA (setThr s t fun th => { th with res := none }).thr (wj c' x) = sumA s.thr (wj c' x) := by
        intro c' x
        have := sumA_setThr s t (fun th => { th with res := none }) (wj c' x)
        rw [if_pos e4, if_pos e4, hw0, hw1] at this; omega
      refine ⟨fun c' x => ?_, fun u c' hu' => ?_⟩
      · rw [cntU_eq]
        simp only [setCl_cl, setCl_thr, setThr_cl]
        rw [hsumeq]
        have hold := hu.cnt c' x
        rw [cntU_eq] at hold
        rw [get_modify]
        split
        · rename_i hh
          rw [hh.1] at hold ⊢
          have e7 : cntCl (setThr s t fun th => { th with res := none }).thr
              { s.cl[c]! with hpc := .giveBack t s.thr[t]!.res } x = cntCl s.thr s.cl[c]! x := by
            simp only [cntCl, hJob, hp]
            have hq : s.cl[c]!.queue.map (fun u => jobOf (setThr s t fun th => { th with res := none }).thr[u]!) =
                s.cl[c]!.queue.map (fun u => jobOf s.thr[u]!) :=
              List.map_congr_left fun u m => by rw [hthr u (fun hu' => q2 (hu' ▸ m))]
            rw [hq]
            have : jobOf s.thr[t]! = s.thr[t]!.res := by simp [jobOf, hcb]
            rw [this]
          rw [e7]
          exact hold
        · rename_i hh
          have hne : c' ≠ c := fun e => hh ⟨e, hc⟩
          rw [cntCl_congr s.thr _ _ x
            (fun u m => by rw [hthr u (fun hu' => e6 c' hne (hu' ▸ mem_view_queue m))])
            (fun u a e => by rw [hthr u (fun hu' => e6 c' hne (hu' ▸ mem_view_wait e))])]
          exact hold
      · have e : (setCl (setThr s t fun th => { th with res := none }) c fun cl =>
            { cl with hpc := .giveBack t s.thr[t]!.res }).thr[u]! = (setThr s t fun th => { th with res := none }).thr[u]! := rfl
        rw [e] at hu'
        have hu'' : s.thr[u]!.rq = some c' ∨ s.thr[u]!.pc = .selfEnq c' := by
          by_cases hut : u = t
          · rw [hut, htt] at hu'; rw [hut]; exact hu'
          · rw [hthr u hut] at hu'; exact hu'
        have := hu.wf u c' hu''
        simp only [setCl_cl, setThr_cl, Array.size_modify]
        refine ⟨this.1, ?_⟩
        rw [get_modify]; split
        · rename_i hh; rw [hh.1] at this ⊢; exact this.2
        · exact this.2
  · rename_i t r hp
    injection hs with hs; subst hs
    intro hord
    have hord' : s.ordered = false := by
      have : (signalPool (setCl { s with idle := t :: s.idle } c fun cl => { cl with hpc := .callback r }) k).ordered
          = s.ordered := by
        unfold signalPool; split
        · rfl
        · dsimp only; split <;> rfl
      rw [← this]; exact hord
    apply uinv_signalPool
    exact uord_handler_rec (S0 := { s with idle := t :: s.idle }) c _ h rfl rfl rfl
      ⟨fun x => by simp [cntCl, hJob, hp], rfl, rfl⟩ hord'
  · rename_i r hp
    injection hs with hs; subst hs
    refine uord_handler_rec c _ h rfl rfl rfl ⟨fun x => ?_, rfl, rfl⟩
    simp only [cntCl, hJob, hp, List.count_append, List.count_cons, List.count_nil]
    omega
  · simp at hs

theorem uord_spurious {s s' : St} {w : Who} (h : UOrd s) (hs : step s (.spurious w) = some s') : UOrd s' := by
  cases w with
  | owner =>
    simp only [step] at hs
    split at hs
    · injection hs with hs; subst hs; exact uord_congr h rfl rfl rfl
    · simp at hs
  | client c =>
    simp only [step] at hs
    split at hs
    · rename_i hp
      injection hs with hs; subst hs
      have hp' : s.cl[c]!.pc = .next true := by
        cases hx : s.cl[c]? with
        | none => simp [hx] at hp
        | some x => simp [hx] at hp; simp [getElem!_def, hx, hp]
      exact uord_client_pc c _ h rfl rfl rfl ⟨rfl, rfl, rfl, by simp [pend, hp'], by simp⟩
    · simp at hs
  | handler c =>
    simp only [step] at hs
    split at hs
    · rename_i hp
      injection hs with hs; subst hs
      have hp' : s.cl[c]!.hpc = .deq true := by
        cases hx : s.cl[c]? with
        | none => simp [hx] at hp
        | some x => simp [hx] at hp; simp [getElem!_def, hx, hp]
      exact uord_handler_rec c _ h rfl rfl rfl ⟨fun x => by simp [cntCl, hJob, hp'], rfl, rfl⟩
    · rename_i t hp
      injection hs with hs; subst hs
      have hp' : s.cl[c]!.hpc = .waitRes t true := by
        cases hx : s.cl[c]? with
        | none => simp [hx] at hp
        | some x => simp [hx] at hp; simp [getElem!_def, hx, hp]
      exact uord_handler_rec c _ h rfl rfl rfl ⟨fun x => by simp [cntCl, hJob, hp'], rfl, rfl⟩
    · simp at hs
  | worker t =>
    simp only [step] at hs
    split at hs
    · rename_i hp
      injection hs with hs; subst hs
      have hp' : s.thr[t]!.pc = .top true := by
        cases hx : s.thr[t]? with
        | none => simp [hx] at hp
        | some x => simp [hx] at hp; simp [getElem!_def, hx, hp]
      intro hord
      exact uinv_setThr t _ (h hord) (fun c x => by simp [wj, hp', jobOf]) rfl (fun c hx => by simpa [hp'] using hx)
    · simp at hs

theorem uord_init (n max njobs : Nat) (o : Bool) : UOrd (init n max njobs o) := by
  intro _
  have hthr : ∀ u : Nat, (init n max njobs o).thr[u]! = default := by intro u; simp [init]
  have hcl : ∀ c : Nat, (init n max njobs o).cl[c]! = {} ∨ (init n max njobs o).cl[c]! = default := by
    intro c
    by_cases hc : c < n
    · left; simp [init, hc]
    · right; simp [init, hc]
  refine ⟨fun c x => ?_, fun t c ht => ?_⟩
  · rw [cntU_eq]
    have hz : sumA (init n max njobs o).thr (wj c x) = 0 := by simp [init, sumA]
    rw [hz]
    have d1 : (default : Client).delivered = [] := rfl
    have d2 : (default : Client).hpc = .deq false := by decide
    have d3 : (default : Client).queue = [] := rfl
    have d4 : (default : Client).nextJob = 0 := rfl
    have d5 : (default : Client).pc = .idle := rfl
    rcases hcl c with e | e <;> rw [e] <;> cases x <;> simp [cntCl, hJob, want, pend, d1, d2, d3, d4, d5]
  · rw [hthr] at ht
    rcases ht with ht | ht <;> cases ht

theorem uord_reachable {n max njobs : Nat} {o : Bool} {s : St} (hr : Reachable n max njobs o s) : UOrd s := by
  induction hr with
  | init => exact uord_init _ _ _ _
  | @step s1 s2 l hr' hs ih =>
    have hI := inv_reachable hr'
    have hW := wk_reachable hr'
    cases l with
    | spurious w => exact uord_spurious ih hs
    | run w k =>
      cases w with
      | owner => exact uord_stepOwner hW ih hs
      | client c => exact uord_stepClient hI.1 hI.2 ih hs
      | handler c => exact uord_stepHandler hI.1 hI.2 ih hs
      | worker t => exact uord_stepWorker hI.1 hI.2 ih hs


/-! ### unordered mode: the outstanding counter, and what is left when the handler exits -/
def wAny (c : Nat) (th : Thr) : Nat := if th.rq = some c ∨ th.pc = .selfEnq c then 1 else 0

/-- `rq->nthreads` of client c counts the threads in its queue and the workers still carrying one of its jobs -/
def NOk (thr : Array Thr) (c : Nat) (cl : Client) : Prop :=
  cl.nthreads + (pend cl.pc : Int) = ((cl.queue.length + sumA thr (wAny c) : Nat) : Int)
/-- after the handler has exited nothing of the client is left in the pool -/
def ExOk (thr : Array Thr) (c : Nat) (cl : Client) : Prop :=
  cl.hpc = .exited → cl.queue = [] ∧ sumA thr (wAny c) = 0

structure NInv (s : St) : Prop where
  n : ∀ c : Nat, NOk s.thr c s.cl[c]!
  ex : ∀ c : Nat, ExOk s.thr c s.cl[c]!

def NOrd (s : St) : Prop := s.ordered = false → NInv s

theorem wAny_default (c : Nat) : wAny c (default : Thr) = 0 := by
  have h1 : (default : Thr).rq = none := rfl
  have h2 : (default : Thr).pc = .top false := rfl
  simp [wAny, h1, h2]

theorem sumA_eq_zero_term {α : Type} [Inhabited α] (a : Array α) (f : α → Nat) (h : sumA a f = 0) (t : Nat) (ht : t < a.size) :
    f a[t]! = 0 := by
  have := sumA_le a f t ht; omega

theorem nord_congr {s s' : St} (h : NOrd s) (e1 : s'.ordered = s.ordered) (e2 : s'.cl = s.cl) (e3 : s'.thr = s.thr) :
    NOrd s' := by
  intro ho
  have hu := h (by rw [← e1]; exact ho)
  exact ⟨fun c => by rw [e2, e3]; exact hu.n c, fun c => by rw [e2, e3]; exact hu.ex c⟩

/-- a thread's record changes, whom it works for does not -/
theorem ninv_setThr {s : St} (t : Nat) (g : Thr → Thr) (h : NInv s) (hw : ∀ c, wAny c (g s.thr[t]!) = wAny c s.thr[t]!) :
    NInv (setThr s t g) := by
  have hsum : ∀ c, sumA (setThr s t g).thr (wAny c) = sumA s.thr (wAny c) := by
    intro c
    have := sumA_setThr s t g (wAny c)
    rw [hw c] at this; omega
  exact ⟨fun c => by unfold NOk; rw [hsum]; exact h.n c, fun c => by unfold ExOk; rw [hsum]; exact h.ex c⟩

/-- one client's record changes, keeping what the two facts talk about -/
theorem ninv_setCl_same {s : St} (c0 : Nat) (f : Client → Client) (h : NInv s)
    (hn : NOk s.thr c0 s.cl[c0]! → NOk s.thr c0 (f s.cl[c0]!)) (he : ExOk s.thr c0 s.cl[c0]! → NOk s.thr c0 s.cl[c0]! → ExOk s.thr c0 (f s.cl[c0]!)) :
    NInv (setCl s c0 f) := by
  refine ⟨fun c => ?_, fun c => ?_⟩
  · show NOk s.thr c (s.cl.modify c0 f)[c]!
    rw [get_modify]; split
    · rename_i hh; rw [hh.1]; exact hn (h.n c0)
    · exact h.n c
  · show ExOk s.thr c (s.cl.modify c0 f)[c]!
    rw [get_modify]; split
    · rename_i hh; rw [hh.1]; exact he (h.ex c0) (h.n c0)
    · exact h.ex c

theorem ninv_signalThr {s : St} (t : Nat) (h : NInv s) : NInv (signalThr s t) := by
  have hwk : ∀ th : Thr, ∀ c, wAny c (wakeW th) = wAny c th := by
    intro th c
    obtain ⟨_, _, _, h4, h5⟩ := wakeW_spec th
    simp only [wAny, h4, h5]
    by_cases hp : th.pc = .top true
    · simp [hp]
    · rw [if_neg hp]
  have hsum : ∀ c, sumA (signalThr s t).thr (wAny c) = sumA s.thr (wAny c) := by
    intro c
    have e : (signalThr s t).thr = (setThr s t wakeW).thr := rfl
    rw [e]
    have := sumA_setThr s t wakeW (wAny c)
    rw [hwk] at this; omega
  have hcl : (signalThr s t).cl = s.cl.map (wakeH t) := rfl
  have hrec : ∀ cl : Client, (wakeH t cl).nthreads = cl.nthreads ∧ ((wakeH t cl).hpc = .exited → cl.hpc = .exited) := by
    intro cl; unfold wakeH; split
    · split
      · exact ⟨rfl, by simp⟩
      · exact ⟨rfl, id⟩
    · exact ⟨rfl, id⟩
  refine ⟨fun c => ?_, fun c => ?_⟩
  · unfold NOk; rw [hsum, hcl, get_map]; split
    · rw [(hrec _).1, wakeH_pc, wakeH_queue]; exact h.n c
    · rename_i hcs
      have hd : s.cl[c]! = default := by grind
      have := h.n c; rw [hd] at this; exact this
  · unfold ExOk; rw [hsum, hcl, get_map]; split
    · intro hx; rw [wakeH_queue]; exact h.ex c ((hrec _).2 hx)
    · rename_i hcs
      have hd : s.cl[c]! = default := by grind
      have := h.ex c; rw [hd] at this; exact this

theorem ninv_signalRq {s : St} (c : Nat) (h : NInv s) : NInv (signalRq s c) := by
  unfold signalRq
  apply ninv_setCl_same c _ h
  · intro hn; split <;> exact hn
  · intro he _; split
    · intro hx; cases hx
    · exact he

theorem ninv_signalPool {s : St} (k : Nat) (h : NInv s) : NInv (signalPool s k) := by
  unfold signalPool
  split
  · exact ⟨h.n, h.ex⟩
  · dsimp only
    split
    · exact h
    · rename_i hne
      have hp := poolSleepers_spec s _ (poolSleepers_pick s k hne)
      generalize (poolSleepers s)[k % (poolSleepers s).length]! = c at hp ⊢
      apply ninv_setCl_same c _ h
      · intro hn; unfold NOk at hn ⊢; simp only [pend, hp] at hn ⊢; exact hn
      · intro he _; exact he


theorem nord_stepOwner {s s' : St} (hW : Wk s) (hU : UOrd s) (h : NOrd s) (hs : stepOwner s = some s') : NOrd s' := by
  unfold stepOwner at hs
  split at hs
  · rename_i i ho
    injection hs with hs; subst hs
    intro hord
    have hn := h hord
    have hu := hU hord
    have hidle := hW.fresh i i ho (Nat.le_refl _)
    have hnobody : sumA s.thr (wAny i) = 0 := by
      apply sumA_zero
      intro t
      simp only [wAny]
      split
      · rename_i hh; exact absurd hidle (hu.wf t i hh).2
      · rfl
    refine ⟨fun c => ?_, fun c => ?_⟩
    · show NOk s.thr c (s.cl.modify i _)[c]!
      rw [get_modify]; split
      · rename_i hh; rw [hh.1]; unfold NOk; rw [hnobody]; simp [pend]
      · exact hn.n c
    · show ExOk s.thr c (s.cl.modify i _)[c]!
      rw [get_modify]; split
      · intro hx; cases hx
      · exact hn.ex c
  · split at hs
    · injection hs with hs; subst hs; exact nord_congr h rfl rfl rfl
    · simp at hs
  · simp at hs
  · split at hs
    · injection hs with hs; subst hs; exact nord_congr h rfl rfl rfl
    · split at hs <;> (injection hs with hs; subst hs; exact nord_congr h rfl rfl rfl)
  · rename_i t ho
    injection hs with hs; subst hs
    intro hord
    apply ninv_signalThr
    have := ninv_setThr t (fun th => { th with running := true }) (h hord) (fun _ => rfl)
    exact ⟨this.n, this.ex⟩
  · split at hs
    · injection hs with hs; subst hs; exact nord_congr h rfl rfl rfl
    · simp at hs
  · simp at hs

theorem nord_stepWorker {s s' : St} {t : Nat} (hS : Sh s) (hU : UOrd s) (h : NOrd s) (hs : stepWorker s t = some s') :
    NOrd s' := by
  unfold stepWorker at hs
  split at hs
  case isFalse => simp at hs
  rename_i ht
  dsimp only at hs
  have upd : ∀ g : Thr → Thr, (∀ c, wAny c (g s.thr[t]!) = wAny c s.thr[t]!) → NOrd (setThr s t g) :=
    fun g a hord => ninv_setThr t g (h hord) a
  split at hs
  · simp at hs
  · rename_i hp
    split at hs <;> (injection hs with hs; subst hs)
    · exact upd _ (fun c => by simp [wAny, hp])
    · exact upd _ (fun c => by simp [wAny, hp])
  · rename_i hp
    split at hs
    · injection hs with hs; subst hs
      exact upd _ (fun c => by simp [wAny, hp])
    · split at hs <;> (injection hs with hs; subst hs)
      · rename_i c0 hr
        have hr' : s.thr[t]!.rq = some c0 := hr
        refine upd _ (fun c => ?_)
        simp only [wAny, hp, hr']
        by_cases hc : c0 = c
        · subst hc; simp
        · have : ¬ c = c0 := fun e => hc e.symm
          simp [hc, this]
      · rename_i hr
        have hr' : s.thr[t]!.rq = none := hr
        exact upd _ (fun c => by simp [wAny, hp, hr'])
  · rename_i c hp
    injection hs with hs; subst hs
    intro hord
    have hord' : s.ordered = false := hord
    apply ninv_signalRq
    have hn := h hord'
    have hu := hU hord'
    have hw : 0 < wN s.thr[t]! := by simp [wN, hp]
    have hsw := ((hS t).self hw).2
    have hrq : s.thr[t]!.rq = none := by
      rcases hsw with ⟨hh, _⟩ | ⟨_, _, _, _, d⟩
      · rcases hh with hh | hh <;> simp [hp, isTop] at hh
      · exact d
    obtain ⟨hcs, _⟩ := hu.wf t c (Or.inr hp)
    have hsum : ∀ c', sumA (setThr s t fun th => { th with pc := .top false }).thr (wAny c') + (if c' = c then 1 else 0) =
        sumA s.thr (wAny c') := by
      intro c'
      have := sumA_setThr s t (fun th => { th with pc := .top false }) (wAny c')
      rw [if_pos ht, if_pos ht] at this
      have h1 : wAny c' { s.thr[t]! with pc := .top false } = 0 := by simp [wAny, hrq]
      have h2 : wAny c' s.thr[t]! = if c' = c then 1 else 0 := by
        simp only [wAny, hrq, hp]
        by_cases hc : c' = c
        · subst hc; simp
        · have : ¬ c = c' := fun e => hc e.symm
          simp [hc, this]
      rw [h1, h2] at this; omega
    refine ⟨fun c' => ?_, fun c' => ?_⟩
    · simp only [setCl_cl, setCl_thr, setThr_cl]
      have hold := hn.n c'
      have := hsum c'
      unfold NOk at hold ⊢
      rw [get_modify]; split
      · rename_i hh
        rw [hh.1] at hold this ⊢
        simp only [if_true] at this
        simp only [List.length_append, List.length_cons, List.length_nil]
        omega
      · rename_i hh
        have hne : c' ≠ c := fun e => hh ⟨e, hcs⟩
        rw [if_neg hne] at this
        omega
    · simp only [setCl_cl, setCl_thr, setThr_cl]
      have hold := hn.ex c'
      have := hsum c'
      unfold ExOk at hold ⊢
      rw [get_modify]; split
      · rename_i hh
        rw [hh.1] at hold this ⊢
        intro hx
        -- the handler of c has exited: nobody works for c any more, so this step cannot happen
        have := (hold hx).2
        have hz := sumA_eq_zero_term s.thr (wAny c) this t ht
        simp [wAny, hp] at hz
      · rename_i hh
        have hne : c' ≠ c := fun e => hh ⟨e, hcs⟩
        rw [if_neg hne] at this
        intro hx
        obtain ⟨a, b⟩ := hold hx
        exact ⟨a, by omega⟩
  · rename_i hp
    injection hs with hs; subst hs
    intro hord
    apply ninv_signalThr
    exact upd _ (fun c => by simp [wAny, hp]) hord
  · simp at hs


/-- the acting client changes program point (not to or from `enqueue`), nothing else the two facts talk about -/
theorem nord_client_pc {s S0 : St} (c : Nat) (f : Client → Client) (h : NOrd s)
    (e1 : S0.ordered = s.ordered) (e2 : S0.cl = s.cl) (e3 : S0.thr = s.thr)
    (hf : (f s.cl[c]!).nthreads = s.cl[c]!.nthreads ∧ (f s.cl[c]!).hpc = s.cl[c]!.hpc ∧ (f s.cl[c]!).queue = s.cl[c]!.queue ∧
      pend (f s.cl[c]!).pc = pend s.cl[c]!.pc) : NOrd (setCl S0 c f) := by
  intro hord
  have h0 := nord_congr (s' := S0) h e1 e2 e3 (by simpa using hord)
  rw [← e2] at hf
  obtain ⟨a, b, c1, d⟩ := hf
  apply ninv_setCl_same c f h0
  · intro hn; unfold NOk at hn ⊢; rw [a, c1, d]; exact hn
  · intro he _; unfold ExOk at he ⊢; rw [b, c1]; exact he

theorem nord_stepClient {s s' : St} {c : Nat} (hE : Excl s) (hS : Sh s) (hP : PhAll s) (h : NOrd s)
    (hs : stepClient s c = some s') : NOrd s' := by
  unfold stepClient at hs
  split at hs
  case isFalse => simp at hs
  rename_i hc
  dsimp only at hs
  split at hs
  · simp at hs
  · rename_i hp
    injection hs with hs; subst hs
    exact nord_client_pc c _ h rfl rfl rfl ⟨rfl, rfl, rfl, by simp [pend, hp]⟩
  · rename_i hp
    injection hs with hs; subst hs
    exact nord_client_pc c _ h rfl rfl rfl ⟨rfl, rfl, rfl, by simp [pend, hp]⟩
  · simp at hs
  · rename_i hp
    split at hs
    · injection hs with hs; subst hs
      exact nord_client_pc c _ h rfl rfl rfl ⟨rfl, rfl, rfl, by simp [pend, hp]⟩
    · split at hs
      · injection hs with hs; subst hs
        exact nord_client_pc c _ h rfl rfl rfl ⟨rfl, rfl, rfl, by simp [pend, hp]⟩
      · split at hs
        · injection hs with hs; subst hs
          exact nord_client_pc c _ h rfl rfl rfl ⟨rfl, rfl, rfl, by simp [pend, hp]⟩
        · injection hs with hs; subst hs
          exact nord_client_pc c _ h rfl rfl rfl ⟨rfl, rfl, rfl, by simp [pend, hp]⟩
  · rename_i hp
    injection hs with hs; subst hs
    have h1 : NOrd { s with thr := s.thr.push {} } := by
      intro hord
      have hn := h hord
      have hsum : ∀ c', sumA (s.thr.push {}) (wAny c') = sumA s.thr (wAny c') := by
        intro c'; rw [sumA_push]; simp [wAny]
      exact ⟨fun c' => by show NOk (s.thr.push {}) c' s.cl[c']!; unfold NOk; rw [hsum]; exact hn.n c',
        fun c' => by show ExOk (s.thr.push {}) c' s.cl[c']!; unfold ExOk; rw [hsum]; exact hn.ex c'⟩
    exact nord_client_pc c _ h1 rfl rfl rfl ⟨rfl, rfl, rfl, by simp [pend, hp]⟩
  · -- assign: one more worker for c, one more job pending
    rename_i t hp
    injection hs with hs; subst hs
    intro hord
    have hord' : s.ordered = false := hord
    apply ninv_signalThr
    have hn := h hord'
    have hm : t ∈ clView s.ordered s.cl[c]! := mem_view_assign hp
    obtain ⟨_, _, _, e4, _, _⟩ := hE.client hm
    have hid : SIdle s.thr[t]! := ((hS t).cl c).assign hp
    generalize hg : (fun th : Thr =>
      ({ th with rq := if s.ordered then none else some c, cb := some s.cl[c]!.nextJob, running := true } : Thr)) = g
    have hgrq : (g s.thr[t]!).rq = some c := by rw [← hg]; simp [hord']
    have hgpc : (g s.thr[t]!).pc = s.thr[t]!.pc := by rw [← hg]
    have hpcne : ∀ c', s.thr[t]!.pc ≠ .selfEnq c' := by
      intro c' e; have := hid.1; rw [e] at this; simp [isTop] at this
    have hsum : ∀ c', sumA (setThr s t g).thr (wAny c') = sumA s.thr (wAny c') + (if c' = c then 1 else 0) := by
      intro c'
      have := sumA_setThr s t g (wAny c')
      rw [if_pos e4, if_pos e4] at this
      have h1 : wAny c' s.thr[t]! = 0 := by simp [wAny, hid.2.2.2.2, hpcne]
      have h2 : wAny c' (g s.thr[t]!) = if c' = c then 1 else 0 := by
        simp only [wAny, hgrq, hgpc, hpcne, or_false, Option.some.injEq]
        by_cases hcc : c' = c
        · subst hcc; simp
        · have : ¬ c = c' := fun e => hcc e.symm
          simp [hcc, this]
      rw [h1, h2] at this; omega
    have hfin : s.cl[c]!.hpc = .exited → False := by
      intro hx
      have := (hP c).flag ((hP c).exit hx).1
      rw [hp] at this; rcases this with e | e <;> cases e
    refine ⟨fun c' => ?_, fun c' => ?_⟩
    · simp only [setCl_cl, setCl_thr, setThr_cl]
      have hold := hn.n c'
      unfold NOk at hold ⊢
      rw [hsum, get_modify]; split
      · rename_i hh
        rw [hh.1] at hold ⊢
        simp only [pend, hp, if_true] at hold ⊢
        simp at hold ⊢; omega
      · rename_i hh
        have hne : c' ≠ c := fun e => hh ⟨e, hc⟩
        rw [if_neg hne]; simpa using hold
    · simp only [setCl_cl, setCl_thr, setThr_cl]
      have hold := hn.ex c'
      unfold ExOk at hold ⊢
      rw [hsum, get_modify]; split
      · rename_i hh
        rw [hh.1]
        intro hx; exact absurd hx hfin
      · rename_i hh
        have hne : c' ≠ c := fun e => hh ⟨e, hc⟩
        rw [if_neg hne]; simpa using hold
  · -- enqueue: the counter catches up
    rename_i t hp
    injection hs with hs; subst hs
    have hX : NOrd (setCl s c fun cl =>
        { cl with nthreads := cl.nthreads + 1, queue := if s.ordered then cl.queue ++ [t] else cl.queue,
                  pc := .next false, nextJob := cl.nextJob + 1 }) := by
      intro hord
      have hord' : s.ordered = false := hord
      apply ninv_setCl_same c _ (h hord')
      · intro hn; unfold NOk at hn ⊢
        simp only [pend, hp, hord'] at hn ⊢
        simp at hn ⊢; omega
      · intro he _; unfold ExOk at he ⊢
        simp only [hord']; simpa using he
    by_cases ho : s.ordered = true
    · simp only [setCl_ordered, ho, if_true]
      intro hord
      have : s.ordered = false := hord
      rw [this] at ho; cases ho
    · simp only [setCl_ordered, ho, if_false] at hX ⊢
      exact hX
  · rename_i hp
    injection hs with hs; subst hs
    intro hord
    apply ninv_signalRq
    exact nord_client_pc c _ h rfl rfl rfl ⟨rfl, rfl, rfl, by simp [pend, hp]⟩ hord
  · rename_i hp
    split at hs
    · injection hs with hs; subst hs
      exact nord_client_pc c _ h rfl rfl rfl ⟨rfl, rfl, rfl, by simp [pend, hp]⟩
    · simp at hs
  · simp at hs

theorem nord_stepHandler {s s' : St} {c k : Nat} (hP : PhAll s) (h : NOrd s) (hs : stepHandler s c k = some s') : NOrd s' := by
  unfold stepHandler at hs
  split at hs
  case isFalse => simp at hs
  rename_i hc
  dsimp only at hs
  split at hs
  · simp at hs
  -- a step that keeps nthreads and the queue, and does not exit
  have keep : ∀ (S0 : St) (f : Client → Client), (S0.ordered = false → NInv S0) → S0.cl = s.cl →
      ((f s.cl[c]!).nthreads = s.cl[c]!.nthreads ∧ (f s.cl[c]!).queue = s.cl[c]!.queue ∧ (f s.cl[c]!).pc = s.cl[c]!.pc ∧
        (f s.cl[c]!).hpc ≠ .exited) → NOrd (setCl S0 c f) := by
    intro S0 f h0' e2 hf hord
    have h0 := h0' (by simpa using hord)
    rw [← e2] at hf
    obtain ⟨a, b, c1, d⟩ := hf
    apply ninv_setCl_same c f h0
    · intro hn; unfold NOk at hn ⊢; rw [a, b, c1]; exact hn
    · intro _ _ hx; exact absurd hx d
  have hplain : s.ordered = false → NInv s := h
  split at hs
  · simp at hs
  · rename_i hp
    split at hs
    · rename_i t rest hq
      injection hs with hs; subst hs
      intro hord
      apply ninv_setCl_same c _ (h hord)
      · intro hn; unfold NOk at hn ⊢
        simp only [hq, List.length_cons] at hn ⊢
        omega
      · intro _ _ hx; cases hx
    · rename_i hq
      split at hs
      · -- exit: queue empty, told to finish, nothing outstanding
        rename_i hfin
        injection hs with hs; subst hs
        intro hord
        have hord' : s.ordered = false := hord
        have hn := h hord'
        simp only [Bool.and_eq_true, beq_iff_eq] at hfin
        apply ninv_setCl_same c _ hn
        · intro hn'; exact hn'
        · intro _ hn' _
          unfold NOk at hn'
          have hpc := (hP c).flag hfin.1
          have hpend : pend s.cl[c]!.pc = 0 := by rcases hpc with e | e <;> simp [pend, e]
          rw [hfin.2, hq, hpend] at hn'
          refine ⟨hq, ?_⟩
          simp at hn'; omega
      · injection hs with hs; subst hs
        exact keep s _ hplain rfl ⟨rfl, rfl, rfl, by simp⟩
  · simp at hs
  · rename_i t hp
    split at hs <;> (injection hs with hs; subst hs)
    · exact keep s _ hplain rfl ⟨rfl, rfl, rfl, by simp⟩
    · exact keep (setThr s t fun th => { th with res := none }) _
        (fun ho => ninv_setThr t _ (h ho) (fun _ => rfl)) rfl ⟨rfl, rfl, rfl, by simp⟩
  · rename_i t r hp
    injection hs with hs; subst hs
    intro hord
    have hord' : s.ordered = false := by
      have : (signalPool (setCl { s with idle := t :: s.idle } c fun cl => { cl with hpc := .callback r }) k).ordered
          = s.ordered := by
        unfold signalPool; split
        · rfl
        · dsimp only; split <;> rfl
      rw [← this]; exact hord
    apply ninv_signalPool
    exact keep { s with idle := t :: s.idle } _ (fun ho => ⟨(h ho).n, (h ho).ex⟩) rfl ⟨rfl, rfl, rfl, by simp⟩ hord'
  · injection hs with hs; subst hs
    exact keep s _ hplain rfl ⟨rfl, rfl, rfl, by simp⟩
  · simp at hs


theorem nord_spurious {s s' : St} {w : Who} (h : NOrd s) (hs : step s (.spurious w) = some s') : NOrd s' := by
  cases w with
  | owner =>
    simp only [step] at hs
    split at hs
    · injection hs with hs; subst hs; exact nord_congr h rfl rfl rfl
    · simp at hs
  | client c =>
    simp only [step] at hs
    split at hs
    · rename_i hp
      injection hs with hs; subst hs
      have hp' : s.cl[c]!.pc = .next true := by
        cases hx : s.cl[c]? with
        | none => simp [hx] at hp
        | some x => simp [hx] at hp; simp [getElem!_def, hx, hp]
      exact nord_client_pc c _ h rfl rfl rfl ⟨rfl, rfl, rfl, by simp [pend, hp']⟩
    · simp at hs
  | handler c =>
    simp only [step] at hs
    split at hs
    · injection hs with hs; subst hs
      intro hord
      apply ninv_setCl_same c _ (h hord)
      · intro hn; exact hn
      · intro _ _ hx; cases hx
    · injection hs with hs; subst hs
      intro hord
      apply ninv_setCl_same c _ (h hord)
      · intro hn; exact hn
      · intro _ _ hx; cases hx
    · simp at hs
  | worker t =>
    simp only [step] at hs
    split at hs
    · rename_i hp
      injection hs with hs; subst hs
      have hp' : s.thr[t]!.pc = .top true := by
        cases hx : s.thr[t]? with
        | none => simp [hx] at hp
        | some x => simp [hx] at hp; simp [getElem!_def, hx, hp]
      intro hord
      exact ninv_setThr t _ (h hord) (fun c => by simp [wAny, hp'])
    · simp at hs

theorem nord_init (n max njobs : Nat) (o : Bool) : NOrd (init n max njobs o) := by
  intro _
  have hz : ∀ c, sumA (init n max njobs o).thr (wAny c) = 0 := by intro c; simp [init, sumA]
  have hcl : ∀ c : Nat, (init n max njobs o).cl[c]! = {} ∨ (init n max njobs o).cl[c]! = default := by
    intro c
    by_cases hc : c < n
    · left; simp [init, hc]
    · right; simp [init, hc]
  have d2 : (default : Client).hpc = .deq false := by decide
  refine ⟨fun c => ?_, fun c => ?_⟩
  · unfold NOk; rw [hz]
    rcases hcl c with e | e <;> rw [e]
    · simp [pend]
    · have d1 : (default : Client).nthreads = 0 := rfl
      have d3 : (default : Client).queue = [] := rfl
      have d5 : (default : Client).pc = .idle := rfl
      simp [pend, d1, d3, d5]
  · unfold ExOk
    rcases hcl c with e | e <;> rw [e]
    · intro hx; cases hx
    · rw [d2]; intro hx; cases hx

theorem nord_reachable {n max njobs : Nat} {o : Bool} {s : St} (hr : Reachable n max njobs o s) : NOrd s := by
  induction hr with
  | init => exact nord_init _ _ _ _
  | @step s1 s2 l hr' hs ih =>
    have hI := inv_reachable hr'
    have hW := wk_reachable hr'
    have hU := uord_reachable hr'
    have hP := ph_reachable hr'
    cases l with
    | spurious w => exact nord_spurious ih hs
    | run w k =>
      cases w with
      | owner => exact nord_stepOwner hW hU ih hs
      | client c => exact nord_stepClient hI.1 hI.2 hP ih hs
      | handler c => exact nord_stepHandler hP ih hs
      | worker t => exact nord_stepWorker hI.2 hU ih hs

/-! ### what it means for a client -/
theorem wj_le_wAny (c : Nat) (x : Option Nat) (th : Thr) : wj c x th ≤ wAny c th := by
  unfold wj wAny
  split
  · rename_i hh; rw [if_pos hh.1]; exact Nat.le_refl _
  · split <;> omega

theorem sumA_mono {α : Type} (a : Array α) (f g : α → Nat) (h : ∀ x, f x ≤ g x) : sumA a f ≤ sumA a g := by
  unfold sumA
  induction a.toList with
  | nil => simp
  | cons x l ih => simp only [List.map_cons, List.sum_cons]; have := h x; omega

/-- UNORDERED DELIVERY, any number of clients on the pool: every client is delivered each result at most once, never a
    missing result (`none`), and only results of jobs it has dispatched -/
theorem unordered_at_most_once {n max njobs : Nat} {o : Bool} {s : St} (hr : Reachable n max njobs o s)
    (ho : s.ordered = false) (c : Nat) :
    s.cl[c]!.delivered.count none = 0 ∧
    ∀ j : Nat, s.cl[c]!.delivered.count (some j) ≤ 1 ∧
      (0 < s.cl[c]!.delivered.count (some j) → j < s.cl[c]!.nextJob + pend s.cl[c]!.pc) := by
  have hu := uord_reachable hr ho
  refine ⟨?_, fun j => ?_⟩
  · have := hu.cnt c none
    simp only [cntU, want] at this; omega
  · have := hu.cnt c (some j)
    simp only [cntU, want] at this
    split at this
    · rename_i hj; exact ⟨by omega, fun _ => hj⟩
    · exact ⟨by omega, fun hpos => by omega⟩

theorem count_range_some (n j : Nat) : ((List.range n).map some).count (some j) = if j < n then 1 else 0 := by
  induction n with
  | zero => simp
  | succ n ih =>
    rw [List.range_succ, List.map_append, List.count_append, ih]
    simp only [List.map_cons, List.map_nil, List.count_cons, List.count_nil]
    by_cases h1 : j < n
    · have : ¬ n = j := by omega
      have h2 : j < n + 1 := by omega
      simp [h1, h2, this]
    · by_cases h3 : n = j
      · subst h3; simp
      · have h2 : ¬ j < n + 1 := by omega
        simp [h1, h2, h3]

theorem count_range_none (n : Nat) : ((List.range n).map some).count (none : Option Nat) = 0 := by
  induction n with
  | zero => simp
  | succ n ih => rw [List.range_succ, List.map_append, List.count_append, ih]; simp

/-- … and when the client's thread has returned it has been delivered the results of ALL its jobs, each exactly once (as a
    permutation of the submissions): what the pooled sorter needs from the pool, for any number of sorters sharing it -/
theorem unordered_complete {n max njobs : Nat} {o : Bool} {s : St} (hr : Reachable n max njobs o s)
    (ho : s.ordered = false) (c : Nat) (hd : s.cl[c]!.pc = .done) :
    s.cl[c]!.delivered.Perm ((List.range s.njobs).map some) := by
  have hu := uord_reachable hr ho
  have hn := nord_reachable hr ho
  have hP := ph_reachable hr c
  have he := hP.done hd
  obtain ⟨hq, hw⟩ := hn.ex c he
  have hnj := hP.fin (Or.inr (Or.inr hd))
  rw [List.perm_iff_count]
  intro x
  have hc := hu.cnt c x
  have hwj : sumA s.thr (wj c x) = 0 := by
    have := sumA_mono s.thr (wj c x) (wAny c) (wj_le_wAny c x); omega
  simp only [cntU, he, hq, hJob, hwj, List.map_nil, List.count_nil, Nat.add_zero] at hc
  rw [hc]
  cases x with
  | none => simp [want, count_range_none]
  | some j => simp only [want, pend, hd, hnj, Nat.add_zero, count_range_some]

end TpK
