import MtblModel.Res
import Mathlib.Algebra.Group.Defs
import Mathlib.Tactic.Abel
/-
  C18 — the ledger invariant of the resource machine (MtblModel/Res.lean):
      ledger  =  Σ (what each live object holds)  +  Σ (what each live shared fileset holds)  +  leaked
  is preserved by every step, for every request sequence whatsoever (ill-formed requests are no-ops of the machine).
  Hence: when everything has been destroyed the ledger equals `leaked`; and with the repaired sorter (`fixF6`, `fixF10`)
  nothing is ever leaked, so the ledger is back at zero.
-/
namespace Res

@[ext] theorem Ledger.ext' {a b : Ledger} (h1 : a.fds = b.fds) (h2 : a.maps = b.maps) (h3 : a.tmp = b.tmp)
    (h4 : a.heap = b.heap) : a = b := by
  cases a; cases b; simp_all

instance : Zero Ledger := ⟨Ledger.zero⟩
instance : Neg Ledger := ⟨fun a => ⟨-a.fds, -a.maps, -a.tmp, -a.heap⟩⟩

@[simp] theorem add_fds (a b : Ledger) : (a + b).fds = a.fds + b.fds := rfl
@[simp] theorem add_maps (a b : Ledger) : (a + b).maps = a.maps + b.maps := rfl
@[simp] theorem add_tmp (a b : Ledger) : (a + b).tmp = a.tmp + b.tmp := rfl
@[simp] theorem add_heap (a b : Ledger) : (a + b).heap = a.heap + b.heap := rfl
@[simp] theorem sub_fds (a b : Ledger) : (a - b).fds = a.fds - b.fds := rfl
@[simp] theorem sub_maps (a b : Ledger) : (a - b).maps = a.maps - b.maps := rfl
@[simp] theorem sub_tmp (a b : Ledger) : (a - b).tmp = a.tmp - b.tmp := rfl
@[simp] theorem sub_heap (a b : Ledger) : (a - b).heap = a.heap - b.heap := rfl
@[simp] theorem neg_fds (a : Ledger) : (-a).fds = -a.fds := rfl
@[simp] theorem neg_maps (a : Ledger) : (-a).maps = -a.maps := rfl
@[simp] theorem neg_tmp (a : Ledger) : (-a).tmp = -a.tmp := rfl
@[simp] theorem neg_heap (a : Ledger) : (-a).heap = -a.heap := rfl
@[simp] theorem zero_fds : (0 : Ledger).fds = 0 := rfl
@[simp] theorem zero_maps : (0 : Ledger).maps = 0 := rfl
@[simp] theorem zero_tmp : (0 : Ledger).tmp = 0 := rfl
@[simp] theorem zero_heap : (0 : Ledger).heap = 0 := rfl

instance : AddCommGroup Ledger where
  add_assoc a b c := by ext <;> simp <;> omega
  zero_add a := by ext <;> simp
  add_zero a := by ext <;> simp
  add_comm a b := by ext <;> simp <;> omega
  neg_add_cancel a := by ext <;> simp
  sub_eq_add_neg a b := by ext <;> simp <;> omega
  nsmul := nsmulRec
  zsmul := zsmulRec

theorem default_eq_zero : ({} : Ledger) = 0 := rfl

def sumL : List Ledger → Ledger
  | [] => 0
  | x :: xs => x + sumL xs

theorem sumL_append (a b : List Ledger) : sumL (a ++ b) = sumL a + sumL b := by
  induction a with
  | nil => simp [sumL]
  | cons x xs ih => simp only [List.cons_append, sumL, ih]; abel

theorem sumL_set (l : List Ledger) (i : Nat) (x : Ledger) (h : i < l.length) :
    sumL (l.set i x) = sumL l - l.getD i 0 + x := by
  induction l generalizing i with
  | nil => simp at h
  | cons y ys ih =>
    cases i with
    | zero => simp only [List.set_cons_zero, sumL, List.getD_cons_zero]; abel
    | succ j =>
      have hj : j < ys.length := by simpa using h
      simp only [List.set_cons_succ, sumL, List.getD_cons_succ, ih j hj]; abel

theorem sumL_replicate_zero (n : Nat) : sumL (List.replicate n 0) = 0 := by
  induction n with
  | zero => rfl
  | succ k ih => simp only [List.replicate_succ, sumL, ih]; abel

/-- everything accounted for -/
def total (s : St) : Ledger := sumL (s.objs.map holds) + sumL (s.sets.map holdsSet?) + s.leaked
def Inv (s : St) : Prop := s.ledger = total s

theorem holds_free : holds .free = 0 := rfl
theorem holds_null : holds .nullObj = 0 := rfl
theorem holdsSet?_none : holdsSet? none = 0 := rfl

theorem getD_map_holds (l : List Obj) (i : Nat) : (l.map holds).getD i 0 = holds (l.getD i .free) := by
  simp only [List.getD_eq_getElem?_getD, List.getElem?_map]
  cases l[i]? <;> simp [holds_free]

theorem getD_map_holdsSet (l : List (Option Shared)) (k : Nat) :
    (l.map holdsSet?).getD k 0 = holdsSet? (l.getD k none) := by
  simp only [List.getD_eq_getElem?_getD, List.getElem?_map]
  cases l[k]? <;> simp [holdsSet?_none]

/-- replacing the object in slot `i` and adjusting the ledger by the difference of what is held keeps the invariant -/
theorem inv_setObj {s : St} (h : Inv s) (i : Nat) (o : Obj) (hi : i < s.objs.length) (d : Ledger)
    (hd : d = s.ledger - holds (getObj s i) + holds o) : Inv (setObj { s with ledger := d } i o) := by
  unfold Inv total setObj at *
  simp only [List.map_set]
  rw [sumL_set _ _ _ (by simpa using hi), getD_map_holds, hd, h]
  simp only [getObj]; abel

theorem getSet_lt {s : St} {k : Nat} {sh : Shared} (h : getSet s k = some sh) : k < s.sets.length := by
  unfold getSet at h
  by_contra hc
  rw [List.getD_eq_getElem?_getD, List.getElem?_eq_none (by omega)] at h
  cases h

theorem inv_putSet {s : St} (h : Inv s) (k : Nat) (sh sh' : Shared) (hk : getSet s k = some sh) (d : Ledger)
    (hd : d = s.ledger - holdsSet sh + holdsSet sh') : Inv (putSet { s with ledger := d } k sh') := by
  have hlt := getSet_lt hk
  unfold Inv total putSet at *
  simp only [List.map_set]
  rw [sumL_set _ _ _ (by simpa using hlt), getD_map_holdsSet]
  unfold getSet at hk
  rw [hk, hd, h]; simp only [holdsSet?]; abel

/-- a change of a shared set that leaves its `loaded` list alone does not touch the ledger -/
theorem inv_putSet_same {s : St} (h : Inv s) (k : Nat) (sh sh' : Shared) (hk : getSet s k = some sh)
    (hl : sh'.loaded = sh.loaded) : Inv (putSet s k sh') := by
  have := inv_putSet h k sh sh' hk s.ledger (by unfold holdsSet; rw [hl]; abel)
  simpa using this

theorem inv_dropSet {s : St} (h : Inv s) (k : Nat) (sh : Shared) (hk : getSet s k = some sh) :
    Inv (dropSet { s with ledger := s.ledger - holdsSet sh } k) := by
  have hlt := getSet_lt hk
  unfold Inv total dropSet at *
  simp only [List.map_set]
  rw [sumL_set _ _ _ (by simpa using hlt), getD_map_holdsSet]
  unfold getSet at hk
  rw [hk, h]; simp only [holdsSet?]; abel

theorem inv_create {s : St} (h : Inv s) (i : Nat) (o : Obj) : Inv (create s i o) := by
  unfold create
  split
  · rename_i hi
    split
    · rename_i hf
      exact inv_setObj h i o hi _ (by rw [hf, holds_free]; abel)
    · exact h
  · exact h

theorem inv_doReload {s : St} (h : Inv s) (k : Nat) : Inv (doReload s k) := by
  unfold doReload
  split
  · exact h
  · rename_i sh hk
    split
    · exact inv_putSet_same h k sh _ hk rfl
    · split
      · exact inv_putSet_same h k sh _ hk rfl
      ·         exact inv_putSet h k sh _ hk _ rfl

theorem inv_reloadCheck {s : St} (h : Inv s) (k : Nat) : Inv (reloadCheck s k) := by
  unfold reloadCheck
  split
  · exact h
  · split
    · exact h
    · split
      · exact h
      · exact inv_doReload h k

theorem inv_pinAll {s : St} (h : Inv s) (pins : List Nat) : Inv (pinAll s pins) := by
  unfold pinAll
  induction pins generalizing s with
  | nil => exact h
  | cons k ks ih =>
    simp only [List.foldl_cons]
    apply ih
    have h1 := inv_reloadCheck h k
    split
    · rename_i sh hk
      exact inv_putSet_same h1 k sh _ hk rfl
    · exact h1

theorem inv_unpin {s : St} (h : Inv s) (pins : List Nat) :
    Inv (pins.foldl (fun s k => match getSet s k with
      | none => s
      | some sh => reloadCheck (putSet s k { sh with nIters := sh.nIters - 1 }) k) s) := by
  induction pins generalizing s with
  | nil => exact h
  | cons k ks ih =>
    simp only [List.foldl_cons]
    apply ih
    split
    · exact h
    · rename_i sh hk
      exact inv_reloadCheck (inv_putSet_same h k sh { sh with nIters := sh.nIters - 1 } hk rfl) k

theorem objs_length_setObj (s : St) (i : Nat) (o : Obj) : (setObj s i o).objs.length = s.objs.length := by
  simp [setObj]

theorem inv_destroyObj {s : St} (h : Inv s) (i : Nat) : Inv (destroyObj s i) := by
  unfold destroyObj
  by_cases hi : i < s.objs.length
  · have h1 : Inv (setObj { s with ledger := s.ledger - holds (getObj s i) } i .free) :=
      inv_setObj h i .free hi _ (by rw [holds_free]; abel)
    cases ho : getObj s i with
    | sorter ss =>
      simp only [ho] at h1 ⊢
      unfold Inv total at *
      simp only [setObj] at *
      rw [h1]; abel
    | fileset k =>
      simp only [ho] at h1 ⊢
      split
      · exact h1
      · rename_i sh hk
        split
        · exact inv_dropSet h1 k sh hk
        · exact inv_putSet_same h1 k sh _ hk rfl
    | iter pins =>
      simp only [ho] at h1 ⊢
      exact inv_unpin h1 pins
    | free => simpa [ho] using h1
    | pool => simpa [ho] using h1
    | writer => simpa [ho] using h1
    | nullObj => simpa [ho] using h1
    | reader => simpa [ho] using h1
    | merger srcs => simpa [ho] using h1
  · -- no such slot: the object read is `.free`, nothing changes but a no-op `set`
    have hfree : getObj s i = .free := by
      unfold getObj; rw [List.getD_eq_getElem?_getD, List.getElem?_eq_none (by omega)]; rfl
    have hset : s.objs.set i Obj.free = s.objs := List.set_eq_of_length_le (by omega)
    simp only [hfree, holds_free]
    unfold Inv total setObj at *
    simp only [hset, h]; abel

theorem inv_updSorter {s : St} (h : Inv s) (i : Nat) (ss ss' : SSt) (ho : getObj s i = .sorter ss) :
    Inv (setObj { s with ledger := s.ledger - holds (.sorter ss) + holds (.sorter ss') } i (.sorter ss')) := by
  have hi : i < s.objs.length := by
    by_contra hc
    have : getObj s i = .free := by unfold getObj; rw [List.getD_eq_getElem?_getD, List.getElem?_eq_none (by omega)]; rfl
    rw [this] at ho; cases ho
  exact inv_setObj h i _ hi _ (by rw [ho])

theorem inv_step {s : St} (h : Inv s) (op : Op) : Inv (step s op) := by
  cases op with
  | table t n => exact h
  | bad t => exact h
  | setfile sid ts => exact h
  | pool i => exact inv_create h i _
  | writer i ex => exact inv_create h i _
  | wadd i => exact h
  | reader i t => exact inv_create h i _
  | merger i srcs => exact inv_create h i _
  | sorter i ss => exact inv_create h i _
  | sadd i key vlen =>
    simp only [step]
    split
    · rename_i ss ho
      exact inv_updSorter h i ss _ ho
    · exact h
  | siter i sid =>
    simp only [step]
    split
    · rename_i ss ho _
      exact inv_create (inv_updSorter h sid ss _ ho) i _
    · exact h
  | swrite sid =>
    simp only [step]
    split
    · rename_i ss ho
      split
      · exact h
      · exact inv_updSorter h sid ss _ ho
    · exact h
  | fileset i sid =>
    simp only [step]
    split
    · split
      · apply inv_create
        unfold Inv total at *
        simp only [List.map_append, List.map_cons, List.map_nil, sumL_append, sumL, holdsSet?, h]
        abel
      · exact h
    · exact h
  | fsdup i orig =>
    simp only [step]
    split
    · rename_i k ho _
      split
      · rename_i sh hk
        exact inv_create (inv_putSet_same h k sh { sh with refs := sh.refs + 1 } hk rfl) i _
      · exact h
    · exact h
  | fsreload i =>
    simp only [step]
    split
    · rename_i k ho
      split
      · rename_i sh hk
        split
        · exact inv_putSet_same h k sh _ hk rfl
        · exact inv_doReload h k
      · exact h
    · exact h
  | iter i src =>
    simp only [step]
    split
    · split
      · exact inv_create (inv_pinAll h _) i _
      · exact inv_create h i _
      · exact inv_create (inv_pinAll h _) i _
      · exact h
    · exact h
  | use i => exact h
  | destroy i => exact inv_destroyObj h i

theorem inv_init : Inv ({} : St) := by
  unfold Inv total
  show ({} : Ledger) = sumL ((List.replicate 64 Obj.free).map holds) + sumL ([].map holdsSet?) + ({} : Ledger)
  rw [List.map_replicate, holds_free, sumL_replicate_zero]
  simp only [List.map_nil, sumL, default_eq_zero]; abel

theorem inv_run {s : St} (h : Inv s) (ops : List Op) : Inv (run s ops) := by
  unfold run
  induction ops generalizing s with
  | nil => exact h
  | cons op ops ih => exact ih (inv_step h op)

/-- when nothing is alive, every held amount is zero -/
theorem sumL_zero_of_all {α : Type} (l : List α) (f : α → Ledger) (h : ∀ x ∈ l, f x = 0) : sumL (l.map f) = 0 := by
  induction l with
  | nil => rfl
  | cons y ys ih =>
    simp only [List.map_cons, sumL, h y (by simp), ih (fun x hx => h x (by simp [hx]))]; abel

theorem total_of_allFree {s : St} (h : allFree s = true) : total s = s.leaked := by
  unfold allFree at h
  simp only [Bool.and_eq_true, List.all_eq_true] at h
  unfold total
  rw [sumL_zero_of_all _ _ (fun o ho => by
        have := h.1 o ho
        cases o <;> simp_all [isFree, holds_free, holds_null]),
      sumL_zero_of_all _ _ (fun o ho => by
        have := h.2 o ho
        cases o <;> simp_all [holdsSet?_none])]
  abel

/-! ### nothing leaks with the repaired sorter -/

def sorterClean : Obj → Prop
  | .sorter ss => ss.leakedFds = 0 ∧ ss.leakedHeap = 0
  | _ => True

def Clean (s : St) : Prop := s.fixF6 = true ∧ s.fixF10 = true ∧ s.leaked = 0 ∧ ∀ o ∈ s.objs, sorterClean o

theorem flushChunk_clean (ss : SSt) (h : ss.leakedFds = 0 ∧ ss.leakedHeap = 0) :
    (flushChunk true true ss).leakedFds = 0 ∧ (flushChunk true true ss).leakedHeap = 0 := by
  unfold flushChunk
  simp only [↓reduceIte, Nat.add_zero]
  split
  · simp [h.1, h.2]
    split <;> exact ⟨rfl, rfl⟩
  · simp [h.1, h.2]

theorem sorterAdd_clean (ss : SSt) (k v : Nat) (h : ss.leakedFds = 0 ∧ ss.leakedHeap = 0) :
    (sorterAdd true true ss k v).2.leakedFds = 0 ∧ (sorterAdd true true ss k v).2.leakedHeap = 0 := by
  unfold sorterAdd
  split
  · exact h
  · simp only
    split
    · exact flushChunk_clean _ h
    · exact h

theorem sorterIter_clean (ss : SSt) (h : ss.leakedFds = 0 ∧ ss.leakedHeap = 0) :
    (sorterIter true true ss).2.leakedFds = 0 ∧ (sorterIter true true ss).2.leakedHeap = 0 := by
  unfold sorterIter
  simp only
  generalize hss1 : (if ss.keys.length > 0 then flushChunk true true ss else ss) = ss1
  have h1 : ss1.leakedFds = 0 ∧ ss1.leakedHeap = 0 := by
    rw [← hss1]
    split
    · exact flushChunk_clean _ h
    · exact h
  split <;> simp [h1.1, h1.2]

theorem mem_set_cases {α : Type} {l : List α} {i : Nat} {x y : α} (h : y ∈ l.set i x) : y = x ∨ y ∈ l := by
  induction l generalizing i with
  | nil => simp at h
  | cons z zs ih =>
    cases i with
    | zero => simp at h; rcases h with h | h <;> simp [h]
    | succ j =>
      simp at h
      rcases h with h | h
      · simp [h]
      · rcases ih h with h' | h' <;> simp [h']

theorem getObj_mem_or_free (s : St) (i : Nat) : getObj s i = .free ∨ getObj s i ∈ s.objs := by
  unfold getObj
  by_cases hi : i < s.objs.length
  · right; rw [List.getD_eq_getElem?_getD, List.getElem?_eq_getElem hi]; exact List.getElem_mem hi
  · left; rw [List.getD_eq_getElem?_getD, List.getElem?_eq_none (by omega)]; rfl

theorem clean_getObj {s : St} (h : Clean s) (i : Nat) : sorterClean (getObj s i) := by
  rcases getObj_mem_or_free s i with hf | hm
  · rw [hf]; trivial
  · exact h.2.2.2 _ hm

/-- a step that only rewrites shared-set bookkeeping or the ledger keeps `Clean` -/
theorem clean_of_same {s s' : St} (h : Clean s) (h1 : s'.fixF6 = s.fixF6) (h2 : s'.fixF10 = s.fixF10)
    (h3 : s'.leaked = s.leaked) (h4 : s'.objs = s.objs) : Clean s' :=
  ⟨h1 ▸ h.1, h2 ▸ h.2.1, h3 ▸ h.2.2.1, h4 ▸ h.2.2.2⟩

theorem clean_setObj {s : St} (h : Clean s) (i : Nat) (o : Obj) (ho : sorterClean o) (d : Ledger) :
    Clean (setObj { s with ledger := d } i o) := by
  refine ⟨h.1, h.2.1, h.2.2.1, ?_⟩
  intro x hx
  simp only [setObj] at hx
  rcases mem_set_cases hx with hx | hx
  · rw [hx]; exact ho
  · exact h.2.2.2 x hx

theorem doReload_same (s : St) (k : Nat) : (doReload s k).fixF6 = s.fixF6 ∧ (doReload s k).fixF10 = s.fixF10 ∧
    (doReload s k).leaked = s.leaked ∧ (doReload s k).objs = s.objs := by
  unfold doReload putSet
  split
  · simp
  · split
    · simp
    · split <;> simp

theorem reloadCheck_same (s : St) (k : Nat) : (reloadCheck s k).fixF6 = s.fixF6 ∧
    (reloadCheck s k).fixF10 = s.fixF10 ∧ (reloadCheck s k).leaked = s.leaked ∧ (reloadCheck s k).objs = s.objs := by
  unfold reloadCheck
  split
  · simp
  · split
    · simp
    · split
      · simp
      · exact doReload_same s k

theorem clean_reloadCheck {s : St} (h : Clean s) (k : Nat) : Clean (reloadCheck s k) :=
  let r := reloadCheck_same s k
  clean_of_same h r.1 r.2.1 r.2.2.1 r.2.2.2

theorem clean_putSet {s : St} (h : Clean s) (k : Nat) (sh : Shared) : Clean (putSet s k sh) :=
  clean_of_same h rfl rfl rfl rfl

theorem clean_pinAll {s : St} (h : Clean s) (pins : List Nat) : Clean (pinAll s pins) := by
  unfold pinAll
  induction pins generalizing s with
  | nil => exact h
  | cons k ks ih =>
    simp only [List.foldl_cons]
    apply ih
    split
    · exact clean_putSet (clean_reloadCheck h k) k _
    · exact clean_reloadCheck h k

theorem clean_unpin {s : St} (h : Clean s) (pins : List Nat) :
    Clean (pins.foldl (fun s k => match getSet s k with
      | none => s
      | some sh => reloadCheck (putSet s k { sh with nIters := sh.nIters - 1 }) k) s) := by
  induction pins generalizing s with
  | nil => exact h
  | cons k ks ih =>
    simp only [List.foldl_cons]
    apply ih
    split
    · exact h
    · exact clean_reloadCheck (clean_putSet h k _) k

theorem clean_create {s : St} (h : Clean s) (i : Nat) (o : Obj) (ho : sorterClean o) : Clean (create s i o) := by
  unfold create
  split
  · split
    · exact clean_setObj h i o ho _
    · exact h
  · exact h

theorem clean_step {s : St} (h : Clean s) (op : Op) (hop : ∀ i ss, op = .sorter i ss → ss.leakedFds = 0 ∧ ss.leakedHeap = 0) :
    Clean (step s op) := by
  have f6 := h.1; have f10 := h.2.1
  cases op with
  | table t n => exact clean_of_same h rfl rfl rfl rfl
  | bad t => exact clean_of_same h rfl rfl rfl rfl
  | setfile sid ts => exact clean_of_same h rfl rfl rfl rfl
  | pool i => exact clean_create h i .pool trivial
  | writer i ex =>
    simp only [step]
    apply clean_create
    · exact h
    · split <;> trivial
  | wadd i => exact h
  | reader i t =>
    simp only [step]
    apply clean_create
    · exact h
    · split <;> trivial
  | merger i srcs => exact clean_create h i (.merger srcs) trivial
  | sorter i ss => exact clean_create h i (.sorter ss) (hop i ss rfl)
  | sadd i key vlen =>
    simp only [step]
    split
    · rename_i ss ho
      have hc := clean_getObj h i; rw [ho] at hc
      have e : sorterAdd s.fixF6 s.fixF10 ss key vlen = sorterAdd true true ss key vlen := by rw [f6, f10]
      rw [e]
      exact clean_setObj h i (.sorter (sorterAdd true true ss key vlen).2) (sorterAdd_clean ss key vlen hc) _
    · exact h
  | siter i sid =>
    simp only [step]
    split
    · rename_i ss ho _
      have hc := clean_getObj h sid; rw [ho] at hc
      have e : sorterIter s.fixF6 s.fixF10 ss = sorterIter true true ss := by rw [f6, f10]
      rw [e]
      apply clean_create
      · exact clean_setObj h sid (.sorter (sorterIter true true ss).2) (sorterIter_clean ss hc) _
      · split <;> trivial
    · exact h
  | swrite sid =>
    simp only [step]
    split
    · rename_i ss ho
      split
      · exact h
      · have hc := clean_getObj h sid; rw [ho] at hc
        have e : sorterIter s.fixF6 s.fixF10 ss = sorterIter true true ss := by rw [f6, f10]
        rw [e]
        exact clean_setObj h sid (.sorter (sorterIter true true ss).2) (sorterIter_clean ss hc) _
    · exact h
  | fileset i sid =>
    simp only [step]
    split
    · split
      · apply clean_create
        · exact clean_of_same h rfl rfl rfl rfl
        · trivial
      · exact h
    · exact h
  | fsdup i orig =>
    simp only [step]
    split
    · split
      · apply clean_create
        · exact clean_putSet h _ _
        · trivial
      · exact h
    · exact h
  | fsreload i =>
    simp only [step]
    split
    · split
      · split
        · exact clean_putSet h _ _
        · let r := doReload_same s ‹Nat›
          exact clean_of_same h r.1 r.2.1 r.2.2.1 r.2.2.2
      · exact h
    · exact h
  | iter i src =>
    simp only [step]
    split
    · split
      · apply clean_create
        · exact clean_pinAll h _
        · trivial
      · apply clean_create
        · exact h
        · trivial
      · apply clean_create
        · exact clean_pinAll h _
        · trivial
      · exact h
    · exact h
  | use i => exact h
  | destroy i =>
    simp only [step, destroyObj]
    have hbase : Clean (setObj { s with ledger := s.ledger - holds (getObj s i) } i .free) :=
      clean_setObj h i .free trivial _
    cases ho : getObj s i with
    | sorter ss =>
      have hc := clean_getObj h i; rw [ho] at hc
      simp only [ho] at hbase ⊢
      refine ⟨hbase.1, hbase.2.1, ?_, hbase.2.2.2⟩
      show (setObj _ i Obj.free).leaked + _ = 0
      have hl : (setObj { s with ledger := s.ledger - holds (.sorter ss) } i Obj.free).leaked = 0 := hbase.2.2.1
      rw [hl, hc.1, hc.2]; rfl
    | fileset k =>
      simp only [ho] at hbase ⊢
      split
      · exact hbase
      · split
        · exact clean_of_same hbase rfl rfl rfl rfl
        · exact clean_putSet hbase _ _
    | iter pins =>
      simp only [ho] at hbase ⊢
      exact clean_unpin hbase pins
    | free => simpa [ho] using hbase
    | pool => simpa [ho] using hbase
    | writer => simpa [ho] using hbase
    | nullObj => simpa [ho] using hbase
    | reader => simpa [ho] using hbase
    | merger srcs => simpa [ho] using hbase

theorem clean_init : Clean ({} : St) := by
  refine ⟨rfl, rfl, rfl, ?_⟩
  intro o ho
  have : o = .free := by
    have := List.eq_of_mem_replicate ho
    exact this
  rw [this]; trivial

/-- requests create sorters with nothing leaked yet (the only way a request can mention leak counters) -/
def freshSorters (ops : List Op) : Prop := ∀ op ∈ ops, ∀ i ss, op = .sorter i ss → ss.leakedFds = 0 ∧ ss.leakedHeap = 0

theorem clean_run {s : St} (h : Clean s) (ops : List Op) (hf : freshSorters ops) : Clean (run s ops) := by
  unfold run
  induction ops generalizing s with
  | nil => exact h
  | cons op ops ih =>
    exact ih (clean_step h op (hf op (by simp))) (fun o ho => hf o (by simp [ho]))

end Res
