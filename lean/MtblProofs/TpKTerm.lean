import MtblProofs.TpKDead
/-
  The k-client pool machine: a PROGRESS MEASURE.  `Phi : St → Nat` such that in every reachable state every real step of
  any thread (owner, callers, handlers, workers) strictly decreases `Phi` and a spurious wake-up increases it by at most
  one.  Hence along EVERY schedule the number of real steps is at most `Phi (init …)` plus the number of spurious wake-ups:
  with `no_deadlock`, every maximal execution with finitely many spurious wake-ups ends with the owner back from
  `threadpool_destroy`.
-/
set_option linter.unusedSimpArgs false
set_option linter.unusedVariables false
namespace TpK

/-! ### the potential -/
def wP (th : Thr) : Nat := match th.pc with
  | .top _ => if th.running then (if th.cb.isSome then 3 + (if th.rq.isSome then 4 else 0) else 2) else 0
  | .gotJob => if th.cb.isSome then 2 + (if th.rq.isSome then 4 else 0) else 1
  | .selfEnq _ => 5
  | .doneOrd => 1
  | .exited => 0
def wW (th : Thr) : Nat := if th.pc = .top false then 1 else 0
def wPot (th : Thr) : Nat := 8 * wP th + wW th

def cPf (pc : CPc) (njobs nextJob : Nat) : Nat := match pc with
  | .idle => 16 * njobs + 6
  | .start => 16 * (njobs - nextJob) + 6
  | .mkH => 16 * (njobs - nextJob) + 5
  | .next _ => 16 * (njobs - nextJob) + 4
  | .create => 16 * (njobs - nextJob) + 3
  | .assign _ => 16 * (njobs - nextJob) + 2
  | .enqueue _ => 16 * (njobs - nextJob) - 6
  | .finish => 3
  | .joinH => 2
  | .done => 0
def cWf (pc : CPc) : Nat := match pc with | .next false => 1 | _ => 0
def hPf (hpc : HPc) (qlen : Nat) : Nat := match hpc with
  | .deq _ => 4 * qlen + 1
  | .waitRes _ _ => 4 * qlen + 4
  | .giveBack _ _ => 4 * qlen + 3
  | .callback _ => 4 * qlen + 2
  | .exited => 0
def hWf (hpc : HPc) : Nat := match hpc with | .deq false | .waitRes _ false => 1 | _ => 0
def clPot (njobs : Nat) (cl : Client) : Nat :=
  8 * (cPf cl.pc njobs cl.nextJob + hPf cl.hpc cl.queue.length) + cWf cl.pc + hWf cl.hpc

def oPf (o : OPc) (n max count : Nat) : Nat := match o with
  | .spawn i => (n - i) + n + (5 * max + 3)
  | .joinC i => (n - i) + (5 * max + 2)
  | .destroy _ => 5 * count + 1
  | .kill _ => 5 * count
  | .joinW _ => 5 * count - 3
  | .done => 0
def oWf (o : OPc) : Nat := match o with | .destroy false => 1 | _ => 0

def Phi (s : St) : Nat :=
  8 * oPf s.opc s.cl.size s.max s.count + oWf s.opc + sumA s.cl (clPot s.njobs) + sumA s.thr wPot

theorem Phi_mk (max njobs : Nat) (ordered : Bool) (cl : Array Client) (thr : Array Thr) (idle : List Nat) (count : Nat)
    (opc : OPc) :
    Phi { max, njobs, ordered, cl, thr, idle, count, opc } =
      8 * oPf opc cl.size max count + oWf opc + sumA cl (clPot njobs) + sumA thr wPot := rfl

theorem Phi_setCl (s : St) (c : Nat) (f : Client → Client) (h : c < s.cl.size) :
    Phi (setCl s c f) + clPot s.njobs s.cl[c]! = Phi s + clPot s.njobs (f s.cl[c]!) := by
  have := sumA_modify s.cl c f (clPot s.njobs) h
  simp only [Phi, setCl_opc, setCl_thr, setCl_cl, setCl_max, setCl_count, setCl_njobs, Array.size_modify]
  omega

theorem Phi_setThr (s : St) (t : Nat) (f : Thr → Thr) (h : t < s.thr.size) :
    Phi (setThr s t f) + wPot s.thr[t]! = Phi s + wPot (f s.thr[t]!) := by
  have := sumA_modify s.thr t f wPot h
  simp only [Phi, setThr_opc, setThr_cl, setThr_thr, setThr_max, setThr_count, setThr_njobs]
  omega

theorem Phi_setThr_oob (s : St) (t : Nat) (f : Thr → Thr) (h : ¬ t < s.thr.size) : Phi (setThr s t f) = Phi s := by
  simp only [Phi, setThr_opc, setThr_cl, setThr_thr, setThr_max, setThr_count, setThr_njobs, sumA_modify_oob _ _ _ _ h]

theorem Phi_setCl_oob (s : St) (c : Nat) (f : Client → Client) (h : ¬ c < s.cl.size) : Phi (setCl s c f) = Phi s := by
  simp only [Phi, setCl_opc, setCl_thr, setCl_cl, setCl_max, setCl_count, setCl_njobs, sumA_modify_oob _ _ _ _ h,
    Array.size_modify]

/-! ### a signal wakes at most one sleeper on each side -/
theorem wPot_wakeW (th : Thr) : wPot (wakeW th) ≤ wPot th + 1 := by
  unfold wakeW
  split
  · rename_i h; simp [wPot, wP, wW, h]
  · omega

theorem clPot_wakeDeq (n : Nat) (cl : Client) : clPot n (wakeDeq cl) ≤ clPot n cl + 1 := by
  unfold wakeDeq
  split
  · rename_i h; simp [clPot, hPf, hWf, h]
  · omega

theorem clPot_wakeH (n : Nat) (o : Bool) (t : Nat) (cl : Client) : clPot n (wakeH t cl) ≤ clPot n cl + clCount o t cl := by
  unfold wakeH
  split
  · rename_i t' h
    split
    · rename_i e; subst e
      simp [clPot, hPf, hWf, h, clCount, clView, List.count_append]; omega
    · omega
  · omega

theorem list_sum_map_le {α : Type} (l : List α) (g : α → α) (f h : α → Nat) (hf : ∀ x, f (g x) ≤ f x + h x) :
    ((l.map g).map f).sum ≤ (l.map f).sum + (l.map h).sum := by
  induction l with
  | nil => simp
  | cons a l ih => simp only [List.map_cons, List.sum_cons]; have := hf a; omega

theorem sumA_map_le {α : Type} (a : Array α) (g : α → α) (f h : α → Nat) (hf : ∀ x, f (g x) ≤ f x + h x) :
    sumA (a.map g) f ≤ sumA a f + sumA a h := by
  simp only [sumA, Array.toList_map]
  exact list_sum_map_le _ g f h hf

theorem Phi_signalRq (s : St) (c : Nat) : Phi (signalRq s c) ≤ Phi s + 1 := by
  by_cases hc : c < s.cl.size
  · have := Phi_setCl s c wakeDeq hc
    have h2 := clPot_wakeDeq s.njobs s.cl[c]!
    have e : signalRq s c = setCl s c wakeDeq := rfl
    rw [e]; omega
  · have e : signalRq s c = setCl s c wakeDeq := rfl
    rw [e, Phi_setCl_oob _ _ _ hc]; omega

theorem Phi_signalPool (s : St) (k : Nat) : Phi (signalPool s k) ≤ Phi s + 1 := by
  unfold signalPool
  split
  · rename_i h; rw [Phi_mk]; simp only [Phi, h, oPf, oWf]; omega
  · dsimp only
    split
    · omega
    · rename_i hne
      have hp := poolSleepers_spec s _ (poolSleepers_pick s k hne)
      generalize (poolSleepers s)[k % (poolSleepers s).length]! = c at hp ⊢
      by_cases hc : c < s.cl.size
      · have := Phi_setCl s c (fun cl => { cl with pc := .next false }) hc
        simp only [clPot, hp, cPf, cWf] at this
        omega
      · rw [Phi_setCl_oob _ _ _ hc]; omega

theorem Excl.clsum {s : St} (hE : Excl s) (t : Nat) : sumA s.cl (clCount s.ordered t) ≤ 1 := by
  have hocc := hE.le1 t
  simp only [occ] at hocc
  omega

theorem Phi_signalThr (s : St) (t : Nat) (hocc : sumA s.cl (clCount s.ordered t) ≤ 1) : Phi (signalThr s t) ≤ Phi s + 2 := by
  have h1 : signalThr s t = { (setThr s t wakeW) with cl := s.cl.map (wakeH t) } := rfl
  rw [h1, Phi_mk]
  have hcl := sumA_map_le s.cl (wakeH t) (clPot s.njobs) (clCount s.ordered t) (clPot_wakeH s.njobs s.ordered t)
  have hthr : sumA (s.thr.modify t wakeW) wPot ≤ sumA s.thr wPot + 1 := by
    by_cases ht : t < s.thr.size
    · have := sumA_modify s.thr t wakeW wPot ht
      have := wPot_wakeW s.thr[t]!
      omega
    · rw [sumA_modify_oob _ _ _ _ ht]; omega
  simp only [setThr_opc, setThr_cl, setThr_thr, setThr_max, setThr_count, setThr_njobs, Array.size_map, Phi] at hthr ⊢
  omega


theorem getOpt_thr {s : St} {t : Nat} {p : WPc} (hp : (s.thr[t]?).map (·.pc) = some p) : s.thr[t]!.pc = p ∧ t < s.thr.size := by
  cases hx : s.thr[t]? with
  | none => simp [hx] at hp
  | some x =>
    simp [hx] at hp
    have : t < s.thr.size := by
      apply Classical.byContradiction; intro hn
      have : s.thr[t]? = none := by grind
      rw [this] at hx; cases hx
    exact ⟨by simp [getElem!_def, hx, hp], this⟩

theorem getOpt_lt {s : St} {c : Nat} {x : Client} (hx : s.cl[c]? = some x) : c < s.cl.size := by
  apply Classical.byContradiction; intro hn
  have : s.cl[c]? = none := by grind
  rw [this] at hx; cases hx

theorem phi_spurious {s s' : St} {w : Who} (hs : step s (.spurious w) = some s') : Phi s' ≤ Phi s + 1 := by
  cases w with
  | owner =>
    simp only [step] at hs
    split at hs
    · rename_i ho
      injection hs with hs; subst hs
      rw [Phi_mk]; simp only [Phi, ho, oPf, oWf]; omega
    · simp at hs
  | client c =>
    simp only [step] at hs
    split at hs
    · rename_i hp
      injection hs with hs; subst hs
      have hp' := getOpt_pc hp
      by_cases hc : c < s.cl.size
      · have := Phi_setCl s c (fun cl => { cl with pc := .next false }) hc
        simp only [clPot, hp', cPf, cWf] at this
        omega
      · rw [Phi_setCl_oob _ _ _ hc]; omega
    · simp at hs
  | handler c =>
    simp only [step] at hs
    split at hs
    · rename_i hp
      injection hs with hs; subst hs
      have hp' := getOpt_hpc hp
      by_cases hc : c < s.cl.size
      · have := Phi_setCl s c (fun cl => { cl with hpc := .deq false }) hc
        simp only [clPot, hp', hPf, hWf] at this
        omega
      · rw [Phi_setCl_oob _ _ _ hc]; omega
    · rename_i t hp
      injection hs with hs; subst hs
      have hp' := getOpt_hpc hp
      by_cases hc : c < s.cl.size
      · have := Phi_setCl s c (fun cl => { cl with hpc := .waitRes t false }) hc
        simp only [clPot, hp', hPf, hWf] at this
        omega
      · rw [Phi_setCl_oob _ _ _ hc]; omega
    · simp at hs
  | worker t =>
    simp only [step] at hs
    split at hs
    · rename_i hp
      injection hs with hs; subst hs
      obtain ⟨hp', ht⟩ := getOpt_thr hp
      have := Phi_setThr s t (fun th => { th with pc := .top false }) ht
      simp only [wPot, wP, wW, hp'] at this
      simp at this
      omega
    · simp at hs

theorem SIdle.wP {th : Thr} (h : SIdle th) : wP th = 0 := by
  obtain ⟨hp, hr, _⟩ := h
  cases hpc : th.pc <;> simp [hpc, isTop] at hp
  simp [TpK.wP, hpc, hr]

theorem phi_stepOwner {s s' : St} (L : Live s) (hb : s.count ≤ s.max) (hs : stepOwner s = some s') : Phi s' < Phi s := by
  unfold stepOwner at hs
  split at hs
  · rename_i i ho
    injection hs with hs; subst hs
    rw [Phi_mk]
    have hidle := L.wk.fresh i i ho (Nat.le_refl _)
    obtain ⟨hq, hh, _⟩ := (L.cl i).idleRec hidle
    have hlt := (L.phs.spawnLt i ho).1
    have := sumA_modify s.cl i (fun _ => ({ pc := .start } : Client)) (clPot s.njobs) hlt
    simp only [clPot, hidle, hq, hh, cPf, cWf, hPf, hWf] at this
    simp only [setCl_opc, setCl_thr, setCl_cl, setCl_max, setCl_count, setCl_njobs, Array.size_modify, Phi, ho]
    simp at this
    split <;> simp only [oPf, oWf] <;> omega
  · rename_i i ho
    split at hs
    · injection hs with hs; subst hs
      rw [Phi_mk]
      have := L.phs.joinLt i ho
      simp only [Phi, ho]
      split <;> simp only [oPf, oWf] <;> omega
    · simp at hs
  · simp at hs
  · rename_i ho
    split at hs
    · injection hs with hs; subst hs
      rw [Phi_mk]; simp only [Phi, ho, oPf, oWf]; omega
    · split at hs
      · injection hs with hs; subst hs
        rw [Phi_mk]; simp only [Phi, ho, oPf, oWf]; omega
      · rename_i t rest hi
        injection hs with hs; subst hs
        rw [Phi_mk]; simp only [Phi, ho, oPf, oWf]; omega
  · rename_i t ho
    injection hs with hs; subst hs
    have hm : t ∈ oHand s.opc := by simp [ho]
    have ht : t < s.thr.size := by
      apply Classical.byContradiction; intro hn
      exact (L.excl.nowhere (by omega)).2.1 hm
    have hI := (L.sh t).kill ho
    have hc : 1 ≤ s.count := by
      have := L.tot
      simp only [Tot, T, ho, oHand_kill, List.length_singleton] at this; omega
    have hsig := Phi_signalThr { setThr s t (fun th => { th with running := true }) with opc := .joinW t } t (L.excl.clsum t)
    have hmod := sumA_modify s.thr t (fun th => { th with running := true }) wPot ht
    have h0 := hI.wP
    have h1 : wP { s.thr[t]! with running := true } = 2 := by
      obtain ⟨hp, _, hcb, _⟩ := hI
      cases hpc : s.thr[t]!.pc <;> simp [hpc, isTop] at hp
      simp [wP, hpc, hcb]
    have h2 : wW { s.thr[t]! with running := true } = wW s.thr[t]! := rfl
    have hX : Phi ({ setThr s t (fun th => { th with running := true }) with opc := .joinW t } : St) + 8 = Phi s := by
      rw [Phi_mk]
      simp only [setThr_opc, setThr_cl, setThr_thr, setThr_max, setThr_count, setThr_njobs, wPot, h0, h1, h2] at hmod ⊢
      simp only [Phi, ho, oPf, oWf]
      omega
    omega
  · rename_i t ho
    split at hs
    · injection hs with hs; subst hs
      have hc : 1 ≤ s.count := by
        have := L.tot
        simp only [Tot, T, ho, oHand_joinW, List.length_singleton] at this; omega
      rw [Phi_mk]; simp only [Phi, ho, oPf, oWf]; omega
    · simp at hs
  · simp at hs


theorem hPf_succ (h : HPc) (n : Nat) : hPf h (n + 1) ≤ hPf h n + 4 := by
  unfold hPf; split <;> omega

theorem oPf_count {s : St} (L : Live s) {c : Nat} (hc : s.cl[c]!.pc ≠ .done) (hi : s.cl[c]!.pc ≠ .idle) (k : Nat) :
    oPf s.opc s.cl.size s.max k = oPf s.opc s.cl.size s.max s.count := by
  cases ho : s.opc with
  | spawn i => rfl
  | joinC i => rfl
  | _ =>
    have := L.wk.over (by rw [ho]; rfl) c
    rcases this with h | h
    · exact absurd h hc
    · exact absurd h hi

theorem phi_stepClient {s s' : St} {c : Nat} (L : Live s) (hs : stepClient s c = some s') : Phi s' < Phi s := by
  unfold stepClient at hs
  split at hs
  case isFalse => simp at hs
  rename_i hc
  dsimp only at hs
  have hP := L.ph c
  split at hs
  · simp at hs
  · rename_i hp
    injection hs with hs; subst hs
    have := Phi_setCl s c (fun cl => { cl with pc := .mkH }) hc
    simp only [clPot, hp, cPf, cWf] at this
    omega
  · rename_i hp
    injection hs with hs; subst hs
    have := Phi_setCl s c (fun cl => { cl with hstarted := true, pc := .next false }) hc
    simp only [clPot, hp, cPf, cWf] at this
    omega
  · simp at hs
  · rename_i hp
    split at hs
    · rename_i hge
      injection hs with hs; subst hs
      have := Phi_setCl s c (fun cl => { cl with pc := .finish }) hc
      have h0 : s.njobs - s.cl[c]!.nextJob = 0 := by omega
      simp only [clPot, hp, cPf, cWf, h0] at this
      omega
    · split at hs
      · rename_i t rest hi
        injection hs with hs; subst hs
        have := Phi_setCl { s with idle := rest } c (fun cl => { cl with pc := .assign t }) hc
        have hX : Phi { s with idle := rest } = Phi s := rfl
        simp only [clPot, hp, cPf, cWf] at this
        omega
      · split at hs
        · injection hs with hs; subst hs
          have := Phi_setCl s c (fun cl => { cl with pc := .next true }) hc
          simp only [clPot, hp, cPf, cWf] at this
          omega
        · injection hs with hs; subst hs
          have := Phi_setCl { s with count := s.count + 1 } c (fun cl => { cl with pc := .create }) hc
          have hX : Phi { s with count := s.count + 1 } = Phi s := by
            rw [Phi_mk]
            simp only [Phi, oPf_count L (c := c) (by simp [hp]) (by simp [hp]) (s.count + 1)]
          simp only [clPot, hp, cPf, cWf] at this
          omega
  · rename_i hp
    injection hs with hs; subst hs
    have := Phi_setCl { s with thr := s.thr.push {} } c (fun cl => { cl with pc := .assign s.thr.size }) hc
    have hw : wPot ({} : Thr) = 1 := by decide
    have hX : Phi { s with thr := s.thr.push {} } = Phi s + 1 := by
      rw [Phi_mk]; simp only [Phi, sumA_push, hw]; omega
    simp only [clPot, hp, cPf, cWf] at this
    omega
  · rename_i t hp
    injection hs with hs; subst hs
    generalize hf : (fun th : Thr =>
      ({ th with rq := if s.ordered then none else some c, cb := some s.cl[c]!.nextJob, running := true } : Thr)) = f
    obtain ⟨_, _, _, ht, _⟩ := L.excl.client_holds hc (t := t) (by simp [clView, hp])
    have hI := ((L.sh t).cl c).assign hp
    have hlt := hP.lt (Or.inr ⟨t, hp⟩)
    have hocc : sumA (setCl (setThr s t f) c fun cl => { cl with pc := .enqueue t }).cl
        (clCount (setCl (setThr s t f) c fun cl => { cl with pc := .enqueue t }).ordered t) ≤ 1 := by
      have h0 := L.excl.clsum t
      have hm := sumA_modify s.cl c (fun cl => { cl with pc := .enqueue t }) (clCount s.ordered t) hc
      simp only [clCount, clView, hp, cHand_assign, cHand_enqueue] at hm
      simp only [setCl_cl, setCl_ordered, setThr_cl, setThr_ordered]
      cases ho : s.ordered <;> simp [ho, List.count_append] at hm h0 ⊢ <;> omega
    have hsig := Phi_signalThr (setCl (setThr s t f) c fun cl => { cl with pc := .enqueue t }) t hocc
    have h1 := Phi_setCl (setThr s t f) c (fun cl => { cl with pc := .enqueue t }) (by simpa using hc)
    have h3 := Phi_setThr s t f ht
    have h0 := hI.wP
    have h5 : wP (f s.thr[t]!) ≤ 7 ∧ wW (f s.thr[t]!) = wW s.thr[t]! := by
      subst hf
      obtain ⟨hp', _⟩ := hI
      cases hpc : s.thr[t]!.pc <;> simp [hpc, isTop] at hp'
      constructor
      · simp only [wP, hpc]; simp; split <;> simp
      · simp [wW, hpc]
    simp only [clPot, setThr_cl, setThr_njobs, hp, cPf, cWf, wPot] at h1 h3
    omega
  · rename_i t hp
    injection hs with hs; subst hs
    have hle := hP.le
    simp only [hp, pend] at hle
    have key : Phi (setCl s c fun cl =>
        { cl with nthreads := cl.nthreads + 1, queue := if s.ordered then cl.queue ++ [t] else cl.queue,
                  pc := .next false, nextJob := cl.nextJob + 1 }) + 14 ≤ Phi s := by
      have := Phi_setCl s c (fun cl =>
        { cl with nthreads := cl.nthreads + 1, queue := if s.ordered then cl.queue ++ [t] else cl.queue,
                  pc := .next false, nextJob := cl.nextJob + 1 }) hc
      have hq := hPf_succ s.cl[c]!.hpc s.cl[c]!.queue.length
      simp only [clPot, hp, cPf, cWf] at this
      cases ho : s.ordered <;> simp [ho] at this ⊢ <;> omega
    by_cases ho : s.ordered = true
    · simp only [setCl_ordered, ho, if_true] at key ⊢
      have := Phi_signalRq (setCl s c fun cl =>
        { cl with nthreads := cl.nthreads + 1, queue := cl.queue ++ [t], pc := .next false, nextJob := cl.nextJob + 1 }) c
      omega
    · simp only [setCl_ordered, ho, if_false] at key ⊢
      have h1 : ∀ x, x + 14 ≤ Phi s → x < Phi s := fun x h => by omega
      exact h1 _ key
  · rename_i hp
    injection hs with hs; subst hs
    have := Phi_setCl s c (fun cl => { cl with finished := true, pc := .joinH }) hc
    have h2 := Phi_signalRq (setCl s c fun cl => { cl with finished := true, pc := .joinH }) c
    simp only [clPot, hp, cPf, cWf] at this
    omega
  · rename_i hp
    split at hs
    · injection hs with hs; subst hs
      have := Phi_setCl s c (fun cl => { cl with pc := .done }) hc
      simp only [clPot, hp, cPf, cWf] at this
      omega
    · simp at hs
  · simp at hs


theorem Phi_setThr_same (s : St) (t : Nat) (f : Thr → Thr) (hf : wPot (f s.thr[t]!) = wPot s.thr[t]!) :
    Phi (setThr s t f) = Phi s := by
  by_cases h : t < s.thr.size
  · have := Phi_setThr s t f h; omega
  · exact Phi_setThr_oob s t f h

theorem phi_stepWorker {s s' : St} {t : Nat} (L : Live s) (hs : stepWorker s t = some s') : Phi s' < Phi s := by
  unfold stepWorker at hs
  split at hs
  case isFalse => simp at hs
  rename_i ht
  dsimp only at hs
  split at hs
  · simp at hs
  · rename_i hp
    split at hs <;> (injection hs with hs; subst hs)
    · rename_i hr
      have := Phi_setThr s t (fun th => { th with pc := .gotJob }) ht
      simp only [wPot, wP, wW, hp, hr] at this
      cases hcb : s.thr[t]!.cb <;> cases hrq : s.thr[t]!.rq <;> simp [hcb, hrq] at this <;> omega
    · rename_i hr
      have := Phi_setThr s t (fun th => { th with pc := .top true }) ht
      simp only [wPot, wP, wW, hp, hr] at this
      simp at this
      omega
  · rename_i hp
    split at hs
    · rename_i hcb
      injection hs with hs; subst hs
      have := Phi_setThr s t (fun th => { th with pc := .exited }) ht
      simp only [wPot, wP, wW, hp, hcb] at this
      simp at this
      omega
    · rename_i j hcb
      split at hs <;> (injection hs with hs; subst hs)
      · rename_i c hr
        have := Phi_setThr s t (fun th => { th with res := some j, cb := none, rq := none, running := false, pc := .selfEnq c }) ht
        simp only [wPot, wP, wW, hp, hcb, hr] at this
        simp at this
        omega
      · rename_i hr
        have := Phi_setThr s t (fun th => { th with res := some j, cb := none, pc := .doneOrd }) ht
        simp only [wPot, wP, wW, hp, hcb, hr] at this
        simp at this
        omega
  · rename_i c hp
    injection hs with hs; subst hs
    have hc := (L.wf2 t c (Or.inr hp)).1
    have hw : 0 < wN s.thr[t]! := by simp [wN, hp]
    have hrun : s.thr[t]!.running = false := by
      rcases ((L.sh t).self hw).2 with hx | hx
      · rcases hx.1 with h1 | h1 <;> simp [hp, isTop] at h1
      · exact hx.2.1
    have h3 := Phi_setThr s t (fun th => { th with pc := .top false }) ht
    have h1 := Phi_setCl (setThr s t fun th => { th with pc := .top false }) c
      (fun cl => { cl with queue := cl.queue ++ [t] }) (by simpa using hc)
    have hsig := Phi_signalRq (setCl (setThr s t fun th => { th with pc := .top false }) c
      (fun cl => { cl with queue := cl.queue ++ [t] })) c
    have hq := hPf_succ s.cl[c]!.hpc s.cl[c]!.queue.length
    simp only [wPot, wP, wW, hp, hrun] at h3
    simp only [clPot, setThr_cl, setThr_njobs, List.length_append, List.length_singleton] at h1
    simp at h3
    omega
  · rename_i hp
    injection hs with hs; subst hs
    have h3 := Phi_setThr s t (fun th => { th with running := false, pc := .top false }) ht
    have hsig := Phi_signalThr (setThr s t fun th => { th with running := false, pc := .top false }) t (L.excl.clsum t)
    simp only [wPot, wP, wW, hp] at h3
    simp at h3
    omega
  · simp at hs

theorem phi_stepHandler {s s' : St} {c k : Nat} (hs : stepHandler s c k = some s') : Phi s' < Phi s := by
  unfold stepHandler at hs
  split at hs
  case isFalse => simp at hs
  rename_i hc
  dsimp only at hs
  split at hs
  · simp at hs
  split at hs
  · simp at hs
  · rename_i hp
    split at hs
    · rename_i t rest hq
      injection hs with hs; subst hs
      have := Phi_setCl s c (fun cl => { cl with queue := rest, nthreads := cl.nthreads - 1, hpc := .waitRes t false }) hc
      simp only [clPot, hp, hq, hPf, hWf, List.length_cons] at this
      omega
    · rename_i hq
      split at hs <;> (injection hs with hs; subst hs)
      · have := Phi_setCl s c (fun cl => { cl with hpc := .exited }) hc
        simp only [clPot, hp, hq, hPf, hWf] at this
        omega
      · have := Phi_setCl s c (fun cl => { cl with hpc := .deq true }) hc
        simp only [clPot, hp, hq, hPf, hWf] at this
        omega
  · simp at hs
  · rename_i t hp
    split at hs <;> (injection hs with hs; subst hs)
    · have := Phi_setCl s c (fun cl => { cl with hpc := .waitRes t true }) hc
      simp only [clPot, hp, hPf, hWf] at this
      omega
    · have h1 := Phi_setCl (setThr s t fun th => { th with res := none }) c
        (fun cl => { cl with hpc := .giveBack t (s.thr[t]!).res }) (by simpa using hc)
      have h3 := Phi_setThr_same s t (fun th => { th with res := none }) (by simp [wPot, wP, wW])
      simp only [clPot, setThr_cl, setThr_njobs, hp, hPf, hWf] at h1
      omega
  · rename_i t r hp
    injection hs with hs; subst hs
    have h1 := Phi_setCl { s with idle := t :: s.idle } c (fun cl => { cl with hpc := .callback r }) hc
    have hX : Phi { s with idle := t :: s.idle } = Phi s := rfl
    have hsig := Phi_signalPool (setCl { s with idle := t :: s.idle } c (fun cl => { cl with hpc := .callback r })) k
    simp only [clPot, hp, hPf, hWf] at h1
    omega
  · rename_i r hp
    injection hs with hs; subst hs
    have := Phi_setCl s c (fun cl => { cl with delivered := cl.delivered ++ [r], hpc := .deq false }) hc
    simp only [clPot, hp, hPf, hWf] at this
    omega
  · simp at hs

/-- every real step strictly decreases the potential; a spurious wake-up adds at most one -/
theorem phi_step {s s' : St} {l : Lbl} (L : Live s) (hb : s.count ≤ s.max) (hs : step s l = some s') :
    match l with
    | .run _ _ => Phi s' < Phi s
    | .spurious _ => Phi s' ≤ Phi s + 1 := by
  cases l with
  | spurious w => exact phi_spurious hs
  | run w k =>
    cases w with
    | owner => exact phi_stepOwner L hb hs
    | client c => exact phi_stepClient L hs
    | handler c => exact phi_stepHandler hs
    | worker t => exact phi_stepWorker L hs


/-! ### every schedule is finite -/
def runSched (s : St) : List Lbl → St
  | [] => s
  | l :: ls => match step s l with
    | some s' => runSched s' ls
    | none => runSched s ls

/-- (real steps taken, spurious wake-ups taken) along a schedule; labels that are not enabled are skipped -/
def stepCount (s : St) : List Lbl → Nat × Nat
  | [] => (0, 0)
  | l :: ls => match step s l with
    | none => stepCount s ls
    | some s' => match l with
      | .run _ _ => ((stepCount s' ls).1 + 1, (stepCount s' ls).2)
      | .spurious _ => ((stepCount s' ls).1, (stepCount s' ls).2 + 1)

theorem steps_bounded_of {n max njobs : Nat} {o : Bool} {s : St} (hn : 1 ≤ n) (hr : Reachable n max njobs o s)
    (ls : List Lbl) : (stepCount s ls).1 ≤ Phi s + (stepCount s ls).2 := by
  induction ls generalizing s with
  | nil => simp [stepCount]
  | cons l ls ih =>
    unfold stepCount
    cases hs : step s l with
    | none => simpa using ih hr
    | some s' =>
      have hd := phi_step (live_reachable hn hr) (bound_reachable hr) hs
      have := ih (.step hr hs)
      cases l with
      | run w k => simp only at hd ⊢; omega
      | spurious w => simp only at hd ⊢; omega

theorem list_sum_replicate (n k : Nat) : (List.replicate n k).sum = n * k := by
  induction n with
  | zero => simp
  | succ n ih => simp [List.replicate_succ, ih, Nat.succ_mul]; omega

theorem Phi_init (n max njobs : Nat) (o : Bool) :
    Phi (init n max njobs o) = n * (128 * njobs + 73) + 40 * max + 24 := by
  have h1 : clPot njobs ({} : Client) = 128 * njobs + 57 := by
    simp only [clPot, cPf, cWf, hPf, hWf, List.length_nil]; omega
  have h2 : sumA (Array.replicate n ({} : Client)) (clPot njobs) = n * (128 * njobs + 57) := by
    simp only [sumA, Array.toList_replicate, List.map_replicate, h1, list_sum_replicate]
  show 8 * oPf (.spawn 0) (Array.replicate n ({} : Client)).size max 0 + oWf (.spawn 0) +
    sumA (Array.replicate n ({} : Client)) (clPot njobs) + sumA (#[] : Array Thr) wPot = _
  rw [h2]
  simp only [oPf, oWf, Array.size_replicate, sumA, Nat.sub_zero]
  simp [Nat.mul_add, Nat.add_mul]; omega

/-- along EVERY schedule from the initial state — fair or not, any number of clients, any pool size, any number of jobs,
    ordered or unordered — the number of real steps is at most `n·(128·njobs + 73) + 40·max + 24` plus the number of
    spurious wake-ups that occurred -/
theorem steps_bounded {n max njobs : Nat} {o : Bool} (hn : 1 ≤ n) (ls : List Lbl) :
    (stepCount (init n max njobs o) ls).1 ≤ n * (128 * njobs + 73) + 40 * max + 24 + (stepCount (init n max njobs o) ls).2 := by
  have := steps_bounded_of hn (Reachable.init (nclients := n) (max := max) (njobs := njobs) (ordered := o)) ls
  rw [Phi_init] at this; exact this

theorem reachable_runSched {n max njobs : Nat} {o : Bool} {s : St} (hr : Reachable n max njobs o s) (ls : List Lbl) :
    Reachable n max njobs o (runSched s ls) := by
  induction ls generalizing s with
  | nil => exact hr
  | cons l ls ih =>
    unfold runSched
    cases hs : step s l with
    | none => exact ih hr
    | some s' => exact ih (.step hr hs)

/-- from every reachable state the final state (owner back from `threadpool_destroy`) is reached by SOME schedule of at most
    `Phi s` real steps without any spurious wake-up: termination is always still possible -/
theorem can_finish {n max njobs : Nat} {o : Bool} {s : St} (hn : 1 ≤ n) (hm : 1 ≤ max) (hr : Reachable n max njobs o s) :
    ∃ ls : List Who, ls.length ≤ Phi s ∧ (runSched s (ls.map fun w => .run w 0)).opc = .done := by
  generalize hk : Phi s = k
  induction k using Nat.strongRecOn generalizing s with
  | _ k ih =>
    by_cases hd : s.opc = .done
    · exact ⟨[], by simp, by simpa [runSched] using hd⟩
    · obtain ⟨w, hw⟩ := no_deadlock hr hn hm hd
      obtain ⟨s', hs⟩ := Option.isSome_iff_exists.mp hw
      have hdec := phi_step (live_reachable hn hr) (bound_reachable hr) hs
      simp only at hdec
      obtain ⟨ls, hl, hfin⟩ := ih (Phi s') (by omega) (.step hr hs) rfl
      refine ⟨w :: ls, by simp; omega, ?_⟩
      simp only [List.map_cons, runSched, hs]
      exact hfin


@[simp] theorem signalPool_opc_done (s : St) (k : Nat) : ((signalPool s k).opc = .done) = (s.opc = .done) := by
  unfold signalPool; split
  · rename_i h; simp [h]
  · dsimp only; split <;> simp

theorem donecount_step {s s' : St} {l : Lbl} (hW : Wk s) (h : s.opc = .done → s.count = 0) (hs : step s l = some s') :
    s'.opc = .done → s'.count = 0 := by
  cases l with
  | spurious w =>
    cases w <;> simp only [step] at hs <;> split at hs <;>
      first | (injection hs with hs; subst hs; simpa using h) | (simp at hs)
  | run w k =>
    cases w with
    | owner =>
      simp only [step, stepOwner] at hs
      repeat' split at hs
      all_goals first | (simp at hs; done) | (injection hs with hs; subst hs; simp_all) 
    | client c =>
      simp only [step, stepClient] at hs
      split at hs
      case isFalse => simp at hs
      intro hd
      have hd' : s.opc = .done := by
        revert hd
        repeat' split at hs
        all_goals first | (simp at hs; done) | (injection hs with hs; subst hs; simp)
      have hov := hW.over (by rw [hd']; rfl) c
      rcases hov with hp | hp <;> simp [hp] at hs
    | handler c =>
      simp only [step, stepHandler] at hs
      repeat' split at hs
      all_goals first | (simp at hs; done) | (injection hs with hs; subst hs; simpa using h)
    | worker t =>
      simp only [step, stepWorker] at hs
      repeat' split at hs
      all_goals first | (simp at hs; done) | (injection hs with hs; subst hs; simpa using h)

theorem donecount_reachable {n max njobs : Nat} {o : Bool} {s : St} (hr : Reachable n max njobs o s) :
    s.opc = .done → s.count = 0 := by
  induction hr with
  | init => intro h; cases h
  | step hr' hs ih => exact donecount_step (wk_reachable hr') ih hs

/-- END TO END: take ANY schedule from the initial state (any number of clients ≥ 1, any pool size ≥ 1, any job count,
    spurious wake-ups included).  If it is maximal — nobody can take a real step in the state it ends in — then the owner is
    back from `threadpool_destroy`, every client thread has returned from `result_handler_destroy`, no worker thread is left,
    and every client has been delivered the results of all its jobs: in dispatch order when ordering was requested, each
    exactly once otherwise. -/
theorem maximal_run_complete {n max njobs : Nat} {o : Bool} (hn : 1 ≤ n) (hm : 1 ≤ max) (ls : List Lbl)
    (hq : ∀ w, (step (runSched (init n max njobs o) ls) (.run w 0)).isSome = false) :
    (runSched (init n max njobs o) ls).opc = .done ∧ (runSched (init n max njobs o) ls).count = 0 ∧
    (runSched (init n max njobs o) ls).idle = [] ∧
    ∀ c : Nat, c < n →
      (runSched (init n max njobs o) ls).cl[c]!.pc = .done ∧
      (o = true → (runSched (init n max njobs o) ls).cl[c]!.delivered = (List.range njobs).map some) ∧
      (o = false → (runSched (init n max njobs o) ls).cl[c]!.delivered.Perm ((List.range njobs).map some)) := by
  generalize hS : runSched (init n max njobs o) ls = s at hq ⊢
  have hr : Reachable n max njobs o s := by rw [← hS]; exact reachable_runSched .init ls
  have hd : s.opc = .done := by
    apply Classical.byContradiction; intro hx
    obtain ⟨w, hw⟩ := no_deadlock hr hn hm hx
    rw [hq w] at hw; cases hw
  have L := live_reachable hn hr
  obtain ⟨_, hsz, hord, hnj⟩ := params_reachable hr
  have hcount : s.count = 0 := donecount_reachable hr hd
  have hidle : s.idle = [] := by
    have := L.tot
    simp only [Tot, T, hcount] at this
    exact List.eq_nil_of_length_eq_zero (by omega)
  refine ⟨hd, hcount, hidle, fun c hc => ?_⟩
  have hpc : s.cl[c]!.pc = .done := by
    rcases L.wk.over (by rw [hd]; rfl) c with hx | hx
    · exact hx
    · exact absurd hx (L.phs.started (Or.inl (by rw [hd]; rfl)) c (by omega))
  refine ⟨hpc, fun ho => ?_, fun ho => ?_⟩
  · subst ho
    have := complete_reachable hr hord c hpc
    rw [hnj] at this; exact this
  · subst ho
    have := unordered_complete hr hord c hpc
    rw [hnj] at this; exact this

end TpK
