import MtblModel.Basic
import MtblModel.Sep
import MtblModel.Spec
/-
  Part A: `bcmp` (= C `bytes_compare`) is the unsigned bytewise lexicographic order, a strict total
  order; `shortestSep` (= `bytes_shortest_separator`) returns a separator; `lowerBound` facts.
-/
namespace Mtbl

/-! ### 1–3: `bcmp` is a strict total order -/

theorem bcmp_refl (a : Bytes) : bcmp a a = .eq := by
  induction a with
  | nil => rfl
  | cons x xs ih => simp [bcmp, ih]

theorem bcmp_cons_cons (a b : UInt8) (as bs : Bytes) :
    bcmp (a :: as) (b :: bs) = if a < b then .lt else if b < a then .gt else bcmp as bs := rfl

theorem bcmp_cons_same (a : UInt8) (as bs : Bytes) : bcmp (a :: as) (a :: bs) = bcmp as bs := by
  simp [bcmp]

private theorem u8_eq_of_not_lt {a b : UInt8} (h1 : ¬ a < b) (h2 : ¬ b < a) : a = b := by
  apply UInt8.toNat_inj.mp
  rw [UInt8.lt_iff_toNat_lt] at h1 h2
  omega

theorem bcmp_eq_iff (a b : Bytes) : bcmp a b = .eq ↔ a = b := by
  constructor
  · intro h
    fun_induction bcmp a b with
    | case1 => rfl
    | case2 => cases h
    | case3 => cases h
    | case4 a as b bs hlt => cases h
    | case5 a as b bs h1 h2 => cases h
    | case6 a as b bs h1 h2 ih =>
      rw [u8_eq_of_not_lt h1 h2, ih h]
  · rintro rfl; exact bcmp_refl a

theorem bcmp_swap (a b : Bytes) : bcmp a b = .lt ↔ bcmp b a = .gt := by
  fun_induction bcmp a b with
  | case1 => simp [bcmp]
  | case2 => simp [bcmp]
  | case3 => simp [bcmp]
  | case4 a as b bs hlt =>
    have : ¬ b < a := by rw [UInt8.lt_iff_toNat_lt] at *; omega
    simp [bcmp, hlt, this]
  | case5 a as b bs h1 h2 => simp [bcmp, h2]
  | case6 a as b bs h1 h2 ih => simp [bcmp, h1, h2, ih]

theorem bcmp_swap' (a b : Bytes) : bcmp a b = .gt ↔ bcmp b a = .lt := (bcmp_swap b a).symm

/-- totality: anything that is neither `<` nor `>` is equal -/
theorem bcmp_total (a b : Bytes) : bcmp a b = .lt ∨ a = b ∨ bcmp b a = .lt := by
  cases h : bcmp a b with
  | lt => exact .inl rfl
  | eq => exact .inr (.inl ((bcmp_eq_iff a b).mp h))
  | gt => exact .inr (.inr ((bcmp_swap' a b).mp h))

theorem bcmp_lt_irrefl (a : Bytes) : bcmp a a ≠ .lt := by simp [bcmp_refl]

theorem bcmp_lt_trans {a b c : Bytes} : bcmp a b = .lt → bcmp b c = .lt → bcmp a c = .lt := by
  induction a generalizing b c with
  | nil =>
    intro h1 h2
    cases b with
    | nil => simp [bcmp] at h1
    | cons y ys =>
      cases c with
      | nil => simp [bcmp] at h2
      | cons z zs => rfl
  | cons x xs ih =>
    intro h1 h2
    cases b with
    | nil => simp [bcmp] at h1
    | cons y ys =>
      cases c with
      | nil => simp [bcmp] at h2
      | cons z zs =>
        rw [bcmp_cons_cons] at h1 h2 ⊢
        simp only [UInt8.lt_iff_toNat_lt] at h1 h2 ⊢
        split at h1
        · split at h2
          · rw [if_pos (by omega)]
          · split at h2
            · cases h2
            · rw [if_pos (by omega)]
        · split at h1
          · cases h1
          · split at h2
            · rw [if_pos (by omega)]
            · split at h2
              · cases h2
              · rw [if_neg (by omega), if_neg (by omega)]
                exact ih h1 h2

/-- `a ≤ b` in the form used by the model: `bcmp a b ≠ .gt` -/
theorem bcmp_le_iff (a b : Bytes) : bcmp a b ≠ .gt ↔ (bcmp a b = .lt ∨ a = b) := by
  constructor
  · intro h
    cases h' : bcmp a b with
    | lt => exact .inl rfl
    | eq => exact .inr ((bcmp_eq_iff a b).mp h')
    | gt => exact absurd h' h
  · rintro (h | rfl)
    · simp [h]
    · simp [bcmp_refl]

theorem bcmp_le_lt_trans {a b c : Bytes} : bcmp a b ≠ .gt → bcmp b c = .lt → bcmp a c = .lt := by
  intro h1 h2
  rcases (bcmp_le_iff a b).mp h1 with h | rfl
  · exact bcmp_lt_trans h h2
  · exact h2

theorem bcmp_lt_le_trans {a b c : Bytes} : bcmp a b = .lt → bcmp b c ≠ .gt → bcmp a c = .lt := by
  intro h1 h2
  rcases (bcmp_le_iff b c).mp h2 with h | rfl
  · exact bcmp_lt_trans h1 h
  · exact h1

theorem bcmp_le_trans {a b c : Bytes} : bcmp a b ≠ .gt → bcmp b c ≠ .gt → bcmp a c ≠ .gt := by
  intro h1 h2
  rcases (bcmp_le_iff b c).mp h2 with h | rfl
  · rw [bcmp_le_lt_trans h1 h]; simp
  · exact h1

theorem bcmp_gt_trans {a b c : Bytes} : bcmp a b = .gt → bcmp b c = .gt → bcmp a c = .gt := by
  intro h1 h2
  rw [bcmp_swap'] at h1 h2 ⊢
  exact bcmp_lt_trans h2 h1

theorem bcmp_lt_asymm {a b : Bytes} (h : bcmp a b = .lt) : bcmp b a ≠ .lt := by
  rw [(bcmp_swap a b).mp h]; simp

/-- `¬ (a < b)` is `b ≤ a` -/
theorem bcmp_not_lt_iff (a b : Bytes) : bcmp a b ≠ .lt ↔ bcmp b a ≠ .gt := by
  rw [Ne, Ne, bcmp_swap' b a]

theorem bcmp_le_antisymm {a b : Bytes} (h1 : bcmp a b ≠ .gt) (h2 : bcmp b a ≠ .gt) : a = b := by
  rcases (bcmp_le_iff a b).mp h1 with h | h
  · exact absurd ((bcmp_swap a b).mp h) h2
  · exact h

/-! ### 4: `bcmp` is the lexicographic order on unsigned byte values -/

theorem bcmp_lex (a b : Bytes) : bcmp a b = .lt ↔ (a.map (·.toNat)) < (b.map (·.toNat)) := by
  fun_induction bcmp a b with
  | case1 => simp
  | case2 => simp
  | case3 => simp
  | case4 a as b bs hlt =>
    rw [UInt8.lt_iff_toNat_lt] at hlt
    simp [List.cons_lt_cons_iff, hlt]
  | case5 a as b bs h1 h2 =>
    rw [UInt8.lt_iff_toNat_lt] at h1 h2
    simp only [List.map_cons, List.cons_lt_cons_iff]
    constructor
    · intro h; cases h
    · intro h; omega
  | case6 a as b bs h1 h2 ih =>
    rw [UInt8.lt_iff_toNat_lt] at h1 h2
    simp only [List.map_cons, List.cons_lt_cons_iff, ih]
    constructor
    · intro h; exact .inr ⟨by omega, h⟩
    · rintro (h | ⟨_, h⟩)
      · omega
      · exact h

/-! ### 5: prefixes -/

theorem bcmp_append_le (p r : Bytes) : bcmp p (p ++ r) ≠ .gt := by
  induction p with
  | nil => cases r <;> simp [bcmp]
  | cons x xs ih => rw [List.cons_append, bcmp_cons_same]; exact ih

theorem isPrefix_iff_append {p k : Bytes} : isPrefix p k = true ↔ ∃ r, k = p ++ r := by
  constructor
  · intro h
    simp only [isPrefix, Bool.and_eq_true, decide_eq_true_eq, beq_iff_eq] at h
    refine ⟨k.drop p.length, ?_⟩
    conv => lhs; rw [← List.take_append_drop p.length k, h.2]
  · rintro ⟨r, rfl⟩
    simp [isPrefix]

theorem bcmp_prefix {p k : Bytes} (h : isPrefix p k = true) : bcmp p k ≠ .gt := by
  obtain ⟨r, rfl⟩ := isPrefix_iff_append.mp h
  exact bcmp_append_le p r

theorem bcmp_append_lt (a : Bytes) (x : UInt8) (r : Bytes) : bcmp a (a ++ x :: r) = .lt := by
  induction a with
  | nil => rfl
  | cons y ys ih => rw [List.cons_append, bcmp_cons_same]; exact ih

/-- a common prefix does not influence the comparison -/
theorem bcmp_append_left (p a b : Bytes) : bcmp (p ++ a) (p ++ b) = bcmp a b := by
  induction p with
  | nil => rfl
  | cons y ys ih => rw [List.cons_append, List.cons_append, bcmp_cons_same]; exact ih

/-! ### 6: the separator -/

theorem diffIndex_le (s l : Bytes) : diffIndex s l ≤ min s.length l.length := by
  fun_induction diffIndex s l with
  | case1 a as bs ih => simp only [List.length_cons]; omega
  | case2 => omega
  | case3 => omega

theorem shortestSep_cons_same (a : UInt8) (as bs : Bytes) :
    shortestSep (a :: as) (a :: bs) = a :: shortestSep as bs := by
  have e1 : diffIndex (a :: as) (a :: bs) = diffIndex as bs + 1 := by
    simp [diffIndex, Nat.add_comm]
  have e2 : min (a :: as).length (a :: bs).length = min as.length bs.length + 1 := by
    simp only [List.length_cons]; omega
  unfold shortestSep
  simp only [e1, e2, List.getElem!_cons_succ, List.take_succ_cons, ge_iff_le,
    Nat.add_le_add_iff_right, Nat.add_lt_add_iff_right, Nat.add_right_comm _ 1 2,
    Nat.add_right_comm _ 1 1, List.cons_append]
  split
  · rfl
  · split
    · rfl
    · split
      · split <;> rfl
      · rfl

/-- two leading bytes compare as one big-endian 16-bit number -/
theorem bcmp_two (x1 x2 y1 y2 : UInt8) (r r' : Bytes) :
    bcmp (x1 :: x2 :: r) (y1 :: y2 :: r') =
      if x1.toNat * 256 + x2.toNat < y1.toNat * 256 + y2.toNat then .lt
      else if y1.toNat * 256 + y2.toNat < x1.toNat * 256 + x2.toNat then .gt
      else bcmp r r' := by
  have := x2.toNat_lt
  have := y2.toNat_lt
  simp only [bcmp_cons_cons, UInt8.lt_iff_toNat_lt]
  repeat' split
  all_goals first | rfl | omega

private theorem toUInt8_toNat_of_lt {n : Nat} (h : n < 256) : n.toUInt8.toNat = n := by
  simp [Nat.toUInt8, UInt8.toNat_ofNat']
  omega

theorem shortestSep_cons_ne (a b : UInt8) (as bs : Bytes) (hab : a ≠ b) :
    shortestSep (a :: as) (b :: bs) =
      if a.toNat < 0xFF ∧ a.toNat + 1 < b.toNat then [(a.toNat + 1).toUInt8]
      else if 2 < min as.length bs.length + 1 then
        let us := a.toNat * 256 + (as[0]!).toNat
        let ul := b.toNat * 256 + (bs[0]!).toNat
        let ub := (us + 1) % 65536
        if us ≤ ub ∧ ub ≤ ul then [(ub / 256).toUInt8, (ub % 256).toUInt8] else a :: as
      else a :: as := by
  have e1 : diffIndex (a :: as) (b :: bs) = 0 := by simp [diffIndex, hab]
  have e2 : min (a :: as).length (b :: bs).length = min as.length bs.length + 1 := by
    simp only [List.length_cons]; omega
  unfold shortestSep
  simp only [e1, e2]
  simp

theorem sep_spec {start limit : Bytes} (h : bcmp start limit = .lt) :
    bcmp start (shortestSep start limit) ≠ .gt ∧ bcmp (shortestSep start limit) limit = .lt := by
  induction start generalizing limit with
  | nil => simpa [shortestSep, diffIndex, bcmp_refl] using h
  | cons a as ih =>
    cases limit with
    | nil => simp [bcmp] at h
    | cons b bs =>
      by_cases hab : a = b
      · subst hab
        rw [shortestSep_cons_same, bcmp_cons_same, bcmp_cons_same]
        rw [bcmp_cons_same] at h
        exact ih h
      · have hlt : a.toNat < b.toNat := by
          rw [bcmp_cons_cons] at h
          simp only [UInt8.lt_iff_toNat_lt] at h
          have : a.toNat ≠ b.toNat := fun e => hab (UInt8.toNat_inj.mp e)
          split at h
          · assumption
          · split at h
            · cases h
            · omega
        have hb := b.toNat_lt
        rw [shortestSep_cons_ne a b as bs hab]
        split
        · -- one-byte increment
          next hc =>
          have e : (a.toNat + 1).toUInt8.toNat = a.toNat + 1 := toUInt8_toNat_of_lt (by omega)
          constructor
          · rw [bcmp_cons_cons, if_pos (by rw [UInt8.lt_iff_toNat_lt, e]; omega)]; simp
          · rw [bcmp_cons_cons, if_pos (by rw [UInt8.lt_iff_toNat_lt, e]; omega)]
        · split
          · -- 16-bit big-endian increment
            next hc hm =>
            match as, bs, hm with
            | a2 :: as', b2 :: bs', hm =>
              simp only [List.length_cons] at hm
              simp only [List.getElem!_cons_zero]
              have ha2 := a2.toNat_lt
              have hb2 := b2.toNat_lt
              split
              · next hu =>
                generalize hub : (a.toNat * 256 + a2.toNat + 1) % 65536 = ub at hu
                have hub' : ub < 65536 := by omega
                have e1 : (ub / 256).toUInt8.toNat = ub / 256 := toUInt8_toNat_of_lt (by omega)
                have e2 : (ub % 256).toUInt8.toNat = ub % 256 := toUInt8_toNat_of_lt (by omega)
                have hs : a.toNat * 256 + a2.toNat < ub := by omega
                constructor
                · rw [bcmp_two, e1, e2, if_pos (by omega)]; simp
                · rw [bcmp_two, e1, e2]
                  split
                  · rfl
                  · split
                    · omega
                    · cases bs' with
                      | nil => simp at hm
                      | cons _ _ => rfl
              · exact ⟨by simp [bcmp_refl], h⟩
          · exact ⟨by simp [bcmp_refl], h⟩

theorem sepAssertOk_of_lt {start limit : Bytes} (h : bcmp start limit = .lt) :
    sepAssertOk start limit = true := by
  unfold sepAssertOk
  simp only
  split
  · rfl
  · simp [blt, (sep_spec h).2]

theorem sep_length_le (start limit : Bytes) : (shortestSep start limit).length ≤ start.length := by
  have h1 := diffIndex_le start limit
  unfold shortestSep
  simp only
  split
  · exact Nat.le_refl _
  · split
    · simp only [List.length_append, List.length_take, List.length_cons, List.length_nil]; omega
    · split
      · split
        · simp only [List.length_append, List.length_take, List.length_cons, List.length_nil]; omega
        · exact Nat.le_refl _
      · exact Nat.le_refl _

/-! ### 7: `lowerBound` -/

theorem lowerBound_nil (k : Bytes) : lowerBound [] k = 0 := rfl

theorem lowerBound_cons (e : Entry) (es : List Entry) (k : Bytes) :
    lowerBound (e :: es) k = if bcmp e.key k = .lt then lowerBound es k + 1 else 0 := by
  unfold lowerBound
  rw [List.takeWhile_cons]
  by_cases h : bcmp e.key k = .lt <;> simp [h]

theorem lowerBound_le (es : List Entry) (k : Bytes) : lowerBound es k ≤ es.length := by
  induction es with
  | nil => simp [lowerBound_nil]
  | cons e es ih => rw [lowerBound_cons]; split <;> simp only [List.length_cons] <;> omega

/-- every entry before the lower bound is `< k` (needs no sortedness) -/
theorem lowerBound_lt_key (es : List Entry) (k : Bytes) (i : Nat) (e : Entry)
    (hi : i < lowerBound es k) (he : es[i]? = some e) : bcmp e.key k = .lt := by
  induction es generalizing i with
  | nil => simp [lowerBound_nil] at hi
  | cons x xs ih =>
    rw [lowerBound_cons] at hi
    split at hi
    · next hx =>
      cases i with
      | zero => simp only [List.getElem?_cons_zero, Option.some.injEq] at he; subst he; exact hx
      | succ j => rw [List.getElem?_cons_succ] at he; exact ih j (by omega) he
    · omega

theorem Sorted_cons {e : Entry} {es : List Entry} :
    Sorted (e :: es) ↔ (∀ e' ∈ es, bcmp e.key e'.key ≠ .gt) ∧ Sorted es := by
  unfold Sorted; exact List.pairwise_cons

theorem StrictSorted_cons {e : Entry} {es : List Entry} :
    StrictSorted (e :: es) ↔ (∀ e' ∈ es, bcmp e.key e'.key = .lt) ∧ StrictSorted es := by
  unfold StrictSorted; exact List.pairwise_cons

theorem StrictSorted.sorted {es : List Entry} (h : StrictSorted es) : Sorted es := by
  unfold StrictSorted at h; unfold Sorted
  exact h.imp (fun h => by rw [h]; simp)

/-- on a sorted list every entry at or after the lower bound is `≥ k` (stated as `¬ key < k` and as `k ≤ key`) -/
theorem lowerBound_ge_key' (es : List Entry) (hs : Sorted es) (k : Bytes) (i : Nat) (e : Entry)
    (hi : lowerBound es k ≤ i) (he : es[i]? = some e) : bcmp e.key k ≠ .lt := by
  induction es generalizing i with
  | nil => simp at he
  | cons x xs ih =>
    obtain ⟨hx, hxs⟩ := Sorted_cons.mp hs
    rw [lowerBound_cons] at hi
    split at hi
    · cases i with
      | zero => omega
      | succ j => rw [List.getElem?_cons_succ] at he; exact ih hxs j (by omega) he
    · next hn =>
      cases i with
      | zero => simp only [List.getElem?_cons_zero, Option.some.injEq] at he; subst he; exact hn
      | succ j =>
        rw [List.getElem?_cons_succ] at he
        intro hlt
        exact hn (bcmp_le_lt_trans (hx e (List.mem_of_getElem? he)) hlt)

theorem lowerBound_ge_key (es : List Entry) (hs : Sorted es) (k : Bytes) (i : Nat) (e : Entry)
    (hi : lowerBound es k ≤ i) (he : es[i]? = some e) : bcmp k e.key ≠ .gt :=
  (bcmp_not_lt_iff e.key k).mp (lowerBound_ge_key' es hs k i e hi he)

/-- `getElem` forms -/
theorem lowerBound_lt_key_getElem (es : List Entry) (k : Bytes) (i : Nat) (hi : i < lowerBound es k) :
    bcmp (es[i]'(Nat.lt_of_lt_of_le hi (lowerBound_le es k))).key k = .lt :=
  lowerBound_lt_key es k i _ hi (List.getElem?_eq_getElem _)

theorem lowerBound_ge_key_getElem (es : List Entry) (hs : Sorted es) (k : Bytes) (i : Nat)
    (hi : lowerBound es k ≤ i) (hlt : i < es.length) : bcmp k es[i].key ≠ .gt :=
  lowerBound_ge_key es hs k i _ hi (List.getElem?_eq_getElem _)

/-- the lower bound is characterised by these two properties -/
theorem lowerBound_unique (es : List Entry) (hs : Sorted es) (k : Bytes) (n : Nat) (hn : n ≤ es.length)
    (hlo : ∀ i e, i < n → es[i]? = some e → bcmp e.key k = .lt)
    (hhi : ∀ i e, n ≤ i → es[i]? = some e → bcmp e.key k ≠ .lt) : lowerBound es k = n := by
  have hle := lowerBound_le es k
  apply Nat.le_antisymm
  · apply Nat.le_of_not_lt
    intro h
    have hn' : n < es.length := by omega
    exact hhi n es[n] (Nat.le_refl _) (List.getElem?_eq_getElem _)
      (lowerBound_lt_key es k n _ h (List.getElem?_eq_getElem _))
  · apply Nat.le_of_not_lt
    intro h
    have hl : lowerBound es k < es.length := by omega
    exact lowerBound_ge_key' es hs k _ es[lowerBound es k] (Nat.le_refl _) (List.getElem?_eq_getElem _)
      (hlo _ _ h (List.getElem?_eq_getElem _))

/-- `lowerBound` is monotone in the key (needs no sortedness) -/
theorem lowerBound_mono (es : List Entry) {k1 k2 : Bytes} (h : bcmp k1 k2 ≠ .gt) :
    lowerBound es k1 ≤ lowerBound es k2 := by
  induction es with
  | nil => simp [lowerBound_nil]
  | cons x xs ih =>
    rw [lowerBound_cons, lowerBound_cons]
    split
    · next h1 => rw [if_pos (bcmp_lt_le_trans h1 h)]; omega
    · omega

end Mtbl
