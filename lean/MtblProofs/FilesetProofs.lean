import MtblModel.Fileset
/-
  Proofs about the fileset state machine (mtbl/fileset.c + libmy/my_fileset.c), property C07.
  All history theorems are about `run true …` (the repaired reload_now) unless stated otherwise.
-/
namespace Mtbl.Fs

/-! ## 0. Unfolding `doReload`, basic projections -/

theorem loadLine_tick (w : World) (t : Nat) : loadLine { w with tick := t } = loadLine w := by
  funext old acc name
  unfold loadLine
  rfl

theorem myReload_tick (w : World) (t : Nat) (sh : Shared) : myReload { w with tick := t } sh = myReload w sh := by
  unfold myReload
  rw [loadLine_tick]

/-- the handle written back by `doReload` -/
def reloadedHandle (s : St) (h : Handle) : Handle :=
  let r := myReload s.w s.sh
  { (if r.1 > 0 || r.2.1 > 0 then reinit r.2.2 h else h) with fsLast := (s.w.sec, s.w.tick) }

theorem doReload_eq (s : St) (i : Nat) (h : Handle) : doReload s i h =
    { w := { s.w with tick := s.w.tick + 1 },
      sh := { (myReload s.w s.sh).2.2 with fsLast := (s.w.sec, s.w.tick), reloadNeeded := false },
      handles := s.handles.set i (reloadedHandle s h),
      iters := s.iters, uaf := s.uaf, reloads := s.reloads + 1,
      reloadsWithIters := s.reloadsWithIters + (if s.sh.nIters > 0 then 1 else 0) } := by
  unfold doReload readClock setHandle reloadedHandle
  simp only [myReload_tick]

/-! ## 1. A reload never happens while an iterator is open (all histories, both variants) -/

theorem doReload_rwi (s : St) (i : Nat) (h : Handle) (h0 : ¬ s.sh.nIters > 0) :
    (doReload s i h).reloadsWithIters = s.reloadsWithIters := by
  rw [doReload_eq]; simp only [h0, if_false, Nat.add_zero]

theorem reload_rwi (s : St) (i : Nat) : (reload s i).reloadsWithIters = s.reloadsWithIters := by
  unfold reload
  split
  · rfl
  · dsimp only
    split
    · rfl
    · split
      · rfl
      · rename_i hn
        split
        · rw [doReload_rwi _ _ _ hn]; rfl
        · rfl

theorem reloadNow_rwi (fx : Bool) (s : St) (i : Nat) : (reloadNow fx s i).reloadsWithIters = s.reloadsWithIters := by
  unfold reloadNow
  split
  · rfl
  · split
    · rfl
    · rename_i hn
      rw [doReload_rwi _ _ _ hn]

theorem openIter_rwi (s : St) (i : Nat) : (openIter s i).reloadsWithIters = s.reloadsWithIters := by
  unfold openIter
  simp only
  split
  · exact reload_rwi s i
  · split <;> exact reload_rwi s i

theorem ite_or {α : Sort _} (c : Prop) [Decidable c] (a b : α) : (if c then a else b) = a ∨ (if c then a else b) = b := by
  by_cases h : c
  · simp only [h, if_true, true_or]
  · simp only [h, if_false, or_true]

/-- `useIter` changes nothing but (possibly) the `uaf` flag -/
theorem useIter_eq (s : St) (j : Nat) : useIter s j = s ∨ useIter s j = { s with uaf := true } := by
  unfold useIter
  split
  · exact .inl rfl
  · split
    · exact .inl rfl
    · exact ite_or _ _ _

theorem useIter_rwi (s : St) (j : Nat) : (useIter s j).reloadsWithIters = s.reloadsWithIters := by
  rcases useIter_eq s j with h | h <;> rw [h]

theorem closeIter_rwi (s : St) (j : Nat) : (closeIter s j).reloadsWithIters = s.reloadsWithIters := by
  unfold closeIter
  split
  · rfl
  · split
    · rfl
    · rw [reload_rwi]

theorem destroy_rwi (s : St) (i : Nat) : (destroy s i).reloadsWithIters = s.reloadsWithIters := by
  unfold destroy
  split
  · rfl
  · split
    · rfl
    · dsimp only [setHandle]; split <;> rfl

theorem step_rwi (fx : Bool) (s : St) (op : Op) : (step fx s op).reloadsWithIters = s.reloadsWithIters := by
  cases op <;> simp only [step]
  · exact reload_rwi _ _
  · exact reloadNow_rwi _ _ _
  · exact openIter_rwi _ _
  · exact useIter_rwi _ _
  · exact closeIter_rwi _ _
  · rfl
  · exact destroy_rwi _ _

theorem run_rwi (fx : Bool) (s : St) (ops : List Op) : (run fx s ops).reloadsWithIters = s.reloadsWithIters := by
  induction ops generalizing s with
  | nil => rfl
  | cons op ops ih => simp only [run, List.foldl_cons] at ih ⊢; rw [ih, step_rwi]

/-- **C07 (1)**: `doReload` is only ever reached with `nIters = 0` — for EVERY history, well-formed or not,
    and for both variants of `reload_now`. -/
theorem C07_no_reload_while_open_any (fx : Bool) (w : World) (cfg : HCfg) (ops : List Op) :
    (run fx (init w cfg) ops).reloadsWithIters = 0 := by
  rw [run_rwi]; rfl

theorem C07_no_reload_while_open (w : World) (cfg : HCfg) (ops : List Op) :
    (run true (init w cfg) ops).reloadsWithIters = 0 := C07_no_reload_while_open_any true w cfg ops

/-! ## 2. `my_fileset_reload` preserves the reader-table invariant -/

/-- reader id `r` denotes a live reader object -/
def LiveIn (l : List (Nat × Nat)) (r : Nat) : Prop := ∃ p ∈ l, p.1 = r

theorem tableOf_isSome (l : List (Nat × Nat)) (r : Nat) : (tableOf l r).isSome = true ↔ LiveIn l r := by
  unfold tableOf LiveIn
  rw [Option.isSome_map, List.find?_isSome]
  constructor
  · rintro ⟨p, hp, h⟩; exact ⟨p, hp, by simpa using h⟩
  · rintro ⟨p, hp, h⟩; exact ⟨p, hp, by simpa using h⟩

theorem sourcesLive_iff (s : St) (rs : List Nat) : sourcesLive s rs = true ↔ ∀ r ∈ rs, LiveIn s.sh.loaded r := by
  unfold sourcesLive
  rw [List.all_eq_true]
  constructor
  · intro h r hr; exact (tableOf_isSome _ _).1 (h r hr)
  · intro h r hr; exact (tableOf_isSome _ _).2 (h r hr)

/-- invariant of the shared entry table: readers of entries are live, distinct names never share a reader,
    reader ids are below the allocation counter -/
structure ShInv (sh : Shared) : Prop where
  live : ∀ e ∈ sh.entries, ∀ r, e.reader = some r → LiveIn sh.loaded r
  uniq : ∀ e ∈ sh.entries, ∀ e' ∈ sh.entries, ∀ r, e.reader = some r → e'.reader = some r → e.name = e'.name
  bound : ∀ e ∈ sh.entries, ∀ r, e.reader = some r → r < sh.nextReader

theorem ShInv.congr {sh sh' : Shared} (h : ShInv sh) (he : sh'.entries = sh.entries) (hl : sh'.loaded = sh.loaded)
    (hn : sh'.nextReader = sh.nextReader) : ShInv sh' := by
  constructor
  · rw [he, hl]; exact h.live
  · rw [he]; exact h.uniq
  · rw [he, hn]; exact h.bound

theorem insertSorted_perm (e : FEntry) (l : List FEntry) : (insertSorted e l).Perm (e :: l) := by
  induction l with
  | nil => exact List.Perm.refl _
  | cons x xs ih =>
    unfold insertSorted
    split
    · exact List.Perm.refl _
    · exact (List.Perm.cons x ih).trans (List.Perm.swap e x xs)

def sortAll (l : List FEntry) : List FEntry := l.foldl (fun acc e => insertSorted e acc) []

theorem foldl_insertSorted_perm (l init : List FEntry) :
    (l.foldl (fun acc e => insertSorted e acc) init).Perm (l ++ init) := by
  induction l generalizing init with
  | nil => exact List.Perm.refl _
  | cons x xs ih =>
    rw [List.foldl_cons]
    refine (ih _).trans ?_
    refine (List.Perm.append_left xs (insertSorted_perm x init)).trans ?_
    exact (List.perm_middle).trans (List.Perm.refl _)

theorem sortAll_perm (l : List FEntry) : (sortAll l).Perm l := by
  have := foldl_insertSorted_perm l []
  rwa [List.append_nil] at this

theorem mem_sortAll (l : List FEntry) (e : FEntry) : e ∈ sortAll l ↔ e ∈ l := (sortAll_perm l).mem_iff

/-- invariant of the per-line loop of my_fileset_reload -/
structure FI (sh0 : Shared) (a : List FEntry × List String × Shared × Nat) : Prop where
  frame : a.2.2.1 = { sh0 with nextReader := a.2.2.1.nextReader, loaded := a.2.2.1.loaded }
  nr : sh0.nextReader ≤ a.2.2.1.nextReader
  pre : ∃ extra, a.2.2.1.loaded = sh0.loaded ++ extra ∧ ∀ p ∈ extra, sh0.nextReader ≤ p.1
  ent : ∀ e ∈ a.1, (e ∈ sh0.entries ∧ e.name ∈ a.2.1) ∨ e.reader = none ∨
          (∃ r, e.reader = some r ∧ sh0.nextReader ≤ r ∧ r < a.2.2.1.nextReader ∧ LiveIn a.2.2.1.loaded r)
  uniq : ∀ e ∈ a.1, ∀ e' ∈ a.1, ∀ r, e.reader = some r → e'.reader = some r → e.name = e'.name
  keptsub : ∀ n ∈ a.2.1, ∃ e ∈ a.1, e.name = n
  nl0 : a.2.2.2 = 0 → a.2.2.1 = sh0 ∧ ∀ e ∈ a.1, e ∈ sh0.entries

theorem FI_init (sh0 : Shared) : FI sh0 ([], [], sh0, 0) := by
  constructor
  · rfl
  · exact Nat.le_refl _
  · exact ⟨[], by simp, by simp⟩
  · simp
  · simp
  · simp
  · intro _; exact ⟨rfl, by simp⟩

theorem find_entry {old : List FEntry} {name : String} {e : FEntry} (h : old.find? (·.name == name) = some e) :
    e ∈ old ∧ ({ name := name, reader := e.reader } : FEntry) = e := by
  refine ⟨List.mem_of_find?_eq_some h, ?_⟩
  have := List.find?_some h
  simp only [beq_iff_eq] at this
  cases e; simp only at this; subst this; rfl

theorem mem_snoc {α} {l : List α} {x e : α} : e ∈ l ++ [x] ↔ e ∈ l ∨ e = x := by
  rw [List.mem_append, List.mem_singleton]

/-- "same reader ⇒ same name" -/
def SameR (a b : FEntry) : Prop := ∀ r, a.reader = some r → b.reader = some r → a.name = b.name

theorem sameR_snoc {l : List FEntry} {x : FEntry} (hl : ∀ a ∈ l, ∀ b ∈ l, SameR a b) (hlx : ∀ a ∈ l, SameR a x) :
    ∀ a ∈ l ++ [x], ∀ b ∈ l ++ [x], SameR a b := by
  intro a ha b hb
  rcases mem_snoc.1 ha with h1 | h1 <;> rcases mem_snoc.1 hb with h2 | h2
  · exact hl a h1 b h2
  · subst h2; exact hlx a h1
  · subst h1; intro r p q; exact (hlx b h2 r q p).symm
  · subst h1; subst h2; intro _ _ _; rfl

theorem FI_step (w : World) (sh0 : Shared) (hi : ShInv sh0) (a : List FEntry × List String × Shared × Nat)
    (name : String) (ha : FI sh0 a) : FI sh0 (loadLine w sh0.entries a name) := by
  obtain ⟨newE, kept, sh, nl⟩ := a
  have hframe := ha.frame
  have hnr := ha.nr
  have hent := ha.ent
  have hnl0 := ha.nl0
  have hkept := ha.keptsub
  obtain ⟨extra, hex, hexb⟩ := ha.pre
  have huniq : ∀ a ∈ newE, ∀ b ∈ newE, SameR a b := ha.uniq
  dsimp only at hframe hnr hent hnl0 hkept hex
  unfold loadLine
  dsimp only
  split
  · exact ha
  · rename_i kind _
    split
    · -- kept entry
      rename_i e0 hfind
      obtain ⟨hmem, heq⟩ := find_entry hfind
      rw [heq]
      have hname : e0.name = name := by rw [← heq]
      constructor
      · exact ha.frame
      · exact ha.nr
      · exact ha.pre
      · intro e he
        rcases mem_snoc.1 he with he | he
        · rcases hent e he with ⟨h1, h2⟩ | h | h
          · exact .inl ⟨h1, List.mem_cons_of_mem _ h2⟩
          · exact .inr (.inl h)
          · exact .inr (.inr h)
        · subst he
          exact .inl ⟨hmem, by rw [hname]; exact List.mem_cons_self⟩
      · refine sameR_snoc huniq ?_
        intro e he r h1 h2
        rcases hent e he with ⟨h3, _⟩ | h3 | ⟨r', h3, h4, _, _⟩
        · exact hi.uniq e h3 e0 hmem r h1 h2
        · rw [h3] at h1; cases h1
        · have : r' = r := by rw [h3] at h1; exact Option.some.inj h1
          subst this
          have := hi.bound e0 hmem r' h2
          omega
      · intro n hn
        rcases List.mem_cons.1 hn with hn | hn
        · exact ⟨e0, mem_snoc.2 (.inr rfl), by rw [hn, hname]⟩
        · obtain ⟨e, he, h⟩ := hkept n hn
          exact ⟨e, List.mem_append_left _ he, h⟩
      · intro h0
        obtain ⟨h1, h2⟩ := hnl0 h0
        refine ⟨h1, ?_⟩
        intro e he
        rcases mem_snoc.1 he with he | he
        · exact h2 e he
        · subst he; exact hmem
    · -- new path
      split
      · -- a table: fresh reader
        rename_i tid htid
        constructor
        · dsimp only; rw [hframe]
        · dsimp only; omega
        · refine ⟨extra ++ [(sh.nextReader, tid)], ?_, ?_⟩
          · dsimp only; rw [hex, List.append_assoc]
          · intro p hp
            rcases mem_snoc.1 hp with hp | hp
            · exact hexb p hp
            · subst hp; exact hnr
        · intro e he
          rcases mem_snoc.1 he with he | he
          · rcases hent e he with h | h | ⟨r, h1, h2, h3, p, hp, hpr⟩
            · exact .inl h
            · exact .inr (.inl h)
            · refine .inr (.inr ⟨r, h1, h2, ?_, p, List.mem_append_left _ hp, hpr⟩)
              dsimp only; omega
          · subst he
            refine .inr (.inr ⟨sh.nextReader, rfl, hnr, ?_, (sh.nextReader, tid), mem_snoc.2 (.inr rfl), rfl⟩)
            dsimp only; omega
        · refine sameR_snoc huniq ?_
          intro e he r h1 h2
          have : sh.nextReader = r := Option.some.inj h2
          subst this
          rcases hent e he with ⟨h3, _⟩ | h3 | ⟨r', h3, _, h4, _⟩
          · have := hi.bound e h3 _ h1; omega
          · rw [h3] at h1; cases h1
          · have : r' = sh.nextReader := by rw [h3] at h1; exact Option.some.inj h1
            omega
        · intro n hn
          obtain ⟨e, he, h⟩ := hkept n hn
          exact ⟨e, List.mem_append_left _ he, h⟩
        · intro h0; dsimp only at h0; omega
      · -- not a table
        constructor
        · exact ha.frame
        · exact ha.nr
        · exact ha.pre
        · intro e he
          rcases mem_snoc.1 he with he | he
          · exact hent e he
          · subst he; exact .inr (.inl rfl)
        · refine sameR_snoc huniq ?_
          intro e he r h1 h2
          cases h2
        · intro n hn
          obtain ⟨e, he, h⟩ := hkept n hn
          exact ⟨e, List.mem_append_left _ he, h⟩
        · intro h0; dsimp only at h0; omega

theorem FI_fold (w : World) (sh0 : Shared) (hi : ShInv sh0) (lines : List String)
    (a : List FEntry × List String × Shared × Nat) (ha : FI sh0 a) :
    FI sh0 (lines.foldl (loadLine w sh0.entries) a) := by
  induction lines generalizing a with
  | nil => exact ha
  | cons x xs ih => rw [List.foldl_cons]; exact ih _ (FI_step w sh0 hi a x ha)

/-- the result of the per-line loop of my_fileset_reload -/
def loopRes (w : World) (sh : Shared) : List FEntry × List String × Shared × Nat :=
  w.setLines.foldl (loadLine w sh.entries) ([], [], { sh with lastStamp := w.setStamp }, 0)

def droppedOf (w : World) (sh : Shared) : List FEntry :=
  sh.entries.filter fun e => !(loopRes w sh).2.1.contains e.name

theorem myReload_same (w : World) (sh : Shared) (h : sh.lastStamp = w.setStamp) : myReload w sh = (0, 0, sh) := by
  unfold myReload
  simp only [h, beq_self_eq_true, if_true]

theorem loopRes_FI (w : World) (sh : Shared) (hi : ShInv sh) :
    FI { sh with lastStamp := w.setStamp } (loopRes w sh) :=
  FI_fold w { sh with lastStamp := w.setStamp } (hi.congr rfl rfl rfl) _ _ (FI_init _)

theorem myReload_eq0 (w : World) (sh : Shared) (h : sh.lastStamp ≠ w.setStamp) : myReload w sh =
    ((loopRes w sh).2.2.2, ((loopRes w sh).2.2.1.entries.filter fun e => !(loopRes w sh).2.1.contains e.name).length,
      { (loopRes w sh).2.2.1 with
          entries := sortAll (loopRes w sh).1,
          loaded := (loopRes w sh).2.2.1.loaded.filter fun p =>
            !(((loopRes w sh).2.2.1.entries.filter fun e => !(loopRes w sh).2.1.contains e.name).filterMap (·.reader)).contains p.1 }) := by
  unfold myReload
  have : (sh.lastStamp == w.setStamp) = false := by simpa using h
  simp only [this]
  rfl

theorem myReload_eq (w : World) (sh : Shared) (hi : ShInv sh) (h : sh.lastStamp ≠ w.setStamp) : myReload w sh =
    ((loopRes w sh).2.2.2, (droppedOf w sh).length,
      { (loopRes w sh).2.2.1 with
          entries := sortAll (loopRes w sh).1,
          loaded := (loopRes w sh).2.2.1.loaded.filter fun p => !((droppedOf w sh).filterMap (·.reader)).contains p.1 }) := by
  have hf := (loopRes_FI w sh hi).frame
  have he : (loopRes w sh).2.2.1.entries = sh.entries := by rw [hf]
  rw [myReload_eq0 w sh h, he]
  rfl

theorem mem_droppedIds {w : World} {sh : Shared} {r : Nat} :
    r ∈ (droppedOf w sh).filterMap (·.reader) ↔
      ∃ e ∈ sh.entries, e.name ∉ (loopRes w sh).2.1 ∧ e.reader = some r := by
  unfold droppedOf
  simp only [List.mem_filterMap, List.mem_filter, Bool.not_eq_true', List.contains_eq_mem, decide_eq_false_iff_not]
  constructor
  · rintro ⟨e, ⟨h1, h2⟩, h3⟩; exact ⟨e, h1, h2, h3⟩
  · rintro ⟨e, h1, h2, h3⟩; exact ⟨e, ⟨h1, h2⟩, h3⟩

theorem myReload_inv (w : World) (sh : Shared) (hi : ShInv sh) : ShInv (myReload w sh).2.2 := by
  by_cases hs : sh.lastStamp = w.setStamp
  · rw [myReload_same w sh hs]; exact hi
  · rw [myReload_eq w sh hi hs]
    have fi := loopRes_FI w sh hi
    obtain ⟨extra, hex, hexb⟩ := fi.pre
    have hnr := fi.nr
    dsimp only at hex hexb hnr ⊢
    constructor
    · intro e he r hr
      dsimp only at he ⊢
      rw [mem_sortAll] at he
      rcases fi.ent e he with ⟨h1, h2⟩ | h | ⟨r', h1, h2, h3, p, hp, hpr⟩
      · obtain ⟨p, hp, hpr⟩ := hi.live e h1 r hr
        refine ⟨p, ?_, hpr⟩
        rw [List.mem_filter]
        refine ⟨by rw [hex]; exact List.mem_append_left _ hp, ?_⟩
        rw [hpr, Bool.not_eq_true', List.contains_eq_mem, decide_eq_false_iff_not, mem_droppedIds]
        rintro ⟨e1, h3, h4, h5⟩
        have := hi.uniq e h1 e1 h3 r hr h5
        rw [this] at h2; exact h4 h2
      · rw [h] at hr; cases hr
      · have : r' = r := by rw [h1] at hr; exact Option.some.inj hr
        subst this
        refine ⟨p, ?_, hpr⟩
        rw [List.mem_filter]
        refine ⟨hp, ?_⟩
        rw [hpr, Bool.not_eq_true', List.contains_eq_mem, decide_eq_false_iff_not, mem_droppedIds]
        rintro ⟨e1, h3, _, h5⟩
        have := hi.bound e1 h3 r' h5
        dsimp only at h2
        omega
    · intro e he e' he'
      dsimp only at he he'
      rw [mem_sortAll] at he he'
      exact fi.uniq e he e' he'
    · intro e he r hr
      dsimp only at he ⊢
      rw [mem_sortAll] at he
      rcases fi.ent e he with ⟨h1, _⟩ | h | ⟨r', h1, _, h3, _⟩
      · have := hi.bound e h1 r hr; omega
      · rw [h] at hr; cases hr
      · have : r' = r := by rw [h1] at hr; exact Option.some.inj hr
        omega

/-- nothing was unloaded ⇒ every live reader stays live -/
theorem myReload_live_mono (w : World) (sh : Shared) (hi : ShInv sh) (hnu : (myReload w sh).2.1 = 0) (r : Nat)
    (hl : LiveIn sh.loaded r) : LiveIn (myReload w sh).2.2.loaded r := by
  by_cases hs : sh.lastStamp = w.setStamp
  · rw [myReload_same w sh hs]; exact hl
  · rw [myReload_eq w sh hi hs] at hnu ⊢
    have fi := loopRes_FI w sh hi
    obtain ⟨extra, hex, _⟩ := fi.pre
    dsimp only at hex hnu ⊢
    obtain ⟨p, hp, hpr⟩ := hl
    refine ⟨p, ?_, hpr⟩
    rw [List.mem_filter]
    refine ⟨by rw [hex]; exact List.mem_append_left _ hp, ?_⟩
    rw [List.length_eq_zero_iff] at hnu
    rw [hnu]; rfl

theorem loadLine_frame (w : World) (old : List FEntry) (a : List FEntry × List String × Shared × Nat) (name : String) :
    (loadLine w old a name).2.2.1 =
      { a.2.2.1 with nextReader := (loadLine w old a name).2.2.1.nextReader,
                     loaded := (loadLine w old a name).2.2.1.loaded } := by
  obtain ⟨newE, kept, sh, nl⟩ := a
  unfold loadLine
  dsimp only
  split
  · rfl
  · split
    · rfl
    · split <;> rfl

theorem fold_frame (w : World) (old : List FEntry) (lines : List String) (a : List FEntry × List String × Shared × Nat) :
    (lines.foldl (loadLine w old) a).2.2.1 =
      { a.2.2.1 with nextReader := (lines.foldl (loadLine w old) a).2.2.1.nextReader,
                     loaded := (lines.foldl (loadLine w old) a).2.2.1.loaded } := by
  induction lines generalizing a with
  | nil => rfl
  | cons x xs ih =>
    rw [List.foldl_cons, ih, loadLine_frame]

/-- what my_fileset_reload leaves alone, and the stamp it remembers (no invariant needed) -/
theorem myReload_frame (w : World) (sh : Shared) :
    (myReload w sh).2.2.nIters = sh.nIters ∧ (myReload w sh).2.2.nFs = sh.nFs ∧
    (myReload w sh).2.2.reloadNeeded = sh.reloadNeeded ∧ (myReload w sh).2.2.fsLast = sh.fsLast ∧
    (myReload w sh).2.2.alive = sh.alive ∧ (myReload w sh).2.2.lastStamp = w.setStamp := by
  by_cases hs : sh.lastStamp = w.setStamp
  · rw [myReload_same w sh hs]; exact ⟨rfl, rfl, rfl, rfl, rfl, hs⟩
  · rw [myReload_eq0 w sh hs]
    dsimp only
    unfold loopRes
    rw [fold_frame]
    exact ⟨rfl, rfl, rfl, rfl, rfl, rfl⟩

/-! ## 3. The safety invariant and its preservation -/

/-- the reader ids fs_reinit_merger puts into a merger with configuration `cfg` -/
def srcs (sh : Shared) (cfg : HCfg) : List Nat := (reinit sh { cfg := cfg }).sources

theorem reinit_sources (sh : Shared) (h : Handle) : (reinit sh h).sources = srcs sh h.cfg := rfl

theorem ite_some_none {α} {c : Prop} [Decidable c] {a b : α} (h : (if c then some a else none) = some b) : c ∧ a = b := by
  by_cases hc : c
  · rw [if_pos hc] at h; exact ⟨hc, Option.some.inj h⟩
  · rw [if_neg hc] at h; cases h

theorem mem_srcs {sh : Shared} {cfg : HCfg} {r : Nat} (h : r ∈ srcs sh cfg) : ∃ e ∈ sh.entries, e.reader = some r := by
  unfold srcs reinit at h
  dsimp only at h
  rw [List.mem_filterMap] at h
  obtain ⟨e, he, h⟩ := h
  refine ⟨e, he, ?_⟩
  split at h
  · cases h
  · rename_i rid hr
    have := (ite_some_none h).2
    rw [← this]; exact hr

theorem srcs_nil {sh : Shared} {cfg : HCfg} (h : sh.entries = []) : srcs sh cfg = [] := by
  unfold srcs reinit; rw [h]; rfl

theorem countP_set_of_eq {α} (p : α → Bool) (l : List α) (i : Nat) (a b : α) (h : l[i]? = some a) (hp : p b = p a) :
    (l.set i b).countP p = l.countP p := by
  induction l generalizing i with
  | nil => rfl
  | cons x xs ih =>
    cases i with
    | zero =>
      simp only [List.getElem?_cons_zero, Option.some.injEq] at h
      subst h
      simp only [List.set_cons_zero, List.countP_cons, hp]
    | succ i =>
      simp only [List.getElem?_cons_succ] at h
      simp only [List.set_cons_succ, List.countP_cons, ih i h]

theorem countP_set_true_false {α} (p : α → Bool) (l : List α) (i : Nat) (a b : α) (h : l[i]? = some a)
    (ha : p a = true) (hb : p b = false) : (l.set i b).countP p + 1 = l.countP p := by
  induction l generalizing i with
  | nil => simp at h
  | cons x xs ih =>
    cases i with
    | zero =>
      simp only [List.getElem?_cons_zero, Option.some.injEq] at h
      subst h
      simp [List.set_cons_zero, ha, hb]
    | succ i =>
      simp only [List.getElem?_cons_succ] at h
      simp only [List.set_cons_succ, List.countP_cons, ← ih i h]
      omega

structure Inv (s : St) : Prop where
  shinv : ShInv s.sh
  nIters : s.sh.nIters = s.iters.countP (·.isOpen)
  nFs : s.sh.nFs = s.handles.countP (·.alive)
  iters : ∀ it ∈ s.iters, it.isOpen = true → ∃ h, s.handles[it.handle]? = some h ∧ h.alive = true ∧
            h.mergerGen = it.mergerGen ∧ h.fsLast = s.sh.fsLast ∧ ∀ r ∈ it.readers, LiveIn s.sh.loaded r
  cur : ∀ h ∈ s.handles, h.alive = true → h.fsLast = s.sh.fsLast → ∀ r ∈ h.sources, LiveIn s.sh.loaded r
  hts : ∀ h ∈ s.handles, h.fsLast.2 < s.w.tick ∨ h.sources = []
  sts : s.sh.fsLast.2 < s.w.tick ∨ s.sh.entries = []
  uaf : s.uaf = false

theorem Inv_init (w : World) (cfg : HCfg) : Inv (init w cfg) := by
  constructor
  · constructor <;> simp [init]
  · rfl
  · rfl
  · simp [init]
  · simp [init]
  · simp [init]
  · exact .inr rfl
  · rfl

theorem Inv_setHandle {s : St} {i : Nat} {h0 h : Handle} (hi : Inv s) (hget : s.handles[i]? = some h0)
    (halive : h.alive = h0.alive)
    (hit : ∀ it ∈ s.iters, it.isOpen = true → it.handle = i → h.mergerGen = it.mergerGen ∧ h.fsLast = s.sh.fsLast)
    (hcur : h.alive = true → h.fsLast = s.sh.fsLast → ∀ r ∈ h.sources, LiveIn s.sh.loaded r)
    (hts : h.fsLast.2 < s.w.tick ∨ h.sources = []) : Inv (setHandle s i h) := by
  constructor
  · exact hi.shinv
  · exact hi.nIters
  · show s.sh.nFs = (s.handles.set i h).countP (·.alive)
    rw [countP_set_of_eq _ _ _ _ _ hget halive]; exact hi.nFs
  · intro it hit' hopen
    obtain ⟨h1, g1, g2, g3, g4, g5⟩ := hi.iters it hit' hopen
    show ∃ h', (s.handles.set i h)[it.handle]? = some h' ∧ _
    by_cases hc : it.handle = i
    · rw [hc] at g1
      rw [hget] at g1; cases g1
      obtain ⟨k1, k2⟩ := hit it hit' hopen hc
      refine ⟨h, ?_, by rw [halive]; exact g2, k1, k2, g5⟩
      rw [hc, List.getElem?_set_self']
      rw [hget]; rfl
    · refine ⟨h1, ?_, g2, g3, g4, g5⟩
      rw [List.getElem?_set_ne (Ne.symm hc)]; exact g1
  · intro h' hm
    rcases List.mem_or_eq_of_mem_set hm with hm | hm
    · exact hi.cur h' hm
    · subst hm; exact hcur
  · intro h' hm
    rcases List.mem_or_eq_of_mem_set hm with hm | hm
    · exact hi.hts h' hm
    · subst hm; exact hts
  · exact hi.sts
  · exact hi.uaf

theorem syncHandle_alive (s : St) (h : Handle) : (syncHandle s h).alive = h.alive := by
  unfold syncHandle; split <;> rfl

theorem syncHandle_cfg (s : St) (h : Handle) : (syncHandle s h).cfg = h.cfg := by
  unfold syncHandle; split <;> rfl

theorem syncHandle_fsLast (s : St) (h : Handle) : (syncHandle s h).fsLast = s.sh.fsLast := by
  unfold syncHandle; split
  · rfl
  · rename_i hc; simpa using hc

theorem syncHandle_of_eq (s : St) (h : Handle) (he : h.fsLast = s.sh.fsLast) : syncHandle s h = h := by
  unfold syncHandle; simp [he]

theorem Inv_sync {s : St} {i : Nat} {h0 : Handle} (hi : Inv s) (hget : s.handles[i]? = some h0) :
    Inv (setHandle s i (syncHandle s h0)) := by
  by_cases he : h0.fsLast = s.sh.fsLast
  · rw [syncHandle_of_eq s h0 he]
    refine Inv_setHandle hi hget rfl ?_ (hi.cur h0 (List.mem_of_getElem? hget)) (hi.hts h0 (List.mem_of_getElem? hget))
    intro it hm ho hc
    obtain ⟨h1, g1, _, g3, g4, _⟩ := hi.iters it hm ho
    rw [hc, hget] at g1; cases g1
    exact ⟨g3, g4⟩
  · refine Inv_setHandle hi hget (syncHandle_alive s h0) ?_ ?_ ?_
    · intro it hm ho hc
      obtain ⟨h1, g1, _, _, g4, _⟩ := hi.iters it hm ho
      rw [hc, hget] at g1; cases g1
      exact (he g4).elim
    · intro _ _ r hr
      have : (syncHandle s h0).sources = srcs s.sh h0.cfg := by
        unfold syncHandle; simp [he]; rfl
      rw [this] at hr
      obtain ⟨e, h1, h2⟩ := mem_srcs hr
      exact hi.shinv.live e h1 r h2
    · rw [syncHandle_fsLast]
      rcases hi.sts with h | h
      · exact .inl h
      · right
        unfold syncHandle; simp [he]
        exact srcs_nil h

theorem Inv_readClock {s : St} (hi : Inv s) : Inv (readClock s).2 := by
  constructor
  · exact hi.shinv
  · exact hi.nIters
  · exact hi.nFs
  · exact hi.iters
  · exact hi.cur
  · intro h hm
    rcases hi.hts h hm with g | g
    · exact .inl (Nat.lt_succ_of_lt g)
    · exact .inr g
  · rcases hi.sts with g | g
    · exact .inl (Nat.lt_succ_of_lt g)
    · exact .inr g
  · exact hi.uaf

theorem reloadedHandle_alive (s : St) (h : Handle) : (reloadedHandle s h).alive = h.alive := by
  unfold reloadedHandle; dsimp only; split <;> rfl
theorem reloadedHandle_cfg (s : St) (h : Handle) : (reloadedHandle s h).cfg = h.cfg := by
  unfold reloadedHandle; dsimp only; split <;> rfl
theorem reloadedHandle_fsLast (s : St) (h : Handle) : (reloadedHandle s h).fsLast = (s.w.sec, s.w.tick) := rfl
theorem reloadedHandle_sources (s : St) (h : Handle) : (reloadedHandle s h).sources =
    if (myReload s.w s.sh).1 > 0 || (myReload s.w s.sh).2.1 > 0 then srcs (myReload s.w s.sh).2.2 h.cfg else h.sources := by
  unfold reloadedHandle; dsimp only; split <;> rfl

theorem Inv_doReload {s : St} {i : Nat} {h : Handle} (hi : Inv s) (hget : s.handles[i]? = some h)
    (hsync : h.fsLast = s.sh.fsLast) (hn : s.sh.nIters = 0) : Inv (doReload s i h) := by
  rw [doReload_eq]
  have hfr := myReload_frame s.w s.sh
  have hsh := myReload_inv s.w s.sh hi.shinv
  have noopen : ∀ it ∈ s.iters, ¬ it.isOpen = true := by
    have := hi.nIters; rw [hn] at this
    exact List.countP_eq_zero.1 this.symm
  constructor
  · exact hsh.congr rfl rfl rfl
  · dsimp only; rw [hfr.1]; exact hi.nIters
  · dsimp only; rw [hfr.2.1, countP_set_of_eq _ _ _ _ _ hget (reloadedHandle_alive s h)]; exact hi.nFs
  · intro it hm ho; exact (noopen it hm ho).elim
  · intro h' hm ha hf r hr
    dsimp only at hm hf ⊢
    rcases List.mem_or_eq_of_mem_set hm with hm | hm
    · rcases hi.hts h' hm with g | g
      · rw [hf] at g; exact (Nat.lt_irrefl _ g).elim
      · rw [g] at hr; cases hr
    · subst hm
      rw [reloadedHandle_sources] at hr
      split at hr
      · obtain ⟨e, h1, h2⟩ := mem_srcs hr
        exact hsh.live e h1 r h2
      · rename_i hc
        have hnu : (myReload s.w s.sh).2.1 = 0 := by
          simp only [Bool.or_eq_true, decide_eq_true_eq, not_or, Nat.not_lt, Nat.le_zero_eq] at hc
          exact hc.2
        rw [reloadedHandle_alive] at ha
        exact myReload_live_mono s.w s.sh hi.shinv hnu r (hi.cur h (List.mem_of_getElem? hget) ha hsync r hr)
  · intro h' hm
    dsimp only at hm ⊢
    rcases List.mem_or_eq_of_mem_set hm with hm | hm
    · rcases hi.hts h' hm with g | g
      · exact .inl (Nat.lt_succ_of_lt g)
      · exact .inr g
    · subst hm; left; rw [reloadedHandle_fsLast]; exact Nat.lt_succ_self _
  · left; exact Nat.lt_succ_self _
  · exact hi.uaf

/-! ### the operations -/

theorem reload_none {s : St} {i : Nat} (h : s.handles[i]? = none) : reload s i = s := by
  unfold reload; rw [h]

theorem reload_some {s : St} {i : Nat} {h0 : Handle} (h : s.handles[i]? = some h0) : reload s i =
    (if (!s.sh.reloadNeeded && (syncHandle s h0).cfg.interval == NEVER) = true then setHandle s i (syncHandle s h0)
     else if s.sh.nIters > 0 then setHandle s i (syncHandle s h0)
     else if (s.sh.reloadNeeded || decide (s.w.sec - s.sh.fsLast.1 > (syncHandle s h0).cfg.interval)) = true
       then doReload (setHandle s i (syncHandle s h0)) i (syncHandle s h0)
     else (readClock (setHandle s i (syncHandle s h0))).2) := by
  unfold reload; rw [h]; rfl

/-- the outcomes of mtbl_fileset_reload -/
theorem reload_cases (s : St) (i : Nat) :
    (s.handles[i]? = none ∧ reload s i = s) ∨ ∃ h0, s.handles[i]? = some h0 ∧
      (reload s i = setHandle s i (syncHandle s h0) ∨
       (s.sh.nIters = 0 ∧ reload s i = doReload (setHandle s i (syncHandle s h0)) i (syncHandle s h0)) ∨
       (s.sh.nIters = 0 ∧ reload s i = (readClock (setHandle s i (syncHandle s h0))).2)) := by
  cases hg : s.handles[i]? with
  | none => exact .inl ⟨rfl, reload_none hg⟩
  | some h0 =>
    refine .inr ⟨h0, rfl, ?_⟩
    rw [reload_some hg]
    split
    · exact .inl rfl
    · split
      · exact .inl rfl
      · rename_i hn
        have hn : s.sh.nIters = 0 := by omega
        split
        · exact .inr (.inl ⟨hn, rfl⟩)
        · exact .inr (.inr ⟨hn, rfl⟩)

theorem getElem?_setHandle_self {s : St} {i : Nat} {h0 h : Handle} (hget : s.handles[i]? = some h0) :
    (setHandle s i h).handles[i]? = some h := by
  show (s.handles.set i h)[i]? = some h
  rw [List.getElem?_set_self', hget]; rfl

theorem Inv_reload {s : St} (i : Nat) (hi : Inv s) : Inv (reload s i) := by
  rcases reload_cases s i with ⟨_, h⟩ | ⟨h0, hget, h | ⟨hn, h⟩ | ⟨_, h⟩⟩ <;> rw [h]
  · exact hi
  · exact Inv_sync hi hget
  · exact Inv_doReload (Inv_sync hi hget) (getElem?_setHandle_self hget) (syncHandle_fsLast s h0) hn
  · exact Inv_readClock (Inv_sync hi hget)

theorem reloadNow_none {fx : Bool} {s : St} {i : Nat} (h : s.handles[i]? = none) : reloadNow fx s i = s := by
  unfold reloadNow; rw [h]

theorem reloadNow_busy {fx : Bool} {s : St} {i : Nat} {h0 : Handle} (h : s.handles[i]? = some h0) (hn : s.sh.nIters > 0) :
    reloadNow fx s i = { s with sh := { s.sh with reloadNeeded := true } } := by
  unfold reloadNow; rw [h]; simp only [hn, if_true]

theorem reloadNow_idle {s : St} {i : Nat} {h0 : Handle} (h : s.handles[i]? = some h0) (hn : s.sh.nIters = 0) :
    reloadNow true s i = doReload (setHandle s i (syncHandle s h0)) i (syncHandle s h0) := by
  unfold reloadNow; rw [h]
  have : ¬ s.sh.nIters > 0 := by omega
  simp only [this, if_false, if_true]
  rw [doReload_eq, doReload_eq]
  simp only [setHandle, List.set_set]
  rfl

theorem Inv_busy {s : St} (hi : Inv s) : Inv { s with sh := { s.sh with reloadNeeded := true } } :=
  ⟨hi.shinv.congr rfl rfl rfl, hi.nIters, hi.nFs, hi.iters, hi.cur, hi.hts, hi.sts, hi.uaf⟩

theorem Inv_reloadNow {s : St} (i : Nat) (hi : Inv s) : Inv (reloadNow true s i) := by
  cases hg : s.handles[i]? with
  | none => rw [reloadNow_none hg]; exact hi
  | some h0 =>
    by_cases hn : s.sh.nIters > 0
    · rw [reloadNow_busy hg hn]; exact Inv_busy hi
    · have hn : s.sh.nIters = 0 := by omega
      rw [reloadNow_idle hg hn]
      exact Inv_doReload (Inv_sync hi hg) (getElem?_setHandle_self hg) (syncHandle_fsLast s h0) hn

/-- the part of a handle no operation but `destroy` changes -/
def hkey (h : Handle) : Bool × HCfg := (h.alive, h.cfg)

/-- `s'` has the same iterators, flag, and the same handles up to merger state -/
structure Same (s s' : St) : Prop where
  iters : s'.iters = s.iters
  uaf : s'.uaf = s.uaf
  hnd : ∀ k : Nat, (s'.handles[k]?).map hkey = (s.handles[k]?).map hkey

theorem Same.refl (s : St) : Same s s := ⟨rfl, rfl, fun _ => rfl⟩
theorem Same.trans {a b c : St} (h1 : Same a b) (h2 : Same b c) : Same a c :=
  ⟨h2.iters.trans h1.iters, h2.uaf.trans h1.uaf, fun k => (h2.hnd k).trans (h1.hnd k)⟩

theorem Same_setHandle {s : St} {i : Nat} {h0 h : Handle} (hget : s.handles[i]? = some h0)
    (ha : h.alive = h0.alive) (hc : h.cfg = h0.cfg) : Same s (setHandle s i h) := by
  refine ⟨rfl, rfl, fun k => ?_⟩
  show ((s.handles.set i h)[k]?).map _ = _
  by_cases hk : i = k
  · subst hk
    rw [List.getElem?_set_self', hget]; simp [hkey, ha, hc]
  · rw [List.getElem?_set_ne hk]

theorem Same_doReload {s : St} {i : Nat} {h : Handle} (hget : s.handles[i]? = some h) : Same s (doReload s i h) := by
  rw [doReload_eq]
  refine ⟨rfl, rfl, fun k => ?_⟩
  dsimp only
  by_cases hk : i = k
  · subst hk
    rw [List.getElem?_set_self', hget]; simp [hkey, reloadedHandle_alive, reloadedHandle_cfg]
  · rw [List.getElem?_set_ne hk]

theorem Same_sync {s : St} {i : Nat} {h0 : Handle} (hget : s.handles[i]? = some h0) :
    Same s (setHandle s i (syncHandle s h0)) :=
  Same_setHandle hget (syncHandle_alive s h0) (syncHandle_cfg s h0)

theorem Same_reload (s : St) (i : Nat) : Same s (reload s i) := by
  rcases reload_cases s i with ⟨_, h⟩ | ⟨h0, hget, h | ⟨hn, h⟩ | ⟨_, h⟩⟩ <;> rw [h]
  · exact Same.refl s
  · exact Same_sync hget
  · exact (Same_sync hget).trans (Same_doReload (getElem?_setHandle_self hget))
  · exact (Same_sync hget).trans ⟨rfl, rfl, fun _ => rfl⟩

theorem Same_reloadNow (s : St) (i : Nat) : Same s (reloadNow true s i) := by
  cases hg : s.handles[i]? with
  | none => rw [reloadNow_none hg]; exact Same.refl s
  | some h0 =>
    by_cases hn : s.sh.nIters > 0
    · rw [reloadNow_busy hg hn]; exact ⟨rfl, rfl, fun _ => rfl⟩
    · have hn : s.sh.nIters = 0 := by omega
      rw [reloadNow_idle hg hn]
      exact (Same_sync hg).trans (Same_doReload (getElem?_setHandle_self hg))

/-- after the reload check the handle's merger carries the current reload stamp -/
theorem reload_synced (s : St) (i : Nat) (h : Handle) (hget : (reload s i).handles[i]? = some h) :
    h.fsLast = (reload s i).sh.fsLast := by
  rcases reload_cases s i with ⟨hn, e⟩ | ⟨h0, hg, e | ⟨_, e⟩ | ⟨_, e⟩⟩
  · rw [e, hn] at hget; cases hget
  · rw [e] at hget ⊢
    rw [getElem?_setHandle_self hg] at hget; cases hget
    exact syncHandle_fsLast s h0
  · rw [e] at hget ⊢
    rw [doReload_eq] at hget ⊢
    dsimp only at hget ⊢
    rw [List.getElem?_set_self', getElem?_setHandle_self hg] at hget
    cases hget; rfl
  · rw [e] at hget ⊢
    have : ((readClock (setHandle s i (syncHandle s h0))).2).handles[i]? = some (syncHandle s h0) :=
      getElem?_setHandle_self hg
    rw [this] at hget; cases hget
    exact syncHandle_fsLast s h0

/-! ### well-formed histories -/

def hAlive (s : St) (i : Nat) : Bool := match s.handles[i]? with | some h => h.alive | none => false
def iOpen (s : St) (j : Nat) : Bool := match s.iters[j]? with | some it => it.isOpen | none => false

/-- what the API contract demands of the caller at each step -/
def OpOk (s : St) : Op → Prop
  | .editSetfile lines => lines.Nodup
  | .putFile _ _ => True
  | .rmFile _ => True
  | .advance _ => True
  | .reload h => hAlive s h = true
  | .reloadNow h => hAlive s h = true
  | .openIter h => hAlive s h = true
  | .useIter j => iOpen s j = true
  | .closeIter j => iOpen s j = true
  | .dup _ => s.handles.any (·.alive) = true
  | .destroy h => hAlive s h = true ∧ ∀ it ∈ s.iters, it.isOpen = true → it.handle ≠ h

instance (s : St) (op : Op) : Decidable (OpOk s op) := by
  cases op <;> unfold OpOk <;> infer_instance

/-- well-formed history, checked step by step along the run (for either variant of reload_now) -/
def WFx (fx : Bool) (s : St) : List Op → Prop
  | [] => True
  | op :: ops => OpOk s op ∧ WFx fx (step fx s op) ops

def WFx.dec (fx : Bool) : (s : St) → (ops : List Op) → Decidable (WFx fx s ops)
  | _, [] => isTrue trivial
  | s, op :: ops => @instDecidableAnd _ _ _ (WFx.dec fx (step fx s op) ops)

instance (fx : Bool) (s : St) (ops : List Op) : Decidable (WFx fx s ops) := WFx.dec fx s ops

/-- well-formed history of the repaired code -/
abbrev WF (s : St) (ops : List Op) : Prop := WFx true s ops

theorem hAlive_iff {s : St} {i : Nat} : hAlive s i = true ↔ ∃ h, s.handles[i]? = some h ∧ h.alive = true := by
  unfold hAlive
  cases s.handles[i]? with
  | none => simp
  | some h => simp

theorem iOpen_iff {s : St} {j : Nat} : iOpen s j = true ↔ ∃ it, s.iters[j]? = some it ∧ it.isOpen = true := by
  unfold iOpen
  cases s.iters[j]? with
  | none => simp
  | some h => simp

theorem Same.hAlive {s s' : St} (h : Same s s') (k : Nat) : hAlive s' k = hAlive s k := by
  have := h.hnd k
  unfold Fs.hAlive
  cases h1 : s'.handles[k]? <;> cases h2 : s.handles[k]? <;> rw [h1, h2] at this <;> simp [hkey] at this ⊢
  exact this.1

theorem openIter_eq {s : St} {i : Nat} {h : Handle} (hget : (reload s i).handles[i]? = some h)
    (hl : sourcesLive (reload s i) h.sources = true) : openIter s i =
      { reload s i with sh := { (reload s i).sh with nIters := (reload s i).sh.nIters + 1 },
                        iters := (reload s i).iters ++ [{ handle := i, readers := h.sources, mergerGen := h.mergerGen }] } := by
  unfold openIter
  dsimp only
  rw [hget]
  dsimp only
  rw [if_pos hl]

theorem Inv_openIter {s : St} {i : Nat} (hi : Inv s) (ha : hAlive s i = true) : Inv (openIter s i) := by
  have hi1 := Inv_reload i hi
  have ha1 : hAlive (reload s i) i = true := by rw [(Same_reload s i).hAlive]; exact ha
  obtain ⟨h, hget, hal⟩ := hAlive_iff.1 ha1
  have hsync := reload_synced s i h hget
  have hlive := hi1.cur h (List.mem_of_getElem? hget) hal hsync
  rw [openIter_eq hget ((sourcesLive_iff _ _).2 hlive)]
  constructor
  · exact hi1.shinv.congr rfl rfl rfl
  · dsimp only
    rw [List.countP_append, hi1.nIters]; rfl
  · exact hi1.nFs
  · intro it hm ho
    rcases mem_snoc.1 hm with hm | hm
    · exact hi1.iters it hm ho
    · subst hm
      exact ⟨h, hget, hal, rfl, hsync, hlive⟩
  · exact hi1.cur
  · exact hi1.hts
  · exact hi1.sts
  · exact hi1.uaf

theorem useIter_safe {s : St} {j : Nat} (hi : Inv s) (ho : iOpen s j = true) : useIter s j = s := by
  obtain ⟨it, hget, hopen⟩ := iOpen_iff.1 ho
  obtain ⟨h, g1, g2, g3, _, g5⟩ := hi.iters it (List.mem_of_getElem? hget) hopen
  unfold useIter
  rw [hget]
  dsimp only
  rw [g1]
  simp only [hopen, g2, g3, (sourcesLive_iff s it.readers).2 g5]
  simp

/-- the state in the middle of fileset_iter_free: counter decremented, iterator gone, reload check not yet made -/
def closeMid (s : St) (j : Nat) (it : Iter) : St :=
  { s with sh := { s.sh with nIters := s.sh.nIters - 1 }, iters := s.iters.set j { it with isOpen := false } }

theorem closeIter_eq {s : St} {j : Nat} {it : Iter} (hget : s.iters[j]? = some it) (hopen : it.isOpen = true) :
    closeIter s j = reload (closeMid s j it) it.handle := by
  unfold closeIter
  rw [hget]
  simp only [hopen, Bool.not_true, Bool.false_eq_true, if_false]
  rfl

theorem Inv_closeMid {s : St} {j : Nat} {it : Iter} (hi : Inv s) (hget : s.iters[j]? = some it) (hopen : it.isOpen = true) :
    Inv (closeMid s j it) := by
  have hc := countP_set_true_false (·.isOpen) s.iters j it { it with isOpen := false } hget hopen rfl
  unfold closeMid
  constructor
  · exact hi.shinv.congr rfl rfl rfl
  · dsimp only; rw [hi.nIters]; omega
  · exact hi.nFs
  · intro it' hm ho'
    rcases List.mem_or_eq_of_mem_set hm with hm | hm
    · exact hi.iters it' hm ho'
    · subst hm; cases ho'
  · exact hi.cur
  · exact hi.hts
  · exact hi.sts
  · exact hi.uaf

theorem Inv_closeIter {s : St} {j : Nat} (hi : Inv s) (ho : iOpen s j = true) : Inv (closeIter s j) := by
  obtain ⟨it, hget, hopen⟩ := iOpen_iff.1 ho
  rw [closeIter_eq hget hopen]
  exact Inv_reload _ (Inv_closeMid hi hget hopen)

theorem Inv_dup {s : St} (cfg : HCfg) (hi : Inv s) : Inv (dup s cfg) := by
  unfold dup
  constructor
  · exact hi.shinv.congr rfl rfl rfl
  · exact hi.nIters
  · dsimp only; rw [List.countP_append, hi.nFs]; rfl
  · intro it hm ho
    obtain ⟨h, g1, g⟩ := hi.iters it hm ho
    refine ⟨h, ?_, g⟩
    dsimp only
    rw [List.getElem?_append_left (List.getElem?_eq_some_iff.1 g1).1]; exact g1
  · intro h hm
    rcases mem_snoc.1 hm with hm | hm
    · exact hi.cur h hm
    · subst hm; intro _ _ r hr; cases hr
  · intro h hm
    rcases mem_snoc.1 hm with hm | hm
    · exact hi.hts h hm
    · subst hm; exact .inr rfl
  · exact hi.sts
  · exact hi.uaf

theorem Inv_world {s : St} (w' : World) (hw : w'.tick = s.w.tick) (hi : Inv s) : Inv { s with w := w' } := by
  constructor
  · exact hi.shinv
  · exact hi.nIters
  · exact hi.nFs
  · exact hi.iters
  · exact hi.cur
  · dsimp only; rw [hw]; exact hi.hts
  · dsimp only; rw [hw]; exact hi.sts
  · exact hi.uaf

theorem destroy_eq {s : St} {i : Nat} {h : Handle} (hget : s.handles[i]? = some h) (ha : h.alive = true) :
    destroy s i =
      if (s.sh.nFs - 1 == 0) = true then
        { s with handles := s.handles.set i { h with alive := false },
                 sh := { s.sh with nFs := 0, loaded := [], entries := [], alive := false } }
      else { s with handles := s.handles.set i { h with alive := false }, sh := { s.sh with nFs := s.sh.nFs - 1 } } := by
  unfold destroy
  rw [hget]
  simp only [ha, Bool.not_true, Bool.false_eq_true, if_false, setHandle]
  rfl

theorem Inv_destroy {s : St} {i : Nat} (hi : Inv s) (ha : hAlive s i = true)
    (hno : ∀ it ∈ s.iters, it.isOpen = true → it.handle ≠ i) : Inv (destroy s i) := by
  obtain ⟨h, hget, hal⟩ := hAlive_iff.1 ha
  rw [destroy_eq hget hal]
  have hc := countP_set_true_false (·.alive) s.handles i h { h with alive := false } hget hal rfl
  have hts' : ∀ h' ∈ s.handles.set i { h with alive := false }, h'.fsLast.2 < s.w.tick ∨ h'.sources = [] := by
    intro h' hm
    rcases List.mem_or_eq_of_mem_set hm with hm | hm
    · exact hi.hts h' hm
    · subst hm; exact hi.hts h (List.mem_of_getElem? hget)
  split
  · rename_i hz
    have hz : s.sh.nFs - 1 = 0 := by simpa using hz
    have hzero : (s.handles.set i { h with alive := false }).countP (·.alive) = 0 := by
      have := hi.nFs; omega
    have hnone := List.countP_eq_zero.1 hzero
    constructor
    · constructor <;> (intro e he; cases he)
    · exact hi.nIters
    · exact hzero.symm
    · intro it hm ho
      obtain ⟨h1, g1, g2, _⟩ := hi.iters it hm ho
      have hne := hno it hm ho
      have : (s.handles.set i { h with alive := false })[it.handle]? = some h1 := by
        rw [List.getElem?_set_ne (Ne.symm hne)]; exact g1
      exact (hnone h1 (List.mem_of_getElem? this) g2).elim
    · intro h' hm ha'
      exact (hnone h' hm ha').elim
    · exact hts'
    · exact .inr rfl
    · exact hi.uaf
  · constructor
    · exact hi.shinv.congr rfl rfl rfl
    · exact hi.nIters
    · dsimp only; have := hi.nFs; omega
    · intro it hm ho
      obtain ⟨h1, g1, g⟩ := hi.iters it hm ho
      have hne := hno it hm ho
      refine ⟨h1, ?_, g⟩
      dsimp only
      rw [List.getElem?_set_ne (Ne.symm hne)]; exact g1
    · intro h' hm
      rcases List.mem_or_eq_of_mem_set hm with hm | hm
      · exact hi.cur h' hm
      · subst hm; intro hf; cases hf
    · exact hts'
    · exact hi.sts
    · exact hi.uaf

theorem Inv_step {s : St} {op : Op} (hi : Inv s) (hok : OpOk s op) : Inv (step true s op) := by
  cases op with
  | editSetfile lines => exact Inv_world _ rfl hi
  | putFile n k => exact Inv_world _ rfl hi
  | rmFile n => exact Inv_world _ rfl hi
  | advance n => exact Inv_world _ rfl hi
  | reload h => exact Inv_reload h hi
  | reloadNow h => exact Inv_reloadNow h hi
  | openIter h => exact Inv_openIter hi hok
  | useIter j => show Inv (useIter s j); rw [useIter_safe hi hok]; exact hi
  | closeIter j => exact Inv_closeIter hi hok
  | dup cfg => exact Inv_dup cfg hi
  | destroy h => exact Inv_destroy hi hok.1 hok.2

theorem Inv_run {s : St} {ops : List Op} (hi : Inv s) (hwf : WF s ops) : Inv (run true s ops) := by
  induction ops generalizing s with
  | nil => exact hi
  | cons op ops ih =>
    show Inv (run true (step true s op) ops)
    exact ih (Inv_step hi hwf.1) hwf.2

/-- **C07 (2)**: with the repaired `reload_now`, no well-formed history — any number of handles made by `dup`,
    any interleaving of reloads, iterator operations, setfile edits and file changes — ever touches a freed
    reader or merger object. -/
theorem C07_no_uaf (w : World) (cfg : HCfg) (ops : List Op) (hwf : WF (init w cfg) ops) :
    (run true (init w cfg) ops).uaf = false :=
  (Inv_run (Inv_init w cfg) hwf).uaf

/-! ### the F3 witness -/

def f3hist : List Op :=
  [.putFile "a" (.table 0), .putFile "b" (.table 1), .editSetfile ["a", "b"], .openIter 0, .closeIter 0, .dup {},
   .openIter 1, .closeIter 1, .editSetfile ["a"], .reloadNow 1, .reloadNow 0, .openIter 0, .useIter 2]

theorem F3_witness_pinned : (run false (init {} {}) f3hist).uaf = true := by decide +kernel
theorem F3_witness_fixed : (run true (init {} {}) f3hist).uaf = false := by decide +kernel
theorem F3_witness_wf : WF (init {} {}) f3hist := by decide +kernel
theorem F3_witness_wf_pinned : WFx false (init {} {}) f3hist := by decide +kernel

/-! ## 4. When a reload happens (C07 (5), (6)) -/

/-- "a reload was performed by the transition `s ⟶ s'`" -/
def Reloaded (s s' : St) : Prop :=
  s'.reloads = s.reloads + 1 ∧ s'.sh.lastStamp = s.w.setStamp ∧ s'.sh.reloadNeeded = false ∧
  s'.sh.fsLast = (s.w.sec, s.w.tick)

theorem doReload_reloaded (s : St) (i : Nat) (h : Handle) : Reloaded s (doReload s i h) := by
  rw [doReload_eq]
  exact ⟨rfl, (myReload_frame s.w s.sh).2.2.2.2.2, rfl, rfl⟩

/-- reload_now with no iterator open reloads at once -/
theorem reloadNow_reloads {s : St} {i : Nat} {h0 : Handle} (hget : s.handles[i]? = some h0) (hn : s.sh.nIters = 0) :
    Reloaded s (reloadNow true s i) := by
  rw [reloadNow_idle hget hn]
  exact doReload_reloaded (setHandle s i (syncHandle s h0)) i _

/-- a pending reload request is honoured by the next reload check made with no iterator open, through ANY handle
    and whatever that handle's interval is (even NEVER) -/
theorem reload_pending {s : St} {j : Nat} {h : Handle} (hget : s.handles[j]? = some h)
    (hp : s.sh.reloadNeeded = true) (hn : s.sh.nIters = 0) : Reloaded s (reload s j) := by
  rw [reload_some hget]
  have : ¬ s.sh.nIters > 0 := by omega
  simp only [hp, Bool.not_true, Bool.false_and, Bool.false_eq_true, if_false, this, Bool.true_or, if_true]
  exact doReload_reloaded (setHandle s j (syncHandle s h)) j _

/-- the interval rule -/
theorem reload_interval {s : St} {i : Nat} {h : Handle} (hget : s.handles[i]? = some h) (hn : s.sh.nIters = 0)
    (hnever : h.cfg.interval ≠ NEVER) (hint : s.w.sec - s.sh.fsLast.1 > h.cfg.interval) : Reloaded s (reload s i) := by
  rw [reload_some hget]
  have h1 : ¬ s.sh.nIters > 0 := by omega
  have h2 : ((syncHandle s h).cfg.interval == NEVER) = false := by
    rw [syncHandle_cfg]; simpa using hnever
  have h3 : decide (s.w.sec - s.sh.fsLast.1 > (syncHandle s h).cfg.interval) = true := by
    rw [syncHandle_cfg]; simpa using hint
  simp only [h2, Bool.and_false, Bool.false_eq_true, if_false, h1, h3, Bool.or_true, if_true]
  exact doReload_reloaded (setHandle s i (syncHandle s h)) i _

/-- progress of the pair (reload count, pending flag) along one transition -/
def Prog (s s' : St) : Prop :=
  s.reloads ≤ s'.reloads ∧ (s.sh.reloadNeeded = true → s'.sh.reloadNeeded = true ∨ s.reloads < s'.reloads)

theorem Prog.refl (s : St) : Prog s s := ⟨Nat.le_refl _, fun h => .inl h⟩
theorem Prog.trans {a b c : St} (h1 : Prog a b) (h2 : Prog b c) : Prog a c := by
  refine ⟨Nat.le_trans h1.1 h2.1, fun h => ?_⟩
  rcases h1.2 h with g | g
  · rcases h2.2 g with k | k
    · exact .inl k
    · exact .inr (Nat.lt_of_le_of_lt h1.1 k)
  · exact .inr (Nat.lt_of_lt_of_le g h2.1)

theorem Prog_of_eq {s s' : St} (h1 : s'.reloads = s.reloads) (h2 : s'.sh.reloadNeeded = s.sh.reloadNeeded) : Prog s s' :=
  ⟨by rw [h1]; exact Nat.le_refl _, fun h => .inl (by rw [h2]; exact h)⟩

theorem Prog_doReload (s : St) (i : Nat) (h : Handle) : Prog s (doReload s i h) := by
  have := (doReload_reloaded s i h).1
  exact ⟨by omega, fun _ => .inr (by omega)⟩

theorem Prog_reload (s : St) (i : Nat) : Prog s (reload s i) := by
  rcases reload_cases s i with ⟨_, h⟩ | ⟨h0, hget, h | ⟨hn, h⟩ | ⟨_, h⟩⟩ <;> rw [h]
  · exact Prog.refl s
  · exact Prog_of_eq rfl rfl
  · exact (Prog_of_eq (s' := setHandle s i (syncHandle s h0)) rfl rfl).trans (Prog_doReload _ _ _)
  · exact Prog_of_eq rfl rfl

theorem Prog_reloadNow (s : St) (i : Nat) : Prog s (reloadNow true s i) := by
  cases hg : s.handles[i]? with
  | none => rw [reloadNow_none hg]; exact Prog.refl s
  | some h0 =>
    by_cases hn : s.sh.nIters > 0
    · rw [reloadNow_busy hg hn]; exact ⟨Nat.le_refl _, fun _ => .inl rfl⟩
    · have hn : s.sh.nIters = 0 := by omega
      rw [reloadNow_idle hg hn]
      exact (Prog_of_eq (s' := setHandle s i (syncHandle s h0)) rfl rfl).trans (Prog_doReload _ _ _)

theorem Prog_openIter (s : St) (i : Nat) : Prog s (openIter s i) := by
  refine (Prog_reload s i).trans ?_
  unfold openIter
  dsimp only
  split
  · exact Prog.refl _
  · split <;> exact Prog_of_eq rfl rfl

theorem Prog_closeIter (s : St) (j : Nat) : Prog s (closeIter s j) := by
  unfold closeIter
  split
  · exact Prog.refl _
  · split
    · exact Prog.refl _
    · dsimp only
      refine Prog.trans ?_ (Prog_reload _ _)
      exact Prog_of_eq rfl rfl

theorem Prog_destroy (s : St) (i : Nat) : Prog s (destroy s i) := by
  unfold destroy
  split
  · exact Prog.refl _
  · split
    · exact Prog.refl _
    · dsimp only [setHandle]; split <;> exact Prog_of_eq rfl rfl

theorem Prog_step (s : St) (op : Op) : Prog s (step true s op) := by
  cases op with
  | editSetfile lines => exact Prog_of_eq rfl rfl
  | putFile n k => exact Prog_of_eq rfl rfl
  | rmFile n => exact Prog_of_eq rfl rfl
  | advance n => exact Prog_of_eq rfl rfl
  | reload h => exact Prog_reload s h
  | reloadNow h => exact Prog_reloadNow s h
  | openIter h => exact Prog_openIter s h
  | useIter j =>
    show Prog s (useIter s j)
    rcases useIter_eq s j with h | h <;> rw [h]
    · exact Prog.refl s
    · exact Prog_of_eq rfl rfl
  | closeIter j => exact Prog_closeIter s j
  | dup cfg => exact Prog_of_eq rfl rfl
  | destroy h => exact Prog_destroy s h

theorem Prog_run (s : St) (ops : List Op) : Prog s (run true s ops) := by
  induction ops generalizing s with
  | nil => exact Prog.refl s
  | cons op ops ih => exact (Prog_step s op).trans (ih (step true s op))

/-- a reload request made while iterators are open stays pending until a reload is performed -/
theorem pending_persists {s : St} (ops : List Op) (hp : s.sh.reloadNeeded = true)
    (hsame : (run true s ops).reloads = s.reloads) : (run true s ops).sh.reloadNeeded = true := by
  rcases (Prog_run s ops).2 hp with h | h
  · exact h
  · omega

/-! ## 5. The entry table is the sorted view of the setfile (C07 (4)) -/

/-- strictly sorted by name (hence no name twice) -/
def NameSorted (es : List FEntry) : Prop := es.Pairwise (fun a b => a.name < b.name)

theorem slt_of_not_lt {a b : String} (h : ¬ a < b) (h2 : a ≠ b) : b < a :=
  Std.lt_of_le_of_ne (String.not_lt.1 h) (Ne.symm h2)

theorem insertSorted_sorted {e : FEntry} {l : List FEntry} (hs : NameSorted l) (hne : ∀ x ∈ l, x.name ≠ e.name) :
    NameSorted (insertSorted e l) := by
  induction l with
  | nil => exact List.pairwise_singleton _ _
  | cons x xs ih =>
    have hs' := List.pairwise_cons.1 hs
    unfold insertSorted
    split
    · rename_i hlt
      refine List.pairwise_cons.2 ⟨?_, hs⟩
      intro a ha
      rcases List.mem_cons.1 ha with ha | ha
      · subst ha; exact hlt
      · exact String.lt_trans hlt (hs'.1 a ha)
    · rename_i hlt
      refine List.pairwise_cons.2 ⟨?_, ih hs'.2 (fun y hy => hne y (List.mem_cons_of_mem _ hy))⟩
      intro a ha
      rcases List.mem_cons.1 ((insertSorted_perm e xs).mem_iff.1 ha) with ha | ha
      · subst ha; exact slt_of_not_lt hlt (Ne.symm (hne x List.mem_cons_self))
      · exact hs'.1 a ha

theorem foldl_insertSorted_sorted (l init : List FEntry) (hs : NameSorted init) (hnd : (l.map (·.name)).Nodup)
    (hdis : ∀ x ∈ init, ∀ y ∈ l, x.name ≠ y.name) :
    NameSorted (l.foldl (fun acc e => insertSorted e acc) init) := by
  induction l generalizing init with
  | nil => exact hs
  | cons y ys ih =>
    rw [List.foldl_cons]
    rw [List.map_cons, List.nodup_cons] at hnd
    refine ih _ (insertSorted_sorted hs (fun x hx => hdis x hx y List.mem_cons_self)) hnd.2 ?_
    intro x hx z hz
    rcases List.mem_cons.1 ((insertSorted_perm y init).mem_iff.1 hx) with hx | hx
    · subst hx
      intro heq
      exact hnd.1 (by rw [heq]; exact List.mem_map_of_mem hz)
    · exact hdis x hx z (List.mem_cons_of_mem _ hz)

theorem sortAll_sorted (l : List FEntry) (hnd : (l.map (·.name)).Nodup) : NameSorted (sortAll l) :=
  foldl_insertSorted_sorted l [] List.Pairwise.nil hnd (fun _ h => by cases h)

theorem NameSorted.name_inj {l : List FEntry} (hs : NameSorted l) {a b : FEntry} (ha : a ∈ l) (hb : b ∈ l)
    (h : a.name = b.name) : a = b := by
  induction l with
  | nil => cases ha
  | cons x xs ih =>
    have hs' := List.pairwise_cons.1 hs
    rcases List.mem_cons.1 ha with ha1 | ha1
    · rcases List.mem_cons.1 hb with hb1 | hb1
      · rw [ha1, hb1]
      · have := hs'.1 b hb1; rw [← ha1, h] at this; exact (String.lt_irrefl _ this).elim
    · rcases List.mem_cons.1 hb with hb1 | hb1
      · have := hs'.1 a ha1; rw [← hb1, h] at this; exact (String.lt_irrefl _ this).elim
      · exact ih hs'.2 ha1 hb1

theorem NameSorted.nodup {l : List FEntry} (hs : NameSorted l) : l.Nodup := by
  unfold NameSorted at hs
  refine List.Pairwise.imp ?_ hs
  intro a b hlt heq
  rw [heq] at hlt; exact String.lt_irrefl _ hlt

/-- two name-sorted tables with the same members are equal -/
theorem NameSorted.ext {l m : List FEntry} (hl : NameSorted l) (hm : NameSorted m) (h : ∀ e, e ∈ l ↔ e ∈ m) : l = m := by
  refine List.Perm.eq_of_pairwise ?_ hl hm ((List.perm_ext_iff_of_nodup hl.nodup hm.nodup).2 h)
  intro a b _ _ h1 h2
  exact (String.lt_asymm h1 h2).elim

/-- does the path exist (stat succeeds)? -/
def pathExists (w : World) (n : String) : Bool := (w.files.find? (·.1 == n)).isSome

theorem loadLine_names (w : World) (old : List FEntry) (a : List FEntry × List String × Shared × Nat) (n : String) :
    (loadLine w old a n).1.map (·.name) = a.1.map (·.name) ++ (if pathExists w n then [n] else []) := by
  obtain ⟨newE, kept, sh, nl⟩ := a
  unfold loadLine pathExists
  dsimp only
  split
  · rename_i h; rw [h]; simp
  · rename_i h; rw [h]
    split
    · simp
    · split <;> simp

theorem fold_names (w : World) (old : List FEntry) (lines : List String) (a : List FEntry × List String × Shared × Nat) :
    (lines.foldl (loadLine w old) a).1.map (·.name) = a.1.map (·.name) ++ lines.filter (pathExists w) := by
  induction lines generalizing a with
  | nil => simp
  | cons x xs ih =>
    rw [List.foldl_cons, ih, loadLine_names, List.filter_cons]
    split <;> simp

theorem loopRes_names (w : World) (sh : Shared) : (loopRes w sh).1.map (·.name) = w.setLines.filter (pathExists w) := by
  unfold loopRes; rw [fold_names]; rfl

/-- **C07 (4)**, the reload that observes a new setfile stamp: the new table lists exactly the setfile lines
    that exist, sorted by name, each once -/
theorem myReload_view (w : World) (sh : Shared) (hi : ShInv sh) (hs : sh.lastStamp ≠ w.setStamp)
    (hl : w.setLines.Nodup) :
    NameSorted (myReload w sh).2.2.entries ∧
    ∀ n, n ∈ (myReload w sh).2.2.entries.map (·.name) ↔ n ∈ w.setLines ∧ pathExists w n = true := by
  rw [myReload_eq w sh hi hs]
  dsimp only
  have hn := loopRes_names w sh
  constructor
  · apply sortAll_sorted
    rw [hn]; exact hl.filter _
  · intro n
    rw [(sortAll_perm _).map _ |>.mem_iff, hn, List.mem_filter]

/-- a reload that neither loaded nor unloaded anything leaves table and readers as they were -/
theorem myReload_unchanged (w : World) (sh : Shared) (hi : ShInv sh) (hso : NameSorted sh.entries)
    (hl : w.setLines.Nodup) (hnl : (myReload w sh).1 = 0) (hnu : (myReload w sh).2.1 = 0) :
    (myReload w sh).2.2.entries = sh.entries ∧ (myReload w sh).2.2.loaded = sh.loaded := by
  by_cases hs : sh.lastStamp = w.setStamp
  · rw [myReload_same w sh hs]; exact ⟨rfl, rfl⟩
  · have hv := (myReload_view w sh hi hs hl).1
    rw [myReload_eq w sh hi hs] at hnl hnu hv ⊢
    dsimp only at hnl hnu hv ⊢
    have fi := loopRes_FI w sh hi
    obtain ⟨h1, h2⟩ := fi.nl0 hnl
    rw [List.length_eq_zero_iff] at hnu
    constructor
    · refine NameSorted.ext hv hso (fun e => ?_)
      rw [mem_sortAll]
      constructor
      · exact h2 e
      · intro he
        have hk : e.name ∈ (loopRes w sh).2.1 := by
          unfold droppedOf at hnu
          have := List.filter_eq_nil_iff.1 hnu e he
          simpa using this
        obtain ⟨e', he', hname⟩ := fi.keptsub _ hk
        have := hso.name_inj (h2 e' he') he hname
        rw [← this]; exact he'
    · rw [hnu, h1]
      exact List.filter_eq_self.2 (fun _ _ => rfl)

/-! ## 6. Every handle that passed the reload check is current (C07 (3)) -/

theorem srcs_congr {sh sh' : Shared} (he : sh'.entries = sh.entries) (hl : sh'.loaded = sh.loaded) (cfg : HCfg) :
    srcs sh' cfg = srcs sh cfg := by
  unfold srcs reinit; rw [he, hl]

/-- second invariant (needs a clock that never reads the zero timespec, and a setfile without repeated lines):
    the table is name-sorted and every live handle carrying the current reload stamp has exactly the sources
    fs_reinit_merger would give it now -/
structure Cur (s : St) : Prop where
  tick : 0 < s.w.tick
  lines : s.w.setLines.Nodup
  sorted : NameSorted s.sh.entries
  fresh : s.sh.fsLast = (0, 0) → s.sh.entries = []
  hts : ∀ h ∈ s.handles, h.fsLast.2 < s.w.tick
  sts : s.sh.fsLast.2 < s.w.tick
  cur : ∀ h ∈ s.handles, h.alive = true → h.fsLast = s.sh.fsLast → h.sources = srcs s.sh h.cfg

theorem Cur_init (w : World) (cfg : HCfg) (hw : 0 < w.tick) (hl : w.setLines.Nodup) : Cur (init w cfg) := by
  refine ⟨hw, hl, List.Pairwise.nil, fun _ => rfl, ?_, hw, ?_⟩
  · intro h hm
    have : h = { cfg := cfg } := by simpa [init] using hm
    subst this; exact hw
  · intro h hm _ _
    have : h = { cfg := cfg } := by simpa [init] using hm
    subst this; rfl

theorem Cur_of_eq {s s' : St} (hc : Cur s) (hw : s'.w = s.w) (hh : s'.handles = s.handles)
    (hf : s'.sh.fsLast = s.sh.fsLast) (he : s'.sh.entries = s.sh.entries) (hl : s'.sh.loaded = s.sh.loaded) : Cur s' := by
  constructor
  · rw [hw]; exact hc.tick
  · rw [hw]; exact hc.lines
  · rw [he]; exact hc.sorted
  · rw [hf, he]; exact hc.fresh
  · rw [hw, hh]; exact hc.hts
  · rw [hw, hf]; exact hc.sts
  · rw [hh, hf]; intro h hm ha hf'; rw [srcs_congr he hl]; exact hc.cur h hm ha hf'

theorem Cur_setHandle {s : St} {i : Nat} {h : Handle} (hc : Cur s) (hts : h.fsLast.2 < s.w.tick)
    (hcur : h.alive = true → h.fsLast = s.sh.fsLast → h.sources = srcs s.sh h.cfg) : Cur (setHandle s i h) := by
  refine ⟨hc.tick, hc.lines, hc.sorted, hc.fresh, ?_, hc.sts, ?_⟩
  · intro h' hm
    rcases List.mem_or_eq_of_mem_set hm with hm | hm
    · exact hc.hts h' hm
    · subst hm; exact hts
  · intro h' hm
    rcases List.mem_or_eq_of_mem_set hm with hm | hm
    · exact hc.cur h' hm
    · subst hm; exact hcur

theorem Cur_sync {s : St} {i : Nat} {h0 : Handle} (hc : Cur s) (hget : s.handles[i]? = some h0) :
    Cur (setHandle s i (syncHandle s h0)) := by
  refine Cur_setHandle hc (by rw [syncHandle_fsLast]; exact hc.sts) ?_
  by_cases he : h0.fsLast = s.sh.fsLast
  · rw [syncHandle_of_eq s h0 he]; exact hc.cur h0 (List.mem_of_getElem? hget)
  · intro _ _
    rw [syncHandle_cfg]
    unfold syncHandle; simp [he]; rfl

theorem Cur_readClock {s : St} (hc : Cur s) : Cur (readClock s).2 :=
  ⟨Nat.lt_succ_of_lt hc.tick, hc.lines, hc.sorted, hc.fresh, fun h hm => Nat.lt_succ_of_lt (hc.hts h hm),
   Nat.lt_succ_of_lt hc.sts, hc.cur⟩

theorem myReload_sorted (w : World) (sh : Shared) (hi : ShInv sh) (hso : NameSorted sh.entries) (hl : w.setLines.Nodup) :
    NameSorted (myReload w sh).2.2.entries := by
  by_cases hs : sh.lastStamp = w.setStamp
  · rw [myReload_same w sh hs]; exact hso
  · exact (myReload_view w sh hi hs hl).1

theorem Cur_doReload {s : St} {i : Nat} {h : Handle} (hi : Inv s) (hc : Cur s) (hget : s.handles[i]? = some h)
    (hsync : h.fsLast = s.sh.fsLast) : Cur (doReload s i h) := by
  rw [doReload_eq]
  have htick := hc.tick
  constructor
  · exact Nat.lt_succ_of_lt hc.tick
  · exact hc.lines
  · exact myReload_sorted s.w s.sh hi.shinv hc.sorted hc.lines
  · intro hf
    dsimp only at hf
    have : s.w.tick = 0 := congrArg Prod.snd hf
    omega
  · intro h' hm
    dsimp only at hm ⊢
    rcases List.mem_or_eq_of_mem_set hm with hm | hm
    · exact Nat.lt_succ_of_lt (hc.hts h' hm)
    · subst hm; rw [reloadedHandle_fsLast]; exact Nat.lt_succ_self _
  · exact Nat.lt_succ_self _
  · intro h' hm ha hf
    dsimp only at hm hf ⊢
    rcases List.mem_or_eq_of_mem_set hm with hm | hm
    · have := hc.hts h' hm
      rw [hf] at this; exact (Nat.lt_irrefl _ this).elim
    · subst hm
      rw [reloadedHandle_sources, reloadedHandle_cfg]
      split
      · exact srcs_congr rfl rfl _
      · rename_i hcnd
        simp only [Bool.or_eq_true, decide_eq_true_eq, not_or, Nat.not_lt, Nat.le_zero_eq] at hcnd
        obtain ⟨e1, e2⟩ := myReload_unchanged s.w s.sh hi.shinv hc.sorted hc.lines hcnd.1 hcnd.2
        rw [reloadedHandle_alive] at ha
        rw [hc.cur h (List.mem_of_getElem? hget) ha hsync]
        exact (srcs_congr e1 e2 _).symm

theorem Cur_reload {s : St} (i : Nat) (hi : Inv s) (hc : Cur s) : Cur (reload s i) := by
  rcases reload_cases s i with ⟨_, h⟩ | ⟨h0, hget, h | ⟨hn, h⟩ | ⟨_, h⟩⟩ <;> rw [h]
  · exact hc
  · exact Cur_sync hc hget
  · exact Cur_doReload (Inv_sync hi hget) (Cur_sync hc hget) (getElem?_setHandle_self hget) (syncHandle_fsLast s h0)
  · exact Cur_readClock (Cur_sync hc hget)

theorem Cur_reloadNow {s : St} (i : Nat) (hi : Inv s) (hc : Cur s) : Cur (reloadNow true s i) := by
  cases hg : s.handles[i]? with
  | none => rw [reloadNow_none hg]; exact hc
  | some h0 =>
    by_cases hn : s.sh.nIters > 0
    · rw [reloadNow_busy hg hn]; exact Cur_of_eq hc rfl rfl rfl rfl rfl
    · have hn : s.sh.nIters = 0 := by omega
      rw [reloadNow_idle hg hn]
      exact Cur_doReload (Inv_sync hi hg) (Cur_sync hc hg) (getElem?_setHandle_self hg) (syncHandle_fsLast s h0)

theorem Cur_openIter {s : St} (i : Nat) (hi : Inv s) (hc : Cur s) : Cur (openIter s i) := by
  have h1 := Cur_reload i hi hc
  unfold openIter
  dsimp only
  split
  · exact h1
  · split <;> exact Cur_of_eq h1 rfl rfl rfl rfl rfl

theorem Cur_closeIter {s : St} {j : Nat} (hi : Inv s) (hc : Cur s) (ho : iOpen s j = true) : Cur (closeIter s j) := by
  obtain ⟨it, hget, hopen⟩ := iOpen_iff.1 ho
  rw [closeIter_eq hget hopen]
  exact Cur_reload _ (Inv_closeMid hi hget hopen) (Cur_of_eq (s' := closeMid s j it) hc rfl rfl rfl rfl rfl)

theorem Cur_dup {s : St} (cfg : HCfg) (hc : Cur s) : Cur (dup s cfg) := by
  unfold dup
  refine ⟨hc.tick, hc.lines, hc.sorted, hc.fresh, ?_, hc.sts, ?_⟩
  · intro h hm
    rcases mem_snoc.1 hm with hm | hm
    · exact hc.hts h hm
    · subst hm; exact hc.tick
  · intro h hm
    rcases mem_snoc.1 hm with hm | hm
    · exact hc.cur h hm
    · subst hm
      intro _ hf
      have : s.sh.entries = [] := hc.fresh hf.symm
      exact (srcs_nil this).symm

theorem Cur_destroy {s : St} {i : Nat} (hi : Inv s) (hc : Cur s) (ha : hAlive s i = true) : Cur (destroy s i) := by
  obtain ⟨h, hget, hal⟩ := hAlive_iff.1 ha
  rw [destroy_eq hget hal]
  have hcnt := countP_set_true_false (·.alive) s.handles i h { h with alive := false } hget hal rfl
  have hts' : ∀ h' ∈ s.handles.set i { h with alive := false }, h'.fsLast.2 < s.w.tick := by
    intro h' hm
    rcases List.mem_or_eq_of_mem_set hm with hm | hm
    · exact hc.hts h' hm
    · subst hm; exact hc.hts h (List.mem_of_getElem? hget)
  split
  · rename_i hz
    have hz : s.sh.nFs - 1 = 0 := by simpa using hz
    have hzero : (s.handles.set i { h with alive := false }).countP (·.alive) = 0 := by
      have := hi.nFs; omega
    have hnone := List.countP_eq_zero.1 hzero
    refine ⟨hc.tick, hc.lines, List.Pairwise.nil, fun _ => rfl, hts', hc.sts, ?_⟩
    intro h' hm ha'
    exact (hnone h' hm ha').elim
  · refine ⟨hc.tick, hc.lines, hc.sorted, hc.fresh, hts', hc.sts, ?_⟩
    intro h' hm
    rcases List.mem_or_eq_of_mem_set hm with hm | hm
    · exact hc.cur h' hm
    · subst hm; intro hf; cases hf

theorem Cur_world {s : St} (w' : World) (ht : w'.tick = s.w.tick) (hl : w'.setLines.Nodup) (hc : Cur s) :
    Cur { s with w := w' } := by
  refine ⟨by dsimp only; rw [ht]; exact hc.tick, hl, hc.sorted, hc.fresh, ?_, ?_, hc.cur⟩
  · dsimp only; rw [ht]; exact hc.hts
  · dsimp only; rw [ht]; exact hc.sts

theorem Cur_step {s : St} {op : Op} (hi : Inv s) (hc : Cur s) (hok : OpOk s op) : Cur (step true s op) := by
  cases op with
  | editSetfile lines => exact Cur_world _ rfl hok hc
  | putFile n k => exact Cur_world _ rfl hc.lines hc
  | rmFile n => exact Cur_world _ rfl hc.lines hc
  | advance n => exact Cur_world _ rfl hc.lines hc
  | reload h => exact Cur_reload h hi hc
  | reloadNow h => exact Cur_reloadNow h hi hc
  | openIter h => exact Cur_openIter h hi hc
  | useIter j => show Cur (useIter s j); rw [useIter_safe hi hok]; exact hc
  | closeIter j => exact Cur_closeIter hi hc hok
  | dup cfg => exact Cur_dup cfg hc
  | destroy h => exact Cur_destroy hi hc hok.1

theorem Cur_run {s : St} {ops : List Op} (hi : Inv s) (hc : Cur s) (hwf : WF s ops) : Cur (run true s ops) := by
  induction ops generalizing s with
  | nil => exact hc
  | cons op ops ih =>
    show Cur (run true (step true s op) ops)
    exact ih (Inv_step hi hwf.1) (Cur_step hi hc hwf.1) hwf.2

/-- the clock never reads the all-zero timespec (which is what `calloc` leaves in a new handle's `fs_last`),
    and the initial setfile lists no name twice -/
def GoodWorld (w : World) : Prop := 0 < w.tick ∧ w.setLines.Nodup

/-- **C07 (3)**: right after the reload check that begins every source operation (`reload s i`), a live handle's
    merger holds exactly the readers of the current entries that pass that handle's filters, in table order … -/
theorem C07_current (w : World) (cfg : HCfg) (ops : List Op) (hw : GoodWorld w) (hwf : WF (init w cfg) ops)
    (i : Nat) (h : Handle) (hget : (reload (run true (init w cfg) ops) i).handles[i]? = some h) (ha : h.alive = true) :
    h.sources = srcs (reload (run true (init w cfg) ops) i).sh h.cfg := by
  have hi := Inv_run (Inv_init w cfg) hwf
  have hc := Cur_run (Inv_init w cfg) (Cur_init w cfg hw.1 hw.2) hwf
  have hc1 := Cur_reload i hi hc
  exact hc1.cur h (List.mem_of_getElem? hget) ha (reload_synced _ i h hget)

/-- … hence the iterator created by `openIter` pins exactly those readers (and they are all live: `C07_no_uaf`). -/
theorem C07_current_iter (w : World) (cfg : HCfg) (ops : List Op) (hw : GoodWorld w) (hwf : WF (init w cfg) ops)
    (i : Nat) (h0 : Handle) (hget0 : (run true (init w cfg) ops).handles[i]? = some h0) (ha0 : h0.alive = true) :
    ∃ h, (reload (run true (init w cfg) ops) i).handles[i]? = some h ∧ h.cfg = h0.cfg ∧
      openIter (run true (init w cfg) ops) i =
        { reload (run true (init w cfg) ops) i with
            sh := { (reload (run true (init w cfg) ops) i).sh with
                      nIters := (reload (run true (init w cfg) ops) i).sh.nIters + 1 },
            iters := (run true (init w cfg) ops).iters ++
              [{ handle := i, readers := srcs (reload (run true (init w cfg) ops) i).sh h0.cfg, mergerGen := h.mergerGen }] } := by
  generalize hs : run true (init w cfg) ops = s at *
  have hi : Inv s := by rw [← hs]; exact Inv_run (Inv_init w cfg) hwf
  have hi1 := Inv_reload i hi
  have hsame := Same_reload s i
  have hk := hsame.hnd i
  rw [hget0] at hk
  cases hg : (reload s i).handles[i]? with
  | none => rw [hg] at hk; cases hk
  | some h =>
    rw [hg] at hk
    simp only [Option.map_some, Option.some.injEq, hkey, Prod.mk.injEq] at hk
    have hal : h.alive = true := by rw [hk.1]; exact ha0
    have hcur : h.sources = srcs (reload s i).sh h.cfg := by
      have := C07_current w cfg ops hw hwf i h (by rw [hs]; exact hg) hal
      rw [hs] at this; exact this
    have hsync := reload_synced s i h hg
    have hlive := hi1.cur h (List.mem_of_getElem? hg) hal hsync
    refine ⟨h, rfl, hk.2, ?_⟩
    rw [openIter_eq hg ((sourcesLive_iff _ _).2 hlive), hcur, hk.2, hsame.iters]

/-! ## 7. The table always is the view of the setfile taken at the last stamp change (C07 (4), history form) -/

/-- `es` lists exactly the lines of `w`'s setfile whose path exists in `w`, sorted by name, each once -/
def IsView (w : World) (es : List FEntry) : Prop :=
  NameSorted es ∧ ∀ n, n ∈ es.map (·.name) ↔ n ∈ w.setLines ∧ pathExists w n = true

/-- one transition either keeps table and remembered stamp, or it is a reload that saw a new stamp and then the
    table is the view of the world at that moment, or it is the destruction of the last handle -/
def ViewStep (s s' : St) : Prop :=
  (s'.sh.entries = s.sh.entries ∧ s'.sh.lastStamp = s.sh.lastStamp) ∨
  (s.sh.lastStamp ≠ s.w.setStamp ∧ s'.sh.lastStamp = s.w.setStamp ∧ IsView s.w s'.sh.entries) ∨
  (s'.sh.alive = false ∧ s'.sh.entries = [] ∧ s'.sh.lastStamp = s.sh.lastStamp)

theorem ViewStep.keep {s s' : St} (h1 : s'.sh.entries = s.sh.entries) (h2 : s'.sh.lastStamp = s.sh.lastStamp) :
    ViewStep s s' := .inl ⟨h1, h2⟩

theorem ViewStep.congr_left {s0 s s' : St} (hw : s0.w = s.w) (hsh : s0.sh = s.sh) (h : ViewStep s0 s') : ViewStep s s' := by
  unfold ViewStep at h ⊢; rw [hw, hsh] at h; exact h

theorem ViewStep.congr_right {s s' s'' : St} (he : s''.sh.entries = s'.sh.entries)
    (hl : s''.sh.lastStamp = s'.sh.lastStamp) (ha : s''.sh.alive = s'.sh.alive) (h : ViewStep s s') : ViewStep s s'' := by
  unfold ViewStep at h ⊢; rw [he, hl, ha]; exact h

theorem ViewStep_doReload {s : St} (i : Nat) (h : Handle) (hi : Inv s) (hl : s.w.setLines.Nodup) :
    ViewStep s (doReload s i h) := by
  rw [doReload_eq]
  by_cases hs : s.sh.lastStamp = s.w.setStamp
  · left; dsimp only; rw [myReload_same _ _ hs]; exact ⟨rfl, rfl⟩
  · right; left
    exact ⟨hs, (myReload_frame s.w s.sh).2.2.2.2.2, myReload_view s.w s.sh hi.shinv hs hl⟩

theorem ViewStep_reload {s : St} (i : Nat) (hi : Inv s) (hl : s.w.setLines.Nodup) : ViewStep s (reload s i) := by
  rcases reload_cases s i with ⟨_, h⟩ | ⟨h0, hget, h | ⟨hn, h⟩ | ⟨_, h⟩⟩ <;> rw [h]
  · exact .keep rfl rfl
  · exact .keep rfl rfl
  · exact (ViewStep_doReload i _ (Inv_sync hi hget) hl).congr_left rfl rfl
  · exact .keep rfl rfl

theorem ViewStep_reloadNow {s : St} (i : Nat) (hi : Inv s) (hl : s.w.setLines.Nodup) : ViewStep s (reloadNow true s i) := by
  cases hg : s.handles[i]? with
  | none => rw [reloadNow_none hg]; exact .keep rfl rfl
  | some h0 =>
    by_cases hn : s.sh.nIters > 0
    · rw [reloadNow_busy hg hn]; exact .keep rfl rfl
    · have hn : s.sh.nIters = 0 := by omega
      rw [reloadNow_idle hg hn]
      exact (ViewStep_doReload i _ (Inv_sync hi hg) hl).congr_left rfl rfl

theorem ViewStep_openIter {s : St} (i : Nat) (hi : Inv s) (hl : s.w.setLines.Nodup) : ViewStep s (openIter s i) := by
  have h1 := ViewStep_reload i hi hl
  unfold openIter
  dsimp only
  split
  · exact h1
  · split <;> exact h1.congr_right rfl rfl rfl

theorem ViewStep_closeIter {s : St} {j : Nat} (hi : Inv s) (hl : s.w.setLines.Nodup) (ho : iOpen s j = true) :
    ViewStep s (closeIter s j) := by
  obtain ⟨it, hget, hopen⟩ := iOpen_iff.1 ho
  rw [closeIter_eq hget hopen]
  have := ViewStep_reload it.handle (Inv_closeMid hi hget hopen) (s := closeMid s j it) hl
  unfold ViewStep at this ⊢
  exact this

theorem ViewStep_destroy (s : St) (i : Nat) : ViewStep s (destroy s i) := by
  unfold destroy
  split
  · exact .keep rfl rfl
  · split
    · exact .keep rfl rfl
    · dsimp only [setHandle]
      split
      · exact .inr (.inr ⟨rfl, rfl, rfl⟩)
      · exact .keep rfl rfl

theorem ViewStep_step {s : St} {op : Op} (hi : Inv s) (hl : s.w.setLines.Nodup) (hok : OpOk s op) :
    ViewStep s (step true s op) := by
  cases op with
  | editSetfile lines => exact .keep rfl rfl
  | putFile n k => exact .keep rfl rfl
  | rmFile n => exact .keep rfl rfl
  | advance n => exact .keep rfl rfl
  | reload h => exact ViewStep_reload h hi hl
  | reloadNow h => exact ViewStep_reloadNow h hi hl
  | openIter h => exact ViewStep_openIter h hi hl
  | useIter j => show ViewStep s (useIter s j); rw [useIter_safe hi hok]; exact .keep rfl rfl
  | closeIter j => exact ViewStep_closeIter hi hl hok
  | dup cfg => exact .keep rfl rfl
  | destroy h => exact ViewStep_destroy s h

theorem run_append (fx : Bool) (s : St) (a b : List Op) : run fx s (a ++ b) = run fx (run fx s a) b := by
  unfold run; rw [List.foldl_append]

theorem WFx_append (fx : Bool) (s : St) (a b : List Op) :
    WFx fx s (a ++ b) ↔ WFx fx s a ∧ WFx fx (run fx s a) b := by
  induction a generalizing s with
  | nil => simp [WFx, run]
  | cons x xs ih =>
    simp only [List.cons_append, WFx, ih, and_assoc]
    rfl

/-- **C07 (4)**: along every well-formed history the entry table is name-sorted without repetition, and each
    step either leaves it (and the remembered setfile stamp) alone or is a reload that observed a changed stamp,
    after which the table is exactly the view of the setfile as it is then -/
theorem C07_view (w : World) (cfg : HCfg) (ops : List Op) (op : Op) (hw : GoodWorld w)
    (hwf : WF (init w cfg) (ops ++ [op])) :
    NameSorted (run true (init w cfg) ops).sh.entries ∧
    ViewStep (run true (init w cfg) ops) (run true (init w cfg) (ops ++ [op])) := by
  obtain ⟨h1, h2⟩ := (WFx_append true _ ops [op]).1 hwf
  have hi := Inv_run (Inv_init w cfg) h1
  have hc := Cur_run (Inv_init w cfg) (Cur_init w cfg hw.1 hw.2) h1
  refine ⟨hc.sorted, ?_⟩
  rw [run_append]
  exact ViewStep_step hi hc.lines h2.1

/-! ## 8. Iterators keep their snapshot; deferred reload_now; remarks on the hypotheses -/

/-- every iterator of `s` is still there in `s'` with the same pinned readers, handle and merger object -/
def Snap (s s' : St) : Prop :=
  ∀ (j : Nat) (it : Iter), s.iters[j]? = some it →
    ∃ it' : Iter, s'.iters[j]? = some it' ∧ it'.readers = it.readers ∧ it'.handle = it.handle ∧ it'.mergerGen = it.mergerGen

theorem Snap.of_eq {s s' : St} (h : s'.iters = s.iters) : Snap s s' := by
  intro j it hj; exact ⟨it, by rw [h]; exact hj, rfl, rfl, rfl⟩

theorem Snap.trans {a b c : St} (h1 : Snap a b) (h2 : Snap b c) : Snap a c := by
  intro j it hj
  obtain ⟨it1, g1, g2, g3, g4⟩ := h1 j it hj
  obtain ⟨it2, k1, k2, k3, k4⟩ := h2 j it1 g1
  exact ⟨it2, k1, k2.trans g2, k3.trans g3, k4.trans g4⟩

theorem Snap_openIter (s : St) (i : Nat) : Snap s (openIter s i) := by
  refine (Snap.of_eq (Same_reload s i).iters).trans ?_
  unfold openIter
  dsimp only
  split
  · exact Snap.of_eq rfl
  · intro j it hj
    refine ⟨it, ?_, rfl, rfl, rfl⟩
    have hlt := (List.getElem?_eq_some_iff.1 hj).1
    split <;> (dsimp only; rw [List.getElem?_append_left hlt]; exact hj)

theorem Snap_closeIter (s : St) (j : Nat) : Snap s (closeIter s j) := by
  unfold closeIter
  split
  · exact Snap.of_eq rfl
  · rename_i it hget
    split
    · exact Snap.of_eq rfl
    · dsimp only
      refine Snap.trans ?_ (Snap.of_eq (Same_reload _ _).iters)
      intro k it' hk
      dsimp only
      by_cases hjk : j = k
      · subst hjk
        rw [hget] at hk; cases hk
        exact ⟨{ it with isOpen := false }, by rw [List.getElem?_set_self', hget]; rfl, rfl, rfl, rfl⟩
      · exact ⟨it', by rw [List.getElem?_set_ne hjk]; exact hk, rfl, rfl, rfl⟩

theorem destroy_iters (s : St) (i : Nat) : (destroy s i).iters = s.iters := by
  unfold destroy
  split
  · rfl
  · split
    · rfl
    · dsimp only [setHandle]; split <;> rfl

theorem Snap_step (s : St) (op : Op) : Snap s (step true s op) := by
  cases op with
  | editSetfile lines => exact Snap.of_eq rfl
  | putFile n k => exact Snap.of_eq rfl
  | rmFile n => exact Snap.of_eq rfl
  | advance n => exact Snap.of_eq rfl
  | reload h => exact Snap.of_eq (Same_reload s h).iters
  | reloadNow h => exact Snap.of_eq (Same_reloadNow s h).iters
  | openIter h => exact Snap_openIter s h
  | useIter j =>
    show Snap s (useIter s j)
    rcases useIter_eq s j with h | h <;> rw [h] <;> exact Snap.of_eq rfl
  | closeIter j => exact Snap_closeIter s j
  | dup cfg => exact Snap.of_eq rfl
  | destroy h => exact Snap.of_eq (destroy_iters s h)

theorem Snap_run (s : St) (ops : List Op) : Snap s (run true s ops) := by
  induction ops generalizing s with
  | nil => exact Snap.of_eq rfl
  | cons op ops ih => exact (Snap_step s op).trans (ih (step true s op))

/-- **C07, snapshots**: an iterator keeps the readers it was opened with through any later history, and (for
    well-formed histories) as long as it is open all of them are live and its merger object is the one it was
    created from — reloads through other handles included -/
theorem C07_snapshot (w : World) (cfg : HCfg) (ops1 ops2 : List Op) (hwf : WF (init w cfg) (ops1 ++ ops2))
    (j : Nat) (it : Iter) (hj : (run true (init w cfg) ops1).iters[j]? = some it) :
    ∃ it', (run true (init w cfg) (ops1 ++ ops2)).iters[j]? = some it' ∧ it'.readers = it.readers ∧
      (it'.isOpen = true →
        (∀ r ∈ it.readers, LiveIn (run true (init w cfg) (ops1 ++ ops2)).sh.loaded r) ∧
        ∃ h, (run true (init w cfg) (ops1 ++ ops2)).handles[it.handle]? = some h ∧ h.alive = true ∧
          h.mergerGen = it.mergerGen) := by
  have hi := Inv_run (Inv_init w cfg) hwf
  rw [run_append] at hi ⊢
  obtain ⟨it', g1, g2, g3, g4⟩ := Snap_run (run true (init w cfg) ops1) ops2 j it hj
  refine ⟨it', g1, g2, fun ho => ?_⟩
  obtain ⟨h, k1, k2, k3, _, k5⟩ := hi.iters it' (List.mem_of_getElem? g1) ho
  rw [g2] at k5; rw [g3] at k1; rw [g4] at k3
  exact ⟨k5, h, k1, k2, k3⟩

/-- closing the last open iterator performs a pending reload at once (fileset_iter_free calls mtbl_fileset_reload) -/
theorem closeIter_last_reloads {s : St} {j : Nat} (hi : Inv s) (ho : iOpen s j = true) (h1 : s.sh.nIters = 1)
    (hp : s.sh.reloadNeeded = true) :
    (closeIter s j).reloads = s.reloads + 1 ∧ (closeIter s j).sh.lastStamp = s.w.setStamp ∧
    (closeIter s j).sh.reloadNeeded = false := by
  obtain ⟨it, hget, hopen⟩ := iOpen_iff.1 ho
  obtain ⟨h, g1, _⟩ := hi.iters it (List.mem_of_getElem? hget) hopen
  rw [closeIter_eq hget hopen]
  have := reload_pending (s := closeMid s j it) (j := it.handle) (h := h) g1 hp (by show s.sh.nIters - 1 = 0; omega)
  exact ⟨this.1, this.2.1, this.2.2.1⟩

/-- **C07 (5)**, the deferred case in one statement: after `reload_now` was refused because iterators were open,
    whatever happens next, as long as no reload has been performed the request is still pending, and the first
    reload check made with no iterator open — through any existing handle `j`, whatever its interval — reloads. -/
theorem reloadNow_deferred {s : St} {i : Nat} {h0 : Handle} (hget : s.handles[i]? = some h0) (hn : s.sh.nIters > 0)
    (ops : List Op) (hsame : (run true (reloadNow true s i) ops).reloads = s.reloads)
    (j : Nat) (hj : Handle) (hgetj : (run true (reloadNow true s i) ops).handles[j]? = some hj)
    (h0' : (run true (reloadNow true s i) ops).sh.nIters = 0) :
    Reloaded (run true (reloadNow true s i) ops) (reload (run true (reloadNow true s i) ops) j) := by
  have hb := reloadNow_busy (fx := true) hget hn
  have hp : (run true (reloadNow true s i) ops).sh.reloadNeeded = true := by
    apply pending_persists
    · rw [hb]
    · rw [hsame, hb]
  exact reload_pending hgetj hp h0'

/-! ### the hypotheses of (3) are needed -/

/-- without `0 < w.tick`: a clock that reads (0,0) at the first reload makes a later `dup` look current although
    its merger is empty — the new iterator pins nothing while the table has a reader -/
example :
    let s := run true (init { sec := 0, tick := 0 } {})
      [.putFile "a" (.table 0), .editSetfile ["a"], .reload 0, .dup {}, .openIter 1]
    s.iters.map (·.readers) = [[]] ∧ srcs s.sh {} = [0] := by decide +kernel

/-- without `Nodup` lines: a repeated line is neither "loaded" nor "unloaded", so the merger is not rebuilt although
    the table changed (same in the C code) -/
example :
    let s := run true (init {} {})
      [.putFile "a" (.table 0), .editSetfile ["a"], .openIter 0, .closeIter 0, .editSetfile ["a", "a"], .reloadNow 0]
    (s.handles.map (·.sources)) = [[0]] ∧ srcs s.sh {} = [0, 0] := by decide +kernel

/-! ## 9. What a reader stands for: the table behind the listed path (C07 (4), second half)

  Needs the caller-side contract "a path is not replaced while the fileset lists it" (`OpOkFiles`). -/

/-- entry `e` agrees with a file of kind `k`: a table is represented by a live reader on exactly that table,
    anything else by the NULL pointer -/
def FaithK (loaded : List (Nat × Nat)) (e : FEntry) : FileKind → Prop
  | .table tid => ∃ r, e.reader = some r ∧ (r, tid) ∈ loaded
  | .notTable => e.reader = none

/-- every entry whose path (still) exists agrees with the file at that path -/
def Faithful (w : World) (sh : Shared) : Prop :=
  ∀ e ∈ sh.entries, ∀ p kind, w.files.find? (·.1 == e.name) = some (p, kind) → FaithK sh.loaded e kind

/-- reader ids are allocated once -/
structure ShInv2 (sh : Shared) : Prop where
  ids : (sh.loaded.map (·.1)).Nodup
  bnd : ∀ p ∈ sh.loaded, p.1 < sh.nextReader

theorem FaithK.mono {l l' : List (Nat × Nat)} {e : FEntry} {k : FileKind} (h : FaithK l e k)
    (hsub : ∀ r t, e.reader = some r → (r, t) ∈ l → (r, t) ∈ l') : FaithK l' e k := by
  cases k with
  | table tid => obtain ⟨r, h1, h2⟩ := h; exact ⟨r, h1, hsub r tid h1 h2⟩
  | notTable => exact h

theorem tableOf_eq_some {l : List (Nat × Nat)} (hnd : (l.map (·.1)).Nodup) {r t : Nat} (hm : (r, t) ∈ l) :
    tableOf l r = some t := by
  unfold tableOf
  induction l with
  | nil => cases hm
  | cons x xs ih =>
    rw [List.map_cons, List.nodup_cons] at hnd
    rw [List.find?_cons]
    split
    · rename_i hx
      have hx : x.1 = r := by simpa using hx
      rcases List.mem_cons.1 hm with hm | hm
      · rw [← hm]; rfl
      · exact (hnd.1 (by rw [hx]; exact List.mem_map_of_mem (f := (·.1)) hm)).elim
    · rename_i hx
      rcases List.mem_cons.1 hm with hm | hm
      · rw [← hm] at hx; simp at hx
      · exact ih hnd.2 hm

/-- per-line loop: entries created in this reload agree with the file system as it is during the reload -/
def KI (w : World) (old : List FEntry) (a : List FEntry × List String × Shared × Nat) : Prop :=
  ∀ e ∈ a.1, e ∈ old ∨ ∀ p kind, w.files.find? (·.1 == e.name) = some (p, kind) → FaithK a.2.2.1.loaded e kind

theorem KI_step (w : World) (old : List FEntry) (a : List FEntry × List String × Shared × Nat) (name : String)
    (ha : KI w old a) : KI w old (loadLine w old a name) := by
  obtain ⟨newE, kept, sh, nl⟩ := a
  unfold KI at ha ⊢
  dsimp only at ha
  unfold loadLine
  dsimp only
  split
  · exact ha
  · rename_i fst kind hfile
    split
    · rename_i e0 hfind
      obtain ⟨hmem, heq⟩ := find_entry hfind
      rw [heq]
      intro e he
      rcases mem_snoc.1 he with he | he
      · exact ha e he
      · subst he; exact .inl hmem
    · split
      · rename_i tid htid
        intro e he
        dsimp only at he ⊢
        rcases mem_snoc.1 he with he | he
        · rcases ha e he with h | h
          · exact .inl h
          · exact .inr (fun p k hk => (h p k hk).mono (fun r t _ hm => List.mem_append_left _ hm))
        · subst he
          right
          intro p k hk
          dsimp only at hk
          rw [hfile] at hk
          cases hk
          exact ⟨sh.nextReader, rfl, mem_snoc.2 (.inr rfl)⟩
      · intro e he
        dsimp only at he ⊢
        rcases mem_snoc.1 he with he | he
        · exact ha e he
        · subst he
          right
          intro p k hk
          dsimp only at hk
          rw [hfile] at hk
          cases hk
          exact rfl

theorem KI_fold (w : World) (old : List FEntry) (lines : List String) (a : List FEntry × List String × Shared × Nat)
    (ha : KI w old a) : KI w old (lines.foldl (loadLine w old) a) := by
  induction lines generalizing a with
  | nil => exact ha
  | cons x xs ih => rw [List.foldl_cons]; exact ih _ (KI_step w old a x ha)

def LI (a : List FEntry × List String × Shared × Nat) : Prop := ShInv2 a.2.2.1

theorem LI_step (w : World) (old : List FEntry) (a : List FEntry × List String × Shared × Nat) (name : String)
    (ha : LI a) : LI (loadLine w old a name) := by
  obtain ⟨newE, kept, sh, nl⟩ := a
  unfold LI at ha ⊢
  dsimp only at ha
  unfold loadLine
  dsimp only
  split
  · exact ha
  · split
    · exact ha
    · split
      · constructor
        · dsimp only
          rw [List.map_append, List.nodup_append]
          refine ⟨ha.ids, by simp, ?_⟩
          intro x hx y hy
          have : y = sh.nextReader := by simpa using hy
          subst this
          obtain ⟨p, hp, hpx⟩ := List.mem_map.1 hx
          have := ha.bnd p hp
          rw [← hpx]; exact Nat.ne_of_lt this
        · intro p hp
          dsimp only at hp ⊢
          rcases mem_snoc.1 hp with hp | hp
          · exact Nat.lt_succ_of_lt (ha.bnd p hp)
          · subst hp; exact Nat.lt_succ_self _
      · exact ha

theorem LI_fold (w : World) (old : List FEntry) (lines : List String) (a : List FEntry × List String × Shared × Nat)
    (ha : LI a) : LI (lines.foldl (loadLine w old) a) := by
  induction lines generalizing a with
  | nil => exact ha
  | cons x xs ih => rw [List.foldl_cons]; exact ih _ (LI_step w old a x ha)

theorem myReload_inv2 (w : World) (sh : Shared) (hi : ShInv sh) (h2 : ShInv2 sh) : ShInv2 (myReload w sh).2.2 := by
  by_cases hs : sh.lastStamp = w.setStamp
  · rw [myReload_same w sh hs]; exact h2
  · rw [myReload_eq w sh hi hs]
    have li : LI (loopRes w sh) := LI_fold w _ _ _ (show ShInv2 { sh with lastStamp := w.setStamp } from ⟨h2.ids, h2.bnd⟩)
    constructor
    · dsimp only
      exact li.ids.sublist ((List.filter_sublist).map _)
    · intro p hp
      dsimp only at hp ⊢
      exact li.bnd p (List.mem_filter.1 hp).1

theorem myReload_faithful (w : World) (sh : Shared) (hi : ShInv sh) (hf : Faithful w sh) :
    Faithful w (myReload w sh).2.2 := by
  by_cases hs : sh.lastStamp = w.setStamp
  · rw [myReload_same w sh hs]; exact hf
  · rw [myReload_eq w sh hi hs]
    have fi := loopRes_FI w sh hi
    have ki : KI w sh.entries (loopRes w sh) := KI_fold w _ _ _ (fun e he => by cases he)
    obtain ⟨extra, hex, hexb⟩ := fi.pre
    dsimp only at hex hexb
    intro e he p kind hk
    dsimp only at he ⊢
    rw [mem_sortAll] at he
    -- a reader that survives the unload pass
    have keep : ∀ r t, e.reader = some r → (r, t) ∈ (loopRes w sh).2.2.1.loaded →
        (r, t) ∈ (loopRes w sh).2.2.1.loaded.filter
          (fun p => !((droppedOf w sh).filterMap (·.reader)).contains p.1) := by
      intro r t hr hm
      rw [List.mem_filter]
      refine ⟨hm, ?_⟩
      rw [Bool.not_eq_true', List.contains_eq_mem, decide_eq_false_iff_not, mem_droppedIds]
      rintro ⟨e1, g1, g2, g3⟩
      rcases fi.ent e he with ⟨k1, k2⟩ | k | ⟨r', k1, k2, _, _⟩
      · have := hi.uniq e k1 e1 g1 r hr g3
        rw [this] at k2; exact g2 k2
      · rw [k] at hr; cases hr
      · have : r' = r := by rw [k1] at hr; exact Option.some.inj hr
        subst this
        have := hi.bound e1 g1 r' g3
        dsimp only at k2
        omega
    rcases ki e he with h | h
    · refine (hf e h p kind hk).mono (fun r t hr hm => keep r t hr ?_)
      rw [hex]; exact List.mem_append_left _ hm
    · exact (h p kind hk).mono keep

/-- the caller does not replace a path by another file while the fileset lists it
    (removing it is fine: the next reload drops the entry) -/
def OpOkFiles (s : St) : Op → Prop
  | .putFile name _ => ∀ e ∈ s.sh.entries, e.name ≠ name
  | _ => True

def WFfiles (s : St) : List Op → Prop
  | [] => True
  | op :: ops => OpOkFiles s op ∧ WFfiles (step true s op) ops

instance (s : St) (op : Op) : Decidable (OpOkFiles s op) := by
  cases op <;> unfold OpOkFiles <;> infer_instance

def WFfiles.dec : (s : St) → (ops : List Op) → Decidable (WFfiles s ops)
  | _, [] => isTrue trivial
  | s, op :: ops => @instDecidableAnd _ _ _ (WFfiles.dec (step true s op) ops)

instance (s : St) (ops : List Op) : Decidable (WFfiles s ops) := WFfiles.dec s ops

structure FInv (s : St) : Prop where
  faith : Faithful s.w s.sh
  inv2 : ShInv2 s.sh

theorem FInv_of_eq {s s' : St} (hf : FInv s) (hfiles : s'.w.files = s.w.files) (he : s'.sh.entries = s.sh.entries)
    (hl : s'.sh.loaded = s.sh.loaded) (hn : s'.sh.nextReader = s.sh.nextReader) : FInv s' := by
  constructor
  · unfold Faithful; rw [hfiles, he, hl]; exact hf.faith
  · constructor
    · rw [hl]; exact hf.inv2.ids
    · rw [hl, hn]; exact hf.inv2.bnd

theorem find_filter_ne {l : List (String × FileKind)} {n name : String} (h : n ≠ name) :
    (l.filter (·.1 != name)).find? (·.1 == n) = l.find? (·.1 == n) := by
  induction l with
  | nil => rfl
  | cons x xs ih =>
    rw [List.filter_cons]
    by_cases hx : x.1 = name
    · have h1 : (x.1 != name) = false := by simp [hx]
      have h2 : (x.1 == n) = false := by simp [hx, Ne.symm h]
      rw [h1, List.find?_cons, h2]; exact ih
    · have h1 : (x.1 != name) = true := by simp [hx]
      rw [h1]; simp only [if_true, List.find?_cons, ih]

theorem find_filter_self {l : List (String × FileKind)} {name : String} :
    (l.filter (·.1 != name)).find? (·.1 == name) = none := by
  rw [List.find?_eq_none]
  intro x hx
  have := (List.mem_filter.1 hx).2
  simpa using this

theorem find_put_ne {l : List (String × FileKind)} {n name : String} {k : FileKind} (h : n ≠ name) :
    (l.filter (·.1 != name) ++ [(name, k)]).find? (·.1 == n) = l.find? (·.1 == n) := by
  rw [List.find?_append, find_filter_ne h]
  have : ([(name, k)] : List (String × FileKind)).find? (·.1 == n) = none := by
    simp [Ne.symm h]
  rw [this, Option.or_none]

theorem FInv_doReload {s : St} (i : Nat) (h : Handle) (hi : Inv s) (hf : FInv s) : FInv (doReload s i h) := by
  rw [doReload_eq]
  exact ⟨myReload_faithful s.w s.sh hi.shinv hf.faith, ⟨(myReload_inv2 s.w s.sh hi.shinv hf.inv2).ids,
    (myReload_inv2 s.w s.sh hi.shinv hf.inv2).bnd⟩⟩

theorem FInv_reload {s : St} (i : Nat) (hi : Inv s) (hf : FInv s) : FInv (reload s i) := by
  rcases reload_cases s i with ⟨_, h⟩ | ⟨h0, hget, h | ⟨hn, h⟩ | ⟨_, h⟩⟩ <;> rw [h]
  · exact hf
  · exact FInv_of_eq hf rfl rfl rfl rfl
  · exact FInv_doReload i _ (Inv_sync hi hget) (FInv_of_eq hf rfl rfl rfl rfl)
  · exact FInv_of_eq hf rfl rfl rfl rfl

theorem FInv_reloadNow {s : St} (i : Nat) (hi : Inv s) (hf : FInv s) : FInv (reloadNow true s i) := by
  cases hg : s.handles[i]? with
  | none => rw [reloadNow_none hg]; exact hf
  | some h0 =>
    by_cases hn : s.sh.nIters > 0
    · rw [reloadNow_busy hg hn]; exact FInv_of_eq hf rfl rfl rfl rfl
    · have hn : s.sh.nIters = 0 := by omega
      rw [reloadNow_idle hg hn]
      exact FInv_doReload i _ (Inv_sync hi hg) (FInv_of_eq hf rfl rfl rfl rfl)

theorem FInv_openIter {s : St} (i : Nat) (hi : Inv s) (hf : FInv s) : FInv (openIter s i) := by
  have h1 := FInv_reload i hi hf
  unfold openIter
  dsimp only
  split
  · exact h1
  · split <;> exact FInv_of_eq h1 rfl rfl rfl rfl

theorem FInv_closeIter {s : St} {j : Nat} (hi : Inv s) (hf : FInv s) (ho : iOpen s j = true) : FInv (closeIter s j) := by
  obtain ⟨it, hget, hopen⟩ := iOpen_iff.1 ho
  rw [closeIter_eq hget hopen]
  exact FInv_reload _ (Inv_closeMid hi hget hopen) (FInv_of_eq (s' := closeMid s j it) hf rfl rfl rfl rfl)

theorem FInv_destroy {s : St} (i : Nat) (hf : FInv s) : FInv (destroy s i) := by
  unfold destroy
  split
  · exact hf
  · split
    · exact hf
    · dsimp only [setHandle]
      split
      · exact ⟨fun e he => (by cases he), ⟨List.nodup_nil, fun p hp => (by cases hp)⟩⟩
      · exact FInv_of_eq hf rfl rfl rfl rfl

theorem FInv_step {s : St} {op : Op} (hi : Inv s) (hf : FInv s) (hok : OpOk s op) (hokf : OpOkFiles s op) :
    FInv (step true s op) := by
  cases op with
  | editSetfile lines => exact FInv_of_eq hf rfl rfl rfl rfl
  | putFile n k =>
    refine ⟨?_, hf.inv2⟩
    intro e he p kind hk
    have hne : e.name ≠ n := hokf e he
    have : (step true s (.putFile n k)).w.files = s.w.files.filter (·.1 != n) ++ [(n, k)] := rfl
    rw [this, find_put_ne hne] at hk
    exact hf.faith e he p kind hk
  | rmFile n =>
    refine ⟨?_, hf.inv2⟩
    intro e he p kind hk
    have : (step true s (.rmFile n)).w.files = s.w.files.filter (·.1 != n) := rfl
    rw [this] at hk
    by_cases hne : e.name = n
    · rw [hne, find_filter_self] at hk; cases hk
    · rw [find_filter_ne hne] at hk
      exact hf.faith e he p kind hk
  | advance n => exact FInv_of_eq hf rfl rfl rfl rfl
  | reload h => exact FInv_reload h hi hf
  | reloadNow h => exact FInv_reloadNow h hi hf
  | openIter h => exact FInv_openIter h hi hf
  | useIter j => show FInv (useIter s j); rw [useIter_safe hi hok]; exact hf
  | closeIter j => exact FInv_closeIter hi hf hok
  | dup cfg => exact FInv_of_eq hf rfl rfl rfl rfl
  | destroy h => exact FInv_destroy h hf

theorem FInv_run {s : St} {ops : List Op} (hi : Inv s) (hf : FInv s) (hwf : WF s ops) (hwff : WFfiles s ops) :
    FInv (run true s ops) := by
  induction ops generalizing s with
  | nil => exact hf
  | cons op ops ih =>
    show FInv (run true (step true s op) ops)
    exact ih (Inv_step hi hwf.1) (FInv_step hi hf hwf.1 hwff.1) hwf.2 hwff.2

theorem FInv_init (w : World) (cfg : HCfg) : FInv (init w cfg) :=
  ⟨fun e he => (by cases he), ⟨List.nodup_nil, fun p hp => (by cases hp)⟩⟩

/-- membership in a merger's source list, spelled out (this is fs_reinit_merger's loop) -/
theorem mem_srcs_iff {sh : Shared} {cfg : HCfg} {r : Nat} :
    r ∈ srcs sh cfg ↔ ∃ e ∈ sh.entries, e.reader = some r ∧ cfg.nameFilter e.name = true ∧
      ∀ tid, tableOf sh.loaded r = some tid → cfg.tableFilter tid = true := by
  unfold srcs reinit
  dsimp only
  rw [List.mem_filterMap]
  constructor
  · rintro ⟨e, he, h⟩
    refine ⟨e, he, ?_⟩
    split at h
    · cases h
    · rename_i rid hr
      obtain ⟨hc, hrr⟩ := ite_some_none h
      subst hrr
      rw [Bool.and_eq_true] at hc
      refine ⟨hr, hc.1, ?_⟩
      intro tid ht
      rw [ht] at hc; exact hc.2
  · rintro ⟨e, he, hr, h1, h2⟩
    refine ⟨e, he, ?_⟩
    rw [hr]
    dsimp only
    split
    · rename_i tid ht
      simp only [h1, h2 tid ht, Bool.and_self, if_true]
    · simp only [h1, Bool.and_self, if_true]

/-- **C07 (4)**, second half: along well-formed histories in which no listed path is replaced, an entry whose path
    holds a table has a reader, that reader is live and reads exactly that table; an entry whose path is not
    a table has the NULL reader — so it can never be among the sources of any merger (`mem_srcs_iff`). -/
theorem C07_faithful (w : World) (cfg : HCfg) (ops : List Op) (hwf : WF (init w cfg) ops)
    (hwff : WFfiles (init w cfg) ops) (e : FEntry) (he : e ∈ (run true (init w cfg) ops).sh.entries)
    (p : String) (kind : FileKind)
    (hk : (run true (init w cfg) ops).w.files.find? (·.1 == e.name) = some (p, kind)) :
    match kind with
    | .table tid => ∃ r, e.reader = some r ∧ tableOf (run true (init w cfg) ops).sh.loaded r = some tid
    | .notTable => e.reader = none := by
  have hf := FInv_run (Inv_init w cfg) (FInv_init w cfg) hwf hwff
  have := hf.faith e he p kind hk
  cases kind with
  | table tid =>
    obtain ⟨r, h1, h2⟩ := this
    exact ⟨r, h1, tableOf_eq_some hf.inv2.ids h2⟩
  | notTable => exact this

theorem F3_witness_wffiles : WFfiles (init {} {}) f3hist := by decide +kernel

end Mtbl.Fs
