import MtblProofs.TpKLive
/-
  The k-client pool machine: every worker thread the pool has created and not yet joined is in exactly one place
  (`Tot`), and — with the invariants of TpKLive — NO DEADLOCK (`no_deadlock`).
-/
set_option linter.unusedSimpArgs false
set_option linter.unusedVariables false
namespace TpK

/-! ### the pool's thread count is the number of places occupied, plus the threads being created -/
def plc (o : Bool) (cl : Client) : Nat := (clView o cl).length + (if cl.pc = .create then 1 else 0)
def T (s : St) : Nat := s.idle.length + (oHand s.opc).length + sumA s.cl (plc s.ordered) + sumA s.thr wN
def Tot (s : St) : Prop := s.count = T s

theorem T_mk (max njobs : Nat) (ordered : Bool) (cl : Array Client) (thr : Array Thr) (idle : List Nat) (count : Nat)
    (opc : OPc) :
    T { max, njobs, ordered, cl, thr, idle, count, opc } =
      idle.length + (oHand opc).length + sumA cl (plc ordered) + sumA thr wN := rfl

theorem T_setCl (s : St) (c : Nat) (f : Client → Client) (h : c < s.cl.size) :
    T (setCl s c f) + plc s.ordered s.cl[c]! = T s + plc s.ordered (f s.cl[c]!) := by
  have := sumA_modify s.cl c f (plc s.ordered) h
  simp only [T, setCl_ordered, setCl_idle, setCl_opc, setCl_thr, setCl_cl]
  omega

theorem T_setCl_same (s : St) (c : Nat) (f : Client → Client)
    (hf : plc s.ordered (f s.cl[c]!) = plc s.ordered s.cl[c]!) : T (setCl s c f) = T s := by
  by_cases h : c < s.cl.size
  · have := T_setCl s c f h; omega
  · simp only [T, setCl_ordered, setCl_idle, setCl_opc, setCl_thr, setCl_cl, sumA_modify_oob _ _ _ _ h]

theorem T_setThr (s : St) (t : Nat) (f : Thr → Thr) (h : t < s.thr.size) :
    T (setThr s t f) + wN s.thr[t]! = T s + wN (f s.thr[t]!) := by
  have := sumA_modify s.thr t f wN h
  simp only [T, setThr_ordered, setThr_idle, setThr_opc, setThr_cl, setThr_thr]
  omega

theorem T_setThr_same (s : St) (t : Nat) (f : Thr → Thr) (hf : wN (f s.thr[t]!) = wN s.thr[t]!) :
    T (setThr s t f) = T s := by
  by_cases h : t < s.thr.size
  · have := T_setThr s t f h; omega
  · simp only [T, setThr_ordered, setThr_idle, setThr_opc, setThr_cl, setThr_thr, sumA_modify_oob _ _ _ _ h]

theorem plc_wakeH (o : Bool) (t : Nat) (c : Client) : plc o (wakeH t c) = plc o c := by
  simp [plc, clView_wakeH]

theorem T_signalThr (s : St) (t : Nat) : T (signalThr s t) = T s := by
  have h1 : signalThr s t =
      { (setThr s t fun th => match th.pc with | .top true => { th with pc := .top false } | _ => th) with
        cl := s.cl.map (wakeH t) } := rfl
  rw [h1]
  have h2 := T_setThr_same s t (fun th => match th.pc with | .top true => { th with pc := .top false } | _ => th)
    (by cases h : s.thr[t]!.pc with
        | top a => cases a <;> simp [wN, h]
        | _ => simp)
  rw [← h2]
  simp only [T, setThr_ordered, setThr_idle, setThr_opc, setThr_cl, setThr_thr]
  rw [sumA_map_same]
  intro x; exact plc_wakeH _ _ _

theorem T_signalRq (s : St) (c : Nat) : T (signalRq s c) = T s := by
  apply T_setCl_same
  split
  · rename_i h; simp [plc, clView, h]
  · rfl

theorem T_signalPool (s : St) (k : Nat) : T (signalPool s k) = T s := by
  unfold signalPool
  split
  · rename_i h; simp [T, oHand, h]
  · dsimp only
    split
    · rfl
    · rename_i hne
      apply T_setCl_same
      have := poolSleepers_spec s _ (poolSleepers_pick s k hne)
      generalize (poolSleepers s)[k % (poolSleepers s).length]! = c at this
      simp [plc, clView, cHand, this]

theorem tot_init (n max njobs : Nat) (o : Bool) : Tot (init n max njobs o) := by
  show 0 = T _
  simp only [T, init]
  rw [sumA_replicate]
  · simp [sumA, oHand]
  · simp [plc, clView, cHand, hHand]

theorem tot_spurious {s s' : St} {w : Who} (h : Tot s) (hs : step s (.spurious w) = some s') : Tot s' := by
  cases w with
  | owner =>
    simp only [step] at hs
    split at hs
    · rename_i ho
      injection hs with hs; subst hs
      show s.count = _
      rw [T_mk, h]; simp [T, ho]
    · simp at hs
  | client c =>
    simp only [step] at hs
    split at hs
    · rename_i hp
      injection hs with hs; subst hs
      show s.count = _
      rw [T_setCl_same, h]
      have : s.cl[c]!.pc = .next true := by
        cases hh : s.cl[c]? with
        | none => simp [hh] at hp
        | some x => 
          have : s.cl[c]! = x := by grind
          rw [this]; simpa [hh] using hp
      simp [plc, clView, this]
    · simp at hs
  | handler c =>
    simp only [step] at hs
    have key : ∀ hp : HPc, (s.cl[c]?).map (·.hpc) = some hp → s.cl[c]!.hpc = hp := by
      intro hp hx
      cases hh : s.cl[c]? with
      | none => simp [hh] at hx
      | some x =>
        have : s.cl[c]! = x := by grind
        rw [this]; simpa [hh] using hx
    split at hs
    · rename_i hp
      injection hs with hs; subst hs
      show s.count = _
      rw [T_setCl_same, h]
      simp [plc, clView, key _ hp]
    · rename_i t hp
      injection hs with hs; subst hs
      show s.count = _
      rw [T_setCl_same, h]
      simp [plc, clView, key _ hp]
    · simp at hs
  | worker t =>
    simp only [step] at hs
    split at hs
    · rename_i hp
      injection hs with hs; subst hs
      show s.count = _
      rw [T_setThr_same, h]
      have : s.thr[t]!.pc = .top true := by
        cases hh : s.thr[t]? with
        | none => simp [hh] at hp
        | some x =>
          have : s.thr[t]! = x := by grind
          rw [this]; simpa [hh] using hp
      simp [wN, this]
    · simp at hs


theorem tot_stepOwner {s s' : St} (hW : Wk s) (hC : CLAll s) (h : Tot s) (hs : stepOwner s = some s') : Tot s' := by
  unfold stepOwner at hs
  unfold Tot at h ⊢
  split at hs
  · rename_i i ho
    injection hs with hs; subst hs
    show s.count = _
    rw [T_mk]
    have hidle := hW.fresh i i ho (Nat.le_refl _)
    obtain ⟨hq, hh, _⟩ := (hC i).idleRec hidle
    by_cases hi : i < s.cl.size
    · have := T_setCl s i (fun _ => { pc := .start }) hi
      simp only [T, setCl_ordered, setCl_idle, setCl_opc, setCl_thr, setCl_cl, ho, plc, clView, hidle, hq, hh] at this h ⊢
      simp at this h ⊢; omega
    · simp only [T, setCl_ordered, setCl_idle, setCl_opc, setCl_thr, setCl_cl, sumA_modify_oob _ _ _ _ hi, ho] at h ⊢
      simpa using h
  · rename_i i ho
    split at hs
    · injection hs with hs; subst hs
      show s.count = _
      rw [T_mk, h]; simp [T, ho]
    · simp at hs
  · simp at hs
  · rename_i ho
    split at hs
    · injection hs with hs; subst hs
      show s.count = _
      rw [T_mk, h]; simp [T, ho]
    · split at hs
      · injection hs with hs; subst hs
        show s.count = _
        rw [T_mk, h]; simp [T, ho]
      · rename_i t rest hi
        injection hs with hs; subst hs
        show s.count = _
        rw [T_mk, h]; simp [T, ho, hi]
  · rename_i t ho
    injection hs with hs; subst hs
    rw [T_signalThr]
    have h2 := T_setThr_same s t (fun th => { th with running := true }) (by simp [wN])
    show s.count = _
    rw [T_mk, h, ← h2]
    simp [T, ho]
  · rename_i t ho
    split at hs
    · injection hs with hs; subst hs
      show s.count - 1 = _
      rw [T_mk, h]; simp [T, ho]; omega
    · simp at hs
  · simp at hs


theorem tot_stepClient {s s' : St} {c : Nat} (hE : Excl s) (h : Tot s) (hs : stepClient s c = some s') : Tot s' := by
  unfold stepClient at hs
  unfold Tot at h ⊢
  split at hs
  case isFalse => simp at hs
  rename_i hc
  dsimp only at hs
  split at hs
  · simp at hs
  · rename_i hp
    injection hs with hs; subst hs
    rw [T_setCl_same _ _ _ (by simp [plc, clView, hp])]; exact h
  · rename_i hp
    injection hs with hs; subst hs
    rw [T_setCl_same _ _ _ (by simp [plc, clView, hp])]; exact h
  · simp at hs
  · rename_i hp
    split at hs
    · injection hs with hs; subst hs
      rw [T_setCl_same _ _ _ (by simp [plc, clView, hp])]; exact h
    · split at hs
      · rename_i t rest hi
        injection hs with hs; subst hs
        have := T_setCl { s with idle := rest } c (fun cl => { cl with pc := .assign t }) hc
        have hX : T { s with idle := rest } + 1 = T s := by simp only [T, hi]; simp; omega
        simp only [plc, clView, hp] at this
        simp at this
        show s.count = _
        omega
      · split at hs
        · injection hs with hs; subst hs
          rw [T_setCl_same _ _ _ (by simp [plc, clView, hp])]; exact h
        · injection hs with hs; subst hs
          have := T_setCl { s with count := s.count + 1 } c (fun cl => { cl with pc := .create }) hc
          have hX : T { s with count := s.count + 1 } = T s := rfl
          simp only [plc, clView, hp] at this
          simp at this
          show s.count + 1 = _
          omega
  · rename_i hp
    injection hs with hs; subst hs
    have h1 := T_setCl { s with thr := s.thr.push {} } c (fun cl => { cl with pc := .assign s.thr.size }) hc
    simp only [plc, clView, hp] at h1
    have hw : wN ({} : Thr) = 0 := rfl
    have hX : T { s with thr := s.thr.push {} } = T s := by simp only [T, sumA_push, hw]; simp
    simp at h1
    show s.count = _
    omega
  · rename_i t hp
    injection hs with hs; subst hs
    generalize hf : (fun th : Thr =>
      ({ th with rq := if s.ordered then none else some c, cb := some s.cl[c]!.nextJob, running := true } : Thr)) = f
    rw [T_signalThr]
    obtain ⟨_, _, _, ht, hw0⟩ := hE.client_holds hc (t := t) (by simp [clView, hp])
    have h1 := T_setCl (setThr s t f) c (fun cl => { cl with pc := .enqueue t }) (by simpa using hc)
    have h3 := T_setThr s t f ht
    simp only [plc, clView, setThr_ordered, setThr_cl, hp, cHand_assign, cHand_enqueue] at h1
    have h5 : wN (f s.thr[t]!) = (if s.ordered then 0 else 1) := by
      have hr : s.thr[t]!.rq = none ∧ ∀ c', s.thr[t]!.pc ≠ .selfEnq c' := by
        simp only [wN] at hw0
        constructor
        · cases hh : s.thr[t]!.rq with
          | none => rfl
          | some _ => simp [hh] at hw0
        · intro c' hh; simp [hh] at hw0
      subst hf; simp only [wN]
      cases ho : s.ordered
      · simp; cases hpc : s.thr[t]!.pc <;> simp
        exact absurd hpc (hr.2 _)
      · simp; cases hpc : s.thr[t]!.pc <;> simp
        exact absurd hpc (hr.2 _)
    show s.count = _
    cases ho : s.ordered <;> simp [ho] at h1 h5 <;> omega
  · rename_i t hp
    injection hs with hs; subst hs
    have key : T (setCl s c fun cl =>
        { cl with nthreads := cl.nthreads + 1, queue := if s.ordered then cl.queue ++ [t] else cl.queue,
                  pc := .next false, nextJob := cl.nextJob + 1 }) = T s := by
      have := T_setCl s c (fun cl =>
        { cl with nthreads := cl.nthreads + 1, queue := if s.ordered then cl.queue ++ [t] else cl.queue,
                  pc := .next false, nextJob := cl.nextJob + 1 }) hc
      simp only [plc, clView, hp, cHand_enqueue, cHand_next] at this
      cases ho : s.ordered <;> simp [ho] at this ⊢ <;> omega
    by_cases ho : s.ordered = true
    · simp only [setCl_ordered, ho, if_true] at key ⊢
      rw [T_signalRq, key]; exact h
    · simp only [setCl_ordered, ho, if_false] at key ⊢
      exact h.trans key.symm
  · rename_i hp
    injection hs with hs; subst hs
    rw [T_signalRq, T_setCl_same _ _ _ (by simp [plc, clView, hp])]; exact h
  · rename_i hp
    split at hs
    · injection hs with hs; subst hs
      rw [T_setCl_same _ _ _ (by simp [plc, clView, hp])]; exact h
    · simp at hs
  · simp at hs


theorem tot_stepWorker {s s' : St} {t : Nat} (hS : Sh s) (hF : WF2 s) (h : Tot s) (hs : stepWorker s t = some s') : Tot s' := by
  unfold stepWorker at hs
  unfold Tot at h ⊢
  split at hs
  case isFalse => simp at hs
  rename_i ht
  dsimp only at hs
  split at hs
  · simp at hs
  · rename_i hp
    split at hs <;> (injection hs with hs; subst hs)
    · rw [T_setThr_same _ _ _ (by simp [wN, hp])]; exact h
    · rw [T_setThr_same _ _ _ (by simp [wN, hp])]; exact h
  · rename_i hp
    split at hs
    · injection hs with hs; subst hs
      rw [T_setThr_same _ _ _ (by simp [wN, hp])]; exact h
    · split at hs <;> (injection hs with hs; subst hs)
      · rename_i c hr
        rw [T_setThr_same _ _ _ (by simp [wN, hp, hr])]; exact h
      · rename_i hr
        rw [T_setThr_same _ _ _ (by simp [wN, hp, hr])]; exact h
  · rename_i c hp
    injection hs with hs; subst hs
    rw [T_signalRq]
    have hc := (hF t c (Or.inr hp)).1
    have hw : 0 < wN s.thr[t]! := by simp [wN, hp]
    have hrq : s.thr[t]!.rq = none := by
      rcases ((hS t).self hw).2 with hx | hx
      · rcases hx.1 with h1 | h1 <;> simp [hp, isTop] at h1
      · exact hx.2.2.2.2
    have h3 := T_setThr s t (fun th => { th with pc := .top false }) ht
    have h1 := T_setCl (setThr s t fun th => { th with pc := .top false }) c
      (fun cl => { cl with queue := cl.queue ++ [t] }) (by simpa using hc)
    simp only [plc, clView, setThr_ordered, setThr_cl] at h1
    simp [wN, hp, hrq] at h1 h3
    show s.count = _
    omega
  · rename_i hp
    injection hs with hs; subst hs
    rw [T_signalThr, T_setThr_same _ _ _ (by simp [wN, hp])]; exact h
  · simp at hs

theorem tot_stepHandler {s s' : St} {c k : Nat} (h : Tot s) (hs : stepHandler s c k = some s') : Tot s' := by
  unfold stepHandler at hs
  unfold Tot at h ⊢
  split at hs
  case isFalse => simp at hs
  rename_i hc
  dsimp only at hs
  split at hs
  · simp at hs
  split at hs
  · simp at hs
  · rename_i hp
    split at hs
    · rename_i t rest hq
      injection hs with hs; subst hs
      have := T_setCl s c (fun cl => { cl with queue := rest, nthreads := cl.nthreads - 1, hpc := .waitRes t false }) hc
      simp only [plc, clView, hp, hq] at this
      simp at this
      show s.count = _
      omega
    · split at hs <;> (injection hs with hs; subst hs)
      · rw [T_setCl_same _ _ _ (by simp [plc, clView, hp])]; exact h
      · rw [T_setCl_same _ _ _ (by simp [plc, clView, hp])]; exact h
  · simp at hs
  · rename_i t hp
    split at hs <;> (injection hs with hs; subst hs)
    · rw [T_setCl_same _ _ _ (by simp [plc, clView, hp])]; exact h
    · rw [T_setCl_same _ _ _ (by simp [plc, clView, hp]), T_setThr_same _ _ _ (by simp [wN])]; exact h
  · rename_i t r hp
    injection hs with hs; subst hs
    rw [T_signalPool]
    have := T_setCl { s with idle := t :: s.idle } c (fun cl => { cl with hpc := .callback r }) hc
    have hX : T { s with idle := t :: s.idle } = T s + 1 := by simp only [T]; simp; omega
    simp only [plc, clView, hp] at this
    simp at this
    rw [signalPool_count]
    show s.count = _
    omega
  · rename_i r hp
    injection hs with hs; subst hs
    rw [T_setCl_same _ _ _ (by simp [plc, clView, hp])]; exact h
  · simp at hs

theorem tot_step {s s' : St} {l : Lbl} (hE : Excl s) (hS : Sh s) (hW : Wk s) (hC : CLAll s) (hF : WF2 s) (h : Tot s)
    (hs : step s l = some s') : Tot s' := by
  cases l with
  | spurious w => exact tot_spurious h hs
  | run w k =>
    cases w with
    | owner => exact tot_stepOwner hW hC h hs
    | client c => exact tot_stepClient hE h hs
    | handler c => exact tot_stepHandler h hs
    | worker t => exact tot_stepWorker hS hF h hs


/-! ### a client that has closed leaves nothing behind -/
structure EXc (cl : Client) : Prop where
  fin : cl.finished = true → closing cl.pc = true
  exq : cl.hpc = .exited → cl.queue = [] ∧ cl.finished = true
  done : cl.pc = .done → cl.hpc = .exited

def EXAll (s : St) : Prop := ∀ c : Nat, EXc s.cl[c]!

theorem EXc_default : EXc (default : Client) := by
  have h1 : (default : Client).pc = .idle := rfl
  have h2 : (default : Client).hpc = .deq false := by decide
  have h5 : (default : Client).finished = false := rfl
  exact ⟨by simp [h5], by simp [h2], by simp [h1]⟩

theorem EXc_wakeH {cl : Client} (t : Nat) (h : EXc cl) : EXc (wakeH t cl) := by
  have e : (wakeH t cl).finished = cl.finished ∧ ((wakeH t cl).hpc = .exited ↔ cl.hpc = .exited) := by
    unfold wakeH; split
    · rename_i t' hh
      split
      · exact ⟨rfl, by simp [hh]⟩
      · exact ⟨rfl, Iff.rfl⟩
    · exact ⟨rfl, Iff.rfl⟩
  obtain ⟨e1, e2⟩ := e
  refine ⟨fun hx => ?_, fun hx => ?_, fun hx => ?_⟩
  · rw [wakeH_pc]; rw [e1] at hx; exact h.fin hx
  · rw [wakeH_queue, e1]; exact h.exq (e2.mp hx)
  · rw [wakeH_pc] at hx; exact e2.mpr (h.done hx)

theorem EXc_wakeDeq {cl : Client} (h : EXc cl) : EXc (wakeDeq cl) := by
  unfold wakeDeq; split
  · rename_i hh
    exact ⟨h.fin, by simp, fun hx => by have := h.done hx; rw [hh] at this; cases this⟩
  · exact h

theorem ex_modify {cls : Array Client} (c0 : Nat) (f : Client → Client)
    (h : ∀ c : Nat, EXc cls[c]!) (hf : EXc (f cls[c0]!)) : ∀ c : Nat, EXc (cls.modify c0 f)[c]! := by
  intro c
  rw [get_modify]
  split
  · rename_i hc; rw [hc.1]; exact hf
  · exact h c

theorem exall_signalThr {s : St} (t : Nat) (h : EXAll s) : EXAll (signalThr s t) := by
  intro c
  show EXc (s.cl.map (wakeH t))[c]!
  rw [get_map]
  split
  · exact EXc_wakeH t (h c)
  · exact EXc_default

theorem exall_signalRq {s : St} (c : Nat) (h : EXAll s) : EXAll (signalRq s c) := by
  show ∀ c' : Nat, EXc (s.cl.modify c _)[c']!
  exact ex_modify c _ h (EXc_wakeDeq (h c))

theorem exall_signalPool {s : St} (k : Nat) (h : EXAll s) : EXAll (signalPool s k) := by
  unfold signalPool
  split
  · exact h
  · dsimp only
    split
    · exact h
    · rename_i hne
      have hp := poolSleepers_spec s _ (poolSleepers_pick s k hne)
      generalize (poolSleepers s)[k % (poolSleepers s).length]! = c at hp ⊢
      show ∀ c' : Nat, EXc (s.cl.modify c _)[c']!
      apply ex_modify c _ h
      have hc := h c
      exact ⟨fun hx => by have := hc.fin hx; simp [hp, closing] at this, hc.exq, by simp⟩

theorem exall_congr {s s' : St} (h : EXAll s) (e2 : s'.cl = s.cl) : EXAll s' := by
  intro c; rw [e2]; exact h c

theorem getOpt_pc {s : St} {c : Nat} {p : CPc} (hp : (s.cl[c]?).map (·.pc) = some p) : s.cl[c]!.pc = p := by
  cases hx : s.cl[c]? with
  | none => simp [hx] at hp
  | some x => simp [hx] at hp; simp [getElem!_def, hx, hp]
theorem getOpt_hpc {s : St} {c : Nat} {p : HPc} (hp : (s.cl[c]?).map (·.hpc) = some p) : s.cl[c]!.hpc = p := by
  cases hx : s.cl[c]? with
  | none => simp [hx] at hp
  | some x => simp [hx] at hp; simp [getElem!_def, hx, hp]

theorem exall_step {s s' : St} {l : Lbl} (hS : Sh s) (hN : NOrd s) (h : EXAll s) (hs : step s l = some s') : EXAll s' := by
  have upd : ∀ (S0 : St) (c : Nat) (f : Client → Client), S0.cl = s.cl → EXc (f s.cl[c]!) → EXAll (setCl S0 c f) := by
    intro S0 c f e2 hf
    show ∀ c' : Nat, EXc (S0.cl.modify c f)[c']!
    rw [e2]; exact ex_modify c f h hf
  cases l with
  | spurious w =>
    cases w with
    | owner =>
      simp only [step] at hs
      split at hs
      · injection hs with hs; subst hs; exact exall_congr h rfl
      · simp at hs
    | client c =>
      simp only [step] at hs
      split at hs
      · rename_i hp
        injection hs with hs; subst hs
        have hp' := getOpt_pc hp
        have hc := h c
        exact upd s c _ rfl ⟨fun hx => by have := hc.fin hx; simp [hp', closing] at this, hc.exq, by simp⟩
      · simp at hs
    | handler c =>
      have hc := h c
      simp only [step] at hs
      split at hs
      · rename_i hp
        injection hs with hs; subst hs
        have hp' := getOpt_hpc hp
        exact upd s c _ rfl ⟨hc.fin, by simp, fun hx => by have := hc.done hx; rw [hp'] at this; cases this⟩
      · rename_i t hp
        injection hs with hs; subst hs
        have hp' := getOpt_hpc hp
        exact upd s c _ rfl ⟨hc.fin, by simp, fun hx => by have := hc.done hx; rw [hp'] at this; cases this⟩
      · simp at hs
    | worker t =>
      simp only [step] at hs
      split at hs
      · injection hs with hs; subst hs; exact exall_congr h rfl
      · simp at hs
  | run w k =>
    cases w with
    | owner =>
      simp only [step, stepOwner] at hs
      split at hs
      · rename_i i _
        injection hs with hs; subst hs
        have hnew : EXc ({ pc := .start } : Client) := ⟨by simp, by simp, by simp⟩
        exact exall_congr (s := setCl s i fun _ => { pc := .start }) (upd s i (fun _ => { pc := .start }) rfl hnew) rfl
      · split at hs
        · injection hs with hs; subst hs; exact exall_congr h rfl
        · simp at hs
      · simp at hs
      · split at hs
        · injection hs with hs; subst hs; exact exall_congr h rfl
        · split at hs <;> (injection hs with hs; subst hs; exact exall_congr h rfl)
      · injection hs with hs; subst hs
        exact exall_signalThr _ (exall_congr h rfl)
      · split at hs
        · injection hs with hs; subst hs; exact exall_congr h rfl
        · simp at hs
      · simp at hs
    | client c =>
      have hc := h c
      simp only [step, stepClient] at hs
      split at hs
      case isFalse => simp at hs
      rename_i hcs
      -- a step of the caller that leaves it before the close
      have open_ : ∀ (S0 : St) (f : Client → Client), S0.cl = s.cl → closing s.cl[c]!.pc = false →
          closing (f s.cl[c]!).pc = false → (f s.cl[c]!).finished = s.cl[c]!.finished → (f s.cl[c]!).hpc = s.cl[c]!.hpc →
          ((f s.cl[c]!).queue = s.cl[c]!.queue ∨ s.cl[c]!.hpc ≠ .exited) → EXAll (setCl S0 c f) := by
        intro S0 f e2 h1 h2 h3 h4 h5
        refine upd S0 c f e2 ⟨fun hx => ?_, fun hx => ?_, fun hx => ?_⟩
        · rw [h3] at hx; have := hc.fin hx; rw [h1] at this; cases this
        · rw [h4] at hx
          have := (hc.exq hx).2
          have := hc.fin this; rw [h1] at this; cases this
        · rw [hx] at h2; simp [closing] at h2
      split at hs
      · simp at hs
      · rename_i hp
        injection hs with hs; subst hs
        exact open_ s _ rfl (by simp [hp, closing]) (by simp [closing]) rfl rfl (Or.inl rfl)
      · rename_i hp
        injection hs with hs; subst hs
        exact open_ s _ rfl (by simp [hp, closing]) (by simp [closing]) rfl rfl (Or.inl rfl)
      · simp at hs
      · rename_i hp
        split at hs
        · injection hs with hs; subst hs
          exact open_ s _ rfl (by simp [hp, closing]) (by simp [closing]) rfl rfl (Or.inl rfl)
        · split at hs
          · injection hs with hs; subst hs
            exact open_ _ _ rfl (by simp [hp, closing]) (by simp [closing]) rfl rfl (Or.inl rfl)
          · split at hs <;> (injection hs with hs; subst hs)
            · exact open_ s _ rfl (by simp [hp, closing]) (by simp [closing]) rfl rfl (Or.inl rfl)
            · exact open_ _ _ rfl (by simp [hp, closing]) (by simp [closing]) rfl rfl (Or.inl rfl)
      · rename_i hp
        injection hs with hs; subst hs
        exact open_ _ _ rfl (by simp [hp, closing]) (by simp [closing]) rfl rfl (Or.inl rfl)
      · rename_i t hp
        injection hs with hs; subst hs
        apply exall_signalThr
        exact open_ (setThr s t _) _ rfl (by simp [hp, closing]) (by simp [closing]) rfl rfl (Or.inl rfl)
      · rename_i t hp
        injection hs with hs; subst hs
        have hne : s.cl[c]!.hpc ≠ .exited := by
          intro hx
          have := hc.fin (hc.exq hx).2
          simp [hp, closing] at this
        have hX : EXAll (setCl s c fun cl =>
            { cl with nthreads := cl.nthreads + 1, queue := if s.ordered then cl.queue ++ [t] else cl.queue,
                      pc := .next false, nextJob := cl.nextJob + 1 }) :=
          open_ s _ rfl (by simp [hp, closing]) (by simp [closing]) rfl rfl (Or.inr hne)
        by_cases ho : s.ordered = true
        · simp only [setCl_ordered, ho, if_true] at hX ⊢
          exact exall_signalRq c hX
        · simp only [setCl_ordered, ho, if_false] at hX ⊢
          exact hX
      · rename_i hp
        injection hs with hs; subst hs
        apply exall_signalRq
        refine upd s c _ rfl ⟨by simp [closing], fun hx => ?_, by simp⟩
        have := hc.fin (hc.exq hx).2
        simp [hp, closing] at this
      · rename_i hp
        split at hs
        · rename_i hx
          injection hs with hs; subst hs
          exact upd s c _ rfl ⟨by simp [closing], hc.exq, fun _ => hx⟩
        · simp at hs
      · simp at hs
    | handler c =>
      have hc := h c
      simp only [step, stepHandler] at hs
      split at hs
      case isFalse => simp at hs
      split at hs
      · simp at hs
      -- a step of a handler that has not exited and does not exit
      have live : ∀ (S0 : St) (f : Client → Client), S0.cl = s.cl → s.cl[c]!.hpc ≠ .exited →
          (f s.cl[c]!).hpc ≠ .exited → (f s.cl[c]!).finished = s.cl[c]!.finished → (f s.cl[c]!).pc = s.cl[c]!.pc →
          EXAll (setCl S0 c f) := by
        intro S0 f e2 h1 h2 h3 h4
        refine upd S0 c f e2 ⟨fun hx => ?_, fun hx => absurd hx h2, fun hx => ?_⟩
        · rw [h4]; rw [h3] at hx; exact hc.fin hx
        · rw [h4] at hx; exact absurd (hc.done hx) h1
      split at hs
      · simp at hs
      · rename_i hp
        split at hs
        · injection hs with hs; subst hs
          exact live s _ rfl (by simp [hp]) (by simp) rfl rfl
        · rename_i hq
          split at hs <;> (injection hs with hs; subst hs)
          · rename_i hfin
            refine upd s c _ rfl ⟨hc.fin, fun _ => ⟨hq, ?_⟩, fun _ => rfl⟩
            simp at hfin; exact hfin.1
          · exact live s _ rfl (by simp [hp]) (by simp) rfl rfl
      · simp at hs
      · rename_i t hp
        split at hs <;> (injection hs with hs; subst hs)
        · exact live s _ rfl (by simp [hp]) (by simp) rfl rfl
        · exact live _ _ rfl (by simp [hp]) (by simp) rfl rfl
      · rename_i t r hp
        injection hs with hs; subst hs
        apply exall_signalPool
        exact live _ _ rfl (by simp [hp]) (by simp) rfl rfl
      · rename_i r hp
        injection hs with hs; subst hs
        exact live s _ rfl (by simp [hp]) (by simp) rfl rfl
      · simp at hs
    | worker t =>
      simp only [step, stepWorker] at hs
      split at hs
      case isFalse => simp at hs
      rename_i ht
      split at hs
      · simp at hs
      · split at hs <;> (injection hs with hs; subst hs; exact exall_congr h rfl)
      · split at hs
        · injection hs with hs; subst hs; exact exall_congr h rfl
        · split at hs <;> (injection hs with hs; subst hs; exact exall_congr h rfl)
      · rename_i c hp
        injection hs with hs; subst hs
        apply exall_signalRq
        have hc := h c
        have hw : 0 < wN s.thr[t]! := by simp [wN, hp]
        have ho := ((hS t).self hw).1
        have hne : s.cl[c]!.hpc ≠ .exited := by
          intro hx
          have h0 := ((hN ho).ex c hx).2
          have := sumA_eq_zero_term s.thr (wAny c) h0 t ht
          simp [wAny, hp] at this
        refine upd (setThr s t _) c _ rfl ⟨hc.fin, fun hx => absurd hx hne, hc.done⟩
      · injection hs with hs; subst hs
        exact exall_signalThr _ (exall_congr h rfl)
      · simp at hs

theorem exall_init (n max njobs : Nat) (o : Bool) : EXAll (init n max njobs o) := by
  intro c
  show EXc (Array.replicate n ({} : Client))[c]!
  by_cases hc : c < n
  · have : (Array.replicate n ({} : Client))[c]! = {} := by simp [hc]
    rw [this]; exact ⟨by simp, by simp, by simp⟩
  · have : (Array.replicate n ({} : Client))[c]! = default := by simp [hc]
    rw [this]; exact EXc_default


/-! ### everything together -/
theorem init_cl_get (n max njobs : Nat) (o : Bool) (c : Nat) :
    (init n max njobs o).cl[c]! = {} ∨ (init n max njobs o).cl[c]! = default := by
  show (Array.replicate n ({} : Client))[c]! = {} ∨ (Array.replicate n ({} : Client))[c]! = default
  by_cases hc : c < n
  · left; simp [hc]
  · right; simp [hc]

theorem init_thr_get (n max njobs : Nat) (o : Bool) (t : Nat) : (init n max njobs o).thr[t]! = default := by
  show (#[] : Array Thr)[t]! = default
  simp

theorem wf2_init (n max njobs : Nat) (o : Bool) : WF2 (init n max njobs o) := by
  intro t c hx
  rw [init_thr_get] at hx
  have h1 : (default : Thr).rq = none := rfl
  have h2 : (default : Thr).pc = .top false := rfl
  rw [h1, h2] at hx
  rcases hx with hx | hx <;> cases hx

theorem clall_init (n max njobs : Nat) (o : Bool) : CLAll (init n max njobs o) := by
  intro c
  rcases init_cl_get n max njobs o c with e | e <;> rw [e]
  · exact CL_new _
  · exact CL_default _

theorem strict_init (n max njobs : Nat) (o : Bool) : Strict (init n max njobs o) := by
  intro t hx
  rw [init_thr_get] at hx ⊢
  rfl

theorem phs_init (n max njobs : Nat) (o : Bool) (hn : 1 ≤ n) : Phs (init n max njobs o) := by
  have hpc : ∀ c : Nat, (init n max njobs o).cl[c]!.pc = .idle := by
    intro c
    rcases init_cl_get n max njobs o c with e | e <;> rw [e] <;> rfl
  refine ⟨fun c hx => ?_, fun hx => ?_, fun hx => ?_, fun j hx => ?_, fun i hx => ?_⟩
  · rw [hpc] at hx; cases hx
  · cases hx
  · rcases hx with hx | ⟨i, hx⟩
    · simp [init, afterJoin] at hx
    · cases hx
  · have : j = 0 := by
      have hx' : OPc.spawn 0 = .spawn j := hx
      injection hx' with e; exact e.symm
    subst this
    exact ⟨by show 0 < (Array.replicate n ({} : Client)).size; simp; omega, fun c hc => by omega⟩
  · cases hx

/-- the invariants the liveness argument uses -/
structure Live (s : St) : Prop where
  excl : Excl s
  sh : Sh s
  wk : Wk s
  uord : UOrd s
  nord : NOrd s
  ph : PhAll s
  wf2 : WF2 s
  cl : CLAll s
  strict : Strict s
  phs : Phs s
  tot : Tot s
  ex : EXAll s

theorem live_reachable {n max njobs : Nat} {o : Bool} {s : St} (hn : 1 ≤ n) (hr : Reachable n max njobs o s) : Live s := by
  have base : Excl s ∧ Sh s ∧ Wk s ∧ UOrd s ∧ NOrd s ∧ PhAll s :=
    ⟨(inv_reachable hr).1, (inv_reachable hr).2, wk_reachable hr, uord_reachable hr, nord_reachable hr, ph_reachable hr⟩
  obtain ⟨b1, b2, b3, b4, b5, b6⟩ := base
  suffices h : WF2 s ∧ CLAll s ∧ Strict s ∧ Phs s ∧ Tot s ∧ EXAll s from
    ⟨b1, b2, b3, b4, b5, b6, h.1, h.2.1, h.2.2.1, h.2.2.2.1, h.2.2.2.2.1, h.2.2.2.2.2⟩
  clear b1 b2 b3 b4 b5 b6
  induction hr with
  | init => exact ⟨wf2_init _ _ _ _, clall_init _ _ _ _, strict_init _ _ _ _, phs_init _ _ _ _ hn, tot_init _ _ _ _, exall_init _ _ _ _⟩
  | @step s1 s2 l hr' hs ih =>
    obtain ⟨a1, a2, a3, a4, a5, a6⟩ := ih
    have hI := inv_reachable hr'
    have hW := wk_reachable hr'
    have hU := uord_reachable hr'
    have hN := nord_reachable hr'
    have hP := ph_reachable hr'
    exact ⟨wf2_step hI.2 hW hU a1 hs, clall_step hI.2 hP a1 a2 hs, strict_step a3 hs, phs_step hW a4 hs,
      tot_step hI.1 hI.2 hW a2 a1 a5 hs, exall_step hI.2 hN a6 hs⟩


/-! ### the parameters stay what they were -/
@[simp] theorem signalPool_clsize (s : St) (k : Nat) : (signalPool s k).cl.size = s.cl.size := by
  unfold signalPool; split
  · rfl
  · dsimp only; split <;> simp

@[simp] theorem signalPool_ordered (s : St) (k : Nat) : (signalPool s k).ordered = s.ordered := by
  unfold signalPool; split
  · rfl
  · dsimp only; split <;> simp
@[simp] theorem signalPool_njobs (s : St) (k : Nat) : (signalPool s k).njobs = s.njobs := by
  unfold signalPool; split
  · rfl
  · dsimp only; split <;> simp
@[simp] theorem signalThr_njobs (s : St) (t : Nat) : (signalThr s t).njobs = s.njobs := rfl
@[simp] theorem signalRq_njobs (s : St) (c : Nat) : (signalRq s c).njobs = s.njobs := rfl

theorem step_params {s s' : St} {l : Lbl} (hs : step s l = some s') :
    s'.max = s.max ∧ s'.cl.size = s.cl.size ∧ s'.ordered = s.ordered ∧ s'.njobs = s.njobs := by
  cases l with
  | spurious w =>
    cases w <;> simp only [step] at hs <;> split at hs <;>
      first | (injection hs with hs; subst hs; simp) | (simp at hs)
  | run w k =>
    cases w with
    | owner =>
      simp only [step, stepOwner] at hs
      repeat' split at hs
      all_goals first | (injection hs with hs; subst hs; simp) | (simp at hs)
    | client c =>
      simp only [step, stepClient] at hs
      repeat' split at hs
      all_goals first | (injection hs with hs; subst hs; simp) | (simp at hs)
    | handler c =>
      simp only [step, stepHandler] at hs
      repeat' split at hs
      all_goals first | (injection hs with hs; subst hs; simp) | (simp at hs)
    | worker t =>
      simp only [step, stepWorker] at hs
      repeat' split at hs
      all_goals first | (injection hs with hs; subst hs; simp) | (simp at hs)

theorem params_reachable {n max njobs : Nat} {o : Bool} {s : St} (hr : Reachable n max njobs o s) :
    s.max = max ∧ s.cl.size = n ∧ s.ordered = o ∧ s.njobs = njobs := by
  induction hr with
  | init => exact ⟨rfl, by simp [init], rfl, rfl⟩
  | step _ hs ih =>
    have := step_params hs
    exact ⟨this.1.trans ih.1, this.2.1.trans ih.2.1, this.2.2.1.trans ih.2.2.1, this.2.2.2.trans ih.2.2.2⟩

/-! ### who can take a step -/
def enabled (s : St) (w : Who) : Prop := (step s (.run w 0)).isSome = true

theorem thr_oob {s : St} {t : Nat} (h : ¬ t < s.thr.size) : s.thr[t]! = default := by grind

theorem worker_enabled {s : St} {t : Nat} (ht : t < s.thr.size) (h1 : s.thr[t]!.pc ≠ .top true) (h2 : s.thr[t]!.pc ≠ .exited) :
    enabled s (.worker t) := by
  simp only [enabled, step, stepWorker, ht, if_true]
  cases hp : s.thr[t]!.pc with
  | top a => cases a
             · simp; split <;> simp
             · exact absurd hp h1
  | gotJob =>
    simp; split
    · simp
    · split <;> simp
  | selfEnq c => simp
  | doneOrd => simp
  | exited => exact absurd hp h2


theorem client_enabled {s : St} {c : Nat} (hc : c < s.cl.size) (h1 : s.cl[c]!.pc ≠ .idle) (h2 : s.cl[c]!.pc ≠ .next true)
    (h3 : s.cl[c]!.pc ≠ .done) (h4 : s.cl[c]!.pc = .joinH → s.cl[c]!.hpc = .exited) : enabled s (.client c) := by
  simp only [enabled, step, stepClient, hc, if_true]
  cases hp : s.cl[c]!.pc with
  | idle => exact absurd hp h1
  | start => simp
  | mkH => simp
  | next a =>
    cases a
    · simp; split
      · simp
      · split
        · simp
        · split <;> simp
    · exact absurd hp h2
  | create => simp
  | assign t => simp
  | enqueue t => simp
  | finish => simp
  | joinH => simp [h4 hp]
  | done => exact absurd hp h3

theorem handler_enabled {s : St} {c : Nat} (hc : c < s.cl.size) (h0 : s.cl[c]!.hstarted = true)
    (h1 : s.cl[c]!.hpc ≠ .deq true) (h2 : ∀ t, s.cl[c]!.hpc ≠ .waitRes t true) (h3 : s.cl[c]!.hpc ≠ .exited) :
    enabled s (.handler c) := by
  simp only [enabled, step, stepHandler, hc, if_true, h0]
  cases hp : s.cl[c]!.hpc with
  | deq a =>
    cases a
    · simp; split
      · simp
      · split <;> simp
    · exact absurd hp h1
  | waitRes t a =>
    cases a
    · simp; split <;> simp
    · exact absurd hp (h2 t)
  | giveBack t r => simp
  | callback r => simp
  | exited => exact absurd hp h3

/-- a worker that has been told to run is not asleep -/
theorem worker_of_running {s : St} (L : Live s) {t : Nat} (hr : s.thr[t]!.running = true) (hne : s.thr[t]!.pc ≠ .exited) :
    enabled s (.worker t) := by
  have ht : t < s.thr.size := by
    apply Classical.byContradiction; intro hn
    rw [thr_oob hn] at hr; cases hr
  refine worker_enabled ht (fun hx => ?_) hne
  have := L.strict t hx
  rw [hr] at this; cases this

/-- a worker carrying an unordered job can go on -/
theorem self_progress {s : St} (L : Live s) {t : Nat} (hw : 0 < wN s.thr[t]!) : enabled s (.worker t) := by
  rcases ((L.sh t).self hw).2 with hx | hx
  · refine worker_of_running L hx.2.1 (fun he => ?_)
    rcases hx.1 with h1 | h1 <;> simp [he, isTop] at h1
  · obtain ⟨c, hc⟩ := hx.1
    have ht : t < s.thr.size := by
      apply Classical.byContradiction; intro hn
      rw [thr_oob hn] at hc; cases hc
    exact worker_enabled ht (by simp [hc]) (by simp [hc])

/-- a started handler that has neither exited nor gone to sleep on its empty queue can go on, or the worker it waits for can -/
theorem handler_progress {s : St} (L : Live s) {c : Nat} (hc : c < s.cl.size) (h0 : s.cl[c]!.hstarted = true)
    (h1 : s.cl[c]!.hpc ≠ .deq true) (h3 : s.cl[c]!.hpc ≠ .exited) : ∃ w, enabled s w := by
  by_cases h2 : ∀ t, s.cl[c]!.hpc ≠ .waitRes t true
  · exact ⟨_, handler_enabled hc h0 h1 h2 h3⟩
  · have ⟨t, ht⟩ : ∃ t, s.cl[c]!.hpc = .waitRes t true := by
      apply Classical.byContradiction; intro hn
      exact h2 fun t hx => hn ⟨t, hx⟩
    obtain ⟨hq, hr⟩ := ((L.sh t).cl c).wait true ht
    have hrun := hr rfl
    refine ⟨.worker t, worker_of_running L hrun (fun he => ?_)⟩
    unfold SQ at hq
    split at hq
    · rcases hq.2 with hx | hx | hx
      · rcases hx.1 with h1 | h1 <;> simp [he, isTop] at h1
      · simp [he] at hx
      · simp [he, isTop] at hx
    · simp [SFin, he, isTop] at hq


theorem sumA_pos_exists {α : Type} [Inhabited α] (a : Array α) (f : α → Nat) (h : sumA a f ≠ 0) : ∃ c : Nat, f a[c]! ≠ 0 := by
  apply Classical.byContradiction; intro hn
  exact h (sumA_zero a f fun c => Classical.byContradiction fun hx => hn ⟨c, hx⟩)

theorem wN_pos {th : Thr} (h : wN th ≠ 0) : ∃ c, th.rq = some c ∨ th.pc = .selfEnq c := by
  cases hr : th.rq with
  | some c => exact ⟨c, Or.inl rfl⟩
  | none =>
    cases hp : th.pc with
    | selfEnq c => exact ⟨c, Or.inr rfl⟩
    | _ => simp [wN, hr, hp] at h

/-- a started caller that has not finished and is not asleep in threadpool_next can go on — or its handler can, or a worker
    carrying one of its results can -/
theorem client_progress {s : St} (L : Live s) {c : Nat} (hc : c < s.cl.size) (h1 : s.cl[c]!.pc ≠ .idle)
    (h2 : s.cl[c]!.pc ≠ .next true) (h3 : s.cl[c]!.pc ≠ .done) : ∃ w, enabled s w := by
  by_cases hj : s.cl[c]!.pc = .joinH → s.cl[c]!.hpc = .exited
  · exact ⟨_, client_enabled hc h1 h2 h3 hj⟩
  · have hp : s.cl[c]!.pc = .joinH := Classical.byContradiction fun hn => hj fun hx => absurd hx hn
    have he : s.cl[c]!.hpc ≠ .exited := fun hx => hj fun _ => hx
    have hC := L.cl c
    have hst := hC.hstart (by simp [hp, preH])
    by_cases hd : s.cl[c]!.hpc = .deq true
    · obtain ⟨hq, hnf⟩ := hC.deqSleep hd
      have hfin := hC.finFlag (by simp [hp, closing])
      have hnz : s.cl[c]!.nthreads ≠ 0 := fun hx => hnf ⟨hfin, hx⟩
      cases ho : s.ordered with
      | true =>
        have := hC.ordN ho
        rw [hq] at this; exact absurd this hnz
      | false =>
        have hn := (L.nord ho).n c
        unfold NOk at hn
        rw [hp, hq] at hn
        have hsum : sumA s.thr (wAny c) ≠ 0 := by
          intro hx; rw [hx] at hn; simp [pend] at hn; exact hnz hn
        obtain ⟨t, ht⟩ := sumA_pos_exists _ _ hsum
        have hw : 0 < wN s.thr[t]! := by
          simp only [wAny] at ht
          split at ht
          · rename_i hx
            rcases hx with hx | hx
            · simp only [wN, hx, Option.isSome_some, if_true]; omega
            · simp [wN, hx]
          · exact absurd rfl ht
        exact ⟨_, self_progress L hw⟩
    · exact handler_progress L hc hst hd he

/-- while the clients run: if a pool thread is anywhere but in the idle list, somebody can take a step -/
theorem places_progress {s : St} (L : Live s) (ho : ∃ i, s.opc = .joinC i) (hi : s.idle = []) (hT : 0 < T s) :
    ∃ w, enabled s w := by
  obtain ⟨i, ho⟩ := ho
  simp only [T, hi, ho, oHand_joinC, List.length_nil] at hT
  by_cases hw : sumA s.thr wN = 0
  · have hcl : sumA s.cl (plc s.ordered) ≠ 0 := by omega
    obtain ⟨c, hc⟩ := sumA_pos_exists _ _ hcl
    have hcs : c < s.cl.size := by
      apply Classical.byContradiction; intro hn
      rw [cl_oob _ _ hn] at hc
      have h1 : (default : Client).pc = .idle := rfl
      have h2 : (default : Client).hpc = .deq false := by decide
      have h3 : (default : Client).queue = [] := rfl
      simp [plc, clView, h1, h2, h3] at hc
    have hC := L.cl c
    have hE := L.ex c
    by_cases h1 : s.cl[c]!.pc = .idle
    · obtain ⟨a, b, _⟩ := hC.idleRec h1
      simp [plc, clView, h1, a, b] at hc
    by_cases h3 : s.cl[c]!.pc = .done
    · have b := hE.done h3
      have a := (hE.exq b).1
      simp [plc, clView, h3, a, b] at hc
    by_cases h2 : s.cl[c]!.pc = .next true
    · have hst := hC.hstart (by simp [h2, preH])
      have he : s.cl[c]!.hpc ≠ .exited := by
        intro hx
        have := hE.fin (hE.exq hx).2
        simp [h2, closing] at this
      by_cases hd : s.cl[c]!.hpc = .deq true
      · have a := (hC.deqSleep hd).1
        simp [plc, clView, h2, a, hd] at hc
      · exact handler_progress L hcs hst hd he
    exact client_progress L hcs h1 h2 h3
  · obtain ⟨t, ht⟩ := sumA_pos_exists _ _ hw
    exact ⟨_, self_progress L (Nat.pos_of_ne_zero ht)⟩

/-- NO DEADLOCK: in every reachable state in which the pool owner has not finished, some thread can take a step -/
theorem no_deadlock {n max njobs : Nat} {o : Bool} {s : St} (hr : Reachable n max njobs o s) (hn : 1 ≤ n) (hm : 1 ≤ max)
    (hd : s.opc ≠ .done) : ∃ w, (step s (.run w 0)).isSome = true := by
  have L := live_reachable hn hr
  have hpar := params_reachable hr
  show ∃ w, enabled s w
  cases ho : s.opc with
  | spawn i => exact ⟨.owner, by simp [enabled, step, stepOwner, ho]⟩
  | kill t => exact ⟨.owner, by simp [enabled, step, stepOwner, ho]⟩
  | done => exact absurd ho hd
  | destroy a =>
    cases a with
    | false =>
      refine ⟨.owner, ?_⟩
      simp only [enabled, step, stepOwner, ho]
      split
      · simp
      · split <;> simp
    | true =>
      exfalso
      obtain ⟨hi, hc⟩ := L.phs.destroySleep ho
      have hover := L.wk.over (by rw [ho]; rfl)
      have h1 : sumA s.cl (plc s.ordered) = 0 := by
        apply sumA_zero; intro c
        rcases hover c with hx | hx
        · have b := (L.ex c).done hx
          have a := ((L.ex c).exq b).1
          simp [plc, clView, hx, a, b]
        · obtain ⟨a, b, _⟩ := (L.cl c).idleRec hx
          simp [plc, clView, hx, a, b]
      have h2 : sumA s.thr wN = 0 := by
        apply sumA_zero; intro t
        apply Classical.byContradiction; intro hw
        obtain ⟨c, hx⟩ := wN_pos hw
        have hun := ((L.sh t).self (by omega)).1
        obtain ⟨hcs, hpre⟩ := L.wf2 t c hx
        have ht : t < s.thr.size := by
          apply Classical.byContradiction; intro hnn
          rw [thr_oob hnn] at hw; simp at hw
        rcases hover c with hp | hp
        · have b := (L.ex c).done hp
          have h0 := ((L.nord hun).ex c b).2
          have := sumA_eq_zero_term s.thr (wAny c) h0 t ht
          simp only [wAny] at this
          rw [if_pos hx] at this; cases this
        · simp [hp, preH] at hpre
      have := L.tot
      simp only [Tot, T, hi, ho, h1, h2, oHand_destroy, List.length_nil] at this
      exact hc this
  | joinW t =>
    by_cases he : s.thr[t]!.pc = .exited
    · exact ⟨.owner, by simp [enabled, step, stepOwner, ho, he]⟩
    · have hk := (L.sh t).joinW (by rw [ho])
      exact ⟨_, worker_of_running L hk.2.1 he⟩
  | joinC i =>
    have hi := L.phs.joinLt i ho
    by_cases hdone : s.cl[i]!.pc = .done
    · refine ⟨.owner, ?_⟩
      have : s.cl[i]? = some s.cl[i]! := by grind
      simp [enabled, step, stepOwner, ho, this, hdone]
    · have hstarted := L.phs.started (Or.inr ⟨i, ho⟩) i hi
      by_cases hsl : s.cl[i]!.pc = .next true
      · have hcm := L.phs.nextSleep i hsl
        by_cases hidle : s.idle = []
        · have ht := L.tot
          unfold Tot at ht
          exact places_progress L ⟨i, ho⟩ hidle (by rw [← ht, hcm, hpar.1]; omega)
        · obtain ⟨c, hp, _⟩ := (no_lost_wakeup hr ⟨i, hsl⟩).2 hidle
          have hcs : c < s.cl.size := by
            apply Classical.byContradiction; intro hnn
            rw [cl_oob _ _ hnn] at hp; cases hp
          exact ⟨_, client_enabled hcs (by simp [hp]) (by simp [hp]) (by simp [hp]) (by simp [hp])⟩
      · exact client_progress L hi hstarted hsl hdone

end TpK
