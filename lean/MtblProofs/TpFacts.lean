import MtblProofs.TpProofs
/-
  The race analysis of the one-client machine (MtblProofs/TpProofs.lean, Part 12) restated over the FACTS it uses instead of
  over the machine's invariant, so that it can be replayed on a client's view of the k-client machine
  (MtblProofs/TpKNoRace.lean).  Same case analysis, same access labels (`Tp.accesses`).
-/
namespace Tp

/-- the shapes with the loop-head sleep flag abstracted (the k-client invariant does not track it) -/
def SOrd' (th : Thr) : Prop :=
  th.rq = false ∧
  (((isTop th.pc = true ∨ th.pc = .gotJob) ∧ th.running = true ∧ th.cb ≠ none ∧ th.res = none) ∨
   (th.pc = .doneOrd ∧ th.running = true ∧ th.cb = none ∧ th.res ≠ none) ∨
   (isTop th.pc = true ∧ th.running = false ∧ th.cb = none ∧ th.res ≠ none))
def SQ' (ordered : Bool) (th : Thr) : Prop := if ordered then SOrd' th else SFin th

theorem racy_ch_of (s : St)
    (d1 : ∀ t rest t' rest', s.idle = t :: rest → s.queue = t' :: rest' → t ≠ t')
    (d3 : ∀ t rest, s.queue = t :: rest → cHand s.cpc s.ordered ≠ some t)
    (d4 : ∀ t rest, s.idle = t :: rest → hHand s.hpc ≠ some t)
    (d6 : ∀ t, cHand s.cpc s.ordered = some t → hHand s.hpc ≠ some t)
    (d7 : inDestroy s.cpc = true → s.hpc = .exited) :
    racy (accesses s .caller) (accesses s .handler) = false := by
  rcases hc : s.cpc with (_|_)|_|t|t|_|_|(_|_)|t|t|_ <;>
  rcases hh : s.hpc with (_|_)|⟨t', (_|_)⟩|⟨t', r⟩|r|_ <;>
  simp only [accesses, hc, hh, racy, List.any_nil] <;>
  first | rfl | skip
  all_goals (repeat' split)
  all_goals simp [acc, conflict]
  all_goals (simp only [hc, hh, cHand_assign, cHand_enqueue, hHand_giveBack, hHand_waitRes, inDestroy] at d3 d4 d6 d7)
  all_goals grind

theorem racy_cw_of (s : St) (t : Nat)
    (e1 : ∀ t' rest, s.idle = t' :: rest → SIdle s.thr[t']!)
    (e2 : ∀ t, s.cpc = .assign t → SIdle s.thr[t]!) (e3 : ∀ t, s.cpc = .kill t → SIdle s.thr[t]!) :
    racy (accesses s .caller) (accesses s (.worker t)) = false := by
  by_cases ht : t < s.thr.size
  case neg => rw [accesses_worker_oob s ht, racy_nil_right]
  rcases hc : s.cpc with (_|_)|_|t'|t'|_|_|(_|_)|t'|t'|_ <;>
  rcases hp : s.thr[t]!.pc with (_|_)|_|_|_|_ <;>
  simp only [accesses, hc, getElem?_thr s ht, Option.map_some, hp, racy, List.any_nil] <;>
  first | rfl | skip
  all_goals (repeat' split)
  all_goals simp [acc, conflict]
  all_goals (simp only [hc] at e2 e3)
  all_goals grind [SIdle, isTop_iff]

theorem racy_hw_of (s : St) (t : Nat)
    (e1 : ∀ t a, s.hpc = .waitRes t a → SQ' s.ordered s.thr[t]! ∧ (a = true → s.thr[t]!.running = true))
    (e2 : ∀ t r, s.hpc = .giveBack t r → SIdle s.thr[t]!) :
    racy (accesses s .handler) (accesses s (.worker t)) = false := by
  by_cases ht : t < s.thr.size
  case neg => rw [accesses_worker_oob s ht, racy_nil_right]
  rcases hh : s.hpc with (_|_)|⟨t', (_|_)⟩|⟨t', r⟩|r|_ <;>
  rcases hp : s.thr[t]!.pc with (_|_)|_|_|_|_ <;>
  simp only [accesses, hh, getElem?_thr s ht, Option.map_some, hp, racy, List.any_nil] <;>
  first | rfl | skip
  all_goals (repeat' split)
  all_goals simp [acc, conflict]
  all_goals (simp only [hh] at e1 e2)
  all_goals grind [SIdle, SQ', SOrd', SFin, isTop_iff, getElem?_thr]

end Tp
