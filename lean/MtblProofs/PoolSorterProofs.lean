import MtblProofs.SorterProofs
/-
  C13, sorter clause: "the sorter yields the same entries as without a pool".
  With a pool the chunk jobs complete in any order (unordered delivery): the `readers` vector the final merger is built
  from is SOME PERMUTATION of the chunks the sequential sorter would hold (every chunk exactly once: C13_complete; all of
  them before the merger is built: the join in mtbl_sorter_iter, C14_sorter_join_first).  For every such permutation the
  merged output has the properties C06_output states for the sequential order.
-/
namespace Mtbl
namespace SorterProofs
open MergerProofs (valuesOf_perm)

section
variable {c : SCfg} {f : Bytes → Bytes → Bytes → Option Bytes}
  (hsort : ∀ l, (c.sortFn l).Perm l ∧ Sorted (c.sortFn l)) (hm : c.merge = some f)
  (hok : ∀ k a b, f k a b ≠ none)
include hsort hm hok

omit hsort hm hok in
/-- permuting the finished chunks of a sorter that buffers nothing keeps the add-phase invariant, for a permutation of
    the adds -/
theorem accInv_perm_chunks {adds : List Entry} {s : Sorter} (hi : AccInv c f adds s) (_hv : s.vec = [])
    (cs' : List (List Entry)) (hp : cs'.Perm s.chunks) :
    ∃ adds', adds'.Perm adds ∧ AccInv c f adds' { s with chunks := cs' } := by
  obtain ⟨pairs, p1, p2, p3⟩ := hi.parts
  obtain ⟨pairs', q1, q2⟩ := perm_map_lift (fun p : List Entry × List Entry => p.2) hp.symm pairs p2.symm
  refine ⟨(pairs'.map (·.1)).flatten ++ s.vec, ?_, ?_⟩
  · rw [p3]
    exact List.Perm.append_right _ ((q1.map _).flatten)
  · exact ⟨hi.cfg, hi.notIter, hi.notAborted, hi.notFailed, by simp [hi.spills, hp.length_eq],
      pairs', fun p hp' => p1 p (q1.mem_iff.mp hp'), q2.symm, rfl⟩

/-- **the chunk readers in any completion order.** -/
theorem pooled_sorter_output (mc : MCfg) (hmm : mc.merge = some f) (hds : mc.dupsort = none) (hF2 : mc.fixF2 = true)
    (adds : List Entry) (fuel : Nat) (hfuel : adds.length + 1 ≤ fuel) :
    let r := Sorter.addAll { cfg := c } adds
    ∃ s1, (if r.2.vec.length > 0 then r.2.flush else (.success, r.2)) = (.success, s1) ∧
      ∀ cs' : List (List Entry), cs'.Perm s1.chunks →
        ∃ m, mergerIter mc cs' .iter [] = some m ∧
          StrictSorted (mergerDrain mc fuel m) ∧
          (∀ k, (∃ e ∈ mergerDrain mc fuel m, e.key = k) ↔ (∃ e ∈ adds, e.key = k)) ∧
          ∀ e ∈ mergerDrain mc fuel m, Folded f e.key (valuesOf e.key adds) e.val := by
  intro r
  obtain ⟨_, h2⟩ := accInv_addAll hsort hm hok adds (accInv_fresh c f)
  rw [List.nil_append] at h2
  obtain ⟨s1, hr, hi1, hv1⟩ := accInv_finalFlush hsort hm hok h2
  refine ⟨s1, hr, fun cs' hp => ?_⟩
  obtain ⟨adds', ha, hi'⟩ := accInv_perm_chunks hi1 hv1 cs' hp
  obtain ⟨m, g1, _, _, _, _, g5, g6, g7⟩ := accInv_iter hsort hm hok hi' mc hmm hds hF2 fuel
    (by rw [ha.length_eq]; exact hfuel)
  have hiter : ({ s1 with chunks := cs' } : Sorter).iter mc = (mergerIter mc cs' .iter [], { s1 with chunks := cs', iterating := true }) := by
    unfold Sorter.iter
    simp [hv1]
  rw [hiter] at g1
  refine ⟨m, g1, g5, ?_, ?_⟩
  · intro k; rw [g6 k]; exact perm_keys ha k
  · intro e he
    exact Folded.perm (g7 e he) (valuesOf_perm e.key ha).symm

end
end SorterProofs
end Mtbl
