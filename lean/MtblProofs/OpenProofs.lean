import MtblModel.Reader
/-
  C19 — `mtbl_reader_init_fd` (repaired: index length checked against the file size) never loads
  outside the file, whatever the bytes are; F9 — the pinned code does, on a 530-byte witness.
-/
namespace Mtbl
namespace OpenProofs

theorem rdAt_some_of_le (file : Bytes) (off len : Nat) (h : off + len ≤ file.length) :
    rdAt file off len = some ((file.drop off).take len) := by
  unfold rdAt; simp [h]

theorem rdAt_eq_some (file : Bytes) (off len : Nat) (b : Bytes) (h : rdAt file off len = some b) :
    off + len ≤ file.length ∧ b = (file.drop off).take len := by
  unfold rdAt at h
  split at h
  · injection h with h; exact ⟨by assumption, h.symm⟩
  · cases h

theorem rdAt_none (file : Bytes) (off len : Nat) (h : rdAt file off len = none) :
    file.length < off + len := by
  unfold rdAt at h
  split at h
  · cases h
  · omega

theorem dec32_lt (d : Bytes) : dec32 d < U32 := by
  unfold dec32 U32
  split
  · next a b c e _ =>
    have := a.toNat_lt; have := b.toNat_lt; have := c.toNat_lt; have := e.toNat_lt
    omega
  · omega

theorem dec64_lt (d : Bytes) : dec64 d < U64 := by
  unfold dec64 U64
  have h1 := dec32_lt d
  have h2 := dec32_lt (d.drop 4)
  unfold U32 at h1 h2
  omega

theorem Meta.read_io_lt (buf : Bytes) (m : Meta) (h : Meta.read buf = some m) :
    m.indexBlockOffset < U64 := by
  unfold Meta.read at h
  simp only at h
  split at h
  · cases h
  · injection h with h; subst h; exact dec64_lt buf

/-- The `end` test of reader.c does what its comment says, for files of any size: when it passes,
    the sum did not wrap and the minimal block plus the trailer fit behind `index_block_offset`. -/
theorem end_test_sound (io minBlk n : Nat) (hio : io < U64) (hmb : minBlk ≤ 16)
    (h : ¬ ((io + METADATA_SIZE + minBlk) % U64 > n ∨ (io + METADATA_SIZE + minBlk) % U64 < io)) :
    io + METADATA_SIZE + minBlk ≤ n := by
  unfold METADATA_SIZE U64 at *
  omega

theorem blockInit_data (thr : Nat) (d : Bytes) (b : Blk) (h : blockInit thr d = some b) :
    b.data = d := by
  unfold blockInit at h
  simp only at h
  split at h
  · injection h with h; subst h; rfl
  · split at h
    · cases h
    · injection h with h; subst h; rfl

/-- the part of `readerOpen` behind the length check: checksum, then block_init -/
def openTail (thr : Nat) (decomp : Nat → Bytes → Option Bytes) (verify : Bool) (file : Bytes)
    (m : Meta) (io ilen ill : Nat) : OpenRes :=
  let n := file.length
  let idx := io + ill + 4
  let crcStep : Option OpenRes :=
    if verify then
      match rdAt file idx ilen with
      | none => some (.oob n)
      | some body =>
        if dec32 (file.drop (io + ill)) = crc32c body then none else some (.abort "index crc")
    else none
  match crcStep with
  | some r => r
  | none =>
    if ilen < 4 then
      .ok { data := file, m, verify, thr, decomp, index := { data := [], size := 0, restartOffset := 0, thr } }
    else if ilen < 8 then .abort "num_restarts size"
    else match rdAt file idx ilen with
      | none => .oob n
      | some body =>
        match blockInit thr body with
        | none => .abort "num_restarts size"
        | some b => .ok { data := file, m, verify, thr, decomp, index := b }

/-- the index length prefix as `readerOpen` decodes it -/
def openPrefix (file : Bytes) (m : Meta) : Nat × Nat :=
  if m.version = .v1 then (dec32 (file.drop m.indexBlockOffset), 4)
  else vdecode64 ((file.drop m.indexBlockOffset).take 10)

/-- `readerOpen`, restated with the tail factored out -/
theorem readerOpen_eq (fixF9 : Bool) (thr : Nat) (decomp : Nat → Bytes → Option Bytes)
    (verify : Bool) (file : Bytes) :
    readerOpen fixF9 thr decomp verify file =
      (let n := file.length
       if n < METADATA_SIZE then .null else
       match Meta.read (file.drop (n - METADATA_SIZE)) with
       | none => .null
       | some m =>
         let minBlk := if m.version = .v1 then 16 else 13
         let end_ := (m.indexBlockOffset + METADATA_SIZE + minBlk) % U64
         if end_ > n ∨ end_ < m.indexBlockOffset then .null else
         let io := m.indexBlockOffset
         let p := openPrefix file m
         let avail := n - METADATA_SIZE - io
         if fixF9 ∧ (p.2 + 4 > avail ∨ p.1 > avail - p.2 - 4) then .null else
         openTail thr decomp verify file m io p.1 p.2) := by
  unfold readerOpen openTail openPrefix
  simp only
  split
  · rfl
  · generalize Meta.read _ = om
    cases om with
    | none => rfl
    | some m =>
      simp only
      by_cases hv : m.version = .v1
      · simp only [hv, if_true]; rfl
      · simp only [hv, if_false]; rfl

/-- what the tail can do when the index body lies inside the file -/
theorem openTail_cases (thr : Nat) (decomp : Nat → Bytes → Option Bytes) (verify : Bool)
    (file : Bytes) (m : Meta) (io ilen ill : Nat) (h : io + ill + 4 + ilen ≤ file.length) :
    (∃ w, openTail thr decomp verify file m io ilen ill = .abort w) ∨
    (openTail thr decomp verify file m io ilen ill =
        .ok { data := file, m, verify, thr, decomp,
              index := { data := [], size := 0, restartOffset := 0, thr } }) ∨
    (∃ b, blockInit thr ((file.drop (io + ill + 4)).take ilen) = some b ∧
        openTail thr decomp verify file m io ilen ill =
          .ok { data := file, m, verify, thr, decomp, index := b }) := by
  unfold openTail
  simp only [rdAt_some_of_le file _ _ h]
  split
  · next r hr =>
    split at hr
    · split at hr
      · cases hr
      · injection hr with hr; subst hr; exact Or.inl ⟨_, rfl⟩
    · cases hr
  · split
    · exact Or.inr (Or.inl rfl)
    · split
      · exact Or.inl ⟨_, rfl⟩
      · split
        · exact Or.inl ⟨_, rfl⟩
        · next b hb => exact Or.inr (Or.inr ⟨b, hb, rfl⟩)

/-- the repaired open either returns NULL or runs the tail on an index body that lies between
    `index_block_offset` and the trailer; moreover the `end` test really left room for the
    length prefix and the checksum (13 bytes) in front of the trailer. -/
theorem readerOpen_fixed_cases (thr : Nat) (decomp : Nat → Bytes → Option Bytes) (verify : Bool)
    (file : Bytes) :
    readerOpen true thr decomp verify file = .null ∨
    ∃ m ilen ill,
      Meta.read (file.drop (file.length - METADATA_SIZE)) = some m ∧
      m.indexBlockOffset + METADATA_SIZE + 13 ≤ file.length ∧
      m.indexBlockOffset + ill + 4 + ilen ≤ file.length - METADATA_SIZE ∧
      readerOpen true thr decomp verify file
        = openTail thr decomp verify file m m.indexBlockOffset ilen ill := by
  rw [readerOpen_eq]
  simp only
  by_cases hn : file.length < METADATA_SIZE
  · rw [if_pos hn]; exact Or.inl rfl
  rw [if_neg hn]
  cases hm : Meta.read (file.drop (file.length - METADATA_SIZE)) with
  | none => exact Or.inl rfl
  | some m =>
    simp only
    generalize hmb : (if m.version = .v1 then 16 else 13 : Nat) = minBlk
    have hmb1 : 13 ≤ minBlk ∧ minBlk ≤ 16 := by subst hmb; split <;> omega
    by_cases hend : (m.indexBlockOffset + METADATA_SIZE + minBlk) % U64 > file.length ∨
        (m.indexBlockOffset + METADATA_SIZE + minBlk) % U64 < m.indexBlockOffset
    · rw [if_pos hend]; exact Or.inl rfl
    rw [if_neg hend]
    have hio := Meta.read_io_lt _ _ hm
    have hroom := end_test_sound m.indexBlockOffset minBlk file.length hio hmb1.2 hend
    split
    · exact Or.inl rfl
    · next hg =>
      refine Or.inr ⟨m, _, _, rfl, ?_, ?_, rfl⟩
      · omega
      · simp only [true_and] at hg
        omega

/-- the three shapes of a non-NULL result of the repaired open -/
theorem readerOpen_fixed_shapes (thr : Nat) (decomp : Nat → Bytes → Option Bytes) (verify : Bool)
    (file : Bytes) :
    readerOpen true thr decomp verify file = .null ∨
    (∃ w, readerOpen true thr decomp verify file = .abort w) ∨
    (∃ m, readerOpen true thr decomp verify file =
        .ok { data := file, m, verify, thr, decomp,
              index := { data := [], size := 0, restartOffset := 0, thr } }) ∨
    (∃ m off len b, off + len ≤ file.length - METADATA_SIZE ∧
        blockInit thr ((file.drop off).take len) = some b ∧
        readerOpen true thr decomp verify file =
          .ok { data := file, m, verify, thr, decomp, index := b }) := by
  rcases readerOpen_fixed_cases thr decomp verify file with h | ⟨m, ilen, ill, _, _, hin, h⟩
  · exact Or.inl h
  · rw [h]
    rcases openTail_cases thr decomp verify file m m.indexBlockOffset ilen ill (by omega) with
      ⟨w, hw⟩ | he | ⟨b, hb, hk⟩
    · exact Or.inr (Or.inl ⟨w, hw⟩)
    · exact Or.inr (Or.inr (Or.inl ⟨m, he⟩))
    · exact Or.inr (Or.inr (Or.inr ⟨m, _, _, b, hin, hb, hk⟩))

/-- a decidable fingerprint of an outcome (`OpenRes` carries functions, so has no `DecidableEq`) -/
def tag : OpenRes → Nat × Nat
  | .null => (0, 0)
  | .abort _ => (1, 0)
  | .oob off => (2, off)
  | .ok _ => (3, 0)

theorem eq_null_of_tag (x : OpenRes) (h : tag x = (0, 0)) : x = .null := by
  cases x <;> simp [tag] at h ⊢

theorem eq_oob_of_tag (x : OpenRes) (off : Nat) (h : tag x = (2, off)) : x = .oob off := by
  cases x <;> simp [tag] at h ⊢
  exact h

end OpenProofs

open OpenProofs

/-- C19 (memory safety of open): on arbitrary bytes, with or without checksum verification, the
    repaired `mtbl_reader_init_fd` never loads outside the file. -/
theorem C19_safe (thr : Nat) (decomp : Nat → Bytes → Option Bytes) (verify : Bool) (file : Bytes) :
    ∀ off, readerOpen true thr decomp verify file ≠ .oob off := by
  intro off h
  rcases readerOpen_fixed_shapes thr decomp verify file with
    h' | ⟨_, h'⟩ | ⟨_, h'⟩ | ⟨_, _, _, _, _, _, h'⟩ <;> rw [h'] at h <;> cases h

/-- C19: the only outcomes are NULL, an assertion, or a reader. -/
theorem C19_outcomes (thr : Nat) (decomp : Nat → Bytes → Option Bytes) (verify : Bool)
    (file : Bytes) :
    readerOpen true thr decomp verify file = .null ∨
    (∃ w, readerOpen true thr decomp verify file = .abort w) ∨
    (∃ r, readerOpen true thr decomp verify file = .ok r) := by
  rcases readerOpen_fixed_shapes thr decomp verify file with
    h' | ⟨w, h'⟩ | ⟨_, h'⟩ | ⟨_, _, _, _, _, _, h'⟩
  · exact Or.inl h'
  · exact Or.inr (Or.inl ⟨w, h'⟩)
  · exact Or.inr (Or.inr ⟨_, h'⟩)
  · exact Or.inr (Or.inr ⟨_, h'⟩)

/-- C19: the index block handed to the iterators is a slice of the file in front of the trailer
    (or the invalid empty block that block_init makes of a length below 4). -/
theorem C19_ok_index_inside (thr : Nat) (decomp : Nat → Bytes → Option Bytes) (verify : Bool)
    (file : Bytes) (r : Rd) (h : readerOpen true thr decomp verify file = .ok r) :
    r.data = file ∧
    (r.index.size = 0 ∨
      ∃ off, off + r.index.data.length ≤ file.length - METADATA_SIZE ∧
        r.index.data = (file.drop off).take r.index.data.length) := by
  rcases readerOpen_fixed_shapes thr decomp verify file with
    h' | ⟨w, h'⟩ | ⟨_, h'⟩ | ⟨m, off, len, b, hin, hb, h'⟩ <;> rw [h'] at h
  · cases h
  · cases h
  · injection h with h; subst h; exact ⟨rfl, Or.inl rfl⟩
  · injection h with h; subst h
    refine ⟨rfl, Or.inr ⟨off, ?_⟩⟩
    have hd := blockInit_data _ _ _ hb
    have hl : ((file.drop off).take len).length = len := by
      simp only [List.length_take, List.length_drop]; omega
    simp only [hd, hl]
    exact ⟨hin, trivial⟩

/-- The loads the model does not check individually (the index length prefix: at most 10 varint
    bytes or 4 fixed bytes at `index_block_offset`, and the 4 checksum bytes when the prefix is
    short) are covered by the `end` test of the pinned code, for files of any size: whenever open
    does not return NULL, the trailer parsed and 13 bytes (16 for v1) at `index_block_offset` lie
    in front of it.  The unsigned wrap-around of `end` is handled (`end_test_sound`). -/
theorem C19_prefix_inside (fixF9 : Bool) (thr : Nat) (decomp : Nat → Bytes → Option Bytes)
    (verify : Bool) (file : Bytes) (h : readerOpen fixF9 thr decomp verify file ≠ .null) :
    ∃ m, Meta.read (file.drop (file.length - METADATA_SIZE)) = some m ∧
      m.indexBlockOffset + (if m.version = .v1 then 16 else 13) ≤ file.length - METADATA_SIZE := by
  rw [readerOpen_eq] at h
  simp only at h
  by_cases hn : file.length < METADATA_SIZE
  · rw [if_pos hn] at h; exact absurd rfl h
  rw [if_neg hn] at h
  cases hm : Meta.read (file.drop (file.length - METADATA_SIZE)) with
  | none => rw [hm] at h; exact absurd rfl h
  | some m =>
    rw [hm] at h
    simp only at h
    refine ⟨m, rfl, ?_⟩
    have hmb : (if m.version = .v1 then 16 else 13 : Nat) ≤ 16 := by split <;> omega
    generalize (if m.version = .v1 then 16 else 13 : Nat) = minBlk at h hmb ⊢
    by_cases hend : (m.indexBlockOffset + METADATA_SIZE + minBlk) % U64 > file.length ∨
        (m.indexBlockOffset + METADATA_SIZE + minBlk) % U64 < m.indexBlockOffset
    · rw [if_pos hend] at h; exact absurd rfl h
    · have hio := Meta.read_io_lt _ _ hm
      have := end_test_sound _ _ _ hio hmb hend
      omega

/-! ### F9 — the pinned code reads outside the file -/

/-- A 529-byte file with a well-formed v2 trailer whose index frame announces 4294967295 bytes. -/
def f9File : Bytes :=
  [0x64, 0x61, 0x74, 0x61] ++                 -- 4 bytes in front of the index frame
  [0xff, 0xff, 0xff, 0xff, 0x0f] ++           -- varint index length = 4294967295
  [0, 0, 0, 0] ++                             -- checksum field
  [0, 0, 0, 0] ++                             -- the only four bytes of index data that exist
  fixed64 4 ++ List.replicate 500 0 ++ fixed32 MAGIC_V2   -- trailer: index_block_offset = 4, v2 magic

theorem f9File_length : f9File.length = 529 := by decide +kernel

/-- the trailer is accepted by metadata_read; it is what `Meta.write` produces for offset 4 -/
theorem f9File_meta :
    Meta.read (f9File.drop (f9File.length - METADATA_SIZE)) = some { indexBlockOffset := 4 } ∧
    f9File.drop (f9File.length - METADATA_SIZE) = Meta.write { indexBlockOffset := 4 } := by
  decide +kernel

/-- the length prefix decodes to (4294967295, 5) -/
theorem f9File_prefix : vdecode64 ((f9File.drop 4).take 10) = (4294967295, 5) := by decide +kernel

/-- F9: the pinned `mtbl_reader_init_fd` passes all its checks and block_init then loads
    `num_restarts` from offset 4 + 5 + 4 + 4294967295 - 4, far behind the 529 bytes of the file. -/
theorem F9_witness_at :
    readerOpen false 4294967295 (fun _ _ => none) false f9File = .oob 529 :=
  eq_oob_of_tag _ _ (by decide +kernel)

theorem F9_witness :
    ∃ off, readerOpen false 4294967295 (fun _ _ => none) false f9File = .oob off :=
  ⟨529, F9_witness_at⟩

/-- with the length check the same file is rejected -/
theorem F9_fixed : readerOpen true 4294967295 (fun _ _ => none) false f9File = .null :=
  eq_null_of_tag _ (by decide +kernel)

/-- the same with checksum verification switched on (the crc loop is the first to run off the file) -/
theorem F9_witness_verify :
    readerOpen false 4294967295 (fun _ _ => none) true f9File = .oob 529 :=
  eq_oob_of_tag _ _ (by decide +kernel)

theorem F9_fixed_verify : readerOpen true 4294967295 (fun _ _ => none) true f9File = .null :=
  eq_null_of_tag _ (by decide +kernel)

end Mtbl
