import MtblProofs.TpKProofs
/-
  The k-client pool machine: what a worker thread's record looks like in each place (the per-thread hand-over protocol), for
  any number of clients.  Together with exclusive hand-out (`Excl`) this is the invariant the race analysis of the k-client
  machine rests on (MtblProofs/TpKNoRace.lean).
-/
set_option linter.unusedSimpArgs false
namespace TpK

def isTop : WPc → Bool | .top _ => true | _ => false

/-! ### shapes of a thread record -/
def SIdle (th : Thr) : Prop :=
  isTop th.pc = true ∧ th.running = false ∧ th.cb = none ∧ th.res = none ∧ th.rq = none
/-- ordered dispatch (in the caller's hand at `enqueue`, in a queue or in a handler's hand) -/
def SOrd (th : Thr) : Prop :=
  th.rq = none ∧
  (((isTop th.pc = true ∨ th.pc = .gotJob) ∧ th.running = true ∧ th.cb ≠ none ∧ th.res = none) ∨
   (th.pc = .doneOrd ∧ th.running = true ∧ th.cb = none ∧ th.res ≠ none) ∨
   (isTop th.pc = true ∧ th.running = false ∧ th.cb = none ∧ th.res ≠ none))
/-- result ready -/
def SFin (th : Thr) : Prop :=
  isTop th.pc = true ∧ th.running = false ∧ th.cb = none ∧ th.res ≠ none ∧ th.rq = none
/-- unordered dispatch, not yet queued -/
def SWork (th : Thr) : Prop :=
  ((isTop th.pc = true ∨ th.pc = .gotJob) ∧ th.running = true ∧ th.cb ≠ none ∧ th.res = none ∧ th.rq ≠ none) ∨
  ((∃ c, th.pc = .selfEnq c) ∧ th.running = false ∧ th.cb = none ∧ th.res ≠ none ∧ th.rq = none)
/-- told to exit -/
def SKill (th : Thr) : Prop :=
  (isTop th.pc = true ∨ th.pc = .gotJob ∨ th.pc = .exited) ∧ th.running = true ∧ th.cb = none ∧ th.res = none ∧ th.rq = none
def SQ (ordered : Bool) (th : Thr) : Prop := if ordered then SOrd th else SFin th

/-- what client `cl` requires of thread t's record `th` -/
structure ClGood (o : Bool) (cl : Client) (t : Nat) (th : Thr) : Prop where
  assign : cl.pc = .assign t → SIdle th
  enq : cl.pc = .enqueue t → o = true → SOrd th
  queue : t ∈ cl.queue → SQ o th
  wait : ∀ a, cl.hpc = .waitRes t a → SQ o th ∧ (a = true → th.running = true)
  give : ∀ r, cl.hpc = .giveBack t r → SIdle th

/-- what the whole state requires of thread t's record `th` -/
structure Good (o : Bool) (idl : List Nat) (opc : OPc) (cls : Array Client) (t : Nat) (th : Thr) : Prop where
  idle : t ∈ idl → SIdle th
  cl : ∀ c : Nat, ClGood o cls[c]! t th
  kill : opc = .kill t → SIdle th
  joinW : opc = .joinW t → SKill th
  self : 0 < wN th → o = false ∧ SWork th

def Sh (s : St) : Prop := ∀ t, Good s.ordered s.idle s.opc s.cl t s.thr[t]!

/-! ### shapes of particular records -/
theorem SIdle_new : SIdle ({} : Thr) := by simp [SIdle, isTop]
theorem SIdle_default : SIdle (default : Thr) := ⟨rfl, rfl, rfl, rfl, rfl⟩

theorem ClGood_default (o : Bool) (t : Nat) (th : Thr) : ClGood o (default : Client) t th := by
  have h1 : (default : Client).pc = .idle := rfl
  have h2 : (default : Client).queue = [] := rfl
  have h3 : (default : Client).hpc = .deq false := by decide
  exact ⟨by simp [h1], by simp [h1], by simp [h2], by simp [h3], by simp [h3]⟩

theorem ClGood_new (o : Bool) (t : Nat) (th : Thr) : ClGood o ({} : Client) t th :=
  ⟨by simp, by simp, by simp, by simp, by simp⟩

/-- if every shape the old record had is kept by the new one, the new record is good wherever the old one was -/
theorem Good.mono {o : Bool} {idle : List Nat} {opc : OPc} {cl : Array Client} {t : Nat} {th th' : Thr}
    (h : Good o idle opc cl t th)
    (hI : SIdle th → SIdle th') (hO : SOrd th → SOrd th') (hF : SFin th → SFin th') (hW : SWork th → SWork th')
    (hK : SKill th → SKill th') (hr : th.running = true → th'.running = true) (hn : 0 < wN th' → 0 < wN th) :
    Good o idle opc cl t th' := by
  have hQ : SQ o th → SQ o th' := by unfold SQ; split <;> assumption
  exact ⟨fun m => hI (h.idle m),
    fun c => ⟨fun e => hI ((h.cl c).assign e), fun e e2 => hO ((h.cl c).enq e e2), fun m => hQ ((h.cl c).queue m),
      fun a e => ⟨hQ ((h.cl c).wait a e).1, fun ha => hr (((h.cl c).wait a e).2 ha)⟩, fun r e => hI ((h.cl c).give r e)⟩,
    fun e => hI (h.kill e), fun e => hK (h.joinW e), fun p => ⟨(h.self (hn p)).1, hW (h.self (hn p)).2⟩⟩

/-- waking a thread that sleeps at its loop head keeps every shape -/
def wakeW (th : Thr) : Thr := match th.pc with | .top true => { th with pc := .top false } | _ => th

theorem wakeW_spec (th : Thr) :
    (wakeW th).running = th.running ∧ (wakeW th).cb = th.cb ∧ (wakeW th).res = th.res ∧ (wakeW th).rq = th.rq ∧
    (wakeW th).pc = (if th.pc = .top true then .top false else th.pc) := by
  unfold wakeW
  split
  · rename_i h; simp [h]
  · rename_i h
    refine ⟨rfl, rfl, rfl, rfl, ?_⟩
    rw [if_neg]
    intro h2
    exact h h2


theorem isTop_wake (th : Thr) : isTop (wakeW th).pc = isTop th.pc := by
  rw [(wakeW_spec th).2.2.2.2]; split
  · rename_i h; simp [h, isTop]
  · rfl

theorem wake_pc_of_ne (th : Thr) (p : WPc) (h : th.pc = p) (hp : p ≠ .top true) : (wakeW th).pc = p := by
  rw [(wakeW_spec th).2.2.2.2, if_neg (by rw [h]; exact hp), h]

theorem wN_wake (th : Thr) : wN (wakeW th) = wN th := by
  obtain ⟨_, _, _, h4, h5⟩ := wakeW_spec th
  simp only [wN, h4, h5]
  by_cases h : th.pc = .top true
  · simp [h]
  · rw [if_neg h]

theorem SIdle.wake {th : Thr} (h : SIdle th) : SIdle (wakeW th) := by
  obtain ⟨h1, h2, h3, h4, _⟩ := wakeW_spec th
  exact ⟨by rw [isTop_wake]; exact h.1, by rw [h1]; exact h.2.1, by rw [h2]; exact h.2.2.1, by rw [h3]; exact h.2.2.2.1,
    by rw [h4]; exact h.2.2.2.2⟩
theorem SFin.wake {th : Thr} (h : SFin th) : SFin (wakeW th) := by
  obtain ⟨h1, h2, h3, h4, _⟩ := wakeW_spec th
  exact ⟨by rw [isTop_wake]; exact h.1, by rw [h1]; exact h.2.1, by rw [h2]; exact h.2.2.1, by rw [h3]; exact h.2.2.2.1,
    by rw [h4]; exact h.2.2.2.2⟩
theorem SOrd.wake {th : Thr} (h : SOrd th) : SOrd (wakeW th) := by
  obtain ⟨h1, h2, h3, h4, _⟩ := wakeW_spec th
  refine ⟨by rw [h4]; exact h.1, ?_⟩
  rcases h.2 with ⟨hp, a, b, c⟩ | ⟨hp, a, b, c⟩ | ⟨hp, a, b, c⟩
  · left
    refine ⟨?_, by rw [h1]; exact a, by rw [h2]; exact b, by rw [h3]; exact c⟩
    rcases hp with hp | hp
    · left; rw [isTop_wake]; exact hp
    · right; exact wake_pc_of_ne th _ hp (by simp)
  · right; left
    exact ⟨wake_pc_of_ne th _ hp (by simp), by rw [h1]; exact a, by rw [h2]; exact b, by rw [h3]; exact c⟩
  · right; right
    exact ⟨by rw [isTop_wake]; exact hp, by rw [h1]; exact a, by rw [h2]; exact b, by rw [h3]; exact c⟩
theorem SWork.wake {th : Thr} (h : SWork th) : SWork (wakeW th) := by
  obtain ⟨h1, h2, h3, h4, _⟩ := wakeW_spec th
  rcases h with ⟨hp, a, b, c, d⟩ | ⟨⟨c0, hp⟩, a, b, c, d⟩
  · left
    refine ⟨?_, by rw [h1]; exact a, by rw [h2]; exact b, by rw [h3]; exact c, by rw [h4]; exact d⟩
    rcases hp with hp | hp
    · left; rw [isTop_wake]; exact hp
    · right; exact wake_pc_of_ne th _ hp (by simp)
  · right
    exact ⟨⟨c0, wake_pc_of_ne th _ hp (by simp)⟩, by rw [h1]; exact a, by rw [h2]; exact b, by rw [h3]; exact c,
      by rw [h4]; exact d⟩
theorem SKill.wake {th : Thr} (h : SKill th) : SKill (wakeW th) := by
  obtain ⟨h1, h2, h3, h4, _⟩ := wakeW_spec th
  refine ⟨?_, by rw [h1]; exact h.2.1, by rw [h2]; exact h.2.2.1, by rw [h3]; exact h.2.2.2.1, by rw [h4]; exact h.2.2.2.2⟩
  rcases h.1 with hp | hp | hp
  · left; rw [isTop_wake]; exact hp
  · right; left; exact wake_pc_of_ne th _ hp (by simp)
  · right; right; exact wake_pc_of_ne th _ hp (by simp)

theorem Good.wake {o : Bool} {idle : List Nat} {opc : OPc} {cl : Array Client} {t : Nat} {th : Thr}
    (h : Good o idle opc cl t th) : Good o idle opc cl t (wakeW th) :=
  h.mono SIdle.wake SOrd.wake SFin.wake SWork.wake SKill.wake (by rw [(wakeW_spec th).1]; exact id)
    (by rw [wN_wake]; exact id)

/-! ### client records -/
theorem ClGood.wakeH {o : Bool} {cl : Client} {u : Nat} {th : Thr} (t : Nat) (h : ClGood o cl u th) :
    ClGood o (TpK.wakeH t cl) u th := by
  refine ⟨by rw [wakeH_pc]; exact h.assign, by rw [wakeH_pc]; exact h.enq, by rw [wakeH_queue]; exact h.queue, ?_, ?_⟩
  · intro a e
    unfold TpK.wakeH at e
    split at e
    · rename_i t' hh
      split at e
      · rename_i ht
        simp only at e
        injection e with e1 e2
        subst e1 e2
        exact ⟨(h.wait true (by rw [hh, ht])).1, by simp⟩
      · exact h.wait a e
    · exact h.wait a e
  · intro r e
    unfold TpK.wakeH at e
    split at e
    · rename_i t' hh
      split at e
      · simp at e
      · exact h.give r e
    · exact h.give r e

theorem get_map {α : Type} [Inhabited α] (a : Array α) (f : α → α) (c : Nat) :
    (a.map f)[c]! = if c < a.size then f a[c]! else default := by
  grind

theorem clGood_map_wakeH {o : Bool} {cls : Array Client} {u : Nat} {th : Thr} (t : Nat)
    (h : ∀ c : Nat, ClGood o cls[c]! u th) : ∀ c : Nat, ClGood o (cls.map (TpK.wakeH t))[c]! u th := by
  intro c
  rw [get_map]
  split
  · exact (h c).wakeH t
  · exact ClGood_default o u th

theorem clGood_modify {o : Bool} {cls : Array Client} {u : Nat} {th : Thr} (c0 : Nat) (f : Client → Client)
    (h : ∀ c : Nat, ClGood o cls[c]! u th) (hf : ClGood o (f cls[c0]!) u th) :
    ∀ c : Nat, ClGood o (cls.modify c0 f)[c]! u th := by
  intro c
  rw [get_modify]
  split
  · rename_i hc; rw [hc.1]; exact hf
  · exact h c

/-! ### state transformers that keep the shapes -/
theorem sh_setCl {s : St} (c : Nat) (f : Client → Client) (h : Sh s)
    (hf : ∀ u, ClGood s.ordered (f s.cl[c]!) u s.thr[u]!) : Sh (setCl s c f) := by
  intro u
  have hu := h u
  exact ⟨hu.idle, clGood_modify c f hu.cl (hf u), hu.kill, hu.joinW, hu.self⟩

theorem sh_signalRq {s : St} (c : Nat) (h : Sh s) : Sh (signalRq s c) := by
  unfold signalRq
  apply sh_setCl _ _ h
  intro u
  have hc := (h u).cl c
  split
  · rename_i hh
    exact ⟨hc.assign, hc.enq, hc.queue, by simp, by simp⟩
  · exact hc

theorem sh_signalPool {s : St} (k : Nat) (h : Sh s) : Sh (signalPool s k) := by
  unfold signalPool
  split
  · rename_i ho
    intro u
    have hu := h u
    exact ⟨hu.idle, hu.cl, by simp, by simp, hu.self⟩
  · dsimp only
    split
    · exact h
    · apply sh_setCl _ _ h
      intro u
      have hc := (h u).cl ((poolSleepers s)[k % (poolSleepers s).length]!)
      exact ⟨by simp, by simp, hc.queue, hc.wait, hc.give⟩

theorem thr_signalThr (s : St) (t u : Nat) :
    (signalThr s t).thr[u]! = if u = t ∧ t < s.thr.size then wakeW s.thr[u]! else s.thr[u]! := by
  show (s.thr.modify t _)[u]! = _
  rw [get_modify]; rfl

theorem sh_signalThr {s : St} (t : Nat) (h : Sh s) : Sh (signalThr s t) := by
  intro u
  have hu := h u
  have h1 := thr_signalThr s t u
  have h2 : (signalThr s t).cl = s.cl.map (TpK.wakeH t) := rfl
  rw [h1, h2]
  show Good s.ordered s.idle s.opc _ u _
  split
  · exact ⟨hu.wake.idle, clGood_map_wakeH t hu.wake.cl, hu.wake.kill, hu.wake.joinW, hu.wake.self⟩
  · exact ⟨hu.idle, clGood_map_wakeH t hu.cl, hu.kill, hu.joinW, hu.self⟩

/-- a worker's own step: the new record keeps every shape the old one had -/
theorem sh_setThr_mono {s : St} (t : Nat) (g : Thr → Thr) (h : Sh s)
    (hI : SIdle s.thr[t]! → SIdle (g s.thr[t]!)) (hO : SOrd s.thr[t]! → SOrd (g s.thr[t]!))
    (hF : SFin s.thr[t]! → SFin (g s.thr[t]!)) (hW : SWork s.thr[t]! → SWork (g s.thr[t]!))
    (hK : SKill s.thr[t]! → SKill (g s.thr[t]!)) (hr : s.thr[t]!.running = true → (g s.thr[t]!).running = true)
    (hn : 0 < wN (g s.thr[t]!) → 0 < wN s.thr[t]!) : Sh (setThr s t g) := by
  intro u
  have hu := h u
  show Good s.ordered s.idle s.opc s.cl u (s.thr.modify t g)[u]!
  rw [get_modify]
  split
  · rename_i hc; rw [hc.1] at hu ⊢
    exact hu.mono hI hO hF hW hK hr hn
  · exact hu


/-! ### places -/
theorem mem_view_assign {o : Bool} {cl : Client} {t : Nat} (h : cl.pc = .assign t) : t ∈ clView o cl := by
  simp [clView, h]
theorem mem_view_enq {o : Bool} {cl : Client} {t : Nat} (h : cl.pc = .enqueue t) (ho : o = true) : t ∈ clView o cl := by
  simp [clView, h, ho]
theorem mem_view_queue {o : Bool} {cl : Client} {t : Nat} (h : t ∈ cl.queue) : t ∈ clView o cl := by
  simp [clView, h]
theorem mem_view_wait {o : Bool} {cl : Client} {t : Nat} {a : Bool} (h : cl.hpc = .waitRes t a) : t ∈ clView o cl := by
  simp [clView, h]
theorem mem_view_give {o : Bool} {cl : Client} {t : Nat} {r : Option Nat} (h : cl.hpc = .giveBack t r) :
    t ∈ clView o cl := by
  simp [clView, h]

theorem clView_default (o : Bool) : clView o (default : Client) = [] := rfl
theorem cl_oob (s : St) (c : Nat) (h : ¬ c < s.cl.size) : s.cl[c]! = default := by grind
theorem view_lt {s : St} {c t : Nat} (h : t ∈ clView s.ordered s.cl[c]!) : c < s.cl.size := by
  apply Classical.byContradiction; intro hn
  rw [cl_oob s c hn, clView_default] at h; simp at h

/-- a record nobody refers to is good whatever it looks like, as long as it does not hold itself -/
theorem ClGood.of_not_mem {o : Bool} {cl : Client} {t : Nat} {th : Thr} (h : t ∉ clView o cl) : ClGood o cl t th :=
  ⟨fun e => absurd (mem_view_assign e) h, fun e ho => absurd (mem_view_enq e ho) h, fun m => absurd (mem_view_queue m) h,
   fun _ e => absurd (mem_view_wait e) h, fun _ e => absurd (mem_view_give e) h⟩

theorem Excl.client {s : St} (h : Excl s) {c t : Nat} (m : t ∈ clView s.ordered s.cl[c]!) :
    t ∉ s.idle ∧ t ∉ oHand s.opc ∧ wN s.thr[t]! = 0 ∧ t < s.thr.size ∧ (clView s.ordered s.cl[c]!).count t = 1 ∧
    ∀ c' : Nat, c' ≠ c → t ∉ clView s.ordered s.cl[c']! := by
  have hc := view_lt m
  obtain ⟨a, b, c1, d, e⟩ := h.client_holds hc m
  refine ⟨a, b, e, d, c1, fun c' hne m' => ?_⟩
  exact h.two_clients hc (view_lt m') (Ne.symm hne) m m'

theorem Excl.owner {s : St} (h : Excl s) {t : Nat} (m : t ∈ oHand s.opc) :
    t ∉ s.idle ∧ wN s.thr[t]! = 0 ∧ ∀ c : Nat, t ∉ clView s.ordered s.cl[c]! := by
  have a1 : 0 < (oHand s.opc).count t := List.count_pos_iff.mpr m
  have a3 := h.le1 t
  simp only [occ] at a3
  refine ⟨fun hi => ?_, by omega, fun c mc => ?_⟩
  · have : 0 < s.idle.count t := List.count_pos_iff.mpr hi; omega
  · have b1 : 0 < clCount s.ordered t s.cl[c]! := List.count_pos_iff.mpr mc
    have := sumA_le s.cl (clCount s.ordered t) c (view_lt mc); omega

theorem Excl.self {s : St} (h : Excl s) {t : Nat} (m : 0 < wN s.thr[t]!) :
    t ∉ s.idle ∧ t ∉ oHand s.opc ∧ ∀ c : Nat, t ∉ clView s.ordered s.cl[c]! := by
  have a3 := h.le1 t
  simp only [occ] at a3
  refine ⟨fun hi => ?_, fun ho => ?_, fun c mc => ?_⟩
  · have : 0 < s.idle.count t := List.count_pos_iff.mpr hi; omega
  · have : 0 < (oHand s.opc).count t := List.count_pos_iff.mpr ho; omega
  · have b1 : 0 < clCount s.ordered t s.cl[c]! := List.count_pos_iff.mpr mc
    have := sumA_le s.cl (clCount s.ordered t) c (view_lt mc); omega

theorem Excl.nowhere {s : St} (h : Excl s) {t : Nat} (ht : s.thr.size ≤ t) :
    t ∉ s.idle ∧ t ∉ oHand s.opc ∧ (∀ c : Nat, t ∉ clView s.ordered s.cl[c]!) := by
  have a3 := h.fresh t ht
  simp only [occ] at a3
  refine ⟨fun hi => ?_, fun ho => ?_, fun c mc => ?_⟩
  · have : 0 < s.idle.count t := List.count_pos_iff.mpr hi; omega
  · have : 0 < (oHand s.opc).count t := List.count_pos_iff.mpr ho; omega
  · have b1 : 0 < clCount s.ordered t s.cl[c]! := List.count_pos_iff.mpr mc
    have := sumA_le s.cl (clCount s.ordered t) c (view_lt mc); omega

theorem oHand_kill_iff {opc : OPc} {t : Nat} (h : opc = .kill t) : t ∈ oHand opc := by simp [h]
theorem oHand_joinW_iff {opc : OPc} {t : Nat} (h : opc = .joinW t) : t ∈ oHand opc := by simp [h]

/-- the record of a thread that sits in exactly one client -/
theorem Good.of_client {o : Bool} {idl : List Nat} {opc : OPc} {cls : Array Client} {t : Nat} {th : Thr} (c0 : Nat)
    (hi : t ∉ idl) (ho : t ∉ oHand opc) (hw : wN th = 0) (hc : ∀ c : Nat, c ≠ c0 → t ∉ clView o cls[c]!)
    (hg : ClGood o cls[c0]! t th) : Good o idl opc cls t th :=
  ⟨fun m => absurd m hi, fun c => if e : c = c0 then e ▸ hg else ClGood.of_not_mem (hc c e),
   fun e => absurd (oHand_kill_iff e) ho, fun e => absurd (oHand_joinW_iff e) ho, fun p => by omega⟩

theorem Good.of_self {o : Bool} {idl : List Nat} {opc : OPc} {cls : Array Client} {t : Nat} {th : Thr}
    (hi : t ∉ idl) (ho : t ∉ oHand opc) (hc : ∀ c : Nat, t ∉ clView o cls[c]!) (hs : o = false ∧ SWork th) :
    Good o idl opc cls t th :=
  ⟨fun m => absurd m hi, fun c => ClGood.of_not_mem (hc c),
   fun e => absurd (oHand_kill_iff e) ho, fun e => absurd (oHand_joinW_iff e) ho, fun _ => hs⟩

theorem Good.of_owner {o : Bool} {idl : List Nat} {opc : OPc} {cls : Array Client} {t : Nat} {th : Thr}
    (hi : t ∉ idl) (hw : wN th = 0) (hc : ∀ c : Nat, t ∉ clView o cls[c]!)
    (hk : opc = .kill t → SIdle th) (hj : opc = .joinW t → SKill th) : Good o idl opc cls t th :=
  ⟨fun m => absurd m hi, fun c => ClGood.of_not_mem (hc c), hk, hj, fun p => by omega⟩

/-! ### more state transformers -/
theorem sh_setOpc {s : St} (o' : OPc) (h : Sh s) (hk : ∀ t, o' = .kill t → SIdle s.thr[t]!)
    (hj : ∀ t, o' = .joinW t → SKill s.thr[t]!) : Sh { s with opc := o' } := by
  intro u
  have hu := h u
  exact ⟨hu.idle, hu.cl, hk u, hj u, hu.self⟩

theorem sh_setIdle {s : St} (i' : List Nat) (h : Sh s) (hi : ∀ t ∈ i', SIdle s.thr[t]!) : Sh { s with idle := i' } := by
  intro u
  have hu := h u
  exact ⟨hi u, hu.cl, hu.kill, hu.joinW, hu.self⟩

theorem sh_setCount {s : St} (n : Nat) (h : Sh s) : Sh { s with count := n } := h


/-! ### the steps keep the shapes -/
theorem thr_setThr (s : St) (t u : Nat) (g : Thr → Thr) :
    (setThr s t g).thr[u]! = if u = t ∧ t < s.thr.size then g s.thr[u]! else s.thr[u]! := by
  show (s.thr.modify t g)[u]! = _
  rw [get_modify]

theorem sh_stepOwner {s s' : St} (hE : Excl s) (h : Sh s) (hs : stepOwner s = some s') : Sh s' := by
  unfold stepOwner at hs
  split at hs
  · -- spawn
    rename_i i ho
    injection hs with hs; subst hs
    apply sh_setOpc _ (sh_setCl i _ h fun u => ?_)
    · intro t e; split at e <;> simp at e
    · intro t e; split at e <;> simp at e
    · exact ⟨by simp, by simp, by simp, by simp, by simp⟩
  · rename_i i ho
    split at hs
    · injection hs with hs; subst hs
      apply sh_setOpc _ h
      · intro t e; split at e <;> simp at e
      · intro t e; split at e <;> simp at e
    · simp at hs
  · simp at hs
  · rename_i ho
    split at hs
    · injection hs with hs; subst hs
      exact sh_setOpc _ h (by simp) (by simp)
    · split at hs
      · injection hs with hs; subst hs
        exact sh_setOpc _ h (by simp) (by simp)
      · rename_i t rest hi
        injection hs with hs; subst hs
        intro u
        have hu := h u
        refine ⟨fun m => hu.idle (by rw [hi]; exact List.mem_cons_of_mem _ m), hu.cl, fun e => ?_, by simp, hu.self⟩
        injection e with e; subst e
        exact hu.idle (by rw [hi]; simp)
  · -- kill
    rename_i t ho
    injection hs with hs; subst hs
    apply sh_signalThr
    have hown := hE.owner (t := t) (by simp [ho])
    intro u
    have hu := h u
    show Good s.ordered s.idle (.joinW t) s.cl u (setThr s t _).thr[u]!
    rw [thr_setThr]
    split
    · rename_i hc
      rw [hc.1] at hu ⊢
      have hid := hu.kill ho
      refine Good.of_owner hown.1 ?_ hown.2.2 (by simp) (fun _ => ?_)
      · simp only [wN, hid.2.2.2.2]
        have := hid.1; revert this; cases s.thr[t]!.pc <;> simp [isTop]
      · exact ⟨Or.inl hid.1, rfl, hid.2.2.1, hid.2.2.2.1, hid.2.2.2.2⟩
    · rename_i hc
      refine ⟨hu.idle, hu.cl, by simp, fun e => ?_, hu.self⟩
      injection e with e; subst e
      -- the owner holds a thread that exists
      have hlt : ¬ t < s.thr.size := fun x => hc ⟨rfl, x⟩
      have a3 := hE.fresh t (by omega)
      simp [occ, ho] at a3
  · -- joinW
    rename_i t ho
    split at hs
    · injection hs with hs; subst hs
      exact sh_setOpc _ (sh_setCount _ h) (by simp) (by simp)
    · simp at hs
  · simp at hs


theorem count_view_assign {o : Bool} {cl : Client} {t : Nat} (hp : cl.pc = .assign t) (h1 : (clView o cl).count t = 1) :
    t ∉ cl.queue ∧ t ∉ hHand cl.hpc := by
  simp only [clView, hp, cHand_assign, List.count_append, List.count_cons, List.count_nil] at h1
  simp at h1
  constructor <;> intro m
  · have : 0 < cl.queue.count t := List.count_pos_iff.mpr m; omega
  · have : 0 < (hHand cl.hpc).count t := List.count_pos_iff.mpr m; omega

theorem not_wait_of_not_hHand {cl : Client} {t : Nat} (h : t ∉ hHand cl.hpc) :
    (∀ a, cl.hpc ≠ .waitRes t a) ∧ (∀ r, cl.hpc ≠ .giveBack t r) :=
  ⟨fun a e => h (by simp [e]), fun r e => h (by simp [e])⟩

theorem sh_stepClient {s s' : St} {c : Nat} (hE : Excl s) (h : Sh s) (hs : stepClient s c = some s') : Sh s' := by
  unfold stepClient at hs
  split at hs
  case isFalse => simp at hs
  rename_i hc
  dsimp only at hs
  -- a new pc that holds no thread
  have plain : ∀ (S : St) (f : Client → Client), Sh S → (∀ cl, (f cl).queue = cl.queue ∧ (f cl).hpc = cl.hpc) →
      (∀ cl t, (f cl).pc ≠ .assign t ∧ (f cl).pc ≠ .enqueue t) → Sh (setCl S c f) := by
    intro S f hS hq hp
    apply sh_setCl _ _ hS
    intro u
    have hcl := (hS u).cl c
    refine ⟨fun e => absurd e (hp _ u).1, fun e => absurd e (hp _ u).2, ?_, ?_, ?_⟩
    · rw [(hq _).1]; exact hcl.queue
    · rw [(hq _).2]; exact hcl.wait
    · rw [(hq _).2]; exact hcl.give
  split at hs
  · simp at hs
  · injection hs with hs; subst hs
    exact plain s _ h (fun _ => ⟨rfl, rfl⟩) (fun _ _ => by simp)
  · injection hs with hs; subst hs
    exact plain s _ h (fun _ => ⟨rfl, rfl⟩) (fun _ _ => by simp)
  · simp at hs
  · -- next false
    rename_i hp
    split at hs
    · injection hs with hs; subst hs
      exact plain s _ h (fun _ => ⟨rfl, rfl⟩) (fun _ _ => by simp)
    · split at hs
      · rename_i t rest hi
        injection hs with hs; subst hs
        have h1 : Sh { s with idle := rest } :=
          sh_setIdle rest h fun u m => (h u).idle (by rw [hi]; exact List.mem_cons_of_mem _ m)
        apply sh_setCl _ _ h1
        intro u
        have hcl := (h u).cl c
        refine ⟨fun e => ?_, by simp, hcl.queue, hcl.wait, hcl.give⟩
        injection e with e; subst e
        exact (h _).idle (by rw [hi]; simp)
      · split at hs
        · injection hs with hs; subst hs
          exact plain s _ h (fun _ => ⟨rfl, rfl⟩) (fun _ _ => by simp)
        · injection hs with hs; subst hs
          exact plain _ _ (sh_setCount _ h) (fun _ => ⟨rfl, rfl⟩) (fun _ _ => by simp)
  · -- create
    rename_i hp
    injection hs with hs; subst hs
    intro u
    have hu := h u
    simp only [setCl_ordered, setCl_idle, setCl_opc, setCl_cl, setCl_thr]
    rw [get_push]
    split
    · rename_i hus
      have hno := hE.nowhere (t := u) (by omega)
      refine Good.of_client c hno.1 hno.2.1 rfl (fun c' hne => ?_) ?_
      · rw [get_modify, if_neg (by intro hx; exact hne hx.1)]; exact hno.2.2 c'
      · rw [get_modify, if_pos ⟨rfl, hc⟩]
        have hnc := hno.2.2 c
        refine ⟨fun _ => SIdle_new, by simp, fun m => absurd (mem_view_queue (cl := s.cl[c]!) m) hnc,
          fun a e => absurd (mem_view_wait (cl := s.cl[c]!) e) hnc, fun r e => absurd (mem_view_give (cl := s.cl[c]!) e) hnc⟩
    · rename_i hus
      refine ⟨hu.idle, clGood_modify c _ hu.cl ?_, hu.kill, hu.joinW, hu.self⟩
      have hcl := hu.cl c
      refine ⟨fun e => ?_, by simp, hcl.queue, hcl.wait, hcl.give⟩
      injection e with e; exact absurd e.symm hus
  · -- assign
    rename_i t hp
    injection hs with hs; subst hs
    apply sh_signalThr
    have hm : t ∈ clView s.ordered s.cl[c]! := mem_view_assign hp
    obtain ⟨e1, e2, e3, e4, e5, e6⟩ := hE.client hm
    obtain ⟨q1, q2⟩ := count_view_assign hp e5
    obtain ⟨w1, w2⟩ := not_wait_of_not_hHand q2
    have hid : SIdle s.thr[t]! := ((h t).cl c).assign hp
    intro u
    have hu := h u
    simp only [setCl_ordered, setCl_idle, setCl_opc, setCl_cl, setCl_thr, setThr_ordered, setThr_idle, setThr_opc,
      setThr_cl]
    rw [thr_setThr]
    split
    · rename_i hut
      rw [hut.1]
      have hcl' : ∀ c' : Nat, c' ≠ c → t ∉ clView s.ordered (s.cl.modify c fun cl => { cl with pc := .enqueue t })[c']! := by
        intro c' hne
        rw [get_modify, if_neg (by intro hx; exact hne hx.1)]; exact e6 c' hne
      cases ho : s.ordered
      · -- unordered: the thread now holds itself
        refine Good.of_self e1 e2 (fun c' => ?_) ⟨rfl, Or.inl ⟨Or.inl hid.1, rfl, by simp, hid.2.2.2.1, by simp⟩⟩
        by_cases hne : c' = c
        · rw [hne, get_modify, if_pos ⟨rfl, hc⟩]
          simp only [clView, cHand_enqueue]
          simp [q1, q2]
        · have := hcl' c' hne; rw [ho] at this; exact this
      · refine Good.of_client c e1 e2 ?_ (fun c' hne => by have := hcl' c' hne; rw [ho] at this; exact this) ?_
        · simp only [wN]
          have := hid.1; revert this; cases s.thr[t]!.pc <;> simp [isTop]
        · rw [get_modify, if_pos ⟨rfl, hc⟩]
          refine ⟨by simp, fun _ _ => ⟨by simp, Or.inl ⟨Or.inl hid.1, rfl, by simp, hid.2.2.2.1⟩⟩,
            fun m => absurd m q1, fun a e => absurd e (w1 a), fun r e => absurd e (w2 r)⟩
    · rename_i hut
      have hne : u ≠ t := fun e => hut ⟨e, e4⟩
      refine ⟨hu.idle, clGood_modify c _ hu.cl ?_, hu.kill, hu.joinW, hu.self⟩
      have hcl := hu.cl c
      refine ⟨by simp, fun e => ?_, hcl.queue, hcl.wait, hcl.give⟩
      injection e with e; exact absurd e.symm hne
  · -- enqueue
    rename_i t hp
    injection hs with hs; subst hs
    have hX : Sh (setCl s c fun cl =>
        { cl with nthreads := cl.nthreads + 1, queue := if s.ordered then cl.queue ++ [t] else cl.queue,
                  pc := .next false, nextJob := cl.nextJob + 1 }) := by
      apply sh_setCl _ _ h
      intro u
      have hcl := (h u).cl c
      refine ⟨by simp, by simp, fun m => ?_, hcl.wait, hcl.give⟩
      by_cases ho : s.ordered = true
      · simp only [ho, if_true, List.mem_append, List.mem_singleton] at m
        rcases m with m | m
        · exact hcl.queue m
        · subst m; simp only [SQ, ho, if_true]; exact hcl.enq hp ho
      · simp only [ho] at m; exact hcl.queue m
    by_cases ho : s.ordered = true
    · simp only [setCl_ordered, ho, if_true] at hX ⊢
      exact sh_signalRq c hX
    · simp only [setCl_ordered, ho, if_false] at hX ⊢
      exact hX
  · -- finish
    injection hs with hs; subst hs
    exact sh_signalRq c (plain s _ h (fun _ => ⟨rfl, rfl⟩) (fun _ _ => by simp))
  · -- joinH
    split at hs
    · injection hs with hs; subst hs
      exact plain s _ h (fun _ => ⟨rfl, rfl⟩) (fun _ _ => by simp)
    · simp at hs
  · simp at hs


theorem sh_stepWorker {s s' : St} {t : Nat} (hE : Excl s) (h : Sh s) (hs : stepWorker s t = some s') : Sh s' := by
  unfold stepWorker at hs
  split at hs
  case isFalse => simp at hs
  rename_i ht
  dsimp only at hs
  split at hs
  · simp at hs
  · -- top false
    rename_i hp
    split at hs <;> (injection hs with hs; subst hs)
    · rename_i hr
      refine sh_setThr_mono t _ h ?_ ?_ ?_ ?_ ?_ ?_ ?_ <;>
        simp_all [SIdle, SOrd, SFin, SWork, SKill, isTop, wN]
    · rename_i hr
      refine sh_setThr_mono t _ h ?_ ?_ ?_ ?_ ?_ ?_ ?_ <;>
        simp_all [SIdle, SOrd, SFin, SWork, SKill, isTop, wN]
  · -- gotJob
    rename_i hp
    split at hs
    · rename_i hcb
      injection hs with hs; subst hs
      refine sh_setThr_mono t _ h ?_ ?_ ?_ ?_ ?_ ?_ ?_ <;>
        simp_all [SIdle, SOrd, SFin, SWork, SKill, isTop, wN]
    · rename_i j hcb
      split at hs <;> (injection hs with hs; subst hs)
      · rename_i c hr
        have hr' : s.thr[t]!.rq = some c := hr
        have hw : 0 < wN s.thr[t]! := by simp only [wN, hr', Option.isSome_some, if_true]; omega
        obtain ⟨e1, e2, e3⟩ := hE.self hw
        obtain ⟨ho, _⟩ := (h t).self hw
        intro u
        have hu := h u
        simp only [setThr_ordered, setThr_idle, setThr_opc, setThr_cl]
        rw [thr_setThr]
        split
        · rename_i hut
          rw [hut.1]
          exact Good.of_self e1 e2 e3 ⟨ho, Or.inr ⟨⟨c, rfl⟩, rfl, rfl, by simp, rfl⟩⟩
        · exact hu
      · rename_i hr
        refine sh_setThr_mono t _ h ?_ ?_ ?_ ?_ ?_ ?_ ?_ <;>
          simp_all [SIdle, SOrd, SFin, SWork, SKill, isTop, wN]
  · -- selfEnq
    rename_i c hp
    injection hs with hs; subst hs
    apply sh_signalRq
    have hw : 0 < wN s.thr[t]! := by simp [wN, hp]
    obtain ⟨e1, e2, e3⟩ := hE.self hw
    obtain ⟨ho, hsw⟩ := (h t).self hw
    have hfin : ¬ s.thr[t]!.running = true ∧ s.thr[t]!.cb = none ∧ s.thr[t]!.res ≠ none ∧ s.thr[t]!.rq = none := by
      rcases hsw with ⟨hh, _⟩ | ⟨_, a, b, c1, d⟩
      · rcases hh with hh | hh <;> simp [hp, isTop] at hh
      · exact ⟨by simp [a], b, c1, d⟩
    intro u
    have hu := h u
    simp only [setCl_ordered, setCl_idle, setCl_opc, setCl_cl, setCl_thr, setThr_ordered, setThr_idle, setThr_opc,
      setThr_cl]
    rw [thr_setThr]
    split
    · rename_i hut
      rw [hut.1]
      refine Good.of_client c e1 e2 (by simp [wN, hfin.2.2.2]) (fun c' hne => ?_) ?_
      · rw [get_modify, if_neg (by intro hx; exact hne hx.1)]; exact e3 c'
      · have hnc := e3 c
        have hview : ∀ cl' : Client, cl' = s.cl[c]! → ClGood s.ordered { cl' with queue := cl'.queue ++ [t] } t
            { s.thr[t]! with pc := .top false } := by
          intro cl' hcl'
          subst hcl'
          refine ⟨fun e => absurd (mem_view_assign (cl := s.cl[c]!) e) hnc,
            fun e ho' => absurd (mem_view_enq (cl := s.cl[c]!) e ho') hnc, fun _ => ?_,
            fun a e => absurd (mem_view_wait (cl := s.cl[c]!) e) hnc, fun r e => absurd (mem_view_give (cl := s.cl[c]!) e) hnc⟩
          simp only [SQ, ho]
          exact ⟨rfl, by simpa using hfin.1, hfin.2.1, hfin.2.2.1, hfin.2.2.2⟩
        rw [get_modify]
        split
        · exact hview _ rfl
        · exact ClGood.of_not_mem hnc
    · rename_i hut
      have hne : u ≠ t := fun e => hut ⟨e, ht⟩
      refine ⟨hu.idle, clGood_modify c _ hu.cl ?_, hu.kill, hu.joinW, hu.self⟩
      have hcl := hu.cl c
      refine ⟨hcl.assign, hcl.enq, fun m => ?_, hcl.wait, hcl.give⟩
      simp only [List.mem_append, List.mem_singleton] at m
      rcases m with m | m
      · exact hcl.queue m
      · exact absurd m hne
  · -- doneOrd
    rename_i hp
    injection hs with hs; subst hs
    intro u
    have hu := h u
    have h1 : (signalThr (setThr s t fun th => { th with running := false, pc := .top false }) t).thr[u]! =
        if u = t ∧ t < s.thr.size then wakeW { s.thr[u]! with running := false, pc := .top false } else s.thr[u]! := by
      rw [thr_signalThr, thr_setThr]
      simp only [setThr_thr, Array.size_modify]
      split <;> rfl
    have h2 : (signalThr (setThr s t fun th => { th with running := false, pc := .top false }) t).cl =
        s.cl.map (TpK.wakeH t) := rfl
    show Good s.ordered s.idle s.opc _ u _
    rw [h1, h2]
    split
    · rename_i hut
      rw [hut.1] at hu ⊢
      -- the only shape with pc = doneOrd is the second form of SOrd
      have nI : ¬ SIdle s.thr[t]! := by simp [SIdle, hp, isTop]
      have nF : ¬ SFin s.thr[t]! := by simp [SFin, hp, isTop]
      have nK : ¬ SKill s.thr[t]! := by simp [SKill, hp, isTop]
      have ord : SOrd s.thr[t]! → SFin (wakeW { s.thr[t]! with running := false, pc := .top false }) := by
        intro hO
        rcases hO.2 with ⟨hh, _⟩ | ⟨_, a, b, c1⟩ | ⟨hh, _⟩
        · rcases hh with hh | hh <;> simp [hp, isTop] at hh
        · exact SFin.wake ⟨rfl, rfl, b, c1, hO.1⟩
        · simp [hp, isTop] at hh
      have ordO : SOrd s.thr[t]! → SOrd (wakeW { s.thr[t]! with running := false, pc := .top false }) := by
        intro hO
        have := ord hO
        exact ⟨this.2.2.2.2, Or.inr (Or.inr ⟨this.1, this.2.1, this.2.2.1, this.2.2.2.1⟩)⟩
      have sq : SQ s.ordered s.thr[t]! → SQ s.ordered (wakeW { s.thr[t]! with running := false, pc := .top false }) := by
        unfold SQ; split
        · exact ordO
        · intro hF; exact absurd hF nF
      refine ⟨fun m => absurd (hu.idle m) nI, fun c => ?_, fun e => absurd (hu.kill e) nI, fun e => absurd (hu.joinW e) nK,
        fun p => ?_⟩
      · rw [get_map]
        split
        · have hcl := hu.cl c
          refine ⟨fun e => absurd (hcl.assign (by rw [← wakeH_pc t]; exact e)) nI,
            fun e ho => ordO (hcl.enq (by rw [← wakeH_pc t]; exact e) ho),
            fun m => sq (hcl.queue (by rw [← wakeH_queue t]; exact m)), fun a e => ?_, fun r e => ?_⟩
          · -- the handler waiting for t has been woken
            have hold := (hcl.wakeH t).wait a e
            refine ⟨?_, fun ha => ?_⟩
            · unfold TpK.wakeH at e
              split at e
              · rename_i t' hh
                split at e
                · rename_i htt
                  exact sq (hcl.wait true (by rw [hh, htt])).1
                · exact sq (hcl.wait a e).1
              · exact sq (hcl.wait a e).1
            · exfalso
              subst ha
              unfold TpK.wakeH at e
              split at e
              · rename_i t' hh
                split at e
                · simp at e
                · rename_i htt; rw [hh] at e; injection e with e1 e2; exact htt e1
              · rename_i hh
                exact hh t (by simpa using e)
          · exact absurd (hcl.give r (by
              unfold TpK.wakeH at e
              split at e
              · split at e
                · simp at e
                · exact e
              · exact e)) nI
        · exact ClGood_default _ _ _
      · exfalso
        rw [wN_wake] at p
        cases hr : s.thr[t]!.rq with
        | none => simp [wN, hr] at p
        | some c0 =>
          have := (hu.self (by simp only [wN, hr, Option.isSome_some, if_true]; omega)).2
          simp [SWork, hp, isTop] at this
    · exact ⟨hu.idle, clGood_map_wakeH t hu.cl, hu.kill, hu.joinW, hu.self⟩
  · simp at hs


theorem count_view_hHand {o : Bool} {cl : Client} {t : Nat} (hh : hHand cl.hpc = [t]) (h1 : (clView o cl).count t = 1) :
    t ∉ cHand cl.pc o ∧ t ∉ cl.queue := by
  simp only [clView, hh, List.count_append, List.count_cons, List.count_nil] at h1
  simp at h1
  constructor <;> intro m
  · have : 0 < (cHand cl.pc o).count t := List.count_pos_iff.mpr m; omega
  · have : 0 < cl.queue.count t := List.count_pos_iff.mpr m; omega

theorem sh_stepHandler {s s' : St} {c k : Nat} (hE : Excl s) (h : Sh s) (hs : stepHandler s c k = some s') : Sh s' := by
  unfold stepHandler at hs
  split at hs
  case isFalse => simp at hs
  rename_i hc
  dsimp only at hs
  split at hs
  · simp at hs
  -- a new hpc that holds no thread
  have plain : ∀ (f : Client → Client), (∀ cl, (f cl).queue = cl.queue ∧ (f cl).pc = cl.pc) →
      (∀ cl t a r, (f cl).hpc ≠ .waitRes t a ∧ (f cl).hpc ≠ .giveBack t r) → Sh (setCl s c f) := by
    intro f hq hp
    apply sh_setCl _ _ h
    intro u
    have hcl := (h u).cl c
    refine ⟨?_, ?_, ?_, fun a e => absurd e (hp _ u a none).1, fun r e => absurd e (hp _ u true r).2⟩
    · rw [(hq _).2]; exact hcl.assign
    · rw [(hq _).2]; exact hcl.enq
    · rw [(hq _).1]; exact hcl.queue
  split at hs
  · simp at hs
  · -- deq false
    rename_i hp
    split at hs
    · rename_i t rest hq
      injection hs with hs; subst hs
      apply sh_setCl _ _ h
      intro u
      have hcl := (h u).cl c
      refine ⟨hcl.assign, hcl.enq, fun m => hcl.queue (by rw [hq]; exact List.mem_cons_of_mem _ m), fun a e => ?_, by simp⟩
      injection e with e1 e2; subst e1 e2
      exact ⟨hcl.queue (by rw [hq]; simp), by simp⟩
    · split at hs <;> (injection hs with hs; subst hs)
      · exact plain _ (fun _ => ⟨rfl, rfl⟩) (fun _ _ _ _ => by simp)
      · exact plain _ (fun _ => ⟨rfl, rfl⟩) (fun _ _ _ _ => by simp)
  · simp at hs
  · -- waitRes t false
    rename_i t hp
    split at hs <;> (injection hs with hs; subst hs)
    · rename_i hr
      apply sh_setCl _ _ h
      intro u
      have hcl := (h u).cl c
      refine ⟨hcl.assign, hcl.enq, hcl.queue, fun a e => ?_, by simp⟩
      injection e with e1 e2; subst e1 e2
      exact ⟨(hcl.wait false hp).1, fun _ => hr⟩
    · rename_i hr
      have hm : t ∈ clView s.ordered s.cl[c]! := mem_view_wait hp
      obtain ⟨e1, e2, e3, e4, e5, e6⟩ := hE.client hm
      obtain ⟨q1, q2⟩ := count_view_hHand (by simp [hp]) e5
      have hsq := (((h t).cl c).wait false hp).1
      have hnr : s.thr[t]!.running = false := by simpa using hr
      have hid : SIdle { s.thr[t]! with res := none } := by
        unfold SQ at hsq
        split at hsq
        · rcases hsq.2 with ⟨_, a, _⟩ | ⟨_, a, _⟩ | ⟨a, _, b, _⟩
          · rw [hnr] at a; simp at a
          · rw [hnr] at a; simp at a
          · exact ⟨a, hnr, b, rfl, hsq.1⟩
        · exact ⟨hsq.1, hsq.2.1, hsq.2.2.1, rfl, hsq.2.2.2.2⟩
      intro u
      have hu := h u
      simp only [setCl_ordered, setCl_idle, setCl_opc, setCl_cl, setCl_thr, setThr_ordered, setThr_idle, setThr_opc,
        setThr_cl]
      rw [thr_setThr]
      split
      · rename_i hut
        rw [hut.1]
        refine Good.of_client c e1 e2 ?_ (fun c' hne => ?_) ?_
        · have hrq : s.thr[t]!.rq = none := hid.2.2.2.2
          have htop : isTop s.thr[t]!.pc = true := hid.1
          simp only [wN, hrq]
          revert htop; cases s.thr[t]!.pc <;> simp [isTop]
        · rw [get_modify, if_neg (by intro hx; exact hne hx.1)]; exact e6 c' hne
        · rw [get_modify, if_pos ⟨rfl, hc⟩]
          refine ⟨fun e => absurd (by simp [show s.cl[c]!.pc = .assign t from e]) q1,
            fun e ho => absurd (by simp [show s.cl[c]!.pc = .enqueue t from e, ho]) q1,
            fun m => absurd m q2, by simp, fun _ _ => hid⟩
      · rename_i hut
        have hne : u ≠ t := fun e => hut ⟨e, e4⟩
        refine ⟨hu.idle, clGood_modify c _ hu.cl ?_, hu.kill, hu.joinW, hu.self⟩
        have hcl := hu.cl c
        refine ⟨hcl.assign, hcl.enq, hcl.queue, by simp, fun r e => ?_⟩
        injection e with e1 e2; exact absurd e1.symm hne
  · -- giveBack
    rename_i t r hp
    injection hs with hs; subst hs
    apply sh_signalPool
    have h1 : Sh { s with idle := t :: s.idle } := by
      apply sh_setIdle _ h
      intro u m
      rcases List.mem_cons.mp m with m | m
      · subst m; exact ((h u).cl c).give r hp
      · exact (h u).idle m
    apply sh_setCl _ _ h1
    intro u
    have hcl := (h u).cl c
    exact ⟨hcl.assign, hcl.enq, hcl.queue, by simp, by simp⟩
  · -- callback
    injection hs with hs; subst hs
    exact plain _ (fun _ => ⟨rfl, rfl⟩) (fun _ _ _ _ => by simp)
  · simp at hs

theorem sh_spurious {s s' : St} {w : Who} (h : Sh s) (hs : step s (.spurious w) = some s') : Sh s' := by
  cases w with
  | owner =>
    simp only [step] at hs
    split at hs
    · injection hs with hs; subst hs
      exact sh_setOpc _ h (by simp) (by simp)
    · simp at hs
  | client c =>
    simp only [step] at hs
    split at hs
    · injection hs with hs; subst hs
      apply sh_setCl _ _ h
      intro u
      have hcl := (h u).cl c
      exact ⟨by simp, by simp, hcl.queue, hcl.wait, hcl.give⟩
    · simp at hs
  | handler c =>
    simp only [step] at hs
    split at hs
    · injection hs with hs; subst hs
      apply sh_setCl _ _ h
      intro u
      have hcl := (h u).cl c
      exact ⟨hcl.assign, hcl.enq, hcl.queue, by simp, by simp⟩
    · rename_i t hp
      injection hs with hs; subst hs
      have hp' : s.cl[c]!.hpc = .waitRes t true := by
        cases hx : s.cl[c]? with
        | none => simp [hx] at hp
        | some x => simp [hx] at hp; simp [getElem!_def, hx, hp]
      apply sh_setCl _ _ h
      intro u
      have hcl := (h u).cl c
      refine ⟨hcl.assign, hcl.enq, hcl.queue, fun a e => ?_, by simp⟩
      injection e with e1 e2; subst e1 e2
      exact ⟨(hcl.wait true hp').1, by simp⟩
    · simp at hs
  | worker t =>
    simp only [step] at hs
    split at hs
    · rename_i hp
      injection hs with hs; subst hs
      have hp' : s.thr[t]!.pc = .top true := by
        cases hx : s.thr[t]? with
        | none => simp [hx] at hp
        | some x => simp [hx] at hp; simp [getElem!_def, hx, hp]
      refine sh_setThr_mono t _ h ?_ ?_ ?_ ?_ ?_ ?_ ?_ <;>
        simp_all [SIdle, SOrd, SFin, SWork, SKill, isTop, wN]
    · simp at hs

theorem sh_init (n max njobs : Nat) (o : Bool) : Sh (init n max njobs o) := by
  intro u
  have h1 : (init n max njobs o).thr[u]! = default := by simp [init]
  have h2 : ∀ c : Nat, (init n max njobs o).cl[c]! = {} ∨ (init n max njobs o).cl[c]! = default := by
    intro c
    by_cases hc : c < n
    · left; simp [init, hc]
    · right; simp [init, hc]
  rw [h1]
  refine ⟨by simp [init], fun c => ?_, by simp [init], by simp [init], by simp⟩
  rcases h2 c with e | e <;> rw [e]
  · exact ClGood_new _ _ _
  · exact ClGood_default _ _ _

/-- THE HAND-OVER PROTOCOL, any number of clients: in every reachable state every worker thread is in at most one place and its
    record has the shape that place requires -/
theorem inv_reachable {n max njobs : Nat} {o : Bool} {s : St} (hr : Reachable n max njobs o s) : Excl s ∧ Sh s := by
  induction hr with
  | init => exact ⟨excl_init _ _ _ _, sh_init _ _ _ _⟩
  | step _ hs ih =>
    refine ⟨ih.1.of_leF (leF_step hs), ?_⟩
    rename_i l _
    cases l with
    | spurious w => exact sh_spurious ih.2 hs
    | run w k =>
      cases w with
      | owner => exact sh_stepOwner ih.1 ih.2 hs
      | client c => exact sh_stepClient ih.1 ih.2 hs
      | handler c => exact sh_stepHandler ih.1 ih.2 hs
      | worker t => exact sh_stepWorker ih.1 ih.2 hs

end TpK
