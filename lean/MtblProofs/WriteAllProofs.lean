import MtblModel.WriteAll
/-
  Proofs about `_write_all` (mtbl/writer.c) as modelled in MtblModel/WriteAll.lean  (check C20).

  Termination: `writeAllGo` recurses on the outcome script, a finite list, and every iteration of the C loop
  consumes exactly one outcome (`termination_by script.length`); once the script is exhausted every further
  write(2) is `full`, which ends the loop.  An infinite stream of EINTRs (a livelock of the C loop) is therefore
  outside the model; everything below is a statement about all FINITE interruption patterns.
-/
namespace Mtbl

/-- outcomes after which the C loop carries on: a full write, EINTR, a short write of at least one byte -/
def benign (script : List WOut) : Prop :=
  ∀ o ∈ script, o = .full ∨ o = .eintr ∨ ∃ n, o = .short n ∧ 1 ≤ n

/-- bytes a write(2) call for `size` bytes accepts under outcome `o` -/
def WOut.got (o : WOut) (size : Nat) : Nat :=
  match o with
  | .full => size
  | .short n => min n size
  | .eintr => 0
  | .zero => 0
  | .error => 0

/-- bytes of a `size`-byte buffer still unaccepted after the loop has consumed the outcomes `pre`
    (meaningful for a benign prefix; "bytes accepted by the prefix" = `size - remaining size pre`) -/
def remaining (size : Nat) : List WOut → Nat
  | [] => size
  | o :: os => remaining (size - o.got size) os

/-- the calls form a chain: each call is for exactly the suffix `[off, L)` that is not yet accepted, it is
    never for 0 bytes, and the next call starts `got` bytes further, where `got` is what the outcome consumed by
    this call accepted.  (The i-th call consumes the i-th outcome; beyond the script outcomes are `full`.) -/
def CallChain (L : Nat) : Nat → List (Nat × Nat) → List WOut → Prop
  | _, [], _ => True
  | off, (o, s) :: cs, script =>
    o = off ∧ s = L - off ∧ off < L ∧ CallChain L (off + (script.headD .full).got s) cs script.tail

namespace WA

theorem benign_nil : benign [] := by intro o ho; cases ho

theorem benign_cons {o : WOut} {os : List WOut} (h : benign (o :: os)) :
    (o = .full ∨ o = .eintr ∨ ∃ n, o = .short n ∧ 1 ≤ n) ∧ benign os :=
  ⟨h o (List.mem_cons_self), fun x hx => h x (List.mem_cons_of_mem _ hx)⟩

theorem benign_of_suffix {s t : List WOut} (h : s <:+ t) (hb : benign t) : benign s :=
  fun o ho => hb o (h.subset ho)

theorem got_le (o : WOut) (size : Nat) : o.got size ≤ size := by
  cases o <;> simp [WOut.got] <;> omega

theorem remaining_le (size : Nat) (pre : List WOut) : remaining size pre ≤ size := by
  induction pre generalizing size with
  | nil => simp [remaining]
  | cons o os ih => simp only [remaining]; have := ih (size - o.got size); omega

theorem remaining_zero (pre : List WOut) : remaining 0 pre = 0 := by
  have := remaining_le 0 pre; omega

theorem take_append_take_drop (l : Bytes) (k m : Nat) : l.take k ++ (l.drop k).take m = l.take (k + m) := by
  rw [List.take_add]

/-! ### the loop, generalised over the loop state -/

/-- whatever happens, the loop only ever appends a prefix of the unaccepted suffix -/
theorem go_accepted (buf : Bytes) (done : Nat) (script : List WOut) (r : WARes) :
    ∃ m, (writeAllGo buf done script r).accepted = r.accepted ++ (buf.drop done).take m := by
  fun_induction writeAllGo buf done script r with
  | case1 done r h => exact ⟨buf.length, by simp [List.take_of_length_le]⟩
  | case2 done r h => exact ⟨0, by simp⟩
  | case3 done r o os h => exact ⟨0, by simp⟩
  | case4 done r os h size r' => exact ⟨buf.length, by simp [r', List.take_of_length_le]⟩
  | case5 done r os h size r' n k hk => exact ⟨0, by simp [r']⟩
  | case6 done r os h size r' n k hk ih =>
    obtain ⟨m, hm⟩ := ih
    refine ⟨k + m, ?_⟩
    rw [hm]
    simp only [r', List.append_assoc, ← List.drop_drop]
    rw [take_append_take_drop]
  | case7 done r os h size r' ih =>
    obtain ⟨m, hm⟩ := ih
    exact ⟨m, by rw [hm]⟩
  | case8 done r os h size r' => exact ⟨0, by simp [r']⟩
  | case9 done r os h size r' => exact ⟨0, by simp [r']⟩

/-- normal return ⇒ no assertion had fired before and the whole unaccepted suffix was appended -/
theorem go_ok (buf : Bytes) (done : Nat) (script : List WOut) (r : WARes)
    (hok : (writeAllGo buf done script r).ok = true) :
    r.ok = true ∧ (writeAllGo buf done script r).accepted = r.accepted ++ buf.drop done := by
  fun_induction writeAllGo buf done script r with
  | case1 done r h => exact ⟨hok, rfl⟩
  | case2 done r h => exact ⟨hok, by simp [List.drop_eq_nil_of_le (Nat.le_of_not_lt h)]⟩
  | case3 done r o os h => exact ⟨hok, by simp [List.drop_eq_nil_of_le h]⟩
  | case4 done r os h size r' => exact ⟨hok, rfl⟩
  | case5 done r os h size r' n k hk => simp at hok
  | case6 done r os h size r' n k hk ih =>
    obtain ⟨h1, h2⟩ := ih hok
    refine ⟨h1, ?_⟩
    rw [h2]
    simp only [r', List.append_assoc, ← List.drop_drop, List.take_append_drop]
  | case7 done r os h size r' ih => exact ih hok
  | case8 done r os h size r' => simp at hok
  | case9 done r os h size r' => simp at hok

/-- on a benign outcome stream no assertion fires and the whole unaccepted suffix is appended -/
theorem go_benign (buf : Bytes) (done : Nat) (script : List WOut) (r : WARes) (hb : benign script) :
    (writeAllGo buf done script r).ok = r.ok ∧
    (writeAllGo buf done script r).accepted = r.accepted ++ buf.drop done := by
  fun_induction writeAllGo buf done script r with
  | case1 done r h => exact ⟨rfl, rfl⟩
  | case2 done r h => exact ⟨rfl, by simp [List.drop_eq_nil_of_le (Nat.le_of_not_lt h)]⟩
  | case3 done r o os h => exact ⟨rfl, by simp [List.drop_eq_nil_of_le h]⟩
  | case4 done r os h size r' => exact ⟨rfl, rfl⟩
  | case5 done r os h size r' n k hk =>
    exfalso
    rcases (benign_cons hb).1 with h1 | h1 | ⟨n', h1, h2⟩
    · cases h1
    · cases h1
    · cases h1; simp only [k, size] at hk; omega
  | case6 done r os h size r' n k hk ih =>
    obtain ⟨h1, h2⟩ := ih (benign_cons hb).2
    refine ⟨h1, ?_⟩
    rw [h2]
    simp only [r', List.append_assoc, ← List.drop_drop, List.take_append_drop]
  | case7 done r os h size r' ih => exact ih (benign_cons hb).2
  | case8 done r os h size r' =>
    exfalso
    rcases (benign_cons hb).1 with h1 | h1 | ⟨n', h1, h2⟩ <;> cases h1
  | case9 done r os h size r' =>
    exfalso
    rcases (benign_cons hb).1 with h1 | h1 | ⟨n', h1, h2⟩ <;> cases h1

/-- every write(2) consumes exactly one outcome: the unconsumed outcomes are the script minus one outcome per
    call issued -/
theorem go_rest (buf : Bytes) (done : Nat) (script : List WOut) (r : WARes) :
    ∃ cs, (writeAllGo buf done script r).calls = r.calls ++ cs ∧
      (writeAllGo buf done script r).rest = script.drop cs.length := by
  fun_induction writeAllGo buf done script r with
  | case1 done r h => exact ⟨[(done, buf.length - done)], rfl, rfl⟩
  | case2 done r h => exact ⟨[], by simp, rfl⟩
  | case3 done r o os h => exact ⟨[], by simp, rfl⟩
  | case4 done r os h size r' => exact ⟨[(done, size)], rfl, rfl⟩
  | case5 done r os h size r' n k hk => exact ⟨[(done, size)], rfl, rfl⟩
  | case6 done r os h size r' n k hk ih =>
    obtain ⟨cs, h1, h2⟩ := ih
    exact ⟨(done, size) :: cs, by rw [h1]; simp [r'], by rw [h2]; simp⟩
  | case7 done r os h size r' ih =>
    obtain ⟨cs, h1, h2⟩ := ih
    exact ⟨(done, size) :: cs, by rw [h1]; simp [r'], by rw [h2]; simp⟩
  | case8 done r os h size r' => exact ⟨[(done, size)], rfl, rfl⟩
  | case9 done r os h size r' => exact ⟨[(done, size)], rfl, rfl⟩

/-- the calls the loop appends form a chain starting at `done` -/
theorem go_calls (buf : Bytes) (done : Nat) (script : List WOut) (r : WARes) :
    ∃ cs, (writeAllGo buf done script r).calls = r.calls ++ cs ∧ CallChain buf.length done cs script := by
  fun_induction writeAllGo buf done script r with
  | case1 done r h => exact ⟨[(done, buf.length - done)], rfl, rfl, rfl, h, trivial⟩
  | case2 done r h => exact ⟨[], by simp, trivial⟩
  | case3 done r o os h => exact ⟨[], by simp, trivial⟩
  | case4 done r os h size r' => exact ⟨[(done, size)], rfl, rfl, rfl, Nat.lt_of_not_le h, trivial⟩
  | case5 done r os h size r' n k hk => exact ⟨[(done, size)], rfl, rfl, rfl, Nat.lt_of_not_le h, trivial⟩
  | case6 done r os h size r' n k hk ih =>
    obtain ⟨cs, h1, h2⟩ := ih
    refine ⟨(done, size) :: cs, ?_, rfl, rfl, Nat.lt_of_not_le h, h2⟩
    rw [h1]; simp [r']
  | case7 done r os h size r' ih =>
    obtain ⟨cs, h1, h2⟩ := ih
    refine ⟨(done, size) :: cs, ?_, rfl, rfl, Nat.lt_of_not_le h, ?_⟩
    · rw [h1]; simp [r']
    · simpa [WOut.got] using h2
  | case8 done r os h size r' => exact ⟨[(done, size)], rfl, rfl, rfl, Nat.lt_of_not_le h, trivial⟩
  | case9 done r os h size r' => exact ⟨[(done, size)], rfl, rfl, rfl, Nat.lt_of_not_le h, trivial⟩

/-- the first outcome that is `zero`, `error` or `short 0`, reached while bytes are still outstanding,
    fires the assertion; exactly the bytes accepted before it have reached the descriptor -/
theorem go_bad (buf : Bytes) (done : Nat) (pre : List WOut) (bad : WOut) (post : List WOut) (r : WARes)
    (hb : benign pre) (hbad : bad = .zero ∨ bad = .error ∨ bad = .short 0)
    (hrem : 0 < remaining (buf.length - done) pre) :
    (writeAllGo buf done (pre ++ bad :: post) r).ok = false ∧
    (writeAllGo buf done (pre ++ bad :: post) r).rest = post ∧
    (writeAllGo buf done (pre ++ bad :: post) r).accepted =
      r.accepted ++ (buf.drop done).take (buf.length - done - remaining (buf.length - done) pre) := by
  induction pre generalizing done r with
  | nil =>
    simp only [remaining] at hrem
    have hlt : ¬ done ≥ buf.length := by omega
    simp only [List.nil_append, remaining, Nat.sub_self, List.take_zero, List.append_nil]
    rcases hbad with h | h | h <;> subst h <;> rw [writeAllGo] <;> simp [hlt]
  | cons o os ih =>
    have hlen := remaining_le (buf.length - done) (o :: os)
    have hlt : ¬ done ≥ buf.length := by omega
    have hbo := benign_cons hb
    simp only [remaining] at hrem ⊢
    rcases hbo.1 with h | h | ⟨n, h, hn⟩
    · subst h
      simp only [WOut.got, Nat.sub_self, remaining_zero] at hrem
      omega
    · subst h
      simp only [WOut.got, Nat.sub_zero] at hrem ⊢
      rw [List.cons_append, writeAllGo]
      simp only [hlt, if_false]
      exact ih done _ hbo.2 hrem
    · subst h
      simp only [WOut.got] at hrem ⊢
      have hk : ¬ min n (buf.length - done) = 0 := by omega
      have hrl := remaining_le (buf.length - done - min n (buf.length - done)) os
      rw [List.cons_append, writeAllGo]
      simp only [hlt, if_false, hk]
      have e : buf.length - (done + min n (buf.length - done)) = buf.length - done - min n (buf.length - done) := by
        omega
      have := ih (done + min n (buf.length - done))
        { accepted := r.accepted ++ List.take (min n (buf.length - done)) (List.drop done buf),
          calls := r.calls ++ [(done, buf.length - done)], ok := r.ok, rest := r.rest } hbo.2 (by rw [e]; exact hrem)
      rw [e] at this
      refine ⟨this.1, this.2.1, ?_⟩
      rw [this.2.2]
      simp only [List.append_assoc, ← List.drop_drop]
      rw [take_append_take_drop]
      congr 2
      omega

/-- a benign prefix that already completes the buffer: what follows it is never looked at -/
theorem go_done (buf : Bytes) (done : Nat) (pre tl : List WOut) (r : WARes)
    (hb : benign pre) (hrem : remaining (buf.length - done) pre = 0) :
    (writeAllGo buf done (pre ++ tl) r).ok = r.ok ∧
    (writeAllGo buf done (pre ++ tl) r).accepted = r.accepted ++ buf.drop done := by
  induction pre generalizing done r with
  | nil =>
    simp only [remaining] at hrem
    have hge : done ≥ buf.length := by omega
    cases tl with
    | nil => rw [List.nil_append, writeAllGo]; simp [Nat.not_lt.mpr hge, List.drop_eq_nil_of_le hge]
    | cons t ts => rw [List.nil_append, writeAllGo]; simp [hge, List.drop_eq_nil_of_le hge]
  | cons o os ih =>
    have hbo := benign_cons hb
    simp only [remaining] at hrem
    rw [List.cons_append, writeAllGo]
    by_cases hge : done ≥ buf.length
    · simp [hge, List.drop_eq_nil_of_le hge]
    · simp only [hge, if_false]
      rcases hbo.1 with h | h | ⟨n, h, hn⟩
      · subst h; exact ⟨rfl, rfl⟩
      · subst h
        simp only [WOut.got, Nat.sub_zero] at hrem
        exact ih done _ hbo.2 hrem
      · subst h
        simp only [WOut.got] at hrem
        have hk : ¬ min n (buf.length - done) = 0 := by omega
        simp only [hk, if_false]
        have e : buf.length - (done + min n (buf.length - done)) = buf.length - done - min n (buf.length - done) := by
          omega
        have := ih (done + min n (buf.length - done))
          { accepted := r.accepted ++ List.take (min n (buf.length - done)) (List.drop done buf),
            calls := r.calls ++ [(done, buf.length - done)], ok := r.ok, rest := r.rest } hbo.2 (by rw [e]; exact hrem)
        refine ⟨this.1, ?_⟩
        rw [this.2]
        simp only [List.append_assoc, ← List.drop_drop, List.take_append_drop]

end WA

open WA

/-! ### 1. every benign outcome stream delivers exactly the buffer -/

theorem C20_bytes (buf : Bytes) (script : List WOut) (hb : benign script) (hne : buf ≠ []) :
    (writeAll buf script).ok = true ∧ (writeAll buf script).accepted = buf := by
  have hl : ¬ buf.length = 0 := by simpa using hne
  have := go_benign buf 0 script { rest := script } hb
  simpa [writeAll, hl] using this

/-- in particular: the same bytes as when every write completes in full (the empty script) -/
theorem C20_bytes_eq_full (buf : Bytes) (script : List WOut) (hb : benign script) (hne : buf ≠ []) :
    (writeAll buf script).accepted = (writeAll buf []).accepted ∧
    (writeAll buf script).ok = (writeAll buf []).ok := by
  have h1 := C20_bytes buf script hb hne
  have h2 := C20_bytes buf [] benign_nil hne
  rw [h1.1, h1.2, h2.1, h2.2]; exact ⟨rfl, rfl⟩

/-! ### 2. every write(2) is for exactly the not-yet-accepted suffix -/

theorem C20_calls (buf : Bytes) (script : List WOut) :
    CallChain buf.length 0 (writeAll buf script).calls script := by
  unfold writeAll
  split
  · trivial
  · obtain ⟨cs, h1, h2⟩ := go_calls buf 0 script { rest := script }
    rw [h1]; simpa using h2

namespace WA

theorem chain_getElem (L : Nat) (off : Nat) (cs : List (Nat × Nat)) (script : List WOut)
    (h : CallChain L off cs script) (i : Nat) (hi : i < cs.length) :
    cs[i].1 + cs[i].2 = L ∧ 0 < cs[i].2 ∧ off ≤ cs[i].1 ∧
    (∀ hi' : i + 1 < cs.length, cs[i + 1].1 = cs[i].1 + (script.getD i .full).got cs[i].2) := by
  induction cs generalizing off script i with
  | nil => simp at hi
  | cons c cs ih =>
    obtain ⟨o, s⟩ := c
    obtain ⟨h1, h2, h3, h4⟩ := h
    subst h1 h2
    cases i with
    | zero =>
      refine ⟨by simp; omega, by simp; omega, by simp, ?_⟩
      intro hi'
      cases cs with
      | nil => simp at hi'
      | cons c' cs' =>
        obtain ⟨o', s'⟩ := c'
        have := h4.1
        cases script <;> simp_all
    | succ j =>
      have hj : j < cs.length := by simpa using hi
      have := ih _ _ h4 j hj
      refine ⟨by simpa using this.1, by simpa using this.2.1, ?_, ?_⟩
      · have := this.2.2.1; simp only [List.getElem_cons_succ]; omega
      · intro hi'
        have h5 := this.2.2.2 (by simpa using hi')
        cases script <;> simpa using h5

theorem chain_head (L : Nat) (off : Nat) (cs : List (Nat × Nat)) (script : List WOut)
    (h : CallChain L off cs script) (h0 : 0 < cs.length) : cs[0].1 = off := by
  cases cs with
  | nil => simp at h0
  | cons c cs => obtain ⟨o, s⟩ := c; exact h.1

end WA

/-- index-wise reading of `C20_calls`: call `i` is for `(off, size)` with `off + size = |buf|` and `size > 0`;
    the first offset is 0; offset `i+1` = offset `i` + the bytes accepted by call `i` (which consumed outcome `i`
    of the script, `full` beyond its end).  A loop that did not advance `buf` or did not shrink `size`
    violates the first or the last clause as soon as a short write happens. -/
theorem C20_calls_index (buf : Bytes) (script : List WOut) (i : Nat)
    (hi : i < (writeAll buf script).calls.length) :
    ((writeAll buf script).calls[i]).1 + ((writeAll buf script).calls[i]).2 = buf.length ∧
    0 < ((writeAll buf script).calls[i]).2 ∧
    (i = 0 → ((writeAll buf script).calls[i]).1 = 0) ∧
    (∀ hi' : i + 1 < (writeAll buf script).calls.length,
      ((writeAll buf script).calls[i + 1]).1 =
        ((writeAll buf script).calls[i]).1 + (script.getD i .full).got ((writeAll buf script).calls[i]).2) := by
  have hc := C20_calls buf script
  have := chain_getElem _ _ _ _ hc i hi
  refine ⟨this.1, this.2.1, ?_, this.2.2.2⟩
  intro h0; subst h0
  exact chain_head _ _ _ _ hc hi

/-- offsets never go backwards -/
theorem C20_calls_mono (buf : Bytes) (script : List WOut) (i : Nat)
    (hi' : i + 1 < (writeAll buf script).calls.length) :
    ((writeAll buf script).calls[i]).1 ≤ ((writeAll buf script).calls[i + 1]).1 := by
  have := (C20_calls_index buf script i (by omega)).2.2.2 hi'
  omega

/-! ### 3. never a false success; a hard error stops the process -/

theorem C20_never_false_success (buf : Bytes) (script : List WOut) :
    (writeAll buf script).ok = true → (writeAll buf script).accepted = buf := by
  unfold writeAll
  split
  · intro h; simp at h
  · intro h
    have := go_ok buf 0 script { rest := script } h
    simpa using this.2

/-- `_write_all` asserts `size > 0` -/
theorem writeAll_empty (script : List WOut) : (writeAll [] script).ok = false := by
  simp [writeAll]

/-- the first `zero` / `error` / `short 0` outcome reached while bytes are outstanding fires the assertion;
    the descriptor has received exactly the bytes accepted before it, and nothing after it is consumed -/
theorem C20_error (buf : Bytes) (pre : List WOut) (bad : WOut) (post : List WOut)
    (hb : benign pre) (hbad : bad = .zero ∨ bad = .error ∨ bad = .short 0)
    (hrem : 0 < remaining buf.length pre) :
    (writeAll buf (pre ++ bad :: post)).ok = false ∧
    (writeAll buf (pre ++ bad :: post)).rest = post ∧
    (writeAll buf (pre ++ bad :: post)).accepted = buf.take (buf.length - remaining buf.length pre) := by
  have hl : ¬ buf.length = 0 := by have := remaining_le buf.length pre; omega
  have := go_bad buf 0 pre bad post { rest := pre ++ bad :: post } hb hbad (by simpa using hrem)
  simpa [writeAll, hl] using this

/-- conversely a bad outcome that is not reached (the benign prefix already completes the buffer) is harmless -/
theorem C20_error_unreached (buf : Bytes) (pre tl : List WOut) (hne : buf ≠ [])
    (hb : benign pre) (hrem : remaining buf.length pre = 0) :
    (writeAll buf (pre ++ tl)).ok = true ∧ (writeAll buf (pre ++ tl)).accepted = buf := by
  have hl : ¬ buf.length = 0 := by simpa using hne
  have := go_done buf 0 pre tl { rest := pre ++ tl } hb (by simpa using hrem)
  simpa [writeAll, hl] using this

/-- every script: normal return with exactly `buf`, or the assertion fired -/
theorem C20_dichotomy (buf : Bytes) (script : List WOut) :
    ((writeAll buf script).ok = true ∧ (writeAll buf script).accepted = buf) ∨ (writeAll buf script).ok = false := by
  cases h : (writeAll buf script).ok
  · exact .inr rfl
  · exact .inl ⟨rfl, C20_never_false_success buf script h⟩

/-! ### 4. what reached the descriptor is always a prefix of the buffer -/

theorem C20_accepted_prefix (buf : Bytes) (script : List WOut) :
    (writeAll buf script).accepted <+: buf := by
  unfold writeAll
  split
  · exact List.nil_prefix
  · obtain ⟨m, hm⟩ := go_accepted buf 0 script { rest := script }
    rw [hm]; simpa using List.take_prefix m buf

/-! ### 5. file level -/

theorem C20_frame (stored : Bytes) : (frameWrites stored).flatten = frame stored := by
  simp [frameWrites, frame]

theorem venc_ne_nil (v : Nat) : venc v ≠ [] := by
  unfold venc; split <;> simp

theorem frameWrites_nonempty (stored : Bytes) (h : stored ≠ []) : ∀ b ∈ frameWrites stored, b ≠ [] := by
  intro b hb
  simp only [frameWrites, List.mem_cons, List.not_mem_nil, or_false] at hb
  rcases hb with hb | hb | hb <;> subst hb
  · exact venc_ne_nil _
  · simp [fixed32]
  · exact h

/-- `rest` is exactly the outcomes not consumed: one outcome per write(2) issued -/
theorem writeAll_rest (buf : Bytes) (script : List WOut) :
    (writeAll buf script).rest = script.drop (writeAll buf script).calls.length := by
  unfold writeAll
  split
  · rfl
  · obtain ⟨cs, h1, h2⟩ := go_rest buf 0 script { rest := script }
    rw [h2, h1]; simp

/-- the unconsumed outcomes always come from the script -/
theorem writeAll_rest_suffix (buf : Bytes) (script : List WOut) : (writeAll buf script).rest <:+ script := by
  rw [writeAll_rest]; exact List.drop_suffix _ _

namespace WA

theorem many_benign (bufs : List Bytes) (script : List WOut) (r : WARes) (hb : benign script)
    (hne : ∀ b ∈ bufs, b ≠ []) (hr : r.ok = true) :
    (writeMany bufs script r).ok = true ∧ (writeMany bufs script r).accepted = r.accepted ++ bufs.flatten := by
  induction bufs generalizing script r with
  | nil => simp [writeMany, hr]
  | cons b bs ih =>
    have h1 := C20_bytes b script hb (hne b List.mem_cons_self)
    have hb' : benign (writeAll b script).rest := benign_of_suffix (writeAll_rest_suffix b script) hb
    simp only [writeMany, h1.1, if_true]
    have := ih (writeAll b script).rest
      { r with accepted := r.accepted ++ (writeAll b script).accepted,
               calls := r.calls ++ (writeAll b script).calls, ok := true } hb'
      (fun x hx => hne x (List.mem_cons_of_mem _ hx)) rfl
    refine ⟨this.1, ?_⟩
    rw [this.2, h1.2]; simp

/-- whatever the script: `writeMany` returns normally only if every buffer went out whole -/
theorem many_ok (bufs : List Bytes) (script : List WOut) (r : WARes)
    (hok : (writeMany bufs script r).ok = true) :
    (writeMany bufs script r).accepted = r.accepted ++ bufs.flatten := by
  induction bufs generalizing script r with
  | nil => simp [writeMany]
  | cons b bs ih =>
    simp only [writeMany] at hok ⊢
    split at hok
    · rename_i h1
      rw [if_pos h1, ih _ _ hok, C20_never_false_success b script h1]; simp
    · rename_i h1
      simp only [Bool.not_eq_true] at h1
      simp [h1] at hok

/-- whatever the script: the bytes that reached the descriptor are a prefix of the intended byte stream -/
theorem many_prefix (bufs : List Bytes) (script : List WOut) (r : WARes) :
    ∃ t, t <+: bufs.flatten ∧ (writeMany bufs script r).accepted = r.accepted ++ t := by
  induction bufs generalizing script r with
  | nil => exact ⟨[], List.nil_prefix, by simp [writeMany]⟩
  | cons b bs ih =>
    simp only [writeMany]
    split
    · rename_i h1
      obtain ⟨t, ht, he⟩ := ih (writeAll b script).rest
        { r with accepted := r.accepted ++ (writeAll b script).accepted,
                 calls := r.calls ++ (writeAll b script).calls, ok := (writeAll b script).ok }
      refine ⟨b ++ t, ?_, ?_⟩
      · simpa using (List.prefix_append_right_inj b).mpr ht
      · rw [he, C20_never_false_success b script h1]; simp
    · refine ⟨(writeAll b script).accepted, ?_, rfl⟩
      exact (C20_accepted_prefix b script).trans (by simp)

end WA

theorem C20_many (bufs : List Bytes) (script : List WOut) (hb : benign script) (hne : ∀ b ∈ bufs, b ≠ []) :
    (writeMany bufs script {}).ok = true ∧ (writeMany bufs script {}).accepted = bufs.flatten := by
  simpa using many_benign bufs script {} hb hne rfl

/-- file level, any script at all: a normal return means the descriptor received exactly the intended bytes -/
theorem C20_many_never_false_success (bufs : List Bytes) (script : List WOut)
    (hok : (writeMany bufs script {}).ok = true) : (writeMany bufs script {}).accepted = bufs.flatten := by
  simpa using many_ok bufs script {} hok

/-- file level, any script at all: what reached the descriptor is a prefix of the intended byte stream -/
theorem C20_many_prefix (bufs : List Bytes) (script : List WOut) :
    (writeMany bufs script {}).accepted <+: bufs.flatten := by
  obtain ⟨t, ht, he⟩ := many_prefix bufs script {}
  rw [he]; simpa using ht

/-- the writes of a whole file: three per block (data blocks, then the index block), one for the trailer -/
def fileWrites (blocks : List Bytes) (trailer : Bytes) : List Bytes :=
  (blocks.map frameWrites).flatten ++ [trailer]

theorem fileWrites_flatten (blocks : List Bytes) (trailer : Bytes) :
    (fileWrites blocks trailer).flatten = (blocks.map frame).flatten ++ trailer := by
  induction blocks with
  | nil => simp [fileWrites]
  | cons b bs ih =>
    simp only [fileWrites, List.map_cons, List.flatten_cons, List.flatten_append, List.append_assoc] at ih ⊢
    rw [ih, C20_frame]

/-- the bytes of a whole file do not depend on how write(2) fragments them -/
theorem C20_file (blocks : List Bytes) (trailer : Bytes) (script : List WOut) (hb : benign script)
    (hblocks : ∀ b ∈ blocks, b ≠ []) (htr : trailer ≠ []) :
    (writeMany (fileWrites blocks trailer) script {}).ok = true ∧
    (writeMany (fileWrites blocks trailer) script {}).accepted = (blocks.map frame).flatten ++ trailer := by
  have hne : ∀ b ∈ fileWrites blocks trailer, b ≠ [] := by
    intro b hb
    simp only [fileWrites, List.mem_append, List.mem_flatten, List.mem_map, List.mem_singleton] at hb
    rcases hb with ⟨l, ⟨s, hs, rfl⟩, hbl⟩ | rfl
    · exact frameWrites_nonempty s (hblocks s hs) b hbl
    · exact htr
  have := C20_many (fileWrites blocks trailer) script hb hne
  rw [fileWrites_flatten] at this
  exact this

/-! #### the model writer (`W.flush`, `W.finish`) hands exactly these buffers to `_write_all` -/

theorem BB_finish_ne_nil (b : BB) : b.finish ≠ [] := by
  simp [BB.finish, fixed32]

theorem fixed64_length (v : Nat) : (fixed64 v).length = 8 := by simp [fixed64, fixed32]

/-- the trailer is always 512 bytes -/
theorem Meta_write_length (m : Meta) : m.write.length = 512 := by
  simp only [Meta.write, Meta.fields, List.flatMap_cons, List.flatMap_nil, List.length_append, fixed64_length,
    List.length_nil, List.length_replicate, METADATA_SIZE]
  simp [fixed32]

theorem Meta_write_ne_nil (m : Meta) : m.write ≠ [] := by
  intro h; have := Meta_write_length m; rw [h] at this; simp at this

/-- `_mtbl_writer_flush`: nothing is written, or the process stops (compression failure), or exactly the three
    buffers of one block are appended; without compression the stored block is never empty -/
theorem C20_flush_writes (w : W) :
    w.flush.out = w.out ∨
    ∃ stored, w.flush.out = w.out ++ (frameWrites stored).flatten ∧ (w.cfg.compression = 0 → stored ≠ []) := by
  unfold W.flush
  by_cases he : w.data.empty = true
  · simp [he]
  · simp only [he, Bool.false_eq_true, if_false]
    cases hs : (if w.cfg.compression = 0 then some w.data.finish else w.cfg.comp w.data.finish) with
    | none => exact .inl rfl
    | some stored =>
      refine .inr ⟨stored, by simp only [C20_frame], ?_⟩
      intro h0
      simp only [h0, if_true, Option.some.injEq] at hs
      rw [← hs]; exact BB_finish_ne_nil _

/-- `_mtbl_writer_finish` after its flush: the index block (three writes) and the trailer (one write);
    under every benign fragmentation the descriptor receives exactly the bytes of `W.finish` -/
theorem C20_finish (w : W) (script : List WOut) (hb : benign script) :
    (writeMany (fileWrites [w.flush.index.finish] w.finishMeta.write) script {}).ok = true ∧
    w.flush.out ++ (writeMany (fileWrites [w.flush.index.finish] w.finishMeta.write) script {}).accepted
      = w.finish := by
  have := C20_file [w.flush.index.finish] w.finishMeta.write script hb
    (by intro b hb; simp only [List.mem_singleton] at hb; subst hb; exact BB_finish_ne_nil _)
    (Meta_write_ne_nil _)
  refine ⟨this.1, ?_⟩
  rw [this.2]
  simp [W.finish, W.finishMeta]

/-! ### 6. examples -/

example :
    writeAll [1, 2, 3, 4, 5] [.eintr, .short 2, .eintr, .eintr, .short 1, .full] =
      { accepted := [1, 2, 3, 4, 5], calls := [(0, 5), (0, 5), (2, 3), (2, 3), (2, 3), (3, 2)], ok := true, rest := [] } := by
  decide +kernel

example :
    writeAll [1, 2, 3, 4, 5] [.short 2, .error, .full] =
      { accepted := [1, 2], calls := [(0, 5), (2, 3)], ok := false, rest := [.full] } := by
  decide +kernel

example : (writeAll [1, 2, 3] [.short 7, .zero]).ok = true := by decide +kernel
example : (writeAll [1, 2, 3] [.short 0]).ok = false := by decide +kernel
example : (writeAll [1, 2, 3] [.eintr, .eintr, .zero]).ok = false := by decide +kernel

/-- `C20_calls` rejects a loop that does not advance `buf`, and one that does not shrink `size` -/
example : ¬ CallChain 5 0 [(0, 5), (0, 3)] [.short 2] := by simp [CallChain, WOut.got]
example : ¬ CallChain 5 0 [(0, 5), (2, 5)] [.short 2] := by simp [CallChain, WOut.got]
example : CallChain 5 0 [(0, 5), (2, 3)] [.short 2] := by simp [CallChain, WOut.got]

/-- when the script runs out the unconsumed outcomes are `[]`, and a sequence of `_write_all` calls consumes each
    outcome once: the single EINTR hits the first buffer only -/
example : (writeAll [1, 2] [.eintr]).rest = [] := by decide +kernel
example : (writeAll [1, 2] [.short 2]).rest = [] := by decide +kernel
example : (writeMany [[1, 2], [3]] [.eintr] {}).calls = [(0, 2), (0, 2), (0, 1)] := by decide +kernel

end Mtbl
