import MtblModel.Writer
import MtblProofs.OrderProofs
/-
  Part B (C08): the ordering gate of `mtbl_writer_add`.
  "mtbl_writer_add succeeds iff the key is strictly greater than the last ACCEPTED key;
   a refused add changes nothing."
-/
namespace Mtbl

/-- which adds succeed: a key is accepted iff nothing was accepted yet or it is strictly greater than the
    last accepted key -/
def gateSpec : Option Bytes → List Entry → List Res
  | _, [] => []
  | last, e :: es =>
    if last.isNone || (match last with | some l => bcmp e.key l == .gt | none => true)
    then Res.success :: gateSpec (some e.key) es else Res.failure :: gateSpec last es

/-- the accepted subsequence (same recursion as `gateSpec`) -/
def acceptedOf : Option Bytes → List Entry → List Entry
  | _, [] => []
  | last, e :: es =>
    if last.isNone || (match last with | some l => bcmp e.key l == .gt | none => true)
    then e :: acceptedOf (some e.key) es else acceptedOf last es

namespace Gate

/-- the gate condition of the specification, as a proposition -/
def accepts (last : Option Bytes) (k : Bytes) : Prop := ∀ l, last = some l → bcmp k l = .gt

theorem cond_iff (last : Option Bytes) (k : Bytes) :
    (last.isNone || (match last with | some l => bcmp k l == .gt | none => true)) = true ↔ accepts last k := by
  cases last with
  | none => simp [accepts]
  | some l => simp [accepts]

theorem gateSpec_cons (last : Option Bytes) (e : Entry) (es : List Entry) :
    gateSpec last (e :: es) =
      if last.isNone || (match last with | some l => bcmp e.key l == .gt | none => true)
      then Res.success :: gateSpec (some e.key) es else Res.failure :: gateSpec last es := rfl

theorem acceptedOf_cons (last : Option Bytes) (e : Entry) (es : List Entry) :
    acceptedOf last (e :: es) =
      if last.isNone || (match last with | some l => bcmp e.key l == .gt | none => true)
      then e :: acceptedOf (some e.key) es else acceptedOf last es := rfl

theorem gateSpec_accept {last : Option Bytes} {e : Entry} (es : List Entry) (h : accepts last e.key) :
    gateSpec last (e :: es) = Res.success :: gateSpec (some e.key) es := by
  rw [gateSpec_cons, if_pos ((cond_iff last e.key).mpr h)]

theorem gateSpec_reject {last : Option Bytes} {e : Entry} (es : List Entry) (h : ¬ accepts last e.key) :
    gateSpec last (e :: es) = Res.failure :: gateSpec last es := by
  rw [gateSpec_cons, if_neg (fun c => h ((cond_iff last e.key).mp c))]

theorem acceptedOf_accept {last : Option Bytes} {e : Entry} (es : List Entry) (h : accepts last e.key) :
    acceptedOf last (e :: es) = e :: acceptedOf (some e.key) es := by
  rw [acceptedOf_cons, if_pos ((cond_iff last e.key).mpr h)]

theorem acceptedOf_reject {last : Option Bytes} {e : Entry} (es : List Entry) (h : ¬ accepts last e.key) :
    acceptedOf last (e :: es) = acceptedOf last es := by
  rw [acceptedOf_cons, if_neg (fun c => h ((cond_iff last e.key).mp c))]

/-- the writer state after the optional block cut of `mtbl_writer_add` -/
def cut (w : W) (k v : Bytes) : W :=
  if w.data.estimate + 15 + k.length + v.length ≥ w.cfg.effBlockSize then
    ({ w with lastKey := shortestSep w.lastKey k, aborted := w.aborted || !sepAssertOk w.lastKey k } : W).flush
  else w

theorem add_eq (w : W) (k v : Bytes) :
    w.add k v =
      if w.m.countEntries > 0 ∧ bcmp k w.lastKey != .gt then (.failure, w) else
      (.success, { cut w k v with
                      lastKey := k,
                      m := { (cut w k v).m with countEntries := (cut w k v).m.countEntries + 1,
                                                bytesKeys := (cut w k v).m.bytesKeys + k.length,
                                                bytesValues := (cut w k v).m.bytesValues + v.length },
                      data := (cut w k v).data.add { key := k, val := v } }) := rfl

theorem flush_countEntries (w : W) : w.flush.m.countEntries = w.m.countEntries := by
  unfold W.flush
  split
  · rfl
  · by_cases hz : w.cfg.compression = 0
    · simp only [hz, if_true]
    · simp only [hz, if_false]
      cases w.cfg.comp w.data.finish <;> rfl

theorem flush_cfg (w : W) : w.flush.cfg = w.cfg := by
  unfold W.flush
  split
  · rfl
  · by_cases hz : w.cfg.compression = 0
    · simp only [hz, if_true]
    · simp only [hz, if_false]
      cases w.cfg.comp w.data.finish <;> rfl

theorem flush_aborted (w : W) (hc : ∀ raw, w.cfg.compression ≠ 0 → (w.cfg.comp raw).isSome) :
    w.flush.aborted = w.aborted := by
  unfold W.flush
  split
  · rfl
  · by_cases hz : w.cfg.compression = 0
    · simp only [hz, if_true]
    · obtain ⟨s, hs⟩ := Option.isSome_iff_exists.mp (hc w.data.finish hz)
      simp only [hz, if_false, hs]

theorem cut_countEntries (w : W) (k v : Bytes) : (cut w k v).m.countEntries = w.m.countEntries := by
  unfold cut
  split
  · rw [flush_countEntries]
  · rfl

theorem cut_cfg (w : W) (k v : Bytes) : (cut w k v).cfg = w.cfg := by
  unfold cut
  split
  · rw [flush_cfg]
  · rfl

theorem res_ne_success {r : Res} (h : r ≠ .success) : r = .failure := by
  cases r
  · exact absurd rfl h
  · rfl

end Gate

open Gate

/-! ### 1–3: one call -/

theorem C08_gate (w : W) (k v : Bytes) :
    (w.add k v).1 = .success ↔ (w.m.countEntries = 0 ∨ bcmp k w.lastKey = .gt) := by
  rw [add_eq]
  split
  · next h =>
    simp only [bne_iff_ne] at h
    constructor
    · intro c; cases c
    · rintro (c | c)
      · omega
      · exact absurd c h.2
  · next h =>
    simp only [bne_iff_ne] at h
    constructor
    · intro _
      by_cases c : bcmp k w.lastKey = .gt
      · exact .inr c
      · exact .inl (by false_or_by_contra; exact h ⟨by omega, c⟩)
    · intro _; rfl

theorem C08_gate_failure (w : W) (k v : Bytes) :
    (w.add k v).1 = .failure ↔ (w.m.countEntries > 0 ∧ bcmp k w.lastKey ≠ .gt) := by
  constructor
  · intro h
    have hn : ¬ (w.m.countEntries = 0 ∨ bcmp k w.lastKey = .gt) := by
      rw [← C08_gate w k v, h]; simp
    constructor
    · false_or_by_contra; exact hn (.inl (by omega))
    · intro c; exact hn (.inr c)
  · intro h
    apply res_ne_success
    rw [Ne, C08_gate]
    rintro (c | c)
    · omega
    · exact h.2 c

theorem C08_refused_noop (w : W) (k v : Bytes) (h : (w.add k v).1 = .failure) : (w.add k v).2 = w := by
  rw [add_eq] at h ⊢
  split
  · rfl
  · next hn => rw [if_neg hn] at h; cases h

theorem C08_lastkey (w : W) (k v : Bytes) (h : (w.add k v).1 = .success) :
    (w.add k v).2.lastKey = k ∧ (w.add k v).2.m.countEntries = w.m.countEntries + 1 := by
  rw [add_eq] at h ⊢
  split
  · next hn => rw [if_pos hn] at h; cases h
  · exact ⟨rfl, by simp only [cut_countEntries]⟩

theorem C08_cfg (w : W) (k v : Bytes) : (w.add k v).2.cfg = w.cfg := by
  rw [add_eq]
  split
  · rfl
  · exact cut_cfg w k v

/-! ### 4: histories -/

namespace Gate

/-- the invariant relating a writer state to the specification's "last accepted key" -/
def Inv (w : W) (last : Option Bytes) : Prop :=
  (w.m.countEntries = 0 ↔ last = none) ∧ (∀ l, last = some l → w.lastKey = l)

theorem Inv_new (cfg : WCfg) (pre : Nat) : Inv (W.new cfg pre) none :=
  ⟨⟨fun _ => rfl, fun _ => rfl⟩, fun _ h => by cases h⟩

theorem Inv_accepts_iff {w : W} {last : Option Bytes} (hi : Inv w last) (k v : Bytes) :
    (w.add k v).1 = .success ↔ accepts last k := by
  rw [C08_gate]
  cases last with
  | none => simp [accepts, hi.1.mpr rfl]
  | some l =>
    have h0 : w.m.countEntries ≠ 0 := fun c => by have := hi.1.mp c; cases this
    have hl : w.lastKey = l := hi.2 l rfl
    simp [accepts, h0, hl]

theorem Inv_step_accept {w : W} (k v : Bytes) (h : (w.add k v).1 = .success) :
    Inv (w.add k v).2 (some k) := by
  obtain ⟨h1, h2⟩ := C08_lastkey w k v h
  refine ⟨⟨fun c => by omega, fun c => by cases c⟩, fun l hl => ?_⟩
  cases hl
  exact h1

theorem addAll_nil (w : W) : w.addAll [] = ([], w) := rfl

theorem addAll_cons (w : W) (e : Entry) (es : List Entry) :
    w.addAll (e :: es) =
      ((w.add e.key e.val).1 :: ((w.add e.key e.val).2.addAll es).1, ((w.add e.key e.val).2.addAll es).2) := rfl

theorem history_gen (w : W) (last : Option Bytes) (es : List Entry) (hi : Inv w last) :
    (w.addAll es).1 = gateSpec last es := by
  induction es generalizing w last with
  | nil => rfl
  | cons e es ih =>
    rw [addAll_cons]
    by_cases ha : accepts last e.key
    · have hs := (Inv_accepts_iff hi e.key e.val).mpr ha
      rw [gateSpec_accept es ha, hs]
      simp only
      rw [ih _ _ (Inv_step_accept e.key e.val hs)]
    · have hs : (w.add e.key e.val).1 = .failure :=
        res_ne_success (fun c => ha ((Inv_accepts_iff hi e.key e.val).mp c))
      rw [gateSpec_reject es ha, hs, C08_refused_noop w e.key e.val hs]
      simp only
      rw [ih _ _ hi]

/-- refused adds leave no trace: the final writer state is the one obtained from the accepted subsequence -/
theorem state_gen (w : W) (last : Option Bytes) (es : List Entry) (hi : Inv w last) :
    (w.addAll es).2 = (w.addAll (acceptedOf last es)).2 := by
  induction es generalizing w last with
  | nil => rfl
  | cons e es ih =>
    by_cases ha : accepts last e.key
    · have hs := (Inv_accepts_iff hi e.key e.val).mpr ha
      rw [acceptedOf_accept es ha, addAll_cons, addAll_cons]
      simp only
      exact ih _ _ (Inv_step_accept e.key e.val hs)
    · have hs : (w.add e.key e.val).1 = .failure :=
        res_ne_success (fun c => ha ((Inv_accepts_iff hi e.key e.val).mp c))
      rw [acceptedOf_reject es ha, addAll_cons, C08_refused_noop w e.key e.val hs]
      simp only
      exact ih _ _ hi

/-- sortedness of the accepted subsequence, generalised over the last accepted key -/
theorem accepted_gen (last : Option Bytes) (es : List Entry) :
    StrictSorted (acceptedOf last es) ∧
      ∀ l, last = some l → ∀ e ∈ acceptedOf last es, bcmp l e.key = .lt := by
  induction es generalizing last with
  | nil => exact ⟨List.Pairwise.nil, fun _ _ _ h => by cases h⟩
  | cons e es ih =>
    by_cases ha : accepts last e.key
    · rw [acceptedOf_accept es ha]
      obtain ⟨h1, h2⟩ := ih (some e.key)
      refine ⟨StrictSorted_cons.mpr ⟨h2 e.key rfl, h1⟩, fun l hl x hx => ?_⟩
      have hle : bcmp l e.key = .lt := (bcmp_swap' e.key l).mp (ha l hl)
      rcases List.mem_cons.mp hx with rfl | hx
      · exact hle
      · exact bcmp_lt_trans hle (h2 e.key rfl x hx)
    · rw [acceptedOf_reject es ha]
      exact ih last

/-- on strictly sorted input (all keys above `last`) everything is accepted -/
theorem sorted_gen (last : Option Bytes) (es : List Entry) (hs : StrictSorted es)
    (hl : ∀ l, last = some l → ∀ e ∈ es, bcmp l e.key = .lt) :
    gateSpec last es = es.map (fun _ => Res.success) ∧ acceptedOf last es = es := by
  induction es generalizing last with
  | nil => exact ⟨rfl, rfl⟩
  | cons e es ih =>
    obtain ⟨h1, h2⟩ := StrictSorted_cons.mp hs
    have ha : accepts last e.key := fun l h => (bcmp_swap l e.key).mp (hl l h e List.mem_cons_self)
    have := ih (some e.key) h2 (fun l h x hx => by cases h; exact h1 x hx)
    rw [gateSpec_accept es ha, acceptedOf_accept es ha, this.1, this.2]
    exact ⟨rfl, rfl⟩

end Gate

theorem C08_history (cfg : WCfg) (pre : Nat) (es : List Entry) :
    ((W.new cfg pre).addAll es).1 = gateSpec none es :=
  history_gen _ _ es (Inv_new cfg pre)

/-- refused adds change nothing, over whole histories: the final writer state (hence the file) only depends on
    the accepted subsequence -/
theorem C08_history_state (cfg : WCfg) (pre : Nat) (es : List Entry) :
    ((W.new cfg pre).addAll es).2 = ((W.new cfg pre).addAll (acceptedOf none es)).2 :=
  state_gen _ _ es (Inv_new cfg pre)

theorem C08_accepted_sorted (es : List Entry) : StrictSorted (acceptedOf none es) :=
  (accepted_gen none es).1

/-- the accepted subsequence is exactly the entries whose add returned success -/
theorem C08_accepted_eq (last : Option Bytes) (es : List Entry) :
    acceptedOf last es =
      (es.zip (gateSpec last es)).filterMap (fun p => if p.2 = Res.success then some p.1 else none) := by
  induction es generalizing last with
  | nil => rfl
  | cons e es ih =>
    by_cases ha : accepts last e.key
    · rw [acceptedOf_accept es ha, gateSpec_accept es ha, ih]; rfl
    · rw [acceptedOf_reject es ha, gateSpec_reject es ha, ih]; rfl

/-- strictly sorted input is accepted entirely -/
theorem C08_sorted_all_accepted (es : List Entry) (hs : StrictSorted es) :
    gateSpec none es = es.map (fun _ => Res.success) ∧ acceptedOf none es = es :=
  sorted_gen none es hs (fun _ h => by cases h)

/-! ### 6: the separator assertion cannot fire in an accepted add -/

/-- strongest version: the only thing needed about a writer that has not accepted anything yet is that its
    `last_key` buffer is empty (then bytes_shortest_separator takes the early return).  Nothing is needed about
    the data block builder. -/
theorem C08_no_sep_abort' (w : W) (k v : Bytes) (hok : (w.add k v).1 = .success)
    (hc : ∀ raw, w.cfg.compression ≠ 0 → (w.cfg.comp raw).isSome) (ha : w.aborted = false)
    (hinv : w.m.countEntries = 0 → w.lastKey = []) : (w.add k v).2.aborted = false := by
  have hsep : sepAssertOk w.lastKey k = true := by
    rcases (C08_gate w k v).mp hok with h0 | hgt
    · rw [hinv h0]; simp [sepAssertOk, diffIndex]
    · exact sepAssertOk_of_lt ((bcmp_swap' k w.lastKey).mp hgt)
  rw [add_eq]
  split
  · exact ha
  · show (cut w k v).aborted = false
    unfold cut
    split
    · have := flush_aborted ({ w with lastKey := shortestSep w.lastKey k,
                                        aborted := w.aborted || !sepAssertOk w.lastKey k } : W) hc
      rw [this]
      simp [ha, hsep]
    · exact ha

theorem C08_no_sep_abort (w : W) (k v : Bytes) (hok : (w.add k v).1 = .success)
    (hc : ∀ raw, w.cfg.compression ≠ 0 → (w.cfg.comp raw).isSome) (ha : w.aborted = false)
    (hinv : w.m.countEntries = 0 → w.lastKey = [] ∧ w.data.empty = true) : (w.add k v).2.aborted = false :=
  C08_no_sep_abort' w k v hok hc ha (fun h => (hinv h).1)

/-- the hypothesis on `lastKey` cannot be dropped for arbitrary (unreachable) states: with nothing accepted,
    `last_key = [5]` and a block cut, adding `[3]` is accepted and trips the assertion. -/
theorem C08_no_sep_abort_needs_inv :
    ∃ (w : W) (k v : Bytes), (w.add k v).1 = .success ∧ w.aborted = false ∧ w.cfg.compression = 0 ∧
      w.m.countEntries = 0 ∧ (w.add k v).2.aborted = true :=
  ⟨{ (W.new { blockSize := 0, minBlockSize := 0 } 0) with lastKey := [5] }, [3], [], by decide, rfl, rfl, rfl,
    by decide⟩

/-- whole histories from a fresh writer: if the compressor never fails, no assertion fires -/
theorem C08_no_abort_history (cfg : WCfg) (pre : Nat) (es : List Entry)
    (hc : ∀ raw, cfg.compression ≠ 0 → (cfg.comp raw).isSome) :
    ((W.new cfg pre).addAll es).2.aborted = false := by
  suffices h : ∀ (w : W), w.cfg = cfg → w.aborted = false → (w.m.countEntries = 0 → w.lastKey = []) →
      (w.addAll es).2.aborted = false from h _ rfl rfl (fun _ => rfl)
  induction es with
  | nil => intro w _ ha _; exact ha
  | cons e es ih =>
    intro w hcfg ha hinv
    rw [addAll_cons]
    simp only
    cases hr : (w.add e.key e.val).1 with
    | failure =>
      rw [C08_refused_noop w e.key e.val hr]
      exact ih w hcfg ha hinv
    | success =>
      apply ih
      · rw [C08_cfg, hcfg]
      · exact C08_no_sep_abort' w e.key e.val hr (by rw [hcfg]; exact hc) ha hinv
      · intro h0
        have := (C08_lastkey w e.key e.val hr).2
        omega

end Mtbl
