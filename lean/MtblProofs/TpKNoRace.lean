import MtblProofs.TpFacts
import MtblProofs.TpKRace
import MtblProofs.TpKShape
/-
  NO DATA RACE in the k-client pool machine (MtblModel/TpK.lean): for every number of clients sharing the pool, every pool
  size, job count, delivery mode and schedule, no reachable state has two different threads — the pool owner, any client's
  caller, any client's result handler, any worker — whose next steps touch a common location, at least one writing, with no
  mutex held by both.  Access labels: those of the one-client machine (`Tp.accesses`, tied to mtbl/threadpool.c by the
  regenerated site table), evaluated on the thread's view of the k-client state and relabelled with the client's own queue.
-/
set_option linter.unusedSimpArgs false
namespace TpK

def toOPc : OPc → Tp.CPc
  | .destroy a => .destroy a
  | .kill t => .kill t
  | .joinW t => .joinW t
  | _ => .joinH
def ownerView (s : St) : Tp.St :=
  { max := s.max, njobs := s.njobs, ordered := s.ordered, thr := s.thr.map toThr, idle := s.idle, count := s.count,
    cpc := toOPc s.opc, hpc := .exited }
def ownerAccesses (s : St) : List KAccess := (Tp.accesses (ownerView s) .caller).map (kAcc 0)

def accK (s : St) : Who → List KAccess
  | .owner => ownerAccesses s
  | .client c => clientAccesses s c false
  | .handler c => clientAccesses s c true
  | .worker t => workerAccesses s t
def racyK (l1 l2 : List KAccess) : Bool := l1.any fun a => l2.any fun b => kConflict a b
def enabledK (s : St) (w : Who) : Bool := (step s (.run w 0)).isSome
/-- two different threads each have an enabled step, the steps touch a common location, at least one writes it, and no mutex
    is held by both -/
def raceBetweenK (s : St) (w1 w2 : Who) : Bool :=
  w1 != w2 && enabledK s w1 && enabledK s w2 && racyK (accK s w1) (accK s w2)

/-! ### relabelling -/
theorem kLoc_inj (c : Nat) (a b : Tp.Loc) : (kLoc c a == kLoc c b) = (a == b) := by
  rw [Bool.eq_iff_iff]; simp only [beq_iff_eq]
  cases a <;> cases b <;> simp [kLoc]
theorem kLock_inj (c : Nat) (a b : Tp.Lock) : (kLock c a == kLock c b) = (a == b) := by
  rw [Bool.eq_iff_iff]; simp only [beq_iff_eq]
  cases a <;> cases b <;> simp [kLock]

theorem contains_map_kLock (c : Nat) (ls : List Tp.Lock) (l : Tp.Lock) :
    (ls.map (kLock c)).contains (kLock c l) = ls.contains l := by
  induction ls with
  | nil => rfl
  | cons x xs ih =>
    simp only [List.map_cons, List.contains_cons, ih]
    have := kLock_inj c l x
    rw [this]

theorem kConflict_kAcc (c : Nat) (a b : Tp.Access) : kConflict (kAcc c a) (kAcc c b) = Tp.conflict a b := by
  unfold kConflict Tp.conflict kAcc
  simp only [kLoc_inj, List.any_map, Function.comp_def, contains_map_kLock]

theorem racyK_map (c : Nat) (l1 l2 : List Tp.Access) :
    racyK (l1.map (kAcc c)) (l2.map (kAcc c)) = Tp.racy l1 l2 := by
  simp only [racyK, Tp.racy, List.any_map, Function.comp_def, kConflict_kAcc]

theorem kConflict_symm (a b : KAccess) : kConflict a b = kConflict b a := by
  unfold kConflict
  have h1 : (a.loc == b.loc) = (b.loc == a.loc) := by
    rw [Bool.eq_iff_iff]; simp only [beq_iff_eq]; exact eq_comm
  have h2 : (a.locks.any fun l => b.locks.contains l) = (b.locks.any fun l => a.locks.contains l) := by
    rw [Bool.eq_iff_iff]
    simp only [List.any_eq_true, List.contains_iff_mem]
    constructor <;> rintro ⟨l, h1, h2⟩ <;> exact ⟨l, h2, h1⟩
  rw [h1, h2, Bool.or_comm]

theorem racyK_symm (l1 l2 : List KAccess) : racyK l1 l2 = racyK l2 l1 := by
  unfold racyK
  rw [Bool.eq_iff_iff]
  simp only [List.any_eq_true]
  constructor <;> rintro ⟨a, ha, b, hb, hc⟩ <;> exact ⟨b, hb, a, ha, by rwa [kConflict_symm]⟩

theorem racyK_false_iff (l1 l2 : List KAccess) :
    racyK l1 l2 = false ↔ ∀ a ∈ l1, ∀ b ∈ l2, kConflict a b = false := by
  unfold racyK
  constructor
  · intro h a ha b hb
    apply Classical.byContradiction; intro hn
    have : (l1.any fun a => l2.any fun b => kConflict a b) = true :=
      List.any_eq_true.mpr ⟨a, ha, List.any_eq_true.mpr ⟨b, hb, by simpa using hn⟩⟩
    rw [h] at this; cases this
  · intro h
    apply Classical.byContradiction; intro hn
    have hn' : (l1.any fun a => l2.any fun b => kConflict a b) = true := by simpa using hn
    obtain ⟨a, ha, h2⟩ := List.any_eq_true.mp hn'
    obtain ⟨b, hb, h3⟩ := List.any_eq_true.mp h2
    rw [h a ha b hb] at h3; cases h3

/-- accesses that involve no result queue are labelled the same whichever client's queue the relabelling names -/
def noRq (a : Tp.Access) : Bool :=
  (match a.loc with | .rqHead | .rqNthreads | .rqFinished => false | _ => true) &&
  a.locks.all fun l => match l with | .rq => false | _ => true

theorem kAcc_noRq (c c' : Nat) (a : Tp.Access) (h : noRq a = true) : kAcc c a = kAcc c' a := by
  unfold noRq at h
  simp only [Bool.and_eq_true, List.all_eq_true] at h
  unfold kAcc
  congr 1
  · cases hl : a.loc <;> simp [hl] at h <;> rfl
  · apply List.map_congr_left
    intro l hl
    have := h.2 l hl
    cases l <;> simp at this <;> rfl

theorem map_kAcc_noRq (c c' : Nat) (l : List Tp.Access) (h : l.all noRq = true) : l.map (kAcc c) = l.map (kAcc c') := by
  apply List.map_congr_left
  intro a ha
  exact kAcc_noRq c c' a (List.all_eq_true.mp h a ha)


/-! ### the views: thread records and shapes -/
theorem get_map' {α β : Type} [Inhabited α] [Inhabited β] (a : Array α) (f : α → β) (c : Nat) :
    (a.map f)[c]! = if c < a.size then f a[c]! else default := by
  grind

theorem isTop_toWPc (p : WPc) : Tp.isTop (toWPc p) = isTop p := by cases p <;> rfl

theorem SIdle.toTp {th : Thr} (h : SIdle th) : Tp.SIdle (toThr th) :=
  ⟨by show Tp.isTop (toWPc th.pc) = true; rw [isTop_toWPc]; exact h.1, h.2.1, h.2.2.1, h.2.2.2.1,
   by show th.rq.isSome = false; rw [h.2.2.2.2]; rfl⟩

theorem toWPc_gotJob {p : WPc} (h : p = .gotJob) : toWPc p = .gotJob := by rw [h]; rfl
theorem toWPc_doneOrd {p : WPc} (h : p = .doneOrd) : toWPc p = .doneOrd := by rw [h]; rfl

theorem SQ.toTp {o : Bool} {th : Thr} (h : SQ o th) : Tp.SQ' o (toThr th) := by
  unfold SQ at h; unfold Tp.SQ'
  split
  · rw [if_pos (by assumption)] at h
    refine ⟨by show th.rq.isSome = false; rw [h.1]; rfl, ?_⟩
    rcases h.2 with ⟨hp, a, b, c⟩ | ⟨hp, a, b, c⟩ | ⟨hp, a, b, c⟩
    · left
      refine ⟨?_, a, b, c⟩
      rcases hp with hp | hp
      · left; show Tp.isTop (toWPc th.pc) = true; rw [isTop_toWPc]; exact hp
      · right; exact toWPc_gotJob hp
    · right; left; exact ⟨toWPc_doneOrd hp, a, b, c⟩
    · right; right
      exact ⟨by show Tp.isTop (toWPc th.pc) = true; rw [isTop_toWPc]; exact hp, a, b, c⟩
  · rw [if_neg (by assumption)] at h
    exact ⟨by show Tp.isTop (toWPc th.pc) = true; rw [isTop_toWPc]; exact h.1, h.2.1, h.2.2.1, h.2.2.2.1,
      by show th.rq.isSome = false; rw [h.2.2.2.2]; rfl⟩

theorem view_thr (s : St) (c t : Nat) (ht : t < s.thr.size) : (view s c).thr[t]! = toThr s.thr[t]! := by
  show (s.thr.map toThr)[t]! = _
  rw [get_map', if_pos ht]
theorem ownerView_thr (s : St) (t : Nat) (ht : t < s.thr.size) : (ownerView s).thr[t]! = toThr s.thr[t]! := by
  show (s.thr.map toThr)[t]! = _
  rw [get_map', if_pos ht]

theorem accesses_worker_congr (s1 s2 : Tp.St) (t : Nat) (h : s1.thr = s2.thr) :
    Tp.accesses s1 (.worker t) = Tp.accesses s2 (.worker t) := by
  simp only [Tp.accesses, h]

/-! ### facts about a client's view, from the invariant -/
theorem toCPc_cHand {pc : CPc} {o : Bool} {t : Nat} (h : Tp.cHand (toCPc pc) o = some t) : t ∈ cHand pc o := by
  cases pc <;> simp [toCPc, Tp.cHand] at h
  · subst h; simp
  · rename_i t'
    simp only [cHand_enqueue]
    obtain ⟨h1, h2⟩ := h
    subst h2; simp [h1]

theorem view_hHand {s : St} {c t : Nat} (h : Tp.hHand (view s c).hpc = some t) : t ∈ hHand s.cl[c]!.hpc := by
  have : (view s c).hpc = if s.cl[c]!.hstarted then toHPc s.cl[c]!.hpc else .exited := rfl
  rw [this] at h
  split at h
  · cases hp : s.cl[c]!.hpc <;> simp [hp, toHPc, Tp.hHand] at h <;> simp [h]
  · simp [Tp.hHand] at h

theorem view_ch_facts {s : St} (hE : Excl s) (c : Nat) :
    (∀ t rest t' rest', (view s c).idle = t :: rest → (view s c).queue = t' :: rest' → t ≠ t') ∧
    (∀ t rest, (view s c).queue = t :: rest → Tp.cHand (view s c).cpc (view s c).ordered ≠ some t) ∧
    (∀ t rest, (view s c).idle = t :: rest → Tp.hHand (view s c).hpc ≠ some t) ∧
    (∀ t, Tp.cHand (view s c).cpc (view s c).ordered = some t → Tp.hHand (view s c).hpc ≠ some t) ∧
    (Tp.inDestroy (view s c).cpc = true → (view s c).hpc = .exited) := by
  have hi : (view s c).idle = s.idle := rfl
  have hq : (view s c).queue = s.cl[c]!.queue := rfl
  have hc : (view s c).cpc = toCPc s.cl[c]!.pc := rfl
  have ho : (view s c).ordered = s.ordered := rfl
  rw [hi, hq, hc, ho]
  refine ⟨fun t rest t' rest' h1 h2 e => ?_, fun t rest h1 h2 => ?_, fun t rest h1 h2 => ?_, fun t h1 h2 => ?_, fun h => ?_⟩
  · subst e
    have m : t ∈ clView s.ordered s.cl[c]! := mem_view_queue (by rw [h2]; simp)
    exact (hE.client m).1 (by rw [h1]; simp)
  · have m : t ∈ clView s.ordered s.cl[c]! := mem_view_queue (by rw [h1]; simp)
    have h5 := (hE.client m).2.2.2.2.1
    have a1 : 0 < (cHand s.cl[c]!.pc s.ordered).count t := List.count_pos_iff.mpr (toCPc_cHand h2)
    have a2 : 0 < s.cl[c]!.queue.count t := List.count_pos_iff.mpr (by rw [h1]; simp)
    simp only [clView, List.count_append] at h5; omega
  · have m : t ∈ clView s.ordered s.cl[c]! := by
      simp only [clView, List.mem_append]; right; exact view_hHand h2
    exact (hE.client m).1 (by rw [h1]; simp)
  · have m : t ∈ clView s.ordered s.cl[c]! := by
      simp only [clView, List.mem_append]; right; exact view_hHand h2
    have h5 := (hE.client m).2.2.2.2.1
    have a1 : 0 < (cHand s.cl[c]!.pc s.ordered).count t := List.count_pos_iff.mpr (toCPc_cHand h1)
    have a2 : 0 < (hHand s.cl[c]!.hpc).count t := List.count_pos_iff.mpr (view_hHand h2)
    simp only [clView, List.count_append] at h5; omega
  · exfalso
    cases hp : s.cl[c]!.pc <;> simp [hp, toCPc, Tp.inDestroy] at h


theorem Excl.lt_of_idle {s : St} (h : Excl s) {t : Nat} (m : t ∈ s.idle) : t < s.thr.size := (h.idle_free m).2.2.2.2
theorem Excl.lt_of_owner {s : St} (h : Excl s) {t : Nat} (m : t ∈ oHand s.opc) : t < s.thr.size := by
  apply Classical.byContradiction; intro hn
  have := h.fresh t (by omega)
  have a1 : 0 < (oHand s.opc).count t := List.count_pos_iff.mpr m
  simp only [occ] at this; omega

/-! ### caller and handler of the same client -/
theorem norace_same_client {s : St} (hE : Excl s) (c : Nat) :
    racyK (clientAccesses s c false) (clientAccesses s c true) = false := by
  unfold clientAccesses
  simp only [Bool.false_eq_true, if_false, if_true]
  rw [racyK_map]
  obtain ⟨d1, d3, d4, d6, d7⟩ := view_ch_facts hE c
  exact Tp.racy_ch_of _ d1 d3 d4 d6 d7

/-! ### a client's caller or handler and a worker -/
theorem view_cw_facts {s : St} (hE : Excl s) (hS : Sh s) (c : Nat) :
    (∀ t' rest, (view s c).idle = t' :: rest → Tp.SIdle (view s c).thr[t']!) ∧
    (∀ t, (view s c).cpc = .assign t → Tp.SIdle (view s c).thr[t]!) ∧
    (∀ t, (view s c).cpc = .kill t → Tp.SIdle (view s c).thr[t]!) := by
  refine ⟨fun t' rest h1 => ?_, fun t h1 => ?_, fun t h1 => ?_⟩
  · have m : t' ∈ s.idle := by
      have : (view s c).idle = s.idle := rfl
      rw [this] at h1; rw [h1]; simp
    rw [view_thr s c t' (hE.lt_of_idle m)]
    exact ((hS t').idle m).toTp
  · have hp : s.cl[c]!.pc = .assign t := by
      have : (view s c).cpc = toCPc s.cl[c]!.pc := rfl
      rw [this] at h1
      cases hp : s.cl[c]!.pc <;> simp [hp, toCPc] at h1
      rw [h1]
    have m := mem_view_assign (o := s.ordered) hp
    rw [view_thr s c t (hE.client m).2.2.2.1]
    exact (((hS t).cl c).assign hp).toTp
  · exfalso
    have : (view s c).cpc = toCPc s.cl[c]!.pc := rfl
    rw [this] at h1
    cases hp : s.cl[c]!.pc <;> simp [hp, toCPc] at h1

theorem view_hw_facts {s : St} (hE : Excl s) (hS : Sh s) (c : Nat) :
    (∀ t a, (view s c).hpc = .waitRes t a →
      Tp.SQ' (view s c).ordered (view s c).thr[t]! ∧ (a = true → (view s c).thr[t]!.running = true)) ∧
    (∀ t r, (view s c).hpc = .giveBack t r → Tp.SIdle (view s c).thr[t]!) := by
  have hv : (view s c).hpc = if s.cl[c]!.hstarted then toHPc s.cl[c]!.hpc else .exited := rfl
  refine ⟨fun t a h1 => ?_, fun t r h1 => ?_⟩
  · rw [hv] at h1
    split at h1
    · have hp : s.cl[c]!.hpc = .waitRes t a := by
        cases hp : s.cl[c]!.hpc <;> simp [hp, toHPc] at h1
        rw [h1.1, h1.2]
      have m := mem_view_wait (o := s.ordered) hp
      rw [view_thr s c t (hE.client m).2.2.2.1]
      have := ((hS t).cl c).wait a hp
      exact ⟨this.1.toTp, this.2⟩
    · cases h1
  · rw [hv] at h1
    split at h1
    · have hp : s.cl[c]!.hpc = .giveBack t r := by
        cases hp : s.cl[c]!.hpc <;> simp [hp, toHPc] at h1
        rw [h1.1, h1.2]
      have m := mem_view_give (o := s.ordered) hp
      rw [view_thr s c t (hE.client m).2.2.2.1]
      exact (((hS t).cl c).give r hp).toTp
    · cases h1

/-- a worker that is not about to enter a queue touches no queue -/
theorem worker_noRq (S : Tp.St) (t : Nat) (h : ∀ th, S.thr[t]? = some th → th.pc ≠ .selfEnq) :
    (Tp.accesses S (.worker t)).all noRq = true := by
  cases hth : S.thr[t]? with
  | none => simp [Tp.accesses, hth]
  | some th =>
    have hne := h th hth
    cases hp : th.pc with
    | top a => cases a <;> simp [Tp.accesses, hth, hp, Tp.acc, noRq]
    | gotJob => cases hr : th.rq <;> simp [Tp.accesses, hth, hp, hr, Tp.acc, noRq]
    | selfEnq => exact absurd hp hne
    | doneOrd => simp [Tp.accesses, hth, hp, Tp.acc, noRq]
    | exited => simp [Tp.accesses, hth, hp]

theorem view_thr_get? (s : St) (c t : Nat) (th : Tp.Thr) (h : (view s c).thr[t]? = some th) :
    ∃ th0, s.thr[t]? = some th0 ∧ th = toThr th0 := by
  have : (view s c).thr = s.thr.map toThr := rfl
  rw [this] at h
  simp only [Array.getElem?_map, Option.map_eq_some_iff] at h
  obtain ⟨a, h1, h2⟩ := h
  exact ⟨a, h1, h2.symm⟩

/-- the accesses of worker t, relabelled for client c — the same list as `workerAccesses` unless the worker is about to enter
    another client's queue -/
theorem workerAccesses_eq {s : St} (c t : Nat) (h : ∀ c', s.thr[t]!.pc = .selfEnq c' → c' = c) :
    workerAccesses s t = (Tp.accesses (view s c) (.worker t)).map (kAcc c) := by
  unfold workerAccesses
  rw [accesses_worker_congr (view s (enqClient s t)) (view s c) t rfl]
  by_cases hp : ∃ c', s.thr[t]!.pc = .selfEnq c'
  · obtain ⟨c', hp⟩ := hp
    have e : enqClient s t = c := by
      have hc := h c' hp
      unfold enqClient
      cases hth : s.thr[t]? with
      | none =>
        have : s.thr[t]! = default := by simp [getElem!_def, hth]
        rw [this] at hp; cases hp
      | some th =>
        have : s.thr[t]! = th := by simp [getElem!_def, hth]
        rw [this] at hp
        simp [hp, hc]
    rw [e]
  · apply map_kAcc_noRq
    apply worker_noRq
    intro th hth e
    obtain ⟨th0, h1, h2⟩ := view_thr_get? s c t th hth
    apply hp
    have : s.thr[t]! = th0 := by simp [getElem!_def, h1]
    rw [this]
    rw [h2] at e
    have e' : toWPc th0.pc = .selfEnq := e
    cases hq : th0.pc <;> simp [hq, toWPc] at e'
    exact ⟨_, rfl⟩

theorem norace_client_worker {s : St} (hE : Excl s) (hS : Sh s) (c t : Nat) (r : Bool) :
    racyK (clientAccesses s c r) (workerAccesses s t) = false := by
  by_cases hsame : ∀ c', s.thr[t]!.pc = .selfEnq c' → c' = c
  · rw [workerAccesses_eq c t hsame]
    unfold clientAccesses
    rw [racyK_map]
    cases r
    · simp only [Bool.false_eq_true, if_false]
      obtain ⟨e1, e2, e3⟩ := view_cw_facts hE hS c
      exact Tp.racy_cw_of _ t e1 e2 e3
    · simp only [if_true]
      obtain ⟨e1, e2⟩ := view_hw_facts hE hS c
      exact Tp.racy_hw_of _ t e1 e2
  · -- the worker is about to enter ANOTHER client's queue: disjoint domains
    have ⟨c', hp, hne⟩ : ∃ c', s.thr[t]!.pc = .selfEnq c' ∧ c' ≠ c := by
      apply Classical.byContradiction; intro hn
      apply hsame; intro c' hp
      apply Classical.byContradiction; intro hne
      exact hn ⟨c', hp, hne⟩
    have hw : 0 < wN s.thr[t]! := by simp [wN, hp]
    obtain ⟨f1, f2, f3⟩ := hE.self hw
    rw [racyK_symm, racyK_false_iff]
    intro a ha b hb
    have da := List.all_eq_true.mp (worker_inDomain s t) a ha
    have db : inDomain s c b = true := by
      cases r
      · exact List.all_eq_true.mp (caller_inDomain s c) b hb
      · exact List.all_eq_true.mp (handler_inDomain s c) b hb
    unfold kConflict
    by_cases hl : a.loc = b.loc
    · exfalso
      unfold inWorkerDomain at da
      unfold inDomain at db
      rw [← hl] at db
      rcases Bool.or_eq_true _ _ ▸ da with d1 | d1
      · have ht : thrOf a.loc = some t := by simpa using d1
        simp only [ht, Bool.or_eq_true, Bool.and_eq_true, List.contains_iff_mem] at db
        rcases db with db | db
        · exact f3 c db
        · exact f1 db.1
      · split at d1
        · rename_i c2 hpc
          have hr2 : rqOf a.loc = some c2 := by simpa using d1
          have ht : thrOf a.loc = none := by
            cases hloc : a.loc <;> simp [hloc, rqOf, thrOf] at hr2 ⊢
          simp only [ht, hr2, Bool.and_eq_true, beq_iff_eq] at db
          have hpc' : s.thr[t]!.pc = .selfEnq c2 := by
            cases hth : s.thr[t]? with
            | none => simp [hth] at hpc
            | some th => simp [hth] at hpc; simp [getElem!_def, hth, hpc]
          rw [hp] at hpc'; injection hpc' with e
          exact hne (e.trans db.1)
        · simp at d1
    · simp [hl]


/-! ### the owner -/
theorem owner_noRq (s : St) : (Tp.accesses (ownerView s) .caller).all noRq = true := by
  have hc : (ownerView s).cpc = toOPc s.opc := rfl
  have hi : (ownerView s).idle = s.idle := rfl
  cases ho : s.opc with
  | destroy a =>
    cases a
    · cases hid : s.idle <;> simp [Tp.accesses, hc, hi, ho, hid, toOPc, Tp.acc, noRq]
    · simp [Tp.accesses, hc, ho, toOPc]
  | kill t => simp [Tp.accesses, hc, ho, toOPc, Tp.acc, noRq]
  | joinW t => simp [Tp.accesses, hc, ho, toOPc, Tp.acc, noRq]
  | _ => simp [Tp.accesses, hc, ho, toOPc]

theorem ownerView_cw_facts {s : St} (hE : Excl s) (hS : Sh s) :
    (∀ t' rest, (ownerView s).idle = t' :: rest → Tp.SIdle (ownerView s).thr[t']!) ∧
    (∀ t, (ownerView s).cpc = .assign t → Tp.SIdle (ownerView s).thr[t]!) ∧
    (∀ t, (ownerView s).cpc = .kill t → Tp.SIdle (ownerView s).thr[t]!) := by
  have hc : (ownerView s).cpc = toOPc s.opc := rfl
  refine ⟨fun t' rest h1 => ?_, fun t h1 => ?_, fun t h1 => ?_⟩
  · have m : t' ∈ s.idle := by
      have : (ownerView s).idle = s.idle := rfl
      rw [this] at h1; rw [h1]; simp
    rw [ownerView_thr s t' (hE.lt_of_idle m)]
    exact ((hS t').idle m).toTp
  · exfalso
    rw [hc] at h1
    cases ho : s.opc <;> simp [ho, toOPc] at h1
  · have ho : s.opc = .kill t := by
      rw [hc] at h1
      cases ho : s.opc <;> simp [ho, toOPc] at h1
      rw [h1]
    rw [ownerView_thr s t (hE.lt_of_owner (by simp [ho]))]
    exact ((hS t).kill ho).toTp

theorem norace_owner_worker {s : St} (hE : Excl s) (hS : Sh s) (t : Nat) :
    racyK (ownerAccesses s) (workerAccesses s t) = false := by
  unfold ownerAccesses workerAccesses
  rw [map_kAcc_noRq 0 (enqClient s t) _ (owner_noRq s),
    accesses_worker_congr (view s (enqClient s t)) (ownerView s) t rfl, racyK_map]
  obtain ⟨e1, e2, e3⟩ := ownerView_cw_facts hE hS
  exact Tp.racy_cw_of _ t e1 e2 e3

/-- every access of the owner holds pool->m and goes to a pool field or to a field of an idle thread or of the thread the
    owner has taken from the idle list -/
def inOwnerDomain (s : St) (a : KAccess) : Bool :=
  a.locks.contains .pool && (rqOf a.loc == none) &&
  (match thrOf a.loc with | some t => s.idle.contains t || (oHand s.opc).contains t | none => true)

theorem owner_inDomain (s : St) : (ownerAccesses s).all (inOwnerDomain s) = true := by
  unfold ownerAccesses
  have hc : (ownerView s).cpc = toOPc s.opc := rfl
  have hi : (ownerView s).idle = s.idle := rfl
  cases ho : s.opc with
  | destroy a =>
    cases a
    · cases hid : s.idle <;>
        simp [Tp.accesses, hc, hi, ho, hid, toOPc, Tp.acc, kAcc, kLoc, kLock, inOwnerDomain, thrOf, rqOf]
    · simp [Tp.accesses, hc, ho, toOPc]
  | kill t => simp [Tp.accesses, hc, ho, toOPc, Tp.acc, kAcc, kLoc, kLock, inOwnerDomain, thrOf, rqOf]
  | joinW t => simp [Tp.accesses, hc, ho, toOPc, Tp.acc, kAcc, kLoc, kLock, inOwnerDomain, thrOf, rqOf]
  | _ => simp [Tp.accesses, hc, ho, toOPc]

theorem norace_owner_client {s : St} (hE : Excl s) (c : Nat) (r : Bool) :
    racyK (ownerAccesses s) (clientAccesses s c r) = false := by
  rw [racyK_false_iff]
  intro a ha b hb
  have da := List.all_eq_true.mp (owner_inDomain s) a ha
  have db : inDomain s c b = true := by
    cases r
    · exact List.all_eq_true.mp (caller_inDomain s c) b hb
    · exact List.all_eq_true.mp (handler_inDomain s c) b hb
  unfold inOwnerDomain at da
  simp only [Bool.and_eq_true, beq_iff_eq] at da
  obtain ⟨⟨dpool, drq⟩, dthr⟩ := da
  unfold kConflict
  by_cases hl : a.loc = b.loc
  · unfold inDomain at db
    rw [← hl] at db
    cases ht : thrOf a.loc with
    | some t =>
      simp only [ht, Bool.or_eq_true, Bool.and_eq_true, List.contains_iff_mem] at db dthr
      rcases db with db | db
      · exfalso
        have := hE.client db
        rcases dthr with d | d
        · exact this.1 d
        · exact this.2.1 d
      · have := pool_shared a b dpool (by simpa using db.2)
        rw [this]; simp
    | none =>
      rw [drq] at db
      simp only [ht] at db
      have := pool_shared a b dpool db
      rw [this]; simp
  · simp [hl]

/-! ### two workers -/
def inWorkerDomain2 (s : St) (t : Nat) (a : KAccess) : Bool :=
  thrOf a.loc == some t ||
    (match (s.thr[t]?).map (·.pc) with
     | some (WPc.selfEnq c) => rqOf a.loc == some c && a.locks.contains (.rq c)
     | _ => false)

theorem worker_inDomain2 (s : St) (t : Nat) : (workerAccesses s t).all (inWorkerDomain2 s t) = true := by
  unfold workerAccesses view enqClient
  cases hth : s.thr[t]? with
  | none => simp [Tp.accesses, hth]
  | some th =>
    cases hp : th.pc with
    | top a => cases a <;> simp [Tp.accesses, hth, hp, toThr, toWPc, Tp.acc, kAcc, kLoc, kLock, inWorkerDomain2, thrOf]
    | gotJob =>
      cases hr : th.rq <;>
        simp [Tp.accesses, hth, hp, hr, toThr, toWPc, Tp.acc, kAcc, kLoc, kLock, inWorkerDomain2, thrOf]
    | selfEnq c => simp [Tp.accesses, hth, hp, toThr, toWPc, Tp.acc, kAcc, kLoc, kLock, inWorkerDomain2, thrOf, rqOf]
    | doneOrd => simp [Tp.accesses, hth, hp, toThr, toWPc, Tp.acc, kAcc, kLoc, kLock, inWorkerDomain2, thrOf]
    | exited => simp [Tp.accesses, hth, hp, toThr, toWPc]

theorem rq_not_thr {l : KLoc} {c : Nat} (h : rqOf l = some c) : thrOf l = none := by
  cases l <;> simp [rqOf, thrOf] at h ⊢

theorem norace_worker_worker (s : St) (t1 t2 : Nat) (hne : t1 ≠ t2) :
    racyK (workerAccesses s t1) (workerAccesses s t2) = false := by
  rw [racyK_false_iff]
  intro a ha b hb
  have da := List.all_eq_true.mp (worker_inDomain2 s t1) a ha
  have db := List.all_eq_true.mp (worker_inDomain2 s t2) b hb
  unfold kConflict
  by_cases hl : a.loc = b.loc
  · unfold inWorkerDomain2 at da db
    rw [← hl] at db
    rcases Bool.or_eq_true _ _ ▸ da with d1 | d1
    · have h1 : thrOf a.loc = some t1 := by simpa using d1
      rcases Bool.or_eq_true _ _ ▸ db with d2 | d2
      · have h2 : thrOf a.loc = some t2 := by simpa using d2
        rw [h1] at h2; injection h2 with h2; exact absurd h2 hne
      · exfalso
        split at d2
        · simp only [Bool.and_eq_true, beq_iff_eq] at d2
          rw [rq_not_thr d2.1] at h1; cases h1
        · cases d2
    · split at d1
      · rename_i c1 _
        simp only [Bool.and_eq_true, beq_iff_eq] at d1
        rcases Bool.or_eq_true _ _ ▸ db with d2 | d2
        · exfalso
          have h2 : thrOf a.loc = some t2 := by simpa using d2
          rw [rq_not_thr d1.1] at h2; cases h2
        · split at d2
          · rename_i c2 _
            simp only [Bool.and_eq_true, beq_iff_eq] at d2
            have : c1 = c2 := by
              have := d1.1.symm.trans d2.1; injection this
            subst this
            have : (a.locks.any fun l => b.locks.contains l) = true := by
              rw [List.any_eq_true]
              exact ⟨.rq c1, by simpa using d1.2, d2.2⟩
            rw [this]; simp
          · cases d2
      · cases d1
  · simp [hl]

/-! ### all pairs -/
theorem norace_of_inv {s : St} (hE : Excl s) (hS : Sh s) (w1 w2 : Who) : raceBetweenK s w1 w2 = false := by
  have key : w1 ≠ w2 → racyK (accK s w1) (accK s w2) = false := by
    intro hne
    have cross : ∀ c1 c2 r1 r2, c1 ≠ c2 → racyK (clientAccesses s c1 r1) (clientAccesses s c2 r2) = false := by
      intro c1 c2 r1 r2 hc
      rw [racyK_false_iff]
      intro a ha b hb
      have da : inDomain s c1 a = true := by
        cases r1
        · exact List.all_eq_true.mp (caller_inDomain s c1) a ha
        · exact List.all_eq_true.mp (handler_inDomain s c1) a ha
      have db : inDomain s c2 b = true := by
        cases r2
        · exact List.all_eq_true.mp (caller_inDomain s c2) b hb
        · exact List.all_eq_true.mp (handler_inDomain s c2) b hb
      by_cases h1 : c1 < s.cl.size
      · by_cases h2 : c2 < s.cl.size
        · exact domain_disjoint hE h1 h2 hc a b da db
        · -- a client that does not exist touches nothing
          exfalso
          have : clientAccesses s c2 r2 = [] := by
            unfold clientAccesses view
            rw [cl_oob s c2 h2]
            cases r2 <;> simp [Tp.accesses, toCPc] <;> rfl
          rw [this] at hb; cases hb
      · exfalso
        have : clientAccesses s c1 r1 = [] := by
          unfold clientAccesses view
          rw [cl_oob s c1 h1]
          cases r1 <;> simp [Tp.accesses, toCPc] <;> rfl
        rw [this] at ha; cases ha
    rcases w1 with _ | c1 | c1 | t1 <;> rcases w2 with _ | c2 | c2 | t2
    · exact absurd rfl hne
    · exact norace_owner_client hE c2 false
    · exact norace_owner_client hE c2 true
    · exact norace_owner_worker hE hS t2
    · rw [racyK_symm]; exact norace_owner_client hE c1 false
    · exact cross c1 c2 false false (fun e => hne (by rw [e]))
    · by_cases e : c1 = c2
      · subst e; exact norace_same_client hE c1
      · exact cross c1 c2 false true e
    · exact norace_client_worker hE hS c1 t2 false
    · rw [racyK_symm]; exact norace_owner_client hE c1 true
    · by_cases e : c1 = c2
      · subst e; rw [racyK_symm]; exact norace_same_client hE c1
      · exact cross c1 c2 true false e
    · exact cross c1 c2 true true (fun e => hne (by rw [e]))
    · exact norace_client_worker hE hS c1 t2 true
    · rw [racyK_symm]; exact norace_owner_worker hE hS t1
    · rw [racyK_symm]; exact norace_client_worker hE hS c2 t1 false
    · rw [racyK_symm]; exact norace_client_worker hE hS c2 t1 true
    · exact norace_worker_worker s t1 t2 (fun e => hne (by rw [e]))
  unfold raceBetweenK
  by_cases hne : w1 = w2
  · simp [hne]
  · rw [key hne]; simp

/-- NO DATA RACE, any number of clients on one pool -/
theorem norace_reachable {n max njobs : Nat} {o : Bool} {s : St} (hr : Reachable n max njobs o s) :
    ∀ w1 w2, raceBetweenK s w1 w2 = false :=
  fun w1 w2 => norace_of_inv (inv_reachable hr).1 (inv_reachable hr).2 w1 w2

end TpK
