import MtblProofs.WriterProofs
import MtblProofs.FileEncProofs
/-
  Glue between the lemma library and the property theorems in MtblProps/: the writer's rules (C09) restated on the
  blocks of the canonical file themselves (`EBlock` fields) instead of on the entry groups they were built from,
  and two counting facts that discharge the restart-count side conditions of `EFile.open_ok` for tables with fewer
  than 2^32 - 1 entries.
-/
namespace Mtbl.Glue

open WriterP

/-! ### the blocks of the canonical file -/

theorem canonBlock_items_length (I : Nat) (B : List Entry) : (canonBlock I B).items.length = B.length :=
  BlockEnc.canonItems_length I 0 [] B

theorem canonBlock_items_e (I : Nat) (B : List Entry) : (canonBlock I B).items.map (·.e) = B :=
  BlockEnc.canonItems_map_e I B 0 []

/-- a block of the canonical file is the canonical block of the group of entries it holds, and that group is one of
    the writer's split -/
theorem mem_blocks (cfg : WCfg) (pre : Bytes) (es : List Entry) (b : EBlock)
    (hb : b ∈ (canonFile cfg pre es).blocks) :
    b.entries ∈ splitBlocks cfg [] es ∧ b = canonBlock cfg.interval b.entries := by
  rw [C09_blocks] at hb
  obtain ⟨B, hB, rfl⟩ := List.mem_map.mp hb
  rw [canonBlock_entries]
  exact ⟨hB, rfl⟩

theorem blocks_getElem? (cfg : WCfg) (pre : Bytes) (es : List Entry) (j : Nat) (b : EBlock)
    (hb : (canonFile cfg pre es).blocks[j]? = some b) :
    (splitBlocks cfg [] es)[j]? = some b.entries ∧ b = canonBlock cfg.interval b.entries := by
  rw [C09_blocks, List.getElem?_map] at hb
  cases hB : (splitBlocks cfg [] es)[j]? with
  | none => rw [hB] at hb; cases hb
  | some B =>
    rw [hB] at hb
    have : canonBlock cfg.interval B = b := Option.some.inj hb
    subst this
    rw [canonBlock_entries]
    exact ⟨rfl, rfl⟩

/-- the groups of the split are exactly the entry lists of the blocks -/
theorem blocks_entries (cfg : WCfg) (pre : Bytes) (es : List Entry) :
    (canonFile cfg pre es).blocks.map EBlock.entries = splitBlocks cfg [] es := by
  rw [C09_blocks, List.map_map]
  conv => rhs; rw [← List.map_id (splitBlocks cfg [] es)]
  apply List.map_congr_left
  intro B _
  exact canonBlock_entries cfg.interval B

/-! ### cadence on the block itself -/

/-- **cadence**, stated on the fields of the block: restart points are the entry indices `0, I, 2I, …`; an entry at a
    restart point shares nothing, every other entry shares exactly the longest common prefix with the key before it -/
theorem cadence_block (I : Nat) (hi : 1 ≤ I) (B : List Entry) :
    (∀ i, i ∈ (canonBlock I B).restarts ↔ i < max (canonBlock I B).items.length 1 ∧ i % I = 0) ∧
    (canonBlock I B).restarts.Pairwise (· < ·) ∧
    (∀ i it, (canonBlock I B).items[i]? = some it →
      it.shared = if i % I = 0 then 0
                  else lcp ((((canonBlock I B).items[i - 1]?).map (·.e.key)).getD []) it.e.key) := by
  obtain ⟨h1, h2, h3⟩ := C09_cadence I hi B
  refine ⟨fun i => by rw [canonBlock_items_length]; exact h1 i, h2, fun i it h => ?_⟩
  rw [(h3 i it h).2]
  have : (B[i - 1]?).map (·.key) = ((canonBlock I B).items[i - 1]?).map (·.e.key) := by
    conv => lhs; rw [← canonBlock_items_e I B]
    rw [List.getElem?_map, Option.map_map]
    rfl
  rw [this]

/-! ### counting restart points -/

theorem length_le_of_pairwise_lt (N : Nat) : ∀ (l : List Nat) (lo : Nat), l.Pairwise (· < ·) →
    (∀ x ∈ l, lo ≤ x ∧ x < N) → l.length ≤ N - lo := by
  intro l
  induction l with
  | nil => intro lo _ _; exact Nat.zero_le _
  | cons a l ih =>
    intro lo hp hb
    rw [List.pairwise_cons] at hp
    have ha := hb a (List.mem_cons_self ..)
    have := ih (a + 1) hp.2 (fun x hx => ⟨hp.1 x hx, (hb x (List.mem_cons_of_mem _ hx)).2⟩)
    simp only [List.length_cons]
    omega

/-- a block of `n` entries has at most `max n 1` restart points -/
theorem canonRestarts_length_le (I n : Nat) (hi : 1 ≤ I) : (canonRestarts I n).length ≤ max n 1 := by
  have := length_le_of_pairwise_lt (max n 1) (canonRestarts I n) 0
    (BlockEnc.canonRestarts_pairwise I n hi)
    (fun x hx => ⟨Nat.zero_le _, ((mem_canonRestarts I n x hi).mp hx).1⟩)
  omega

theorem length_le_flatten {α : Type} : ∀ (L : List (List α)), (∀ B ∈ L, B ≠ []) → L.length ≤ L.flatten.length := by
  intro L
  induction L with
  | nil => intro _; exact Nat.le_refl _
  | cons B L ih =>
    intro h
    have hB : 0 < B.length := List.length_pos_iff.mpr (h B (List.mem_cons_self ..))
    have := ih (fun B' hB' => h B' (List.mem_cons_of_mem _ hB'))
    simp only [List.length_cons, List.flatten_cons, List.length_append]
    omega

/-- no more data blocks than entries -/
theorem splitBlocks_length_le (cfg : WCfg) (es : List Entry) : (splitBlocks cfg [] es).length ≤ es.length := by
  have := length_le_flatten (splitBlocks cfg [] es) (splitBlocks_ne_nil cfg es [])
  rw [splitBlocks_flatten] at this
  exact this

/-- with fewer than 2^32 - 1 entries, every data block's restart count fits its 32-bit field -/
theorem canonFile_restarts_small (cfg : WCfg) (pre : Bytes) (es : List Entry) (hi : 1 ≤ cfg.interval)
    (hn : es.length < 2^32 - 1) :
    ∀ b ∈ (canonFile cfg pre es).blocks, b.restarts.length < 2^32 - 1 := by
  intro b hb
  rw [C09_blocks] at hb
  obtain ⟨B, hB, rfl⟩ := List.mem_map.mp hb
  have h1 := canonRestarts_length_le cfg.interval B.length hi
  have h2 := (mem_split_sub cfg es hB).length_le
  show (canonRestarts cfg.interval B.length).length < 2^32 - 1
  omega

/-- … and so does the index block's -/
theorem canonFile_indexRestarts_small (cfg : WCfg) (pre : Bytes) (es : List Entry) (hi : 1 ≤ cfg.interval)
    (hn : es.length < 2^32 - 1) :
    (canonFile cfg pre es).indexRestarts.length < 2^32 - 1 := by
  have h1 := canonRestarts_length_le cfg.interval (splitBlocks cfg [] es).length hi
  have h2 := splitBlocks_length_le cfg es
  show (canonRestarts cfg.interval (splitBlocks cfg [] es).length).length < 2^32 - 1
  omega

/-! ### the trailer the reader sees -/

/-- every field of the recount fits 64 bits when the file is shorter than 2^64 bytes and the compression type fits -/
theorem fmeta_fields_lt (f : EFile) (comp : Bytes → Bytes) (hsize : (f.encode comp).length < 2^64)
    (hbs : f.blockSizeField < 2^64) (hcompr : f.compression < 2^64)
    (hcnt : (f.blocks.flatMap (·.entries)).length < 2^64 ∧ f.blocks.length < 2^64 ∧
      ((f.blocks.flatMap (·.entries)).map (·.key.length)).sum < 2^64 ∧
      ((f.blocks.flatMap (·.entries)).map (·.val.length)).sum < 2^64) :
    ∀ x ∈ (FileEnc.fmeta f comp).fields, x < 2^64 := by
  have hlen := FileEnc.encode_length f comp
  unfold FileEnc.indexOff at hlen
  intro x hx
  simp only [Meta.fields, FileEnc.fmeta, List.mem_cons, List.not_mem_nil, or_false] at hx
  rcases hx with rfl | rfl | rfl | rfl | rfl | rfl | rfl | rfl | rfl <;> omega

/-- for a version-2 file the metadata `EFile.encode` stores is the recount -/
theorem fmeta_eq_recount (f : EFile) (comp : Bytes → Bytes) (hv : f.version = .v2) :
    FileEnc.fmeta f comp = f.recount comp := by
  unfold FileEnc.fmeta EFile.recount FileEnc.idxFrame FileEnc.fdata EFile.entries
  simp only [hv, FVersion.toV]

/-- the metadata held by the reader that opened the encoding of a version-2 file: the recount, every field
    truncated to 64 bits -/
theorem openedRd_m (f : EFile) (comp : Bytes → Bytes) (decomp : Nat → Bytes → Option Bytes) (verify : Bool)
    (hv : f.version = .v2) :
    (FileEnc.openedRd f comp decomp verify).m = FileEnc.trunc (f.recount comp) := by
  show FileEnc.rmeta f comp = _
  unfold FileEnc.rmeta
  rw [fmeta_eq_recount f comp hv, hv]
  rfl

end Mtbl.Glue
