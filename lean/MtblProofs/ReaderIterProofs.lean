import MtblProofs.TableDefs
import MtblProofs.BlockIterProofs
import MtblProofs.OrderProofs
/-
  The reader iterator (mtbl/reader.c: reader_iter, reader_iter_init, reader_iter_seek, reader_iter_next)
  refines the abstract cursor of MtblModel/Spec.lean on every well-formed table (`TableOK`),
  for every finite history of `next` / `seek` calls (properties C01, C02, C03).
  Always the repaired code (`fixF1 = true`).
-/
namespace Mtbl

namespace RI

/-! ### list plumbing: entries of the table addressed as (block, position) -/

theorem flatMap_get (d : Blk × BlockView) : ∀ (l : List (Blk × BlockView)) (j p : Nat), j < l.length →
    p < (l.getD j d).2.ents.length →
    (l.flatMap fun b => b.2.ents)[((l.take j).map fun b => b.2.ents.length).sum + p]? =
      (l.getD j d).2.ents[p]? := by
  intro l
  induction l with
  | nil => intro j p h; simp at h
  | cons x xs ih =>
    intro j p hj hp
    cases j with
    | zero =>
      simp only [List.take_zero, List.map_nil, List.sum_nil, Nat.zero_add, List.flatMap_cons]
      simp only [List.getD_cons_zero] at hp ⊢
      rw [List.getElem?_append_left hp]
    | succ j =>
      simp only [List.take_succ_cons, List.map_cons, List.sum_cons, List.flatMap_cons,
        List.getD_cons_succ] at hp ⊢
      rw [Nat.add_assoc, List.getElem?_append_right (Nat.le_add_right _ _), Nat.add_sub_cancel_left]
      exact ih j p (by simpa using hj) hp

theorem take_succ_sum (d : Blk × BlockView) : ∀ (l : List (Blk × BlockView)) (j : Nat), j < l.length →
    ((l.take (j + 1)).map fun b => b.2.ents.length).sum =
      ((l.take j).map fun b => b.2.ents.length).sum + (l.getD j d).2.ents.length := by
  intro l
  induction l with
  | nil => intro j h; simp at h
  | cons x xs ih =>
    intro j hj
    cases j with
    | zero => simp
    | succ j =>
      have := ih j (by simpa using hj)
      simp only [List.take_succ_cons, List.map_cons, List.sum_cons, List.getD_cons_succ] at this ⊢
      omega

end RI

namespace TableView

theorem base_zero (t : TableView) : t.base 0 = 0 := by simp [base]

theorem base_succ (t : TableView) {j : Nat} (hj : j < t.nb) :
    t.base (j + 1) = t.base j + (t.view j).n :=
  RI.take_succ_sum _ t.blocks j hj

theorem base_nb (t : TableView) : t.base t.nb = t.entries.length := by
  simp only [base, nb, List.take_length, entries, List.length_flatMap]

/-- entry `p` of block `j` is entry `base j + p` of the table -/
theorem entries_get (t : TableView) {j p : Nat} (hj : j < t.nb) (hp : p < (t.view j).n) :
    t.entries[t.base j + p]? = (t.view j).ents[p]? := by
  exact RI.flatMap_get (default, ⟨[], [], []⟩) t.blocks j p hj hp

/-- the same, with the key / value accessors of `BlockView` -/
theorem entries_get_kv (t : TableView) {j p : Nat} (hj : j < t.nb) (hp : p < (t.view j).n) :
    t.entries[t.base j + p]? = some ⟨(t.view j).key p, (t.view j).val p⟩ := by
  rw [t.entries_get hj hp]
  have hp' : p < (t.view j).ents.length := hp
  simp only [BlockView.key, BlockView.val, List.getD_eq_getElem?_getD, List.getElem?_eq_getElem hp',
    Option.getD_some]

end TableView

namespace RI

/-! ### order facts on the whole entry list -/

theorem sorted_get {es : List Entry} (hs : StrictSorted es) {i i' : Nat} {e e' : Entry} (h : i < i')
    (he : es[i]? = some e) (he' : es[i']? = some e') : bcmp e.key e'.key = .lt := by
  obtain ⟨hi, rfl⟩ := List.getElem?_eq_some_iff.mp he
  obtain ⟨hi', rfl⟩ := List.getElem?_eq_some_iff.mp he'
  exact (List.pairwise_iff_getElem.mp hs) i i' hi hi' h

theorem sorted_get_le {es : List Entry} (hs : StrictSorted es) {i i' : Nat} {e e' : Entry} (h : i ≤ i')
    (he : es[i]? = some e) (he' : es[i']? = some e') : bcmp e.key e'.key ≠ .gt := by
  by_cases e1 : i = i'
  · subst e1
    rw [he] at he'
    cases he'
    rw [bcmp_refl]; decide
  · rw [sorted_get hs (by omega) he he']; decide

variable {r : Rd} {t : TableView}

/-- all entries of the blocks before block `j` are below `k` as soon as their separators are -/
theorem before_base_lt (ok : TableOK r t) {j : Nat} {k : Bytes} (hj : j ≤ t.nb)
    (hsep : ∀ i, i < j → bcmp (t.sep i) k = .lt) :
    ∀ i e, i < t.base j → t.entries[i]? = some e → bcmp e.key k = .lt := by
  intro i e hi he
  cases j with
  | zero => rw [t.base_zero] at hi; omega
  | succ j' =>
    have hj' : j' < t.nb := by omega
    have hn := ok.nonempty j' hj'
    rw [t.base_succ hj'] at hi
    have hlast := t.entries_get_kv hj' (show (t.view j').n - 1 < (t.view j').n by omega)
    have h1 := sorted_get_le ok.sorted (show i ≤ t.base j' + ((t.view j').n - 1) by omega) he hlast
    exact bcmp_le_lt_trans h1 (bcmp_le_lt_trans (ok.sep_lo j' hj') (hsep j' (by omega)))

/-- step (b): the global lower bound is found in the block selected by the index -/
theorem lb_decomp (ok : TableOK r t) {k : Bytes} {j : Nat} (hj : j < t.nb)
    (hjs : lowerBound t.index.2.ents k = j) :
    lowerBound t.entries k = t.base j + lowerBound (t.view j).ents k := by
  obtain ⟨_, hlo, hhi⟩ := BlockIter.lowerBound_iff.mp hjs
  have hhi := hhi (by rw [ok.index_n]; exact hj)
  obtain ⟨hp, plo, phi⟩ := BlockIter.lowerBound_iff.mp (rfl : lowerBound (t.view j).ents k = _)
  generalize lowerBound (t.view j).ents k = p at hp plo phi
  have hbase := t.base_succ hj
  have hn := ok.nonempty j hj
  have hN : t.base j + (t.view j).n ≤ t.entries.length := by
    have hlast := t.entries_get_kv hj (show (t.view j).n - 1 < (t.view j).n by omega)
    obtain ⟨h, _⟩ := List.getElem?_eq_some_iff.mp hlast
    omega
  apply lowerBound_unique _ ok.sorted.sorted k _ (by omega)
  · intro i e hi he
    by_cases hib : i < t.base j
    · exact before_base_lt ok (Nat.le_of_lt hj) hlo i e hib he
    · have hq : i - t.base j < (t.view j).n := by omega
      have := t.entries_get_kv hj hq
      rw [show t.base j + (i - t.base j) = i by omega, he] at this
      cases this
      exact plo _ (by omega)
  · intro i e hi he hlt
    by_cases hpn : p < (t.view j).n
    · have h0 := t.entries_get_kv hj hpn
      have h1 := sorted_get_le ok.sorted hi h0 he
      exact phi hpn (bcmp_le_lt_trans h1 hlt)
    · have hpe : p = (t.view j).n := by omega
      by_cases hj1 : j + 1 < t.nb
      · have h0 := t.entries_get_kv hj1 (ok.nonempty _ hj1)
        rw [hbase] at h0
        have h1 := sorted_get_le ok.sorted (show t.base j + (t.view j).n + 0 ≤ i by omega) h0 he
        have h2 := bcmp_lt_trans (ok.sep_hi j hj1) (bcmp_le_lt_trans h1 hlt)
        exact hhi h2
      · have e1 : j + 1 = t.nb := by omega
        rw [e1, t.base_nb] at hbase
        obtain ⟨h, _⟩ := List.getElem?_eq_some_iff.mp he
        omega

/-- the index has no separator `≥ k`: nothing in the table is `≥ k` -/
theorem lb_end (ok : TableOK r t) {k : Bytes} (hjs : lowerBound t.index.2.ents k = t.nb) :
    lowerBound t.entries k = t.entries.length := by
  obtain ⟨_, hlo, _⟩ := BlockIter.lowerBound_iff.mp hjs
  apply lowerBound_unique _ ok.sorted.sorted k _ (Nat.le_refl _)
  · intro i e hi he
    rw [← t.base_nb] at hi
    exact before_base_lt ok (Nat.le_refl _) hlo i e hi he
  · intro i e hi he
    obtain ⟨h, _⟩ := List.getElem?_eq_some_iff.mp he
    omega

end RI

/-! ### the representation invariant -/

/-- the data block held by the iterator is block `jb` of the table, the block iterator stands on its
    entry `p` (`p = n`: exhausted), `ji` is the position of the index iterator -/
structure Held (t : TableView) (it : RIter) (c : Cur) (ji : Nat) (b : Blk) (jb p : Nat) : Prop where
  jb_lt : jb < t.nb
  b_eq : b = t.blk jb
  off_eq : it.blockOffset = t.off jb          -- the conjunct that the defective code (F1) breaks
  bi_rep : BRep (t.blk jb) (t.view jb) it.bi p
  ji_eq : ji < t.nb → jb = ji
  live_ji : it.valid = true → ji = jb
  pos_first : it.valid = true → it.first = true → c.pos = t.base jb + p
  pos_next : it.valid = true → it.first = false → p < (t.view jb).n ∧ c.pos = t.base jb + p + 1

/-- reader iterator `it` over reader `r` (decoding to `t`) represents the abstract cursor `c` -/
structure Rep (r : Rd) (t : TableView) (it : RIter) (c : Cur) : Prop where
  rd_eq : it.r = r
  held : ∃ ji, BRep t.index.1 t.index.2 it.idx ji ∧
    ∀ b, it.b = some b → ∃ jb p, Held t it c ji b jb p
  none_dead : it.b = none → it.valid = false
  live : it.valid = true → c.stuck = false
  dead : it.valid = false → c.stuck = true ∨ t.entries.length ≤ c.pos

namespace RI

variable {r : Rd} {t : TableView}

theorem ff {P : Prop} (h : false = true) : P := by cases h
theorem tf {P : Prop} (h : true = false) : P := by cases h
theorem ns {α : Type} {a : α} {P : Prop} (h : (none : Option α) = some a) : P := by cases h

/-! ### the index iterator selects a block -/

theorem idxOffset_lt (ok : TableOK r t) {idx : BI} {j : Nat} (h : BRep t.index.1 t.index.2 idx j)
    (hj : j < t.nb) : idxOffset idx = some (t.off j) := by
  have hj' : j < t.index.2.n := by rw [ok.index_n]; exact hj
  have hv := (biValid_iff ok.index_ok h).mpr hj'
  unfold idxOffset
  rw [if_pos hv, (h.at_entry hj').2.2.2.1, ok.index_val j hj]

theorem idxOffset_end (ok : TableOK r t) {idx : BI} (h : BRep t.index.1 t.index.2 idx t.nb) :
    idxOffset idx = none := by
  have hv : ¬ biValid idx = true := by
    rw [biValid_iff ok.index_ok h, ok.index_n]; omega
  unfold idxOffset
  rw [if_neg hv]

theorem blockAtIndex_spec (ok : TableOK r t) {idx : BI} {j : Nat}
    (h : BRep t.index.1 t.index.2 idx j) (hj : j < t.nb) :
    ∃ bi0, blockAtIndex r idx = some (some (t.off j, t.blk j, bi0)) ∧
      BRep (t.blk j) (t.view j) bi0 (t.view j).n := by
  obtain ⟨bi0, h1, h2⟩ := biInit_spec (ok.block_ok j hj)
  refine ⟨bi0, ?_, h2⟩
  unfold blockAtIndex
  rw [idxOffset_lt ok h hj]
  simp only [ok.get_block j hj, h1]

/-! ### reader_iter_next -/

theorem rFinish_spec {it : RIter} {j p : Nat} (hr : it.r = r)
    (hidx : BRep t.index.1 t.index.2 it.idx j) (hj : j < t.nb) (hb : it.b = some (t.blk j))
    (hoff : it.blockOffset = t.off j) (hbi : BRep (t.blk j) (t.view j) it.bi p)
    (hp : p < (t.view j).n) (hfirst : it.first = false) (hvalid : it.valid = true) :
    (rFinish it).1 = (specNext it.kind t.entries ⟨t.base j + p, false⟩).1 ∧
    Rep r t (rFinish it).2 (specNext it.kind t.entries ⟨t.base j + p, false⟩).2 ∧
    (rFinish it).2.kind = it.kind := by
  have hes : t.entries[t.base j + p]? = some ⟨it.bi.key, it.bi.val⟩ := by
    rw [t.entries_get_kv hj hp, (hbi.at_entry hp).2.2.1, (hbi.at_entry hp).2.2.2.1]
  unfold rFinish specNext
  simp only [hes]
  by_cases hin : inBound it.kind it.bi.key = true
  · simp only [hin, if_true, Bool.false_eq_true, if_false]
    refine ⟨trivial, ?_, trivial⟩
    exact { rd_eq := hr
            held := ⟨j, hidx, fun b hb' => ⟨j, p,
              { jb_lt := hj, b_eq := (by rw [hb] at hb'; cases hb'; rfl), off_eq := hoff, bi_rep := hbi,
                ji_eq := fun _ => rfl, live_ji := fun _ => rfl,
                pos_first := fun _ h => (by rw [hfirst] at h; cases h),
                pos_next := fun _ _ => ⟨hp, rfl⟩ }⟩⟩
            none_dead := fun h => (by rw [hb] at h; cases h)
            live := fun _ => rfl
            dead := fun h => (by rw [hvalid] at h; cases h) }
  · simp only [hin, Bool.false_eq_true, if_false]
    refine ⟨trivial, ?_, trivial⟩
    exact { rd_eq := hr
            held := ⟨j, hidx, fun b hb' => ⟨j, p,
              { jb_lt := hj, b_eq := (by rw [hb] at hb'; cases hb'; rfl), off_eq := hoff, bi_rep := hbi,
                ji_eq := fun _ => rfl, live_ji := fun _ => rfl,
                pos_first := fun h => ff h,
                pos_next := fun h => ff h }⟩⟩
            none_dead := fun _ => rfl
            live := fun h => ff h
            dead := fun _ => Or.inl rfl }

/-- the body of reader_iter_next after the optional block_iter_next (`fixF1 = true`) -/
def rStep (it : RIter) : Option (Option Entry × RIter) :=
  let it := { it with first := false, valid := biValid it.bi }
  if it.valid then some (rFinish it) else
  let idx := biNext it.idx
  let it := { it with b := none, idx }
  if !biValid idx then some (none, it) else
  match blockAtIndex it.r idx with
  | none => none
  | some none => some (none, it)
  | some (some (off, b, bi0)) =>
    let bi := biSeekToFirst bi0
    let it := { it with b := some b, bi, valid := biValid bi, blockOffset := off }
    if !it.valid then some (none, it) else some (rFinish it)

theorem rNext_eq (it : RIter) : rNext true it =
    if !it.valid then some (none, it)
    else rStep (if !it.first then { it with bi := biNext it.bi } else it) := rfl

theorem rStep_spec (ok : TableOK r t) {it : RIter} {j p : Nat} (hr : it.r = r)
    (hidx : BRep t.index.1 t.index.2 it.idx j) (hj : j < t.nb) (hb : it.b = some (t.blk j))
    (hoff : it.blockOffset = t.off j) (hbi : BRep (t.blk j) (t.view j) it.bi p) :
    ∃ it', rStep it = some ((specNext it.kind t.entries ⟨t.base j + p, false⟩).1, it') ∧
      Rep r t it' (specNext it.kind t.entries ⟨t.base j + p, false⟩).2 ∧ it'.kind = it.kind := by
  by_cases hp : p < (t.view j).n
  · have hv := (biValid_iff (ok.block_ok j hj) hbi).mpr hp
    have h := rFinish_spec (r := r) (it := { it with first := false, valid := biValid it.bi })
      hr hidx hj hb hoff hbi hp rfl hv
    have e : rStep it = some (rFinish { it with first := false, valid := biValid it.bi }) := by
      unfold rStep; exact if_pos hv
    refine ⟨_, ?_, h.2.1, h.2.2⟩
    rw [e, ← h.1]
  · have hpe : p = (t.view j).n := by have := hbi.p_le; omega
    have hv : biValid it.bi = false := by
      rw [← Bool.not_eq_true, biValid_iff (ok.block_ok j hj) hbi]; exact hp
    have hidx' := biNext_spec ok.index_ok hidx
    rw [ok.index_n] at hidx'
    by_cases hj1 : j + 1 < t.nb
    · rw [Nat.min_eq_left (by omega)] at hidx'
      have hvi : biValid (biNext it.idx) = true :=
        (biValid_iff ok.index_ok hidx').mpr (by rw [ok.index_n]; exact hj1)
      obtain ⟨bi0, hblk, hbi0⟩ := blockAtIndex_spec ok hidx' hj1
      have hbi1 := biSeekToFirst_spec_pos (ok.block_ok _ hj1) hbi0 (ok.nonempty _ hj1)
      have hvb := (biValid_iff (ok.block_ok _ hj1) hbi1).mpr (ok.nonempty _ hj1)
      have h := rFinish_spec (r := r)
        (it := { r := r, blockOffset := t.off (j + 1), b := some (t.blk (j + 1)),
                 bi := biSeekToFirst bi0, idx := biNext it.idx, first := false, valid := true,
                 kind := it.kind })
        rfl hidx' hj1 rfl rfl hbi1 (ok.nonempty _ hj1) rfl rfl
      have hc : t.base (j + 1) + 0 = t.base j + p := by rw [Nat.add_zero, t.base_succ hj, hpe]
      rw [hc] at h
      unfold rStep
      simp only [hv, hvi, hr, hblk, hvb, Bool.false_eq_true, if_false, Bool.not_true]
      exact ⟨_, congrArg some (Prod.ext h.1 rfl), h.2.1, h.2.2⟩
    · have e1 : j + 1 = t.nb := by omega
      rw [Nat.min_eq_right (by omega)] at hidx'
      have hvi : biValid (biNext it.idx) = false := by
        rw [← Bool.not_eq_true, biValid_iff ok.index_ok hidx', ok.index_n]; omega
      have hnone : t.entries[t.base j + p]? = none := by
        apply List.getElem?_eq_none
        rw [hpe, ← t.base_succ hj, e1, t.base_nb]; exact Nat.le_refl _
      unfold rStep specNext
      simp only [hv, hvi, hnone, Bool.false_eq_true, if_false, Bool.not_false, if_true]
      refine ⟨_, rfl, ?_, rfl⟩
      exact { rd_eq := hr
              held := ⟨t.nb, hidx', fun b hb' => ns hb'⟩
              none_dead := fun _ => rfl
              live := fun h => ff h
              dead := fun _ => Or.inl rfl }

/-- an iterator that is not valid represents every cursor that can only fail -/
theorem rep_of_dead {it : RIter} {c c' : Cur} (h : Rep r t it c) (hv : it.valid = false)
    (hc : c'.stuck = true ∨ t.entries.length ≤ c'.pos) : Rep r t it c' := by
  obtain ⟨ji, hidx, hh⟩ := h.held
  exact { rd_eq := h.rd_eq
          held := ⟨ji, hidx, fun b hb => by
            obtain ⟨jb, p, H⟩ := hh b hb
            exact ⟨jb, p, { jb_lt := H.jb_lt, b_eq := H.b_eq, off_eq := H.off_eq, bi_rep := H.bi_rep,
                            ji_eq := H.ji_eq, live_ji := H.live_ji,
                            pos_first := fun h => (by rw [hv] at h; cases h),
                            pos_next := fun h => (by rw [hv] at h; cases h) }⟩⟩
          none_dead := h.none_dead
          live := fun h => (by rw [hv] at h; cases h)
          dead := fun _ => hc }

theorem rNext_dead {it : RIter} (h : it.valid = false) : rNext true it = some (none, it) := by
  rw [rNext_eq, h]; rfl

theorem rNext_first {it : RIter} (h1 : it.valid = true) (h2 : it.first = true) :
    rNext true it = rStep it := by
  rw [rNext_eq, h1, h2]; rfl

theorem rNext_notfirst {it : RIter} (h1 : it.valid = true) (h2 : it.first = false) :
    rNext true it = rStep { it with bi := biNext it.bi } := by
  rw [rNext_eq, h1, h2]; rfl

/-- a cursor that can only fail -/
theorem specNext_dead (kind : Kind) (es : List Entry) {c : Cur}
    (h : c.stuck = true ∨ es.length ≤ c.pos) :
    (specNext kind es c).1 = none ∧ (specNext kind es c).2.stuck = true := by
  unfold specNext
  by_cases hst : c.stuck = true
  · rw [if_pos hst]; exact ⟨rfl, hst⟩
  · rw [if_neg hst]
    have hd : es.length ≤ c.pos := by rcases h with h | h; exact absurd h hst; exact h
    rw [List.getElem?_eq_none hd]
    exact ⟨rfl, rfl⟩

end RI

open RI in
/-- **reader_iter_next** refines `specNext` -/
theorem rNext_spec {r : Rd} {t : TableView} (ok : TableOK r t) {it : RIter} {c : Cur}
    (h : Rep r t it c) :
    ∃ it', rNext true it = some ((specNext it.kind t.entries c).1, it') ∧
      Rep r t it' (specNext it.kind t.entries c).2 ∧ it'.kind = it.kind := by
  by_cases hv : it.valid = true
  · have hst := h.live hv
    obtain ⟨ji, hidx, hh⟩ := h.held
    have hb : ∃ b, it.b = some b := by
      cases hb : it.b with
      | none => have := h.none_dead hb; rw [hv] at this; cases this
      | some b => exact ⟨b, rfl⟩
    obtain ⟨b, hb⟩ := hb
    obtain ⟨jb, p, H⟩ := hh b hb
    have hji := H.live_ji hv
    subst hji
    rw [H.b_eq] at hb
    by_cases hf : it.first = true
    · have hc : c = ⟨t.base ji + p, false⟩ := by
        cases c; simp only [Cur.mk.injEq]; exact ⟨H.pos_first hv hf, hst⟩
      rw [hc, rNext_first hv hf]
      exact rStep_spec ok h.rd_eq hidx H.jb_lt hb H.off_eq H.bi_rep
    · have hf : it.first = false := by simpa using hf
      obtain ⟨hp, hpos⟩ := H.pos_next hv hf
      have hc : c = ⟨t.base ji + (p + 1), false⟩ := by
        cases c; simp only [Cur.mk.injEq]; exact ⟨hpos, hst⟩
      rw [hc, rNext_notfirst hv hf]
      have hbi := biNext_spec (ok.block_ok _ H.jb_lt) H.bi_rep
      rw [Nat.min_eq_left (by omega)] at hbi
      exact rStep_spec ok (it := { it with bi := biNext it.bi }) h.rd_eq hidx H.jb_lt hb H.off_eq hbi
  · have hv : it.valid = false := by simpa using hv
    have hs := specNext_dead it.kind t.entries (h.dead hv)
    exact ⟨it, by rw [hs.1, rNext_dead hv], rep_of_dead h hv (Or.inl hs.2), rfl⟩

namespace RI
variable {r : Rd} {t : TableView}

/-! ### reader_iter_seek -/

/-- reader_iter_seek after the (optional) seek of the index iterator -/
def rSeekTail (it : RIter) (k : Bytes) : Option RIter :=
  match idxOffset it.idx with
  | none => some { it with valid := false }
  | some off =>
    if it.b.isNone || it.blockOffset != off then
      match getBlock it.r off with
      | none => none
      | some b => match biInit b with
        | none => none
        | some bi => some { it with blockOffset := off, b := some b, bi := biSeek bi k, first := true, valid := true }
    else some { it with bi := biSeek it.bi k, first := true, valid := true }

theorem rSeek_eq (it : RIter) (k : Bytes) : rSeek it k =
    rSeekTail (if needsIndexSeek it k then { it with idx := biSeek it.idx k } else it) k := rfl

/-- the part of `Held` that does not mention the cursor -/
structure HeldS (t : TableView) (it : RIter) (b : Blk) (jb p : Nat) : Prop where
  jb_lt : jb < t.nb
  b_eq : b = t.blk jb
  off_eq : it.blockOffset = t.off jb
  bi_rep : BRep (t.blk jb) (t.view jb) it.bi p

theorem rSeekTail_spec (ok : TableOK r t) {it : RIter} {k : Bytes} (hr : it.r = r)
    (hidx : BRep t.index.1 t.index.2 it.idx (lowerBound t.index.2.ents k))
    (hh : ∀ b, it.b = some b → ∃ jb p, HeldS t it b jb p) :
    ∃ it', rSeekTail it k = some it' ∧ Rep r t it' ⟨lowerBound t.entries k, false⟩ ∧
      it'.kind = it.kind := by
  generalize hjs : lowerBound t.index.2.ents k = js at hidx
  have hle : js ≤ t.nb := by have := hidx.p_le; rw [ok.index_n] at this; exact this
  by_cases hjn : js < t.nb
  · have hoffs := idxOffset_lt ok hidx hjn
    have hlb := lb_decomp ok hjn hjs
    have bok := ok.block_ok js hjn
    by_cases hre : (it.b.isNone || it.blockOffset != t.off js) = true
    · obtain ⟨bi0, hinit, hbi0⟩ := biInit_spec bok
      have hbi := blockSeek_spec' (t := k) bok hbi0
      have e : rSeekTail it k = some
          { it with blockOffset := t.off js, b := some (t.blk js), bi := biSeek bi0 k,
                    first := true, valid := true } := by
        unfold rSeekTail
        simp only [hoffs, hre, if_true, hr, ok.get_block js hjn, hinit]
      refine ⟨_, e, ?_, rfl⟩
      exact { rd_eq := hr
              held := ⟨js, hidx, fun b hb' => ⟨js, _,
                { jb_lt := hjn, b_eq := (by cases hb'; rfl), off_eq := rfl, bi_rep := hbi,
                  ji_eq := fun _ => rfl, live_ji := fun _ => rfl,
                  pos_first := fun _ _ => hlb, pos_next := fun _ h => tf h }⟩⟩
              none_dead := fun h => (by cases h)
              live := fun _ => rfl
              dead := fun h => tf h }
    · have hre' : it.b.isNone = false ∧ it.blockOffset = t.off js := by
        cases h1 : it.b.isNone
        · cases h2 : (it.blockOffset != t.off js)
          · exact ⟨rfl, by simpa using h2⟩
          · rw [h1, h2] at hre; exact absurd rfl hre
        · rw [h1] at hre; exact absurd rfl hre
      have hb : ∃ b, it.b = some b := by
        cases hb : it.b with
        | none => rw [hb] at hre'; exact tf hre'.1
        | some b => exact ⟨b, rfl⟩
      obtain ⟨b, hb⟩ := hb
      obtain ⟨jb, p, HS⟩ := hh b hb
      have hjb : jb = js := ok.offs_inj jb js HS.jb_lt hjn (by rw [← HS.off_eq, hre'.2])
      subst hjb
      have hbi := blockSeek_spec' (t := k) bok HS.bi_rep
      have e : rSeekTail it k = some { it with bi := biSeek it.bi k, first := true, valid := true } := by
        unfold rSeekTail
        simp only [hoffs, hre, Bool.false_eq_true, if_false]
      refine ⟨_, e, ?_, rfl⟩
      exact { rd_eq := hr
              held := ⟨jb, hidx, fun b' hb' => ⟨jb, _,
                { jb_lt := hjn, b_eq := (by rw [← HS.b_eq]; exact Option.some.inj (hb'.symm.trans hb)),
                  off_eq := HS.off_eq, bi_rep := hbi,
                  ji_eq := fun _ => rfl, live_ji := fun _ => rfl,
                  pos_first := fun _ _ => hlb, pos_next := fun _ h => tf h }⟩⟩
              none_dead := fun h => (by rw [hb] at h; cases h)
              live := fun _ => rfl
              dead := fun h => tf h }
  · have hjn : js = t.nb := by omega
    subst hjn
    have e : rSeekTail it k = some { it with valid := false } := by
      unfold rSeekTail
      simp only [idxOffset_end ok hidx]
    refine ⟨_, e, ?_, rfl⟩
    exact { rd_eq := hr
            held := ⟨t.nb, hidx, fun b hb => by
              obtain ⟨jb, p, HS⟩ := hh b hb
              exact ⟨jb, p, { jb_lt := HS.jb_lt, b_eq := HS.b_eq, off_eq := HS.off_eq,
                              bi_rep := HS.bi_rep, ji_eq := fun h => absurd h (Nat.lt_irrefl _),
                              live_ji := fun h => ff h, pos_first := fun h => ff h,
                              pos_next := fun h => ff h }⟩⟩
            none_dead := fun _ => rfl
            live := fun h => ff h
            dead := fun _ => Or.inr (by rw [lb_end ok hjs]; exact Nat.le_refl _) }

theorem noIndexSeek_facts {it : RIter} {k : Bytes} (h : needsIndexSeek it k = false) :
    it.first = false ∧ it.b.isNone = false ∧ biValid it.bi = true ∧ bcmp it.bi.key k ≠ .gt ∧
    biValid it.idx = true ∧ bcmp it.idx.key k ≠ .lt := by
  unfold needsIndexSeek at h
  split at h
  · cases h
  · next h1 =>
    split at h
    · cases h
    · next h2 =>
      split at h
      · cases h
      · next h3 =>
        split at h
        · cases h
        · next h4 =>
          split at h
          · cases h
          · next h5 =>
            simp only [Bool.or_eq_true, not_or, Bool.not_eq_true] at h1
            simp only [Bool.not_eq_true', Bool.not_eq_false] at h2 h4
            simp only [beq_iff_eq] at h3 h5
            exact ⟨h1.1, h1.2, h2, h3, h4, h5⟩

/-- step (a): a key of block `j` that is `≤ k` puts every earlier separator below `k` -/
theorem sep_lt_of_key_le (ok : TableOK r t) {j p : Nat} {k : Bytes} (hj : j < t.nb)
    (hp : p < (t.view j).n) (hk : bcmp ((t.view j).key p) k ≠ .gt) :
    ∀ i, i < j → bcmp (t.sep i) k = .lt := by
  intro i hi
  have h0 : bcmp ((t.view j).key 0) k ≠ .gt := by
    by_cases e : p = 0
    · rw [← e]; exact hk
    · have := BlockIter.key_lt_of_sorted (ok.block_ok j hj).sorted (show 0 < p by omega) hp
      rw [bcmp_lt_le_trans this hk]; decide
  cases j with
  | zero => omega
  | succ j' =>
    have h1 : bcmp (t.sep j') k = .lt := bcmp_lt_le_trans (ok.sep_hi j' hj) h0
    by_cases e : i = j'
    · rw [e]; exact h1
    · have : bcmp (t.sep i) (t.sep j') = .lt :=
        BlockIter.key_lt_of_sorted ok.index_ok.sorted (show i < j' by omega)
          (by rw [ok.index_n]; omega)
      exact bcmp_lt_trans this h1

end RI

open RI in
/-- **reader_iter_seek** refines `specSeek`, for every key, from every state -/
theorem rSeek_spec {r : Rd} {t : TableView} (ok : TableOK r t) {it : RIter} {c : Cur}
    (h : Rep r t it c) (k : Bytes) :
    ∃ it', rSeek it k = some it' ∧ Rep r t it' ⟨lowerBound t.entries k, false⟩ ∧
      it'.kind = it.kind := by
  obtain ⟨ji, hidx, hh⟩ := h.held
  have hhS : ∀ b, it.b = some b → ∃ jb p, HeldS t it b jb p := by
    intro b hb
    obtain ⟨jb, p, H⟩ := hh b hb
    exact ⟨jb, p, ⟨H.jb_lt, H.b_eq, H.off_eq, H.bi_rep⟩⟩
  rw [rSeek_eq]
  by_cases hn : needsIndexSeek it k = true
  · rw [if_pos hn]
    exact rSeekTail_spec ok (it := { it with idx := biSeek it.idx k }) h.rd_eq
      (blockSeek_spec' ok.index_ok hidx)
      (fun b hb => by
        obtain ⟨jb, p, HS⟩ := hhS b hb
        exact ⟨jb, p, ⟨HS.jb_lt, HS.b_eq, HS.off_eq, HS.bi_rep⟩⟩)
  · rw [if_neg hn]
    have hn : needsIndexSeek it k = false := by simpa using hn
    obtain ⟨_, f2, f3, f4, f5, f6⟩ := noIndexSeek_facts hn
    have hb : ∃ b, it.b = some b := by
      cases hb : it.b with
      | none => rw [hb] at f2; exact tf f2
      | some b => exact ⟨b, rfl⟩
    obtain ⟨b, hb⟩ := hb
    obtain ⟨jb, p, H⟩ := hh b hb
    have hji : ji < t.index.2.n := (biValid_iff ok.index_ok hidx).mp f5
    have hji' : ji < t.nb := by rw [← ok.index_n]; exact hji
    have hjb := H.ji_eq hji'
    subst hjb
    have hp : p < (t.view jb).n := (biValid_iff (ok.block_ok _ H.jb_lt) H.bi_rep).mp f3
    rw [(H.bi_rep.at_entry hp).2.2.1] at f4
    rw [(hidx.at_entry hji).2.2.1] at f6
    have hlb : lowerBound t.index.2.ents k = jb :=
      BlockIter.lowerBound_eq_of (Nat.le_of_lt hji) (sep_lt_of_key_le ok hji' hp f4) (fun _ => f6)
    rw [← hlb] at hidx
    exact rSeekTail_spec ok h.rd_eq hidx hhS

namespace RI
variable {r : Rd} {t : TableView}

/-! ### reader_iter / reader_iter_init -/

theorem blockAtIndex_end (ok : TableOK r t) {idx : BI} (h : BRep t.index.1 t.index.2 idx t.nb) :
    blockAtIndex r idx = some none := by
  unfold blockAtIndex
  rw [idxOffset_end ok h]

theorem lowerBound_empty_key (es : List Entry) : lowerBound es [] = 0 := by
  cases es with
  | nil => rfl
  | cons e es =>
    rw [lowerBound_cons, if_neg]
    cases e.key <;> simp [bcmp]

end RI

open RI in
/-- **reader_iter / reader_iter_init**: never aborts; NULL only if nothing is at or after the start key;
    otherwise the new iterator represents the cursor at the lower bound of the start key
    (`seekTo = none`: start = empty key = first entry). -/
theorem readerIterInit_spec {r : Rd} {t : TableView} (ok : TableOK r t) (seekTo : Option Bytes)
    (kind : Kind) :
    (readerIterInit true r seekTo kind = some none ∧
      lowerBound t.entries (seekTo.getD []) = t.entries.length) ∨
    (∃ it, readerIterInit true r seekTo kind = some (some it) ∧ it.kind = kind ∧
      Rep r t it ⟨lowerBound t.entries (seekTo.getD []), false⟩) := by
  obtain ⟨idx0, hinit, hidx0⟩ := biInit_spec ok.index_ok
  rw [← ok.index_blk] at hinit
  cases seekTo with
  | none =>
    simp only [Option.getD_none]
    by_cases hnb : 0 < t.nb
    · right
      have hidx := biSeekToFirst_spec_pos ok.index_ok hidx0 (by rw [ok.index_n]; exact hnb)
      obtain ⟨bi0, hblk, hbi0⟩ := blockAtIndex_spec ok hidx hnb
      have hbi := biSeekToFirst_spec_pos (ok.block_ok 0 hnb) hbi0 (ok.nonempty 0 hnb)
      refine ⟨{ r := r, b := some (t.blk 0), bi := biSeekToFirst bi0, idx := biSeekToFirst idx0,
                kind := kind, blockOffset := t.off 0 }, ?_, rfl, ?_⟩
      · simp only [readerIterInit, hinit, hblk, if_true]
      · exact { rd_eq := rfl
                held := ⟨0, hidx, fun b hb' => ⟨0, 0,
                  { jb_lt := hnb, b_eq := (by cases hb'; rfl), off_eq := rfl, bi_rep := hbi,
                    ji_eq := fun _ => rfl, live_ji := fun _ => rfl,
                    pos_first := fun _ _ => (by
                      show lowerBound t.entries [] = t.base 0 + 0
                      rw [lowerBound_empty_key, t.base_zero]),
                    pos_next := fun _ h => tf h }⟩⟩
                none_dead := fun h => (by cases h)
                live := fun _ => rfl
                dead := fun h => tf h }
    · left
      have hnb : t.nb = 0 := by omega
      have hidx := biSeekToFirst_spec_empty ok.index_ok hidx0 (by rw [ok.index_n]; exact hnb)
      rw [ok.index_n] at hidx
      have hblk := blockAtIndex_end ok hidx
      refine ⟨by simp only [readerIterInit, hinit, hblk], ?_⟩
      have : t.entries.length = 0 := by rw [← t.base_nb, hnb, t.base_zero]
      have := lowerBound_le t.entries []
      omega
  | some k0 =>
    simp only [Option.getD_some]
    have hidx := blockSeek_spec' (t := k0) ok.index_ok hidx0
    generalize hjs : lowerBound t.index.2.ents k0 = js at hidx
    have hle : js ≤ t.nb := by have := hidx.p_le; rw [ok.index_n] at this; exact this
    by_cases hjn : js < t.nb
    · right
      obtain ⟨bi0, hblk, hbi0⟩ := blockAtIndex_spec ok hidx hjn
      have hbi := blockSeek_spec' (t := k0) (ok.block_ok js hjn) hbi0
      refine ⟨{ r := r, b := some (t.blk js), bi := biSeek bi0 k0, idx := biSeek idx0 k0,
                kind := kind, blockOffset := t.off js }, ?_, rfl, ?_⟩
      · simp only [readerIterInit, hinit, hblk, if_true]
      · exact { rd_eq := rfl
                held := ⟨js, hidx, fun b hb' => ⟨js, _,
                  { jb_lt := hjn, b_eq := (by cases hb'; rfl), off_eq := rfl, bi_rep := hbi,
                    ji_eq := fun _ => rfl, live_ji := fun _ => rfl,
                    pos_first := fun _ _ => lb_decomp ok hjn hjs,
                    pos_next := fun _ h => tf h }⟩⟩
                none_dead := fun h => (by cases h)
                live := fun _ => rfl
                dead := fun h => tf h }
    · left
      have hjn : js = t.nb := by omega
      subst hjn
      have hblk := blockAtIndex_end ok hidx
      exact ⟨by simp only [readerIterInit, hinit, hblk], lb_end ok hjs⟩

/-! ### histories -/

/-- running a history on the implementation: `next` contributes the returned entry (or `none` for
    failure), `seek` contributes `none`; the outer `none` = the process aborted -/
def rRun : RIter → List IOp → Option (List (Option Entry))
  | _, [] => some []
  | it, .next :: ops =>
    match rNext true it with
    | none => none
    | some (e, it') => (rRun it' ops).map (e :: ·)
  | it, .seek k :: ops =>
    match rSeek it k with
    | none => none
    | some it' => (rRun it' ops).map (none :: ·)

/-- every history on an iterator satisfying the invariant is the history of the abstract cursor -/
theorem rRun_spec {r : Rd} {t : TableView} (ok : TableOK r t) :
    ∀ (ops : List IOp) (it : RIter) (c : Cur), Rep r t it c →
      rRun it ops = some (specRun it.kind t.entries c ops) := by
  intro ops
  induction ops with
  | nil => intro it c _; rfl
  | cons op ops ih =>
    intro it c h
    cases op with
    | next =>
      obtain ⟨it', e, hrep, hk⟩ := rNext_spec ok h
      simp only [rRun, e, specRun]
      rw [ih it' _ hrep, hk]; rfl
    | seek k =>
      obtain ⟨it', e, hrep, hk⟩ := rSeek_spec ok h k
      simp only [rRun, e, specRun]
      rw [ih it' _ hrep, hk]; rfl

/-- **C03**: on an iterator obtained from the reader (any kind, with or without a start key), every finite
    history of `next` / `seek` calls returns exactly what the abstract cursor returns. -/
theorem C03_history {r : Rd} {t : TableView} (ok : TableOK r t) (seekTo : Option Bytes) (kind : Kind)
    {it₀ : RIter} (h0 : readerIterInit true r seekTo kind = some (some it₀)) (ops : List IOp) :
    rRun it₀ ops =
      some (specRun kind t.entries ⟨lowerBound t.entries (seekTo.getD []), false⟩ ops) := by
  rcases readerIterInit_spec ok seekTo kind with ⟨h1, _⟩ | ⟨it, h1, hk, hrep⟩
  · rw [h1] at h0; cases h0
  · rw [h1] at h0
    have e : it = it₀ := Option.some.inj (Option.some.inj h0)
    subst e
    rw [rRun_spec ok ops it _ hrep, hk]

/-! ### consequences at the level of the abstract cursor -/

namespace RI

/-- the cursor after a history -/
def specEnd (kind : Kind) (es : List Entry) : Cur → List IOp → Cur
  | c, [] => c
  | c, .next :: ops => specEnd kind es (specNext kind es c).2 ops
  | _, .seek k :: ops => specEnd kind es (specSeek es k) ops

theorem specRun_append (kind : Kind) (es : List Entry) : ∀ (a b : List IOp) (c : Cur),
    specRun kind es c (a ++ b) = specRun kind es c a ++ specRun kind es (specEnd kind es c a) b := by
  intro a
  induction a with
  | nil => intro b c; rfl
  | cons op a ih =>
    intro b c
    cases op with
    | next => simp only [List.cons_append, specRun, specEnd, ih]
    | seek k => simp only [List.cons_append, specRun, specEnd, ih]

theorem specRun_length (kind : Kind) (es : List Entry) : ∀ (a : List IOp) (c : Cur),
    (specRun kind es c a).length = a.length := by
  intro a
  induction a with
  | nil => intro c; rfl
  | cons op a ih =>
    intro c
    cases op with
    | next => simp only [specRun, List.length_cons, ih]
    | seek k => simp only [specRun, List.length_cons, ih]

theorem specNext_none_stuck (kind : Kind) (es : List Entry) (c : Cur)
    (h : (specNext kind es c).1 = none) : (specNext kind es c).2.stuck = true := by
  unfold specNext at h ⊢
  split
  · next hs => exact hs
  · split
    · next e he =>
      rw [if_neg (by assumption), he] at h
      simp only at h
      split
      · next hin => rw [if_pos hin] at h; cases h
      · rfl
    · rfl

/-- failure is sticky -/
theorem specRun_stuck (kind : Kind) (es : List Entry) : ∀ (m : Nat) (c : Cur), c.stuck = true →
    specRun kind es c (List.replicate m .next) = List.replicate m none := by
  intro m
  induction m with
  | zero => intro c _; rfl
  | succ m ih =>
    intro c hc
    have e : specNext kind es c = (none, c) := by unfold specNext; rw [if_pos hc]
    simp only [List.replicate_succ, specRun, e, ih c hc]

/-- what `m` successive `next` calls return: the entries of `F`, then failures -/
def drainOut (F : List Entry) (m : Nat) : List (Option Entry) :=
  (F.take m).map some ++ List.replicate (m - F.length) none

theorem drainOut_nil (m : Nat) : drainOut [] m = List.replicate m none := by
  simp [drainOut]

theorem drainOut_full (F : List Entry) {m : Nat} (h : F.length ≤ m) :
    drainOut F m = F.map some ++ List.replicate (m - F.length) none := by
  unfold drainOut; rw [List.take_of_length_le h]

/-- `m` successive `next` calls from position `i` return the maximal run of in-bound entries starting at `i` -/
theorem specRun_drain (kind : Kind) (es : List Entry) : ∀ (m i : Nat),
    specRun kind es ⟨i, false⟩ (List.replicate m .next) =
      drainOut ((es.drop i).takeWhile fun e => inBound kind e.key) m := by
  intro m
  induction m with
  | zero => intro i; simp [drainOut, specRun]
  | succ m ih =>
    intro i
    simp only [List.replicate_succ, specRun]
    by_cases hi : i < es.length
    · have hd := List.drop_eq_getElem_cons hi
      have hg : es[i]? = some es[i] := List.getElem?_eq_getElem hi
      by_cases hin : inBound kind es[i].key = true
      · have e : specNext kind es ⟨i, false⟩ = (some es[i], ⟨i + 1, false⟩) := by
          unfold specNext; simp only [hg, hin, if_true, Bool.false_eq_true, if_false]
        rw [e, hd, List.takeWhile_cons, if_pos hin]
        simp only [ih, drainOut, List.take_succ_cons, List.map_cons, List.cons_append,
          List.length_cons, Nat.add_sub_add_right]
      · have e : specNext kind es ⟨i, false⟩ = (none, ⟨i, true⟩) := by
          unfold specNext; simp only [hg, hin, Bool.false_eq_true, if_false]
        rw [e, hd, List.takeWhile_cons, if_neg hin, drainOut_nil]
        simp only [specRun_stuck kind es m ⟨i, true⟩ rfl, List.replicate_succ]
    · have hg : es[i]? = none := List.getElem?_eq_none (by omega)
      have e : specNext kind es ⟨i, false⟩ = (none, ⟨i, true⟩) := by
        unfold specNext; simp only [hg, Bool.false_eq_true, if_false]
      rw [e, List.drop_eq_nil_of_le (by omega), List.takeWhile_nil, drainOut_nil]
      simp only [specRun_stuck kind es m ⟨i, true⟩ rfl, List.replicate_succ]

/-! ### the in-bound entries at / after the lower bound form a contiguous run of the sorted list -/

theorem filter_eq_takeWhile {α} (P : α → Bool) : ∀ (l : List α),
    l.Pairwise (fun a b => P b = true → P a = true) → l.filter P = l.takeWhile P := by
  intro l
  induction l with
  | nil => intro _; rfl
  | cons a l ih =>
    intro h
    obtain ⟨h1, h2⟩ := List.pairwise_cons.mp h
    rw [List.filter_cons, List.takeWhile_cons]
    by_cases ha : P a = true
    · rw [if_pos ha, if_pos ha, ih h2]
    · rw [if_neg ha, if_neg ha, List.filter_eq_nil_iff]
      intro b hb hPb
      exact ha (h1 b hb hPb)

theorem filter_run (es : List Entry) (i0 : Nat) (P Q : Entry → Bool)
    (h1 : ∀ e, e ∈ es.take i0 → P e = false) (h2 : ∀ e, e ∈ es.drop i0 → P e = Q e)
    (h3 : (es.drop i0).Pairwise (fun a b => Q b = true → Q a = true)) :
    es.filter P = (es.drop i0).takeWhile Q := by
  conv => lhs; rw [← List.take_append_drop i0 es]
  rw [List.filter_append]
  have e1 : (es.take i0).filter P = [] := by
    rw [List.filter_eq_nil_iff]; intro a ha; rw [h1 a ha]; decide
  rw [e1, List.nil_append, List.filter_congr h2, filter_eq_takeWhile Q _ h3]

theorem take_lb_lt (k : Bytes) : ∀ (es : List Entry) (e : Entry), e ∈ es.take (lowerBound es k) →
    bcmp e.key k = .lt := by
  intro es
  induction es with
  | nil => intro e he; simp at he
  | cons x xs ih =>
    intro e he
    rw [lowerBound_cons] at he
    split at he
    · next hx =>
      rw [List.take_succ_cons, List.mem_cons] at he
      rcases he with rfl | he
      · exact hx
      · exact ih e he
    · simp at he

theorem drop_lb_ge (k : Bytes) : ∀ (es : List Entry), Sorted es → ∀ e, e ∈ es.drop (lowerBound es k) →
    bcmp e.key k ≠ .lt := by
  intro es
  induction es with
  | nil => intro _ e he; simp at he
  | cons x xs ih =>
    intro hs e he
    obtain ⟨hx, hxs⟩ := Sorted_cons.mp hs
    rw [lowerBound_cons] at he
    split at he
    · rw [List.drop_succ_cons] at he
      exact ih hxs e he
    · next hn =>
      rw [List.drop_zero, List.mem_cons] at he
      rcases he with rfl | he
      · exact hn
      · intro hlt
        exact hn (bcmp_le_lt_trans (hx e he) hlt)

/-- pairwise facts about the tail of a strictly sorted list starting at the lower bound of `k` -/
theorem drop_lb_pairwise {es : List Entry} (hs : StrictSorted es) (k : Bytes) {S : Entry → Entry → Prop}
    (H : ∀ a b : Entry, bcmp a.key k ≠ .lt → bcmp a.key b.key = .lt → S a b) :
    (es.drop (lowerBound es k)).Pairwise S := by
  have h1 : (es.drop (lowerBound es k)).Pairwise (fun a b => bcmp a.key b.key = .lt) :=
    List.Pairwise.sublist (List.drop_sublist _ _) hs
  exact List.Pairwise.imp_of_mem (fun {a b} ha _ hab => H a b (drop_lb_ge k es hs.sorted a ha) hab) h1

/-- `p ≤ a ≤ p ++ r` forces `a` to start with `p` -/
theorem isPrefix_of_between : ∀ (p a r : Bytes), bcmp a p ≠ .lt → bcmp a (p ++ r) ≠ .gt →
    isPrefix p a = true
  | [], a, _, _, _ => by simp [isPrefix]
  | x :: p, [], _, h1, _ => by simp [bcmp] at h1
  | x :: p, y :: a, r, h1, h2 => by
    rw [List.cons_append, bcmp_cons_cons] at h2
    rw [bcmp_cons_cons] at h1
    by_cases hyx : y < x
    · rw [if_pos hyx] at h1; exact absurd rfl h1
    · by_cases hxy : x < y
      · rw [if_neg hyx, if_pos hxy] at h2; exact absurd rfl h2
      · rw [if_neg hyx, if_neg hxy] at h1 h2
        have e : y = x := by
          apply UInt8.toNat_inj.mp
          rw [UInt8.lt_iff_toNat_lt] at hyx hxy
          omega
        subst e
        have ih := isPrefix_of_between p a r h1 h2
        simp only [isPrefix, Bool.and_eq_true, decide_eq_true_eq, beq_iff_eq, List.length_cons,
          List.take_succ_cons, List.cons.injEq, true_and] at ih ⊢
        exact ⟨by omega, ih.2⟩

theorem filter_get {es : List Entry} (hs : StrictSorted es) (k : Bytes) :
    es.filter (fun e => bcmp e.key k == .eq) =
      (es.drop (lowerBound es k)).takeWhile fun e => inBound (.get k) e.key := by
  apply filter_run
  · intro e he
    rw [take_lb_lt k es e he]; rfl
  · intro e _; rfl
  · apply drop_lb_pairwise hs k
    intro a b ha hab hb
    simp only [inBound, beq_iff_eq] at hb ⊢
    rw [(bcmp_eq_iff _ _).mp hb] at hab
    rcases bcmp_total a.key k with h | h | h
    · exact absurd h ha
    · rw [h]; exact bcmp_refl k
    · exact absurd hab (bcmp_lt_asymm h)

theorem filter_pfx {es : List Entry} (hs : StrictSorted es) (p : Bytes) :
    es.filter (fun e => isPrefix p e.key) =
      (es.drop (lowerBound es p)).takeWhile fun e => inBound (.pfx p) e.key := by
  apply filter_run
  · intro e he
    have h1 := take_lb_lt p es e he
    cases hp : isPrefix p e.key with
    | false => rfl
    | true => exact absurd ((bcmp_swap' _ _).mpr h1) (bcmp_prefix hp)
  · intro e _; rfl
  · apply drop_lb_pairwise hs p
    intro a b ha hab hb
    simp only [inBound] at hb ⊢
    obtain ⟨r, hr⟩ := isPrefix_iff_append.mp hb
    rw [hr] at hab
    exact isPrefix_of_between p a.key r ha (by rw [hab]; decide)

theorem filter_range {es : List Entry} (hs : StrictSorted es) (k0 k1 : Bytes) :
    es.filter (fun e => ble k0 e.key && ble e.key k1) =
      (es.drop (lowerBound es k0)).takeWhile fun e => inBound (.range k1) e.key := by
  apply filter_run
  · intro e he
    have h1 := take_lb_lt k0 es e he
    have : ble k0 e.key = false := by
      unfold ble; rw [(bcmp_swap _ _).mp h1]; rfl
    rw [this]; rfl
  · intro e he
    have h1 := (bcmp_not_lt_iff _ _).mp (drop_lb_ge k0 es hs.sorted e he)
    have : ble k0 e.key = true := by unfold ble; simpa using h1
    rw [this]; rfl
  · apply drop_lb_pairwise hs k0
    intro a b _ hab hb
    simp only [inBound, bne_iff_ne, ne_eq] at hb ⊢
    rw [bcmp_lt_le_trans hab hb]; decide

theorem filter_iter (es : List Entry) :
    es = (es.drop 0).takeWhile fun e => inBound .iter e.key := by
  rw [List.drop_zero]
  induction es with
  | nil => rfl
  | cons x xs ih =>
    rw [List.takeWhile_cons, if_pos (show inBound Kind.iter x.key = true from rfl), ← ih]

end RI

/-! ### corollaries: C01 (full iteration), C02 (get / prefix / range), stickiness -/

open RI

section Corollaries
variable {r : Rd} {t : TableView}

/-- a NULL iterator is returned only when nothing is at or after the start key -/
theorem readerIterInit_null (ok : TableOK r t) {seekTo : Option Bytes} {kind : Kind}
    (h : readerIterInit true r seekTo kind = some none) :
    lowerBound t.entries (seekTo.getD []) = t.entries.length := by
  rcases readerIterInit_spec ok seekTo kind with ⟨_, h1⟩ | ⟨it, h1, _⟩
  · exact h1
  · rw [h1] at h; cases h

/-- `m` successive `next` calls on a fresh iterator return the maximal run of in-bound entries that
    starts at the lower bound of the start key, then failures -/
theorem drain_spec (ok : TableOK r t) (seekTo : Option Bytes) (kind : Kind) {it₀ : RIter}
    (h0 : readerIterInit true r seekTo kind = some (some it₀)) (m : Nat) :
    rRun it₀ (List.replicate m .next) = some (drainOut
      ((t.entries.drop (lowerBound t.entries (seekTo.getD []))).takeWhile fun e => inBound kind e.key) m) := by
  rw [C03_history ok seekTo kind h0, specRun_drain]

/-- **C01**: `m` calls of `next` on a fresh full iterator return the entries of the table in order,
    then failures -/
theorem C01_iterate_m (ok : TableOK r t) {it₀ : RIter}
    (h0 : readerIterInit true r none .iter = some (some it₀)) (m : Nat) :
    rRun it₀ (List.replicate m .next) = some (drainOut t.entries m) := by
  rw [drain_spec ok none .iter h0 m]
  simp only [Option.getD_none, lowerBound_empty_key]
  rw [← filter_iter]

/-- **C01**: draining a fresh full iterator (`N + 1` calls) returns exactly the entries, then failure -/
theorem C01_iterate (ok : TableOK r t) {it₀ : RIter}
    (h0 : readerIterInit true r none .iter = some (some it₀)) :
    rRun it₀ (List.replicate (t.entries.length + 1) .next) = some (t.entries.map some ++ [none]) := by
  rw [C01_iterate_m ok h0, drainOut_full _ (Nat.le_succ _)]
  simp

/-- **C01**, NULL case: `reader_iter` returns NULL only on an empty table -/
theorem C01_null (ok : TableOK r t) (h0 : readerIterInit true r none .iter = some none) :
    t.entries = [] := by
  have := readerIterInit_null ok h0
  simp only [Option.getD_none, lowerBound_empty_key] at this
  exact List.eq_nil_of_length_eq_zero this.symm

/-- **C02 (get)**: a fresh `get k` iterator returns exactly the entries with key `k`, then failures -/
theorem C02_get (ok : TableOK r t) (k : Bytes) {it₀ : RIter}
    (h0 : readerIterInit true r (some k) (.get k) = some (some it₀)) (m : Nat) :
    rRun it₀ (List.replicate m .next) =
      some (drainOut (t.entries.filter fun e => bcmp e.key k == .eq) m) := by
  rw [drain_spec ok (some k) (.get k) h0 m, filter_get ok.sorted k]; rfl

/-- **C02 (prefix)**: a fresh `get_prefix p` iterator returns exactly the entries whose key starts with `p` -/
theorem C02_prefix (ok : TableOK r t) (p : Bytes) {it₀ : RIter}
    (h0 : readerIterInit true r (some p) (.pfx p) = some (some it₀)) (m : Nat) :
    rRun it₀ (List.replicate m .next) =
      some (drainOut (t.entries.filter fun e => isPrefix p e.key) m) := by
  rw [drain_spec ok (some p) (.pfx p) h0 m, filter_pfx ok.sorted p]; rfl

/-- **C02 (range)**: a fresh `get_range k0 k1` iterator returns exactly the entries with `k0 ≤ key ≤ k1` -/
theorem C02_range (ok : TableOK r t) (k0 k1 : Bytes) {it₀ : RIter}
    (h0 : readerIterInit true r (some k0) (.range k1) = some (some it₀)) (m : Nat) :
    rRun it₀ (List.replicate m .next) =
      some (drainOut (t.entries.filter fun e => ble k0 e.key && ble e.key k1) m) := by
  rw [drain_spec ok (some k0) (.range k1) h0 m, filter_range ok.sorted k0 k1]; rfl

/-- draining completely: `N + 1` calls return the whole selection followed by at least one failure -/
theorem drainOut_filter (es : List Entry) (P : Entry → Bool) :
    drainOut (es.filter P) (es.length + 1) =
      (es.filter P).map some ++ List.replicate (es.length + 1 - (es.filter P).length) none :=
  drainOut_full _ (Nat.le_succ_of_le (List.length_filter_le _ _))

/-- **C02**, NULL case: a NULL iterator is returned only when the selection is empty -/
theorem C02_get_null (ok : TableOK r t) (k : Bytes)
    (h0 : readerIterInit true r (some k) (.get k) = some none) :
    (t.entries.filter fun e => bcmp e.key k == .eq) = [] := by
  have := readerIterInit_null ok h0
  rw [filter_get ok.sorted k]
  simp only [Option.getD_some] at this
  rw [this, List.drop_length]; rfl

theorem C02_prefix_null (ok : TableOK r t) (p : Bytes)
    (h0 : readerIterInit true r (some p) (.pfx p) = some none) :
    (t.entries.filter fun e => isPrefix p e.key) = [] := by
  have := readerIterInit_null ok h0
  rw [filter_pfx ok.sorted p]
  simp only [Option.getD_some] at this
  rw [this, List.drop_length]; rfl

theorem C02_range_null (ok : TableOK r t) (k0 k1 : Bytes)
    (h0 : readerIterInit true r (some k0) (.range k1) = some none) :
    (t.entries.filter fun e => ble k0 e.key && ble e.key k1) = [] := by
  have := readerIterInit_null ok h0
  rw [filter_range ok.sorted k0 k1]
  simp only [Option.getD_some] at this
  rw [this, List.drop_length]; rfl

/-- **C03 (sticky failure)**: after any history `ops`, if a `next` fails then every directly following
    `next` fails as well (until a `seek`) -/
theorem C03_sticky (ok : TableOK r t) (seekTo : Option Bytes) (kind : Kind) {it₀ : RIter}
    (h0 : readerIterInit true r seekTo kind = some (some it₀)) (ops : List IOp) (m : Nat)
    {out : List (Option Entry)}
    (hrun : rRun it₀ (ops ++ .next :: List.replicate m .next) = some out)
    (hfail : out[ops.length]? = some none) :
    out.drop ops.length = List.replicate (m + 1) none := by
  rw [C03_history ok seekTo kind h0, specRun_append] at hrun
  have hrun := (Option.some.inj hrun).symm
  subst hrun
  have hl := specRun_length kind t.entries ops ⟨lowerBound t.entries (seekTo.getD []), false⟩
  rw [List.getElem?_append_right (by omega), hl, Nat.sub_self] at hfail
  rw [List.drop_append_of_le_length (by omega), ← hl, List.drop_length, List.nil_append]
  simp only [specRun, List.getElem?_cons_zero, Option.some.injEq] at hfail ⊢
  rw [hfail, specRun_stuck _ _ _ _ (specNext_none_stuck _ _ _ hfail), List.replicate_succ]

/-- stickiness on the implementation state itself: after a failing `next` the iterator is not valid,
    and `next` keeps failing without changing the state -/
theorem rNext_fail_sticky (ok : TableOK r t) {it it' : RIter} {c : Cur} (h : Rep r t it c)
    (hn : rNext true it = some (none, it')) :
    it'.valid = false ∧ rNext true it' = some (none, it') := by
  obtain ⟨it2, e, hrep, _⟩ := rNext_spec ok h
  rw [e] at hn
  have h1 : (specNext it.kind t.entries c).1 = none := congrArg Prod.fst (Option.some.inj hn)
  have h2 : it2 = it' := congrArg Prod.snd (Option.some.inj hn)
  subst h2
  have hst := specNext_none_stuck _ _ _ h1
  have hv : it2.valid = false := by
    cases hv : it2.valid with
    | false => rfl
    | true => have := hrep.live hv; rw [hst] at this; cases this
  exact ⟨hv, rNext_dead hv⟩

end Corollaries

/-! ### non-vacuity of the specification side: a concrete history on five entries
    (seek to the key just returned, backward seek, seek past the end, seek between keys, run into the bound) -/

example :
    specRun (.range [3]) [⟨[1], [10]⟩, ⟨[2], [20]⟩, ⟨[2, 5], [25]⟩, ⟨[3], [30]⟩, ⟨[4], [40]⟩] ⟨0, false⟩
      [.next, .next, .seek [2], .next, .seek [0], .next, .seek [9], .next, .next, .seek [2, 5],
       .next, .next, .next, .next] =
      [some ⟨[1], [10]⟩, some ⟨[2], [20]⟩, none, some ⟨[2], [20]⟩, none, some ⟨[1], [10]⟩, none, none,
       none, none, some ⟨[2, 5], [25]⟩, some ⟨[3], [30]⟩, none, none] := by decide

example :
    specRun (.pfx [2]) [⟨[1], [10]⟩, ⟨[2], [20]⟩, ⟨[2, 5], [25]⟩, ⟨[3], [30]⟩, ⟨[4], [40]⟩]
      ⟨lowerBound [⟨[1], [10]⟩, ⟨[2], [20]⟩, ⟨[2, 5], [25]⟩, ⟨[3], [30]⟩, ⟨[4], [40]⟩] [2], false⟩
      [.next, .next, .next, .next, .seek [2, 5], .next, .next] =
      [some ⟨[2], [20]⟩, some ⟨[2, 5], [25]⟩, none, none, none, some ⟨[2, 5], [25]⟩, none] := by decide

end Mtbl
