import MtblModel.Sorter
import MtblProofs.MergerProofs
import MtblProofs.OrderProofs
/-
  C06 — the sorter (mtbl/sorter.c): `foldChunk` (the de-duplicating left fold of a key-sorted batch),
  the spill rule, the refusal of `add` after `iter`, the temporary-file template, and the main theorem:
  whatever the memory limit (chunking) and whatever key-sorting permutation `qsort` picks, draining the
  sorter's iterator yields every distinct key once, ascending, with a value obtained by combining exactly
  the values added for that key with the merge function.
-/
namespace Mtbl

/-- `Folded f k vs v`: v is obtained by combining ALL the values `vs` (each exactly once) with the merge
    function, in some order and bracketing -/
inductive Folded (f : Bytes → Bytes → Bytes → Option Bytes) (k : Bytes) : List Bytes → Bytes → Prop
  | one (a) : Folded f k [a] a
  | join {l1 l2 a b c} : Folded f k l1 a → Folded f k l2 b → f k a b = some c → Folded f k (l1 ++ l2) c
  | perm {l l' v} : Folded f k l v → l'.Perm l → Folded f k l' v

namespace SorterProofs
open MergerProofs (valuesOf_perm valuesOf_append valuesOf_all valuesOf_none)

/-! ### generalities on `Folded`, `foldl1?`, `valuesOf` -/

theorem foldl1?_singleton (f : Bytes → Bytes → Bytes → Option Bytes) (k a : Bytes) :
    foldl1? f k [a] = some a := rfl

theorem foldl1?_cons_cons (f : Bytes → Bytes → Bytes → Option Bytes) (k a b mv : Bytes) (vs : List Bytes)
    (h : f k a b = some mv) : foldl1? f k (a :: b :: vs) = foldl1? f k (mv :: vs) := by
  simp [foldl1?, List.foldlM_cons, h]

theorem Folded_foldlM {f : Bytes → Bytes → Bytes → Option Bytes} {k : Bytes} :
    ∀ (vs : List Bytes) (l0 : List Bytes) (a v : Bytes), Folded f k l0 a →
      vs.foldlM (fun acc x => f k acc x) a = some v → Folded f k (l0 ++ vs) v := by
  intro vs
  induction vs with
  | nil =>
    intro l0 a v h0 h
    simp only [List.foldlM_nil] at h
    have : a = v := by simpa using h
    subst this
    simpa using h0
  | cons x xs ih =>
    intro l0 a v h0 h
    rw [List.foldlM_cons] at h
    cases hf : f k a x with
    | none => rw [hf] at h; simp at h
    | some a' =>
      rw [hf] at h
      have h1 : Folded f k (l0 ++ [x]) a' := Folded.join h0 (Folded.one x) hf
      have := ih (l0 ++ [x]) a' v h1 (by simpa using h)
      simpa using this

/-- a left fold is one way of combining all the values -/
theorem Folded_of_foldl1? {f : Bytes → Bytes → Bytes → Option Bytes} {k : Bytes} {l : List Bytes} {v : Bytes}
    (h : foldl1? f k l = some v) : Folded f k l v := by
  cases l with
  | nil => simp [foldl1?] at h
  | cons a vs =>
    have := Folded_foldlM vs [a] a v (Folded.one a) h
    simpa using this

theorem Folded_ne_nil {f : Bytes → Bytes → Bytes → Option Bytes} {k : Bytes} {l : List Bytes} {v : Bytes}
    (h : Folded f k l v) : l ≠ [] := by
  induction h with
  | one a => simp
  | join _ _ _ ih1 _ => simp [ih1]
  | perm _ hp ih =>
    intro he; subst he
    exact ih hp.symm.eq_nil

theorem valuesOf_cons (k : Bytes) (e : Entry) (es : List Entry) :
    valuesOf k (e :: es) = if e.key = k then e.val :: valuesOf k es else valuesOf k es := by
  unfold valuesOf
  by_cases h : e.key = k <;> simp [h]

theorem mem_valuesOf {k v : Bytes} {es : List Entry} :
    v ∈ valuesOf k es ↔ ∃ e ∈ es, e.key = k ∧ e.val = v := by
  simp [valuesOf, and_assoc]

theorem valuesOf_eq_nil {k : Bytes} {es : List Entry} :
    valuesOf k es = [] ↔ ∀ e ∈ es, e.key ≠ k := by
  constructor
  · intro h e he hk
    have : e.val ∈ valuesOf k es := mem_valuesOf.mpr ⟨e, he, hk, rfl⟩
    rw [h] at this; simp at this
  · exact valuesOf_none k es

/-! ### 1. `foldChunk` -/

theorem sorted_tail {e : Entry} {es : List Entry} (h : Sorted (e :: es)) : Sorted es :=
  (List.pairwise_cons.mp h).2

theorem beq_eq_iff {a b : Bytes} : (bcmp a b == Ordering.eq) = true ↔ a = b := by
  rw [beq_iff_eq, bcmp_eq_iff]

/-- the output of `foldChunk` is never longer than its input -/
theorem foldChunk_length (m : Option (Bytes → Bytes → Bytes → Option Bytes)) (l out : List Entry)
    (h : foldChunk m l = .ok out) : out.length ≤ l.length := by
  fun_induction foldChunk m l generalizing out with
  | case1 => simp only [ChunkRes.ok.injEq] at h; subst h; simp
  | case2 e => simp only [ChunkRes.ok.injEq] at h; subst h; simp
  | case3 e n rest hk hm => simp at h
  | case4 e n rest hk f hm hf => simp at h
  | case5 e n rest hk f hm mv hf ih =>
    subst hm
    have := ih out h
    simp only [List.length_cons] at this ⊢
    omega
  | case6 e n rest hk out' ho ih =>
    simp only [ChunkRes.ok.injEq] at h; subst h
    have := ih out' ho
    simp only [List.length_cons] at this ⊢
    omega
  | case7 e n rest hk hno ih =>
    exact absurd h (by
      intro h'
      cases hr : foldChunk m (n :: rest) with
      | ok o => exact hno o hr
      | mergeFailed => rw [hr] at h'; simp at h'
      | noMergeFn => rw [hr] at h'; simp at h')

theorem foldChunk_spec (f : Bytes → Bytes → Bytes → Option Bytes) (hok : ∀ k a b, f k a b ≠ none)
    (l : List Entry) (hs : Sorted l) :
    ∃ out, foldChunk (some f) l = .ok out ∧ StrictSorted out ∧
      (∀ k, (∃ e ∈ out, e.key = k) ↔ (∃ e ∈ l, e.key = k)) ∧
      ∀ e ∈ out, foldl1? f e.key (valuesOf e.key l) = some e.val := by
  fun_induction foldChunk (some f) l with
  | case1 => exact ⟨[], rfl, List.Pairwise.nil, by simp, by simp⟩
  | case2 e =>
    refine ⟨[e], rfl, List.pairwise_singleton _ _, by simp, ?_⟩
    intro x hx
    have : x = e := by simpa using hx
    subst this
    simp [valuesOf, foldl1?]
  | case3 e n rest hk hm => simp at hm
  | case4 e n rest hk f' hm hf =>
    have hf' : f = f' := by injection hm
    subst hf'
    exact absurd hf (hok _ _ _)
  | case5 e n rest hk f' hm mv hf ih =>
    have hf' : f = f' := by injection hm
    subst hf'
    have hkn : e.key = n.key := beq_eq_iff.mp hk
    have hs' : Sorted ({ key := e.key, val := mv } :: rest) := by
      have h1 := List.pairwise_cons.mp hs
      have h2 := List.pairwise_cons.mp h1.2
      refine List.pairwise_cons.mpr ⟨?_, h2.2⟩
      intro x hx
      exact h1.1 x (List.mem_cons_of_mem _ hx)
    obtain ⟨out, h1, h2, h3, h4⟩ := ih hs'
    refine ⟨out, h1, h2, ?_, ?_⟩
    · intro k
      rw [h3 k]
      constructor
      · rintro ⟨x, hx, rfl⟩
        rcases List.mem_cons.mp hx with rfl | hx
        · exact ⟨e, by simp, rfl⟩
        · exact ⟨x, by simp [hx], rfl⟩
      · rintro ⟨x, hx, rfl⟩
        rcases List.mem_cons.mp hx with rfl | hx
        · exact ⟨_, List.mem_cons_self, rfl⟩
        · rcases List.mem_cons.mp hx with rfl | hx
          · exact ⟨_, List.mem_cons_self, hkn⟩
          · exact ⟨x, List.mem_cons_of_mem _ hx, rfl⟩
    · intro x hx
      rw [← h4 x hx]
      by_cases hxe : e.key = x.key
      · have hne : n.key = x.key := hkn ▸ hxe
        simp only [valuesOf_cons, hxe, hne, if_true]
        rw [← hxe]
        exact foldl1?_cons_cons f e.key e.val n.val mv _ hf
      · have hne : ¬ n.key = x.key := hkn ▸ hxe
        simp only [valuesOf_cons, hxe, hne, if_false]
  | case6 e n rest hk out' ho ih =>
    have hkn : e.key ≠ n.key := fun h => hk (beq_eq_iff.mpr h)
    have h1 := List.pairwise_cons.mp hs
    have hlt : ∀ x ∈ n :: rest, bcmp e.key x.key = .lt := by
      have hn : bcmp e.key n.key = .lt := by
        rcases (bcmp_le_iff _ _).mp (h1.1 n List.mem_cons_self) with h | h
        · exact h
        · exact absurd h hkn
      intro x hx
      rcases List.mem_cons.mp hx with rfl | hx
      · exact hn
      · exact bcmp_lt_le_trans hn ((List.pairwise_cons.mp h1.2).1 x hx)
    obtain ⟨out, g1, g2, g3, g4⟩ := ih h1.2
    rw [ho] at g1
    simp only [ChunkRes.ok.injEq] at g1
    subst g1
    refine ⟨e :: out', rfl, ?_, ?_, ?_⟩
    · refine List.pairwise_cons.mpr ⟨?_, g2⟩
      intro x hx
      obtain ⟨y, hy, hyk⟩ := (g3 x.key).mp ⟨x, hx, rfl⟩
      rw [← hyk]
      exact hlt y hy
    · intro k
      constructor
      · rintro ⟨x, hx, rfl⟩
        rcases List.mem_cons.mp hx with rfl | hx
        · exact ⟨_, List.mem_cons_self, rfl⟩
        · obtain ⟨y, hy, hyk⟩ := (g3 x.key).mp ⟨x, hx, rfl⟩
          exact ⟨y, List.mem_cons_of_mem _ hy, hyk⟩
      · rintro ⟨x, hx, rfl⟩
        rcases List.mem_cons.mp hx with rfl | hx
        · exact ⟨_, List.mem_cons_self, rfl⟩
        · obtain ⟨y, hy, hyk⟩ := (g3 x.key).mpr ⟨x, hx, rfl⟩
          exact ⟨y, List.mem_cons_of_mem _ hy, hyk⟩
    · intro x hx
      rcases List.mem_cons.mp hx with rfl | hx
      · have : valuesOf x.key (n :: rest) = [] :=
          valuesOf_eq_nil.mpr fun y hy he => by
            have := hlt y hy
            rw [he, bcmp_refl] at this
            simp at this
        rw [valuesOf_cons, if_pos rfl, this]
        rfl
      · have hne : e.key ≠ x.key := by
          intro he
          obtain ⟨y, hy, hyk⟩ := (g3 x.key).mp ⟨x, hx, rfl⟩
          have := hlt y hy
          rw [hyk, he, bcmp_refl] at this
          simp at this
        rw [valuesOf_cons, if_neg hne]
        exact g4 x hx
  | case7 e n rest hk hno ih =>
    obtain ⟨out, g1, _⟩ := ih (sorted_tail hs)
    exact absurd g1 (hno out)

theorem foldChunk_strictSorted (m : Option (Bytes → Bytes → Bytes → Option Bytes)) (l : List Entry)
    (hs : StrictSorted l) : foldChunk m l = .ok l := by
  fun_induction foldChunk m l with
  | case1 => rfl
  | case2 e => rfl
  | case3 e n rest hk hm =>
    have := (List.pairwise_cons.mp hs).1 n List.mem_cons_self
    rw [beq_eq_iff.mp hk, bcmp_refl] at this; simp at this
  | case4 e n rest hk f hm hf =>
    have := (List.pairwise_cons.mp hs).1 n List.mem_cons_self
    rw [beq_eq_iff.mp hk, bcmp_refl] at this; simp at this
  | case5 e n rest hk f hm mv hf ih =>
    have := (List.pairwise_cons.mp hs).1 n List.mem_cons_self
    rw [beq_eq_iff.mp hk, bcmp_refl] at this; simp at this
  | case6 e n rest hk out' ho ih =>
    have := ih (List.pairwise_cons.mp hs).2
    rw [ho] at this
    simp only [ChunkRes.ok.injEq] at this
    rw [this]
  | case7 e n rest hk hno ih =>
    exact absurd (ih (List.pairwise_cons.mp hs).2) (hno _)

theorem sorted_head_lt {e n : Entry} {rest : List Entry} (hs : Sorted (e :: n :: rest))
    (hkn : e.key ≠ n.key) : ∀ x ∈ n :: rest, bcmp e.key x.key = .lt := by
  have h1 := List.pairwise_cons.mp hs
  have hn : bcmp e.key n.key = .lt := by
    rcases (bcmp_le_iff _ _).mp (h1.1 n List.mem_cons_self) with h | h
    · exact h
    · exact absurd h hkn
  intro x hx
  rcases List.mem_cons.mp hx with rfl | hx
  · exact hn
  · exact bcmp_lt_le_trans hn ((List.pairwise_cons.mp h1.2).1 x hx)

theorem foldChunk_noMergeFn (l : List Entry) (hs : Sorted l) (hd : ¬ StrictSorted l) :
    foldChunk none l = .noMergeFn := by
  fun_induction foldChunk none l with
  | case1 => exact absurd List.Pairwise.nil hd
  | case2 e => exact absurd (List.pairwise_singleton _ _) hd
  | case3 e n rest hk hm => rfl
  | case4 e n rest hk f hm hf => simp at hm
  | case5 e n rest hk f hm mv hf ih => simp at hm
  | case6 e n rest hk out' ho ih =>
    have hlt := sorted_head_lt hs (fun h => hk (beq_eq_iff.mpr h))
    have := ih (sorted_tail hs) (fun h => hd (List.pairwise_cons.mpr ⟨hlt, h⟩))
    rw [ho] at this; simp at this
  | case7 e n rest hk hno ih =>
    have hlt := sorted_head_lt hs (fun h => hk (beq_eq_iff.mpr h))
    have := ih (sorted_tail hs) (fun h => hd (List.pairwise_cons.mpr ⟨hlt, h⟩))
    rw [this]

/-! ### 2./3. the spill rule and the refusal of `add` while iterating -/

/-- bytes `mtbl_sorter_add` accounts for one entry: `sizeof(struct entry) + len_key + len_val` -/
def _root_.Mtbl.SCfg.entrySize (c : SCfg) (e : Entry) : Nat := c.entryOverhead + e.key.length + e.val.length

/-- the memory invariant between calls: `entry_bytes` is exact and the batch is below the limit -/
structure _root_.Mtbl.SpillInv (s : Sorter) : Prop where
  bytes : s.entryBytes = (s.vec.map s.cfg.entrySize).sum
  below : s.entryBytes + s.cfg.ptrSize * s.vec.length < s.cfg.effMemory

theorem flush_cfg (s : Sorter) : s.flush.2.cfg = s.cfg := by
  unfold Sorter.flush; split <;> rfl
theorem flush_vec (s : Sorter) : s.flush.2.vec = [] := by
  unfold Sorter.flush; split <;> rfl
theorem flush_entryBytes (s : Sorter) : s.flush.2.entryBytes = 0 := by
  unfold Sorter.flush; split <;> rfl
theorem flush_spills (s : Sorter) : s.flush.2.spills = s.spills + 1 := by
  unfold Sorter.flush; split <;> rfl
theorem flush_iterating (s : Sorter) : s.flush.2.iterating = s.iterating := by
  unfold Sorter.flush; split <;> rfl

theorem add_cfg (s : Sorter) (k v : Bytes) : (s.add k v).2.cfg = s.cfg := by
  unfold Sorter.add
  split
  · rfl
  · simp only []
    split
    · rw [flush_cfg]
    · rfl

theorem addAll_cfg (s : Sorter) (es : List Entry) : (s.addAll es).2.cfg = s.cfg := by
  induction es generalizing s with
  | nil => rfl
  | cons e es ih => simp only [Sorter.addAll]; rw [ih, add_cfg]

/-- the clamp of `mtbl_sorter_options_set_max_memory`: the effective limit is at least MIN_SORTER_MEMORY -/
theorem effMemory_ge_min (c : SCfg) : c.minMemory ≤ c.effMemory ∧ c.maxMemory ≤ c.effMemory := by
  unfold SCfg.effMemory; split <;> omega

theorem spillInv_fresh (c : SCfg) (h : 0 < c.effMemory) : SpillInv { cfg := c } :=
  ⟨rfl, by simpa using h⟩

theorem spillInv_add (s : Sorter) (k v : Bytes) (h : 0 < s.cfg.effMemory) (hi : SpillInv s) :
    SpillInv (s.add k v).2 := by
  unfold Sorter.add
  split
  · exact hi
  · simp only []
    split
    · refine ⟨?_, ?_⟩
      · rw [flush_entryBytes, flush_vec]; rfl
      · rw [flush_entryBytes, flush_vec, flush_cfg]; simpa using h
    · rename_i hlt
      refine ⟨?_, by simpa using hlt⟩
      simp only [List.map_append, List.sum_append, List.map_cons, List.map_nil, List.sum_cons,
        List.sum_nil, SCfg.entrySize, hi.bytes]
      omega

theorem spillInv_addAll (s : Sorter) (es : List Entry) (h : 0 < s.cfg.effMemory) (hi : SpillInv s) :
    SpillInv (s.addAll es).2 := by
  induction es generalizing s with
  | nil => exact hi
  | cons e es ih =>
    simp only [Sorter.addAll]
    exact ih _ (by rw [add_cfg]; exact h) (spillInv_add s e.key e.val h hi)

/-- the spill happens exactly at the add that makes the accounted size reach the limit -/
theorem add_spills (s : Sorter) (k v : Bytes) (hit : s.iterating = false) :
    (s.add k v).2.spills =
      if s.entryBytes + s.cfg.entryOverhead + k.length + v.length + s.cfg.ptrSize * (s.vec.length + 1)
          ≥ s.cfg.effMemory then s.spills + 1 else s.spills := by
  unfold Sorter.add
  simp only [hit, Bool.false_eq_true, if_false, List.length_append, List.length_cons, List.length_nil]
  split
  · rw [flush_spills]
  · rfl

theorem add_iterating (s : Sorter) (k v : Bytes) (h : s.iterating = true) : s.add k v = (.failure, s) := by
  simp [Sorter.add, h]


/-! ### 4. the temporary-file template -/

theorem template_eq (c : SCfg) : c.template = c.tmpDir ++ ("/.mtbl." ++ toString c.pid ++ ".XXXXXX") := by
  simp [SCfg.template, String.append_assoc]

theorem slash_not_mem_toString (n : Nat) : '/' ∉ (toString n).toList := by
  intro h
  have h' : '/' ∈ Nat.toDigits 10 n := by
    simpa [toString, Nat.repr] using h
  have := Nat.isDigit_of_mem_toDigits (by decide) (by decide) h'
  exact absurd this (by decide)

/-- the part of the template after the configured directory is '/' followed by characters none of which
    is '/': the file is created directly inside `tmpDir` -/
theorem template_suffix (pid : Nat) :
    ∃ rest : List Char, ("/.mtbl." ++ toString pid ++ ".XXXXXX").toList = '/' :: rest ∧ '/' ∉ rest := by
  refine ⟨".mtbl.".toList ++ (toString pid).toList ++ ".XXXXXX".toList, ?_, ?_⟩
  · simp only [String.toList_append]
    rfl
  · simp only [List.mem_append, not_or]
    exact ⟨⟨by decide, slash_not_mem_toString pid⟩, by decide⟩


/-! ### 5. what the chunks hold -/

/-- `ChunkOf f b ch`: `ch` is a correct chunk for the batch `b` -/
structure _root_.Mtbl.ChunkOf (f : Bytes → Bytes → Bytes → Option Bytes) (b ch : List Entry) : Prop where
  ss : StrictSorted ch
  len : ch.length ≤ b.length
  keys : ∀ k, (∃ e ∈ ch, e.key = k) ↔ (∃ e ∈ b, e.key = k)
  vals : ∀ e ∈ ch, Folded f e.key (valuesOf e.key b) e.val

theorem perm_keys {a b : List Entry} (h : a.Perm b) (k : Bytes) :
    (∃ e ∈ a, e.key = k) ↔ (∃ e ∈ b, e.key = k) := by
  constructor
  · rintro ⟨e, he, hk⟩; exact ⟨e, h.mem_iff.mp he, hk⟩
  · rintro ⟨e, he, hk⟩; exact ⟨e, h.mem_iff.mpr he, hk⟩

/-- sorting (any key-sorting permutation) then folding gives a correct chunk -/
theorem chunkOf_foldChunk {f : Bytes → Bytes → Bytes → Option Bytes} (hok : ∀ k a b, f k a b ≠ none)
    {sortFn : List Entry → List Entry} (hsort : ∀ l, (sortFn l).Perm l ∧ Sorted (sortFn l))
    (b : List Entry) : ∃ ch, foldChunk (some f) (sortFn b) = .ok ch ∧ ChunkOf f b ch := by
  obtain ⟨hp, hs⟩ := hsort b
  obtain ⟨ch, h1, h2, h3, h4⟩ := foldChunk_spec f hok _ hs
  refine ⟨ch, h1, h2, ?_, ?_, ?_⟩
  · have := foldChunk_length _ _ _ h1
    rw [hp.length_eq] at this
    exact this
  · intro k; rw [h3 k]; exact perm_keys hp k
  · intro e he
    exact Folded.perm (Folded_of_foldl1? (h4 e he)) (valuesOf_perm e.key hp).symm

/-- invariant of the add phase, relative to the entries `adds` added so far: the finished chunks are
    correct chunks of consecutive segments (`batches`) of `adds`, and the rest is still buffered -/
structure _root_.Mtbl.AccInv (c : SCfg) (f : Bytes → Bytes → Bytes → Option Bytes) (adds : List Entry)
    (s : Sorter) : Prop where
  cfg : s.cfg = c
  notIter : s.iterating = false
  notAborted : s.aborted = false
  notFailed : s.failedChunk = false
  spills : s.spills = s.chunks.length
  parts : ∃ pairs : List (List Entry × List Entry),
    (∀ p ∈ pairs, ChunkOf f p.1 p.2) ∧ s.chunks = pairs.map (·.2) ∧
      adds = (pairs.map (·.1)).flatten ++ s.vec

theorem accInv_fresh (c : SCfg) (f : Bytes → Bytes → Bytes → Option Bytes) : AccInv c f [] { cfg := c } :=
  ⟨rfl, rfl, rfl, rfl, rfl, [], by simp, rfl, rfl⟩

section
variable {c : SCfg} {f : Bytes → Bytes → Bytes → Option Bytes}
  (hsort : ∀ l, (c.sortFn l).Perm l ∧ Sorted (c.sortFn l)) (hm : c.merge = some f)
  (hok : ∀ k a b, f k a b ≠ none)
include hsort hm hok

theorem accInv_flush {adds : List Entry} {s : Sorter} (hi : AccInv c f adds s) :
    s.flush.1 = .success ∧ AccInv c f adds s.flush.2 ∧ s.flush.2.vec = [] := by
  obtain ⟨ch, h1, h2⟩ := chunkOf_foldChunk hok hsort s.vec
  obtain ⟨pairs, p1, p2, p3⟩ := hi.parts
  have hfl : s.flush = (.success,
      { s with vec := [], entryBytes := 0, spills := s.spills + 1, chunks := s.chunks ++ [ch] }) := by
    unfold Sorter.flush
    rw [hi.cfg, hm, h1]
  rw [hfl]
  refine ⟨rfl, ⟨hi.cfg, hi.notIter, hi.notAborted, hi.notFailed, ?_, pairs ++ [(s.vec, ch)], ?_, ?_, ?_⟩, rfl⟩
  · simp [hi.spills]
  · intro p hp
    rcases List.mem_append.mp hp with hp | hp
    · exact p1 p hp
    · have : p = (s.vec, ch) := by simpa using hp
      subst this; exact h2
  · simp [p2]
  · simp [p3]

theorem accInv_add {adds : List Entry} {s : Sorter} (hi : AccInv c f adds s) (k v : Bytes) :
    (s.add k v).1 = .success ∧ AccInv c f (adds ++ [⟨k, v⟩]) (s.add k v).2 := by
  obtain ⟨pairs, p1, p2, p3⟩ := hi.parts
  have hi1 : AccInv c f (adds ++ [⟨k, v⟩])
      { s with vec := s.vec ++ [{ key := k, val := v }],
               entryBytes := s.entryBytes + s.cfg.entryOverhead + k.length + v.length } :=
    ⟨hi.cfg, hi.notIter, hi.notAborted, hi.notFailed, hi.spills, pairs, p1, p2, by simp [p3]⟩
  unfold Sorter.add
  rw [if_neg (by simp [hi.notIter])]
  simp only []
  split
  · have := accInv_flush hsort hm hok hi1
    exact ⟨this.1, this.2.1⟩
  · exact ⟨rfl, hi1⟩

theorem accInv_addAll (es : List Entry) {adds : List Entry} {s : Sorter} (hi : AccInv c f adds s) :
    (∀ r ∈ (s.addAll es).1, r = .success) ∧ AccInv c f (adds ++ es) (s.addAll es).2 := by
  induction es generalizing adds s with
  | nil => simpa [Sorter.addAll] using hi
  | cons e es ih =>
    obtain ⟨h1, h2⟩ := accInv_add hsort hm hok hi e.key e.val
    obtain ⟨h3, h4⟩ := ih h2
    simp only [Sorter.addAll]
    refine ⟨?_, ?_⟩
    · intro r hr
      rcases List.mem_cons.mp hr with rfl | hr
      · exact h1
      · exact h3 r hr
    · simpa using h4
end



/-- a permutation of the image of a list lifts to a permutation of the list -/
theorem perm_map_lift {α β : Type} (g : α → β) {l' l : List β} (hp : l'.Perm l) :
    ∀ ps : List α, ps.map g = l' → ∃ ps' : List α, ps'.Perm ps ∧ ps'.map g = l := by
  induction hp with
  | nil => intro ps h; exact ⟨ps, List.Perm.refl _, h⟩
  | cons x _ ih =>
    intro ps h
    cases ps with
    | nil => simp at h
    | cons p ps0 =>
      simp only [List.map_cons, List.cons.injEq] at h
      obtain ⟨ps0', h1, h2⟩ := ih ps0 h.2
      exact ⟨p :: ps0', h1.cons p, by simp [h.1, h2]⟩
  | swap x y l =>
    intro ps h
    match ps, h with
    | p :: q :: r, h =>
      simp only [List.map_cons, List.cons.injEq] at h
      exact ⟨q :: p :: r, List.Perm.swap _ _ _, by simp [h.1, h.2.1, h.2.2]⟩
  | trans _ _ ih1 ih2 =>
    intro ps h
    obtain ⟨ps1, h1, h2⟩ := ih1 ps h
    obtain ⟨ps2, h3, h4⟩ := ih2 ps1 h2
    exact ⟨ps2, h3.trans h1, h4⟩

/-- substitution: if `v` combines the values `l` and every element of `l` itself combines a group of
    values, then `v` combines the concatenation of the groups -/
theorem Folded_bind {f : Bytes → Bytes → Bytes → Option Bytes} {k : Bytes} {l : List Bytes} {v : Bytes}
    (h : Folded f k l v) : ∀ ps : List (List Bytes × Bytes), ps.map (·.2) = l →
      (∀ p ∈ ps, Folded f k p.1 p.2) → Folded f k (ps.flatMap (·.1)) v := by
  induction h with
  | one a =>
    intro ps h hp
    match ps, h with
    | [p], h =>
      have h' : p.2 = a := by simpa using h
      have := hp p (by simp)
      rw [h'] at this
      simpa using this
  | join _ _ hf ih1 ih2 =>
    intro ps h hp
    obtain ⟨ps1, ps2, rfl, h1, h2⟩ := List.map_eq_append_iff.mp h
    rw [List.flatMap_append]
    exact Folded.join (ih1 ps1 h1 fun p hp' => hp p (List.mem_append_left _ hp'))
      (ih2 ps2 h2 fun p hp' => hp p (List.mem_append_right _ hp')) hf
  | perm _ hperm ih =>
    intro ps h hp
    obtain ⟨ps', h1, h2⟩ := perm_map_lift _ hperm ps h
    exact Folded.perm (ih ps' h2 fun p hp' => hp p (h1.mem_iff.mp hp')) (h1.symm.flatMap_right _)

theorem valuesOf_strictSorted {ch : List Entry} (hs : StrictSorted ch) (k : Bytes) :
    valuesOf k ch = [] ∨ ∃ e ∈ ch, e.key = k ∧ valuesOf k ch = [e.val] := by
  induction ch with
  | nil => left; rfl
  | cons e t ih =>
    have h1 := List.pairwise_cons.mp hs
    by_cases hk : e.key = k
    · right
      refine ⟨e, List.mem_cons_self, hk, ?_⟩
      have : valuesOf k t = [] := valuesOf_eq_nil.mpr fun y hy he => by
        have := h1.1 y hy
        rw [he, hk, bcmp_refl] at this
        simp at this
      rw [valuesOf_cons, if_pos hk, this]
    · rw [valuesOf_cons, if_neg hk]
      rcases ih h1.2 with h | ⟨x, hx, h2, h3⟩
      · left; exact h
      · right; exact ⟨x, List.mem_cons_of_mem _ hx, h2, h3⟩

/-- per key: the values the chunks hold for `k` are, chunk by chunk, combinations of the values the
    corresponding batches hold for `k` -/
theorem pairs_key {f : Bytes → Bytes → Bytes → Option Bytes} (pairs : List (List Entry × List Entry))
    (hp : ∀ p ∈ pairs, ChunkOf f p.1 p.2) (k : Bytes) :
    ∃ ps : List (List Bytes × Bytes), (∀ q ∈ ps, Folded f k q.1 q.2) ∧
      ps.map (·.2) = valuesOf k (pairs.map (·.2)).flatten ∧
      ps.flatMap (·.1) = valuesOf k (pairs.map (·.1)).flatten := by
  induction pairs with
  | nil => exact ⟨[], by simp, rfl, rfl⟩
  | cons p rest ih =>
    obtain ⟨ps, h1, h2, h3⟩ := ih fun q hq => hp q (List.mem_cons_of_mem _ hq)
    have hc := hp p List.mem_cons_self
    simp only [List.map_cons, List.flatten_cons, valuesOf_append]
    rcases valuesOf_strictSorted hc.ss k with h | ⟨e, he, hek, hv⟩
    · have hb : valuesOf k p.1 = [] := by
        rw [valuesOf_eq_nil] at h ⊢
        intro x hx hxk
        obtain ⟨y, hy, hyk⟩ := (hc.keys k).mpr ⟨x, hx, hxk⟩
        exact h y hy hyk
      exact ⟨ps, h1, by rw [h, h2]; rfl, by rw [hb, h3]; rfl⟩
    · refine ⟨(valuesOf k p.1, e.val) :: ps, ?_, ?_, ?_⟩
      · intro q hq
        rcases List.mem_cons.mp hq with rfl | hq
        · have := hc.vals e he
          rw [hek] at this
          exact this
        · exact h1 q hq
      · simp [hv, h2]
      · simp [h3]


/-! ### 6. the main theorem -/

theorem lowerBound_empty_key (es : List Entry) : lowerBound es [] = 0 := by
  cases es with
  | nil => rfl
  | cons e t =>
    have : (bcmp e.key [] == Ordering.lt) = false := by
      cases h : e.key <;> simp [bcmp]
    simp [lowerBound, this]

theorem remaining_iter_start (es : List Entry) :
    Src.remaining { es := es, kind := .iter, cur := specSeek es [] } = es := by
  simp only [Src.remaining, specSeek, lowerBound_empty_key, inBound, List.drop_zero]
  simp only [Bool.false_eq_true, if_false]
  induction es with
  | nil => rfl
  | cons e t ih => simp [ih]

theorem flatMap_remaining_iter_start (chunks : List (List Entry)) :
    (chunks.flatMap fun es => Src.remaining { es := es, kind := srcKind .iter, cur := specSeek es [] })
      = chunks.flatten := by
  induction chunks with
  | nil => rfl
  | cons ch t ih =>
    rw [List.flatMap_cons, ih, List.flatten_cons]
    congr 1
    exact remaining_iter_start ch

theorem mergerIter_iter (mc : MCfg) (tables : List (List Entry)) (start : Bytes) :
    ∃ m, mergerIter mc tables .iter start = some m := ⟨_, rfl⟩

theorem length_flatten_pairs {f : Bytes → Bytes → Bytes → Option Bytes}
    (pairs : List (List Entry × List Entry)) (hp : ∀ p ∈ pairs, ChunkOf f p.1 p.2) :
    (pairs.map (·.2)).flatten.length ≤ (pairs.map (·.1)).flatten.length := by
  induction pairs with
  | nil => simp
  | cons p rest ih =>
    have := ih fun q hq => hp q (List.mem_cons_of_mem _ hq)
    have := (hp p List.mem_cons_self).len
    simp only [List.map_cons, List.flatten_cons, List.length_append]
    omega

theorem keys_flatten_pairs {f : Bytes → Bytes → Bytes → Option Bytes}
    (pairs : List (List Entry × List Entry)) (hp : ∀ p ∈ pairs, ChunkOf f p.1 p.2) (k : Bytes) :
    (∃ e ∈ (pairs.map (·.2)).flatten, e.key = k) ↔ (∃ e ∈ (pairs.map (·.1)).flatten, e.key = k) := by
  induction pairs with
  | nil => simp
  | cons p rest ih =>
    have h1 := ih fun q hq => hp q (List.mem_cons_of_mem _ hq)
    have h2 := (hp p List.mem_cons_self).keys k
    simp only [List.map_cons, List.flatten_cons, List.mem_append, or_and_right, exists_or]
    rw [h1, h2]


section
variable {c : SCfg} {f : Bytes → Bytes → Bytes → Option Bytes}
  (hsort : ∀ l, (c.sortFn l).Perm l ∧ Sorted (c.sortFn l)) (hm : c.merge = some f)
  (hok : ∀ k a b, f k a b ≠ none)
include hsort hm hok

/-- the final flush of `mtbl_sorter_iter` -/
theorem accInv_finalFlush {adds : List Entry} {s : Sorter} (hi : AccInv c f adds s) :
    ∃ s1, (if s.vec.length > 0 then s.flush else (.success, s)) = (.success, s1) ∧
      AccInv c f adds s1 ∧ s1.vec = [] := by
  by_cases hv : s.vec.length > 0
  · rw [if_pos hv]
    obtain ⟨h1, h2, h3⟩ := accInv_flush hsort hm hok hi
    exact ⟨s.flush.2, by rw [← h1], h2, h3⟩
  · rw [if_neg hv]
    exact ⟨s, rfl, hi, List.eq_nil_of_length_eq_zero (by omega)⟩

/-- the iterator of a sorter whose state satisfies the add-phase invariant -/
theorem accInv_iter {adds : List Entry} {s : Sorter} (hi : AccInv c f adds s)
    (mc : MCfg) (hmm : mc.merge = some f) (hds : mc.dupsort = none) (hF2 : mc.fixF2 = true)
    (fuel : Nat) (hfuel : adds.length + 1 ≤ fuel) :
    ∃ m, (s.iter mc).1 = some m ∧ (s.iter mc).2.iterating = true ∧ (s.iter mc).2.vec = [] ∧
      MInv mc m ∧ m.finished = false ∧
      StrictSorted (mergerDrain mc fuel m) ∧
      (∀ k, (∃ e ∈ mergerDrain mc fuel m, e.key = k) ↔ (∃ e ∈ adds, e.key = k)) ∧
      ∀ e ∈ mergerDrain mc fuel m, Folded f e.key (valuesOf e.key adds) e.val := by
  obtain ⟨s1, hr, hi1, hv1⟩ := accInv_finalFlush hsort hm hok hi
  obtain ⟨pairs, p1, p2, p3⟩ := hi1.parts
  rw [hv1, List.append_nil] at p3
  obtain ⟨m, hmi⟩ := mergerIter_iter mc s1.chunks []
  have hiter : s.iter mc = (some m, { s1 with iterating := true }) := by
    unfold Sorter.iter
    simp only [hr]
    rw [if_neg (by decide)]
    simp only [hmi]
  have htot := hle_total_of_no_dupsort mc hds
  have htrans := hle_trans_of_no_dupsort mc hds
  have hsorted : ∀ es ∈ s1.chunks, Sorted es := by
    intro es hes
    rw [p2] at hes
    obtain ⟨p, hp, rfl⟩ := List.mem_map.mp hes
    exact (p1 p hp).ss.sorted
  obtain ⟨g1, g2, g3⟩ := mergerIter_inv mc htot htrans s1.chunks hsorted .iter [] hmi
  rw [flatMap_remaining_iter_start] at g3
  have hlen : (pool m).length < fuel := by
    have h1 := g3.length_eq
    have h2 := length_flatten_pairs pairs p1
    rw [← p2, ← p3] at h2
    omega
  obtain ⟨d1, d2, d3, d4⟩ := MergerProofs.drain_merge mc hF2 htot htrans hmm hok fuel m g1 hlen
  have hkeys : ∀ k, (∃ e ∈ pool m, e.key = k) ↔ (∃ e ∈ adds, e.key = k) := by
    intro k
    rw [perm_keys g3 k, p2, p3]
    exact keys_flatten_pairs pairs p1 k
  refine ⟨m, by rw [hiter], by rw [hiter], by rw [hiter]; exact hv1, g1, g2, d1, ?_, ?_⟩
  · intro k
    rw [← hkeys k]
    constructor
    · rintro ⟨e, he, rfl⟩
      exact d2 e he
    · rintro ⟨e', he', rfl⟩
      exact d3 e' he'
  · intro e he
    obtain ⟨l, l1, l2⟩ := d4 e he
    have h1 : Folded f e.key (valuesOf e.key s1.chunks.flatten) e.val :=
      Folded.perm (Folded_of_foldl1? l2) ((valuesOf_perm e.key g3).symm.trans l1.symm)
    obtain ⟨ps, q1, q2, q3⟩ := pairs_key pairs p1 e.key
    rw [← p2] at q2
    rw [← p3] at q3
    rw [← q3]
    exact Folded_bind h1 ps q2 q1
end


/-- add everything to a fresh sorter, take the iterator, drain it (at most `fuel` calls of `next`) -/
def _root_.Mtbl.sorterRun (c : SCfg) (mc : MCfg) (fuel : Nat) (adds : List Entry) : Option (List Entry) :=
  ((Sorter.addAll { cfg := c } adds).2.iter mc).1.map (mergerDrain mc fuel)

/-! ### the requested theorems -/

/-- **C06 (2), spill rule.** -/
theorem _root_.Mtbl.C06_spill (c : SCfg) (h : 0 < c.effMemory) (adds : List Entry) :
    let s := (Sorter.addAll { cfg := c } adds).2
    s.entryBytes + c.ptrSize * s.vec.length < c.effMemory ∧
    s.entryBytes = (s.vec.map fun e => c.entryOverhead + e.key.length + e.val.length).sum := by
  have hi := spillInv_addAll { cfg := c } adds h (spillInv_fresh c h)
  have hc := addAll_cfg { cfg := c } adds
  have h1 := hi.below
  have h2 := hi.bytes
  rw [hc] at h1 h2
  exact ⟨h1, h2⟩

/-- **C06 (2), one step**: the invariant is preserved by every `add` (a refused add changes nothing) -/
theorem _root_.Mtbl.C06_spill_step (s : Sorter) (k v : Bytes) (h : 0 < s.cfg.effMemory) (hi : SpillInv s) :
    SpillInv (s.add k v).2 := spillInv_add s k v h hi

/-- **C06 (3).** -/
theorem _root_.Mtbl.C06_refuse (s : Sorter) (k v : Bytes) (h : s.iterating = true) :
    s.add k v = (.failure, s) := add_iterating s k v h

/-- **C06 (4).** -/
theorem _root_.Mtbl.C06_tmp (c : SCfg) :
    c.template = c.tmpDir ++ "/.mtbl." ++ toString c.pid ++ ".XXXXXX" ∧
    ∃ rest : List Char, c.template.toList = c.tmpDir.toList ++ '/' :: rest ∧ '/' ∉ rest := by
  refine ⟨rfl, ?_⟩
  obtain ⟨rest, h1, h2⟩ := template_suffix c.pid
  exact ⟨rest, by rw [template_eq, String.toList_append, h1], h2⟩

section
variable (c : SCfg) (f : Bytes → Bytes → Bytes → Option Bytes)
  (hsort : ∀ l, (c.sortFn l).Perm l ∧ Sorted (c.sortFn l)) (hm : c.merge = some f)
  (hok : ∀ k a b, f k a b ≠ none)
include hsort hm hok

/-- **C06 (5).** -/
theorem _root_.Mtbl.C06_chunks (adds : List Entry) :
    let r := Sorter.addAll { cfg := c } adds
    (∀ x ∈ r.1, x = .success) ∧ r.2.aborted = false ∧ r.2.failedChunk = false ∧
    r.2.iterating = false ∧ r.2.spills = r.2.chunks.length ∧
    (∀ ch ∈ r.2.chunks, StrictSorted ch) ∧
    (∃ pairs : List (List Entry × List Entry),
      (∀ p ∈ pairs, ChunkOf f p.1 p.2) ∧ r.2.chunks = pairs.map (·.2) ∧
      adds = (pairs.map (·.1)).flatten ++ r.2.vec) ∧
    ∀ k, ∃ ps : List (List Bytes × Bytes),
      valuesOf k adds = ps.flatMap (·.1) ++ valuesOf k r.2.vec ∧
      valuesOf k r.2.chunks.flatten = ps.map (·.2) ∧ ∀ p ∈ ps, Folded f k p.1 p.2 := by
  obtain ⟨h1, h2⟩ := accInv_addAll hsort hm hok adds (accInv_fresh c f)
  rw [List.nil_append] at h2
  obtain ⟨pairs, p1, p2, p3⟩ := h2.parts
  refine ⟨h1, h2.notAborted, h2.notFailed, h2.notIter, h2.spills, ?_, ⟨pairs, p1, p2, p3⟩, ?_⟩
  · intro ch hch
    rw [p2] at hch
    obtain ⟨p, hp, rfl⟩ := List.mem_map.mp hch
    exact (p1 p hp).ss
  · intro k
    obtain ⟨ps, q1, q2, q3⟩ := pairs_key pairs p1 k
    refine ⟨ps, ?_, ?_, q1⟩
    · rw [q3]
      conv => lhs; rw [p3]
      rw [valuesOf_append]
    · rw [q2, p2]

/-- **C06 (6), the main theorem.** -/
theorem _root_.Mtbl.C06_output (mc : MCfg) (hmm : mc.merge = some f) (hds : mc.dupsort = none)
    (hF2 : mc.fixF2 = true) (adds : List Entry) (fuel : Nat) (hfuel : adds.length + 1 ≤ fuel) :
    let r := Sorter.addAll { cfg := c } adds
    (∀ x ∈ r.1, x = .success) ∧
    ∃ m, (r.2.iter mc).1 = some m ∧ (r.2.iter mc).2.iterating = true ∧
      StrictSorted (mergerDrain mc fuel m) ∧
      (∀ k, (∃ e ∈ mergerDrain mc fuel m, e.key = k) ↔ (∃ e ∈ adds, e.key = k)) ∧
      ∀ e ∈ mergerDrain mc fuel m, Folded f e.key (valuesOf e.key adds) e.val := by
  obtain ⟨h1, h2⟩ := accInv_addAll hsort hm hok adds (accInv_fresh c f)
  rw [List.nil_append] at h2
  obtain ⟨m, g1, g2, _, _, _, g5, g6, g7⟩ := accInv_iter hsort hm hok h2 mc hmm hds hF2 fuel hfuel
  exact ⟨h1, m, g1, g2, g5, g6, g7⟩

/-- **C06 (6), empty input**: the iterator exists and its first `next` fails -/
theorem _root_.Mtbl.C06_output_empty (mc : MCfg) (hmm : mc.merge = some f) (hds : mc.dupsort = none)
    (hF2 : mc.fixF2 = true) :
    ∃ m, ((Sorter.addAll { cfg := c } []).2.iter mc).1 = some m ∧ (mergerNext mc m).1 = .fail := by
  obtain ⟨_, m, g1, _, _, g6, _⟩ := C06_output c f hsort hm hok mc hmm hds hF2 [] 1 (by simp)
  refine ⟨m, g1, ?_⟩
  cases hn : mergerNext mc m with
  | mk r m' =>
    cases r with
    | fail => rfl
    | ok k v =>
      exfalso
      have : mergerDrain mc 1 m = { key := k, val := v } :: mergerDrain mc 0 m' :=
        MergerProofs.mergerDrain_ok mc 0 hn
      obtain ⟨e, he, _⟩ := (g6 k).mp ⟨_, by rw [this]; exact List.mem_cons_self, rfl⟩
      simp at he
end


/-! ### 7. associative-commutative merge functions: the output is THE fold, and is unique -/

section
variable {f : Bytes → Bytes → Bytes → Option Bytes} (g : Bytes → Bytes → Bytes → Bytes)
  (hf : ∀ k a b, f k a b = some (g k a b))
  (hassoc : ∀ k a b c, g k (g k a b) c = g k a (g k b c))
  (hcomm : ∀ k a b, g k a b = g k b a)

include hf in
theorem foldl1?_total (k x : Bytes) (xs : List Bytes) :
    foldl1? f k (x :: xs) = some (xs.foldl (g k) x) := by
  show xs.foldlM (fun acc y => f k acc y) x = some (xs.foldl (g k) x)
  induction xs generalizing x with
  | nil => rfl
  | cons y ys ih => rw [List.foldlM_cons, hf]; exact ih (g k x y)

include hassoc in
theorem foldl_assoc (k a y : Bytes) (ys : List Bytes) :
    g k a (ys.foldl (g k) y) = ys.foldl (g k) (g k a y) := by
  induction ys generalizing y with
  | nil => rfl
  | cons z zs ih => simp only [List.foldl_cons]; rw [ih, hassoc]

include hassoc hcomm in
theorem foldl_perm (k : Bytes) {xs ys : List Bytes} (hp : xs.Perm ys) :
    ∀ a, xs.foldl (g k) a = ys.foldl (g k) a := by
  induction hp with
  | nil => intro a; rfl
  | cons x _ ih => intro a; simp only [List.foldl_cons]; exact ih _
  | swap x y l =>
    intro a
    simp only [List.foldl_cons]
    rw [hassoc, hcomm k y x, ← hassoc]
  | trans _ _ ih1 ih2 => intro a; rw [ih1, ih2]

include hassoc hcomm in
theorem foldl_perm_cons (k : Bytes) {x x' : Bytes} {xs xs' : List Bytes} (hp : (x :: xs).Perm (x' :: xs')) :
    xs.foldl (g k) x = xs'.foldl (g k) x' := by
  by_cases hx : x = x'
  · subst hx
    exact foldl_perm g hassoc hcomm k hp.cons_inv x
  · have hmem : x ∈ xs' := by
      have : x ∈ x' :: xs' := hp.mem_iff.mp List.mem_cons_self
      rcases List.mem_cons.mp this with h | h
      · exact absurd h hx
      · exact h
    have h1 : xs'.Perm (x :: xs'.erase x) := List.perm_cons_erase hmem
    have h2 : xs.Perm (x' :: xs'.erase x) := by
      have : (x :: xs).Perm (x :: x' :: xs'.erase x) :=
        hp.trans ((h1.cons x').trans (List.Perm.swap _ _ _))
      exact this.cons_inv
    rw [foldl_perm g hassoc hcomm k h2, foldl_perm g hassoc hcomm k h1]
    simp only [List.foldl_cons]
    rw [hcomm k x x']

include hf hassoc hcomm in
/-- with an associative and commutative merge function every way of combining the values gives the
    left fold in list order -/
theorem Folded_foldl1? {k : Bytes} {vs : List Bytes} {v : Bytes} (h : Folded f k vs v) :
    foldl1? f k vs = some v := by
  induction h with
  | one a => rfl
  | @join l1 l2 a b c h1 h2 hc ih1 ih2 =>
    cases l1 with
    | nil => exact absurd rfl (Folded_ne_nil h1)
    | cons x xs =>
      cases l2 with
      | nil => exact absurd rfl (Folded_ne_nil h2)
      | cons y ys =>
        rw [foldl1?_total g hf] at ih1 ih2
        rw [hf] at hc
        simp only [Option.some.injEq] at ih1 ih2 hc
        rw [List.cons_append, foldl1?_total g hf, List.foldl_append, List.foldl_cons, ih1,
          ← foldl_assoc g hassoc, ih2, hc]
  | @perm l l' v h hp ih =>
    cases l with
    | nil => exact absurd rfl (Folded_ne_nil h)
    | cons x xs =>
      cases l' with
      | nil => exact absurd hp.symm.eq_nil (by simp)
      | cons x' xs' =>
        rw [foldl1?_total g hf] at ih ⊢
        rw [foldl_perm_cons g hassoc hcomm k hp]
        exact ih
end

/-- two strictly sorted lists with the same elements are equal -/
theorem strictSorted_ext {l1 l2 : List Entry} (h1 : StrictSorted l1) (h2 : StrictSorted l2)
    (h : ∀ e, e ∈ l1 ↔ e ∈ l2) : l1 = l2 := by
  induction l1 generalizing l2 with
  | nil =>
    cases l2 with
    | nil => rfl
    | cons b u => exact absurd ((h b).mpr List.mem_cons_self) (by simp)
  | cons a t ih =>
    cases l2 with
    | nil => exact absurd ((h a).mp List.mem_cons_self) (by simp)
    | cons b u =>
      have p1 := List.pairwise_cons.mp h1
      have p2 := List.pairwise_cons.mp h2
      have hab : a = b := by
        rcases List.mem_cons.mp ((h a).mp List.mem_cons_self) with hab | hau
        · exact hab
        · rcases List.mem_cons.mp ((h b).mpr List.mem_cons_self) with hba | hbt
          · exact hba.symm
          · exact absurd (p1.1 b hbt) (bcmp_lt_asymm (p2.1 a hau))
      subst hab
      congr 1
      refine ih p1.2 p2.2 fun e => ?_
      constructor
      · intro he
        rcases List.mem_cons.mp ((h e).mp (List.mem_cons_of_mem _ he)) with hea | heu
        · have := p1.1 e he
          rw [hea, bcmp_refl] at this; simp at this
        · exact heu
      · intro he
        rcases List.mem_cons.mp ((h e).mpr (List.mem_cons_of_mem _ he)) with hea | het
        · have := p2.1 e he
          rw [hea, bcmp_refl] at this; simp at this
        · exact het


section
variable (c : SCfg) (f : Bytes → Bytes → Bytes → Option Bytes)
  (hsort : ∀ l, (c.sortFn l).Perm l ∧ Sorted (c.sortFn l)) (hm : c.merge = some f)
  (g : Bytes → Bytes → Bytes → Bytes)
  (hf : ∀ k a b, f k a b = some (g k a b))
  (hassoc : ∀ k a b c, g k (g k a b) c = g k a (g k b c))
  (hcomm : ∀ k a b, g k a b = g k b a)
include hsort hm hf hassoc hcomm

/-- **C06 (7).** with an associative and commutative merge function the value of each key is THE
    (left, arrival-order) fold of the values added for it -/
theorem _root_.Mtbl.C06_output_comm (mc : MCfg) (hmm : mc.merge = some f) (hds : mc.dupsort = none)
    (hF2 : mc.fixF2 = true) (adds : List Entry) (fuel : Nat) (hfuel : adds.length + 1 ≤ fuel) :
    ∃ out, sorterRun c mc fuel adds = some out ∧ StrictSorted out ∧
      (∀ k, (∃ e ∈ out, e.key = k) ↔ (∃ e ∈ adds, e.key = k)) ∧
      ∀ e ∈ out, foldl1? f e.key (valuesOf e.key adds) = some e.val := by
  have hok : ∀ k a b, f k a b ≠ none := by intro k a b; rw [hf]; simp
  obtain ⟨_, m, g1, _, g3, g4, g5⟩ := C06_output c f hsort hm hok mc hmm hds hF2 adds fuel hfuel
  refine ⟨mergerDrain mc fuel m, ?_, g3, g4, fun e he => Folded_foldl1? g hf hassoc hcomm (g5 e he)⟩
  unfold sorterRun
  rw [g1]; rfl
end

/-- **C06 (7), uniqueness**: with an associative and commutative merge function the drained output is
    the same list for every memory limit, every `qsort` and every (sufficient) fuel -/
theorem _root_.Mtbl.C06_output_unique (c c' : SCfg) (f : Bytes → Bytes → Bytes → Option Bytes)
    (hsort : ∀ l, (c.sortFn l).Perm l ∧ Sorted (c.sortFn l)) (hm : c.merge = some f)
    (hsort' : ∀ l, (c'.sortFn l).Perm l ∧ Sorted (c'.sortFn l)) (hm' : c'.merge = some f)
    (g : Bytes → Bytes → Bytes → Bytes)
    (hf : ∀ k a b, f k a b = some (g k a b))
    (hassoc : ∀ k a b c, g k (g k a b) c = g k a (g k b c))
    (hcomm : ∀ k a b, g k a b = g k b a)
    (mc mc' : MCfg) (hmm : mc.merge = some f) (hds : mc.dupsort = none) (hF2 : mc.fixF2 = true)
    (hmm' : mc'.merge = some f) (hds' : mc'.dupsort = none) (hF2' : mc'.fixF2 = true)
    (adds : List Entry) (fuel fuel' : Nat) (hfuel : adds.length + 1 ≤ fuel)
    (hfuel' : adds.length + 1 ≤ fuel') :
    sorterRun c mc fuel adds = sorterRun c' mc' fuel' adds := by
  obtain ⟨o1, a1, a2, a3, a4⟩ :=
    C06_output_comm c f hsort hm g hf hassoc hcomm mc hmm hds hF2 adds fuel hfuel
  obtain ⟨o2, b1, b2, b3, b4⟩ :=
    C06_output_comm c' f hsort' hm' g hf hassoc hcomm mc' hmm' hds' hF2' adds fuel' hfuel'
  rw [a1, b1]
  congr 1
  have key : ∀ (o o' : List Entry), (∀ k, (∃ e ∈ o, e.key = k) ↔ (∃ e ∈ adds, e.key = k)) →
      (∀ k, (∃ e ∈ o', e.key = k) ↔ (∃ e ∈ adds, e.key = k)) →
      (∀ e ∈ o, foldl1? f e.key (valuesOf e.key adds) = some e.val) →
      (∀ e ∈ o', foldl1? f e.key (valuesOf e.key adds) = some e.val) → ∀ e ∈ o, e ∈ o' := by
    intro o o' k1 k2 v1 v2 e he
    obtain ⟨e', he', hk⟩ := (k2 e.key).mpr ((k1 e.key).mp ⟨e, he, rfl⟩)
    have h1 := v1 e he
    have h2 := v2 e' he'
    rw [hk, h1] at h2
    have : e' = e := by
      cases e; cases e'
      simp only [Option.some.injEq] at h2
      simp only at hk
      rw [hk, h2]
    rw [← this]; exact he'
  exact strictSorted_ext a2 b2 fun e => ⟨key o1 o2 a3 b3 a4 b4 e, key o2 o1 b3 a3 b4 a4 e⟩

/-! ### 8. a stable insertion sort as `qsort`; concrete runs -/

def insertByKey (e : Entry) : List Entry → List Entry
  | [] => [e]
  | x :: xs => if bcmp e.key x.key != .gt then e :: x :: xs else x :: insertByKey e xs

/-- stable insertion sort by key -/
def insertionSort (l : List Entry) : List Entry := l.foldr insertByKey []

theorem insertByKey_perm (e : Entry) (l : List Entry) : (insertByKey e l).Perm (e :: l) := by
  induction l with
  | nil => exact List.Perm.refl _
  | cons x xs ih =>
    unfold insertByKey
    split
    · exact List.Perm.refl _
    · exact (ih.cons x).trans (List.Perm.swap _ _ _)

theorem insertByKey_sorted (e : Entry) (l : List Entry) (h : Sorted l) : Sorted (insertByKey e l) := by
  induction l with
  | nil => exact List.pairwise_singleton _ _
  | cons x xs ih =>
    have h1 := List.pairwise_cons.mp h
    unfold insertByKey
    split
    · rename_i hle
      have hle' : bcmp e.key x.key ≠ .gt := by simpa using hle
      refine List.pairwise_cons.mpr ⟨?_, h⟩
      intro y hy
      rcases List.mem_cons.mp hy with rfl | hy
      · exact hle'
      · exact bcmp_le_trans hle' (h1.1 y hy)
    · rename_i hgt
      have hgt' : bcmp e.key x.key = .gt := by simpa using hgt
      refine List.pairwise_cons.mpr ⟨?_, ih h1.2⟩
      intro y hy
      rcases List.mem_cons.mp ((insertByKey_perm e xs).mem_iff.mp hy) with rfl | hy
      · rw [(bcmp_swap' _ _).mp hgt']; simp
      · exact h1.1 y hy

/-- the hypothesis on `qsort` is satisfiable -/
theorem insertionSort_spec (l : List Entry) : (insertionSort l).Perm l ∧ Sorted (insertionSort l) := by
  induction l with
  | nil => exact ⟨List.Perm.refl _, List.Pairwise.nil⟩
  | cons e t ih =>
    exact ⟨(insertByKey_perm e _).trans (ih.1.cons e), insertByKey_sorted e _ ih.2⟩

def catF : Bytes → Bytes → Bytes → Option Bytes := fun _ a b => some (a ++ b)
def exCfg : SCfg := { maxMemory := 40, minMemory := 0, merge := some catF, sortFn := insertionSort }
def exMCfg : MCfg := { merge := some catF, dupsort := none }
def exAdds : List Entry :=
  [⟨[3], [1]⟩, ⟨[2], [2]⟩, ⟨[2], [3]⟩, ⟨[2], [4]⟩, ⟨[1], [5]⟩, ⟨[1], [6]⟩, ⟨[], [7]⟩, ⟨[], [8]⟩]

def exAdds11 : List Entry := exAdds ++ [⟨[1], [9]⟩, ⟨[], [10]⟩, ⟨[4], [11]⟩]

/-- every entry costs 8 + |k| + |v| + 8 bytes: the third entry of a batch reaches the limit of 40, so the
    reverse-sorted 8 adds spill twice, the last two entries (empty key) stay buffered … -/
example : (Sorter.addAll { cfg := exCfg } exAdds).1 = List.replicate 8 Res.success ∧
    (Sorter.addAll { cfg := exCfg } exAdds).2.chunks =
      [[⟨[2], [2, 3]⟩, ⟨[3], [1]⟩], [⟨[1], [5, 6]⟩, ⟨[2], [4]⟩]] ∧
    (Sorter.addAll { cfg := exCfg } exAdds).2.vec = [⟨[], [7]⟩, ⟨[], [8]⟩] ∧
    (Sorter.addAll { cfg := exCfg } exAdds).2.spills = 2 ∧
    (Sorter.addAll { cfg := exCfg } exAdds).2.entryBytes = 18 := by decide +kernel

/-- … `iter` flushes them as the third chunk and the merged output has each key once, ascending; key
    `[2]` (duplicated within chunk 1 and across chunks 1 and 2) gets `4 ++ (2 ++ 3)`: a `Folded`
    combination of its values that is NOT the arrival-order fold (concatenation is not commutative) -/
example : sorterRun exCfg exMCfg 9 exAdds =
    some [⟨[], [7, 8]⟩, ⟨[1], [5, 6]⟩, ⟨[2], [4, 2, 3]⟩, ⟨[3], [1]⟩] := by decide +kernel

/-- the same adds with the default memory limit: one chunk, arrival-order folds -/
example : sorterRun { exCfg with minMemory := 10485760 } exMCfg 9 exAdds =
    some [⟨[], [7, 8]⟩, ⟨[1], [5, 6]⟩, ⟨[2], [2, 3, 4]⟩, ⟨[3], [1]⟩] := by decide +kernel

/-- three spills during the adds and a fourth chunk from the final flush -/
example : (Sorter.addAll { cfg := exCfg } exAdds11).2.chunks =
      [[⟨[2], [2, 3]⟩, ⟨[3], [1]⟩], [⟨[1], [5, 6]⟩, ⟨[2], [4]⟩], [⟨[], [7, 8]⟩, ⟨[1], [9]⟩]] ∧
    (Sorter.addAll { cfg := exCfg } exAdds11).2.vec = [⟨[], [10]⟩, ⟨[4], [11]⟩] ∧
    (Sorter.addAll { cfg := exCfg } exAdds11).2.spills = 3 ∧
    sorterRun exCfg exMCfg 12 exAdds11 =
      some [⟨[], [7, 8, 10]⟩, ⟨[1], [5, 6, 9]⟩, ⟨[2], [2, 3, 4]⟩, ⟨[3], [1]⟩, ⟨[4], [11]⟩] := by
  decide +kernel

/-- after `iter` the sorter refuses adds; an empty sorter yields an iterator that fails at once -/
example : ((((Sorter.addAll { cfg := exCfg } exAdds).2.iter exMCfg).2.add [9] [9]).1 = Res.failure) ∧
    sorterRun exCfg exMCfg 1 [] = some [] := by decide +kernel

/-- duplicates without a merge function: the assertion `s->opt.merge != NULL` fires -/
example : (Sorter.addAll { cfg := { exCfg with merge := none } } exAdds).2.aborted = true := by
  decide +kernel

example : exCfg.template = "/var/tmp/.mtbl.0.XXXXXX" := by decide +kernel


/-
  Status: items 1-8 of the task are proved at full strength; nothing is left `_partial`.
  Not covered by the model (hence by these theorems): the thread-pool path of `_mtbl_sorter_flush`
  (chunks pushed in completion order by `_collect_readers_cb`), and what `mtbl_sorter_iter` does with a
  NULL reader left behind by a failed merge callback (`failedChunk`).
-/
end SorterProofs
end Mtbl
