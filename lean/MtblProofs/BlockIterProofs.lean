import MtblProofs.BlockDefs
/-
  Algorithmic correctness of the block iterator (mtbl/block.c) from ANY iterator state,
  using only the abstract facts `BlockOK` / `BRep` / `BPre` of BlockDefs.lean.
-/
namespace Mtbl

namespace BlockIter

/-! ### order lemmas on `bcmp` (local copies, so that this file is self-contained) -/

theorem bcmp_self : ∀ a : Bytes, bcmp a a = .eq
  | [] => rfl
  | x :: xs => by
    have h : ¬ x < x := UInt8.lt_irrefl x
    simp only [bcmp, h, if_false]
    exact bcmp_self xs

theorem bcmp_eq_imp : ∀ a b : Bytes, bcmp a b = .eq → a = b
  | [], [] => fun _ => rfl
  | [], _ :: _ => by simp [bcmp]
  | _ :: _, [] => by simp [bcmp]
  | x :: xs, y :: ys => by
    intro h
    simp only [bcmp] at h
    split at h
    · cases h
    · split at h
      · cases h
      · rename_i h1 h2
        have : x = y := UInt8.le_antisymm (UInt8.not_lt.mp h2) (UInt8.not_lt.mp h1)
        rw [this, bcmp_eq_imp xs ys h]

theorem bcmp_lt_trans : ∀ a b c : Bytes, bcmp a b = .lt → bcmp b c = .lt → bcmp a c = .lt
  | [], [], _ => by simp [bcmp]
  | [], _ :: _, [] => by simp [bcmp]
  | [], _ :: _, _ :: _ => by simp [bcmp]
  | _ :: _, [], _ => by simp [bcmp]
  | _ :: _, _ :: _, [] => by simp [bcmp]
  | x :: xs, y :: ys, z :: zs => by
    intro h1 h2
    simp only [bcmp] at h1 h2 ⊢
    by_cases hxy : x < y
    · by_cases hyz : y < z
      · simp [UInt8.lt_trans hxy hyz]
      · simp only [hyz, if_false] at h2
        by_cases hzy : z < y
        · simp [hzy] at h2
        · have : y = z := UInt8.le_antisymm (UInt8.not_lt.mp hzy) (UInt8.not_lt.mp hyz)
          subst this; simp [hxy]
    · simp only [hxy, if_false] at h1
      by_cases hyx : y < x
      · simp [hyx] at h1
      · have : x = y := UInt8.le_antisymm (UInt8.not_lt.mp hyx) (UInt8.not_lt.mp hxy)
        subst this
        simp only [hyx, if_false] at h1
        by_cases hxz : x < z
        · simp [hxz]
        · simp only [hxz, if_false] at h2 ⊢
          by_cases hzx : z < x
          · simp [hzx] at h2
          · simp only [hzx, if_false] at h2 ⊢
            exact bcmp_lt_trans xs ys zs h1 h2

/-! ### `lowerBound` characterisation -/

theorem takeWhile_length_eq {α} (f : α → Bool) : ∀ (l : List α) (q : Nat) (_ : q ≤ l.length),
    (∀ i (h : i < l.length), i < q → f l[i] = true) →
    (∀ (h : q < l.length), f l[q] = false) →
    (l.takeWhile f).length = q
  | [], q, hq, _, _ => by simp at hq; simp [hq]
  | x :: xs, 0, _, _, h2 => by
    have := h2 (by simp)
    simp at this
    simp [List.takeWhile, this]
  | x :: xs, q+1, hq, h1, h2 => by
    have hx := h1 0 (by simp) (by omega)
    simp at hx
    simp only [List.takeWhile, hx, List.length_cons]
    congr 1
    apply takeWhile_length_eq f xs q (by simpa using hq)
    · intro i h hi
      have := h1 (i+1) (by simp; omega) (by omega)
      simpa using this
    · intro h
      have := h2 (by simp; omega)
      simpa using this

/-- `lowerBound es t = q` as soon as the `q` leading keys are `< t` and entry `q` (if any) is not. -/
theorem lowerBound_eq_of {v : BlockView} {t : Bytes} {q : Nat} (hq : q ≤ v.n)
    (hlt : ∀ i, i < q → bcmp (v.key i) t = .lt)
    (hge : q < v.n → bcmp (v.key q) t ≠ .lt) : lowerBound v.ents t = q := by
  unfold lowerBound
  apply takeWhile_length_eq _ v.ents q hq
  · intro i h hi
    have := hlt i hi
    simp only [BlockView.key, List.getD_eq_getElem?_getD, List.getElem?_eq_getElem h,
      Option.getD_some] at this
    simp [this]
  · intro h
    have := hge h
    simp only [BlockView.key, List.getD_eq_getElem?_getD, List.getElem?_eq_getElem h,
      Option.getD_some] at this
    simpa using this

theorem key_lt_of_sorted {v : BlockView} (hs : StrictSorted v.ents) {i j : Nat} (hij : i < j)
    (hj : j < v.n) : bcmp (v.key i) (v.key j) = .lt := by
  have hi : i < v.ents.length := by unfold BlockView.n at hj; omega
  have hj' : j < v.ents.length := hj
  have := (List.pairwise_iff_getElem.mp hs) i j hi hj' hij
  simpa only [BlockView.key, List.getD_eq_getElem?_getD, List.getElem?_eq_getElem hi,
    List.getElem?_eq_getElem hj', Option.getD_some] using this

/-! ### consequences of `BlockOK` -/

theorem off_lt {b : Blk} {v : BlockView} (ok : BlockOK b v) {i : Nat} :
    ∀ {j : Nat}, i < j → j ≤ v.n → v.off i < v.off j := by
  intro j
  induction j with
  | zero => intro h; omega
  | succ j ih =>
    intro hij hj
    have h1 := ok.off_mono j (by omega)
    by_cases h : i = j
    · subst h; exact h1
    · have := ih (by omega) (by omega); omega

theorem off_lt_iff {b : Blk} {v : BlockView} (ok : BlockOK b v) {i j : Nat}
    (hi : i ≤ v.n) (hj : j ≤ v.n) : v.off i < v.off j ↔ i < j := by
  constructor
  · intro h
    by_cases hij : i < j
    · exact hij
    · by_cases e : i = j
      · subst e; omega
      · have := off_lt ok (show j < i by omega) hi; omega
  · intro h; exact off_lt ok h hj

theorem off_lt_restart {b : Blk} {v : BlockView} (ok : BlockOK b v) {i : Nat} (hi : i < v.n) :
    v.off i < b.restartOffset := by
  rw [← ok.off_last]; exact off_lt ok hi (Nat.le_refl _)

theorem r_le_n {b : Blk} {v : BlockView} (ok : BlockOK b v) {j : Nat} (hj : j < v.nr) :
    v.r j ≤ v.n := by
  have := ok.r_lt j hj; omega

theorem r_lt_n {b : Blk} {v : BlockView} (ok : BlockOK b v) {j : Nat} (hj : j < v.nr)
    (hn : 0 < v.n) : v.r j < v.n := by
  have := ok.r_lt j hj; omega

theorem r_mem {v : BlockView} {j : Nat} (hj : j < v.nr) : v.r j ∈ v.rs := by
  have hj' : j < v.rs.length := hj
  simp only [BlockView.r, List.getD_eq_getElem?_getD, List.getElem?_eq_getElem hj',
    Option.getD_some]
  exact List.getElem_mem hj'

theorem nr_eq_one_of_empty {b : Blk} {v : BlockView} (ok : BlockOK b v) (hn : v.n = 0) :
    v.nr = 1 := by
  have h0 := ok.nr_pos
  by_cases h : v.nr = 1
  · exact h
  · have h1 := ok.r_mono 0 (by omega)
    have h2 := ok.r_lt 1 (by omega)
    simp only [Nat.zero_add] at h1
    omega

/-- the loop condition of `bumpRestart`, abstractly -/
theorem bump_cond {b : Blk} {v : BlockView} (ok : BlockOK b v) {bi : BI} {q ri : Nat}
    (hb : bi.blk = b) (hr : bi.restarts = b.restartOffset) (hn : bi.numRestarts = v.nr)
    (hc : bi.current = v.off q) (hq : q ≤ v.n) :
    (ri + 1 < bi.numRestarts ∧ getRestartPoint bi (ri + 1) < bi.current) ↔
    (ri + 1 < v.nr ∧ v.r (ri + 1) < q) := by
  rw [hn]
  constructor
  · rintro ⟨h1, h2⟩
    rw [ok.restart_pt bi (ri + 1) hb hr h1, hc, off_lt_iff ok (r_le_n ok h1) hq] at h2
    exact ⟨h1, h2⟩
  · rintro ⟨h1, h2⟩
    rw [ok.restart_pt bi (ri + 1) hb hr h1, hc, off_lt_iff ok (r_le_n ok h1) hq]
    exact ⟨h1, h2⟩

theorem bump_stop {b : Blk} {v : BlockView} (ok : BlockOK b v) {bi : BI} {q ri : Nat}
    (hb : bi.blk = b) (hr : bi.restarts = b.restartOffset) (hn : bi.numRestarts = v.nr)
    (hc : bi.current = v.off q) (hq : q ≤ v.n)
    (hs : ¬ (ri + 1 < v.nr ∧ v.r (ri + 1) < q)) (f : Nat) : bumpRestart bi f ri = ri := by
  cases f with
  | zero => rfl
  | succ f =>
    unfold bumpRestart
    rw [if_neg]
    rw [bump_cond ok hb hr hn hc hq]; exact hs

/-- the restart-index bump loop runs at most once and re-establishes the tight invariant -/
theorem bump_spec {b : Blk} {v : BlockView} (ok : BlockOK b v) {bi : BI} {q ri : Nat}
    (hb : bi.blk = b) (hr : bi.restarts = b.restartOffset) (hn : bi.numRestarts = v.nr)
    (hc : bi.current = v.off q) (hq : q ≤ v.n)
    (h1 : ri < v.nr) (h2 : v.r ri ≤ q) (h3 : ri + 1 < v.nr → q ≤ v.r (ri + 1) + 1) (f : Nat) :
    bumpRestart bi f ri < v.nr ∧ v.r (bumpRestart bi f ri) ≤ q ∧
    (0 < f → bumpRestart bi f ri + 1 < v.nr → q ≤ v.r (bumpRestart bi f ri + 1)) := by
  cases f with
  | zero => exact ⟨h1, h2, fun h => absurd h (Nat.lt_irrefl _)⟩
  | succ f =>
    by_cases hs : ri + 1 < v.nr ∧ v.r (ri + 1) < q
    · have hstop : ¬ (ri + 1 + 1 < v.nr ∧ v.r (ri + 1 + 1) < q) := by
        rintro ⟨h4, h5⟩
        have := ok.r_mono (ri + 1) h4
        have := h3 hs.1
        omega
      have e : bumpRestart bi (f + 1) ri = ri + 1 := by
        conv => lhs; unfold bumpRestart
        rw [if_pos ((bump_cond ok hb hr hn hc hq).mpr hs)]
        exact bump_stop ok hb hr hn hc hq hstop f
      rw [e]
      refine ⟨hs.1, by omega, fun _ h4 => ?_⟩
      have := ok.r_mono (ri + 1) h4
      have := h3 hs.1
      omega
    · rw [bump_stop ok hb hr hn hc hq hs]
      refine ⟨h1, h2, fun _ h4 => ?_⟩
      have : ¬ v.r (ri + 1) < q := fun h => hs ⟨h4, h⟩
      omega

end BlockIter

open BlockIter

/-! ### 1. block_iter_init -/

theorem biInit_spec {b v} (ok : BlockOK b v) : ∃ bi, biInit b = some bi ∧ BRep b v bi v.n := by
  have h1 : ¬ b.size < 8 := by have := ok.size_ok; omega
  have h2 : ¬ numRestarts b = 0 := by have := ok.nr_ok; have := ok.nr_pos; omega
  refine ⟨_, by simp only [biInit, h1, h2, if_false]; rfl, ?_⟩
  exact { blk_eq := rfl, restarts_eq := rfl, nr_eq := ok.nr_ok, p_le := Nat.le_refl _,
          at_entry := fun h => absurd h (Nat.lt_irrefl _),
          at_end := fun _ => ⟨rfl, ok.nr_ok⟩ }

/-! ### 2. parse_next_key -/

theorem parseNextKey_spec {b v bi q} (ok : BlockOK b v) (h : BPre b v bi q) :
    (q < v.n → (parseNextKey bi).1 = true ∧ BRep b v (parseNextKey bi).2 q) ∧
    (q = v.n → (parseNextKey bi).1 = false ∧ BRep b v (parseNextKey bi).2 v.n) := by
  constructor
  · intro hq
    obtain ⟨sh, ns, vl, p, hdec, hsh0, hshle, hkey, hval, hoff, hrs⟩ := ok.entry q hq
    have hlt : ¬ (bi.next ≥ bi.restarts) := by
      rw [h.next_eq, h.restarts_eq]; have := off_lt_restart ok hq; omega
    have hdec' : decodeEntryAt bi.blk.data bi.next bi.restarts = some (sh, ns, vl, p) := by
      rw [h.blk_eq, h.next_eq, h.restarts_eq]; exact hdec
    simp only [parseNextKey, hlt, if_false, hdec']
    refine ⟨trivial, ?_⟩
    have hk : List.take sh bi.key = List.take sh (v.key (q - 1)) := by
      rcases h.key_ok with ⟨_, hk⟩ | ⟨hm, hk⟩
      · rw [hk]
      · rw [hrs hm]; rfl
    have hbump := bump_spec ok
      (bi := { blk := bi.blk, restarts := bi.restarts, numRestarts := bi.numRestarts,
               current := bi.next, restartIndex := bi.restartIndex, next := p + ns + vl,
               key := List.take sh bi.key ++ List.take ns (List.drop p bi.blk.data),
               val := List.take vl (List.drop (p + ns) bi.blk.data) })
      (q := q) (ri := bi.restartIndex) h.blk_eq h.restarts_eq h.nr_eq h.next_eq h.q_le
      h.ri_lt h.ri_lo h.ri_hi bi.numRestarts
    have hfuel : 0 < bi.numRestarts := by rw [h.nr_eq]; exact ok.nr_pos
    obtain ⟨hb1, hb2, hb3⟩ := hbump
    exact { blk_eq := h.blk_eq, restarts_eq := h.restarts_eq, nr_eq := h.nr_eq, p_le := h.q_le,
            at_entry := fun _ => ⟨h.next_eq, hoff.symm, by rw [hk, h.blk_eq]; exact hkey.symm,
              by rw [h.blk_eq]; exact hval.symm, hb1, hb2, hb3 hfuel⟩,
            at_end := fun e => absurd e (Nat.ne_of_lt hq) }
  · intro hq
    have hge : bi.next ≥ bi.restarts := by
      rw [h.next_eq, h.restarts_eq, hq, ok.off_last]; exact Nat.le_refl _
    simp only [parseNextKey, hge, if_true]
    refine ⟨trivial, ?_⟩
    exact { blk_eq := h.blk_eq, restarts_eq := h.restarts_eq, nr_eq := h.nr_eq,
            p_le := Nat.le_refl _, at_entry := fun e => absurd e (Nat.lt_irrefl _),
            at_end := fun _ => ⟨h.restarts_eq, h.nr_eq⟩ }

/-! ### 3. seeking to a restart point -/

theorem seekToRestartPoint_pre {b v bi j} (ok : BlockOK b v) (hb : bi.blk = b)
    (hr : bi.restarts = b.restartOffset) (hn : bi.numRestarts = v.nr) (hj : j < v.nr) :
    BPre b v (seekToRestartPoint bi j) (v.r j) :=
  { blk_eq := hb, restarts_eq := hr, nr_eq := hn, q_le := r_le_n ok hj,
    next_eq := ok.restart_pt bi j hb hr hj,
    key_ok := Or.inr ⟨r_mem hj, rfl⟩,
    ri_lt := hj, ri_lo := Nat.le_refl _,
    ri_hi := fun h => by
      have := ok.r_mono j h
      show v.r j ≤ v.r (j + 1) + 1
      omega }

/-! ### 4. an iterator standing on `p` is ready to parse `p+1` -/

theorem BRep_pre_next {b v bi p} (ok : BlockOK b v) (h : BRep b v bi p) (hp : p < v.n) :
    BPre b v bi (p + 1) := by
  have _ := ok
  obtain ⟨_, h2, h3, _, h5, h6, h7⟩ := h.at_entry hp
  exact { blk_eq := h.blk_eq, restarts_eq := h.restarts_eq, nr_eq := h.nr_eq, q_le := hp,
          next_eq := h2, key_ok := Or.inl ⟨Nat.succ_pos _, by simpa using h3⟩,
          ri_lt := h5, ri_lo := by omega, ri_hi := fun e => by have := h7 e; omega }

/-! ### 5. block_iter_seek_to_first -/

theorem biSeekToFirst_spec {b v bi p} (ok : BlockOK b v) (h : BRep b v bi p) :
    BRep b v (biSeekToFirst bi) (if 0 < v.n then 0 else v.n) := by
  have hpre := seekToRestartPoint_pre (j := 0) ok h.blk_eq h.restarts_eq h.nr_eq ok.nr_pos
  rw [ok.r_zero] at hpre
  have := parseNextKey_spec ok hpre
  unfold biSeekToFirst
  split
  · next hn => exact (this.1 hn).2
  · next hn => exact (this.2 (by omega)).2

theorem biSeekToFirst_spec_pos {b v bi p} (ok : BlockOK b v) (h : BRep b v bi p) (hn : 0 < v.n) :
    BRep b v (biSeekToFirst bi) 0 := by
  have := biSeekToFirst_spec ok h; rwa [if_pos hn] at this

theorem biSeekToFirst_spec_empty {b v bi p} (ok : BlockOK b v) (h : BRep b v bi p)
    (hn : v.n = 0) : BRep b v (biSeekToFirst bi) v.n := by
  have := biSeekToFirst_spec ok h; rwa [if_neg (by omega)] at this

/-! ### 6. block_iter_valid / block_iter_next -/

theorem biValid_iff {b v bi p} (ok : BlockOK b v) (h : BRep b v bi p) :
    biValid bi = true ↔ p < v.n := by
  unfold biValid
  rw [decide_eq_true_iff]
  constructor
  · intro hc
    by_cases hp : p < v.n
    · exact hp
    · have := (h.at_end (by have := h.p_le; omega)).1
      rw [this, h.restarts_eq] at hc; omega
  · intro hp
    rw [(h.at_entry hp).1, h.restarts_eq]; exact off_lt_restart ok hp

theorem biNext_spec {b v bi p} (ok : BlockOK b v) (h : BRep b v bi p) :
    BRep b v (biNext bi) (min (p + 1) v.n) := by
  unfold biNext
  by_cases hp : p < v.n
  · have hv := (biValid_iff ok h).mpr hp
    simp only [hv, Bool.not_true, Bool.false_eq_true, if_false]
    have hpre := BRep_pre_next ok h hp
    have hs := parseNextKey_spec ok hpre
    rw [Nat.min_eq_left hp]
    by_cases hq : p + 1 < v.n
    · exact (hs.1 hq).2
    · have e : p + 1 = v.n := by omega
      have := (hs.2 e).2
      rwa [← e] at this
  · have hv : biValid bi = false := by
      rw [← Bool.not_eq_true, biValid_iff ok h]; exact hp
    simp only [hv, Bool.not_false, if_true]
    have e : p = v.n := by have := h.p_le; omega
    rw [Nat.min_eq_right (by omega)]
    rwa [e] at h

/-! ### 7. compare_restart_point -/

theorem cmpRestart_spec {b v bi j t} (ok : BlockOK b v) (hb : bi.blk = b)
    (hr : bi.restarts = b.restartOffset) (hj : j < v.nr) (hn : 0 < v.n) :
    cmpRestart bi j t = bcmp (v.key (v.r j)) t := by
  obtain ⟨sh, ns, vl, p, hdec, _, _, hkey, _, _, hrs⟩ := ok.entry (v.r j) (r_lt_n ok hj hn)
  have hsh := hrs (r_mem hj)
  unfold cmpRestart
  rw [ok.restart_pt bi j hb hr hj, hb, hr, hdec]
  simp only
  rw [hkey, hsh]
  rfl

/-! ### 8. galloping + binary search over the restart array -/

namespace BlockIter

/-- "restart `l` is a safe place to start the linear scan for `t`" -/
def LowOK (v : BlockView) (t : Bytes) (l : Nat) : Prop :=
  l < v.nr ∧ (l = 0 ∨ bcmp (v.key (v.r l)) t = .lt)

theorem gallop_spec {b v bi t} (ok : BlockOK b v) (hb : bi.blk = b)
    (hr : bi.restarts = b.restartOffset) (hnr : bi.numRestarts = v.nr) (hn : 0 < v.n) :
    ∀ (f i incr left : Nat), i < v.nr → LowOK v t left →
      LowOK v t (gallop bi t f i incr left).1 ∧ (gallop bi t f i incr left).2 < v.nr := by
  intro f
  induction f with
  | zero => intro i incr left hi hl; exact ⟨hl, hi⟩
  | succ f ih =>
    intro i incr left hi hl
    unfold gallop
    rw [cmpRestart_spec ok hb hr hi hn]
    by_cases hc : bcmp (v.key (v.r i)) t = .lt
    · simp only [hc, beq_self_eq_true, if_true]
      by_cases hov : i + incr > bi.numRestarts - 1
      · simp only [hov, if_true]
        exact ⟨⟨hi, Or.inr hc⟩, by rw [hnr]; have := ok.nr_pos; omega⟩
      · simp only [hov, if_false]
        exact ih (i + incr) (incr * 2) i (by rw [hnr] at hov; omega) ⟨hi, Or.inr hc⟩
    · have : (bcmp (v.key (v.r i)) t == Ordering.lt) = false := by
        simpa using hc
      simp only [this, Bool.false_eq_true, if_false]
      exact ⟨hl, hi⟩

theorem bsearch_spec {b v bi t} (ok : BlockOK b v) (hb : bi.blk = b)
    (hr : bi.restarts = b.restartOffset) (hn : 0 < v.n) :
    ∀ (f left right : Nat), right < v.nr → LowOK v t left → LowOK v t (bsearch bi t f left right) := by
  intro f
  induction f with
  | zero => intro left right _ hl; exact hl
  | succ f ih =>
    intro left right hrt hl
    unfold bsearch
    by_cases hlr : left < right
    · simp only [hlr, if_true]
      have hmid : (left + right + 1) / 2 < v.nr := by omega
      rw [cmpRestart_spec ok hb hr hmid hn]
      by_cases hc : bcmp (v.key (v.r ((left + right + 1) / 2))) t = .lt
      · simp only [hc, beq_self_eq_true, if_true]
        exact ih _ _ hrt ⟨hmid, Or.inr hc⟩
      · have : (bcmp (v.key (v.r ((left + right + 1) / 2))) t == Ordering.lt) = false := by
          simpa using hc
        simp only [this, Bool.false_eq_true, if_false]
        exact ih _ _ (by omega) hl
    · simp only [hlr, if_false]
      exact hl

theorem seekBounds_spec {b v bi p t} (ok : BlockOK b v) (h : BRep b v bi p) (hn : 0 < v.n) :
    LowOK v t (seekBounds bi t).1 ∧ (seekBounds bi t).2 < v.nr := by
  unfold seekBounds
  split
  · next hc =>
    simp only [Bool.and_eq_true, bne_iff_ne, ne_eq] at hc
    have hp : p < v.n := by
      by_cases hp : p < v.n
      · exact hp
      · have := (h.at_end (by have := h.p_le; omega)).2
        rw [h.nr_eq] at hc; omega
    have hri := (h.at_entry hp).2.2.2.2.1
    exact gallop_spec ok h.blk_eq h.restarts_eq h.nr_eq hn _ _ _ _ hri ⟨ok.nr_pos, Or.inl rfl⟩
  · exact ⟨⟨ok.nr_pos, Or.inl rfl⟩, by rw [h.nr_eq]; have := ok.nr_pos; show v.nr - 1 < v.nr; omega⟩

end BlockIter

theorem seekLeft_spec {b v bi p t} (ok : BlockOK b v) (h : BRep b v bi p) (hn : 0 < v.n) :
    seekLeft bi t < v.nr ∧ (seekLeft bi t = 0 ∨ bcmp (v.key (v.r (seekLeft bi t))) t = .lt) := by
  have hsb := seekBounds_spec (t := t) ok h hn
  unfold seekLeft
  simp only
  split
  · exact bsearch_spec ok h.blk_eq h.restarts_eq hn _ _ _ hsb.2 hsb.1
  · exact hsb.1

/-! ### 9. the final linear scan -/

theorem linear_spec {b v bi q t} (ok : BlockOK b v) (h : BPre b v bi q)
    (hlt : ∀ i, i < q → bcmp (v.key i) t = .lt) (fuel : Nat) (hf : v.n - q < fuel) :
    BRep b v (linear t fuel bi) (lowerBound v.ents t) := by
  induction fuel generalizing bi q with
  | zero => omega
  | succ f ih =>
    have hs := parseNextKey_spec ok h
    unfold linear
    simp only
    by_cases hq : q < v.n
    · obtain ⟨h1, h2⟩ := hs.1 hq
      have hk : (parseNextKey bi).2.key = v.key q := (h2.at_entry hq).2.2.1
      simp only [h1, Bool.not_true, Bool.false_eq_true, if_false, hk]
      by_cases hc : bcmp (v.key q) t = .lt
      · have : (bcmp (v.key q) t != Ordering.lt) = false := by simp [hc]
        simp only [this, Bool.false_eq_true, if_false]
        apply ih (BRep_pre_next ok h2 hq)
        · intro i hi
          by_cases e : i = q
          · rw [e]; exact hc
          · exact hlt i (by omega)
        · omega
      · have : (bcmp (v.key q) t != Ordering.lt) = true := by simp [hc]
        simp only [this, if_true]
        rw [lowerBound_eq_of h.q_le hlt (fun _ => hc)]
        exact h2
    · have e : q = v.n := by have := h.q_le; omega
      obtain ⟨h1, h2⟩ := hs.2 e
      simp only [h1, Bool.not_false, if_true]
      rw [lowerBound_eq_of h.q_le hlt (fun hh => absurd hh hq), e]
      exact h2

/-! ### 10. block_iter_seek, from any iterator state -/

namespace BlockIter

/-- on an empty block the restart search returns restart 0 -/
theorem seekLeft_empty {b v bi p t} (ok : BlockOK b v) (h : BRep b v bi p) (hn : v.n = 0) :
    seekLeft bi t = 0 := by
  have hnr := nr_eq_one_of_empty ok hn
  have hri := (h.at_end (by have := h.p_le; omega)).2
  unfold seekLeft seekBounds
  simp [h.nr_eq, hri, hnr]

/-- what `block_iter_seek` needs to know about the chosen restart point -/
theorem seekLeft_low {b v bi p t} (ok : BlockOK b v) (h : BRep b v bi p) :
    seekLeft bi t < v.nr ∧ ∀ i, i < v.r (seekLeft bi t) → bcmp (v.key i) t = .lt := by
  by_cases hn : 0 < v.n
  · obtain ⟨h1, h2⟩ := seekLeft_spec (t := t) ok h hn
    refine ⟨h1, fun i hi => ?_⟩
    rcases h2 with h2 | h2
    · rw [h2, ok.r_zero] at hi; omega
    · exact bcmp_lt_trans _ _ _ (key_lt_of_sorted ok.sorted hi (r_lt_n ok h1 hn)) h2
  · have e := seekLeft_empty (t := t) ok h (by omega)
    rw [e]
    refine ⟨ok.nr_pos, fun i hi => ?_⟩
    rw [ok.r_zero] at hi; omega

end BlockIter

theorem blockSeek_spec {b v bi p t} (ok : BlockOK b v) (h : BRep b v bi p)
    (hsz : v.n ≤ b.data.length) : BRep b v (biSeek bi t) (lowerBound v.ents t) := by
  obtain ⟨hl1, hl2⟩ := seekLeft_low (t := t) ok h
  -- if the tracked restart index equals `left`, the iterator is valid
  have hvalid : bi.restartIndex = seekLeft bi t → p < v.n := by
    intro e
    by_cases hp : p < v.n
    · exact hp
    · have := (h.at_end (by have := h.p_le; omega)).2
      omega
  unfold biSeek
  simp only
  by_cases hA : (bi.restartIndex == seekLeft bi t && bcmp bi.key t == Ordering.eq) = true
  · -- (a) shortcut: already standing on the key
    simp only [hA, if_true]
    simp only [Bool.and_eq_true, beq_iff_eq] at hA
    have hp := hvalid hA.1
    have hk : v.key p = t := by
      rw [← (h.at_entry hp).2.2.1]; exact bcmp_eq_imp _ _ hA.2
    have : lowerBound v.ents t = p := by
      apply lowerBound_eq_of h.p_le
      · intro i hi; rw [← hk]; exact key_lt_of_sorted ok.sorted hi hp
      · intro _; rw [hk, bcmp_self]; decide
    rw [this]; exact h
  · simp only [hA, Bool.false_eq_true, if_false]
    by_cases hB : (bi.restartIndex == seekLeft bi t && bcmp bi.key t == Ordering.lt) = true
    · -- (b) same restart run and current key < target: continue from the current entry
      simp only [hB, Bool.not_true, Bool.false_eq_true, if_false]
      simp only [Bool.and_eq_true, beq_iff_eq] at hB
      have hp := hvalid hB.1
      have hk : bcmp (v.key p) t = .lt := by rw [← (h.at_entry hp).2.2.1]; exact hB.2
      apply linear_spec ok (BRep_pre_next ok h hp)
      · intro i hi
        by_cases e : i = p
        · rw [e]; exact hk
        · exact bcmp_lt_trans _ _ _ (key_lt_of_sorted ok.sorted (show i < p by omega) hp) hk
      · rw [h.blk_eq]; omega
    · -- (c) restart from restart point `left`
      have hB' : (bi.restartIndex == seekLeft bi t && bcmp bi.key t == Ordering.lt) = false := by
        simpa using hB
      simp only [hB', Bool.not_false, if_true]
      apply linear_spec ok (seekToRestartPoint_pre ok h.blk_eq h.restarts_eq h.nr_eq hl1) hl2
      show v.n - v.r (seekLeft bi t) < bi.blk.data.length + 1
      rw [h.blk_eq]; omega

/-! ### the size side condition is in fact a consequence of `BlockOK` -/

namespace BlockIter

theorem decodeEntryAt_some_lt {data : Bytes} {p limit : Nat} {x}
    (h : decodeEntryAt data p limit = some x) : p < data.length := by
  by_cases hp : p < data.length
  · exact hp
  · have hd : data.drop p = [] := List.drop_eq_nil_of_le (by omega)
    have hv : vdecR 5 ([] : Bytes) = none := rfl
    unfold decodeEntryAt at h
    simp only [hd, List.take_nil, hv] at h
    split at h <;> cases h

theorem le_off {b : Blk} {v : BlockView} (ok : BlockOK b v) : ∀ i, i ≤ v.n → i ≤ v.off i := by
  intro i
  induction i with
  | zero => intro _; exact Nat.zero_le _
  | succ i ih => intro hi; have := ih (by omega); have := ok.off_mono i (by omega); omega

/-- every entry starts inside the data, and offsets are strictly increasing from 0 -/
theorem n_le_data {b : Blk} {v : BlockView} (ok : BlockOK b v) : v.n ≤ b.data.length := by
  by_cases hn : v.n = 0
  · omega
  · obtain ⟨_, _, _, _, hdec, _⟩ := ok.entry (v.n - 1) (by omega)
    have := decodeEntryAt_some_lt hdec
    have := le_off ok (v.n - 1) (by omega)
    omega

/-- characterisation of `lowerBound` (no sortedness needed: `takeWhile` stops at the first key `≥ t`;
    on a `StrictSorted` view this is the unique position with all keys before `< t`, all after `≥ t`) -/
theorem lowerBound_iff {v : BlockView} {t : Bytes} {q : Nat} :
    lowerBound v.ents t = q ↔
      q ≤ v.n ∧ (∀ i, i < q → bcmp (v.key i) t = .lt) ∧ (q < v.n → bcmp (v.key q) t ≠ .lt) := by
  constructor
  · intro e
    -- scan for the first index whose key is not `< t`
    have hex : ∀ k, k ≤ v.n → (∀ i, i < k → bcmp (v.key i) t = .lt) →
        ∃ q', q' ≤ v.n ∧ (∀ i, i < q' → bcmp (v.key i) t = .lt) ∧
          (q' < v.n → bcmp (v.key q') t ≠ .lt) := by
      intro k hk
      generalize hd : v.n - k = d
      induction d generalizing k with
      | zero => intro hlt; exact ⟨k, hk, hlt, fun h => by omega⟩
      | succ d ih =>
        intro hlt
        by_cases hc : bcmp (v.key k) t = .lt
        · apply ih (k + 1) (by omega) (by omega)
          intro i hi
          by_cases e : i = k
          · rw [e]; exact hc
          · exact hlt i (by omega)
        · exact ⟨k, hk, hlt, fun _ => hc⟩
    obtain ⟨q', h1, h2, h3⟩ := hex 0 (Nat.zero_le _) (fun i hi => by omega)
    have := lowerBound_eq_of h1 h2 h3
    rw [e] at this
    subst this
    exact ⟨h1, h2, h3⟩
  · rintro ⟨h1, h2, h3⟩
    exact lowerBound_eq_of h1 h2 h3

end BlockIter

/-- `blockSeek_spec` without the size hypothesis (it follows from `BlockOK`) -/
theorem blockSeek_spec' {b v bi p t} (ok : BlockOK b v) (h : BRep b v bi p) :
    BRep b v (biSeek bi t) (lowerBound v.ents t) :=
  blockSeek_spec ok h (n_le_data ok)

end Mtbl
