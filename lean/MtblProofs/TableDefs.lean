import MtblModel.Reader
import MtblProofs.BlockDefs
/-
  Representation predicates for the reader layer (DESIGN.md appendix B).
  `TableOK r t` : reader `r` (an opened file) decodes, block by block, to the abstract content `t`.
  `Rep r t it c` : reader iterator `it` represents the abstract cursor `c` over `t.entries`.
-/
namespace Mtbl

structure TableView where
  blocks : List (Blk × BlockView)      -- the data blocks, decoded
  offs : List Nat                      -- file offset of each data block's frame
  index : Blk × BlockView              -- the index block: entry j = (separator key of block j, varint offset of block j)

namespace TableView
def nb (t : TableView) : Nat := t.blocks.length
def blk (t : TableView) (j : Nat) : Blk := (t.blocks.getD j (default, ⟨[], [], []⟩)).1
def view (t : TableView) (j : Nat) : BlockView := (t.blocks.getD j (default, ⟨[], [], []⟩)).2
def off (t : TableView) (j : Nat) : Nat := t.offs.getD j 0
def entries (t : TableView) : List Entry := t.blocks.flatMap fun b => b.2.ents
/-- number of entries in blocks before block `j` -/
def base (t : TableView) (j : Nat) : Nat := ((t.blocks.take j).map fun b => b.2.ents.length).sum
def sep (t : TableView) (j : Nat) : Bytes := t.index.2.key j
end TableView

structure TableOK (r : Rd) (t : TableView) : Prop where
  index_blk : r.index = t.index.1
  index_ok : BlockOK t.index.1 t.index.2
  index_n : t.index.2.n = t.nb
  offs_len : t.offs.length = t.nb
  index_val : ∀ j, j < t.nb → (vdecode64 (t.index.2.val j)).1 = t.off j
  get_block : ∀ j, j < t.nb → getBlock r (t.off j) = some (t.blk j)
  block_ok : ∀ j, j < t.nb → BlockOK (t.blk j) (t.view j)
  nonempty : ∀ j, j < t.nb → 0 < (t.view j).n
  offs_inj : ∀ i j, i < t.nb → j < t.nb → t.off i = t.off j → i = j
  sep_lo : ∀ j, j < t.nb → bcmp ((t.view j).key ((t.view j).n - 1)) (t.sep j) ≠ .gt
  sep_hi : ∀ j, j + 1 < t.nb → bcmp (t.sep j) ((t.view (j + 1)).key 0) = .lt
  sorted : StrictSorted t.entries

end Mtbl
