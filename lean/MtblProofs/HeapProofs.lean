import MtblModel.Heap
/-
  Proofs about the model of libmy/heap.c (`MtblModel/Heap.lean`):
  sizes, multiset (permutation) laws, preservation of the heap property, root minimality.
-/
namespace Mtbl.Heap

variable {α : Type} [Inhabited α]

/-- heap property: every element is ≥ its parent -/
def IsHeap (le : α → α → Bool) (v : Array α) : Prop :=
  ∀ i, 0 < i → i < v.size → le v[(i-1)/2]! v[i]! = true

/-! ### element access helpers -/

theorem get_set (v : Array α) (p i : Nat) (x : α) (hp : p < v.size) :
    (v.setIfInBounds p x)[i]! = if i = p then x else v[i]! := by
  grind

theorem get_set_eq (v : Array α) (p : Nat) (x : α) (hp : p < v.size) :
    (v.setIfInBounds p x)[p]! = x := by
  grind

theorem get_set_ne (v : Array α) (p i : Nat) (x : α) (h : i ≠ p) :
    (v.setIfInBounds p x)[i]! = v[i]! := by
  grind

theorem get_pop (v : Array α) (i : Nat) (hi : i < v.size - 1) : v.pop[i]! = v[i]! := by
  grind

theorem get_push_lt (v : Array α) (i : Nat) (x : α) (hi : i < v.size) :
    (v.push x)[i]! = v[i]! := by
  grind

theorem get_push_eq (v : Array α) (x : α) : (v.push x)[v.size]! = x := by
  grind

/-! ### `pickChild` -/

theorem pickChild_none (le : α → α → Bool) (v : Array α) (pos : Nat)
    (h : pickChild le v pos = none) : v.size ≤ 2 * pos + 1 := by
  unfold pickChild at h
  simp only at h
  split at h
  · split at h
    · split at h <;> simp at h
    · simp at h
  · omega

theorem pickChild_some (le : α → α → Bool) (v : Array α) (pos c : Nat)
    (h : pickChild le v pos = some c) :
    (c = 2 * pos + 1 ∨ c = 2 * pos + 2) ∧ c < v.size := by
  unfold pickChild at h
  simp only at h
  split at h
  · split at h
    · split at h <;> (simp at h; omega)
    · simp at h; omega
  · simp at h

/-- the picked child is ≤ every child of `pos` -/
theorem pickChild_le (le : α → α → Bool) (htot : ∀ a b, le a b = true ∨ le b a = true)
    (v : Array α) (pos c : Nat) (h : pickChild le v pos = some c) :
    ∀ i, 0 < i → i < v.size → (i - 1) / 2 = pos → le v[c]! v[i]! = true := by
  intro i hi0 hi hpar
  have hrefl : ∀ a, le a a = true := fun a => by cases htot a a <;> assumption
  have hcases : i = 2 * pos + 1 ∨ i = 2 * pos + 2 := by omega
  unfold pickChild at h
  simp only at h
  split at h
  · split at h
    · split at h
      · simp at h; subst h
        rcases hcases with rfl | rfl
        · assumption
        · exact hrefl _
      · simp at h; subst h
        rcases hcases with rfl | rfl
        · exact hrefl _
        · rename_i hnle
          cases htot v[2 * pos + 1 + 1]! v[2 * pos + 1]! with
          | inl h1 => exact absurd h1 hnle
          | inr h2 => exact h2
    · simp at h; subst h
      rcases hcases with rfl | rfl
      · exact hrefl _
      · omega
  · simp at h

/-! ### sizes -/

@[simp] theorem siftdown_size (le : α → α → Bool) (v : Array α) (pos : Nat) (item : α) (fuel : Nat) :
    (siftdown le v pos item fuel).size = v.size := by
  induction fuel generalizing v pos with
  | zero => simp [siftdown]
  | succ n ih =>
    unfold siftdown
    split
    · simp
    · split
      · simp
      · rw [ih]; simp

@[simp] theorem siftup_size (le : α → α → Bool) (v : Array α) (pos : Nat) (item : α) (fuel : Nat) :
    (siftup le v pos item fuel).size = v.size := by
  induction fuel generalizing v pos with
  | zero => simp [siftup]
  | succ n ih =>
    unfold siftup
    split
    · simp only
      split
      · simp
      · rw [ih]; simp
    · simp

theorem push_size (le : α → α → Bool) (v : Array α) (x : α) :
    (push le v x).size = v.size + 1 := by
  simp [push]

theorem replace_size (le : α → α → Bool) (v : Array α) (x : α) :
    (replace le v x).size = v.size := by
  unfold replace; split <;> simp

theorem pop_size (le : α → α → Bool) (v : Array α) :
    (pop le v).size = v.size - 1 := by
  unfold pop
  split
  · omega
  · simp only
    split <;> simp

theorem foldl_siftdown_size (le : α → α → Bool) (n : Nat) (l : List Nat) (v : Array α)
    (hv : v.size = n) :
    (l.foldl (fun v i => siftdown le v i v[i]! v.size) v).size = n := by
  induction l generalizing v with
  | nil => simpa using hv
  | cons a l ih => simp only [List.foldl_cons]; apply ih; simpa using hv

theorem heapify_size (le : α → α → Bool) (v : Array α) :
    (heapify le v).size = v.size := by
  unfold heapify
  exact foldl_siftdown_size le v.size _ v rfl

/-! ### multiset laws -/

theorem list_perm_set (l : List α) (p : Nat) (x : α) (hp : p < l.length) :
    (l[p]! :: l.set p x).Perm (x :: l) := by
  induction l generalizing p with
  | nil => simp at hp
  | cons a l ih =>
    cases p with
    | zero => simp; exact List.Perm.swap _ _ _
    | succ p =>
      simp at hp
      have := ih p hp
      simp only [List.set_cons_succ]
      have e : (a :: l)[p + 1]! = l[p]! := by simp
      rw [e]
      exact (List.Perm.swap _ _ _).trans ((this.cons a).trans (List.Perm.swap _ _ _))

/-- `v.setIfInBounds pos x`, as a multiset, is `v` with `v[pos]` exchanged for `x` -/
theorem perm_set (v : Array α) (p : Nat) (x : α) (hp : p < v.size) :
    (v[p]! :: (v.setIfInBounds p x).toList).Perm (x :: v.toList) := by
  have := list_perm_set v.toList p x (by simpa using hp)
  have e : v.toList[p]! = v[p]! := by grind
  rw [e] at this
  simpa using this

theorem siftdown_perm (le : α → α → Bool) (v : Array α) (pos : Nat) (item : α) (fuel : Nat)
    (hp : pos < v.size) :
    (v[pos]! :: (siftdown le v pos item fuel).toList).Perm (item :: v.toList) := by
  induction fuel generalizing v pos with
  | zero => exact perm_set v pos item hp
  | succ n ih =>
    unfold siftdown
    split
    · exact perm_set v pos item hp
    · rename_i c hc
      split
      · exact perm_set v pos item hp
      · have hcs := pickChild_some le v pos c hc
        have hne : c ≠ pos := by omega
        have hIH := ih (v.setIfInBounds pos v[c]!) c (by simpa using hcs.2)
        rw [get_set_ne v pos c _ hne] at hIH
        have h1 := perm_set v pos v[c]! hp
        -- v[pos] :: v[c] :: S ~ v[c] :: item :: v
        have h2 : (v[c]! :: v[pos]! :: (siftdown le (v.setIfInBounds pos v[c]!) c item n).toList).Perm
            (v[c]! :: item :: v.toList) :=
          (List.Perm.swap _ _ _).trans ((hIH.cons v[pos]!).trans
            ((List.Perm.swap _ _ _).trans ((h1.cons item).trans (List.Perm.swap _ _ _))))
        exact h2.cons_inv

theorem siftup_perm (le : α → α → Bool) (v : Array α) (pos : Nat) (item : α) (fuel : Nat)
    (hp : pos < v.size) :
    (v[pos]! :: (siftup le v pos item fuel).toList).Perm (item :: v.toList) := by
  induction fuel generalizing v pos with
  | zero => exact perm_set v pos item hp
  | succ n ih =>
    unfold siftup
    split
    · simp only
      split
      · exact perm_set v pos item hp
      · have hne : (pos - 1) / 2 ≠ pos := by omega
        have hlt : (pos - 1) / 2 < v.size := by omega
        have hIH := ih (v.setIfInBounds pos v[(pos - 1) / 2]!) ((pos - 1) / 2) (by simpa using hlt)
        rw [get_set_ne v pos _ _ hne] at hIH
        have h1 := perm_set v pos v[(pos - 1) / 2]! hp
        have h2 : (v[(pos - 1) / 2]! :: v[pos]! ::
            (siftup le (v.setIfInBounds pos v[(pos - 1) / 2]!) ((pos - 1) / 2) item n).toList).Perm
            (v[(pos - 1) / 2]! :: item :: v.toList) :=
          (List.Perm.swap _ _ _).trans ((hIH.cons v[pos]!).trans
            ((List.Perm.swap _ _ _).trans ((h1.cons item).trans (List.Perm.swap _ _ _))))
        exact h2.cons_inv
    · exact perm_set v pos item hp

theorem push_perm (le : α → α → Bool) (v : Array α) (x : α) :
    (push le v x).toList.Perm (x :: v.toList) := by
  unfold push
  simp only
  have h := siftup_perm le (v.push x) ((v.push x).size - 1) x (v.push x).size (by simp)
  have e : (v.push x).size - 1 = v.size := by simp
  rw [e] at h ⊢
  rw [get_push_eq] at h
  have h' := h.cons_inv
  refine h'.trans ?_
  simp only [Array.toList_push]
  exact List.perm_append_singleton x v.toList

theorem replace_perm (le : α → α → Bool) (v : Array α) (x : α) (h : 0 < v.size) :
    (v[0]! :: (replace le v x).toList).Perm (x :: v.toList) := by
  unfold replace
  rw [if_neg (by omega)]
  exact siftdown_perm le v 0 x v.size h

/-- equivalent form: the root is replaced by `x` -/
theorem replace_perm_tail (le : α → α → Bool) (v : Array α) (x : α) (h : 0 < v.size) :
    (replace le v x).toList.Perm (x :: v.toList.tail) := by
  have h1 := replace_perm le v x h
  have e : v.toList = v[0]! :: v.toList.tail := by
    cases hv : v.toList with
    | nil => have : v.size = 0 := by simp [← Array.length_toList, hv]
             omega
    | cons a l =>
      have : v[0]! = a := by
        have : v = (a :: l).toArray := by rw [← hv]
        subst this; simp
      simp [this]
  rw [e] at h1
  have h2 := (h1.trans (List.Perm.swap _ _ _)).cons_inv
  rw [e]; exact h2

theorem toList_pop_snoc (v : Array α) (h : 0 < v.size) :
    v.toList = v.pop.toList ++ [v[v.size - 1]!] := by
  have hne : v.toList ≠ [] := by
    intro e; have : v.size = 0 := by simp [← Array.length_toList, e]
    omega
  have := (List.dropLast_concat_getLast hne).symm
  rw [Array.toList_pop]
  have e : v.toList.getLast hne = v[v.size - 1]! := by
    rw [List.getLast_eq_getElem]; grind
  rw [← e]; exact this

theorem pop_perm (le : α → α → Bool) (v : Array α) (h : 0 < v.size) :
    (v[0]! :: (pop le v).toList).Perm v.toList := by
  have hv := toList_pop_snoc v h
  unfold pop
  rw [if_neg (by omega)]
  simp only
  split
  · rename_i hsz
    have h1 := siftdown_perm le v.pop 0 v[v.size - 1]! v.pop.size hsz
    rw [get_pop v 0 (by simpa using hsz)] at h1
    rw [hv]
    exact h1.trans (List.perm_append_singleton _ _).symm
  · rename_i hsz
    have h1 : v.size = 1 := by simp at hsz; omega
    have h2 : v.pop.toList = [] := by
      have : v.pop.toList.length = 0 := by simp [h1]
      exact List.eq_nil_of_length_eq_zero this
    rw [hv, h2, h1]
    simp

theorem foldl_siftdown_perm (le : α → α → Bool) (l : List Nat) (v : Array α)
    (hl : ∀ i ∈ l, i < v.size) :
    (l.foldl (fun v i => siftdown le v i v[i]! v.size) v).toList.Perm v.toList := by
  induction l generalizing v with
  | nil => exact List.Perm.refl _
  | cons a l ih =>
    simp only [List.foldl_cons]
    have ha : a < v.size := hl a (by simp)
    have h1 := (siftdown_perm le v a v[a]! v.size ha).cons_inv
    refine (ih _ ?_).trans h1
    intro i hi
    have := hl i (by simp [hi])
    simpa using this

theorem heapify_perm (le : α → α → Bool) (v : Array α) :
    (heapify le v).toList.Perm v.toList := by
  unfold heapify
  apply foldl_siftdown_perm
  intro i hi
  simp at hi
  omega

/-! ### root is a minimum -/

omit [Inhabited α] in
theorem le_refl_of_total {le : α → α → Bool} (htot : ∀ a b, le a b = true ∨ le b a = true)
    (a : α) : le a a = true := by
  cases htot a a <;> assumption

theorem root_min (le : α → α → Bool) (htot : ∀ a b, le a b = true ∨ le b a = true)
    (htrans : ∀ a b c, le a b = true → le b c = true → le a c = true)
    (v : Array α) (hv : IsHeap le v) : ∀ i, i < v.size → le v[0]! v[i]! = true := by
  intro i
  induction i using Nat.strongRecOn with
  | _ i ih =>
    intro hi
    cases i with
    | zero => exact le_refl_of_total htot _
    | succ j =>
      have h1 := ih ((j + 1 - 1) / 2) (by omega) (by omega)
      have h2 := hv (j + 1) (by omega) hi
      exact htrans _ _ _ h1 h2

/-! ### heap property: siftdown -/

/-- every edge whose parent index is ≥ `k` is ordered -/
def HeapFrom (le : α → α → Bool) (k : Nat) (v : Array α) : Prop :=
  ∀ i, 0 < i → i < v.size → k ≤ (i - 1) / 2 → le v[(i-1)/2]! v[i]! = true

theorem heapFrom_zero (le : α → α → Bool) (v : Array α) : HeapFrom le 0 v ↔ IsHeap le v := by
  constructor
  · intro h i h0 hi; exact h i h0 hi (Nat.zero_le _)
  · intro h i h0 hi _; exact h i h0 hi

/-- invariant of `siftdown` (restricted to edges with parent ≥ `k`): all edges not touching
    the hole `pos` are ordered; the hole's parent is ≤ the hole's children and ≤ `item`. -/
structure DownInv (le : α → α → Bool) (k : Nat) (v : Array α) (pos : Nat) (item : α) : Prop where
  hk : k ≤ pos
  hpos : pos < v.size
  edges : ∀ i, 0 < i → i < v.size → k ≤ (i - 1) / 2 → (i - 1) / 2 ≠ pos → i ≠ pos →
    le v[(i-1)/2]! v[i]! = true
  grand : ∀ i, 0 < i → i < v.size → (i - 1) / 2 = pos → 0 < pos → k ≤ (pos - 1) / 2 →
    le v[(pos-1)/2]! v[i]! = true
  par : 0 < pos → k ≤ (pos - 1) / 2 → le v[(pos-1)/2]! item = true

theorem heapFrom_set_of_children (le : α → α → Bool) (k : Nat) (v : Array α) (pos : Nat) (item : α)
    (inv : DownInv le k v pos item)
    (hch : ∀ i, 0 < i → i < v.size → (i - 1) / 2 = pos → le item v[i]! = true) :
    HeapFrom le k (v.setIfInBounds pos item) := by
  intro i h0 hi hki
  have hi' : i < v.size := by simpa using hi
  by_cases h1 : i = pos
  · subst h1
    rw [get_set_eq v i item inv.hpos, get_set_ne v i _ item (by omega)]
    exact inv.par h0 hki
  · by_cases h2 : (i - 1) / 2 = pos
    · rw [h2, get_set_eq v pos item inv.hpos, get_set_ne v pos i item h1]
      exact hch i h0 hi' h2
    · rw [get_set_ne v pos i item h1, get_set_ne v pos _ item h2]
      exact inv.edges i h0 hi' hki h2 h1

theorem siftdown_heapFrom (le : α → α → Bool) (htot : ∀ a b, le a b = true ∨ le b a = true)
    (htrans : ∀ a b c, le a b = true → le b c = true → le a c = true)
    (k : Nat) (v : Array α) (pos : Nat) (item : α) (fuel : Nat)
    (inv : DownInv le k v pos item) (hfuel : v.size ≤ pos + fuel) :
    HeapFrom le k (siftdown le v pos item fuel) := by
  induction fuel generalizing v pos with
  | zero => have := inv.hpos; omega
  | succ n ih =>
    unfold siftdown
    split
    · rename_i hnone
      have hsz := pickChild_none le v pos hnone
      apply heapFrom_set_of_children le k v pos item inv
      intro i h0 hi hp; omega
    · rename_i c hc
      have hcs := pickChild_some le v pos c hc
      have hcle := pickChild_le le htot v pos c hc
      split
      · rename_i hle
        apply heapFrom_set_of_children le k v pos item inv
        intro i h0 hi hp
        exact htrans _ _ _ hle (hcle i h0 hi hp)
      · rename_i hnle
        have hci : le v[c]! item = true := by
          cases htot item v[c]! with
          | inl h => exact absurd h hnle
          | inr h => exact h
        have hpos := inv.hpos
        have hcpar : (c - 1) / 2 = pos := by omega
        have hc0 : 0 < c := by omega
        have hcne : c ≠ pos := by omega
        apply ih
        · constructor
          · have := inv.hk; omega
          · simpa using hcs.2
          · intro i h0 hi hki hpc hic
            have hi' : i < v.size := by simpa using hi
            by_cases h1 : i = pos
            · subst h1
              rw [get_set_eq v i _ hpos, get_set_ne v i _ _ (by omega)]
              exact inv.grand c hc0 hcs.2 hcpar h0 hki
            · by_cases h2 : (i - 1) / 2 = pos
              · rw [h2, get_set_eq v pos _ hpos, get_set_ne v pos i _ h1]
                exact hcle i h0 hi' h2
              · rw [get_set_ne v pos i _ h1, get_set_ne v pos _ _ h2]
                exact inv.edges i h0 hi' hki h2 h1
          · intro i h0 hi hpc _ hkc
            have hi' : i < v.size := by simpa using hi
            rw [hcpar, get_set_eq v pos _ hpos, get_set_ne v pos i _ (by omega)]
            have := inv.edges i h0 hi' (by have := inv.hk; omega) (by omega) (by omega)
            rw [hpc] at this
            exact this
          · intro _ _
            rw [hcpar, get_set_eq v pos _ hpos]
            exact hci
        · simp; omega

theorem replace_isHeap (le : α → α → Bool) (htot : ∀ a b, le a b = true ∨ le b a = true)
    (htrans : ∀ a b c, le a b = true → le b c = true → le a c = true)
    (v : Array α) (x : α) (hv : IsHeap le v) : IsHeap le (replace le v x) := by
  unfold replace
  split
  · exact hv
  · rename_i hsz
    rw [← heapFrom_zero]
    apply siftdown_heapFrom le htot htrans
    · constructor
      · omega
      · omega
      · intro i h0 hi _ _ _; exact hv i h0 hi
      · intro i _ _ _ h; omega
      · intro h; omega
    · omega

theorem pop_isHeap (le : α → α → Bool) (htot : ∀ a b, le a b = true ∨ le b a = true)
    (htrans : ∀ a b c, le a b = true → le b c = true → le a c = true)
    (v : Array α) (hv : IsHeap le v) : IsHeap le (pop le v) := by
  have hpopHeap : IsHeap le v.pop := by
    intro i h0 hi
    have hi' : i < v.size - 1 := by simpa using hi
    rw [get_pop v i hi', get_pop v _ (by omega)]
    exact hv i h0 (by omega)
  unfold pop
  split
  · exact hv
  · simp only
    split
    · rename_i hsz
      rw [← heapFrom_zero]
      apply siftdown_heapFrom le htot htrans
      · constructor
        · omega
        · exact hsz
        · intro i h0 hi _ _ _; exact hpopHeap i h0 hi
        · intro i _ _ _ h; omega
        · intro h; omega
      · omega
    · exact hpopHeap

/-! ### heap property: heapify -/

theorem foldl_siftdown_isHeap (le : α → α → Bool) (htot : ∀ a b, le a b = true ∨ le b a = true)
    (htrans : ∀ a b c, le a b = true → le b c = true → le a c = true)
    (n : Nat) (v : Array α) (hn : n ≤ v.size) (hv : HeapFrom le n v) :
    IsHeap le ((List.range n).reverse.foldl (fun v i => siftdown le v i v[i]! v.size) v) := by
  induction n generalizing v with
  | zero => simpa [heapFrom_zero] using hv
  | succ n ih =>
    rw [List.range_succ, List.reverse_append]
    simp only [List.reverse_cons, List.reverse_nil, List.nil_append, List.cons_append,
      List.foldl_cons]
    apply ih
    · simp; omega
    · apply siftdown_heapFrom le htot htrans
      · constructor
        · omega
        · omega
        · intro i h0 hi hki hne _
          exact hv i h0 hi (by omega)
        · intro i _ _ _ h1 h2; omega
        · intro h1 h2; omega
      · omega

theorem heapify_isHeap (le : α → α → Bool) (htot : ∀ a b, le a b = true ∨ le b a = true)
    (htrans : ∀ a b c, le a b = true → le b c = true → le a c = true)
    (v : Array α) : IsHeap le (heapify le v) := by
  unfold heapify
  apply foldl_siftdown_isHeap le htot htrans
  · omega
  · intro i h0 hi hk; omega

/-! ### heap property: siftup -/

/-- invariant of `siftup`: all edges not touching the hole `pos` are ordered; the children of the
    hole are ≥ `item` and ≥ the hole's parent. -/
structure UpInv (le : α → α → Bool) (v : Array α) (pos : Nat) (item : α) : Prop where
  hpos : pos < v.size
  edges : ∀ i, 0 < i → i < v.size → (i - 1) / 2 ≠ pos → i ≠ pos → le v[(i-1)/2]! v[i]! = true
  child : ∀ i, 0 < i → i < v.size → (i - 1) / 2 = pos → le item v[i]! = true
  grand : ∀ i, 0 < i → i < v.size → (i - 1) / 2 = pos → 0 < pos → le v[(pos-1)/2]! v[i]! = true

theorem isHeap_set_of_upInv (le : α → α → Bool) (v : Array α) (pos : Nat) (item : α)
    (inv : UpInv le v pos item) (hpar : 0 < pos → le v[(pos-1)/2]! item = true) :
    IsHeap le (v.setIfInBounds pos item) := by
  intro i h0 hi
  have hi' : i < v.size := by simpa using hi
  by_cases h1 : i = pos
  · subst h1
    rw [get_set_eq v i item inv.hpos, get_set_ne v i _ item (by omega)]
    exact hpar h0
  · by_cases h2 : (i - 1) / 2 = pos
    · rw [h2, get_set_eq v pos item inv.hpos, get_set_ne v pos i item h1]
      exact inv.child i h0 hi' h2
    · rw [get_set_ne v pos i item h1, get_set_ne v pos _ item h2]
      exact inv.edges i h0 hi' h2 h1

theorem siftup_isHeap (le : α → α → Bool) (htot : ∀ a b, le a b = true ∨ le b a = true)
    (htrans : ∀ a b c, le a b = true → le b c = true → le a c = true)
    (v : Array α) (pos : Nat) (item : α) (fuel : Nat)
    (inv : UpInv le v pos item) (hfuel : pos ≤ fuel) :
    IsHeap le (siftup le v pos item fuel) := by
  induction fuel generalizing v pos with
  | zero =>
    unfold siftup
    exact isHeap_set_of_upInv le v pos item inv (by omega)
  | succ n ih =>
    unfold siftup
    split
    · rename_i hp0
      simp only
      split
      · rename_i hle
        exact isHeap_set_of_upInv le v pos item inv (fun _ => hle)
      · rename_i hnle
        have hip : le item v[(pos - 1) / 2]! = true := by
          cases htot item v[(pos - 1) / 2]! with
          | inl h => exact h
          | inr h => exact absurd h hnle
        have hpos := inv.hpos
        have hp0' : 0 < pos := hp0
        have hppne : (pos - 1) / 2 ≠ pos := by omega
        apply ih
        · constructor
          · simp; omega
          · intro i h0 hi hpc hic
            have hi' : i < v.size := by simpa using hi
            have h1 : i ≠ pos := by intro h; subst h; exact hpc rfl
            by_cases h2 : (i - 1) / 2 = pos
            · rw [h2, get_set_eq v pos _ hpos, get_set_ne v pos i _ h1]
              exact inv.grand i h0 hi' h2 hp0'
            · rw [get_set_ne v pos i _ h1, get_set_ne v pos _ _ h2]
              exact inv.edges i h0 hi' h2 h1
          · intro i h0 hi hpc
            have hi' : i < v.size := by simpa using hi
            by_cases h1 : i = pos
            · subst h1
              rw [get_set_eq v i _ hpos]; exact hip
            · rw [get_set_ne v pos i _ h1]
              have := inv.edges i h0 hi' (by omega) h1
              rw [hpc] at this
              exact htrans _ _ _ hip this
          · intro i h0 hi hpc hpp0
            have hi' : i < v.size := by simpa using hi
            have hgp : le v[((pos - 1) / 2 - 1) / 2]! v[(pos - 1) / 2]! = true :=
              inv.edges ((pos - 1) / 2) hpp0 (by omega) (by omega) hppne
            rw [get_set_ne v pos _ _ (by omega)]
            by_cases h1 : i = pos
            · subst h1
              rw [get_set_eq v i _ hpos]; exact hgp
            · rw [get_set_ne v pos i _ h1]
              have := inv.edges i h0 hi' (by omega) h1
              rw [hpc] at this
              exact htrans _ _ _ hgp this
        · omega
    · exact isHeap_set_of_upInv le v pos item inv (by omega)

theorem push_isHeap (le : α → α → Bool) (htot : ∀ a b, le a b = true ∨ le b a = true)
    (htrans : ∀ a b c, le a b = true → le b c = true → le a c = true)
    (v : Array α) (x : α) (hv : IsHeap le v) : IsHeap le (push le v x) := by
  unfold push
  simp only
  have e : (v.push x).size - 1 = v.size := by simp
  rw [e]
  apply siftup_isHeap le htot htrans
  · constructor
    · simp
    · intro i h0 hi _ hne
      have hi' : i < v.size := by simp at hi; omega
      rw [get_push_lt v i x hi', get_push_lt v _ x (by omega)]
      exact hv i h0 hi'
    · intro i h0 hi hp; simp at hi; omega
    · intro i h0 hi hp; simp at hi; omega
  · simp

end Mtbl.Heap
