import MtblModel.Merger
import MtblProofs.HeapProofs
/-
  Proofs about the model of mtbl/merger.c (`MtblModel/Merger.lean`), property C04:
  a merger yields every distinct key once, in ascending order, the value being the fold of the merge
  function over all values the sources hold for that key.
-/
namespace Mtbl

/-! ### definitions requested by the task -/

/-- entries a source will still deliver -/
def Src.remaining (s : Src) : List Entry :=
  if s.cur.stuck then [] else (s.es.drop s.cur.pos).takeWhile fun e => inBound s.kind e.key

/-- everything the merger can still output: live heap heads plus what their sources still hold -/
def pool (m : MIter) : List Entry :=
  m.heap.toList.flatMap fun h =>
    if h.finished then [] else { key := h.key, val := h.val } :: (m.srcs[h.src]!).remaining

/-- left fold of the merge function over a non-empty list of values; none if the callback fails -/
def foldl1? (f : Bytes → Bytes → Bytes → Option Bytes) (k : Bytes) : List Bytes → Option Bytes
  | [] => none
  | v :: vs => vs.foldlM (fun acc x => f k acc x) v

namespace MergerProofs

/-! ### `bcmp` is a total order -/

theorem u8_lt_asymm {a b : UInt8} (h : a < b) : ¬ b < a := by
  rw [UInt8.lt_iff_toNat_lt] at *; omega

theorem u8_eq_of_not_lt {a b : UInt8} (h1 : ¬ a < b) (h2 : ¬ b < a) : a = b := by
  rw [UInt8.lt_iff_toNat_lt] at *
  apply UInt8.toNat_inj.mp; omega

theorem u8_lt_trans {a b c : UInt8} (h1 : a < b) (h2 : b < c) : a < c := by
  rw [UInt8.lt_iff_toNat_lt] at *; omega

theorem bcmp_refl (a : Bytes) : bcmp a a = .eq := by
  induction a with
  | nil => rfl
  | cons x xs ih => simp [bcmp, ih, UInt8.lt_irrefl]

theorem bcmp_eq_iff (a b : Bytes) : bcmp a b = .eq ↔ a = b := by
  constructor
  · intro h
    induction a generalizing b with
    | nil => cases b with
      | nil => rfl
      | cons y ys => simp [bcmp] at h
    | cons x xs ih => cases b with
      | nil => simp [bcmp] at h
      | cons y ys =>
        simp only [bcmp] at h
        split at h
        · simp at h
        · split at h
          · simp at h
          · rename_i h1 h2
            rw [u8_eq_of_not_lt h1 h2, ih ys h]
  · intro h; subst h; exact bcmp_refl a

theorem bcmp_lt_iff_gt (a b : Bytes) : bcmp a b = .lt ↔ bcmp b a = .gt := by
  induction a generalizing b with
  | nil => cases b <;> simp [bcmp]
  | cons x xs ih => cases b with
    | nil => simp [bcmp]
    | cons y ys =>
      simp only [bcmp]
      by_cases h1 : x < y
      · simp [h1, u8_lt_asymm h1]
      · by_cases h2 : y < x
        · simp [h1, h2]
        · simp [h1, h2, ih ys]

theorem bcmp_lt_trans {a b c : Bytes} (h1 : bcmp a b = .lt) (h2 : bcmp b c = .lt) :
    bcmp a c = .lt := by
  induction a generalizing b c with
  | nil => cases c with
    | nil => cases b <;> simp [bcmp] at h1 h2
    | cons z zs => simp [bcmp]
  | cons x xs ih => cases b with
    | nil => simp [bcmp] at h1
    | cons y ys => cases c with
      | nil => simp [bcmp] at h2
      | cons z zs =>
        simp only [bcmp] at h1 h2 ⊢
        by_cases hxy : x < y
        · by_cases hyz : y < z
          · simp [u8_lt_trans hxy hyz]
          · by_cases hzy : z < y
            · simp [hyz, hzy] at h2
            · have := u8_eq_of_not_lt hyz hzy; subst this; simp [hxy]
        · by_cases hyx : y < x
          · simp [hxy, hyx] at h1
          · have := u8_eq_of_not_lt hxy hyx; subst this
            simp only [hxy, if_false] at h1
            by_cases hxz : x < z
            · simp [hxz]
            · by_cases hzx : z < x
              · simp [hxz, hzx] at h2
              · simp only [hxz, hzx, if_false] at h2 ⊢
                exact ih h1 h2


theorem bcmp_le_trans {a b c : Bytes} (h1 : bcmp a b ≠ .gt) (h2 : bcmp b c ≠ .gt) :
    bcmp a c ≠ .gt := by
  cases hab : bcmp a b with
  | gt => exact absurd hab h1
  | eq => rw [bcmp_eq_iff] at hab; subst hab; exact h2
  | lt =>
    cases hbc : bcmp b c with
    | gt => exact absurd hbc h2
    | eq => rw [bcmp_eq_iff] at hbc; subst hbc; simp [hab]
    | lt => simp [bcmp_lt_trans hab hbc]

theorem bcmp_lt_of_lt_of_le {a b c : Bytes} (h1 : bcmp a b = .lt) (h2 : bcmp b c ≠ .gt) :
    bcmp a c = .lt := by
  cases hbc : bcmp b c with
  | gt => exact absurd hbc h2
  | eq => rw [bcmp_eq_iff] at hbc; subst hbc; exact h1
  | lt => exact bcmp_lt_trans h1 hbc

theorem bcmp_lt_of_le_of_ne {a b : Bytes} (h1 : bcmp a b ≠ .gt) (h2 : bcmp a b ≠ .eq) :
    bcmp a b = .lt := by
  cases h : bcmp a b <;> simp_all

theorem hcmp_congr (c : MCfg) {a a' b b' : HEnt} (h1 : a.key = a'.key) (h2 : a.val = a'.val)
    (h3 : b.key = b'.key) (h4 : b.val = b'.val) : hcmp c a b = hcmp c a' b' := by
  unfold hcmp; rw [h1, h2, h3, h4]

theorem hle_congr (c : MCfg) {a a' b b' : HEnt} (h1 : a.key = a'.key) (h2 : a.val = a'.val)
    (h3 : b.key = b'.key) (h4 : b.val = b'.val) : hle c a b = hle c a' b' := by
  unfold hle; rw [hcmp_congr c h1 h2 h3 h4]

theorem hle_key {c : MCfg} {a b : HEnt} (h : hle c a b = true) : bcmp a.key b.key ≠ .gt := by
  intro hg
  unfold hle hcmp at h
  rw [hg] at h
  simp at h

theorem next_some {s s' : Src} {e : Entry} (h : s.next = (some e, s')) :
    s.remaining = e :: s'.remaining ∧ s'.es = s.es ∧ srcLeft s' + 1 = srcLeft s := by
  unfold Src.next specNext at h
  unfold Src.remaining srcLeft
  split at h
  · simp at h
  · rename_i hst
    split at h
    · rename_i e' he
      split at h
      · rename_i hin
        simp only [Prod.mk.injEq, Option.some.injEq] at h
        obtain ⟨h1, h2⟩ := h
        subst h1; subst h2
        have hlt : s.cur.pos < s.es.length := by
          have := List.getElem?_eq_some_iff.mp he; exact this.1
        have hd : s.es.drop s.cur.pos = e' :: s.es.drop (s.cur.pos + 1) := by
          rw [List.drop_eq_getElem_cons hlt]
          have := List.getElem?_eq_some_iff.mp he
          rw [this.2]
        simp [hst, hd, hin]
        omega
      · simp at h
    · simp at h

theorem next_none {s s' : Src} (h : s.next = (none, s')) :
    s.remaining = [] ∧ s'.remaining = [] ∧ s'.es = s.es ∧ srcLeft s' = srcLeft s := by
  unfold Src.next specNext at h
  unfold Src.remaining srcLeft
  split at h
  · rename_i hst
    simp only [Prod.mk.injEq, true_and] at h
    subst h
    simp [hst]
  · rename_i hst
    split at h
    · rename_i e' he
      split at h
      · simp at h
      · rename_i hin
        simp only [Prod.mk.injEq, true_and] at h
        subst h
        have hlt : s.cur.pos < s.es.length := (List.getElem?_eq_some_iff.mp he).1
        have hd : s.es.drop s.cur.pos = e' :: s.es.drop (s.cur.pos + 1) := by
          rw [List.drop_eq_getElem_cons hlt, (List.getElem?_eq_some_iff.mp he).2]
        simp [hst, hd, hin]
    · rename_i he
      simp only [Prod.mk.injEq, true_and] at h
      subst h
      have : s.es.length ≤ s.cur.pos := by simpa using he
      simp [hst, List.drop_eq_nil_of_le this]

theorem remaining_sorted {s : Src} (h : Sorted s.es) : Sorted s.remaining := by
  unfold Src.remaining
  split
  · exact List.Pairwise.nil
  · exact (h.sublist (List.drop_sublist _ _)).sublist (List.takeWhile_sublist _)

theorem remaining_length_le (s : Src) : s.remaining.length ≤ s.es.length := by
  unfold Src.remaining
  split
  · simp
  · exact Nat.le_trans (List.takeWhile_sublist _).length_le (by simp)


/-! ### the pool, list form -/

/-- what the head `h` stands for: itself plus what its source still holds -/
def contrib (srcs : Array Src) (h : HEnt) : List Entry :=
  if h.finished then [] else { key := h.key, val := h.val } :: (srcs[h.src]!).remaining

def poolL (srcs : Array Src) (hs : List HEnt) : List Entry := hs.flatMap (contrib srcs)

theorem pool_eq (m : MIter) : pool m = poolL m.srcs m.heap.toList := rfl

theorem poolL_perm (srcs : Array Src) {hs hs' : List HEnt} (h : hs.Perm hs') :
    (poolL srcs hs).Perm (poolL srcs hs') := List.Perm.flatMap_right _ h

theorem poolL_cons (srcs : Array Src) (h : HEnt) (hs : List HEnt) :
    poolL srcs (h :: hs) = contrib srcs h ++ poolL srcs hs := by
  simp [poolL]

theorem contrib_set_ne (srcs : Array Src) (i : Nat) (s : Src) (h : HEnt) (hne : h.src ≠ i) :
    contrib (srcs.setIfInBounds i s) h = contrib srcs h := by
  unfold contrib
  rw [Heap.get_set_ne srcs i h.src s hne]

theorem poolL_set_ne (srcs : Array Src) (i : Nat) (s : Src) (hs : List HEnt)
    (hne : ∀ h ∈ hs, h.src ≠ i) : poolL (srcs.setIfInBounds i s) hs = poolL srcs hs := by
  induction hs with
  | nil => rfl
  | cons h hs ih =>
    rw [poolL_cons, poolL_cons, contrib_set_ne srcs i s h (hne h (by simp)),
      ih (fun h' hh' => hne h' (by simp [hh']))]

theorem mem_poolL {srcs : Array Src} {hs : List HEnt} {x : Entry} (hx : x ∈ poolL srcs hs) :
    ∃ h ∈ hs, h.finished = false ∧
      (x = { key := h.key, val := h.val } ∨ x ∈ (srcs[h.src]!).remaining) := by
  unfold poolL at hx
  rw [List.mem_flatMap] at hx
  obtain ⟨h, hh, hxc⟩ := hx
  refine ⟨h, hh, ?_⟩
  unfold contrib at hxc
  split at hxc
  · simp at hxc
  · rename_i hf
    simp only [List.mem_cons] at hxc
    exact ⟨by simpa using hf, hxc⟩

/-! ### array / heap helpers -/

theorem heap_head {heap : Array HEnt} {e : HEnt} (h : heap[0]? = some e) :
    heap.toList = e :: heap.toList.tail ∧ heap[0]! = e ∧ 0 < heap.size := by
  obtain ⟨l⟩ := heap
  cases l with
  | nil => simp at h
  | cons a l => simp at h; subst h; simp

theorem mem_toList_getElem! {heap : Array HEnt} {h : HEnt} (hh : h ∈ heap.toList) :
    ∃ i, i < heap.size ∧ heap[i]! = h := by
  obtain ⟨i, hi, he⟩ := List.mem_iff_getElem.mp hh
  refine ⟨i, by simpa using hi, ?_⟩
  have hi' : i < heap.size := by simpa using hi
  rw [getElem!_pos heap i hi']
  simpa using he

theorem root_le_all (c : MCfg) (htot : ∀ a b, hle c a b = true ∨ hle c b a = true)
    (htrans : ∀ a b d, hle c a b = true → hle c b d = true → hle c a d = true)
    {heap : Array HEnt} (hh : Heap.IsHeap (hle c) heap) {e : HEnt} (h0 : heap[0]? = some e) :
    ∀ h ∈ heap.toList, hle c e h = true := by
  intro h hm
  obtain ⟨i, hi, he⟩ := mem_toList_getElem! hm
  have := Heap.root_min (hle c) htot htrans heap hh i hi
  rw [(heap_head h0).2.1, he] at this
  exact this

theorem isHeap_congr (c : MCfg) {v v' : Array HEnt} (hs : v'.size = v.size)
    (hk : ∀ j : Nat, (v'[j]! : HEnt).key = (v[j]! : HEnt).key ∧ (v'[j]! : HEnt).val = (v[j]! : HEnt).val)
    (hv : Heap.IsHeap (hle c) v) : Heap.IsHeap (hle c) v' := by
  intro i h0 hi
  rw [hle_congr c (hk _).1 (hk _).2 (hk _).1 (hk _).2]
  exact hv i h0 (by omega)

theorem sum_map_set {α : Type} (f : α → Nat) (l : List α) (i : Nat) (x : α) (hi : i < l.length) :
    ((l.set i x).map f).sum + f l[i] = (l.map f).sum + f x := by
  induction l generalizing i with
  | nil => simp at hi
  | cons a l ih =>
    cases i with
    | zero => simp; omega
    | succ i =>
      simp at hi
      have := ih i hi
      simp only [List.set_cons_succ, List.map_cons, List.sum_cons, List.getElem_cons_succ]
      omega

/-- the termination measure of the `for (;;)` loop -/
def nfin (heap : Array HEnt) : Nat :=
  match heap[0]? with
  | some e => if e.finished then 1 else 0
  | none => 0

def mu (srcs : Array Src) (heap : Array HEnt) : Nat :=
  (srcs.toList.map srcLeft).sum + 2 * heap.size + 1 - nfin heap

theorem nfin_le (heap : Array HEnt) : nfin heap ≤ 1 := by
  unfold nfin; split
  · split <;> omega
  · omega

theorem mu_lt_totalLeft (m : MIter) : mu m.srcs m.heap < totalLeft m := by
  unfold mu totalLeft; omega

theorem sum_srcLeft_set (srcs : Array Src) (i : Nat) (s : Src) (hi : i < srcs.size) :
    ((srcs.setIfInBounds i s).toList.map srcLeft).sum + srcLeft srcs[i]! =
      (srcs.toList.map srcLeft).sum + srcLeft s := by
  rw [Array.toList_setIfInBounds]
  have := sum_map_set srcLeft srcs.toList i s (by simpa using hi)
  rw [getElem!_pos srcs i hi]
  simpa using this

/-! ### the (key, dupsort) order on entries -/

/-- an entry seen as a heap entry (only key and value matter for `hcmp`) -/
def _root_.Mtbl.HEnt.ofEntry (e : Entry) : HEnt := { src := 0, key := e.key, val := e.val }

/-- the (key, dupsort) preorder on entries: `_mtbl_merger_compare(a, b) <= 0` -/
def _root_.Mtbl.ele (c : MCfg) (a b : Entry) : Bool := hle c (.ofEntry a) (.ofEntry b)

/-- sorted by (key, dupsort) -/
def _root_.Mtbl.DSorted (c : MCfg) (es : List Entry) : Prop :=
  es.Pairwise fun a b => ele c a b = true

/-- every source is sorted by (key, dupsort) -/
def _root_.Mtbl.DSrcs (c : MCfg) (srcs : Array Src) : Prop :=
  ∀ i, i < srcs.size → DSorted c (srcs[i]!).es

theorem remaining_dsorted {c : MCfg} {s : Src} (h : DSorted c s.es) : DSorted c s.remaining := by
  unfold Src.remaining
  split
  · exact List.Pairwise.nil
  · exact (h.sublist (List.drop_sublist _ _)).sublist (List.takeWhile_sublist _)

theorem DSrcs_set (c : MCfg) {srcs : Array Src} {i : Nat} {s' : Src} (hi : i < srcs.size)
    (hes : s'.es = (srcs[i]!).es) : DSrcs c (srcs.setIfInBounds i s') ↔ DSrcs c srcs := by
  constructor
  · intro h j hj
    have := h j (by simpa using hj)
    by_cases hji : j = i
    · subst hji; rw [Heap.get_set_eq srcs _ s' hi, hes] at this; exact this
    · rw [Heap.get_set_ne srcs i j s' hji] at this; exact this
  · intro h j hj
    rw [Array.size_setIfInBounds] at hj
    by_cases hji : j = i
    · subst hji; rw [Heap.get_set_eq srcs _ s' hi, hes]; exact h j hj
    · rw [Heap.get_set_ne srcs i j s' hji]; exact h j hj

/-! ### the invariant on (sources, heap) -/

structure _root_.Mtbl.HInv (c : MCfg) (srcs : Array Src) (heap : Array HEnt) : Prop where
  /-- the heap property w.r.t. `_mtbl_merger_compare` -/
  isHeap : Heap.IsHeap (hle c) heap
  /-- each source occurs at most once in the heap -/
  nodup : (heap.toList.map (·.src)).Nodup
  /-- and is a valid source index -/
  inb : ∀ h ∈ heap.toList, h.src < srcs.size
  /-- finished entries can occur only at the root -/
  finTail : ∀ h ∈ heap.toList.tail, h.finished = false
  /-- every source is sorted by key -/
  sorted : ∀ i, i < srcs.size → Sorted (srcs[i]!).es
  /-- a live head is ≤ everything its source still holds -/
  headLe : ∀ h ∈ heap.toList, h.finished = false →
    ∀ e ∈ (srcs[h.src]!).remaining, bcmp h.key e.key ≠ .gt
  /-- if the sources are sorted by (key, dupsort): a live head is ≤ everything its source still
      holds, also w.r.t. `_mtbl_merger_compare` -/
  headLeD : DSrcs c srcs → ∀ h ∈ heap.toList, h.finished = false →
    ∀ e ∈ (srcs[h.src]!).remaining, hle c h (.ofEntry e) = true

/-- the root of the heap is a minimum of the pool -/
theorem pool_min (c : MCfg) (htot : ∀ a b, hle c a b = true ∨ hle c b a = true)
    (htrans : ∀ a b d, hle c a b = true → hle c b d = true → hle c a d = true)
    {srcs : Array Src} {heap : Array HEnt} (hi : HInv c srcs heap) {e : HEnt}
    (h0 : heap[0]? = some e) :
    ∀ x ∈ poolL srcs heap.toList, bcmp e.key x.key ≠ .gt := by
  intro x hx
  obtain ⟨h, hh, hf, hx⟩ := mem_poolL hx
  have h1 := hle_key (root_le_all c htot htrans hi.isHeap h0 h hh)
  rcases hx with rfl | hx
  · exact h1
  · exact bcmp_le_trans h1 (hi.headLe h hh hf x hx)

/-- the root of the heap is a minimum of the pool w.r.t. (key, dupsort) -/
theorem pool_min_D (c : MCfg) (htot : ∀ a b, hle c a b = true ∨ hle c b a = true)
    (htrans : ∀ a b d, hle c a b = true → hle c b d = true → hle c a d = true)
    {srcs : Array Src} {heap : Array HEnt} (hi : HInv c srcs heap) (hd : DSrcs c srcs) {e : HEnt}
    (h0 : heap[0]? = some e) :
    ∀ x ∈ poolL srcs heap.toList, hle c e (.ofEntry x) = true := by
  intro x hx
  obtain ⟨h, hh, hf, hx⟩ := mem_poolL hx
  have h1 := root_le_all c htot htrans hi.isHeap h0 h hh
  rcases hx with rfl | hx
  · exact (hle_congr c rfl rfl rfl rfl).trans h1
  · exact htrans _ _ _ h1 (hi.headLeD hd h hh hf x hx)

theorem step_pop (c : MCfg) (htot : ∀ a b, hle c a b = true ∨ hle c b a = true)
    (htrans : ∀ a b d, hle c a b = true → hle c b d = true → hle c a d = true)
    {srcs : Array Src} {heap : Array HEnt} (hi : HInv c srcs heap) {e : HEnt}
    (h0 : heap[0]? = some e) (hf : e.finished = true) :
    HInv c srcs (Heap.pop (hle c) heap) ∧
    (poolL srcs heap.toList).Perm (poolL srcs (Heap.pop (hle c) heap).toList) ∧
    mu srcs (Heap.pop (hle c) heap) < mu srcs heap := by
  obtain ⟨hl, hg, hs⟩ := heap_head h0
  have hp : (Heap.pop (hle c) heap).toList.Perm heap.toList.tail := by
    have := Heap.pop_perm (hle c) heap hs
    rw [hg, hl] at this
    exact this.cons_inv
  have hsub : ∀ h ∈ (Heap.pop (hle c) heap).toList, h ∈ heap.toList := fun h hh =>
    List.mem_of_mem_tail (hp.mem_iff.mp hh)
  refine ⟨⟨?_, ?_, ?_, ?_, hi.sorted, ?_, ?_⟩, ?_, ?_⟩
  · exact Heap.pop_isHeap (hle c) htot htrans heap hi.isHeap
  · have h1 := hi.nodup
    rw [hl, List.map_cons, List.nodup_cons] at h1
    exact (hp.map _).nodup_iff.mpr h1.2
  · exact fun h hh => hi.inb h (hsub h hh)
  · exact fun h hh => hi.finTail h (hp.mem_iff.mp (List.mem_of_mem_tail hh))
  · exact fun h hh => hi.headLe h (hsub h hh)
  · exact fun hd h hh => hi.headLeD hd h (hsub h hh)
  · rw [hl, poolL_cons]
    have : contrib srcs e = [] := by simp [contrib, hf]
    rw [this, List.nil_append]
    exact (poolL_perm srcs hp).symm
  · have h1 := nfin_le (Heap.pop (hle c) heap)
    have h2 : nfin heap = 1 := by simp [nfin, h0, hf]
    have h3 := Heap.pop_size (hle c) heap
    unfold mu
    omega

theorem step_adv_some (c : MCfg) (htot : ∀ a b, hle c a b = true ∨ hle c b a = true)
    (htrans : ∀ a b d, hle c a b = true → hle c b d = true → hle c a d = true)
    {srcs : Array Src} {heap : Array HEnt} (hi : HInv c srcs heap) {e : HEnt}
    (h0 : heap[0]? = some e) (hf : e.finished = false) {x : Entry} {s' : Src}
    (hn : (srcs[e.src]!).next = (some x, s')) :
    HInv c (srcs.setIfInBounds e.src s')
      (Heap.replace (hle c) heap { src := e.src, key := x.key, val := x.val, finished := false }) ∧
    (poolL srcs heap.toList).Perm ({ key := e.key, val := e.val } ::
      poolL (srcs.setIfInBounds e.src s') (Heap.replace (hle c) heap
        { src := e.src, key := x.key, val := x.val, finished := false }).toList) ∧
    mu (srcs.setIfInBounds e.src s')
      (Heap.replace (hle c) heap { src := e.src, key := x.key, val := x.val, finished := false })
      < mu srcs heap := by
  obtain ⟨hl, hg, hs⟩ := heap_head h0
  obtain ⟨hrem, hes, hleft⟩ := next_some hn
  generalize hnew : ({ src := e.src, key := x.key, val := x.val, finished := false } : HEnt) = new
  have hp : (Heap.replace (hle c) heap new).toList.Perm (new :: heap.toList.tail) :=
    Heap.replace_perm_tail (hle c) heap new hs
  have hnd := hi.nodup
  rw [hl, List.map_cons, List.nodup_cons] at hnd
  have hne : ∀ h ∈ heap.toList.tail, h.src ≠ e.src := by
    intro h hh heq
    exact hnd.1 (by rw [← heq]; exact List.mem_map_of_mem hh)
  have hein : e.src < srcs.size := hi.inb e (by rw [hl]; simp)
  have hsrt : Sorted (srcs[e.src]!).remaining := remaining_sorted (hi.sorted _ hein)
  rw [hrem] at hsrt
  have hnsrc : new.src = e.src := by rw [← hnew]
  have hnfin : new.finished = false := by rw [← hnew]
  refine ⟨⟨?_, ?_, ?_, ?_, ?_, ?_, ?_⟩, ?_, ?_⟩
  · exact Heap.replace_isHeap (hle c) htot htrans heap new hi.isHeap
  · apply (hp.map _).nodup_iff.mpr
    rw [List.map_cons, List.nodup_cons, hnsrc]
    exact hnd
  · intro h hh
    rw [Array.size_setIfInBounds]
    rcases List.mem_cons.mp (hp.mem_iff.mp hh) with rfl | hh
    · rw [hnsrc]; exact hein
    · exact hi.inb h (List.mem_of_mem_tail hh)
  · intro h hh
    rcases List.mem_cons.mp (hp.mem_iff.mp (List.mem_of_mem_tail hh)) with rfl | hh
    · exact hnfin
    · exact hi.finTail h hh
  · intro i hi'
    rw [Array.size_setIfInBounds] at hi'
    by_cases hie : i = e.src
    · subst hie; rw [Heap.get_set_eq srcs _ s' hein, hes]; exact hi.sorted _ hein
    · rw [Heap.get_set_ne srcs _ i s' hie]; exact hi.sorted i hi'
  · intro h hh hfin
    rcases List.mem_cons.mp (hp.mem_iff.mp hh) with rfl | hh
    · rw [hnsrc, Heap.get_set_eq srcs _ s' hein]
      intro y hy
      have := (List.pairwise_cons.mp hsrt).1 y hy
      rw [← hnew]; exact this
    · rw [Heap.get_set_ne srcs _ h.src s' (hne h hh)]
      exact hi.headLe h (List.mem_of_mem_tail hh) hfin
  · intro hd h hh hfin
    have hd0 : DSrcs c srcs := (DSrcs_set c hein hes).mp hd
    rcases List.mem_cons.mp (hp.mem_iff.mp hh) with rfl | hh
    · rw [hnsrc, Heap.get_set_eq srcs _ s' hein]
      intro y hy
      have hds : DSorted c (srcs[e.src]!).remaining := remaining_dsorted (hd0 _ hein)
      rw [hrem] at hds
      have := (List.pairwise_cons.mp hds).1 y hy
      rw [← hnew]
      exact (hle_congr c rfl rfl rfl rfl).trans this
    · rw [Heap.get_set_ne srcs _ h.src s' (hne h hh)]
      exact hi.headLeD hd0 h (List.mem_of_mem_tail hh) hfin
  · rw [hl, poolL_cons]
    refine List.Perm.trans ?_ ((poolL_perm _ hp).symm.cons _)
    rw [poolL_cons, poolL_set_ne srcs e.src s' _ hne]
    have h1 : contrib srcs e = { key := e.key, val := e.val } :: x :: s'.remaining := by
      simp [contrib, hf, hrem]
    have h2 : contrib (srcs.setIfInBounds e.src s') new = x :: s'.remaining := by
      unfold contrib
      rw [hnfin, hnsrc, Heap.get_set_eq srcs _ s' hein, ← hnew]
      simp
    rw [h1, h2]
    exact List.Perm.refl _
  · have h1 := sum_srcLeft_set srcs e.src s' hein
    have h2 : nfin heap = 0 := by simp [nfin, h0, hf]
    have h3 := Heap.replace_size (hle c) heap new
    unfold mu
    omega

theorem step_adv_none (c : MCfg)
    {srcs : Array Src} {heap : Array HEnt} (hi : HInv c srcs heap) {e : HEnt}
    (h0 : heap[0]? = some e) (hf : e.finished = false) {s' : Src}
    (hn : (srcs[e.src]!).next = (none, s')) :
    HInv c (srcs.setIfInBounds e.src s') (heap.setIfInBounds 0 { e with finished := true }) ∧
    (poolL srcs heap.toList).Perm ({ key := e.key, val := e.val } ::
      poolL (srcs.setIfInBounds e.src s')
        (heap.setIfInBounds 0 { e with finished := true }).toList) ∧
    mu (srcs.setIfInBounds e.src s') (heap.setIfInBounds 0 { e with finished := true })
      < mu srcs heap := by
  obtain ⟨hl, hg, hs⟩ := heap_head h0
  obtain ⟨hrem, hrem', hes, hleft⟩ := next_none hn
  generalize hnew : ({ e with finished := true } : HEnt) = new
  have hnsrc : new.src = e.src := by rw [← hnew]
  have hnfin : new.finished = true := by rw [← hnew]
  have hnl : (heap.setIfInBounds 0 new).toList = new :: heap.toList.tail := by
    rw [Array.toList_setIfInBounds, hl]; simp
  have hnd := hi.nodup
  rw [hl, List.map_cons, List.nodup_cons] at hnd
  have hne : ∀ h ∈ heap.toList.tail, h.src ≠ e.src := by
    intro h hh heq
    exact hnd.1 (by rw [← heq]; exact List.mem_map_of_mem hh)
  have hein : e.src < srcs.size := hi.inb e (by rw [hl]; simp)
  refine ⟨⟨?_, ?_, ?_, ?_, ?_, ?_, ?_⟩, ?_, ?_⟩
  · apply isHeap_congr c (by simp) _ hi.isHeap
    intro j
    by_cases hj : j = 0
    · subst hj; rw [Heap.get_set_eq heap 0 new hs, hg, ← hnew]; simp
    · rw [Heap.get_set_ne heap 0 j new hj]; simp
  · rw [hnl, List.map_cons, List.nodup_cons, hnsrc]; exact hnd
  · intro h hh
    rw [Array.size_setIfInBounds]
    rw [hnl] at hh
    rcases List.mem_cons.mp hh with rfl | hh
    · rw [hnsrc]; exact hein
    · exact hi.inb h (List.mem_of_mem_tail hh)
  · intro h hh
    rw [hnl] at hh
    exact hi.finTail h hh
  · intro i hi'
    rw [Array.size_setIfInBounds] at hi'
    by_cases hie : i = e.src
    · subst hie; rw [Heap.get_set_eq srcs _ s' hein, hes]; exact hi.sorted _ hein
    · rw [Heap.get_set_ne srcs _ i s' hie]; exact hi.sorted i hi'
  · intro h hh hfin
    rw [hnl] at hh
    rcases List.mem_cons.mp hh with rfl | hh
    · rw [hnfin] at hfin; exact absurd hfin (by simp)
    · rw [Heap.get_set_ne srcs _ h.src s' (hne h hh)]
      exact hi.headLe h (List.mem_of_mem_tail hh) hfin
  · intro hd h hh hfin
    have hd0 : DSrcs c srcs := (DSrcs_set c hein hes).mp hd
    rw [hnl] at hh
    rcases List.mem_cons.mp hh with rfl | hh
    · rw [hnfin] at hfin; exact absurd hfin (by simp)
    · rw [Heap.get_set_ne srcs _ h.src s' (hne h hh)]
      exact hi.headLeD hd0 h (List.mem_of_mem_tail hh) hfin
  · rw [hnl, poolL_cons, poolL_set_ne srcs e.src s' _ hne]
    have h2 : contrib (srcs.setIfInBounds e.src s') new = [] := by simp [contrib, hnfin]
    rw [h2, List.nil_append]
    conv => lhs; rw [hl, poolL_cons]
    have h1 : contrib srcs e = [{ key := e.key, val := e.val }] := by
      simp [contrib, hf, hrem]
    rw [h1]
    exact List.Perm.refl _
  · have h1 := sum_srcLeft_set srcs e.src s' hein
    have h2 : nfin heap = 0 := by simp [nfin, h0, hf]
    have h3 : nfin (heap.setIfInBounds 0 new) = 1 := by
      have : (heap.setIfInBounds 0 new)[0]? = some new := by
        simp [hs]
      simp [nfin, this, hnfin]
    unfold mu
    rw [Array.size_setIfInBounds]
    omega

/-! ### the invariants on iterator states -/

/-- loop invariant of `merger_iter_next` (also holds between calls) -/
structure _root_.Mtbl.LInv (c : MCfg) (m : MIter) : Prop where
  hinv : HInv c m.srcs m.heap
  /-- `finished` is only set when the heap has run empty -/
  finEmpty : m.finished = true → m.heap.size = 0

/-- invariant between calls of `merger_iter_next` -/
structure _root_.Mtbl.MInv (c : MCfg) (m : MIter) : Prop extends LInv c m where
  pending : m.pending = false

theorem pool_of_empty {m : MIter} (h : m.heap[0]? = none) : pool m = [] := by
  have : m.heap.size = 0 := by simpa using h
  have : m.heap = #[] := Array.eq_empty_of_size_eq_zero this
  simp [pool, this]

theorem afterFill_fill_some (c : MCfg) (m : MIter) (e : HEnt) {x : Entry} {s' : Src}
    (h : (m.srcs[e.src]!).next = (some x, s')) :
    afterFill c (fill m e.src e) = { m with
      srcs := m.srcs.setIfInBounds e.src s'
      heap := Heap.replace (hle c) m.heap
        { src := e.src, key := x.key, val := x.val, finished := false } } := by
  simp [afterFill, fill, h]

theorem afterFill_fill_none (c : MCfg) (m : MIter) (e : HEnt) {s' : Src}
    (h : (m.srcs[e.src]!).next = (none, s')) :
    afterFill c (fill m e.src e) = { m with
      srcs := m.srcs.setIfInBounds e.src s'
      heap := m.heap.setIfInBounds 0 { e with finished := true } } := by
  simp [afterFill, fill, h]

/-- consuming the (live) root: `entry_fill` followed by `heap_replace` / marking it finished -/
theorem adv (c : MCfg) (htot : ∀ a b, hle c a b = true ∨ hle c b a = true)
    (htrans : ∀ a b d, hle c a b = true → hle c b d = true → hle c a d = true)
    {m : MIter} (hi : LInv c m) {e : HEnt} (h0 : m.heap[0]? = some e) (hf : e.finished = false) :
    ∃ m', afterFill c (fill m e.src e) = m' ∧ LInv c m' ∧
      (pool m).Perm ({ key := e.key, val := e.val } :: pool m') ∧
      mu m'.srcs m'.heap < mu m.srcs m.heap ∧
      m'.curKey = m.curKey ∧ m'.curVal = m.curVal ∧ m'.pending = m.pending ∧
      m'.finished = m.finished ∧ (DSrcs c m.srcs → DSrcs c m'.srcs) := by
  have hs := (heap_head h0).2.2
  have hein : e.src < m.srcs.size := hi.hinv.inb e (by rw [(heap_head h0).1]; simp)
  have hfin : m.finished = false := by
    cases hm : m.finished with
    | false => rfl
    | true => have := hi.finEmpty hm; omega
  cases hn : (m.srcs[e.src]!).next with
  | mk o s' =>
    cases o with
    | none =>
      obtain ⟨h1, h2, h3⟩ := step_adv_none c hi.hinv h0 hf hn
      refine ⟨_, afterFill_fill_none c m e hn, ⟨h1, ?_⟩, h2, h3, rfl, rfl, rfl, rfl,
        (DSrcs_set c hein (next_none hn).2.2.1).mpr⟩
      intro hm; simp [hfin] at hm
    | some x =>
      obtain ⟨h1, h2, h3⟩ := step_adv_some c htot htrans hi.hinv h0 hf hn
      refine ⟨_, afterFill_fill_some c m e hn, ⟨h1, ?_⟩, h2, h3, rfl, rfl, rfl, rfl,
        (DSrcs_set c hein (next_some hn).2.1).mpr⟩
      intro hm; simp [hfin] at hm

/-! ### equations of the loop -/

theorem loop_empty (c : MCfg) (m : MIter) (fuel : Nat) (h0 : m.heap[0]? = none) :
    mergerNextLoop c m (fuel + 1) = some { m with finished := true } := by
  simp [mergerNextLoop, h0]

theorem loop_fin (c : MCfg) (m : MIter) (fuel : Nat) {e : HEnt} (h0 : m.heap[0]? = some e)
    (hf : e.finished = true) :
    mergerNextLoop c m (fuel + 1) =
      mergerNextLoop c { m with heap := Heap.pop (hle c) m.heap } fuel := by
  simp [mergerNextLoop, h0, hf]

theorem loop_take (c : MCfg) (hF2 : c.fixF2 = true) (m : MIter) (fuel : Nat) {e : HEnt}
    (h0 : m.heap[0]? = some e) (hf : e.finished = false) (hp : m.pending = false) :
    mergerNextLoop c m (fuel + 1) =
      mergerNextLoop c (afterFill c
        (fill { m with curKey := e.key, curVal := e.val, pending := true } e.src e)) fuel := by
  simp [mergerNextLoop, h0, hf, assembling, hF2, hp]

theorem loop_ret_nomerge (c : MCfg) (hF2 : c.fixF2 = true) (m : MIter) (fuel : Nat) {e : HEnt}
    (h0 : m.heap[0]? = some e) (hf : e.finished = false) (hp : m.pending = true)
    (hm : c.merge = none) :
    mergerNextLoop c m (fuel + 1) = some m := by
  simp [mergerNextLoop, h0, hf, assembling, hF2, hp, hm]

theorem loop_merge_ne (c : MCfg) (hF2 : c.fixF2 = true) (m : MIter) (fuel : Nat) {e : HEnt}
    (h0 : m.heap[0]? = some e) (hf : e.finished = false) (hp : m.pending = true)
    {f : Bytes → Bytes → Bytes → Option Bytes} (hm : c.merge = some f)
    (hne : bcmp m.curKey e.key ≠ .eq) :
    mergerNextLoop c m (fuel + 1) = some m := by
  simp [mergerNextLoop, h0, hf, assembling, hF2, hp, hm, hne]

theorem loop_merge_fail (c : MCfg) (hF2 : c.fixF2 = true) (m : MIter) (fuel : Nat) {e : HEnt}
    (h0 : m.heap[0]? = some e) (hf : e.finished = false) (hp : m.pending = true)
    {f : Bytes → Bytes → Bytes → Option Bytes} (hm : c.merge = some f)
    (heq : bcmp m.curKey e.key = .eq) (hfail : f m.curKey m.curVal e.val = none) :
    mergerNextLoop c m (fuel + 1) = none := by
  simp [mergerNextLoop, h0, hf, assembling, hF2, hp, hm, heq, hfail]

theorem loop_merge_ok (c : MCfg) (hF2 : c.fixF2 = true) (m : MIter) (fuel : Nat) {e : HEnt}
    (h0 : m.heap[0]? = some e) (hf : e.finished = false) (hp : m.pending = true)
    {f : Bytes → Bytes → Bytes → Option Bytes} (hm : c.merge = some f)
    (heq : bcmp m.curKey e.key = .eq) {mv : Bytes} (hok : f m.curKey m.curVal e.val = some mv) :
    mergerNextLoop c m (fuel + 1) =
      mergerNextLoop c (afterFill c (fill { m with curVal := mv } e.src e)) fuel := by
  simp [mergerNextLoop, h0, hf, assembling, hF2, hp, hm, heq, hok]

/-! ### the phases of the loop -/

theorem linv_pop (c : MCfg) (htot : ∀ a b, hle c a b = true ∨ hle c b a = true)
    (htrans : ∀ a b d, hle c a b = true → hle c b d = true → hle c a d = true)
    {m : MIter} (hi : LInv c m) {e : HEnt} (h0 : m.heap[0]? = some e) (hf : e.finished = true) :
    LInv c { m with heap := Heap.pop (hle c) m.heap } ∧
    (pool m).Perm (pool { m with heap := Heap.pop (hle c) m.heap }) ∧
    mu m.srcs (Heap.pop (hle c) m.heap) < mu m.srcs m.heap := by
  obtain ⟨h1, h2, h3⟩ := step_pop c htot htrans hi.hinv h0 hf
  refine ⟨⟨h1, ?_⟩, h2, h3⟩
  intro hm
  have := hi.finEmpty hm
  have := (heap_head h0).2.2
  omega

/-- phase A (nothing assembled yet): either the merger is exhausted, or the minimum entry is taken -/
theorem loopA (c : MCfg) (hF2 : c.fixF2 = true)
    (htot : ∀ a b, hle c a b = true ∨ hle c b a = true)
    (htrans : ∀ a b d, hle c a b = true → hle c b d = true → hle c a d = true) :
    ∀ fuel m, LInv c m → m.pending = false → mu m.srcs m.heap < fuel →
    (∃ m1, mergerNextLoop c m fuel = some m1 ∧ m1.finished = true ∧ m1.pending = false ∧
        pool m = [] ∧ LInv c m1) ∨
    (∃ m2 fuel2, mergerNextLoop c m fuel = mergerNextLoop c m2 fuel2 ∧ LInv c m2 ∧
        mu m2.srcs m2.heap < fuel2 ∧ m2.pending = true ∧
        (pool m).Perm ({ key := m2.curKey, val := m2.curVal } :: pool m2) ∧
        (∀ x ∈ pool m2, bcmp m2.curKey x.key ≠ .gt) ∧
        (DSrcs c m.srcs → DSrcs c m2.srcs ∧
          ∀ x ∈ pool m2, ele c { key := m2.curKey, val := m2.curVal } x = true)) := by
  intro fuel
  induction fuel with
  | zero => intro m _ _ h; omega
  | succ fuel ih =>
    intro m hi hp hmu
    cases h0 : m.heap[0]? with
    | none =>
      left
      refine ⟨_, loop_empty c m fuel h0, rfl, hp, pool_of_empty h0, ⟨hi.hinv, ?_⟩⟩
      intro _; simpa using h0
    | some e =>
      cases hf : e.finished with
      | true =>
        rw [loop_fin c m fuel h0 hf]
        obtain ⟨h1, h2, h3⟩ := linv_pop c htot htrans hi h0 hf
        rcases ih _ h1 hp (by simp only; omega) with
          ⟨m1, e1, e2, e3, e4, e5⟩ | ⟨m2, f2, e1, e2, e3, e4, e5, e6, e7⟩
        · left
          refine ⟨m1, e1, e2, e3, ?_, e5⟩
          rw [e4] at h2
          simpa using h2
        · right
          exact ⟨m2, f2, e1, e2, e3, e4, h2.trans e5, e6, e7⟩
      | false =>
        right
        rw [loop_take c hF2 m fuel h0 hf hp]
        have hi1 : LInv c { m with curKey := e.key, curVal := e.val, pending := true } :=
          ⟨hi.hinv, hi.finEmpty⟩
        obtain ⟨m', e1, e2, e3, e4, e5, e6, e7, _, e9⟩ := adv c htot htrans hi1 h0 hf
        rw [e1]
        have hsub : ∀ x ∈ pool m', x ∈ pool m := fun x hx =>
          e3.mem_iff.mpr (List.mem_cons_of_mem _ hx)
        refine ⟨m', fuel, rfl, e2, by simp only at e4; omega, e7, ?_, ?_, ?_⟩
        · rw [e5, e6]; exact e3
        · intro x hx
          rw [e5]
          exact pool_min c htot htrans hi.hinv h0 x (hsub x hx)
        · intro hd
          refine ⟨e9 hd, ?_⟩
          intro x hx
          rw [e5, e6]
          exact (hle_congr c rfl rfl rfl rfl).trans
            (pool_min_D c htot htrans hi.hinv hd h0 x (hsub x hx))

/-- phase B without a merge function: finished heads are popped, then the loop returns -/
theorem loopB_nomerge (c : MCfg) (hF2 : c.fixF2 = true) (hm : c.merge = none)
    (htot : ∀ a b, hle c a b = true ∨ hle c b a = true)
    (htrans : ∀ a b d, hle c a b = true → hle c b d = true → hle c a d = true) :
    ∀ fuel m, LInv c m → m.pending = true → mu m.srcs m.heap < fuel →
    ∃ m1, mergerNextLoop c m fuel = some m1 ∧ LInv c m1 ∧ m1.pending = true ∧
      m1.curKey = m.curKey ∧ m1.curVal = m.curVal ∧ (pool m).Perm (pool m1) ∧
      m1.srcs = m.srcs := by
  intro fuel
  induction fuel with
  | zero => intro m _ _ h; omega
  | succ fuel ih =>
    intro m hi hp hmu
    cases h0 : m.heap[0]? with
    | none =>
      refine ⟨_, loop_empty c m fuel h0, ⟨hi.hinv, ?_⟩, hp, rfl, rfl, List.Perm.refl _, rfl⟩
      intro _; simpa using h0
    | some e =>
      cases hf : e.finished with
      | true =>
        rw [loop_fin c m fuel h0 hf]
        obtain ⟨h1, h2, h3⟩ := linv_pop c htot htrans hi h0 hf
        obtain ⟨m1, e1, e2, e3, e4, e5, e6, e7⟩ := ih _ h1 hp (by simp only; omega)
        exact ⟨m1, e1, e2, e3, e4, e5, h2.trans e6, e7⟩
      | false =>
        exact ⟨m, loop_ret_nomerge c hF2 m fuel h0 hf hp hm, hi, hp, rfl, rfl, List.Perm.refl _,
          rfl⟩

/-- phase B with a merge function -/
theorem loopB_merge (c : MCfg) (hF2 : c.fixF2 = true)
    {f : Bytes → Bytes → Bytes → Option Bytes} (hm : c.merge = some f)
    (htot : ∀ a b, hle c a b = true ∨ hle c b a = true)
    (htrans : ∀ a b d, hle c a b = true → hle c b d = true → hle c a d = true) :
    ∀ fuel m, LInv c m → m.pending = true → (∀ x ∈ pool m, bcmp m.curKey x.key ≠ .gt) →
    mu m.srcs m.heap < fuel →
    (∃ m1, mergerNextLoop c m fuel = some m1 ∧ LInv c m1 ∧ m1.pending = true ∧
      m1.curKey = m.curKey ∧ ∃ grp : List Entry, (∀ x ∈ grp, x.key = m.curKey) ∧
        (pool m).Perm (grp ++ pool m1) ∧ (∀ x ∈ pool m1, bcmp m.curKey x.key = .lt) ∧
        (grp.map (·.val)).foldlM (fun acc x => f m.curKey acc x) m.curVal = some m1.curVal) ∨
    (mergerNextLoop c m fuel = none ∧ ∃ (pre : List Entry) (b : Entry) (rest : List Entry)
      (a' : Bytes), (∀ x ∈ pre, x.key = m.curKey) ∧ b.key = m.curKey ∧
        (pool m).Perm (pre ++ b :: rest) ∧
        (pre.map (·.val)).foldlM (fun acc x => f m.curKey acc x) m.curVal = some a' ∧
        f m.curKey a' b.val = none) := by
  intro fuel
  induction fuel with
  | zero => intro m _ _ _ h; omega
  | succ fuel ih =>
    intro m hi hp hge hmu
    cases h0 : m.heap[0]? with
    | none =>
      left
      refine ⟨_, loop_empty c m fuel h0, ⟨hi.hinv, ?_⟩, hp, rfl, [], ?_, ?_, ?_, ?_⟩
      · intro _; simpa using h0
      · simp
      · exact List.Perm.refl _
      · intro x hx
        have : pool { m with finished := true } = [] := pool_of_empty (m := { m with finished := true }) h0
        rw [this] at hx; simp at hx
      · simp
    | some e =>
      cases hf : e.finished with
      | true =>
        rw [loop_fin c m fuel h0 hf]
        obtain ⟨h1, h2, h3⟩ := linv_pop c htot htrans hi h0 hf
        have hge' : ∀ x ∈ pool { m with heap := Heap.pop (hle c) m.heap },
            bcmp m.curKey x.key ≠ .gt := fun x hx => hge x (h2.mem_iff.mpr hx)
        rcases ih _ h1 hp hge' (by simp only; omega) with
          ⟨m1, e1, e2, e3, e4, grp, g1, g2, g3, g4⟩ | ⟨e1, pre, b, rest, a', g1, g2, g3, g4, g5⟩
        · left; exact ⟨m1, e1, e2, e3, e4, grp, g1, h2.trans g2, g3, g4⟩
        · right; exact ⟨e1, pre, b, rest, a', g1, g2, h2.trans g3, g4, g5⟩
      | false =>
        have hmem : ({ key := e.key, val := e.val } : Entry) ∈ pool m := by
          rw [pool_eq, (heap_head h0).1, poolL_cons]
          simp [contrib, hf]
        cases heq : bcmp m.curKey e.key with
        | eq =>
          have hk : e.key = m.curKey := ((bcmp_eq_iff _ _).mp heq).symm
          cases hcb : f m.curKey m.curVal e.val with
          | none =>
            right
            obtain ⟨m', _, _, e3, _⟩ := adv c htot htrans hi h0 hf
            exact ⟨loop_merge_fail c hF2 m fuel h0 hf hp hm heq hcb, [],
              { key := e.key, val := e.val }, pool m', m.curVal, by simp, hk, e3, rfl, hcb⟩
          | some mv =>
            rw [loop_merge_ok c hF2 m fuel h0 hf hp hm heq hcb]
            have hi1 : LInv c { m with curVal := mv } := ⟨hi.hinv, hi.finEmpty⟩
            obtain ⟨m', e1, e2, e3, e4, e5, e6, e7, _⟩ := adv c htot htrans hi1 h0 hf
            rw [e1]
            have e3' : (pool m).Perm ({ key := e.key, val := e.val } :: pool m') := e3
            have hge' : ∀ x ∈ pool m', bcmp m'.curKey x.key ≠ .gt := by
              intro x hx; rw [e5]
              exact hge x (e3'.mem_iff.mpr (List.mem_cons_of_mem _ hx))
            have e7' : m'.pending = true := by rw [e7]; exact hp
            rcases ih m' e2 e7' hge' (by simp only at e4; omega) with
              ⟨m1, d1, d2, d3, d4, grp, g1, g2, g3, g4⟩ | ⟨d1, pre, b, rest, a', g1, g2, g3, g4, g5⟩
            · left
              rw [e5] at d4 g1 g3 g4
              rw [e6] at g4
              refine ⟨m1, d1, d2, d3, d4, { key := e.key, val := e.val } :: grp, ?_, ?_, g3, ?_⟩
              · intro x hx
                rcases List.mem_cons.mp hx with rfl | hx
                · exact hk
                · exact g1 x hx
              · exact e3'.trans (g2.cons _)
              · simp only [List.map_cons, List.foldlM_cons, hcb]
                exact g4
            · right
              rw [e5] at g1 g2 g4 g5
              rw [e6] at g4
              refine ⟨d1, { key := e.key, val := e.val } :: pre, b, rest, a', ?_, g2, ?_, ?_, g5⟩
              · intro x hx
                rcases List.mem_cons.mp hx with rfl | hx
                · exact hk
                · exact g1 x hx
              · exact e3'.trans (g3.cons _)
              · simp only [List.map_cons, List.foldlM_cons, hcb]
                exact g4
        | lt =>
          left
          refine ⟨m, loop_merge_ne c hF2 m fuel h0 hf hp hm (by simp [heq]), hi, hp, rfl, [],
            by simp, List.Perm.refl _, ?_, by simp⟩
          intro x hx
          exact bcmp_lt_of_lt_of_le heq (pool_min c htot htrans hi.hinv h0 x hx)
        | gt => exact absurd heq (hge _ hmem)

/-! ### `merger_iter_next` -/

theorem mergerNext_unfold (c : MCfg) (hF2 : c.fixF2 = true) (m : MIter) (hfin : m.finished = false) :
    mergerNext c m =
      match mergerNextLoop c { m with curKey := [], curVal := [], pending := false }
        (totalLeft { m with curKey := [], curVal := [], pending := false }) with
      | none => (.fail, { m with curKey := [], curVal := [], pending := false })
      | some m1 =>
        if m1.pending then (.ok m1.curKey m1.curVal, { m1 with pending := false })
        else (.fail, m1) := by
  unfold mergerNext
  rw [if_neg (by simp [hfin])]
  simp only [hF2, ↓reduceIte]
  rfl

/-- **C04, one step, no merge function.**  Either the merger is exhausted (and stays so), or the
    emitted entry is a minimum of the pool and is removed from it. -/
theorem _root_.Mtbl.mergerNext_nomerge (c : MCfg) (hF2 : c.fixF2 = true)
    (htot : ∀ a b, hle c a b = true ∨ hle c b a = true)
    (htrans : ∀ a b d, hle c a b = true → hle c b d = true → hle c a d = true)
    {m : MIter} (hi : MInv c m) (hm : c.merge = none) (hfin : m.finished = false) :
    (∃ m', mergerNext c m = (.fail, m') ∧ pool m = [] ∧ m'.finished = true ∧ MInv c m') ∨
    (∃ k v m', mergerNext c m = (.ok k v, m') ∧ MInv c m' ∧
      (pool m).Perm ({ key := k, val := v } :: pool m') ∧
      (∀ e ∈ pool m', bcmp k e.key ≠ .gt) ∧
      (DSrcs c m.srcs → DSrcs c m'.srcs ∧ ∀ e ∈ pool m', ele c { key := k, val := v } e = true)) := by
  rw [mergerNext_unfold c hF2 m hfin]
  have hi0 : LInv c { m with curKey := [], curVal := [], pending := false } :=
    ⟨hi.hinv, hi.finEmpty⟩
  rcases loopA c hF2 htot htrans _ _ hi0 rfl (mu_lt_totalLeft _) with
    ⟨m1, e1, e2, e3, e4, e5⟩ | ⟨m2, f2, e1, e2, e3, e4, e5, e6, e7⟩
  · left
    refine ⟨m1, ?_, e4, e2, ⟨e5, e3⟩⟩
    rw [e1]; simp [e3]
  · right
    obtain ⟨m1, d1, d2, d3, d4, d5, d6, d7⟩ := loopB_nomerge c hF2 hm htot htrans f2 m2 e2 e4 e3
    refine ⟨m1.curKey, m1.curVal, { m1 with pending := false }, ?_, ⟨⟨d2.hinv, d2.finEmpty⟩, rfl⟩,
      ?_, ?_, ?_⟩
    · rw [e1, d1]; simp [d3]
    · rw [d4, d5]
      exact e5.trans (List.Perm.cons _ d6)
    · intro x hx
      rw [d4]
      exact e6 x (d6.mem_iff.mpr hx)
    · intro hd
      obtain ⟨h1, h2⟩ := e7 hd
      refine ⟨?_, ?_⟩
      · simp only; rw [d7]; exact h1
      · intro x hx
        rw [d4, d5]
        exact h2 x (d6.mem_iff.mpr hx)

/-- **C04, one step, with a merge function `f`.**
    (a) exhausted; (b) the emitted key is the minimum key of the pool, all its entries `grp` are
    removed from the pool and the value is the fold of `f` over their values, each used once;
    (c) the callback returned `none` on an entry of the minimum key after a prefix of the group had
    been folded. -/
theorem _root_.Mtbl.mergerNext_merge (c : MCfg) (hF2 : c.fixF2 = true)
    (htot : ∀ a b, hle c a b = true ∨ hle c b a = true)
    (htrans : ∀ a b d, hle c a b = true → hle c b d = true → hle c a d = true)
    {m : MIter} {f : Bytes → Bytes → Bytes → Option Bytes}
    (hi : MInv c m) (hm : c.merge = some f) (hfin : m.finished = false) :
    (∃ m', mergerNext c m = (.fail, m') ∧ pool m = [] ∧ m'.finished = true ∧ MInv c m') ∨
    (∃ k v m', mergerNext c m = (.ok k v, m') ∧ MInv c m' ∧
      ∃ grp : List Entry, grp ≠ [] ∧ (∀ e ∈ grp, e.key = k) ∧ (pool m).Perm (grp ++ pool m') ∧
        (∀ e ∈ pool m', bcmp k e.key = .lt) ∧
        ∃ l, l.Perm (grp.map (·.val)) ∧ foldl1? f k l = some v) ∨
    (∃ m', mergerNext c m = (.fail, m') ∧
      ∃ (k : Bytes) (pre : List Entry) (b : Entry) (rest : List Entry) (a' : Bytes),
        pre ≠ [] ∧ (∀ x ∈ pre, x.key = k) ∧ b.key = k ∧ (pool m).Perm (pre ++ b :: rest) ∧
        (∀ x ∈ pool m, bcmp k x.key ≠ .gt) ∧
        foldl1? f k (pre.map (·.val)) = some a' ∧ f k a' b.val = none) := by
  rw [mergerNext_unfold c hF2 m hfin]
  have hi0 : LInv c { m with curKey := [], curVal := [], pending := false } :=
    ⟨hi.hinv, hi.finEmpty⟩
  rcases loopA c hF2 htot htrans _ _ hi0 rfl (mu_lt_totalLeft _) with
    ⟨m1, e1, e2, e3, e4, e5⟩ | ⟨m2, f2, e1, e2, e3, e4, e5, e6, _⟩
  · left
    refine ⟨m1, ?_, e4, e2, ⟨e5, e3⟩⟩
    rw [e1]; simp [e3]
  · right
    have e5' : (pool m).Perm ({ key := m2.curKey, val := m2.curVal } :: pool m2) := e5
    rcases loopB_merge c hF2 hm htot htrans f2 m2 e2 e4 e6 e3 with
      ⟨m1, d1, d2, d3, d4, grp, g1, g2, g3, g4⟩ | ⟨d1, pre, b, rest, a', g1, g2, g3, g4, g5⟩
    · left
      refine ⟨m1.curKey, m1.curVal, { m1 with pending := false }, ?_,
        ⟨⟨d2.hinv, d2.finEmpty⟩, rfl⟩, { key := m2.curKey, val := m2.curVal } :: grp,
        by simp, ?_, ?_, ?_, _, List.Perm.refl _, ?_⟩
      · rw [e1, d1]; simp [d3]
      · intro x hx
        rcases List.mem_cons.mp hx with rfl | hx
        · exact d4.symm
        · rw [d4]; exact g1 x hx
      · exact e5'.trans (List.Perm.cons _ g2)
      · rw [d4]; exact g3
      · rw [d4]; exact g4
    · right
      refine ⟨{ m with curKey := [], curVal := [], pending := false }, ?_, m2.curKey,
        { key := m2.curKey, val := m2.curVal } :: pre, b, rest, a',
        by simp, ?_, g2, ?_, ?_, g4, g5⟩
      · rw [e1, d1]
      · intro x hx
        rcases List.mem_cons.mp hx with rfl | hx
        · rfl
        · exact g1 x hx
      · exact e5'.trans (List.Perm.cons _ g3)
      · intro x hx
        rcases List.mem_cons.mp (e5'.mem_iff.mp hx) with rfl | hx
        · simp [bcmp_refl]
        · exact e6 x hx

/-- a finished merger keeps failing, and stays unchanged -/
theorem _root_.Mtbl.mergerNext_finished (c : MCfg) (m : MIter) (h : m.finished = true) :
    mergerNext c m = (.fail, m) := by
  simp [mergerNext, h]

/-- failure is sticky (no merge function): a failing `next` leaves a finished iterator -/
theorem _root_.Mtbl.mergerNext_fail_sticky_nomerge (c : MCfg) (hF2 : c.fixF2 = true)
    (htot : ∀ a b, hle c a b = true ∨ hle c b a = true)
    (htrans : ∀ a b d, hle c a b = true → hle c b d = true → hle c a d = true)
    {m m' : MIter} (hi : MInv c m) (hm : c.merge = none) (h : mergerNext c m = (.fail, m')) :
    pool m = [] ∧ m'.finished = true ∧ mergerNext c m' = (.fail, m') := by
  cases hfin : m.finished with
  | true =>
    rw [mergerNext_finished c m hfin] at h
    simp only [Prod.mk.injEq, true_and] at h
    subst h
    have hz := hi.finEmpty hfin
    refine ⟨pool_of_empty (by simpa using hz), hfin, mergerNext_finished c m hfin⟩
  | false =>
    rcases mergerNext_nomerge c hF2 htot htrans hi hm hfin with
      ⟨m1, e1, e2, e3, _⟩ | ⟨k, v, m1, e1, _⟩
    · rw [e1] at h
      simp only [Prod.mk.injEq, true_and] at h
      subst h
      exact ⟨e2, e3, mergerNext_finished c m1 e3⟩
    · rw [e1] at h; simp at h

/-- failure is sticky (merge function): a `next` failing on an exhausted merger (case (a)) leaves
    a finished iterator.  (After a callback failure the C code leaves the state unspecified.) -/
theorem _root_.Mtbl.mergerNext_fail_sticky_merge (c : MCfg) (hF2 : c.fixF2 = true)
    (htot : ∀ a b, hle c a b = true ∨ hle c b a = true)
    (htrans : ∀ a b d, hle c a b = true → hle c b d = true → hle c a d = true)
    {m m' : MIter} {f : Bytes → Bytes → Bytes → Option Bytes}
    (hi : MInv c m) (hm : c.merge = some f) (h : mergerNext c m = (.fail, m'))
    (hp : pool m = []) :
    m'.finished = true ∧ mergerNext c m' = (.fail, m') := by
  cases hfin : m.finished with
  | true =>
    rw [mergerNext_finished c m hfin] at h
    simp only [Prod.mk.injEq, true_and] at h
    subst h
    exact ⟨hfin, mergerNext_finished c m hfin⟩
  | false =>
    rcases mergerNext_merge c hF2 htot htrans hi hm hfin with
      ⟨m1, e1, e2, e3, _⟩ | ⟨k, v, m1, e1, _⟩ | ⟨m1, e1, k, pre, b, rest, a', _, _, _, g, _⟩
    · rw [e1] at h
      simp only [Prod.mk.injEq, true_and] at h
      subst h
      exact ⟨e3, mergerNext_finished c m1 e3⟩
    · rw [e1] at h; simp at h
    · rw [hp] at g
      have := g.length_eq
      simp at this

/-! ### `merger_iter_init` + `merger_iter_add_entry` -/

def initStep (c : MCfg) (m : MIter) (i : Nat) : MIter :=
  let r := fill m i { src := i, key := [], val := [] }
  if r.1.finished then r.2
  else { r.2 with heap := Heap.push (hle c) r.2.heap r.1, live := r.2.live ++ [i] }

theorem mergerInit_eq (c : MCfg) (srcs : Array Src) :
    mergerInit c srcs = (List.range srcs.size).foldl (initStep c) { srcs := srcs, live := [] } :=
  rfl

theorem initStep_some (c : MCfg) (m : MIter) (i : Nat) {x : Entry} {s' : Src}
    (h : (m.srcs[i]!).next = (some x, s')) :
    initStep c m i = { m with
      srcs := m.srcs.setIfInBounds i s'
      heap := Heap.push (hle c) m.heap { src := i, key := x.key, val := x.val, finished := false }
      live := m.live ++ [i] } := by
  simp [initStep, fill, h]

theorem initStep_none (c : MCfg) (m : MIter) (i : Nat) {s' : Src}
    (h : (m.srcs[i]!).next = (none, s')) :
    initStep c m i = { m with srcs := m.srcs.setIfInBounds i s' } := by
  simp [initStep, fill, h]

structure InitInv (c : MCfg) (srcs : Array Src) (n : Nat) (m : MIter) : Prop where
  size : m.srcs.size = srcs.size
  hinv : HInv c m.srcs m.heap
  lt : ∀ h ∈ m.heap.toList, h.src < n
  nofin : ∀ h ∈ m.heap.toList, h.finished = false
  rest : ∀ j, n ≤ j → m.srcs[j]! = srcs[j]!
  perm : (pool m).Perm ((srcs.toList.take n).flatMap Src.remaining)
  fin : m.finished = false
  pend : m.pending = false
  ds : DSrcs c srcs → DSrcs c m.srcs

theorem initInv_step (c : MCfg) (htot : ∀ a b, hle c a b = true ∨ hle c b a = true)
    (htrans : ∀ a b d, hle c a b = true → hle c b d = true → hle c a d = true)
    (srcs : Array Src) (n : Nat) (m : MIter) (hi : InitInv c srcs n m) (hn : n < srcs.size) :
    InitInv c srcs (n + 1) (initStep c m n) := by
  have hnm : n < m.srcs.size := by rw [hi.size]; exact hn
  have hsn : m.srcs[n]! = srcs[n]! := hi.rest n (Nat.le_refl _)
  have htake : srcs.toList.take (n + 1) = srcs.toList.take n ++ [srcs[n]!] := by
    rw [List.take_succ_eq_append_getElem (by simpa using hn), getElem!_pos srcs n hn]
    simp
  have hne : ∀ h ∈ m.heap.toList, h.src ≠ n := fun h hh => Nat.ne_of_lt (hi.lt h hh)
  have hsorted : ∀ s' : Src, s'.es = (m.srcs[n]!).es → ∀ i, i < (m.srcs.setIfInBounds n s').size →
      Sorted ((m.srcs.setIfInBounds n s')[i]!).es := by
    intro s' hes i hi'
    rw [Array.size_setIfInBounds] at hi'
    by_cases hie : i = n
    · subst hie; rw [Heap.get_set_eq m.srcs _ s' hnm, hes]; exact hi.hinv.sorted _ hnm
    · rw [Heap.get_set_ne m.srcs _ i s' hie]; exact hi.hinv.sorted i hi'
  have hrest : ∀ s' : Src, ∀ j, n + 1 ≤ j → (m.srcs.setIfInBounds n s')[j]! = srcs[j]! := by
    intro s' j hj
    rw [Heap.get_set_ne m.srcs n j s' (by omega)]
    exact hi.rest j (by omega)
  cases hnx : (m.srcs[n]!).next with
  | mk o s' =>
    cases o with
    | none =>
      obtain ⟨hrem, hrem', hes, _⟩ := next_none hnx
      rw [initStep_none c m n hnx]
      refine ⟨by simpa using hi.size, ⟨hi.hinv.isHeap, hi.hinv.nodup, ?_, hi.hinv.finTail,
        hsorted s' hes, ?_, ?_⟩, fun h hh => Nat.lt_succ_of_lt (hi.lt h hh), hi.nofin, hrest s', ?_,
        hi.fin, hi.pend, fun hd => (DSrcs_set c hnm hes).mpr (hi.ds hd)⟩
      · intro h hh; simp only [Array.size_setIfInBounds]; exact hi.hinv.inb h hh
      · intro h hh hf
        simp only
        rw [Heap.get_set_ne m.srcs n h.src s' (hne h hh)]
        exact hi.hinv.headLe h hh hf
      · intro hd h hh hf
        simp only
        rw [Heap.get_set_ne m.srcs n h.src s' (hne h hh)]
        exact hi.hinv.headLeD ((DSrcs_set c hnm hes).mp hd) h hh hf
      · rw [pool_eq]; simp only
        rw [poolL_set_ne m.srcs n s' _ hne, htake, List.flatMap_append, ← hsn]
        simp only [List.flatMap_cons, List.flatMap_nil, hrem, List.append_nil]
        exact hi.perm
    | some x =>
      obtain ⟨hrem, hes, _⟩ := next_some hnx
      rw [initStep_some c m n hnx]
      generalize hnew : ({ src := n, key := x.key, val := x.val, finished := false } : HEnt) = new
      have hnsrc : new.src = n := by rw [← hnew]
      have hnfin : new.finished = false := by rw [← hnew]
      have hp : (Heap.push (hle c) m.heap new).toList.Perm (new :: m.heap.toList) :=
        Heap.push_perm (hle c) m.heap new
      have hsrt : Sorted (m.srcs[n]!).remaining := remaining_sorted (hi.hinv.sorted _ hnm)
      rw [hrem] at hsrt
      have hnofin : ∀ h ∈ (Heap.push (hle c) m.heap new).toList, h.finished = false := by
        intro h hh
        rcases List.mem_cons.mp (hp.mem_iff.mp hh) with rfl | hh
        · exact hnfin
        · exact hi.nofin h hh
      refine ⟨by simpa using hi.size, ⟨?_, ?_, ?_, ?_, hsorted s' hes, ?_, ?_⟩, ?_, hnofin,
        hrest s', ?_, hi.fin, hi.pend, fun hd => (DSrcs_set c hnm hes).mpr (hi.ds hd)⟩
      · exact Heap.push_isHeap (hle c) htot htrans m.heap new hi.hinv.isHeap
      · apply (hp.map _).nodup_iff.mpr
        rw [List.map_cons, List.nodup_cons, hnsrc]
        refine ⟨?_, hi.hinv.nodup⟩
        intro hmem
        obtain ⟨h, hh, he⟩ := List.mem_map.mp hmem
        exact hne h hh he
      · intro h hh
        simp only [Array.size_setIfInBounds]
        rcases List.mem_cons.mp (hp.mem_iff.mp hh) with rfl | hh
        · rw [hnsrc]; exact hnm
        · exact hi.hinv.inb h hh
      · exact fun h hh => hnofin h (List.mem_of_mem_tail hh)
      · intro h hh hf
        simp only
        rcases List.mem_cons.mp (hp.mem_iff.mp hh) with rfl | hh
        · rw [hnsrc, Heap.get_set_eq m.srcs _ s' hnm]
          intro y hy
          have := (List.pairwise_cons.mp hsrt).1 y hy
          rw [← hnew]; exact this
        · rw [Heap.get_set_ne m.srcs n h.src s' (hne h hh)]
          exact hi.hinv.headLe h hh hf
      · intro hd h hh hf
        simp only
        have hd0 : DSrcs c m.srcs := (DSrcs_set c hnm hes).mp hd
        rcases List.mem_cons.mp (hp.mem_iff.mp hh) with rfl | hh
        · rw [hnsrc, Heap.get_set_eq m.srcs _ s' hnm]
          intro y hy
          have hds : DSorted c (m.srcs[n]!).remaining := remaining_dsorted (hd0 _ hnm)
          rw [hrem] at hds
          have := (List.pairwise_cons.mp hds).1 y hy
          rw [← hnew]
          exact (hle_congr c rfl rfl rfl rfl).trans this
        · rw [Heap.get_set_ne m.srcs n h.src s' (hne h hh)]
          exact hi.hinv.headLeD hd0 h hh hf
      · intro h hh
        simp only at hh
        rcases List.mem_cons.mp (hp.mem_iff.mp hh) with rfl | hh
        · rw [hnsrc]; exact Nat.lt_succ_self n
        · exact Nat.lt_succ_of_lt (hi.lt h hh)
      · rw [pool_eq]; simp only
        refine (poolL_perm _ hp).trans ?_
        rw [poolL_cons, poolL_set_ne m.srcs n s' _ hne, htake, List.flatMap_append, ← hsn]
        have h2 : contrib (m.srcs.setIfInBounds n s') new = x :: s'.remaining := by
          unfold contrib
          rw [hnfin, hnsrc, Heap.get_set_eq m.srcs _ s' hnm, ← hnew]
          simp
        simp only [List.flatMap_cons, List.flatMap_nil, hrem, List.append_nil, h2]
        exact List.perm_append_comm.trans (List.Perm.append_right _ hi.perm)

theorem initInv_fold (c : MCfg) (htot : ∀ a b, hle c a b = true ∨ hle c b a = true)
    (htrans : ∀ a b d, hle c a b = true → hle c b d = true → hle c a d = true)
    (srcs : Array Src) (hs : ∀ s ∈ srcs.toList, Sorted s.es) :
    ∀ n, n ≤ srcs.size →
      InitInv c srcs n ((List.range n).foldl (initStep c) { srcs := srcs, live := [] }) := by
  intro n
  induction n with
  | zero =>
    intro _
    refine ⟨rfl, ⟨?_, by simp, by simp, by simp, ?_, by simp, by simp⟩, by simp, by simp,
      fun _ _ => rfl, ?_, rfl, rfl, fun hd => hd⟩
    · intro i h0 hi; simp at hi
    · intro i hi
      apply hs
      simp only [List.range_zero, List.foldl_nil]
      have hi' : i < srcs.size := hi
      rw [getElem!_pos srcs i hi']
      exact Array.mem_toList_iff.mpr (Array.getElem_mem hi')
    · simp [pool]
  | succ n ih =>
    intro hn
    rw [List.range_succ, List.foldl_append]
    exact initInv_step c htot htrans srcs n _ (ih (by omega)) (by omega)

/-- **C04, initial state.** -/
theorem _root_.Mtbl.mergerInit_inv (c : MCfg)
    (htot : ∀ a b, hle c a b = true ∨ hle c b a = true)
    (htrans : ∀ a b d, hle c a b = true → hle c b d = true → hle c a d = true)
    (srcs : Array Src) (hs : ∀ s ∈ srcs.toList, Sorted s.es) :
    MInv c (mergerInit c srcs) ∧
    (pool (mergerInit c srcs)).Perm (srcs.toList.flatMap Src.remaining) ∧
    (mergerInit c srcs).finished = false ∧
    (DSrcs c srcs → DSrcs c (mergerInit c srcs).srcs) := by
  have h := initInv_fold c htot htrans srcs hs srcs.size (Nat.le_refl _)
  rw [← mergerInit_eq] at h
  refine ⟨⟨⟨h.hinv, ?_⟩, h.pend⟩, ?_, h.fin, h.ds⟩
  · intro hf; rw [h.fin] at hf; simp at hf
  · have := h.perm
    rwa [List.take_of_length_le (by simp)] at this

/-! ### draining a merger -/

/-- repeat `merger_iter_next` until it fails (at most `fuel` times) -/
def _root_.Mtbl.mergerDrain (c : MCfg) : Nat → MIter → List Entry
  | 0, _ => []
  | fuel + 1, m =>
    match mergerNext c m with
    | (.ok k v, m') => { key := k, val := v } :: mergerDrain c fuel m'
    | (.fail, _) => []

/-! ### non-vacuity: concrete runs (`a` = 97, `b` = 98, `c` = 99, `x` = 120, `y` = 121, digits 49..52) -/

/-- sources `[("", "x"), ("a","1"), ("b","2")]`, `[("a","3")]`, `[("", "y"), ("c","4")]` -/
def exSrcs : Array Src := #[
  { es := [⟨[], [120]⟩, ⟨[97], [49]⟩, ⟨[98], [50]⟩] },
  { es := [⟨[97], [51]⟩] },
  { es := [⟨[], [121]⟩, ⟨[99], [52]⟩] }]

def catCfg : MCfg := { merge := some fun _ a b => some (a ++ b), dupsort := none }
def noMergeCfg : MCfg := { merge := none, dupsort := none }

/-- with concatenation as merge function: keys `""`, `a`, `b`, `c`, each input value used once -/
example : mergerDrain catCfg 10 (mergerInit catCfg exSrcs) =
    [⟨[], [120, 121]⟩, ⟨[97], [49, 51]⟩, ⟨[98], [50]⟩, ⟨[99], [52]⟩] := by decide +kernel

/-- without a merge function every entry is emitted, in ascending key order -/
example : mergerDrain noMergeCfg 10 (mergerInit noMergeCfg exSrcs) =
    [⟨[], [120]⟩, ⟨[], [121]⟩, ⟨[97], [49]⟩, ⟨[97], [51]⟩, ⟨[98], [50]⟩, ⟨[99], [52]⟩] := by
  decide +kernel

/-- a failing callback makes that `next` fail -/
example : (mergerNext { merge := some fun _ _ _ => none, dupsort := none }
    (mergerInit { merge := some fun _ _ _ => none, dupsort := none } exSrcs)).1 = .fail := by
  decide +kernel

/-- **F2** (pinned code, `fixF2 := false`): the entry with the empty key is dropped, because
    "an entry is being assembled" is tested as `cur_key` non-empty; the repaired code emits both. -/
theorem _root_.Mtbl.F2_witness :
    let srcs : Array Src := #[{ es := [⟨[], [118, 48]⟩, ⟨[97], [118, 49]⟩] }]
    let bad : MCfg := { merge := none, dupsort := none, fixF2 := false }
    let good : MCfg := { merge := none, dupsort := none, fixF2 := true }
    mergerDrain bad 5 (mergerInit bad srcs) = [⟨[97], [118, 49]⟩] ∧
    mergerDrain good 5 (mergerInit good srcs) = [⟨[], [118, 48]⟩, ⟨[97], [118, 49]⟩] := by
  decide +kernel

theorem mergerDrain_ok (c : MCfg) (fuel : Nat) {m m' : MIter} {k v : Bytes}
    (h : mergerNext c m = (.ok k v, m')) :
    mergerDrain c (fuel + 1) m = { key := k, val := v } :: mergerDrain c fuel m' := by
  simp [mergerDrain, h]

theorem mergerDrain_fail (c : MCfg) (fuel : Nat) {m m' : MIter}
    (h : mergerNext c m = (.fail, m')) : mergerDrain c (fuel + 1) m = [] := by
  simp [mergerDrain, h]

theorem pool_of_finished {c : MCfg} {m : MIter} (hi : MInv c m) (hfin : m.finished = true) :
    pool m = [] :=
  pool_of_empty (by simpa using hi.finEmpty hfin)

/-- draining without a merge function, from any state satisfying the invariant -/
theorem drain_nomerge (c : MCfg) (hF2 : c.fixF2 = true)
    (htot : ∀ a b, hle c a b = true ∨ hle c b a = true)
    (htrans : ∀ a b d, hle c a b = true → hle c b d = true → hle c a d = true)
    (hm : c.merge = none) :
    ∀ fuel m, MInv c m → (pool m).length < fuel →
      (mergerDrain c fuel m).Perm (pool m) ∧ Sorted (mergerDrain c fuel m) ∧
      (DSrcs c m.srcs → DSorted c (mergerDrain c fuel m)) := by
  intro fuel
  induction fuel with
  | zero => intro m _ h; omega
  | succ fuel ih =>
    intro m hi hlen
    cases hfin : m.finished with
    | true =>
      rw [mergerDrain_fail c fuel (mergerNext_finished c m hfin), pool_of_finished hi hfin]
      exact ⟨List.Perm.refl _, List.Pairwise.nil, fun _ => List.Pairwise.nil⟩
    | false =>
      rcases mergerNext_nomerge c hF2 htot htrans hi hm hfin with
        ⟨m1, e1, e2, _⟩ | ⟨k, v, m1, e1, e2, e3, e4, e5⟩
      · rw [mergerDrain_fail c fuel e1, e2]
        exact ⟨List.Perm.refl _, List.Pairwise.nil, fun _ => List.Pairwise.nil⟩
      · rw [mergerDrain_ok c fuel e1]
        have hl := e3.length_eq
        simp only [List.length_cons] at hl
        obtain ⟨h1, h2, h3⟩ := ih m1 e2 (by omega)
        refine ⟨(List.Perm.cons _ h1).trans e3.symm, ?_, ?_⟩
        · unfold Sorted
          rw [List.pairwise_cons]
          exact ⟨fun x hx => e4 x (h1.mem_iff.mp hx), h2⟩
        · intro hd
          obtain ⟨d1, d2⟩ := e5 hd
          unfold DSorted
          rw [List.pairwise_cons]
          exact ⟨fun x hx => d2 x (h1.mem_iff.mp hx), h3 d1⟩

theorem length_flatMap_remaining_le (l : List Src) :
    (l.flatMap Src.remaining).length ≤ (l.map fun s => s.es.length).sum := by
  induction l with
  | nil => simp
  | cons s l ih =>
    have := remaining_length_le s
    simp only [List.flatMap_cons, List.length_append, List.map_cons, List.sum_cons]
    omega

/-- **C04, whole run, no merge function**: the drained output is a permutation of everything the
    sources deliver, in non-decreasing key order; if every source is sorted by (key, dupsort), so
    is the output. -/
theorem _root_.Mtbl.mergerDrain_nomerge (c : MCfg) (hF2 : c.fixF2 = true)
    (htot : ∀ a b, hle c a b = true ∨ hle c b a = true)
    (htrans : ∀ a b d, hle c a b = true → hle c b d = true → hle c a d = true)
    (hm : c.merge = none) (srcs : Array Src) (hs : ∀ s ∈ srcs.toList, Sorted s.es) (fuel : Nat)
    (hfuel : (srcs.toList.map fun s => s.es.length).sum + 1 ≤ fuel) :
    (mergerDrain c fuel (mergerInit c srcs)).Perm (srcs.toList.flatMap Src.remaining) ∧
    Sorted (mergerDrain c fuel (mergerInit c srcs)) ∧
    (DSrcs c srcs → DSorted c (mergerDrain c fuel (mergerInit c srcs))) := by
  obtain ⟨h1, h2, _, hd⟩ := mergerInit_inv c htot htrans srcs hs
  have hl := h2.length_eq
  have := length_flatMap_remaining_le srcs.toList
  obtain ⟨h3, h4, h5⟩ := drain_nomerge c hF2 htot htrans hm fuel _ h1 (by omega)
  exact ⟨h3.trans h2, h4, fun h => h5 (hd h)⟩

/-- the values the entries `es` hold for key `k` -/
def _root_.Mtbl.valuesOf (k : Bytes) (es : List Entry) : List Bytes :=
  (es.filter fun x => x.key == k).map (·.val)

theorem valuesOf_perm (k : Bytes) {a b : List Entry} (h : a.Perm b) :
    (valuesOf k a).Perm (valuesOf k b) := (h.filter _).map _

theorem valuesOf_append (k : Bytes) (a b : List Entry) :
    valuesOf k (a ++ b) = valuesOf k a ++ valuesOf k b := by
  simp [valuesOf]

theorem valuesOf_all (k : Bytes) (a : List Entry) (h : ∀ x ∈ a, x.key = k) :
    valuesOf k a = a.map (·.val) := by
  unfold valuesOf
  rw [List.filter_eq_self.mpr]
  intro x hx; simp [h x hx]

theorem valuesOf_none (k : Bytes) (a : List Entry) (h : ∀ x ∈ a, x.key ≠ k) :
    valuesOf k a = [] := by
  unfold valuesOf
  rw [List.filter_eq_nil_iff.mpr]
  · rfl
  · intro x hx; simp [h x hx]

theorem ne_of_bcmp_lt {a b : Bytes} (h : bcmp a b = .lt) : b ≠ a := by
  intro he; subst he; rw [bcmp_refl] at h; simp at h

/-- draining with a merge function that never fails, from any state satisfying the invariant -/
theorem drain_merge (c : MCfg) (hF2 : c.fixF2 = true)
    (htot : ∀ a b, hle c a b = true ∨ hle c b a = true)
    (htrans : ∀ a b d, hle c a b = true → hle c b d = true → hle c a d = true)
    {f : Bytes → Bytes → Bytes → Option Bytes} (hm : c.merge = some f)
    (hok : ∀ k a b, f k a b ≠ none) :
    ∀ fuel m, MInv c m → (pool m).length < fuel →
      StrictSorted (mergerDrain c fuel m) ∧
      (∀ e ∈ mergerDrain c fuel m, ∃ e' ∈ pool m, e'.key = e.key) ∧
      (∀ e' ∈ pool m, ∃ e ∈ mergerDrain c fuel m, e.key = e'.key) ∧
      ∀ e ∈ mergerDrain c fuel m, ∃ l, l.Perm (valuesOf e.key (pool m)) ∧
        foldl1? f e.key l = some e.val := by
  intro fuel
  induction fuel with
  | zero => intro m _ h; omega
  | succ fuel ih =>
    intro m hi hlen
    cases hfin : m.finished with
    | true =>
      rw [mergerDrain_fail c fuel (mergerNext_finished c m hfin), pool_of_finished hi hfin]
      exact ⟨List.Pairwise.nil, by simp, by simp, by simp⟩
    | false =>
      rcases mergerNext_merge c hF2 htot htrans hi hm hfin with
        ⟨m1, e1, e2, _⟩ | ⟨k, v, m1, e1, e2, grp, g0, g1, g2, g3, l, g4, g5⟩ |
        ⟨m1, e1, k, pre, b, rest, a', _, _, _, _, _, _, g⟩
      · rw [mergerDrain_fail c fuel e1, e2]
        exact ⟨List.Pairwise.nil, by simp, by simp, by simp⟩
      · rw [mergerDrain_ok c fuel e1]
        have hl := g2.length_eq
        have hgl : 0 < grp.length := List.length_pos_iff.mpr g0
        simp only [List.length_append] at hl
        obtain ⟨h1, h2, h3, h4⟩ := ih m1 e2 (by omega)
        have hlt : ∀ e ∈ mergerDrain c fuel m1, bcmp k e.key = .lt := by
          intro e he
          obtain ⟨e', he', hk⟩ := h2 e he
          rw [← hk]; exact g3 e' he'
        refine ⟨?_, ?_, ?_, ?_⟩
        · unfold StrictSorted
          rw [List.pairwise_cons]
          exact ⟨hlt, h1⟩
        · intro e he
          rcases List.mem_cons.mp he with rfl | he
          · obtain ⟨x, hx⟩ := List.exists_mem_of_ne_nil grp g0
            exact ⟨x, g2.mem_iff.mpr (List.mem_append_left _ hx), g1 x hx⟩
          · obtain ⟨e', he', hk⟩ := h2 e he
            exact ⟨e', g2.mem_iff.mpr (List.mem_append_right _ he'), hk⟩
        · intro e' he'
          rcases List.mem_append.mp (g2.mem_iff.mp he') with hg | hp
          · exact ⟨_, List.mem_cons_self, (g1 e' hg).symm⟩
          · obtain ⟨e, he, hk⟩ := h3 e' hp
            exact ⟨e, List.mem_cons_of_mem _ he, hk⟩
        · intro e he
          rcases List.mem_cons.mp he with rfl | he
          · refine ⟨l, ?_, g5⟩
            refine g4.trans ?_
            refine List.Perm.trans ?_ (valuesOf_perm k g2).symm
            rw [valuesOf_append, valuesOf_all k grp g1,
              valuesOf_none k (pool m1) (fun x hx => ne_of_bcmp_lt (g3 x hx)), List.append_nil]
          · obtain ⟨l', p1, p2⟩ := h4 e he
            refine ⟨l', ?_, p2⟩
            refine p1.trans ?_
            refine List.Perm.trans ?_ (valuesOf_perm e.key g2).symm
            rw [valuesOf_append, valuesOf_none e.key grp, List.nil_append]
            intro x hx
            rw [g1 x hx]
            exact (ne_of_bcmp_lt (hlt e he)).symm
      · exact absurd g (hok _ _ _)

/-- **C04, whole run, with a merge function whose calls all succeed**: the drained output has
    strictly ascending keys, exactly the keys of the inputs, and the value of each key is the fold
    of the merge function over some ordering of all values the inputs hold for that key. -/
theorem _root_.Mtbl.mergerDrain_merge (c : MCfg) (hF2 : c.fixF2 = true)
    (htot : ∀ a b, hle c a b = true ∨ hle c b a = true)
    (htrans : ∀ a b d, hle c a b = true → hle c b d = true → hle c a d = true)
    {f : Bytes → Bytes → Bytes → Option Bytes} (hm : c.merge = some f)
    (hok : ∀ k a b, f k a b ≠ none)
    (srcs : Array Src) (hs : ∀ s ∈ srcs.toList, Sorted s.es) (fuel : Nat)
    (hfuel : (srcs.toList.map fun s => s.es.length).sum + 1 ≤ fuel) :
    StrictSorted (mergerDrain c fuel (mergerInit c srcs)) ∧
    (∀ k, (∃ e ∈ mergerDrain c fuel (mergerInit c srcs), e.key = k) ↔
      (∃ e ∈ srcs.toList.flatMap Src.remaining, e.key = k)) ∧
    ∀ e ∈ mergerDrain c fuel (mergerInit c srcs),
      ∃ l, l.Perm (valuesOf e.key (srcs.toList.flatMap Src.remaining)) ∧
        foldl1? f e.key l = some e.val := by
  obtain ⟨h1, h2, _⟩ := mergerInit_inv c htot htrans srcs hs
  have hl := h2.length_eq
  have := length_flatMap_remaining_le srcs.toList
  obtain ⟨d1, d2, d3, d4⟩ := drain_merge c hF2 htot htrans hm hok fuel _ h1 (by omega)
  refine ⟨d1, ?_, ?_⟩
  · intro k
    constructor
    · rintro ⟨e, he, rfl⟩
      obtain ⟨e', he', hk⟩ := d2 e he
      exact ⟨e', h2.mem_iff.mp he', hk⟩
    · rintro ⟨e', he', rfl⟩
      exact d3 e' (h2.mem_iff.mpr he')
  · intro e he
    obtain ⟨l, p1, p2⟩ := d4 e he
    exact ⟨l, p1.trans (valuesOf_perm e.key h2), p2⟩

/-! ### when is `hle c` a total preorder?  (discharging `htot`, `htrans`) -/

/-- the dupsort comparison as a `≤` test on values under key `k` (trivial without dupsort) -/
def _root_.Mtbl.dle (c : MCfg) (k a b : Bytes) : Bool :=
  match c.dupsort with
  | some d => d k a b != .gt
  | none => true

theorem hle_iff (c : MCfg) (a b : HEnt) :
    hle c a b = true ↔
      bcmp a.key b.key = .lt ∨ (bcmp a.key b.key = .eq ∧ dle c a.key a.val b.val = true) := by
  unfold hle hcmp dle
  cases h : bcmp a.key b.key <;> cases hd : c.dupsort <;> simp

/-- `hle c` is total as soon as the dupsort function is (per key) -/
theorem _root_.Mtbl.hle_total (c : MCfg)
    (hd : ∀ k a b, dle c k a b = true ∨ dle c k b a = true) :
    ∀ a b, hle c a b = true ∨ hle c b a = true := by
  intro a b
  rw [hle_iff, hle_iff]
  cases h : bcmp a.key b.key with
  | lt => left; left; rfl
  | gt => right; left; exact (bcmp_lt_iff_gt _ _).mpr h
  | eq =>
    have hk := (bcmp_eq_iff _ _).mp h
    have h' : bcmp b.key a.key = .eq := by rw [hk]; exact bcmp_refl _
    rcases hd a.key a.val b.val with h1 | h1
    · left; right; exact ⟨rfl, h1⟩
    · right; right; refine ⟨h', ?_⟩; rw [← hk]; exact h1

/-- `hle c` is transitive as soon as the dupsort function is (per key) -/
theorem _root_.Mtbl.hle_trans (c : MCfg)
    (hd : ∀ k a b e, dle c k a b = true → dle c k b e = true → dle c k a e = true) :
    ∀ a b e, hle c a b = true → hle c b e = true → hle c a e = true := by
  intro a b e
  rw [hle_iff, hle_iff, hle_iff]
  rintro (h1 | ⟨h1, d1⟩) (h2 | ⟨h2, d2⟩)
  · left; exact bcmp_lt_trans h1 h2
  · left; rw [← (bcmp_eq_iff _ _).mp h2]; exact h1
  · left; rw [(bcmp_eq_iff _ _).mp h1]; exact h2
  · right
    have k1 := (bcmp_eq_iff _ _).mp h1
    have k2 := (bcmp_eq_iff _ _).mp h2
    refine ⟨by rw [k1, k2]; exact bcmp_refl _, ?_⟩
    rw [← k1] at d2
    exact hd _ _ _ _ d1 d2

/-- without dupsort `hle c` is a total preorder -/
theorem _root_.Mtbl.hle_total_of_no_dupsort (c : MCfg) (h : c.dupsort = none) :
    ∀ a b, hle c a b = true ∨ hle c b a = true :=
  hle_total c (by intro k a b; simp [dle, h])

theorem _root_.Mtbl.hle_trans_of_no_dupsort (c : MCfg) (h : c.dupsort = none) :
    ∀ a b e, hle c a b = true → hle c b e = true → hle c a e = true :=
  hle_trans c (by intro k a b e; simp [dle, h])

/-- dupsort by bytewise value comparison (the usual choice) gives a total preorder -/
theorem _root_.Mtbl.hle_total_of_bcmp_dupsort (c : MCfg)
    (h : c.dupsort = some fun _ a b => bcmp a b) :
    ∀ a b, hle c a b = true ∨ hle c b a = true := by
  apply hle_total
  intro k a b
  simp only [dle, h, bne_iff_ne, ne_eq]
  cases hab : bcmp a b with
  | gt => right; rw [(bcmp_lt_iff_gt b a).mpr hab]; simp
  | lt => left; simp
  | eq => left; simp

theorem _root_.Mtbl.hle_trans_of_bcmp_dupsort (c : MCfg)
    (h : c.dupsort = some fun _ a b => bcmp a b) :
    ∀ a b e, hle c a b = true → hle c b e = true → hle c a e = true := by
  apply hle_trans
  intro k a b e
  simp only [dle, h, bne_iff_ne, ne_eq]
  exact bcmp_le_trans

/-- dupsort example: two sources sorted by (key, value); the output is sorted by (key, value) -/
example :
    let c : MCfg := { merge := none, dupsort := some fun _ a b => bcmp a b }
    mergerDrain c 10 (mergerInit c #[{ es := [⟨[97], [50]⟩, ⟨[97], [52]⟩, ⟨[98], [49]⟩] },
      { es := [⟨[97], [49]⟩, ⟨[97], [51]⟩] }]) =
    [⟨[97], [49]⟩, ⟨[97], [50]⟩, ⟨[97], [51]⟩, ⟨[97], [52]⟩, ⟨[98], [49]⟩] := by
  decide +kernel

/-! ### the hypotheses of the general theorems are satisfiable: instances on the concrete example -/

theorem exSrcs_sorted : ∀ s ∈ exSrcs.toList, Sorted s.es := by
  unfold Sorted; decide +kernel

example :
    StrictSorted (mergerDrain catCfg 10 (mergerInit catCfg exSrcs)) ∧
    (∀ k, (∃ e ∈ mergerDrain catCfg 10 (mergerInit catCfg exSrcs), e.key = k) ↔
      (∃ e ∈ exSrcs.toList.flatMap Src.remaining, e.key = k)) ∧
    ∀ e ∈ mergerDrain catCfg 10 (mergerInit catCfg exSrcs),
      ∃ l, l.Perm (valuesOf e.key (exSrcs.toList.flatMap Src.remaining)) ∧
        foldl1? (fun _ a b => some (a ++ b)) e.key l = some e.val :=
  mergerDrain_merge catCfg rfl (hle_total_of_no_dupsort _ rfl) (hle_trans_of_no_dupsort _ rfl)
    rfl (by intro k a b; simp) exSrcs exSrcs_sorted 10 (by decide +kernel)

example :
    (mergerDrain noMergeCfg 10 (mergerInit noMergeCfg exSrcs)).Perm
      (exSrcs.toList.flatMap Src.remaining) ∧
    Sorted (mergerDrain noMergeCfg 10 (mergerInit noMergeCfg exSrcs)) :=
  let h := mergerDrain_nomerge noMergeCfg rfl (hle_total_of_no_dupsort _ rfl)
    (hle_trans_of_no_dupsort _ rfl) rfl exSrcs exSrcs_sorted 10 (by decide +kernel)
  ⟨h.1, h.2.1⟩

/-- the source kind `merger_iter`/`merger_get*` give their per-table iterators -/
def _root_.Mtbl.srcKind : Kind → Kind
  | .get k => .range k
  | k => k

/-- **C04, initial state of `mtbl_merger_iter` / `get` / `get_prefix` / `get_range`**: the invariant
    holds and the pool is what the per-table iterators deliver. -/
theorem _root_.Mtbl.mergerIter_inv (c : MCfg)
    (htot : ∀ a b, hle c a b = true ∨ hle c b a = true)
    (htrans : ∀ a b d, hle c a b = true → hle c b d = true → hle c a d = true)
    (tables : List (List Entry)) (hs : ∀ es ∈ tables, Sorted es) (kind : Kind) (start : Bytes)
    {m : MIter} (h : mergerIter c tables kind start = some m) :
    MInv c m ∧ m.finished = false ∧
    (pool m).Perm (tables.flatMap fun es =>
      Src.remaining { es := es, kind := srcKind kind, cur := specSeek es start }) := by
  have key : ∃ srcs : Array Src, m = mergerInit c srcs ∧
      srcs.toList = tables.map fun es =>
        ({ es := es, kind := srcKind kind, cur := specSeek es start } : Src) := by
    refine ⟨tables.toArray.map fun es =>
        ({ es := es, kind := srcKind kind, cur := specSeek es start } : Src), ?_, by simp⟩
    cases kind with
    | iter => simpa [mergerIter, srcKind] using h.symm
    | get k => simp only [mergerIter, srcKind] at h ⊢; split at h <;> simp_all
    | pfx k => simp only [mergerIter, srcKind] at h ⊢; split at h <;> simp_all
    | range k => simp only [mergerIter, srcKind] at h ⊢; split at h <;> simp_all
  obtain ⟨srcs, rfl, hsl⟩ := key
  have hsorted : ∀ s ∈ srcs.toList, Sorted s.es := by
    intro s hs'
    rw [hsl] at hs'
    obtain ⟨es, hes, rfl⟩ := List.mem_map.mp hs'
    exact hs es hes
  obtain ⟨h1, h2, h3, _⟩ := mergerInit_inv c htot htrans srcs hsorted
  refine ⟨h1, h3, ?_⟩
  rw [hsl, List.flatMap_map] at h2
  exact h2
end MergerProofs
end Mtbl
