import MtblModel.Tp


/-! ## Part 1: vocabulary and the invariant -/

/-!
  Proofs about the threadpool transition system `MtblModel/Tp.lean` (model of mtbl/threadpool.c):
  C13 (bound, at-most-once, order, completeness, deadlock freedom) and C14 (no data race), for all
  `max ≥ 1`, `njobs`, `ordered` and all schedules.

  Method: one invariant `Inv` (bounds and counting, ownership of thread records, per-place shape of
  a record, phases, sleepers' predicates, job accounting), proved by induction over `Reachable` with
  one small lemma per transition (`inv_c1` … `inv_c14` caller, `inv_h1` … `inv_h7` handler,
  `inv_w1` … `inv_w7` worker, `inv_s1` … `inv_s5` spurious wake-ups); the requested theorems are
  consequences of `Inv`.
-/
namespace Tp

/-! ### vocabulary -/

def isTop : WPc → Bool | .top _ => true | _ => false

/-- thread the caller owns -/
def cHand (cpc : CPc) (ordered : Bool) : Option Nat := match cpc with
  | .assign t => some t
  | .enqueue t => if ordered then some t else none
  | .kill t => some t
  | .joinW t => some t
  | _ => none

/-- thread the result handler owns -/
def hHand (hpc : HPc) : Option Nat := match hpc with
  | .waitRes t _ => some t
  | .giveBack t _ => some t
  | _ => none

/-- result held in a local variable of the handler -/
def hLoc (hpc : HPc) : List (Option Nat) := match hpc with
  | .giveBack _ r => [r]
  | .callback r => [r]
  | _ => []

/-- the job a thread record carries (as callback argument or as result) -/
def jobOf (th : Thr) : Option Nat := match th.cb with | some j => some j | none => th.res

/-- result the handler has or will take out of the thread it owns -/
def hJob (hpc : HPc) (thr : Array Thr) : List (Option Nat) := match hpc with
  | .waitRes t _ => [jobOf thr[t]!]
  | .giveBack _ r => [r]
  | .callback r => [r]
  | _ => []

/-- unordered dispatch: working, not yet in the result queue -/
def isW (th : Thr) : Bool := th.rq || th.pc == .selfEnq

def nWork (thr : Array Thr) : Nat := thr.countP isW

/-- the job `nextJob` has been handed out but `nextJob` not yet incremented -/
def pend (cpc : CPc) : Nat := match cpc with | .enqueue _ => 1 | _ => 0

def pendU (cpc : CPc) (ordered : Bool) : Int := match cpc with | .enqueue _ => if ordered then 0 else 1 | _ => 0

def inDestroy (cpc : CPc) : Bool := match cpc with
  | .destroy _ | .kill _ | .joinW _ | .done => true | _ => false

def afterFinish (cpc : CPc) : Bool := match cpc with
  | .joinH | .destroy _ | .kill _ | .joinW _ | .done => true | _ => false

def o2n (o : Option Nat) : Nat := match o with | some _ => 1 | none => 0

/-! shapes of a thread record -/
def SIdle (th : Thr) : Prop :=
  isTop th.pc = true ∧ th.running = false ∧ th.cb = none ∧ th.res = none ∧ th.rq = false
/-- ordered dispatch (in the caller's hand at `enqueue`, in the queue or in the handler's hand) -/
def SOrd (th : Thr) : Prop :=
  th.rq = false ∧
  (((th.pc = .top false ∨ th.pc = .gotJob) ∧ th.running = true ∧ th.cb ≠ none ∧ th.res = none) ∨
   (th.pc = .doneOrd ∧ th.running = true ∧ th.cb = none ∧ th.res ≠ none) ∨
   (isTop th.pc = true ∧ th.running = false ∧ th.cb = none ∧ th.res ≠ none))
/-- result ready -/
def SFin (th : Thr) : Prop :=
  isTop th.pc = true ∧ th.running = false ∧ th.cb = none ∧ th.res ≠ none ∧ th.rq = false
/-- unordered dispatch, not yet queued -/
def SWork (th : Thr) : Prop :=
  ((th.pc = .top false ∨ th.pc = .gotJob) ∧ th.running = true ∧ th.cb ≠ none ∧ th.res = none ∧ th.rq = true) ∨
  (th.pc = .selfEnq ∧ th.running = false ∧ th.cb = none ∧ th.res ≠ none ∧ th.rq = false)
/-- told to exit -/
def SKill (th : Thr) : Prop :=
  (th.pc = .top false ∨ th.pc = .gotJob ∨ th.pc = .exited) ∧ th.running = true ∧ th.cb = none ∧ th.res = none ∧ th.rq = false
/-- in the result queue / waited for by the handler -/
def SQ (ordered : Bool) (th : Thr) : Prop := if ordered then SOrd th else SFin th

structure Inv (s : St) : Prop where
  -- bounds and counting
  maxPos : 1 ≤ s.max
  countLe : s.count ≤ s.max
  sizeMain : inDestroy s.cpc = false → s.thr.size + (if s.cpc = .create then 1 else 0) = s.count
  sizeDestroy : inDestroy s.cpc = true → s.count = s.idle.length + o2n (cHand s.cpc s.ordered) ∧ s.count ≤ s.thr.size
  cnt : inDestroy s.cpc = false →
        s.thr.size = s.idle.length + s.queue.length + o2n (hHand s.hpc) + o2n (cHand s.cpc s.ordered) + nWork s.thr
  nthr : s.nthreads + pendU s.cpc s.ordered = (s.queue.length + nWork s.thr : Nat)
  -- places
  idleLt : ∀ t ∈ s.idle, t < s.thr.size
  queueLt : ∀ t ∈ s.queue, t < s.thr.size
  cHandLt : ∀ t, cHand s.cpc s.ordered = some t → t < s.thr.size
  hHandLt : ∀ t, hHand s.hpc = some t → t < s.thr.size
  idleNodup : s.idle.Nodup
  queueNodup : s.queue.Nodup
  cNotIdle : ∀ t, cHand s.cpc s.ordered = some t → t ∉ s.idle
  cNotQueue : ∀ t, cHand s.cpc s.ordered = some t → t ∉ s.queue
  hNotIdle : ∀ t, hHand s.hpc = some t → t ∉ s.idle
  hNotQueue : ∀ t, hHand s.hpc = some t → t ∉ s.queue
  chDisj : ∀ t, cHand s.cpc s.ordered = some t → hHand s.hpc ≠ some t
  -- per-thread: what the record looks like in each place, and that it is in some place
  tIdle : ∀ t, t ∈ s.idle → SIdle s.thr[t]!
  tAssign : ∀ t, s.cpc = .assign t → SIdle s.thr[t]!
  tKill : ∀ t, s.cpc = .kill t → SIdle s.thr[t]!
  tEnq : ∀ t, s.cpc = .enqueue t → s.ordered = true → SOrd s.thr[t]! ∧ jobOf s.thr[t]! = some s.nextJob
  tQueue : ∀ t, t ∈ s.queue → SQ s.ordered s.thr[t]!
  tWait : ∀ t a, s.hpc = .waitRes t a → SQ s.ordered s.thr[t]! ∧ (a = true → s.thr[t]!.running = true)
  tGive : ∀ t r, s.hpc = .giveBack t r → SIdle s.thr[t]!
  tJoinW : ∀ t, s.cpc = .joinW t → SKill s.thr[t]!
  tPlace : ∀ t, t < s.thr.size →
    t ∈ s.idle ∨ t ∈ s.queue ∨ hHand s.hpc = some t ∨ cHand s.cpc s.ordered = some t ∨
      (s.ordered = false ∧ SWork s.thr[t]!) ∨
      (SKill s.thr[t]! ∧ s.thr[t]!.pc = .exited ∧ inDestroy s.cpc = true)
  -- phases
  jobsLe : s.nextJob + pend s.cpc ≤ s.njobs
  jobsLt : (s.cpc = .create ∨ ∃ t, s.cpc = .assign t) → s.nextJob < s.njobs
  jobsDone : (afterFinish s.cpc = true ∨ s.cpc = .finish) → s.nextJob = s.njobs
  finIff : s.finished = afterFinish s.cpc
  hExit : s.hpc = .exited → afterFinish s.cpc = true ∧ s.queue = [] ∧ s.nthreads = 0
  destroyH : inDestroy s.cpc = true → s.hpc = .exited
  deqSleep : s.hpc = .deq true → s.queue = [] ∧ ¬ (s.finished = true ∧ s.nthreads = 0)
  nextSleep : s.cpc = .next true → s.idle = [] ∧ s.count = s.max
  destroySleep : s.cpc = .destroy true → s.idle = [] ∧ s.count ≠ 0
  -- jobs
  jDel : ∀ x ∈ s.delivered ++ hLoc s.hpc, ∃ j, x = some j ∧ j < s.nextJob + pend s.cpc
  jNodup : (s.delivered ++ hLoc s.hpc).Nodup
  jThr : ∀ t j, t < s.thr.size → jobOf s.thr[t]! = some j →
         j < s.nextJob + pend s.cpc ∧ some j ∉ s.delivered ++ hLoc s.hpc
  jInj : ∀ t u j, t < s.thr.size → u < s.thr.size → jobOf s.thr[t]! = some j → jobOf s.thr[u]! = some j → t = u
  jAll : ∀ j, j < s.nextJob + pend s.cpc →
         some j ∈ s.delivered ++ hLoc s.hpc ∨ ∃ t, t < s.thr.size ∧ jobOf s.thr[t]! = some j
  jOrd : s.ordered = true →
         s.delivered ++ hJob s.hpc s.thr ++ s.queue.map (fun t => jobOf s.thr[t]!) = (List.range s.nextJob).map some

end Tp


/-! ## Part 2: arrays, signals, evaluation lemmas -/

namespace Tp

/-! ### record access after updates -/

theorem get_modify (a : Array Thr) (t u : Nat) (f : Thr → Thr) :
    (a.modify t f)[u]! = if u = t ∧ t < a.size then f a[u]! else a[u]! := by
  grind

theorem get_push (a : Array Thr) (x : Thr) (u : Nat) :
    (a.push x)[u]! = if u = a.size then x else a[u]! := by
  grind

theorem nWork_modify (a : Array Thr) (t : Nat) (f : Thr → Thr) (h : t < a.size) :
    nWork (a.modify t f) + (if isW a[t]! then 1 else 0) = nWork a + (if isW (f a[t]!) then 1 else 0) := by
  have h1 : a.modify t f = a.set t (f a[t]) h := by
    apply Array.ext
    · simp
    · intro i h1 h2
      simp [Array.getElem_modify, Array.getElem_set]
      grind
  have h2 : a[t]! = a[t] := getElem!_pos a t h
  have h3 : (if isW a[t] = true then 1 else 0) ≤ Array.countP isW a := by
    split
    · apply Array.countP_pos_iff.mpr
      exact ⟨a[t], by simp, by assumption⟩
    · omega
  rw [nWork, nWork, h1, Array.countP_set, h2]
  omega

theorem nWork_modify_same (a : Array Thr) (t : Nat) (f : Thr → Thr) (h : ∀ th, isW (f th) = isW th) :
    nWork (a.modify t f) = nWork a := by
  by_cases ht : t < a.size
  · have := nWork_modify a t f ht
    rw [h] at this; omega
  · have : a.modify t f = a := by
      apply Array.ext
      · simp
      · intro i h1 h2
        simp [Array.getElem_modify]; grind
    rw [this]

theorem nWork_push (a : Array Thr) (x : Thr) : nWork (a.push x) = nWork a + (if isW x then 1 else 0) := by
  simp [nWork, Array.countP_push]

theorem nWork_pos (a : Array Thr) (h : 0 < nWork a) : ∃ t, t < a.size ∧ isW a[t]! = true := by
  obtain ⟨x, hx, hp⟩ := Array.countP_pos_iff.mp h
  obtain ⟨i, hi, rfl⟩ := Array.mem_iff_getElem.mp hx
  exact ⟨i, hi, by rw [getElem!_pos a i hi]; exact hp⟩

theorem nWork_zero (a : Array Thr) (h : nWork a = 0) (t : Nat) (ht : t < a.size) : isW a[t]! = false := by
  have := Array.countP_eq_zero.mp h a[t] (by simp)
  rw [getElem!_pos a t ht]; simpa using this

/-! ### signals -/

def wakeDeq : HPc → HPc | .deq true => .deq false | h => h
def wakeWait (t : Nat) : HPc → HPc
  | .waitRes t' true => if t' = t then .waitRes t false else .waitRes t' true
  | h => h
def wakeC : CPc → CPc | .next true => .next false | .destroy true => .destroy false | c => c
def wakeW (th : Thr) : Thr := match th.pc with | .top true => { th with pc := .top false } | _ => th

theorem signalRq_eq (s : St) : signalRq s = { s with hpc := wakeDeq s.hpc } := by
  unfold signalRq wakeDeq; split <;> simp_all

theorem signalPool_eq (s : St) : signalPool s = { s with cpc := wakeC s.cpc } := by
  unfold signalPool wakeC; split <;> simp_all

theorem signalThr_eq (s : St) (t : Nat) :
    signalThr s t = { s with thr := s.thr.modify t wakeW, hpc := wakeWait t s.hpc } := by
  obtain ⟨max, njobs, ordered, thr, idle, count, queue, nthreads, finished, cpc, nextJob, hpc, delivered⟩ := s
  rcases hpc with (_|_)|⟨t', (_|_)⟩|_|_|_ <;> simp [signalThr, wakeWait, setThr] <;> first | rfl | skip
  · split <;> simp_all <;> rfl

/-! what waking changes -/
@[simp] theorem hHand_wakeDeq (h : HPc) : hHand (wakeDeq h) = hHand h := by
  rcases h with (_|_)|⟨t', (_|_)⟩|_|_|_ <;> rfl
@[simp] theorem hLoc_wakeDeq (h : HPc) : hLoc (wakeDeq h) = hLoc h := by
  rcases h with (_|_)|⟨t', (_|_)⟩|_|_|_ <;> rfl
@[simp] theorem hJob_wakeDeq (h : HPc) (a) : hJob (wakeDeq h) a = hJob h a := by
  rcases h with (_|_)|⟨t', (_|_)⟩|_|_|_ <;> rfl
@[simp] theorem wakeDeq_eq_wait (h : HPc) (t a) : wakeDeq h = .waitRes t a ↔ h = .waitRes t a := by
  rcases h with (_|_)|⟨t', (_|_)⟩|_|_|_ <;> simp [wakeDeq]
@[simp] theorem wakeDeq_eq_give (h : HPc) (t r) : wakeDeq h = .giveBack t r ↔ h = .giveBack t r := by
  rcases h with (_|_)|⟨t', (_|_)⟩|_|_|_ <;> simp [wakeDeq]
@[simp] theorem wakeDeq_eq_exited (h : HPc) : wakeDeq h = .exited ↔ h = .exited := by
  rcases h with (_|_)|⟨t', (_|_)⟩|_|_|_ <;> simp [wakeDeq]
@[simp] theorem wakeDeq_ne_sleep (h : HPc) : wakeDeq h ≠ .deq true := by
  rcases h with (_|_)|⟨t', (_|_)⟩|_|_|_ <;> simp [wakeDeq]

@[simp] theorem hHand_wakeWait (t) (h : HPc) : hHand (wakeWait t h) = hHand h := by
  rcases h with (_|_)|⟨t', (_|_)⟩|_|_|_ <;> try rfl
  by_cases h : t' = t <;> simp [wakeWait, hHand, h]
@[simp] theorem hLoc_wakeWait (t) (h : HPc) : hLoc (wakeWait t h) = hLoc h := by
  rcases h with (_|_)|⟨t', (_|_)⟩|_|_|_ <;> try rfl
  by_cases h : t' = t <;> simp [wakeWait, hLoc, h]
@[simp] theorem hJob_wakeWait (t) (h : HPc) (a) : hJob (wakeWait t h) a = hJob h a := by
  rcases h with (_|_)|⟨t', (_|_)⟩|_|_|_ <;> try rfl
  by_cases h : t' = t <;> simp [wakeWait, hJob, h]
theorem wakeWait_eq_wait (t) (h : HPc) (t' a) :
    wakeWait t h = .waitRes t' a ↔ (h = .waitRes t' a ∧ ¬ (t' = t ∧ a = true)) ∨ (h = .waitRes t' true ∧ t' = t ∧ a = false) := by
  rcases h with (_|_)|⟨t'', (_|_)⟩|_|_|_ <;> simp [wakeWait] <;> grind
@[simp] theorem wakeWait_eq_give (t) (h : HPc) (t' r) : wakeWait t h = .giveBack t' r ↔ h = .giveBack t' r := by
  rcases h with (_|_)|⟨t'', (_|_)⟩|_|_|_ <;> simp [wakeWait]
  by_cases h : t'' = t <;> simp [h]
@[simp] theorem wakeWait_eq_exited (t) (h : HPc) : wakeWait t h = .exited ↔ h = .exited := by
  rcases h with (_|_)|⟨t'', (_|_)⟩|_|_|_ <;> simp [wakeWait]
  by_cases h : t'' = t <;> simp [h]
@[simp] theorem wakeWait_eq_deq (t) (h : HPc) (a) : wakeWait t h = .deq a ↔ h = .deq a := by
  rcases h with (_|_)|⟨t'', (_|_)⟩|_|_|_ <;> simp [wakeWait]
  by_cases h : t'' = t <;> simp [h]

@[simp] theorem cHand_wakeC (c : CPc) (o) : cHand (wakeC c) o = cHand c o := by
  rcases c with (_|_)|_|_|_|_|_|(_|_)|_|_|_ <;> rfl
@[simp] theorem pend_wakeC (c : CPc) : pend (wakeC c) = pend c := by
  rcases c with (_|_)|_|_|_|_|_|(_|_)|_|_|_ <;> rfl
@[simp] theorem pendU_wakeC (c : CPc) (o) : pendU (wakeC c) o = pendU c o := by
  rcases c with (_|_)|_|_|_|_|_|(_|_)|_|_|_ <;> rfl
@[simp] theorem inDestroy_wakeC (c : CPc) : inDestroy (wakeC c) = inDestroy c := by
  rcases c with (_|_)|_|_|_|_|_|(_|_)|_|_|_ <;> rfl
@[simp] theorem afterFinish_wakeC (c : CPc) : afterFinish (wakeC c) = afterFinish c := by
  rcases c with (_|_)|_|_|_|_|_|(_|_)|_|_|_ <;> rfl
@[simp] theorem wakeC_eq_assign (c : CPc) (t) : wakeC c = .assign t ↔ c = .assign t := by
  rcases c with (_|_)|_|_|_|_|_|(_|_)|_|_|_ <;> simp [wakeC]
@[simp] theorem wakeC_eq_kill (c : CPc) (t) : wakeC c = .kill t ↔ c = .kill t := by
  rcases c with (_|_)|_|_|_|_|_|(_|_)|_|_|_ <;> simp [wakeC]
@[simp] theorem wakeC_eq_enqueue (c : CPc) (t) : wakeC c = .enqueue t ↔ c = .enqueue t := by
  rcases c with (_|_)|_|_|_|_|_|(_|_)|_|_|_ <;> simp [wakeC]
@[simp] theorem wakeC_eq_joinW (c : CPc) (t) : wakeC c = .joinW t ↔ c = .joinW t := by
  rcases c with (_|_)|_|_|_|_|_|(_|_)|_|_|_ <;> simp [wakeC]
@[simp] theorem wakeC_eq_create (c : CPc) : wakeC c = .create ↔ c = .create := by
  rcases c with (_|_)|_|_|_|_|_|(_|_)|_|_|_ <;> simp [wakeC]
@[simp] theorem wakeC_eq_finish (c : CPc) : wakeC c = .finish ↔ c = .finish := by
  rcases c with (_|_)|_|_|_|_|_|(_|_)|_|_|_ <;> simp [wakeC]
@[simp] theorem wakeC_ne_next (c : CPc) : wakeC c ≠ .next true := by
  rcases c with (_|_)|_|_|_|_|_|(_|_)|_|_|_ <;> simp [wakeC]
@[simp] theorem wakeC_ne_destroy (c : CPc) : wakeC c ≠ .destroy true := by
  rcases c with (_|_)|_|_|_|_|_|(_|_)|_|_|_ <;> simp [wakeC]

/-- waking a worker changes only `pc` (`top true` to `top false`) -/
theorem wakeW_spec (th : Thr) :
    (wakeW th).running = th.running ∧ (wakeW th).cb = th.cb ∧ (wakeW th).res = th.res ∧ (wakeW th).rq = th.rq ∧
    (wakeW th).pc = (if th.pc = .top true then .top false else th.pc) := by
  unfold wakeW; split <;> simp_all

@[simp] theorem wakeW_running (th : Thr) : (wakeW th).running = th.running := (wakeW_spec th).1
@[simp] theorem wakeW_cb (th : Thr) : (wakeW th).cb = th.cb := (wakeW_spec th).2.1
@[simp] theorem wakeW_res (th : Thr) : (wakeW th).res = th.res := (wakeW_spec th).2.2.1
@[simp] theorem wakeW_rq (th : Thr) : (wakeW th).rq = th.rq := (wakeW_spec th).2.2.2.1
theorem wakeW_pc (th : Thr) : (wakeW th).pc = (if th.pc = .top true then .top false else th.pc) := (wakeW_spec th).2.2.2.2
@[simp] theorem jobOf_wakeW (th : Thr) : jobOf (wakeW th) = jobOf th := by simp [jobOf]
@[simp] theorem isW_wakeW (th : Thr) : isW (wakeW th) = isW th := by
  simp only [isW, wakeW_pc, wakeW_rq]; split <;> simp_all
  congr 1

end Tp
namespace Tp

theorem modify_modify (a : Array Thr) (t : Nat) (f g : Thr → Thr) :
    (a.modify t f).modify t g = a.modify t (fun th => g (f th)) := by
  apply Array.ext
  · simp
  · intro i h1 h2
    simp [Array.getElem_modify]; grind

/-- everything the proofs need to know about updating one record -/
theorem modify_spec (a : Array Thr) (t : Nat) (f : Thr → Thr) (ht : t < a.size) :
    (a.modify t f).size = a.size ∧ (a.modify t f)[t]! = f a[t]! ∧ (∀ u, u ≠ t → (a.modify t f)[u]! = a[u]!) ∧
    nWork (a.modify t f) + (if isW a[t]! then 1 else 0) = nWork a + (if isW (f a[t]!) then 1 else 0) := by
  refine ⟨by simp, ?_, ?_, nWork_modify a t f ht⟩
  · rw [get_modify]; simp [ht]
  · intro u hu; rw [get_modify]; simp [hu]

theorem push_spec (a : Array Thr) (x : Thr) :
    (a.push x).size = a.size + 1 ∧ (a.push x)[a.size]! = x ∧ (∀ u, u ≠ a.size → (a.push x)[u]! = a[u]!) ∧
    nWork (a.push x) = nWork a + (if isW x then 1 else 0) := by
  refine ⟨by simp, ?_, ?_, nWork_push a x⟩
  · rw [get_push]; simp
  · intro u hu; rw [get_push]; simp [hu]

theorem map_job_congr (a a' : Array Thr) (q : List Nat) (h : ∀ u ∈ q, jobOf a'[u]! = jobOf a[u]!) :
    q.map (fun u => jobOf a'[u]!) = q.map (fun u => jobOf a[u]!) :=
  List.map_congr_left h

theorem hJob_congr (a a' : Array Thr) (h : HPc) (hh : ∀ u, hHand h = some u → jobOf a'[u]! = jobOf a[u]!) :
    hJob h a' = hJob h a := by
  rcases h with (_|_)|⟨t', (_|_)⟩|_|_|_ <;> simp [hJob, hHand] at * <;> exact hh

end Tp
namespace Tp
theorem isTop_iff (p : WPc) : isTop p = true ↔ (p = .top true ∨ p = .top false) := by
  rcases p with (_|_)|_|_|_|_ <;> simp [isTop]
end Tp

namespace Tp
/-! evaluation of the vocabulary on constructors -/
theorem cHand_next {a} {o : Bool} : cHand (.next a) o = none := rfl
theorem cHand_create {o : Bool} : cHand .create o = none := rfl
theorem cHand_assign {t} {o : Bool} : cHand (.assign t) o = some t := rfl
theorem cHand_enqueue {t} {o : Bool} : cHand (.enqueue t) o = (if o then some t else none) := rfl
theorem cHand_finish {o : Bool} : cHand .finish o = none := rfl
theorem cHand_joinH {o : Bool} : cHand .joinH o = none := rfl
theorem cHand_destroy {a} {o : Bool} : cHand (.destroy a) o = none := rfl
theorem cHand_kill {t} {o : Bool} : cHand (.kill t) o = some t := rfl
theorem cHand_joinW {t} {o : Bool} : cHand (.joinW t) o = some t := rfl
theorem cHand_done {o : Bool} : cHand .done o = none := rfl
theorem pend_next {a} : pend (.next a) = 0 := rfl
theorem pend_create : pend .create = 0 := rfl
theorem pend_assign {t} : pend (.assign t) = 0 := rfl
theorem pend_enqueue {t} : pend (.enqueue t) = 1 := rfl
theorem pend_finish : pend .finish = 0 := rfl
theorem pend_joinH : pend .joinH = 0 := rfl
theorem pend_destroy {a} : pend (.destroy a) = 0 := rfl
theorem pend_kill {t} : pend (.kill t) = 0 := rfl
theorem pend_joinW {t} : pend (.joinW t) = 0 := rfl
theorem pend_done : pend .done = 0 := rfl
theorem pendU_next {a} {o : Bool} : pendU (.next a) o = 0 := rfl
theorem pendU_create {o : Bool} : pendU .create o = 0 := rfl
theorem pendU_assign {t} {o : Bool} : pendU (.assign t) o = 0 := rfl
theorem pendU_enqueue {t} {o : Bool} : pendU (.enqueue t) o = (if o then 0 else 1) := rfl
theorem pendU_finish {o : Bool} : pendU .finish o = 0 := rfl
theorem pendU_joinH {o : Bool} : pendU .joinH o = 0 := rfl
theorem pendU_destroy {a} {o : Bool} : pendU (.destroy a) o = 0 := rfl
theorem pendU_kill {t} {o : Bool} : pendU (.kill t) o = 0 := rfl
theorem pendU_joinW {t} {o : Bool} : pendU (.joinW t) o = 0 := rfl
theorem pendU_done {o : Bool} : pendU .done o = 0 := rfl
theorem inDestroy_next {a} : inDestroy (.next a) = false := rfl
theorem inDestroy_create : inDestroy .create = false := rfl
theorem inDestroy_assign {t} : inDestroy (.assign t) = false := rfl
theorem inDestroy_enqueue {t} : inDestroy (.enqueue t) = false := rfl
theorem inDestroy_finish : inDestroy .finish = false := rfl
theorem inDestroy_joinH : inDestroy .joinH = false := rfl
theorem inDestroy_destroy {a} : inDestroy (.destroy a) = true := rfl
theorem inDestroy_kill {t} : inDestroy (.kill t) = true := rfl
theorem inDestroy_joinW {t} : inDestroy (.joinW t) = true := rfl
theorem inDestroy_done : inDestroy .done = true := rfl
theorem afterFinish_next {a} : afterFinish (.next a) = false := rfl
theorem afterFinish_create : afterFinish .create = false := rfl
theorem afterFinish_assign {t} : afterFinish (.assign t) = false := rfl
theorem afterFinish_enqueue {t} : afterFinish (.enqueue t) = false := rfl
theorem afterFinish_finish : afterFinish .finish = false := rfl
theorem afterFinish_joinH : afterFinish .joinH = true := rfl
theorem afterFinish_destroy {a} : afterFinish (.destroy a) = true := rfl
theorem afterFinish_kill {t} : afterFinish (.kill t) = true := rfl
theorem afterFinish_joinW {t} : afterFinish (.joinW t) = true := rfl
theorem afterFinish_done : afterFinish .done = true := rfl
theorem hHand_deq {a} : hHand (.deq a) = none := rfl
theorem hHand_waitRes {t} {a} : hHand (.waitRes t a) = some t := rfl
theorem hHand_giveBack {t} {r} : hHand (.giveBack t r) = some t := rfl
theorem hHand_callback {r} : hHand (.callback r) = none := rfl
theorem hHand_exited : hHand .exited = none := rfl
theorem hLoc_deq {a} : hLoc (.deq a) = [] := rfl
theorem hLoc_waitRes {t} {a} : hLoc (.waitRes t a) = [] := rfl
theorem hLoc_giveBack {t} {r} : hLoc (.giveBack t r) = [r] := rfl
theorem hLoc_callback {r} : hLoc (.callback r) = [r] := rfl
theorem hLoc_exited : hLoc .exited = [] := rfl
theorem hJob_deq {a} {thr : Array Thr} : hJob (.deq a) thr = [] := rfl
theorem hJob_waitRes {t} {a} {thr : Array Thr} : hJob (.waitRes t a) thr = [jobOf thr[t]!] := rfl
theorem hJob_giveBack {t} {r} {thr : Array Thr} : hJob (.giveBack t r) thr = [r] := rfl
theorem hJob_callback {r} {thr : Array Thr} : hJob (.callback r) thr = [r] := rfl
theorem hJob_exited {thr : Array Thr} : hJob .exited thr = [] := rfl
end Tp
namespace Tp
theorem pendU_afterFinish {c : CPc} {o : Bool} (h : afterFinish c = true) : pendU c o = 0 := by
  rcases c with (_|_)|_|_|_|_|_|(_|_)|_|_|_ <;> simp_all [afterFinish, pendU]
theorem pend_afterFinish {c : CPc} (h : afterFinish c = true) : pend c = 0 := by
  rcases c with (_|_)|_|_|_|_|_|(_|_)|_|_|_ <;> simp_all [afterFinish, pend]
theorem inDestroy_afterFinish {c : CPc} (h : inDestroy c = true) : afterFinish c = true := by
  rcases c with (_|_)|_|_|_|_|_|(_|_)|_|_|_ <;> simp_all [afterFinish, inDestroy]
end Tp


/-! ## Part 3: where a record can be, given its shape -/

namespace Tp

theorem hHand_eq_some {h : HPc} {t : Nat} :
    hHand h = some t ↔ (∃ a, h = .waitRes t a) ∨ (∃ r, h = .giveBack t r) := by
  rcases h with (_|_)|⟨t', (_|_)⟩|_|_|_ <;> simp [hHand]

theorem cHand_eq_some {c : CPc} {o : Bool} {t : Nat} :
    cHand c o = some t ↔ c = .assign t ∨ (c = .enqueue t ∧ o = true) ∨ c = .kill t ∨ c = .joinW t := by
  rcases c with (_|_)|_|_|_|_|_|(_|_)|_|_|_ <;> simp [cHand]
  exact And.comm

/-- the record of the thread in the handler's hand -/
theorem Inv.shapeH {s : St} (h : Inv s) {t : Nat} (hh : hHand s.hpc = some t) :
    SQ s.ordered s.thr[t]! ∨ SIdle s.thr[t]! := by
  rcases hHand_eq_some.mp hh with ⟨a, ha⟩ | ⟨r, hr⟩
  · exact .inl (h.tWait t a ha).1
  · exact .inr (h.tGive t r hr)

/-- the record of the thread in the caller's hand -/
theorem Inv.shapeC {s : St} (h : Inv s) {t : Nat} (hc : cHand s.cpc s.ordered = some t) :
    SIdle s.thr[t]! ∨ SOrd s.thr[t]! ∨ SKill s.thr[t]! := by
  rcases cHand_eq_some.mp hc with ha | ⟨ha, ho⟩ | ha | ha
  · exact .inl (h.tAssign t ha)
  · exact .inr (.inl (h.tEnq t ha ho).1)
  · exact .inl (h.tKill t ha)
  · exact .inr (.inr (h.tJoinW t ha))

/-- a record that is in nobody's hand, not idle, not queued: unordered worker, or exited -/
theorem Inv.free {s : St} (h : Inv s) {t : Nat} (ht : t < s.thr.size)
    (h1 : ¬ SIdle s.thr[t]!) (h2 : ¬ SOrd s.thr[t]!) (h3 : ¬ SFin s.thr[t]!) (h4 : ¬ SKill s.thr[t]!) :
    t ∉ s.idle ∧ t ∉ s.queue ∧ hHand s.hpc ≠ some t ∧ cHand s.cpc s.ordered ≠ some t ∧
    ((s.ordered = false ∧ SWork s.thr[t]!) ∨ (SKill s.thr[t]! ∧ s.thr[t]!.pc = .exited ∧ inDestroy s.cpc = true)) := by
  have a1 : t ∉ s.idle := fun hi => h1 (h.tIdle t hi)
  have a2 : t ∉ s.queue := fun hi => by
    have := h.tQueue t hi; unfold SQ at this; split at this <;> contradiction
  have a3 : hHand s.hpc ≠ some t := fun hi => by
    rcases h.shapeH hi with hq | hq
    · unfold SQ at hq; split at hq <;> contradiction
    · contradiction
  have a4 : cHand s.cpc s.ordered ≠ some t := fun hi => by
    rcases h.shapeC hi with hq | hq | hq <;> contradiction
  refine ⟨a1, a2, a3, a4, ?_⟩
  rcases h.tPlace t ht with p | p | p | p | p | p
  · exact absurd p a1
  · exact absurd p a2
  · exact absurd p a3
  · exact absurd p a4
  · exact .inl p
  · exact .inr p

theorem Inv.selfEnq {s : St} (h : Inv s) {t : Nat} (ht : t < s.thr.size) (hp : s.thr[t]!.pc = .selfEnq) :
    t ∉ s.idle ∧ t ∉ s.queue ∧ hHand s.hpc ≠ some t ∧ cHand s.cpc s.ordered ≠ some t ∧
    s.ordered = false ∧ SWork s.thr[t]! := by
  have := h.free ht (by simp [SIdle, hp, isTop]) (by simp [SOrd, hp, isTop]) (by simp [SFin, hp, isTop])
    (by simp [SKill, hp])
  simp [hp] at this
  exact this

end Tp


/-! ## Part 4: proof automation for the preservation lemmas -/

namespace Tp

theorem jOrd_congr (thr thr' : Array Thr) (delivered : List (Option Nat)) (hpc : HPc) (queue : List Nat)
    (hq : ∀ u ∈ queue, jobOf thr'[u]! = jobOf thr[u]!) (hh : ∀ u, hHand hpc = some u → jobOf thr'[u]! = jobOf thr[u]!) :
    delivered ++ hJob hpc thr' ++ queue.map (fun t => jobOf thr'[t]!) =
    delivered ++ hJob hpc thr ++ queue.map (fun t => jobOf thr[t]!) := by
  rw [map_job_congr thr thr' queue hq, hJob_congr thr thr' hpc hh]

set_option hygiene false in
/-- bring all fields of the invariant into the context -/
macro "inv_fields" h:ident : tactic => `(tactic|
  (have maxPos := ($h).maxPos; have countLe := ($h).countLe; have sizeMain := ($h).sizeMain
   have sizeDestroy := ($h).sizeDestroy; have cnt := ($h).cnt; have nthr := ($h).nthr
   have idleLt := ($h).idleLt; have queueLt := ($h).queueLt; have cHandLt := ($h).cHandLt
   have hHandLt := ($h).hHandLt; have idleNodup := ($h).idleNodup; have queueNodup := ($h).queueNodup
   have cNotIdle := ($h).cNotIdle; have cNotQueue := ($h).cNotQueue; have hNotIdle := ($h).hNotIdle
   have hNotQueue := ($h).hNotQueue; have chDisj := ($h).chDisj
   have tIdle := ($h).tIdle; have tAssign := ($h).tAssign; have tKill := ($h).tKill; have tEnq := ($h).tEnq
   have tQueue := ($h).tQueue; have tWait := ($h).tWait; have tGive := ($h).tGive; have tJoinW := ($h).tJoinW
   have tPlace := ($h).tPlace
   have jobsLe := ($h).jobsLe; have jobsLt := ($h).jobsLt; have jobsDone := ($h).jobsDone; have finIff := ($h).finIff
   have hExit := ($h).hExit; have destroyH := ($h).destroyH; have deqSleep := ($h).deqSleep
   have nextSleep := ($h).nextSleep; have destroySleep := ($h).destroySleep
   have jDel := ($h).jDel; have jNodup := ($h).jNodup; have jThr := ($h).jThr; have jInj := ($h).jInj
   have jAll := ($h).jAll; have jOrd := ($h).jOrd
   clear $h))

set_option hygiene false in
macro "clrA" : tactic => `(tactic| clear maxPos countLe sizeMain sizeDestroy cnt nthr)
set_option hygiene false in
macro "clrP" : tactic => `(tactic|
  clear idleLt queueLt cHandLt hHandLt idleNodup queueNodup cNotIdle cNotQueue hNotIdle hNotQueue chDisj)
set_option hygiene false in
macro "clrT" : tactic => `(tactic| clear tIdle tAssign tKill tEnq tQueue tWait tGive tJoinW)
set_option hygiene false in
macro "clrX" : tactic => `(tactic| clear tPlace)
set_option hygiene false in
macro "clrF" : tactic => `(tactic|
  clear jobsLe jobsLt jobsDone finIff hExit destroyH deqSleep nextSleep destroySleep)
set_option hygiene false in
macro "clrJ" : tactic => `(tactic| clear jDel jNodup jThr jInj jAll)
set_option hygiene false in
macro "clrO" : tactic => `(tactic| clear jOrd)

macro "grA" : tactic => `(tactic| (clrP; clrT; clrX; clrJ; clrO; grind [o2n, isW, SIdle, SOrd, SFin, SWork, SKill, isTop_iff]))
macro "grP1" : tactic => `(tactic| (clrA; clrT; clrX; clrF; clrJ; clrO; grind [hHand]))
macro "grP2" : tactic => `(tactic| (clrA; clrX; clrF; clrJ; clrO; grind [hHand, SIdle, SQ, SOrd, SFin, SWork, SKill, isTop_iff, cHand_assign, cHand_enqueue, cHand_kill, cHand_joinW]))
macro "grT" : tactic => `(tactic| (clrA; clrX; clrF; clrJ; clrO; grind [hHand, SIdle, SQ, SOrd, SFin, SWork, SKill, isTop_iff, jobOf, cHand_assign, cHand_enqueue, cHand_kill, cHand_joinW]))
macro "grX" : tactic => `(tactic| (clrA; clrF; clrJ; clrO; grind [hHand, SIdle, SQ, SOrd, SFin, SWork, SKill, isTop_iff, cHand_assign, cHand_enqueue, cHand_kill, cHand_joinW]))
macro "grF" : tactic => `(tactic| (clrP; clrT; clrX; clrJ; clrO; grind [o2n, isW]))
macro "grJ1" : tactic => `(tactic| (clrA; clrP; clrT; clrX; clrF; clrO; grind [hLoc, jobOf]))
macro "grJ2" : tactic => `(tactic| (clrA; clrX; clrF; clrO; grind [hLoc, hHand, jobOf, SIdle, SQ, SOrd, SFin, SWork, SKill]))

set_option hygiene false in
macro "st_cases" s:ident : tactic => `(tactic|
  obtain ⟨max, njobs, ordered, thr, idle, count, queue, nthreads, finished, cpc, nextJob, hpc, delivered⟩ := $s)

/-- normalise the invariant's fields once the program counters are known -/
macro "inv_norm" : tactic => `(tactic|
  simp only [cHand_next, cHand_create, cHand_assign, cHand_enqueue, cHand_finish, cHand_joinH, cHand_destroy, cHand_kill, cHand_joinW, cHand_done, pend_next, pend_create, pend_assign, pend_enqueue, pend_finish, pend_joinH, pend_destroy, pend_kill, pend_joinW, pend_done, pendU_next, pendU_create, pendU_assign, pendU_enqueue, pendU_finish, pendU_joinH, pendU_destroy, pendU_kill, pendU_joinW, pendU_done, inDestroy_next, inDestroy_create, inDestroy_assign, inDestroy_enqueue, inDestroy_finish, inDestroy_joinH, inDestroy_destroy, inDestroy_kill, inDestroy_joinW, inDestroy_done, afterFinish_next, afterFinish_create, afterFinish_assign, afterFinish_enqueue, afterFinish_finish, afterFinish_joinH, afterFinish_destroy, afterFinish_kill, afterFinish_joinW, afterFinish_done, hHand_deq, hHand_waitRes, hHand_giveBack, hHand_callback, hHand_exited, hLoc_deq, hLoc_waitRes, hLoc_giveBack, hLoc_callback, hLoc_exited, hJob_deq, hJob_waitRes, hJob_giveBack, hJob_callback, hJob_exited, List.mem_cons, forall_eq_or_imp, List.nodup_cons,
    List.length_cons, List.length_nil, List.not_mem_nil, reduceCtorEq, false_implies, implies_true, forall_const,
    true_implies, forall_eq', forall_eq, CPc.assign.injEq, CPc.enqueue.injEq, CPc.kill.injEq,
    CPc.joinW.injEq, CPc.next.injEq, CPc.destroy.injEq, HPc.deq.injEq, HPc.waitRes.injEq, HPc.giveBack.injEq,
    HPc.callback.injEq, Bool.false_eq_true, Bool.true_eq_false, List.append_nil, Option.some.injEq, and_imp, or_true, true_or, or_false, false_or] at *)

set_option hygiene false in
/-- `jOrd` when no record changes its job -/
macro "jord_same" : tactic => `(tactic|
  (intro ho
   rw [jOrd_congr thr thr' _ _ _ (by clrA; clrX; clrF; clrJ; clrO; grind [jobOf, SIdle])
     (by clrA; clrX; clrF; clrJ; clrO; grind [jobOf, SIdle])]
   exact jOrd ho))

/-- split `Inv s'` into its fields and try the standard automation on each of them; what cannot be
    closed is left -/
macro "inv_split" : tactic => `(tactic|
  (constructor
   all_goals try simp only [cHand_next, cHand_create, cHand_assign, cHand_enqueue, cHand_finish, cHand_joinH, cHand_destroy, cHand_kill, cHand_joinW, cHand_done, pend_next, pend_create, pend_assign, pend_enqueue, pend_finish, pend_joinH, pend_destroy, pend_kill, pend_joinW, pend_done, pendU_next, pendU_create, pendU_assign, pendU_enqueue, pendU_finish, pendU_joinH, pendU_destroy, pendU_kill, pendU_joinW, pendU_done, inDestroy_next, inDestroy_create, inDestroy_assign, inDestroy_enqueue, inDestroy_finish, inDestroy_joinH, inDestroy_destroy, inDestroy_kill, inDestroy_joinW, inDestroy_done, afterFinish_next, afterFinish_create, afterFinish_assign, afterFinish_enqueue, afterFinish_finish, afterFinish_joinH, afterFinish_destroy, afterFinish_kill, afterFinish_joinW, afterFinish_done, hHand_deq, hHand_waitRes, hHand_giveBack, hHand_callback, hHand_exited, hLoc_deq, hLoc_waitRes, hLoc_giveBack, hLoc_callback, hLoc_exited, hJob_deq, hJob_waitRes, hJob_giveBack, hJob_callback, hJob_exited, wakeWait_eq_wait, wakeWait_eq_give, wakeWait_eq_exited, wakeWait_eq_deq, hHand_wakeWait, hLoc_wakeWait, hJob_wakeWait, hHand_wakeDeq, hLoc_wakeDeq, hJob_wakeDeq, wakeDeq_eq_wait, wakeDeq_eq_give, wakeDeq_eq_exited, wakeDeq_ne_sleep, cHand_wakeC, pend_wakeC, pendU_wakeC, inDestroy_wakeC, afterFinish_wakeC, wakeC_eq_assign, wakeC_eq_kill, wakeC_eq_enqueue, wakeC_eq_joinW, wakeC_eq_create, wakeC_eq_finish, wakeC_ne_next, wakeC_ne_destroy, List.mem_cons, forall_eq_or_imp, List.nodup_cons, CPc.assign.injEq, CPc.enqueue.injEq, CPc.kill.injEq, CPc.joinW.injEq, CPc.next.injEq, CPc.destroy.injEq, HPc.deq.injEq, HPc.waitRes.injEq, HPc.giveBack.injEq, HPc.callback.injEq, Option.some.injEq, and_imp, List.append_nil, Bool.false_eq_true, false_implies, reduceCtorEq, or_true, true_or, or_false, false_or, true_implies]
   all_goals try (first
     | assumption
     | (case countLe => grA) | (case sizeMain => grA) | (case sizeDestroy => grA) | (case cnt => grA)
     | (case nthr => grA)
     | (case idleLt => first | grP1 | grP2) | (case queueLt => first | grP1 | grP2)
     | (case cHandLt => first | grP1 | grP2) | (case hHandLt => first | grP1 | grP2)
     | (case idleNodup => first | grP1 | grP2) | (case queueNodup => first | grP1 | grP2)
     | (case cNotIdle => first | grP1 | grP2) | (case cNotQueue => first | grP1 | grP2)
     | (case hNotIdle => first | grP1 | grP2) | (case hNotQueue => first | grP1 | grP2)
     | (case chDisj => first | grP1 | grP2)
     | (case tIdle => grT) | (case tAssign => grT) | (case tKill => grT) | (case tEnq => grT)
     | (case tQueue => grT) | (case tWait => grT) | (case tGive => grT) | (case tJoinW => grT)
     | (case tPlace => grX)
     | (case jobsLe => grF) | (case jobsLt => grF) | (case jobsDone => grF) | (case finIff => grF)
     | (case hExit => grF) | (case destroyH => grF) | (case deqSleep => grF) | (case nextSleep => grF)
     | (case destroySleep => grF)
     | (case jDel => first | grJ1 | grJ2) | (case jNodup => first | grJ1 | grJ2)
     | (case jThr => first | grJ1 | grJ2) | (case jInj => first | grJ1 | grJ2)
     | (case jAll => first | grJ1 | grJ2))))

end Tp


/-! ## Part 5: the caller's steps preserve the invariant -/

namespace Tp

theorem inv_c1 {s : St} (h : Inv s) (hc : s.cpc = .next false) (hj : s.nextJob ≥ s.njobs) :
    Inv { s with cpc := .finish } := by
  st_cases s; simp only at hc hj; subst hc
  inv_fields h; inv_norm
  inv_split

theorem inv_c2 {s : St} (h : Inv s) (hc : s.cpc = .next false) (hj : ¬ s.nextJob ≥ s.njobs) (t : Nat) (rest : List Nat)
    (hi : s.idle = t :: rest) : Inv { s with idle := rest, cpc := .assign t } := by
  st_cases s; simp only at hc hi hj; subst hc hi
  inv_fields h; inv_norm
  inv_split

theorem inv_c3 {s : St} (h : Inv s) (hc : s.cpc = .next false) (hj : ¬ s.nextJob ≥ s.njobs)
    (hi : s.idle = []) (hm : s.count = s.max) : Inv { s with cpc := .next true } := by
  st_cases s; simp only at hc hi hj hm; subst hc hi
  inv_fields h; inv_norm
  inv_split

theorem inv_c4 {s : St} (h : Inv s) (hc : s.cpc = .next false) (hj : ¬ s.nextJob ≥ s.njobs)
    (hi : s.idle = []) (hm : ¬ s.count = s.max) : Inv { s with count := s.count + 1, cpc := .create } := by
  st_cases s; simp only at hc hi hj hm; subst hc hi
  inv_fields h; inv_norm
  inv_split

theorem inv_c5 {s : St} (h : Inv s) (hc : s.cpc = .create) :
    Inv { s with thr := s.thr.push {}, cpc := .assign s.thr.size } := by
  st_cases s; simp only at hc; subst hc
  inv_fields h; inv_norm
  obtain ⟨hsz, hget, hne, hnw⟩ := push_spec thr {}
  generalize thr.push {} = thr' at *
  have h1 : SIdle thr'[thr.size]! := by rw [hget]; simp [SIdle, isTop]
  have h2 : jobOf thr'[thr.size]! = none := by rw [hget]; rfl
  inv_split
  case jOrd =>
    intro ho
    rw [jOrd_congr thr thr' _ _ _ (by grind) (by grind)]
    exact jOrd ho

theorem inv_c6 {s : St} (h : Inv s) (t : Nat) (hc : s.cpc = .assign t) :
    Inv { signalThr (setThr s t fun th => { th with rq := !s.ordered, cb := some s.nextJob, running := true }) t
            with cpc := .enqueue t } := by
  st_cases s; simp only at hc; subst hc
  inv_fields h; inv_norm
  simp only [signalThr_eq, setThr, modify_modify]
  obtain ⟨hsz, hget, hne, hnw⟩ := modify_spec thr t (fun th => wakeW { th with rq := !ordered, cb := some nextJob, running := true }) cHandLt
  generalize thr.modify t (fun th => wakeW { th with rq := !ordered, cb := some nextJob, running := true }) = thr' at *
  generalize hth' : wakeW { thr[t]! with rq := !ordered, cb := some nextJob, running := true } = th' at *
  have h1 : th'.running = true := by rw [← hth']; simp
  have h2 : th'.cb = some nextJob := by rw [← hth']; simp
  have h3 : th'.res = thr[t]!.res := by rw [← hth']; simp
  have h4 : th'.rq = !ordered := by rw [← hth']; simp
  have h5 : th'.pc = .top false := by rw [← hth', wakeW_pc]; grind [SIdle, isTop_iff]
  clear hth'
  have hid := tAssign
  inv_split
  case jOrd =>
    intro ho
    rw [jOrd_congr thr thr' _ _ _ (by grind) (by grind)]
    exact jOrd ho

theorem inv_c7o {s : St} (h : Inv s) (t : Nat) (hc : s.cpc = .enqueue t) (ho : s.ordered = true) :
    Inv { signalRq { s with nthreads := s.nthreads + 1, queue := s.queue ++ [t] } with
            cpc := .next false, nextJob := s.nextJob + 1 } := by
  st_cases s; simp only at hc ho; subst hc ho
  inv_fields h; inv_norm
  simp only [signalRq_eq]
  inv_split
  case jOrd =>
    rw [List.range_succ, List.map_append, List.map_append, ← List.append_assoc, jOrd]
    simp only [List.map_cons, List.map_nil, tEnq.2]

theorem inv_c7u {s : St} (h : Inv s) (t : Nat) (hc : s.cpc = .enqueue t) (ho : s.ordered = false) :
    Inv { s with nthreads := s.nthreads + 1, cpc := .next false, nextJob := s.nextJob + 1 } := by
  st_cases s; simp only at hc ho; subst hc ho
  inv_fields h; inv_norm
  inv_split

theorem inv_c8 {s : St} (h : Inv s) (hc : s.cpc = .finish) :
    Inv (signalRq { s with finished := true, cpc := .joinH }) := by
  st_cases s; simp only at hc; subst hc
  inv_fields h; inv_norm
  simp only [signalRq_eq]
  inv_split

theorem inv_c9 {s : St} (h : Inv s) (hc : s.cpc = .joinH) (hh : s.hpc = .exited) :
    Inv { s with cpc := .destroy false } := by
  st_cases s; simp only at hc hh; subst hc hh
  inv_fields h; inv_norm
  inv_split

theorem inv_c10 {s : St} (h : Inv s) (hc : s.cpc = .destroy false) (h0 : s.count = 0) :
    Inv { s with cpc := .done } := by
  st_cases s; simp only at hc h0; subst hc
  inv_fields h; inv_norm
  inv_split

theorem inv_c11 {s : St} (h : Inv s) (hc : s.cpc = .destroy false) (h0 : ¬ s.count = 0) (hi : s.idle = []) :
    Inv { s with cpc := .destroy true } := by
  st_cases s; simp only at hc h0 hi; subst hc hi
  inv_fields h; inv_norm
  inv_split

theorem inv_c12 {s : St} (h : Inv s) (hc : s.cpc = .destroy false) (h0 : ¬ s.count = 0) (t : Nat) (rest : List Nat)
    (hi : s.idle = t :: rest) : Inv { s with idle := rest, cpc := .kill t } := by
  st_cases s; simp only at hc h0 hi; subst hc hi
  inv_fields h; inv_norm
  inv_split

theorem inv_c13 {s : St} (h : Inv s) (t : Nat) (hc : s.cpc = .kill t) :
    Inv { signalThr (setThr s t fun th => { th with running := true }) t with cpc := .joinW t } := by
  st_cases s; simp only at hc; subst hc
  inv_fields h; inv_norm
  simp only [signalThr_eq, setThr, modify_modify]
  obtain ⟨hsz, hget, hne, hnw⟩ := modify_spec thr t (fun th => wakeW { th with running := true }) cHandLt
  generalize thr.modify t (fun th => wakeW { th with running := true }) = thr' at *
  generalize hth' : wakeW { thr[t]! with running := true } = th' at *
  have h1 : th'.running = true := by rw [← hth']; simp
  have h2 : th'.cb = thr[t]!.cb := by rw [← hth']; simp
  have h3 : th'.res = thr[t]!.res := by rw [← hth']; simp
  have h4 : th'.rq = thr[t]!.rq := by rw [← hth']; simp
  have h5 : th'.pc = .top false := by rw [← hth', wakeW_pc]; grind [SIdle, isTop_iff]
  clear hth'
  inv_split
  case jOrd =>
    intro ho
    rw [jOrd_congr thr thr' _ _ _ (by grind) (by grind)]
    exact jOrd ho

theorem inv_c14 {s : St} (h : Inv s) (t : Nat) (hc : s.cpc = .joinW t) (he : (s.thr[t]!).pc = .exited) :
    Inv { s with count := s.count - 1, cpc := .destroy false } := by
  st_cases s; simp only at hc he; subst hc
  inv_fields h; inv_norm
  inv_split

end Tp


/-! ## Part 6: the result handler's steps preserve the invariant -/

namespace Tp

theorem inv_h1 {s : St} (h : Inv s) (hh : s.hpc = .deq false) (t : Nat) (rest : List Nat) (hq : s.queue = t :: rest) :
    Inv { s with queue := rest, nthreads := s.nthreads - 1, hpc := .waitRes t false } := by
  st_cases s; simp only at hh hq; subst hh hq
  inv_fields h; inv_norm
  inv_split
  case jOrd =>
    intro ho
    have := jOrd ho
    simpa using this

theorem inv_h2 {s : St} (h : Inv s) (hh : s.hpc = .deq false) (hq : s.queue = [])
    (hf : (s.finished && s.nthreads == 0) = true) : Inv { s with hpc := .exited } := by
  st_cases s; simp only at hh hq hf; subst hh hq
  inv_fields h; inv_norm
  inv_split

theorem inv_h3 {s : St} (h : Inv s) (hh : s.hpc = .deq false) (hq : s.queue = [])
    (hf : ¬ (s.finished && s.nthreads == 0) = true) : Inv { s with hpc := .deq true } := by
  st_cases s; simp only at hh hq hf; subst hh hq
  inv_fields h; inv_norm
  inv_split

theorem inv_h4 {s : St} (h : Inv s) (t : Nat) (hh : s.hpc = .waitRes t false) (hr : (s.thr[t]!).running = true) :
    Inv { s with hpc := .waitRes t true } := by
  st_cases s; simp only at hh hr; subst hh
  inv_fields h; inv_norm
  inv_split

theorem inv_h5 {s : St} (h : Inv s) (t : Nat) (hh : s.hpc = .waitRes t false) (hr : ¬ (s.thr[t]!).running = true) :
    Inv { (setThr s t fun th => { th with res := none }) with hpc := .giveBack t (s.thr[t]!).res } := by
  st_cases s; simp only at hh hr; subst hh
  inv_fields h; inv_norm
  simp only [setThr]
  obtain ⟨hsz, hget, hne, hnw⟩ := modify_spec thr t (fun th => { th with res := none }) hHandLt
  generalize thr.modify t (fun th => { th with res := none }) = thr' at *
  have hs : SFin thr[t]! := by grind [SQ, SOrd, SFin]
  obtain ⟨j, hj⟩ : ∃ j, thr[t]!.res = some j := Option.ne_none_iff_exists'.mp hs.2.2.2.1
  have hjo : jobOf thr[t]! = some j := by simp [jobOf, hs.2.2.1, hj]
  inv_split
  case jOrd =>
    intro ho
    rw [map_job_congr thr thr' _ (by grind), hj, ← hjo]
    exact jOrd ho

theorem inv_h6 {s : St} (h : Inv s) (t : Nat) (r : Option Nat) (hh : s.hpc = .giveBack t r) :
    Inv (signalPool { s with idle := t :: s.idle, hpc := .callback r }) := by
  st_cases s; simp only at hh; subst hh
  inv_fields h; inv_norm
  simp only [signalPool_eq]
  inv_split

theorem inv_h7 {s : St} (h : Inv s) (r : Option Nat) (hh : s.hpc = .callback r) :
    Inv { s with delivered := s.delivered ++ [r], hpc := .deq false } := by
  st_cases s; simp only at hh; subst hh
  inv_fields h; inv_norm
  inv_split

end Tp


/-! ## Part 7: the workers' steps preserve the invariant -/

namespace Tp

theorem inv_w1 {s : St} (h : Inv s) (t : Nat) (ht : t < s.thr.size) (hp : (s.thr[t]!).pc = .top false)
    (hr : (s.thr[t]!).running = true) : Inv (setThr s t fun th => { th with pc := .gotJob }) := by
  st_cases s; simp only at ht hp hr
  inv_fields h; inv_norm
  simp only [setThr]
  obtain ⟨hsz, hget, hne, hnw⟩ := modify_spec thr t (fun th => { th with pc := .gotJob }) ht
  generalize thr.modify t (fun th => { th with pc := .gotJob }) = thr' at *
  inv_split
  case jOrd => jord_same

theorem inv_w2 {s : St} (h : Inv s) (t : Nat) (ht : t < s.thr.size) (hp : (s.thr[t]!).pc = .top false)
    (hr : ¬ (s.thr[t]!).running = true) : Inv (setThr s t fun th => { th with pc := .top true }) := by
  st_cases s; simp only at ht hp hr
  inv_fields h; inv_norm
  simp only [setThr]
  obtain ⟨hsz, hget, hne, hnw⟩ := modify_spec thr t (fun th => { th with pc := .top true }) ht
  generalize thr.modify t (fun th => { th with pc := .top true }) = thr' at *
  inv_split
  case jOrd => jord_same

theorem inv_w3 {s : St} (h : Inv s) (t : Nat) (ht : t < s.thr.size) (hp : (s.thr[t]!).pc = .gotJob)
    (hcb : (s.thr[t]!).cb = none) : Inv (setThr s t fun th => { th with pc := .exited }) := by
  st_cases s; simp only at ht hp hcb
  inv_fields h; inv_norm
  simp only [setThr]
  obtain ⟨hsz, hget, hne, hnw⟩ := modify_spec thr t (fun th => { th with pc := .exited }) ht
  generalize thr.modify t (fun th => { th with pc := .exited }) = thr' at *
  inv_split
  case jOrd => jord_same

theorem inv_w4 {s : St} (h : Inv s) (t : Nat) (ht : t < s.thr.size) (hp : (s.thr[t]!).pc = .gotJob) (j : Nat)
    (hcb : (s.thr[t]!).cb = some j) (hrq : (s.thr[t]!).rq = true) :
    Inv (setThr s t fun th => { th with res := some j, cb := none, rq := false, running := false, pc := .selfEnq }) := by
  st_cases s; simp only at ht hp hcb hrq
  inv_fields h; inv_norm
  simp only [setThr]
  obtain ⟨hsz, hget, hne, hnw⟩ := modify_spec thr t (fun th => { th with res := some j, cb := none, rq := false, running := false, pc := .selfEnq }) ht
  generalize thr.modify t (fun th => { th with res := some j, cb := none, rq := false, running := false, pc := .selfEnq }) = thr' at *
  inv_split
  case jOrd => jord_same

theorem inv_w5 {s : St} (h : Inv s) (t : Nat) (ht : t < s.thr.size) (hp : (s.thr[t]!).pc = .gotJob) (j : Nat)
    (hcb : (s.thr[t]!).cb = some j) (hrq : ¬ (s.thr[t]!).rq = true) :
    Inv (setThr s t fun th => { th with res := some j, cb := none, pc := .doneOrd }) := by
  st_cases s; simp only at ht hp hcb hrq
  inv_fields h; inv_norm
  simp only [setThr]
  obtain ⟨hsz, hget, hne, hnw⟩ := modify_spec thr t (fun th => { th with res := some j, cb := none, pc := .doneOrd }) ht
  generalize thr.modify t (fun th => { th with res := some j, cb := none, pc := .doneOrd }) = thr' at *
  inv_split
  case jOrd => jord_same

theorem inv_w6 {s : St} (h : Inv s) (t : Nat) (ht : t < s.thr.size) (hp : (s.thr[t]!).pc = .selfEnq) :
    Inv (signalRq { (setThr s t fun th => { th with pc := .top false }) with queue := s.queue ++ [t] }) := by
  obtain ⟨hni, hnq, hnh, hnc, ho, hs⟩ := h.selfEnq ht hp
  st_cases s; simp only at ht hp hni hnq hnh hnc ho hs; subst ho
  inv_fields h; inv_norm
  simp only [setThr, signalRq_eq]
  obtain ⟨hsz, hget, hne, hnw⟩ := modify_spec thr t (fun th => { th with pc := .top false }) ht
  generalize thr.modify t (fun th => { th with pc := .top false }) = thr' at *
  inv_split
  case hExit =>
    intro he
    have h1 := hExit he
    have h2 := pendU_afterFinish (o := false) h1.1
    clrP; clrT; clrX; clrJ; clrO; clrF
    grind [isW, SWork]

theorem inv_w7 {s : St} (h : Inv s) (t : Nat) (ht : t < s.thr.size) (hp : (s.thr[t]!).pc = .doneOrd) :
    Inv (signalThr (setThr s t fun th => { th with running := false, pc := .top false }) t) := by
  st_cases s; simp only at ht hp
  inv_fields h; inv_norm
  simp only [setThr, signalThr_eq, modify_modify]
  obtain ⟨hsz, hget, hne, hnw⟩ := modify_spec thr t (fun th => wakeW { th with running := false, pc := .top false }) ht
  generalize thr.modify t (fun th => wakeW { th with running := false, pc := .top false }) = thr' at *
  have hw : wakeW { thr[t]! with running := false, pc := .top false } = { thr[t]! with running := false, pc := .top false } := rfl
  rw [hw] at hget hnw
  inv_split
  case jOrd => jord_same

end Tp


/-! ## Part 8: spurious wake-ups, initial state -/

namespace Tp

theorem inv_s1 {s : St} (h : Inv s) (hc : s.cpc = .next true) : Inv { s with cpc := .next false } := by
  st_cases s; simp only at hc; subst hc
  inv_fields h; inv_norm
  inv_split

theorem inv_s2 {s : St} (h : Inv s) (hc : s.cpc = .destroy true) : Inv { s with cpc := .destroy false } := by
  st_cases s; simp only at hc; subst hc
  inv_fields h; inv_norm
  inv_split

theorem inv_s3 {s : St} (h : Inv s) (hh : s.hpc = .deq true) : Inv { s with hpc := .deq false } := by
  st_cases s; simp only at hh; subst hh
  inv_fields h; inv_norm
  inv_split

theorem inv_s4 {s : St} (h : Inv s) (t : Nat) (hh : s.hpc = .waitRes t true) : Inv { s with hpc := .waitRes t false } := by
  st_cases s; simp only at hh; subst hh
  inv_fields h; inv_norm
  inv_split

theorem inv_s5 {s : St} (h : Inv s) (t : Nat) (ht : t < s.thr.size) (hp : (s.thr[t]!).pc = .top true) :
    Inv (setThr s t fun th => { th with pc := .top false }) := by
  st_cases s; simp only at ht hp
  inv_fields h; inv_norm
  simp only [setThr]
  obtain ⟨hsz, hget, hne, hnw⟩ := modify_spec thr t (fun th => { th with pc := .top false }) ht
  generalize thr.modify t (fun th => { th with pc := .top false }) = thr' at *
  inv_split
  case jOrd => jord_same

theorem inv_init (max njobs : Nat) (ordered : Bool) (hm : 1 ≤ max) : Inv (init max njobs ordered) := by
  constructor <;> simp [init, inDestroy, cHand, hHand, hLoc, hJob, pend, pendU, afterFinish, nWork, o2n]
  all_goals first | omega | skip

end Tp


/-! ## Part 9: the invariant holds in every reachable state -/

namespace Tp

theorem inv_stepCaller {s s' : St} (h : Inv s) (hs : stepCaller s = some s') : Inv s' := by
  unfold stepCaller at hs
  split at hs
  · simp at hs
  · rename_i hc
    split at hs
    · cases hs; exact inv_c1 h hc (by assumption)
    · split at hs
      · rename_i t rest hi; cases hs; exact inv_c2 h hc (by assumption) t rest hi
      · rename_i hi
        split at hs
        · cases hs; exact inv_c3 h hc (by assumption) hi (by assumption)
        · cases hs; exact inv_c4 h hc (by assumption) hi (by assumption)
  · rename_i hc; cases hs; exact inv_c5 h hc
  · rename_i t hc; cases hs; exact inv_c6 h t hc
  · rename_i t hc
    cases ho : s.ordered
    · simp [ho] at hs; cases hs
      have := inv_c7u h t hc ho
      simpa [ho] using this
    · simp [ho] at hs; cases hs
      have := inv_c7o h t hc ho
      simpa [signalRq_eq, ho] using this
  · rename_i hc; cases hs; exact inv_c8 h hc
  · rename_i hc
    split at hs
    · cases hs; exact inv_c9 h hc (by assumption)
    · simp at hs
  · simp at hs
  · rename_i hc
    split at hs
    · cases hs; exact inv_c10 h hc (by assumption)
    · split at hs
      · rename_i hi; cases hs; exact inv_c11 h hc (by assumption) hi
      · rename_i t rest hi; cases hs; exact inv_c12 h hc (by assumption) t rest hi
  · rename_i t hc; cases hs; exact inv_c13 h t hc
  · rename_i t hc
    split at hs
    · cases hs; exact inv_c14 h t hc (by assumption)
    · simp at hs
  · simp at hs

theorem inv_stepWorker {s s' : St} (t : Nat) (h : Inv s) (hs : stepWorker s t = some s') : Inv s' := by
  unfold stepWorker at hs
  split at hs
  · rename_i ht
    simp only at hs
    split at hs
    · simp at hs
    · rename_i hp
      split at hs
      · cases hs; exact inv_w1 h t ht hp (by assumption)
      · cases hs; exact inv_w2 h t ht hp (by assumption)
    · rename_i hp
      split at hs
      · rename_i hcb; cases hs; exact inv_w3 h t ht hp hcb
      · rename_i j hcb
        split at hs
        · cases hs; exact inv_w4 h t ht hp j hcb (by assumption)
        · cases hs; exact inv_w5 h t ht hp j hcb (by assumption)
    · rename_i hp; cases hs; exact inv_w6 h t ht hp
    · rename_i hp; cases hs; exact inv_w7 h t ht hp
    · simp at hs
  · simp at hs

theorem inv_stepHandler {s s' : St} (h : Inv s) (hs : stepHandler s = some s') : Inv s' := by
  unfold stepHandler at hs
  split at hs
  · simp at hs
  · rename_i hh
    split at hs
    · rename_i t rest hq; cases hs; exact inv_h1 h hh t rest hq
    · rename_i hq
      split at hs
      · cases hs; exact inv_h2 h hh hq (by assumption)
      · cases hs; exact inv_h3 h hh hq (by assumption)
  · simp at hs
  · rename_i t hh
    split at hs
    · cases hs; exact inv_h4 h t hh (by assumption)
    · cases hs; exact inv_h5 h t hh (by assumption)
  · rename_i t r hh; cases hs; exact inv_h6 h t r hh
  · rename_i r hh; cases hs; exact inv_h7 h r hh
  · simp at hs

theorem inv_step {s s' : St} {l : Lbl} (h : Inv s) (hs : step s l = some s') : Inv s' := by
  unfold step at hs
  split at hs
  · exact inv_stepCaller h hs
  · exact inv_stepHandler h hs
  · exact inv_stepWorker _ h hs
  · split at hs
    · rename_i hc; cases hs; exact inv_s1 h hc
    · rename_i hc; cases hs; exact inv_s2 h hc
    · simp at hs
  · split at hs
    · rename_i hh; cases hs; exact inv_s3 h hh
    · rename_i t hh; cases hs; exact inv_s4 h t hh
    · simp at hs
  · rename_i t
    split at hs
    · rename_i hp
      cases hs
      have ht : t < s.thr.size := by
        by_cases ht : t < s.thr.size
        · exact ht
        · simp [Array.getElem?_eq_none (Nat.le_of_not_lt ht)] at hp
      have hp' : (s.thr[t]!).pc = .top true := by
        rw [Array.getElem?_eq_getElem ht] at hp
        rw [getElem!_pos s.thr t ht]
        simpa using hp
      exact inv_s5 h t ht hp'
    · simp at hs

/-- the invariant holds in every reachable state -/
theorem inv_reachable {max njobs : Nat} {ordered : Bool} (hm : 1 ≤ max) {s : St}
    (hr : Reachable max njobs ordered s) : Inv s := by
  induction hr with
  | init => exact inv_init max njobs ordered hm
  | step _ hs ih => exact inv_step ih hs

theorem step_params {s s' : St} {l : Lbl} (h : step s l = some s') :
    s'.max = s.max ∧ s'.njobs = s.njobs ∧ s'.ordered = s.ordered := by
  simp only [step, stepCaller, stepHandler, stepWorker, setThr, signalThr_eq, signalRq_eq, signalPool_eq] at h
  repeat' split at h
  all_goals first
    | (cases h; exact ⟨rfl, rfl, rfl⟩)
    | (simp at h; done)

/-- the parameters never change -/
theorem reachable_params {max njobs : Nat} {ordered : Bool} {s : St} (hr : Reachable max njobs ordered s) :
    s.max = max ∧ s.njobs = njobs ∧ s.ordered = ordered := by
  induction hr with
  | init => exact ⟨rfl, rfl, rfl⟩
  | step _ hs ih =>
    have := step_params hs
    exact ⟨this.1.trans ih.1, this.2.1.trans ih.2.1, this.2.2.trans ih.2.2⟩

end Tp


/-! ## Part 10: C13 bound / once / order / complete -/

namespace Tp

variable {max njobs : Nat} {ordered : Bool} {s : St}

/-! ### C13 (1): bound and bookkeeping -/

/-- the pool never has more worker threads than its maximum -/
theorem C13_bound (hm : 1 ≤ max) (hr : Reachable max njobs ordered s) : s.count ≤ s.max :=
  (inv_reachable hm hr).countLe

/-- bookkeeping of `count` against the thread records that exist:
    * dispatch phase: `thr.size = count`, except between `count++` and `pthread_create` (`cpc = .create`)
      where `thr.size + 1 = count`;
    * destroy phase (`cpc = destroy _ / kill _ / joinW _ / done`): `count` = number of idle threads plus
      the one being killed/joined, and `count ≤ thr.size` (joined records are not removed from `thr`). -/
theorem C13_bookkeeping (hm : 1 ≤ max) (hr : Reachable max njobs ordered s) :
    (s.cpc = .create → s.thr.size + 1 = s.count) ∧
    (inDestroy s.cpc = false → s.cpc ≠ .create → s.thr.size = s.count) ∧
    (inDestroy s.cpc = true →
      s.count = s.idle.length + (match s.cpc with | .kill _ => 1 | .joinW _ => 1 | _ => 0) ∧ s.count ≤ s.thr.size) := by
  have h := inv_reachable hm hr
  refine ⟨fun hc => ?_, fun hd hc => ?_, fun hd => ?_⟩
  · have := h.sizeMain (by simp [hc, inDestroy]); simpa [hc] using this
  · have := h.sizeMain hd; simpa [hc] using this
  · have := h.sizeDestroy hd
    revert this hd
    rcases s.cpc with (_|_)|_|_|_|_|_|(_|_)|_|_|_ <;> simp [inDestroy, cHand, o2n]

/-! ### C13 (2): every result at most once, only results of submitted jobs, in order -/

/-- The requested bound `j < s.nextJob` is false in the model for `ordered = false`: `nextJob` is incremented in
    the `.enqueue` step, after `.assign` has already handed job `nextJob` to the worker, which can finish and be
    delivered before the caller takes its next step. -/
theorem C13_once_counterexample :
    let s := runSched (init 1 1 false)
      [.run .caller, .run .caller, .run .caller, .run (.worker 0), .run (.worker 0), .run (.worker 0),
       .run .handler, .run .handler, .run .handler, .run .handler]
    s.delivered = [some 0] ∧ s.nextJob = 0 ∧ s.cpc = .enqueue 0 := by decide

/- full statement as requested (FALSE for ordered = false, see `C13_once_counterexample`):
theorem C13_once : (∀ x ∈ s.delivered, ∃ j, x = some j ∧ j < s.nextJob) ∧ s.delivered.Nodup -/

/-- every delivered result is `some j` for a submitted job `j` (`j < nextJob`, or `j = nextJob` in the window where
    an unordered dispatch has handed the job to the worker but not yet counted it), `j < njobs`, and no result is
    delivered twice -/
theorem C13_once_partial (hm : 1 ≤ max) (hr : Reachable max njobs ordered s) :
    (∀ x ∈ s.delivered, ∃ j, x = some j ∧ j < s.njobs ∧
        (j < s.nextJob ∨ (s.ordered = false ∧ (∃ t, s.cpc = .enqueue t) ∧ j = s.nextJob))) ∧
    s.delivered.Nodup := by
  have h := inv_reachable hm hr
  refine ⟨fun x hx => ?_, (List.nodup_append.mp h.jNodup).1⟩
  obtain ⟨j, rfl, hj⟩ := h.jDel x (List.mem_append_left _ hx)
  refine ⟨j, rfl, by have := h.jobsLe; omega, ?_⟩
  cases ho : s.ordered
  · by_cases hc : ∃ t, s.cpc = .enqueue t
    · obtain ⟨t, ht⟩ := hc
      simp only [ht, pend] at hj
      by_cases hj' : j < s.nextJob
      · exact .inl hj'
      · exact .inr ⟨rfl, ⟨t, ht⟩, by omega⟩
    · left
      have : pend s.cpc = 0 := by
        revert hc; rcases s.cpc with (_|_)|_|_|_|_|_|(_|_)|_|_|_ <;> simp [pend]
      omega
  · left
    have := h.jOrd ho
    have hx' : some j ∈ (List.range s.nextJob).map some := by
      rw [← this]; simp [hx]
    simpa using hx'

/-- ordered dispatch: the requested statement holds as stated -/
theorem C13_once_ordered (hm : 1 ≤ max) (hr : Reachable max njobs ordered s) (ho : s.ordered = true) :
    (∀ x ∈ s.delivered, ∃ j, x = some j ∧ j < s.nextJob) ∧ s.delivered.Nodup := by
  obtain ⟨h1, h2⟩ := C13_once_partial hm hr
  refine ⟨fun x hx => ?_, h2⟩
  obtain ⟨j, rfl, _, hj | ⟨hf, _⟩⟩ := h1 x hx
  · exact ⟨j, rfl, hj⟩
  · simp [ho] at hf

theorem prefix_range {l r : List (Option Nat)} {n : Nat} (h : l ++ r = (List.range n).map some) :
    l = (List.range l.length).map some := by
  have hl : l.length ≤ n := by
    have := congrArg List.length h
    simp at this; omega
  have : l = List.take l.length (l ++ r) := (List.take_left' rfl).symm
  rw [h, ← List.map_take, List.take_range, Nat.min_eq_left hl] at this
  exact this

/-- ordered dispatch delivers the results in submission order -/
theorem C13_order (hm : 1 ≤ max) (hr : Reachable max njobs ordered s) (ho : s.ordered = true) :
    s.delivered = (List.range s.delivered.length).map some := by
  have h := (inv_reachable hm hr).jOrd ho
  rw [List.append_assoc] at h
  exact prefix_range h

/-! ### C13 (3): every submitted job's result is delivered -/

theorem perm_range {l : List (Option Nat)} {n : Nat} (hn : l.Nodup)
    (h1 : ∀ x ∈ l, ∃ j, x = some j ∧ j < n) (h2 : ∀ j, j < n → some j ∈ l) :
    l.Perm ((List.range n).map some) := by
  have hn2 : ((List.range n).map some).Nodup :=
    List.Pairwise.map some (fun a b h => by simpa using h) List.nodup_range
  rw [List.perm_iff_count]
  intro a
  have c1 := List.nodup_iff_count.mp hn a
  have c2 := List.nodup_iff_count.mp hn2 a
  by_cases ha : a ∈ l
  · have : a ∈ (List.range n).map some := by
      obtain ⟨j, rfl, hj⟩ := h1 a ha
      simp [hj]
    have p1 := List.count_pos_iff.mpr ha
    have p2 := List.count_pos_iff.mpr this
    omega
  · have : a ∉ (List.range n).map some := by
      intro hm
      simp only [List.mem_map, List.mem_range] at hm
      obtain ⟨j, hj, rfl⟩ := hm
      exact ha (h2 j hj)
    rw [List.count_eq_zero.mpr ha, List.count_eq_zero.mpr this]

/-- at termination the delivered results are exactly the job ids `0 … njobs-1`, each once -/
theorem C13_complete_perm (hm : 1 ≤ max) (hr : Reachable max njobs ordered s) (ht : terminated s = true) :
    s.delivered.Perm ((List.range s.njobs).map some) := by
  have h := inv_reachable hm hr
  have hc : s.cpc = .done := by simpa [terminated] using ht
  have hd : inDestroy s.cpc = true := by simp [hc, inDestroy]
  have hh := h.destroyH hd
  have hn : s.nextJob = s.njobs := h.jobsDone (by simp [hc, afterFinish])
  have hq := (h.hExit hh).2
  have hnw : nWork s.thr = 0 := by
    have := h.nthr; simp [hc, pendU, hq.1, hq.2] at this; omega
  -- no record carries a job any more
  have hjob : ∀ t, t < s.thr.size → jobOf s.thr[t]! = none := by
    intro t ht
    rcases h.tPlace t ht with p | p | p | p | p | p
    · have := h.tIdle t p; simp [jobOf, this.2.2.1, this.2.2.2.1]
    · simp [hq.1] at p
    · simp [hh, hHand] at p
    · simp [hc, cHand] at p
    · have := nWork_zero _ hnw t ht
      rcases p.2 with q | q <;> simp [isW, q] at this
    · simp [jobOf, p.1.2.2.1, p.1.2.2.2.1]
  have hdel : s.delivered ++ hLoc s.hpc = s.delivered := by simp [hh, hLoc]
  have hp : pend s.cpc = 0 := by simp [hc, pend]
  apply perm_range
  · have := h.jNodup; rwa [hdel] at this
  · intro x hx
    have := h.jDel x (by rw [hdel]; exact hx)
    rw [hp, hn] at this; exact this
  · intro j hj
    rcases h.jAll j (by rw [hp, hn]; exact hj) with q | ⟨t, ht, q⟩
    · rwa [hdel] at q
    · rw [hjob t ht] at q; cases q

theorem C13_complete (hm : 1 ≤ max) (hr : Reachable max njobs ordered s) (ht : terminated s = true) :
    s.delivered.length = s.njobs := by
  have := (C13_complete_perm hm hr ht).length_eq
  simpa using this

/-- ordered dispatch, at termination: exactly `[some 0, …, some (njobs-1)]` -/
theorem C13_complete_ordered (hm : 1 ≤ max) (hr : Reachable max njobs ordered s) (ht : terminated s = true)
    (ho : s.ordered = true) : s.delivered = (List.range s.njobs).map some := by
  have := C13_order hm hr ho
  rwa [C13_complete hm hr ht] at this

end Tp


/-! ## Part 11: C13 deadlock freedom -/

namespace Tp

variable {max njobs : Nat} {ordered : Bool} {s : St}

/-! ### C13 (4): no deadlock, no lost wake-up -/

/-- every record has one of the five shapes -/
theorem Inv.shape (h : Inv s) {t : Nat} (ht : t < s.thr.size) :
    SIdle s.thr[t]! ∨ SOrd s.thr[t]! ∨ SFin s.thr[t]! ∨ SWork s.thr[t]! ∨ SKill s.thr[t]! := by
  rcases h.tPlace t ht with p | p | p | p | p | p
  · exact .inl (h.tIdle t p)
  · have := h.tQueue t p; unfold SQ at this; split at this
    · exact .inr (.inl this)
    · exact .inr (.inr (.inl this))
  · rcases h.shapeH p with q | q
    · unfold SQ at q; split at q
      · exact .inr (.inl q)
      · exact .inr (.inr (.inl q))
    · exact .inl q
  · rcases h.shapeC p with q | q | q
    · exact .inl q
    · exact .inr (.inl q)
    · exact .inr (.inr (.inr (.inr q)))
  · exact .inr (.inr (.inr (.inl p.2)))
  · exact .inr (.inr (.inr (.inr p.1)))

theorem worker_enabled {t : Nat} (ht : t < s.thr.size)
    (hp : s.thr[t]!.pc = .top false ∨ s.thr[t]!.pc = .gotJob ∨ s.thr[t]!.pc = .selfEnq ∨ s.thr[t]!.pc = .doneOrd) :
    (step s (.run (.worker t))).isSome = true := by
  simp only [step, stepWorker, ht, ↓reduceIte]
  rcases hp with hp | hp | hp | hp <;> rw [hp] <;> simp only
  · split <;> rfl
  · split
    · rfl
    · split <;> rfl
  · rfl
  · rfl

/-- a working (unordered, not yet queued) thread can take a step -/
theorem Inv.work_enabled (h : Inv s) (hw : 0 < nWork s.thr) : ∃ w, (step s (.run w)).isSome = true := by
  obtain ⟨t, ht, hw⟩ := nWork_pos _ hw
  refine ⟨.worker t, worker_enabled ht ?_⟩
  have hs := h.shape ht
  simp only [isW, Bool.or_eq_true, beq_iff_eq] at hw
  rcases hw with hw | hw
  · rcases hs with q | q | q | q | q
    · simp [q.2.2.2.2] at hw
    · simp [q.1] at hw
    · simp [q.2.2.2.2] at hw
    · rcases q with q | q
      · rcases q.1 with p | p
        · exact .inl p
        · exact .inr (.inl p)
      · simp [q.2.2.2.2] at hw
    · simp [q.2.2.2.2] at hw
  · exact .inr (.inr (.inl hw))

/-- the handler is awake, or the thread it waits for is, or (if it waits for the queue and the caller guarantees
    that some thread is still working) a worker is -/
theorem Inv.handler_side (h : Inv s) (hne : s.hpc ≠ .exited) (hw : s.hpc = .deq true → 0 < nWork s.thr) :
    ∃ w, (step s (.run w)).isSome = true := by
  rcases hh : s.hpc with (_|_)|⟨t, (_|_)⟩|⟨t, r⟩|r|_
  · refine ⟨.handler, ?_⟩
    simp only [step, stepHandler, hh]
    split
    · rfl
    · split <;> rfl
  · exact h.work_enabled (hw hh)
  · refine ⟨.handler, ?_⟩
    simp only [step, stepHandler, hh]
    split <;> rfl
  · -- asleep waiting for thread `t`: it is still running, hence its worker is not asleep
    have hr := (h.tWait t true hh).2 rfl
    have ht := h.hHandLt t (by simp [hh, hHand])
    refine ⟨.worker t, worker_enabled ht ?_⟩
    rcases h.shapeH (t := t) (by simp [hh, hHand]) with q | q
    · unfold SQ at q; split at q
      · rcases q.2 with q | q | q
        · rcases q.1 with p | p
          · exact .inl p
          · exact .inr (.inl p)
        · exact .inr (.inr (.inr q.1))
        · exact absurd (hr.symm.trans q.2.1) (by decide)
      · exact absurd (hr.symm.trans q.2.1) (by decide)
    · exact absurd (hr.symm.trans q.2.1) (by decide)
  · exact ⟨.handler, by simp [step, stepHandler, hh]⟩
  · exact ⟨.handler, by simp [step, stepHandler, hh]⟩
  · exact absurd hh hne

theorem deadlock_free_of_inv (h : Inv s) (ht : terminated s = false) : ∃ w, (step s (.run w)).isSome = true := by
  rcases hc : s.cpc with (_|_)|_|t|t|_|_|(_|_)|t|t|_
  · -- next false
    refine ⟨.caller, ?_⟩
    simp only [step, stepCaller, hc]
    split
    · rfl
    · split
      · rfl
      · split <;> rfl
  · -- next true: asleep in threadpool_next; all threads are out
    have hs := h.nextSleep hc
    have hsz := h.sizeMain (by simp [hc, inDestroy])
    have hcnt := h.cnt (by simp [hc, inDestroy])
    have hmax := h.maxPos
    simp only [hc, reduceCtorEq, ↓reduceIte, Nat.add_zero, cHand, o2n] at hsz hcnt
    apply h.handler_side
    · intro he; have := (h.hExit he).1; simp [hc, afterFinish] at this
    · intro hd
      have := (h.deqSleep hd).1
      simp [hs.1, this, hd, hHand] at hcnt
      omega
  · exact ⟨.caller, by simp [step, stepCaller, hc]⟩
  · exact ⟨.caller, by simp [step, stepCaller, hc]⟩
  · exact ⟨.caller, by simp [step, stepCaller, hc]⟩
  · exact ⟨.caller, by simp [step, stepCaller, hc]⟩
  · -- joinH
    by_cases he : s.hpc = .exited
    · exact ⟨.caller, by simp [step, stepCaller, hc, he]⟩
    · apply h.handler_side he
      intro hd
      have := h.deqSleep hd
      have hf := h.finIff
      have hn := h.nthr
      simp only [hc, afterFinish, pendU] at hf hn
      simp [this.1, hf] at this hn
      omega
  · -- destroy false
    refine ⟨.caller, ?_⟩
    simp only [step, stepCaller, hc]
    split
    · rfl
    · split <;> rfl
  · -- destroy true: impossible
    have hs := h.destroySleep hc
    have := (h.sizeDestroy (by simp [hc, inDestroy])).1
    simp [hc, cHand, o2n, hs.1] at this
    exact absurd this hs.2
  · exact ⟨.caller, by simp [step, stepCaller, hc]⟩
  · -- joinW t
    by_cases he : s.thr[t]!.pc = .exited
    · exact ⟨.caller, by simp [step, stepCaller, hc, he]⟩
    · have hk := h.tJoinW t hc
      have hlt := h.cHandLt t (by simp [hc, cHand])
      refine ⟨.worker t, worker_enabled hlt ?_⟩
      rcases hk.1 with p | p | p
      · exact .inl p
      · exact .inr (.inl p)
      · exact absurd p he
  · simp [terminated, hc] at ht

/-- in every reachable non-final state some thread can take a real (non-spurious) step -/
theorem C13_deadlock_free (hm : 1 ≤ max) (hr : Reachable max njobs ordered s) (ht : terminated s = false) :
    ∃ w, (step s (.run w)).isSome = true :=
  deadlock_free_of_inv (inv_reachable hm hr) ht

/-- why each sleeper sleeps (its wait predicate is false), hence who will wake it:
    a worker asleep at the loop head has `running = false`; the handler asleep on thread `t`'s condition variable has
    `thr[t].running = true` — so worker `t` and the handler are never both asleep on `thr[t].c`; the handler asleep on
    the queue sees it empty and not (finished ∧ nthreads = 0); the caller asleep in `threadpool_next` has no idle
    thread and `count = max`; the caller is never asleep in `threadpool_destroy` with an idle thread available. -/
theorem C13_sleepers (hm : 1 ≤ max) (hr : Reachable max njobs ordered s) :
    (∀ t, t < s.thr.size → s.thr[t]!.pc = .top true → s.thr[t]!.running = false) ∧
    (∀ t, s.hpc = .waitRes t true → t < s.thr.size ∧ s.thr[t]!.running = true ∧ s.thr[t]!.pc ≠ .top true) ∧
    (s.hpc = .deq true → s.queue = [] ∧ ¬ (s.finished = true ∧ s.nthreads = 0)) ∧
    (s.cpc = .next true → s.idle = [] ∧ s.count = s.max) ∧
    (s.cpc = .destroy true → s.idle = [] ∧ s.count ≠ 0) := by
  have h := inv_reachable hm hr
  have key : ∀ t, t < s.thr.size → s.thr[t]!.pc = .top true → s.thr[t]!.running = false := by
    intro t ht hp
    rcases h.shape ht with q | q | q | q | q
    · exact q.2.1
    · rcases q.2 with q | q | q
      · rcases q.1 with p | p <;> simp [hp] at p
      · have := q.1; simp [hp] at this
      · exact q.2.1
    · exact q.2.1
    · rcases q with q | q
      · rcases q.1 with p | p <;> simp [hp] at p
      · have := q.1; simp [hp] at this
    · rcases q.1 with p | p | p <;> simp [hp] at p
  refine ⟨key, fun t hh => ?_, h.deqSleep, h.nextSleep, h.destroySleep⟩
  have ht := h.hHandLt t (by simp [hh, hHand])
  have hrun := (h.tWait t true hh).2 rfl
  refine ⟨ht, hrun, fun hp => ?_⟩
  have := key t ht hp
  rw [hrun] at this; cases this

end Tp


/-! ## Part 12: C14 race freedom -/

namespace Tp

variable {max njobs : Nat} {ordered : Bool} {s : St}

/-! ### C14: no data race -/

def racy (l1 l2 : List Access) : Bool := l1.any fun a => l2.any fun b => conflict a b

theorem conflict_symm (a b : Access) : conflict a b = conflict b a := by
  unfold conflict
  have h1 : (a.loc == b.loc) = (b.loc == a.loc) := by
    rw [Bool.eq_iff_iff]; simp only [beq_iff_eq]; exact eq_comm
  have h2 : (a.locks.any fun l => b.locks.contains l) = (b.locks.any fun l => a.locks.contains l) := by
    rw [Bool.eq_iff_iff]
    simp only [List.any_eq_true, List.contains_iff_mem]
    constructor <;> rintro ⟨l, h1, h2⟩ <;> exact ⟨l, h2, h1⟩
  rw [h1, h2, Bool.or_comm]

theorem racy_symm (l1 l2 : List Access) : racy l1 l2 = racy l2 l1 := by
  unfold racy
  rw [Bool.eq_iff_iff]
  simp only [List.any_eq_true]
  constructor <;> rintro ⟨a, ha, b, hb, hc⟩ <;> exact ⟨b, hb, a, ha, by rwa [conflict_symm]⟩

theorem Inv.idle_queue (h : Inv s) {t : Nat} (h1 : t ∈ s.idle) (h2 : t ∈ s.queue) : False := by
  have a := h.tIdle t h1
  have b := h.tQueue t h2
  unfold SQ at b
  split at b
  · rcases b.2 with q | q | q
    · exact q.2.2.1 a.2.2.1
    · exact q.2.2.2 a.2.2.2.1
    · exact q.2.2.2 a.2.2.2.1
  · exact b.2.2.2.1 a.2.2.2.1

theorem norace_ch (h : Inv s) : racy (accesses s .caller) (accesses s .handler) = false := by
  have d1 : ∀ t rest t' rest', s.idle = t :: rest → s.queue = t' :: rest' → t ≠ t' := by
    intro t rest t' rest' h1 h2 e
    exact h.idle_queue (t := t) (by simp [h1]) (by simp [h2, e])
  have d3 : ∀ t rest, s.queue = t :: rest → cHand s.cpc s.ordered ≠ some t :=
    fun t rest h1 h2 => h.cNotQueue t h2 (by simp [h1])
  have d4 : ∀ t rest, s.idle = t :: rest → hHand s.hpc ≠ some t :=
    fun t rest h1 h2 => h.hNotIdle t h2 (by simp [h1])
  have d6 := h.chDisj; have d7 := h.destroyH
  rcases hc : s.cpc with (_|_)|_|t|t|_|_|(_|_)|t|t|_ <;>
  rcases hh : s.hpc with (_|_)|⟨t', (_|_)⟩|⟨t', r⟩|r|_ <;>
  simp only [accesses, hc, hh, racy, List.any_nil] <;>
  first | rfl | skip
  all_goals (repeat' split)
  all_goals simp [acc, conflict]
  all_goals (simp only [hc, hh, cHand_assign, cHand_enqueue, hHand_giveBack, hHand_waitRes, inDestroy] at d3 d4 d6 d7)
  all_goals grind

theorem racy_nil_right (l : List Access) : racy l [] = false := by simp [racy]

theorem getElem?_thr (s : St) {t : Nat} (ht : t < s.thr.size) : s.thr[t]? = some s.thr[t]! := by
  rw [Array.getElem?_eq_getElem ht, getElem!_pos s.thr t ht]

theorem accesses_worker_oob (s : St) {t : Nat} (ht : ¬ t < s.thr.size) : accesses s (.worker t) = [] := by
  simp [accesses, Array.getElem?_eq_none (Nat.le_of_not_lt ht)]

theorem norace_cw (h : Inv s) (t : Nat) : racy (accesses s .caller) (accesses s (.worker t)) = false := by
  by_cases ht : t < s.thr.size
  case neg => rw [accesses_worker_oob s ht, racy_nil_right]
  have e1 : ∀ t' rest, s.idle = t' :: rest → SIdle s.thr[t']! := fun t' rest h1 => h.tIdle t' (by simp [h1])
  have e2 := h.tAssign; have e3 := h.tKill
  rcases hc : s.cpc with (_|_)|_|t'|t'|_|_|(_|_)|t'|t'|_ <;>
  rcases hp : s.thr[t]!.pc with (_|_)|_|_|_|_ <;>
  simp only [accesses, hc, getElem?_thr s ht, Option.map_some, hp, racy, List.any_nil] <;>
  first | rfl | skip
  all_goals (repeat' split)
  all_goals simp [acc, conflict]
  all_goals (simp only [hc] at e2 e3)
  all_goals grind [SIdle, isTop_iff]

theorem norace_hw (h : Inv s) (t : Nat) : racy (accesses s .handler) (accesses s (.worker t)) = false := by
  by_cases ht : t < s.thr.size
  case neg => rw [accesses_worker_oob s ht, racy_nil_right]
  have e1 := h.tWait; have e2 := h.tGive
  rcases hh : s.hpc with (_|_)|⟨t', (_|_)⟩|⟨t', r⟩|r|_ <;>
  rcases hp : s.thr[t]!.pc with (_|_)|_|_|_|_ <;>
  simp only [accesses, hh, getElem?_thr s ht, Option.map_some, hp, racy, List.any_nil] <;>
  first | rfl | skip
  all_goals (repeat' split)
  all_goals simp [acc, conflict]
  all_goals (simp only [hh] at e1 e2)
  all_goals grind [SIdle, SQ, SOrd, SFin, isTop_iff, getElem?_thr]

theorem norace_ww (t1 t2 : Nat) (hne : t1 ≠ t2) :
    racy (accesses s (.worker t1)) (accesses s (.worker t2)) = false := by
  by_cases ht1 : t1 < s.thr.size
  case neg => rw [accesses_worker_oob s ht1]; rfl
  by_cases ht2 : t2 < s.thr.size
  case neg => rw [accesses_worker_oob s ht2, racy_nil_right]
  rcases hp1 : s.thr[t1]!.pc with (_|_)|_|_|_|_ <;>
  rcases hp2 : s.thr[t2]!.pc with (_|_)|_|_|_|_ <;>
  simp only [accesses, getElem?_thr s ht1, getElem?_thr s ht2, Option.map_some, hp1, hp2, racy, List.any_nil] <;>
  first | rfl | skip
  all_goals (repeat' split)
  all_goals simp [acc, conflict, hne]

/-- no reachable state has two enabled conflicting accesses with disjoint locksets -/
theorem norace_of_inv (h : Inv s) (w1 w2 : Who) : raceBetween s w1 w2 = false := by
  have key : w1 ≠ w2 → racy (accesses s w1) (accesses s w2) = false := by
    intro hne
    rcases w1 with _ | _ | t1 <;> rcases w2 with _ | _ | t2
    · exact absurd rfl hne
    · exact norace_ch h
    · exact norace_cw h t2
    · rw [racy_symm]; exact norace_ch h
    · exact absurd rfl hne
    · exact norace_hw h t2
    · rw [racy_symm]; exact norace_cw h t1
    · rw [racy_symm]; exact norace_hw h t1
    · exact norace_ww t1 t2 (fun e => hne (by rw [e]))
  unfold raceBetween
  by_cases hne : w1 = w2
  · simp [hne]
  · have := key hne
    unfold racy at this
    rw [this]; simp

theorem C14_norace (hm : 1 ≤ max) (hr : Reachable max njobs ordered s) :
    ∀ w1 w2, raceBetween s w1 w2 = false :=
  norace_of_inv (inv_reachable hm hr)

end Tp


/-! ## Part 13: non-vacuity -/

namespace Tp

/-! ### non-vacuity: concrete schedules -/

theorem reachable_runSched {max njobs : Nat} {ordered : Bool} {s : St} (h : Reachable max njobs ordered s)
    (l : List Lbl) : Reachable max njobs ordered (runSched s l) := by
  induction l generalizing s with
  | nil => exact h
  | cons a l ih =>
    unfold runSched
    split
    · rename_i s' hs; exact ih (.step h hs)
    · exact ih h

namespace Ex
def c : Lbl := .run .caller
def h : Lbl := .run .handler
def w (t : Nat) : Lbl := .run (.worker t)
def sc : Lbl := .spurious .caller
def sh : Lbl := .spurious .handler
def sw (t : Nat) : Lbl := .spurious (.worker t)

/-- ordered, max = 2, njobs = 3; every label in the list is enabled when it is its turn (9 of them spurious
    wake-ups) -/
def schedOrd : List Lbl :=
  [c, c, h, w 0, sh, h, sw 0, c, sh, c, h, c, c, c, w 0, w 1, w 0, c, w 1, w 0, w 0, sw 0, w 1, c, h, h, h, c, w 1, c,
   h, h, h, h, h, sw 1, w 0, w 0, w 0, sh, w 1, c, c, w 0, h, c, sw 0, w 0, sw 1, w 1, h, sw 0, h, sw 1, w 0, w 1, h,
   h, c, c, c, w 0, w 0, c, c, c, w 1, w 1, c, c]

/-- unordered, max = 2, njobs = 3: job 2 overtakes job 1 -/
def schedUnord : List Lbl :=
  [c, c, c, h, sh, w 0, c, w 0, c, w 0, c, w 1, sw 1, h, c, w 1, w 0, c, c, h, h, h, c, c, h, w 0, w 0, c, w 0, w 0, h,
   w 1, c, w 1, c, h, h, w 1, sw 0, h, w 0, h, h, h, sw 0, h, w 0, sw 0, h, c, w 0, sw 0, c, c, w 0, w 1, w 1, c, c, c,
   w 0, w 0, c, c]
end Ex

example : let s := runSched (init 2 3 true) Ex.schedOrd
    terminated s = true ∧ s.delivered = [some 0, some 1, some 2] ∧ s.count = 0 ∧ s.thr.size = 2 := by
  decide +kernel

example : let s := runSched (init 2 3 false) Ex.schedUnord
    terminated s = true ∧ s.delivered = [some 0, some 2, some 1] ∧ s.count = 0 ∧ s.thr.size = 2 := by
  decide +kernel

example : Reachable 2 3 true (runSched (init 2 3 true) Ex.schedOrd) := reachable_runSched .init _
example : Reachable 2 3 false (runSched (init 2 3 false) Ex.schedUnord) := reachable_runSched .init _

/-- an (unreachable) state in which the dispatcher writes the record of a thread that is still in its callback -/
def Ex.racyState : St :=
  { init 1 1 true with thr := #[{ pc := .gotJob, running := true, cb := some 0 }], count := 1, cpc := .assign 0 }

/-- the race detector is not vacuous -/
example : raceBetween Ex.racyState .caller (.worker 0) = true := by decide

/-- an (unreachable) lost-wake-up state: caller, handler and worker all asleep -/
def Ex.stuckState : St :=
  { init 1 1 true with thr := #[{ pc := .top true, running := true, cb := some 0 }], count := 1, cpc := .next true,
                       hpc := .deq true }

/-- the deadlock statement is not vacuous -/
example : terminated Ex.stuckState = false ∧
    ∀ w ∈ [Who.caller, Who.handler, Who.worker 0], (step Ex.stuckState (.run w)).isSome = false := by
  decide

end Tp
