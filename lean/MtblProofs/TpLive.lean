import MtblProofs.TpProofs
/-
  Liveness of the pool machine (C13 "close/destroy calls return instead of hanging").

  A potential function `Phi : St → Nat` such that, in every reachable state,
    * every real step of any thread (caller, handler, worker) strictly decreases `Phi`;
    * a spurious wake-up increases it by at most one.
  Hence along EVERY schedule the number of real steps taken is at most `Phi (init …) + #spurious wake-ups`: no schedule,
  fair or not, can keep the pool busy for ever unless the OS delivers infinitely many spurious wake-ups; together with
  deadlock freedom (some real step is enabled in every non-final reachable state) every maximal execution ends in the
  final state, i.e. `threadpool_destroy` has returned.

  `Phi = 8 * progress + awake`, where `progress` counts the work that is still owed (per job not yet dispatched: 16 units,
  moved to the worker (3, or 7 when it will queue itself) at `assign` and to the result queue (4) when the thread is
  queued; per live thread 5 units of tear-down) and `awake` counts the threads standing at a loop head that may still go to
  sleep (going to sleep is a real step that makes no other progress; a signal wakes at most two sleepers).
-/
namespace Tp

/-! ### the potential -/

/-- work a worker still owes before it is back at its loop head with nothing to do (or has exited) -/
def wP (th : Thr) : Nat := match th.pc with
  | .top _ => if th.running then (if th.cb.isSome then 3 + (if th.rq then 4 else 0) else 2) else 0
  | .gotJob => if th.cb.isSome then 2 + (if th.rq then 4 else 0) else 1
  | .selfEnq => 5
  | .doneOrd => 1
  | .exited => 0
def wW (th : Thr) : Nat := if th.pc = .top false then 1 else 0
def wPot (th : Thr) : Nat := 8 * wP th + wW th
def sumThr (a : Array Thr) : Nat := (a.toList.map wPot).sum

def cPf (cpc : CPc) (njobs nextJob max count : Nat) : Nat := match cpc with
  | .next _ => 16 * (njobs - nextJob) + (5 * max + 4)
  | .create => 16 * (njobs - nextJob) - 1 + (5 * max + 4)
  | .assign _ => 16 * (njobs - nextJob) - 2 + (5 * max + 4)
  | .enqueue _ => 16 * (njobs - nextJob) - 10 + (5 * max + 4)
  | .finish => 5 * max + 3
  | .joinH => 5 * max + 2
  | .destroy _ => 5 * count + 1
  | .kill _ => 5 * count
  | .joinW _ => 5 * count - 3
  | .done => 0
def cWf (cpc : CPc) : Nat := match cpc with | .next false | .destroy false => 1 | _ => 0
def hPf (hpc : HPc) (qlen : Nat) : Nat := match hpc with
  | .deq _ => 4 * qlen + 1
  | .waitRes _ _ => 4 * qlen + 4
  | .giveBack _ _ => 4 * qlen + 3
  | .callback _ => 4 * qlen + 2
  | .exited => 0
def hWf (hpc : HPc) : Nat := match hpc with | .deq false | .waitRes _ false => 1 | _ => 0

def Phi (s : St) : Nat :=
  8 * (cPf s.cpc s.njobs s.nextJob s.max s.count + hPf s.hpc s.queue.length) + cWf s.cpc + hWf s.hpc + sumThr s.thr

/-! ### sums over the thread array -/

theorem sumThr_push (a : Array Thr) (x : Thr) : sumThr (a.push x) = sumThr a + wPot x := by
  simp [sumThr]

theorem sum_set (l : List Thr) (t : Nat) (x : Thr) (hl : t < l.length) :
    ((l.set t x).map wPot).sum + wPot l[t] = (l.map wPot).sum + wPot x := by
  induction l generalizing t with
  | nil => simp at hl
  | cons y ys ih =>
    cases t with
    | zero => simp; omega
    | succ t =>
      simp only [List.set_cons_succ, List.map_cons, List.sum_cons, List.getElem_cons_succ]
      have := ih t (by simpa using hl)
      omega

theorem sumThr_modify (a : Array Thr) (t : Nat) (f : Thr → Thr) (h : t < a.size) :
    sumThr (a.modify t f) + wPot a[t]! = sumThr a + wPot (f a[t]!) := by
  have h1 : a.modify t f = a.set t (f a[t]) h := by
    apply Array.ext
    · simp
    · intro i h1 h2
      simp [Array.getElem_modify, Array.getElem_set]
      grind
  have h2 : a[t]! = a[t] := getElem!_pos a t h
  rw [h1, h2]
  unfold sumThr
  rw [Array.toList_set]
  have hl : t < a.toList.length := by simpa using h
  have := sum_set a.toList t (f a[t]) hl
  simpa using this

theorem sumThr_modify_oob (a : Array Thr) (t : Nat) (f : Thr → Thr) (h : ¬ t < a.size) :
    sumThr (a.modify t f) = sumThr a := by
  have : a.modify t f = a := by
    apply Array.ext
    · simp
    · intro i h1 h2
      simp [Array.getElem_modify]; grind
  rw [this]

theorem sumThr_modify_same (a : Array Thr) (t : Nat) (f : Thr → Thr) (hf : ∀ th, wPot (f th) = wPot th) :
    sumThr (a.modify t f) = sumThr a := by
  by_cases h : t < a.size
  · have := sumThr_modify a t f h
    rw [hf] at this; omega
  · exact sumThr_modify_oob a t f h

/-- waking a worker: its potential grows by at most one -/
theorem wPot_wakeW (th : Thr) : wPot (wakeW th) ≤ wPot th + 1 ∧ wP (wakeW th) = wP th := by
  unfold wakeW
  split
  · rename_i hp; simp [wPot, wP, wW, hp]
  · simp

theorem sumThr_wake (a : Array Thr) (t : Nat) : sumThr (a.modify t wakeW) ≤ sumThr a + 1 := by
  by_cases h : t < a.size
  · have := sumThr_modify a t wakeW h
    have := (wPot_wakeW a[t]!).1
    omega
  · rw [sumThr_modify_oob a t _ h]; omega

theorem hPf_wakeDeq (h : HPc) (n : Nat) : hPf (wakeDeq h) n = hPf h n ∧ hWf (wakeDeq h) ≤ hWf h + 1 := by
  rcases h with (_|_)|⟨t', (_|_)⟩|_|_|_ <;> simp [wakeDeq, hPf, hWf]

theorem hPf_wakeWait (t : Nat) (h : HPc) (n : Nat) :
    hPf (wakeWait t h) n = hPf h n ∧ hWf (wakeWait t h) ≤ hWf h + 1 := by
  rcases h with (_|_)|⟨t', (_|_)⟩|_|_|_ <;> simp [wakeWait, hPf, hWf]
  by_cases h : t' = t <;> simp [h, hPf, hWf]

theorem cPf_wakeC (c : CPc) (a b m k : Nat) : cPf (wakeC c) a b m k = cPf c a b m k ∧ cWf (wakeC c) ≤ cWf c + 1 := by
  rcases c with (_|_)|_|_|_|_|_|(_|_)|_|_|_ <;> simp [wakeC, cPf, cWf]

end Tp

/-! ### every real step of the caller decreases the potential -/
namespace Tp
variable {s s' : St}

theorem phi_stepCaller (h : Inv s) (hs : stepCaller s = some s') : Phi s' < Phi s := by
  unfold stepCaller at hs
  split at hs
  · simp at hs
  · rename_i hc
    split at hs
    · -- all jobs dispatched: go to finish
      cases hs
      have : s.njobs - s.nextJob = 0 := by omega
      simp only [Phi, hc, cPf, cWf, this]; omega
    · split at hs
      · rename_i t rest hi; cases hs
        have : 1 ≤ s.njobs - s.nextJob := by omega
        simp only [Phi, hc, cPf, cWf]; omega
      · split at hs
        · cases hs; simp only [Phi, hc, cPf, cWf]; omega
        · cases hs
          have : 1 ≤ s.njobs - s.nextJob := by omega
          simp only [Phi, hc, cPf, cWf]; omega
  · rename_i hc; cases hs
    have := h.jobsLt (.inl hc)
    simp [Phi, hc, cPf, cWf, sumThr_push, wPot, wP, wW]; omega
  · rename_i t hc; cases hs
    have hlt := h.jobsLt (.inr ⟨t, hc⟩)
    have htl := h.cHandLt t (by simp [hc, cHand])
    obtain ⟨hp, hr, hcb, _, hrq⟩ := h.tAssign t hc
    rw [signalThr_eq]
    simp only [setThr, Phi]
    rw [modify_modify]
    have hsum := sumThr_modify s.thr t (fun th => wakeW { th with rq := !s.ordered, cb := some s.nextJob, running := true }) htl
    have hw := wPot_wakeW { s.thr[t]! with rq := !s.ordered, cb := some s.nextJob, running := true }
    have hq := hPf_wakeWait t s.hpc s.queue.length
    have h0 : wP s.thr[t]! = 0 := by
      rw [isTop_iff] at hp
      rcases hp with hp | hp <;> simp [wP, hp, hr]
    have h1 : wP { s.thr[t]! with rq := !s.ordered, cb := some s.nextJob, running := true } ≤ 7 := by
      rw [isTop_iff] at hp
      rcases hp with hp | hp <;> simp [wP, hp] <;> split <;> omega
    have h2 : wW { s.thr[t]! with rq := !s.ordered, cb := some s.nextJob, running := true } = wW s.thr[t]! := by
      simp [wW]
    simp only [wPot] at hsum hw
    dsimp only at h1 h2
    simp [hc, cPf, cWf] at hsum hw hq ⊢
    omega
  · rename_i t hc
    have hj := h.jobsLe
    simp [hc, pend] at hj
    cases ho : s.ordered
    · simp [ho] at hs; cases hs
      simp only [Phi, hc, cPf, cWf]; omega
    · simp [ho] at hs; cases hs
      rw [signalRq_eq]
      have hq := hPf_wakeDeq s.hpc (s.queue ++ [t]).length
      have hq' : ∀ n, hPf s.hpc (n + 1) ≤ hPf s.hpc n + 4 := by
        intro n; unfold hPf; split <;> omega
      have := hq' s.queue.length
      simp [Phi, hc, cPf, cWf] at hq ⊢; omega
  · rename_i hc; cases hs
    rw [signalRq_eq]
    have hq := hPf_wakeDeq s.hpc s.queue.length
    simp [Phi, hc, cPf, cWf] at hq ⊢; omega
  · rename_i hc
    split at hs
    · cases hs
      have := h.countLe
      simp only [Phi, hc, cPf, cWf]; omega
    · simp at hs
  · simp at hs
  · rename_i hc
    split at hs
    · cases hs; simp only [Phi, hc, cPf, cWf]; omega
    · split at hs
      · cases hs; simp only [Phi, hc, cPf, cWf]; omega
      · rename_i t rest hi; cases hs; simp only [Phi, hc, cPf, cWf]; omega
  · rename_i t hc; cases hs
    have htl := h.cHandLt t (by simp [hc, cHand])
    obtain ⟨hp, hr, hcb, _, hrq⟩ := h.tKill t hc
    have hcnt := (h.sizeDestroy (by simp [hc, inDestroy])).1
    simp [hc, cHand, o2n] at hcnt
    rw [signalThr_eq]
    simp only [setThr, Phi]
    rw [modify_modify]
    have hsum := sumThr_modify s.thr t (fun th => wakeW { th with running := true }) htl
    have hw := wPot_wakeW { s.thr[t]! with running := true }
    have hq := hPf_wakeWait t s.hpc s.queue.length
    have h0 : wP s.thr[t]! = 0 := by
      rw [isTop_iff] at hp
      rcases hp with hp | hp <;> simp [wP, hp, hr]
    have h1 : wP { s.thr[t]! with running := true } = 2 := by
      rw [isTop_iff] at hp
      rcases hp with hp | hp <;> simp [wP, hp, hcb]
    have h2 : wW { s.thr[t]! with running := true } = wW s.thr[t]! := by
      simp [wW]
    simp only [wPot] at hsum hw
    dsimp only at h1 h2
    simp [hc, cPf, cWf] at hsum hw hq ⊢
    omega
  · rename_i t hc
    split at hs
    · cases hs
      have hcnt := (h.sizeDestroy (by simp [hc, inDestroy])).1
      simp [hc, cHand, o2n] at hcnt
      simp only [Phi, hc, cPf, cWf]; omega
    · simp at hs
  · simp at hs

end Tp

/-! ### workers and the result handler -/
namespace Tp
variable {s s' : St}

theorem phi_stepWorker (t : Nat) (h : Inv s) (hs : stepWorker s t = some s') : Phi s' < Phi s := by
  unfold stepWorker at hs
  split at hs
  · rename_i ht
    simp only at hs
    split at hs
    · simp at hs
    · rename_i hp
      split at hs
      · rename_i hr; cases hs
        have hsum := sumThr_modify s.thr t (fun th => { th with pc := .gotJob }) ht
        have : wPot { s.thr[t]! with pc := .gotJob } + 8 ≤ wPot s.thr[t]! := by
          simp only [wPot, wP, wW, hp, hr]; simp; split <;> omega
        dsimp only at this hsum; simp only [setThr, Phi]; omega
      · rename_i hr; cases hs
        have hsum := sumThr_modify s.thr t (fun th => { th with pc := .top true }) ht
        have : wPot { s.thr[t]! with pc := .top true } + 1 ≤ wPot s.thr[t]! := by
          simp only [wPot, wP, wW, hp, hr]; simp
        dsimp only at this hsum; simp only [setThr, Phi]; omega
    · rename_i hp
      split at hs
      · rename_i hcb; cases hs
        have hsum := sumThr_modify s.thr t (fun th => { th with pc := .exited }) ht
        have : wPot { s.thr[t]! with pc := .exited } + 8 ≤ wPot s.thr[t]! := by
          simp only [wPot, wP, wW, hp, hcb]; simp
        dsimp only at this hsum; simp only [setThr, Phi]; omega
      · rename_i j hcb
        split at hs
        · rename_i hrq; cases hs
          have hsum := sumThr_modify s.thr t
            (fun th => { th with res := some j, cb := none, rq := false, running := false, pc := .selfEnq }) ht
          have : wPot { s.thr[t]! with res := some j, cb := none, rq := false, running := false, pc := .selfEnq } + 8
              ≤ wPot s.thr[t]! := by
            simp only [wPot, wP, wW, hp, hcb, hrq]; simp
          dsimp only at this hsum; simp only [setThr, Phi]; omega
        · rename_i hrq; cases hs
          have hsum := sumThr_modify s.thr t (fun th => { th with res := some j, cb := none, pc := .doneOrd }) ht
          have : wPot { s.thr[t]! with res := some j, cb := none, pc := .doneOrd } + 8 ≤ wPot s.thr[t]! := by
            simp only [wPot, wP, wW, hp, hcb]; simp; split <;> omega
          dsimp only at this hsum; simp only [setThr, Phi]; omega
    · rename_i hp; cases hs
      obtain ⟨_, _, _, _, _, hw⟩ := h.selfEnq ht hp
      have hr : s.thr[t]!.running = false := by
        rcases hw with ⟨hq, _⟩ | ⟨_, hr, _⟩
        · rcases hq with hq | hq <;> simp [hp] at hq
        · exact hr
      have hsum := sumThr_modify s.thr t (fun th => { th with pc := .top false }) ht
      have : wPot { s.thr[t]! with pc := .top false } + 39 = wPot s.thr[t]! := by
        simp only [wPot, wP, wW, hp, hr]; simp
      rw [signalRq_eq]
      have hq := hPf_wakeDeq s.hpc (s.queue.length + 1)
      have hq' : hPf s.hpc (s.queue.length + 1) ≤ hPf s.hpc s.queue.length + 4 := by
        unfold hPf; split <;> omega
      dsimp only at this hsum; simp only [setThr, Phi, List.length_append, List.length_cons, List.length_nil, Nat.zero_add] at hq ⊢; omega
    · rename_i hp; cases hs
      rw [signalThr_eq]
      simp only [setThr, Phi]
      rw [modify_modify]
      have hsum := sumThr_modify s.thr t (fun th => wakeW { th with running := false, pc := .top false }) ht
      have hq := hPf_wakeWait t s.hpc s.queue.length
      have : wPot (wakeW { s.thr[t]! with running := false, pc := .top false }) + 7 = wPot s.thr[t]! := by
        simp only [wPot, wP, wW, wakeW, hp]; simp
      dsimp only at this hsum; omega
    · simp at hs
  · simp at hs

theorem phi_stepHandler (h : Inv s) (hs : stepHandler s = some s') : Phi s' < Phi s := by
  unfold stepHandler at hs
  split at hs
  · simp at hs
  · rename_i hh
    split at hs
    · rename_i t rest hq; cases hs
      simp only [Phi, hh, hq, hPf, hWf, List.length_cons]; omega
    · rename_i hq
      split at hs
      · cases hs; simp only [Phi, hh, hPf, hWf]; omega
      · cases hs; simp only [Phi, hh, hPf, hWf]; omega
  · simp at hs
  · rename_i t hh
    split at hs
    · cases hs; simp only [Phi, hh, hPf, hWf]; omega
    · cases hs
      have := sumThr_modify_same s.thr t (fun th => { th with res := none }) (by intro th; simp [wPot, wP, wW])
      simp only [setThr, Phi, hh, hPf, hWf, this]; omega
  · rename_i t r hh; cases hs
    rw [signalPool_eq]
    have := cPf_wakeC s.cpc s.njobs s.nextJob s.max s.count
    simp only [Phi, hh, hPf, hWf]; omega
  · rename_i r hh; cases hs; simp only [Phi, hh, hPf, hWf]; omega
  · simp at hs

/-- **Every real step strictly decreases the potential; a spurious wake-up adds at most one.** -/
theorem phi_step {l : Lbl} (h : Inv s) (hs : step s l = some s') :
    match l with | .run _ => Phi s' < Phi s | .spurious _ => Phi s' ≤ Phi s + 1 := by
  rcases l with (_|_|t)|(_|_|t)
  · exact phi_stepCaller h hs
  · exact phi_stepHandler h hs
  · exact phi_stepWorker _ h hs
  · simp only [step] at hs
    split at hs
    · rename_i hc; cases hs; simp only [Phi, hc, cPf, cWf]; omega
    · rename_i hc; cases hs; simp only [Phi, hc, cPf, cWf]; omega
    · simp at hs
  · simp only [step] at hs
    split at hs
    · rename_i hh; cases hs; simp only [Phi, hh, hPf, hWf]; omega
    · rename_i t hh; cases hs; simp only [Phi, hh, hPf, hWf]; omega
    · simp at hs
  · simp only [step] at hs
    split at hs
    · rename_i hp
      cases hs
      have ht : t < s.thr.size := by
        by_cases ht : t < s.thr.size
        · exact ht
        · simp [Array.getElem?_eq_none (Nat.le_of_not_lt ht)] at hp
      have hp' : (s.thr[t]!).pc = .top true := by
        rw [Array.getElem?_eq_getElem ht] at hp
        rw [getElem!_pos s.thr t ht]
        simpa using hp
      have hsum := sumThr_modify s.thr t (fun th => { th with pc := .top false }) ht
      have : wPot { s.thr[t]! with pc := .top false } = wPot s.thr[t]! + 1 := by
        simp only [wPot, wP, wW, hp']; simp
      dsimp only at this hsum; simp only [setThr, Phi]; omega
    · simp at hs

end Tp

/-! ### schedules: real steps are bounded, every maximal execution is complete -/
namespace Tp
variable {max njobs : Nat} {ordered : Bool} {s : St}

/-- (real steps taken, spurious wake-ups taken) when the schedule `ls` is run from `s` (labels that are not enabled
    are skipped, exactly as in `runSched`) -/
def stepCount (s : St) : List Lbl → Nat × Nat
  | [] => (0, 0)
  | l :: ls => match step s l with
    | some s' => match l with
      | .run _ => ((stepCount s' ls).1 + 1, (stepCount s' ls).2)
      | .spurious _ => ((stepCount s' ls).1, (stepCount s' ls).2 + 1)
    | none => stepCount s ls

theorem steps_bounded_of_inv (h : Inv s) (ls : List Lbl) :
    (stepCount s ls).1 + Phi (runSched s ls) ≤ Phi s + (stepCount s ls).2 := by
  induction ls generalizing s with
  | nil => simp [stepCount, runSched]
  | cons l ls ih =>
    unfold stepCount runSched
    cases hs : step s l with
    | none => simpa using ih h
    | some s' =>
      have hd := phi_step h hs
      have := ih (inv_step h hs)
      cases l with
      | run w => simp only at hd ⊢; omega
      | spurious w => simp only at hd ⊢; omega

theorem Phi_init (max njobs : Nat) (ordered : Bool) : Phi (init max njobs ordered) = 128 * njobs + 40 * max + 42 := by
  simp [Phi, init, cPf, hPf, cWf, hWf, sumThr]; omega

/-- along EVERY schedule from the initial state — fair or not, any pool size, any number of jobs — the number of real
    steps is at most `128·njobs + 40·max + 42` plus the number of spurious wake-ups that occurred -/
theorem steps_bounded (hm : 1 ≤ max) (ls : List Lbl) :
    (stepCount (init max njobs ordered) ls).1 ≤ 128 * njobs + 40 * max + 42 + (stepCount (init max njobs ordered) ls).2 := by
  have := steps_bounded_of_inv (inv_init max njobs ordered hm) ls
  rw [Phi_init] at this; omega

/-- a state in which no thread can take a real step is the final state: nobody is left waiting -/
theorem no_hang (hm : 1 ≤ max) (hr : Reachable max njobs ordered s)
    (hq : ∀ w, (step s (.run w)).isSome = false) : terminated s = true := by
  cases ht : terminated s with
  | true => rfl
  | false =>
    obtain ⟨w, hw⟩ := C13_deadlock_free hm hr ht
    rw [hq w] at hw; cases hw

/-- from every reachable state the final state is reached by SOME schedule of at most `Phi s` real steps without any
    spurious wake-up (termination is always still possible) -/
theorem can_finish (hm : 1 ≤ max) (hr : Reachable max njobs ordered s) :
    ∃ ls : List Who, ls.length ≤ Phi s ∧ terminated (runSched s (ls.map .run)) = true := by
  generalize hn : Phi s = n
  induction n using Nat.strongRecOn generalizing s with
  | _ n ih =>
    cases ht : terminated s with
    | true => exact ⟨[], by simp, by simpa [runSched] using ht⟩
    | false =>
      obtain ⟨w, hw⟩ := C13_deadlock_free hm hr ht
      obtain ⟨s', hs⟩ := Option.isSome_iff_exists.mp hw
      have hd := phi_step (inv_reachable hm hr) hs
      simp only at hd
      obtain ⟨ls, hl, hfin⟩ := ih (Phi s') (by omega) (.step hr hs) rfl
      refine ⟨w :: ls, by simp; omega, ?_⟩
      simp only [List.map_cons, runSched, hs]
      exact hfin

end Tp
