import MtblProofs.SorterProofs
import MtblProofs.SourceProofs
/-
  mtbl_sorter_write as a function of the sorter and writer models (the iterator is drained with `mergerDrain`).
-/
namespace Mtbl

/-- mtbl_sorter_write(sorter, writer): refused once iteration has begun; otherwise `mtbl_sorter_iter` (final flush, merger
    over the chunks; NULL = failure) and every entry of that iterator is added to the writer, stopping at the first refusal -/
def Sorter.writeTo (mc : MCfg) (fuel : Nat) (s : Sorter) (w : W) : Res × Sorter × W :=
  if s.iterating then (.failure, s, w) else
  let r := s.iter mc
  match r.1 with
  | none => (.failure, r.2, w)
  | some m => let x := w.writeFrom (mergerDrain mc fuel m); (x.1, r.2, x.2)

end Mtbl
