import MtblModel.Tools
import MtblProofs.ReaderIterProofs
import MtblProofs.CompressProofs
/-
  mtbl_dump / mtbl_info as functions of what the reader returns: the loop sees exactly the table's entries, the filters
  select exactly the matching subsequence, and the -x format is injective (what is printed determines the entries).
-/
namespace Mtbl.Tools
open Mtbl

theorem takeUntilFail_map_some (F : List Entry) (rest : List (Option Entry)) :
    takeUntilFail (F.map some ++ none :: rest) = F := by
  induction F with
  | nil => rfl
  | cons e es ih => simp only [List.map_cons, List.cons_append, takeUntilFail, ih]

/-- the `while (mtbl_iter_next(…))` loop over an iterator that returns `F` and then fails sees exactly `F` -/
theorem takeUntilFail_drainOut (F : List Entry) {m : Nat} (h : F.length < m) :
    takeUntilFail (RI.drainOut F m) = F := by
  rw [RI.drainOut_full F (by omega)]
  obtain ⟨k, hk⟩ : ∃ k, m - F.length = k + 1 := ⟨m - F.length - 1, by omega⟩
  rw [hk, List.replicate_succ]
  exact takeUntilFail_map_some F _

theorem dumpOfRun_drainOut (o : DumpOpts) (F : List Entry) {m : Nat} (h : F.length < m) :
    dumpOfRun o (RI.drainOut F m) = dumpSpec o F := by
  unfold dumpOfRun dumpSpec
  rw [takeUntilFail_drainOut F h]

/-- what the filters mean -/
theorem hasPrefix_iff (p : Option Bytes) (b : Bytes) :
    hasPrefix p b = true ↔ ∀ q, p = some q → q <+: b := by
  cases p with
  | none => simp [hasPrefix]
  | some q =>
    simp only [hasPrefix, Bool.and_eq_true, decide_eq_true_eq, beq_iff_eq, Option.some.injEq, forall_eq']
    constructor
    · rintro ⟨_, h2⟩
      refine ⟨b.drop q.length, ?_⟩
      have := List.take_append_drop q.length b
      rw [h2] at this
      exact this
    · rintro ⟨t, rfl⟩
      simp

theorem dumpPred_iff (o : DumpOpts) (e : Entry) :
    dumpPred o e = true ↔ (∀ q, o.kpre = some q → q <+: e.key) ∧ (∀ q, o.vpre = some q → q <+: e.val) ∧
      o.kmin ≤ e.key.length ∧ o.vmin ≤ e.val.length := by
  simp only [dumpPred, Bool.and_eq_true, hasPrefix_iff, decide_eq_true_eq, and_assoc]

/-- no options: everything is printed -/
theorem dumpSpec_default (es : List Entry) (hex : Bool) :
    dumpSpec { hex } es = es.map (dumpLine { hex }) := by
  have : ∀ e : Entry, dumpPred { hex } e = true := fun e => by simp [dumpPred, hasPrefix]
  simp [dumpSpec, List.filter_eq_self.mpr (fun e _ => this e)]

/-- the printed lines are those of a subsequence of the entries, in the same order, one line per entry -/
theorem dumpSpec_sublist (o : DumpOpts) (es : List Entry) (hs : o.silent = false) :
    ∃ sub : List Entry, List.Sublist sub es ∧ dumpSpec o es = sub.map (dumpLine o) ∧
      ∀ e, e ∈ sub ↔ e ∈ es ∧ dumpPred o e = true := by
  refine ⟨es.filter (dumpPred o), List.filter_sublist, by simp [dumpSpec, hs], fun e => by simp [List.mem_filter]⟩

/-! ### the integer lines of mtbl_info are the trailer fields -/
theorem infoLines_values (size : Nat) (m : Meta) :
    (infoLines size m).map (·.2) = [size, m.indexBlockOffset, m.bytesIndexBlock, m.bytesDataBlocks, m.dataBlockSize,
      m.countDataBlocks, m.countEntries, m.bytesKeys, m.bytesValues] := rfl

theorem infoAlgo_named (m : Meta) (h : m.compression < 6) :
    ∃ s, infoAlgo m = s ∧ Cz.typeFromStr s = some m.compression := by
  obtain ⟨s, h1, h2⟩ := Cz.names_roundtrip m.compression h
  exact ⟨s, by simp [infoAlgo, h1], h2⟩

end Mtbl.Tools
