import MtblModel.TpShare
/-
  Invariants of the pool shared by any number of callers and result handlers (every reachable state, every interleaving,
  every choice pthread_cond_signal may make, spurious wake-ups included):
    * a worker thread is in exactly one place: idle, or held by exactly one caller (exclusive hand-out);
    * `count = |idle| + |held| ≤ max`;
    * NO LOST WAKE-UP: while some caller sleeps without a pending signal, every idle thread is matched by a caller that
      has been signalled and not yet resumed — so an idle thread never sits next to callers that all sleep for ever.
-/
namespace TpShare

def nU (l : List (Nat × Bool)) : Nat := (l.filter fun p => !p.2).length
def nS (l : List (Nat × Bool)) : Nat := (l.filter fun p => p.2).length

theorem nU_nS (l : List (Nat × Bool)) : nU l + nS l = l.length := by
  induction l with
  | nil => rfl
  | cons p r ih => obtain ⟨c, b⟩ := p; cases b <;> simp [nU, nS] at ih ⊢ <;> omega

theorem signalOne_counts (l : List (Nat × Bool)) (k : Nat) (hk : k < nU l) :
    nU (signalOne l k) + 1 = nU l ∧ nS (signalOne l k) = nS l + 1 := by
  induction l generalizing k with
  | nil => simp [nU] at hk
  | cons p r ih =>
    obtain ⟨c, b⟩ := p
    cases b with
    | true =>
      have hk' : k < nU r := by simpa [nU] using hk
      have := ih k hk'
      simp [signalOne, nU, nS] at this ⊢; omega
    | false =>
      cases k with
      | zero => simp [signalOne, nU, nS]
      | succ k =>
        have hk' : k < nU r := by simp [nU] at hk ⊢; omega
        have := ih k hk'
        simp [signalOne, nU, nS] at this ⊢; omega

theorem signalOne_none (l : List (Nat × Bool)) (k : Nat) (h : nU l = 0) : signalOne l k = l := by
  induction l generalizing k with
  | nil => rfl
  | cons p r ih =>
    obtain ⟨c, b⟩ := p
    cases b with
    | true => simp [signalOne, ih k (by simpa [nU] using h)]
    | false => simp [nU] at h

theorem erase_true_counts (l : List (Nat × Bool)) (c : Nat) (h : (c, true) ∈ l) :
    nU (l.erase (c, true)) = nU l ∧ nS (l.erase (c, true)) + 1 = nS l := by
  induction l with
  | nil => simp at h
  | cons p r ih =>
    by_cases hp : p = (c, true)
    · subst hp; simp [nU, nS]
    · have hr : (c, true) ∈ r := by
        rcases List.mem_cons.mp h with h | h
        · exact absurd h.symm hp
        · exact h
      have := ih hr
      rw [List.erase_cons_tail (by simpa using hp)]
      obtain ⟨d, b⟩ := p
      cases b <;> simp [nU, nS] at this ⊢ <;> omega

theorem map_wake_counts (l : List (Nat × Bool)) (c : Nat) :
    nU (l.map fun p => if p = (c, false) then (c, true) else p) ≤ nU l ∧
    nU (l.map fun p => if p = (c, false) then (c, true) else p) + nS (l.map fun p => if p = (c, false) then (c, true) else p)
      = nU l + nS l := by
  constructor
  · induction l with
    | nil => simp [nU]
    | cons p r ih =>
      obtain ⟨d, b⟩ := p
      by_cases h : (d, b) = (c, false)
      · simp only [List.map_cons, h, if_true]; simp [nU] at ih ⊢; omega
      · simp only [List.map_cons, h, if_false]
        cases b <;> simp [nU] at ih ⊢ <;> omega
  · rw [nU_nS, nU_nS]; simp

theorem fst_ne_of_mem_erase {l : List (Nat × Nat)} {p q : Nat × Nat} (hn : (l.map (·.1)).Nodup) (hp : p ∈ l)
    (hq : q ∈ l.erase p) : q.1 ≠ p.1 := by
  induction l with
  | nil => simp at hp
  | cons x r ih =>
    simp only [List.map_cons] at hn
    obtain ⟨hx, hr⟩ := List.nodup_cons.mp hn
    by_cases hxp : x = p
    · subst hxp
      rw [List.erase_cons_head] at hq
      intro he
      exact hx (by rw [← he]; exact List.mem_map_of_mem hq)
    · rw [List.erase_cons_tail (by simpa using hxp)] at hq
      have hp' : p ∈ r := by
        rcases List.mem_cons.mp hp with h | h
        · exact absurd h.symm hxp
        · exact h
      rcases List.mem_cons.mp hq with rfl | hq
      · intro he; exact hx (by rw [he]; exact List.mem_map_of_mem hp')
      · exact ih hr hp' hq

/-- the invariant; `slack` = 1 only in the middle of a resume (the sleeper has left the list, the loop head has not run yet) -/
structure InvW (slack : Nat) (s : PSt) : Prop where
  idleNodup : s.idle.Nodup
  heldNodup : (s.held.map (·.1)).Nodup
  disj : ∀ t ∈ s.idle, t ∉ s.held.map (·.1)
  idleLt : ∀ t ∈ s.idle, t < s.fresh
  heldLt : ∀ t ∈ s.held.map (·.1), t < s.fresh
  cnt : s.count = s.idle.length + s.held.length
  le : s.count ≤ s.max
  wake : 0 < nU s.asleep → s.idle.length ≤ nS s.asleep + slack

abbrev Inv (s : PSt) : Prop := InvW 0 s

theorem inv_init (max : Nat) : Inv { max } :=
  ⟨List.nodup_nil, List.nodup_nil, by simp, by simp, by simp, rfl, Nat.zero_le _, by simp [nU]⟩

/-- the loop head of threadpool_next keeps the invariant, provided the wake-up condition holds in the form it has after a
    signalled sleeper was removed (`hw`) -/
theorem inv_loopHead {s : PSt} (c : Nat) (h : InvW 1 s) : Inv (loopHead s c) := by
  unfold loopHead
  split
  · rename_i t rest hi
    have hn := h.idleNodup; rw [hi] at hn
    obtain ⟨hn1, hn2⟩ := List.nodup_cons.mp hn
    refine ⟨hn2, ?_, ?_, ?_, ?_, ?_, h.le, ?_⟩
    · simp only [List.map_cons]
      exact List.nodup_cons.mpr ⟨h.disj t (by rw [hi]; simp), h.heldNodup⟩
    · intro u hu hm
      simp only [List.map_cons, List.mem_cons] at hm
      rcases hm with rfl | hm
      · exact hn1 hu
      · exact h.disj u (by rw [hi]; exact List.mem_cons_of_mem _ hu) hm
    · intro u hu; exact h.idleLt u (by rw [hi]; exact List.mem_cons_of_mem _ hu)
    · intro u hu
      simp only [List.map_cons, List.mem_cons] at hu
      rcases hu with rfl | hu
      · exact h.idleLt _ (by rw [hi]; simp)
      · exact h.heldLt u hu
    · have := h.cnt; rw [hi] at this; simp at this ⊢; omega
    · intro hu; have := h.wake hu; rw [hi] at this; simp at this ⊢; omega
  · rename_i hi
    split
    · rename_i hlt
      refine ⟨by rw [hi]; exact List.nodup_nil, ?_, by simp [hi], by simp [hi], ?_, ?_, by simp only; omega, by simp [hi]⟩
      · simp only [List.map_cons]
        refine List.nodup_cons.mpr ⟨fun hm => ?_, h.heldNodup⟩
        exact Nat.lt_irrefl _ (h.heldLt _ hm)
      · intro u hu
        simp only [List.map_cons, List.mem_cons] at hu
        rcases hu with rfl | hu
        · exact Nat.lt_succ_self _
        · exact Nat.lt_succ_of_lt (h.heldLt u hu)
      · have := h.cnt; simp [hi] at this ⊢; omega
    · exact ⟨h.idleNodup, h.heldNodup, h.disj, h.idleLt, h.heldLt, h.cnt, h.le, by simp [hi]⟩

theorem inv_step {s s' : PSt} {op : Op} (h : Inv s) (hs : step s op = some s') : Inv s' := by
  cases op with
  | take c =>
    simp only [step] at hs
    split at hs
    · cases hs
    · cases hs; exact inv_loopHead c ⟨h.idleNodup, h.heldNodup, h.disj, h.idleLt, h.heldLt, h.cnt, h.le, fun hu => Nat.le_succ_of_le (h.wake hu)⟩
  | resume c =>
    simp only [step] at hs
    split at hs
    · rename_i hc
      cases hs
      have hmem : (c, true) ∈ s.asleep := by simpa using hc
      obtain ⟨e1, e2⟩ := erase_true_counts s.asleep c hmem
      have h1 : InvW 1 { s with asleep := s.asleep.erase (c, true) } := by
        refine ⟨h.idleNodup, h.heldNodup, h.disj, h.idleLt, h.heldLt, h.cnt, h.le, ?_⟩
        intro hu
        simp only at hu ⊢
        rw [e1] at hu
        have := h.wake hu
        -- one signalled sleeper left the list: the idle thread it was woken for is taken (or re-slept on) right below
        omega
      exact inv_loopHead c h1
    · cases hs
  | spurious c =>
    simp only [step] at hs
    split at hs
    · cases hs
      obtain ⟨m1, m2⟩ := map_wake_counts s.asleep c
      refine ⟨h.idleNodup, h.heldNodup, h.disj, h.idleLt, h.heldLt, h.cnt, h.le, ?_⟩
      intro hu
      simp only at hu ⊢
      have := h.wake (by omega)
      omega
    · cases hs
  | give t k =>
    simp only [step] at hs
    split at hs
    · rename_i p hp
      cases hs
      have hpm : p ∈ s.held := List.mem_of_find?_eq_some hp
      have hpt : p.1 = t := by simpa using List.find?_some hp
      have hsub : ((s.held.erase p).map (·.1)).Sublist (s.held.map (·.1)) := (List.erase_sublist).map _
      have hne : ∀ u ∈ (s.held.erase p).map (·.1), u ≠ t := by
        intro u hu
        obtain ⟨q, hq, rfl⟩ := List.mem_map.mp hu
        rw [← hpt]; exact fst_ne_of_mem_erase h.heldNodup hpm hq
      refine ⟨?_, ?_, ?_, ?_, ?_, ?_, h.le, ?_⟩
      · refine List.nodup_cons.mpr ⟨fun hm => h.disj t hm (by rw [← hpt]; exact List.mem_map_of_mem hpm), h.idleNodup⟩
      · exact h.heldNodup.sublist hsub
      · intro u hu hm
        rcases List.mem_cons.mp hu with rfl | hu
        · exact hne _ hm rfl
        · exact h.disj u hu (hsub.subset hm)
      · intro u hu
        rcases List.mem_cons.mp hu with rfl | hu
        · exact h.heldLt _ (by rw [← hpt]; exact List.mem_map_of_mem hpm)
        · exact h.idleLt u hu
      · intro u hu
        exact h.heldLt u (hsub.subset hu)
      · have := h.cnt
        have hl : (s.held.erase p).length + 1 = s.held.length := by
          rw [List.length_erase_of_mem hpm]; have := List.length_pos_of_mem hpm; omega
        simp only [List.length_cons]; omega
      · intro hu
        simp only at hu ⊢
        by_cases h0 : nU s.asleep = 0
        · have : pick s k = 0 := by simp [pick, unsignalled, nU] at h0 ⊢; simp [h0]
          rw [signalOne_none _ _ h0] at hu
          omega
        · have hk : pick s k < nU s.asleep := by
            unfold pick unsignalled
            have : (s.asleep.filter fun p => !p.2).length = nU s.asleep := rfl
            rw [this, if_neg h0]
            exact Nat.mod_lt _ (Nat.pos_of_ne_zero h0)
          obtain ⟨c1, c2⟩ := signalOne_counts s.asleep (pick s k) hk
          have := h.wake (Nat.pos_of_ne_zero h0)
          simp only [List.length_cons]; omega
    · cases hs

theorem inv_reachable {max : Nat} {s : PSt} (hr : Reachable max s) : Inv s := by
  induction hr with
  | init => exact inv_init max
  | step _ hs ih => exact inv_step ih hs

end TpShare

namespace TpShare

theorem snd_eq_of_nodup_fst {l : List (Nat × Nat)} (hn : (l.map (·.1)).Nodup) {t c1 c2 : Nat}
    (h1 : (t, c1) ∈ l) (h2 : (t, c2) ∈ l) : c1 = c2 := by
  induction l with
  | nil => simp at h1
  | cons x r ih =>
    simp only [List.map_cons] at hn
    obtain ⟨hx, hr⟩ := List.nodup_cons.mp hn
    rcases List.mem_cons.mp h1 with e1 | m1 <;> rcases List.mem_cons.mp h2 with e2 | m2
    · rw [← e1] at e2; exact (Prod.mk.inj e2).2.symm ▸ rfl
    · exact absurd (List.mem_map_of_mem (f := (·.1)) m2) (by rw [← e1] at hx; exact hx)
    · exact absurd (List.mem_map_of_mem (f := (·.1)) m1) (by rw [← e2] at hx; exact hx)
    · exact ih hr m1 m2

/-- **exclusive hand-out**: a worker thread is held by at most one caller, and an idle thread by none -/
theorem share_exclusive {max : Nat} {s : PSt} (hr : Reachable max s) :
    (∀ t c1 c2, (t, c1) ∈ s.held → (t, c2) ∈ s.held → c1 = c2) ∧
    (∀ t c, t ∈ s.idle → (t, c) ∉ s.held) := by
  have h := inv_reachable hr
  refine ⟨fun t c1 c2 h1 h2 => snd_eq_of_nodup_fst h.heldNodup h1 h2, fun t c hi hm => ?_⟩
  exact h.disj t hi (List.mem_map_of_mem (f := (·.1)) hm)

/-- **bound**, for any number of callers: never more worker threads than the maximum -/
theorem share_bound {max : Nat} {s : PSt} (hr : Reachable max s) :
    s.count ≤ s.max ∧ s.count = s.idle.length + s.held.length :=
  ⟨(inv_reachable hr).le, (inv_reachable hr).cnt⟩

/-- **no lost wake-up**: if a caller sleeps without a pending signal while a thread is idle, some other caller has been
    signalled and not yet resumed — it will take a thread or go back to sleep, and the invariant holds again -/
theorem share_no_lost_wakeup {max : Nat} {s : PSt} (hr : Reachable max s)
    (hsl : ∃ c, (c, false) ∈ s.asleep) (hid : s.idle ≠ []) : ∃ c, (c, true) ∈ s.asleep := by
  have h := inv_reachable hr
  obtain ⟨c, hc⟩ := hsl
  have hu : 0 < nU s.asleep := by
    unfold nU
    exact List.length_pos_of_mem (List.mem_filter.mpr ⟨hc, by simp⟩)
  have := h.wake hu
  have hpos : 0 < nS s.asleep := by
    have : 0 < s.idle.length := List.length_pos_iff.mpr hid
    omega
  obtain ⟨p, hp⟩ := List.exists_mem_of_length_pos hpos
  obtain ⟨hm, hb⟩ := List.mem_filter.mp hp
  obtain ⟨d, b⟩ := p
  simp only at hb
  subst hb
  exact ⟨d, hm⟩

/-- why the signal after EVERY push matters: if the push signals only when the idle list was empty (the change seeded as
    C13e), two callers sleeping on a full pool of two can end with an idle thread and a sleeper nobody will wake -/
theorem lazy_signal_loses_a_wakeup :
    let run := fun (s : PSt) (ops : List Op) => ops.foldl (fun s op => (stepLazySignal s op).getD s) s
    let s := run { max := 2 } [.take 0, .take 1, .take 0, .take 1, .give 0 0, .give 1 0, .resume 0]
    s.idle = [0] ∧ s.asleep = [(1, false)] := by decide

/-- the same schedule with the real signalling leaves the second caller signalled -/
example :
    let run := fun (s : PSt) (ops : List Op) => ops.foldl (fun s op => (step s op).getD s) s
    let s := run { max := 2 } [.take 0, .take 1, .take 0, .take 1, .give 0 0, .give 1 0, .resume 0]
    s.idle = [0] ∧ s.asleep = [(1, true)] := by decide

end TpShare
