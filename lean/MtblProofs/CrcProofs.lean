import MtblModel.CrcImpl
/-
  C17: the table-driven (slicing-by-8) and the instruction-driven (SSE4.2) CRC-32C implementations
  equal the bitwise definition for every buffer and every alignment.

  Proof idea: `crcZ8` is GF(2)-linear on all of `Nat`, and is a plain `>>> 8` on numbers whose low byte
  is zero.  Hence feeding `n` bytes is `crcZ8^[n] (s ^^^ leLoad bytes)`, and `crcZ8^[k+1] x` peels off
  one table lookup per byte of `x`.  The concrete tables are related to `crcZ8^[k+1]` by a finite check.
-/
namespace Mtbl

namespace CrcP

/-! ### linearity and the register bound -/

theorem mod2_cases (a : Nat) : a % 2 = 0 ∨ a % 2 = 1 := by omega

theorem crcZ_xor (a b : Nat) : crcZ (a ^^^ b) = crcZ a ^^^ crcZ b := by
  unfold crcZ
  rw [Nat.shiftRight_xor_distrib]
  have h : (a ^^^ b) % 2 = a % 2 ^^^ b % 2 := Nat.xor_mod_two_pow (n := 1)
  rcases mod2_cases a with ha | ha <;> rcases mod2_cases b with hb | hb <;>
    simp only [h, ha, hb]
  · simp
  · simp; ac_rfl
  · simp; ac_rfl
  · have e : (a >>> 1 ^^^ crcP) ^^^ (b >>> 1 ^^^ crcP) = (a >>> 1 ^^^ b >>> 1) ^^^ (crcP ^^^ crcP) := by
      ac_rfl
    simp only [↓reduceIte]
    rw [e, Nat.xor_self]
    simp

theorem crcZ8_xor (a b : Nat) : crcZ8 (a ^^^ b) = crcZ8 a ^^^ crcZ8 b := by
  unfold crcZ8
  simp only [crcZ_xor]

theorem crcP_lt : crcP < 2 ^ 32 := by decide

theorem crcZ_lt {s : Nat} (h : s < 2 ^ 32) : crcZ s < 2 ^ 32 := by
  unfold crcZ
  apply Nat.xor_lt_two_pow
  · rw [Nat.shiftRight_eq_div_pow]; omega
  · split
    · exact crcP_lt
    · omega

theorem crcZ8_lt {s : Nat} (h : s < 2 ^ 32) : crcZ8 s < 2 ^ 32 := by
  unfold crcZ8
  exact crcZ_lt (crcZ_lt (crcZ_lt (crcZ_lt (crcZ_lt (crcZ_lt (crcZ_lt (crcZ_lt h)))))))

theorem byte_lt32 (b : UInt8) : b.toNat < 2 ^ 32 := by
  have := b.toNat_lt; omega

theorem crcByte_lt {s : Nat} (h : s < 2 ^ 32) (b : UInt8) : crcByte s b < 2 ^ 32 := by
  unfold crcByte
  exact crcZ8_lt (Nat.xor_lt_two_pow h (byte_lt32 b))

theorem foldl_crcByte_lt (d : Bytes) {s : Nat} (h : s < 2 ^ 32) : d.foldl crcByte s < 2 ^ 32 := by
  induction d generalizing s with
  | nil => exact h
  | cons b bs ih => exact ih (crcByte_lt h b)

/-! ### zero low byte: eight shifts without feedback -/

theorem crcZ_double (m : Nat) : crcZ (2 * m) = m := by
  unfold crcZ
  rw [Nat.shiftRight_eq_div_pow]
  have h1 : 2 * m % 2 = 0 := by omega
  have h2 : 2 * m / 2 ^ 1 = m := by omega
  simp [h1, h2]

theorem crcZ8_low0 {x : Nat} (h : x % 256 = 0) : crcZ8 x = x >>> 8 := by
  rw [Nat.shiftRight_eq_div_pow]
  have hx : x = 2 * (2 * (2 * (2 * (2 * (2 * (2 * (2 * (x / 2 ^ 8)))))))) := by omega
  unfold crcZ8
  conv => lhs; rw [hx]
  simp only [crcZ_double]

/-- `crcZ8 v = (v >>> 8) ^^^ T₀[v % 256]` for every `v` -/
theorem crcZ8_split (x : Nat) : crcZ8 x = crcZ8 (x % 256) ^^^ (x >>> 8) := by
  have hm : (x ^^^ x % 256) % 256 = 0 := by
    have := Nat.xor_mod_two_pow (a := x) (b := x % 256) (n := 8)
    simp only [Nat.reducePow] at this
    rw [this, Nat.mod_mod, Nat.xor_self]
  have hs : (x ^^^ x % 256) >>> 8 = x >>> 8 := by
    rw [Nat.shiftRight_xor_distrib]
    have : (x % 256) >>> 8 = 0 := by rw [Nat.shiftRight_eq_div_pow]; omega
    rw [this, Nat.xor_zero]
  have hx : x = x % 256 ^^^ (x ^^^ x % 256) := by
    rw [← Nat.xor_assoc, Nat.xor_comm (x % 256) x, Nat.xor_assoc, Nat.xor_self, Nat.xor_zero]
  conv => lhs; rw [hx]
  rw [crcZ8_xor, crcZ8_low0 hm, hs]

/-! ### iterates -/

/-- `crcZ8^[k]` -/
def zN : Nat → Nat → Nat
  | 0, x => x
  | k+1, x => zN k (crcZ8 x)

theorem zN_xor (k a b : Nat) : zN k (a ^^^ b) = zN k a ^^^ zN k b := by
  induction k generalizing a b with
  | zero => rfl
  | succ k ih => simp only [zN, crcZ8_xor, ih]

/-- peel one byte: a table lookup for the low byte, one iterate less for the rest -/
theorem zN_split (k x : Nat) : zN (k+1) x = zN (k+1) (x % 256) ^^^ zN k (x >>> 8) := by
  show zN k (crcZ8 x) = zN k (crcZ8 (x % 256)) ^^^ zN k (x >>> 8)
  rw [crcZ8_split x, zN_xor]

/-! ### the tables -/

set_option maxRecDepth 1000000 in
/-- `T[k][i] = crcZ8^[k+1] i` (finite check over the 8×256 entries) -/
theorem tbl_sem : ∀ k, k < 8 → ∀ i, i < 256 → tblGet genTables k i = zN (k+1) i := by
  decide +kernel

theorem tbl_sem' (k : Nat) (hk : k < 8) (x : Nat) : tblGet genTables k (x % 256) = zN (k+1) (x % 256) :=
  tbl_sem k hk (x % 256) (Nat.mod_lt _ (by decide))

/-! ### byte step -/

theorem sliceByte_eq (s : Nat) (b : UInt8) : sliceByte genTables s b = crcByte s b := by
  unfold sliceByte crcByte
  rw [tbl_sem' 0 (by decide), crcZ8_split (s ^^^ b.toNat)]
  show crcZ8 ((s ^^^ b.toNat) % 256) ^^^ s >>> 8 = _
  congr 1
  rw [Nat.shiftRight_xor_distrib]
  have : b.toNat >>> 8 = 0 := by
    have := b.toNat_lt
    rw [Nat.shiftRight_eq_div_pow]; omega
  rw [this, Nat.xor_zero]

theorem foldl_sliceByte_eq (d : Bytes) (s : Nat) : d.foldl (sliceByte genTables) s = d.foldl crcByte s := by
  induction d generalizing s with
  | nil => rfl
  | cons b bs ih => simp only [List.foldl_cons, sliceByte_eq, ih]

/-! ### feeding `n` bytes is `crcZ8^[n] (s ^^^ leLoad bytes)` -/

theorem add_eq_xor_byte (b : UInt8) (L : Nat) : b.toNat + 256 * L = b.toNat ^^^ 256 * L := by
  have hb := b.toNat_lt
  have h := Nat.two_pow_add_eq_or_of_lt (i := 8) (b := b.toNat) (by omega) L
  simp only [Nat.reducePow] at h
  rw [Nat.add_comm, h]
  -- or = xor for disjoint bits
  apply Nat.eq_of_testBit_eq
  intro i
  rw [Nat.testBit_or, Nat.testBit_xor]
  by_cases hi : i < 8
  · have : (256 * L).testBit i = false := by
      have := Nat.testBit_two_pow_mul (i := 8) (a := L) (j := i)
      simp only [Nat.reducePow] at this
      rw [this]; simp; omega
    simp [this]
  · have : b.toNat.testBit i = false := by
      apply Nat.testBit_lt_two_pow
      have : 2 ^ 8 ≤ 2 ^ i := Nat.pow_le_pow_right (by decide) (by omega)
      omega
    simp [this]

theorem foldl_crcByte_eq (d : Bytes) (s : Nat) : d.foldl crcByte s = zN d.length (s ^^^ leLoad d) := by
  induction d generalizing s with
  | nil => simp [leLoad, zN]
  | cons b bs ih =>
    rw [List.foldl_cons, ih]
    show _ = zN bs.length (crcZ8 (s ^^^ (b.toNat + 256 * leLoad bs)))
    rw [add_eq_xor_byte, ← Nat.xor_assoc, crcZ8_xor]
    have h0 : crcZ8 (256 * leLoad bs) = leLoad bs := by
      rw [crcZ8_low0 (by omega), Nat.shiftRight_eq_div_pow]; omega
    rw [h0]; rfl

/-! ### the 8-byte step -/

/-- `crcZ8^[8]` of a 64-bit value is eight table lookups, one per byte -/
theorem zN8 {X : Nat} (h : X < 2 ^ 64) :
    zN 8 X = tblGet genTables 7 (X % 256) ^^^ (tblGet genTables 6 ((X >>> 8) % 256) ^^^
      (tblGet genTables 5 ((X >>> 16) % 256) ^^^ (tblGet genTables 4 ((X >>> 24) % 256) ^^^
      (tblGet genTables 3 ((X >>> 32) % 256) ^^^ (tblGet genTables 2 ((X >>> 40) % 256) ^^^
      (tblGet genTables 1 ((X >>> 48) % 256) ^^^ tblGet genTables 0 ((X >>> 56) % 256))))))) := by
  have h0 : X >>> 64 = 0 := by rw [Nat.shiftRight_eq_div_pow]; omega
  rw [zN_split 7 X, zN_split 6 (X >>> 8), zN_split 5 (X >>> 8 >>> 8), zN_split 4 (X >>> 8 >>> 8 >>> 8),
    zN_split 3 (X >>> 8 >>> 8 >>> 8 >>> 8), zN_split 2 (X >>> 8 >>> 8 >>> 8 >>> 8 >>> 8),
    zN_split 1 (X >>> 8 >>> 8 >>> 8 >>> 8 >>> 8 >>> 8), zN_split 0 (X >>> 8 >>> 8 >>> 8 >>> 8 >>> 8 >>> 8 >>> 8)]
  simp only [← Nat.shiftRight_add, Nat.reduceAdd, h0, zN, Nat.xor_zero]
  rw [tbl_sem' 7 (by decide), tbl_sem' 6 (by decide), tbl_sem' 5 (by decide), tbl_sem' 4 (by decide),
    tbl_sem' 3 (by decide), tbl_sem' 2 (by decide), tbl_sem' 1 (by decide), tbl_sem' 0 (by decide)]
  simp only [zN]

theorem byte_xor (a b j : Nat) : ((a ^^^ b) >>> j) % 256 = (a >>> j) % 256 ^^^ (b >>> j) % 256 := by
  rw [Nat.shiftRight_xor_distrib]
  exact Nat.xor_mod_two_pow (n := 8)

theorem lo_byte {c L N : Nat} (hL : L < 2 ^ 32) {j : Nat} (hj : j = 0 ∨ j = 8 ∨ j = 16 ∨ j = 24) :
    ((c ^^^ (L + 2 ^ 32 * N)) >>> j) % 256 = ((c ^^^ L) >>> j) % 256 := by
  rw [byte_xor, byte_xor]
  congr 1
  have := hL
  rcases hj with rfl | rfl | rfl | rfl <;> simp only [Nat.shiftRight_eq_div_pow] <;> omega

theorem hi_byte {c L N : Nat} (hc : c < 2 ^ 32) (hL : L < 2 ^ 32) {j : Nat}
    (hj : j = 0 ∨ j = 8 ∨ j = 16 ∨ j = 24) :
    ((c ^^^ (L + 2 ^ 32 * N)) >>> (32 + j)) % 256 = (N >>> j) % 256 := by
  rw [byte_xor]
  have h1 : (c >>> (32 + j)) % 256 = 0 := by
    rcases hj with rfl | rfl | rfl | rfl <;> simp only [Nat.shiftRight_eq_div_pow] <;> omega
  have h2 : ((L + 2 ^ 32 * N) >>> (32 + j)) % 256 = (N >>> j) % 256 := by
    have := hL
    rcases hj with rfl | rfl | rfl | rfl <;> simp only [Nat.shiftRight_eq_div_pow] <;> omega
  rw [h1, h2, Nat.zero_xor]

theorem leLoad4_lt (b0 b1 b2 b3 : UInt8) : leLoad [b0, b1, b2, b3] < 2 ^ 32 := by
  have := b0.toNat_lt; have := b1.toNat_lt; have := b2.toNat_lt; have := b3.toNat_lt
  simp only [leLoad]; omega

theorem sliceQ_eq8 {crc : Nat} (hc : crc < 2 ^ 32) (b0 b1 b2 b3 b4 b5 b6 b7 : UInt8) :
    sliceQ genTables Generated.cLanes crc [b0, b1, b2, b3, b4, b5, b6, b7]
      = [b0, b1, b2, b3, b4, b5, b6, b7].foldl crcByte crc := by
  rw [foldl_crcByte_eq]
  have hL : leLoad [b0, b1, b2, b3, b4, b5, b6, b7]
      = leLoad [b0, b1, b2, b3] + 2 ^ 32 * leLoad [b4, b5, b6, b7] := by
    simp only [leLoad]; omega
  have hL4 := leLoad4_lt b0 b1 b2 b3
  have hN := leLoad4_lt b4 b5 b6 b7
  have hX : crc ^^^ leLoad [b0, b1, b2, b3, b4, b5, b6, b7] < 2 ^ 64 := by
    apply Nat.xor_lt_two_pow
    · omega
    · rw [hL]; omega
  show sliceQ genTables Generated.cLanes crc [b0, b1, b2, b3, b4, b5, b6, b7] = zN 8 _
  rw [zN8 hX, hL]
  have l0 := lo_byte (c := crc) (N := leLoad [b4, b5, b6, b7]) hL4 (j := 0) (by omega)
  have l1 := lo_byte (c := crc) (N := leLoad [b4, b5, b6, b7]) hL4 (j := 8) (by omega)
  have l2 := lo_byte (c := crc) (N := leLoad [b4, b5, b6, b7]) hL4 (j := 16) (by omega)
  have l3 := lo_byte (c := crc) (N := leLoad [b4, b5, b6, b7]) hL4 (j := 24) (by omega)
  have g0 := hi_byte (N := leLoad [b4, b5, b6, b7]) hc hL4 (j := 0) (by omega)
  have g1 := hi_byte (N := leLoad [b4, b5, b6, b7]) hc hL4 (j := 8) (by omega)
  have g2 := hi_byte (N := leLoad [b4, b5, b6, b7]) hc hL4 (j := 16) (by omega)
  have g3 := hi_byte (N := leLoad [b4, b5, b6, b7]) hc hL4 (j := 24) (by omega)
  simp only [Nat.shiftRight_zero, Nat.reduceAdd] at l0 l1 l2 l3 g0 g1 g2 g3
  rw [l0, l1, l2, l3, g0, g1, g2, g3]
  simp only [sliceQ, Generated.cLanes, List.foldl, List.take, List.drop, Nat.zero_xor, Nat.shiftRight_zero,
    Nat.xor_assoc, Bool.false_eq_true, ↓reduceIte]

theorem list8 {α : Type} (w : List α) (h : w.length = 8) :
    ∃ b0 b1 b2 b3 b4 b5 b6 b7, w = [b0, b1, b2, b3, b4, b5, b6, b7] := by
  rcases w with _ | ⟨b0, _ | ⟨b1, _ | ⟨b2, _ | ⟨b3, _ | ⟨b4, _ | ⟨b5, _ | ⟨b6, _ | ⟨b7, _ | ⟨b8, w⟩⟩⟩⟩⟩⟩⟩⟩⟩ <;>
    simp at h
  exact ⟨b0, b1, b2, b3, b4, b5, b6, b7, rfl⟩

theorem sliceQ_eq {crc : Nat} (hc : crc < 2 ^ 32) (w : Bytes) (hw : w.length = 8) :
    sliceQ genTables Generated.cLanes crc w = w.foldl crcByte crc := by
  obtain ⟨b0, b1, b2, b3, b4, b5, b6, b7, rfl⟩ := list8 w hw
  exact sliceQ_eq8 hc ..

theorem sliceQs_eq (n : Nat) {crc : Nat} (hc : crc < 2 ^ 32) (d : Bytes) (hd : 8 * n ≤ d.length) :
    sliceQs genTables Generated.cLanes n crc d = (d.take (8 * n)).foldl crcByte crc := by
  induction n generalizing crc d with
  | zero => simp [sliceQs]
  | succ n ih =>
    have hw : (d.take 8).length = 8 := by rw [List.length_take]; omega
    have hd' : 8 * n ≤ (d.drop 8).length := by rw [List.length_drop]; omega
    unfold sliceQs
    rw [sliceQ_eq hc _ hw, ih (foldl_crcByte_lt _ hc) _ hd', ← List.foldl_append, ← List.take_add]
    congr 2
    omega

/-! ### stitching -/

theorem slicingWith_gen (align : Nat) (buf : Bytes) :
    slicingWith genTables Generated.cLanes align buf = crc32c buf := by
  unfold slicingWith crc32c crcRaw
  simp only []
  generalize min buf.length ((4 - align % 4) % 4) = pro
  have hq : 8 * ((buf.drop pro).length / 8) ≤ (buf.drop pro).length := by omega
  rw [foldl_sliceByte_eq, foldl_sliceByte_eq, sliceQs_eq _ (foldl_crcByte_lt _ (by decide)) _ hq,
    ← List.foldl_append, ← List.foldl_append, List.take_append_drop, List.take_append_drop]

theorem sseQs_eq (n crc : Nat) (d : Bytes) : sseQs n crc d = (d.take (8 * n)).foldl crcByte crc := by
  induction n generalizing crc d with
  | zero => simp [sseQs]
  | succ n ih =>
    unfold sseQs crc32Instr
    rw [ih, ← List.foldl_append, ← List.take_add]
    congr 2
    omega

end CrcP

/-- each load starts where the previous one ended -/
def contiguousFrom : Nat → List (Nat × Nat) → Bool
  | _, [] => true
  | off, (o, w) :: ps => o == off && contiguousFrom (off + w) ps

/-- each load starts where the previous one ended, the first at offset 0 -/
def contiguous (prog : List (Nat × Nat)) : Bool := contiguousFrom 0 prog

namespace CrcP

theorem tail_fold (rest : Bytes) (prog : List (Nat × Nat)) (off crc : Nat)
    (h : contiguousFrom off prog = true) :
    prog.foldl (fun c (s : Nat × Nat) => crc32Instr c ((rest.drop s.1).take s.2)) crc
      = ((rest.drop off).take (prog.map (·.2)).sum).foldl crcByte crc := by
  induction prog generalizing off crc with
  | nil => simp
  | cons p ps ih =>
    obtain ⟨o, w⟩ := p
    simp only [contiguousFrom, Bool.and_eq_true, beq_iff_eq] at h
    obtain ⟨rfl, h2⟩ := h
    simp only [List.foldl_cons, List.map_cons, List.sum_cons]
    rw [ih _ _ h2, List.take_add, List.foldl_append, List.drop_drop]
    rfl

end CrcP

/-! ### the requested theorems -/

set_option maxRecDepth 1000000 in
theorem C17_tables : Generated.cTables = genTables := by decide +kernel

theorem C17_lanes : Generated.cLanes =
    [(7,false,0),(6,false,8),(5,false,16),(4,false,24),(3,true,0),(2,true,8),(1,true,16),(0,true,24)] := by
  decide

theorem C17_slicing (align : Nat) (buf : Bytes) : slicing align buf = crc32c buf := by
  unfold slicing
  rw [C17_tables]
  exact CrcP.slicingWith_gen align buf

theorem C17_ssetail : ∀ n, n < 8 →
    let prog := Generated.sseTail.getD n []
    (prog.map (·.2)).sum = n ∧ contiguous prog := by
  decide

theorem C17_sse42 (buf : Bytes) : sse42 buf = crc32c buf := by
  unfold sse42 sse42With crc32c crcRaw
  simp only []
  obtain ⟨hsum, hcont⟩ := C17_ssetail (buf.length % 8) (Nat.mod_lt _ (by decide))
  have hlen : (buf.drop (8 * (buf.length / 8))).length ≤ buf.length % 8 := by
    rw [List.length_drop]; omega
  rw [CrcP.sseQs_eq, CrcP.tail_fold _ _ 0 _ hcont, hsum, List.drop_zero, List.take_of_length_le hlen,
    ← List.foldl_append, List.take_append_drop]

/-- the standard check value -/
example : crc32c "123456789".toUTF8.toList = 0xE3069283 := by decide +kernel

end Mtbl
