import MtblModel.Varint
/-
  Proofs about the model of mtbl/varint.c and mtbl/fixed.c (MtblModel/Varint.lean).
  All statements are universally quantified.
-/
namespace Mtbl

namespace VarintAux

theorem toUInt8_toNat_of_lt {n : Nat} (h : n < 256) : n.toUInt8.toNat = n := by
  simp [Nat.toUInt8, UInt8.toNat_ofNat']; omega

theorem venc_lt {v : Nat} (h : v < 128) : venc v = [v.toUInt8] := by
  rw [venc]; simp [h]

theorem venc_ge {v : Nat} (h : 128 ≤ v) :
    venc v = (v % 128 + 128).toUInt8 :: venc (v / 128) := by
  rw [venc]; simp [Nat.not_lt.mpr h]

theorem vlen_lt {v : Nat} (h : v < 128) : vlen v = 1 := by
  rw [vlen]; simp [h]

theorem vlen_ge {v : Nat} (h : 128 ≤ v) : vlen v = 1 + vlen (v / 128) := by
  rw [vlen]; simp [Nat.not_lt.mpr h]

theorem venc_ne_nil (v : Nat) : venc v ≠ [] := by
  by_cases h : v < 128
  · rw [venc_lt h]; simp
  · rw [venc_ge (by omega)]; simp

end VarintAux

open VarintAux

/-! ### 1, 2: lengths -/

theorem venc_length (v : Nat) : (venc v).length = vlen v := by
  induction v using Nat.strongRecOn with
  | _ v ih =>
    by_cases h : v < 128
    · rw [venc_lt h, vlen_lt h]; rfl
    · rw [venc_ge (by omega), vlen_ge (by omega), List.length_cons, ih (v / 128) (by omega)]
      omega

theorem vlen_pos (v : Nat) : 0 < vlen v := by
  by_cases h : v < 128
  · rw [vlen_lt h]; omega
  · rw [vlen_ge (by omega)]; omega

namespace VarintAux

/-- `vlen v ≤ k` as soon as `v < 128^k` (k ≥ 1). -/
theorem vlen_le_of_lt_pow : ∀ (k : Nat) (v : Nat), v < 128 ^ (k + 1) → vlen v ≤ k + 1 := by
  intro k
  induction k with
  | zero => intro v h; rw [vlen_lt (by simpa using h)]; omega
  | succ k ih =>
    intro v h
    by_cases h1 : v < 128
    · rw [vlen_lt h1]; omega
    · rw [vlen_ge (by omega)]
      have : v / 128 < 128 ^ (k + 1) := by
        rw [Nat.div_lt_iff_lt_mul (by omega)]
        rw [Nat.pow_succ] at h; exact h
      have := ih (v / 128) this
      omega

end VarintAux

theorem vlen_le5 {v : Nat} (h : v < 2^32) : vlen v ≤ 5 :=
  vlen_le_of_lt_pow 4 v (by have : (2:Nat)^32 ≤ 128^(4+1) := by decide
                            omega)

theorem vlen_le10 {v : Nat} (h : v < 2^64) : vlen v ≤ 10 :=
  vlen_le_of_lt_pow 9 v (by have : (2:Nat)^64 ≤ 128^(9+1) := by decide
                            omega)

/-! ### 3: decode ∘ encode -/

theorem vdec_venc (v : Nat) : ∀ (shift fuel : Nat) (rest : Bytes), vlen v ≤ fuel →
    vdec fuel shift (venc v ++ rest) = some (v * 2^shift, vlen v) := by
  induction v using Nat.strongRecOn with
  | _ v ih =>
    intro shift fuel rest hf
    by_cases h : v < 128
    · rw [venc_lt h, vlen_lt h] at *
      cases fuel with
      | zero => omega
      | succ f =>
        simp [vdec, toUInt8_toNat_of_lt (show v < 256 by omega), h, Nat.mod_eq_of_lt h]
    · rw [venc_ge (by omega), vlen_ge (by omega)] at *
      cases fuel with
      | zero => omega
      | succ f =>
        have hb : ((v % 128 + 128).toUInt8).toNat = v % 128 + 128 :=
          toUInt8_toNat_of_lt (by omega)
        have hrec := ih (v/128) (by omega) (shift+7) f rest (by omega)
        simp only [List.cons_append, vdec, hb]
        rw [if_neg (by omega), hrec]
        simp only [Option.some.injEq, Prod.mk.injEq]
        refine ⟨?_, by omega⟩
        have h1 : (v % 128 + 128) % 128 = v % 128 := by omega
        rw [h1, Nat.pow_add]
        have hv : v = 128 * (v/128) + v % 128 := (Nat.div_add_mod v 128).symm
        generalize v / 128 = q at *
        generalize v % 128 = r at *
        subst hv
        have : (2:Nat)^7 = 128 := by decide
        rw [this, Nat.add_mul, Nat.mul_comm 128 q, Nat.mul_assoc, Nat.mul_comm (2^shift) 128,
          Nat.add_comm]

/-! ### 4: the unrolled 32-bit encoder equals the loop -/

namespace VarintAux

theorem or128_small : ∀ r : Fin 256, (r.val ||| 128) = r.val % 128 + 128 := by decide +kernel

theorem or128 (x : Nat) : (x ||| 128) % 256 = x % 128 + 128 := by
  have h := Nat.or_mod_two_pow (a := x) (b := 128) (n := 8)
  have e : (2:Nat)^8 = 256 := by decide
  rw [e] at h
  rw [h, show (128 % 256 : Nat) = 128 from rfl]
  have := or128_small ⟨x % 256, by omega⟩
  simp only at this
  rw [this]; omega

theorem u8_or128 (x : Nat) : u8 (x ||| 128) = (x % 128 + 128).toUInt8 := by
  rw [u8, or128]

theorem u8_of_lt {x : Nat} (h : x < 256) : u8 x = x.toUInt8 := by
  rw [u8, Nat.mod_eq_of_lt h]

end VarintAux

theorem venc32_eq_venc {v : Nat} (h : v < 2^32) : venc32 v = venc v := by
  have e7 : v >>> 7 = v / 128 := by rw [Nat.shiftRight_eq_div_pow]
  have e14 : v >>> 14 = v / 128 / 128 := by
    rw [Nat.shiftRight_eq_div_pow, Nat.div_div_eq_div_mul]
  have e21 : v >>> 21 = v / 128 / 128 / 128 := by
    rw [Nat.shiftRight_eq_div_pow, Nat.div_div_eq_div_mul, Nat.div_div_eq_div_mul]
  have e28 : v >>> 28 = v / 128 / 128 / 128 / 128 := by
    rw [Nat.shiftRight_eq_div_pow, Nat.div_div_eq_div_mul, Nat.div_div_eq_div_mul,
      Nat.div_div_eq_div_mul]
  have p7 : (2:Nat)^7 = 128 := by decide
  have p14 : (2:Nat)^14 = 128*128 := by decide
  have p21 : (2:Nat)^21 = 128*128*128 := by decide
  have p28 : (2:Nat)^28 = 128*128*128*128 := by decide
  have p32 : (2:Nat)^32 = 128*128*128*128*16 := by decide
  rw [p32] at h
  unfold venc32
  rw [e7, e14, e21, e28, p7, p14, p21, p28]
  simp only [u8_or128]
  by_cases h1 : v < 128
  · rw [if_pos h1, venc_lt h1, u8_of_lt (by omega)]
  · rw [if_neg h1, venc_ge (by omega)]
    by_cases h2 : v < 128*128
    · rw [if_pos h2, venc_lt (by omega), u8_of_lt (by omega)]
    · rw [if_neg h2, venc_ge (v := v/128) (by omega)]
      by_cases h3 : v < 128*128*128
      · rw [if_pos h3, venc_lt (by omega), u8_of_lt (by omega)]
      · rw [if_neg h3, venc_ge (v := v/128/128) (by omega)]
        by_cases h4 : v < 128*128*128*128
        · rw [if_pos h4, venc_lt (by omega), u8_of_lt (by omega)]
        · rw [if_neg h4, venc_ge (v := v/128/128/128) (by omega),
            venc_lt (by omega), u8_of_lt (by omega)]

/-! ### 5: the public decoders invert the encoders -/

theorem vdecode64_venc {v : Nat} (h : v < 2^64) (r : Bytes) :
    vdecode64 (venc v ++ r) = (v, vlen v) := by
  unfold vdecode64
  rw [vdec_venc v 0 10 r (vlen_le10 h)]
  simp only [Nat.pow_zero, Nat.mul_one, Nat.mod_eq_of_lt h]

theorem vdecode32_venc32 {v : Nat} (h : v < 2^32) (r : Bytes) :
    vdecode32 (venc32 v ++ r) = (v, vlen v) := by
  unfold vdecode32
  rw [venc32_eq_venc h, vdec_venc v 0 5 r (vlen_le5 h)]
  simp only [Nat.pow_zero, Nat.mul_one, Nat.mod_eq_of_lt h]

theorem vdecode64_venc32 {v : Nat} (h : v < 2^32) (r : Bytes) :
    vdecode64 (venc32 v ++ r) = (v, vlen v) := by
  rw [venc32_eq_venc h]
  exact vdecode64_venc (by have : (2:Nat)^32 ≤ 2^64 := by decide
                           omega) r

/-! ### 6, 7: `mtbl_varint_length_packed` -/

namespace VarintAux

theorem vlenPackedGo_venc (v : Nat) : ∀ (r : Bytes) (i : Nat),
    vlenPackedGo (venc v ++ r) i = i + vlen v := by
  induction v using Nat.strongRecOn with
  | _ v ih =>
    intro r i
    by_cases h : v < 128
    · rw [venc_lt h, vlen_lt h]
      simp [vlenPackedGo, toUInt8_toNat_of_lt (show v < 256 by omega), h]
    · rw [venc_ge (by omega), vlen_ge (by omega)]
      have hb : ((v % 128 + 128).toUInt8).toNat = v % 128 + 128 :=
        toUInt8_toNat_of_lt (by omega)
      simp only [List.cons_append, vlenPackedGo, hb]
      rw [if_neg (by omega), ih (v / 128) (by omega)]
      omega

theorem vlenPackedGo_truncated : ∀ (d : Bytes) (i : Nat), (∀ b ∈ d, 128 ≤ b.toNat) →
    vlenPackedGo d i = 0 := by
  intro d
  induction d with
  | nil => intro i _; rfl
  | cons b bs ih =>
    intro i h
    have hb := h b (by simp)
    simp only [vlenPackedGo]
    rw [if_neg (by omega)]
    exact ih (i + 1) (fun c hc => h c (by simp [hc]))

end VarintAux

theorem vlenPacked_venc (v : Nat) (r : Bytes) : vlenPacked (venc v ++ r) = vlen v := by
  unfold vlenPacked
  rw [vlenPackedGo_venc]; omega

theorem vlenPacked_truncated (d : Bytes) (h : ∀ b ∈ d, 128 ≤ b.toNat) : vlenPacked d = 0 :=
  vlenPackedGo_truncated d 0 h

/-! ### 8: over-long input is rejected -/

namespace VarintAux

theorem vdec_none_of_cont : ∀ (fuel shift : Nat) (d : Bytes),
    (∀ b ∈ d.take fuel, 128 ≤ b.toNat) → vdec fuel shift d = none := by
  intro fuel
  induction fuel with
  | zero => intro shift d _; cases d <;> rfl
  | succ f ih =>
    intro shift d h
    cases d with
    | nil => rfl
    | cons b bs =>
      have hb := h b (by simp)
      simp only [vdec]
      rw [if_neg (by omega), ih (shift + 7) bs (fun c hc => h c (by simp [hc]))]

end VarintAux

set_option linter.unusedVariables false in
theorem vdecode32_overlong (d : Bytes) (h5 : 5 ≤ d.length)
    (h : ∀ b ∈ d.take 5, 128 ≤ b.toNat) : vdecode32 d = (0, 0) := by
  unfold vdecode32
  rw [vdec_none_of_cont 5 0 d h]

set_option linter.unusedVariables false in
theorem vdecode64_overlong (d : Bytes) (h10 : 10 ≤ d.length)
    (h : ∀ b ∈ d.take 10, 128 ≤ b.toNat) : vdecode64 d = (0, 0) := by
  unfold vdecode64
  rw [vdec_none_of_cont 10 0 d h]

/-! ### 9: standard little-endian base-128 form -/

def leb128Val : Bytes → Nat
  | [] => 0
  | b :: bs => b.toNat % 128 + 128 * leb128Val bs

namespace VarintAux

theorem leb128Val_venc (v : Nat) : leb128Val (venc v) = v := by
  induction v using Nat.strongRecOn with
  | _ v ih =>
    by_cases h : v < 128
    · rw [venc_lt h]
      simp only [leb128Val, toUInt8_toNat_of_lt (show v < 256 by omega)]
      omega
    · rw [venc_ge (by omega)]
      simp only [leb128Val, toUInt8_toNat_of_lt (show v % 128 + 128 < 256 by omega)]
      rw [ih (v / 128) (by omega)]
      omega

theorem venc_dropLast_cont (v : Nat) : ∀ b ∈ (venc v).dropLast, 128 ≤ b.toNat := by
  induction v using Nat.strongRecOn with
  | _ v ih =>
    by_cases h : v < 128
    · rw [venc_lt h]; simp
    · rw [venc_ge (by omega)]
      obtain ⟨x, xs, hx⟩ := List.exists_cons_of_ne_nil (venc_ne_nil (v / 128))
      have ih' := ih (v / 128) (by omega)
      rw [hx] at ih' ⊢
      rw [List.dropLast_cons_cons]
      intro b hb
      rcases List.mem_cons.mp hb with hb | hb
      · rw [hb, toUInt8_toNat_of_lt (show v % 128 + 128 < 256 by omega)]; omega
      · exact ih' b hb

theorem venc_last (v : Nat) : ∀ b, (venc v).getLast? = some b →
    b.toNat < 128 ∧ (0 < v → b.toNat ≠ 0) := by
  induction v using Nat.strongRecOn with
  | _ v ih =>
    intro b hb
    by_cases h : v < 128
    · rw [venc_lt h] at hb
      simp only [List.getLast?_singleton, Option.some.injEq] at hb
      rw [← hb, toUInt8_toNat_of_lt (show v < 256 by omega)]
      omega
    · rw [venc_ge (by omega)] at hb
      obtain ⟨x, xs, hx⟩ := List.exists_cons_of_ne_nil (venc_ne_nil (v / 128))
      have ih' := ih (v / 128) (by omega) b
      rw [hx] at ih' hb
      rw [List.getLast?_cons_cons] at hb
      have := ih' hb
      refine ⟨this.1, fun _ => this.2 (by omega)⟩

end VarintAux

theorem venc_standard (v : Nat) :
    leb128Val (venc v) = v ∧ (∀ b ∈ (venc v).dropLast, 128 ≤ b.toNat) ∧
    (∀ b, (venc v).getLast? = some b → b.toNat < 128 ∧ (128 ≤ v → b.toNat ≠ 0)) := by
  refine ⟨leb128Val_venc v, venc_dropLast_cont v, ?_⟩
  intro b hb
  have := venc_last v b hb
  exact ⟨this.1, fun h => this.2 (by omega)⟩

/-! ### 10: fixed width -/

theorem fixed32_length (v : Nat) : (fixed32 v).length = 4 := rfl

theorem fixed64_length (v : Nat) : (fixed64 v).length = 8 := rfl

theorem dec32_fixed32 {v : Nat} (h : v < 2^32) (r : Bytes) : dec32 (fixed32 v ++ r) = v := by
  have p : (2:Nat)^32 = 4294967296 := by decide
  rw [p] at h
  simp only [fixed32, dec32, List.cons_append, List.nil_append]
  rw [toUInt8_toNat_of_lt (Nat.mod_lt _ (by omega)), toUInt8_toNat_of_lt (Nat.mod_lt _ (by omega)),
    toUInt8_toNat_of_lt (Nat.mod_lt _ (by omega)), toUInt8_toNat_of_lt (Nat.mod_lt _ (by omega))]
  omega

theorem dec64_fixed64 {v : Nat} (h : v < 2^64) (r : Bytes) : dec64 (fixed64 v ++ r) = v := by
  have p : (2:Nat)^64 = 4294967296 * 4294967296 := by decide
  have p32 : (2:Nat)^32 = 4294967296 := by decide
  rw [p] at h
  unfold dec64 fixed64
  rw [List.append_assoc, dec32_fixed32 (by rw [p32]; exact Nat.mod_lt _ (by omega))]
  have hd : List.drop 4 (fixed32 (v % 4294967296) ++
      (fixed32 (v / 4294967296 % 4294967296) ++ r)) = fixed32 (v / 4294967296 % 4294967296) ++ r := by
    rw [List.drop_append_of_le_length (by rw [fixed32_length]; omega)]
    simp [fixed32]
  rw [hd, dec32_fixed32 (by rw [p32]; exact Nat.mod_lt _ (by omega))]
  omega

namespace VarintAux

theorem toNat_toUInt8 (a : UInt8) : a.toNat.toUInt8 = a := by
  simp [Nat.toUInt8]

theorem toUInt8_of_mod_eq {n : Nat} {a : UInt8} (h : n % 256 = a.toNat) :
    (n % 256).toUInt8 = a := by
  rw [h, toNat_toUInt8]

end VarintAux

theorem fixed32_dec32 (a b c d : UInt8) (r : Bytes) :
    fixed32 (dec32 (a :: b :: c :: d :: r)) = [a, b, c, d] := by
  have ha := a.toNat_lt
  have hb := b.toNat_lt
  have hc := c.toNat_lt
  have hd := d.toNat_lt
  simp only [dec32, fixed32]
  rw [toUInt8_of_mod_eq (a := a) (by omega), toUInt8_of_mod_eq (a := b) (by omega),
    toUInt8_of_mod_eq (a := c) (by omega), toUInt8_of_mod_eq (a := d) (by omega)]

theorem dec32_lt (d : Bytes) : dec32 d < 2^32 := by
  have p : (2:Nat)^32 = 4294967296 := by decide
  rw [p]
  unfold dec32
  split
  · next a b c e _ =>
    have ha := a.toNat_lt
    have hb := b.toNat_lt
    have hc := c.toNat_lt
    have he := e.toNat_lt
    omega
  · omega

theorem dec64_lt (d : Bytes) : dec64 d < 2^64 := by
  have p : (2:Nat)^64 = 4294967296 * 4294967296 := by decide
  have p32 : (2:Nat)^32 = 4294967296 := by decide
  have h1 := dec32_lt d
  have h2 := dec32_lt (d.drop 4)
  rw [p32] at h1 h2
  rw [p]
  unfold dec64
  omega

theorem fixed64_dec64 (a0 a1 a2 a3 a4 a5 a6 a7 : UInt8) (r : Bytes) :
    fixed64 (dec64 (a0 :: a1 :: a2 :: a3 :: a4 :: a5 :: a6 :: a7 :: r)) =
      [a0, a1, a2, a3, a4, a5, a6, a7] := by
  have p32 : (2:Nat)^32 = 4294967296 := by decide
  have h1 := dec32_lt (a0 :: a1 :: a2 :: a3 :: a4 :: a5 :: a6 :: a7 :: r)
  have h2 := dec32_lt (a4 :: a5 :: a6 :: a7 :: r)
  rw [p32] at h1 h2
  unfold dec64 fixed64
  simp only [List.drop_succ_cons, List.drop_zero]
  have e1 : (dec32 (a0 :: a1 :: a2 :: a3 :: a4 :: a5 :: a6 :: a7 :: r) +
      4294967296 * dec32 (a4 :: a5 :: a6 :: a7 :: r)) % 4294967296 =
      dec32 (a0 :: a1 :: a2 :: a3 :: a4 :: a5 :: a6 :: a7 :: r) := by omega
  have e2 : (dec32 (a0 :: a1 :: a2 :: a3 :: a4 :: a5 :: a6 :: a7 :: r) +
      4294967296 * dec32 (a4 :: a5 :: a6 :: a7 :: r)) / 4294967296 % 4294967296 =
      dec32 (a4 :: a5 :: a6 :: a7 :: r) := by omega
  rw [e1, e2, fixed32_dec32, fixed32_dec32]
  rfl

/-! ### 11: sequential decoding -/

theorem vdecR_venc (v fuel : Nat) (rest : Bytes) (h : vlen v ≤ fuel) :
    vdecR fuel (venc v ++ rest) = some (v, rest) := by
  unfold vdecR
  rw [vdec_venc v 0 fuel rest h]
  simp only [Nat.pow_zero, Nat.mul_one]
  rw [← venc_length v, List.drop_left]

end Mtbl
